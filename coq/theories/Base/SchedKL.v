(* Base/SchedKL.v — cooperative-task primitives for the KeyedLock (C25) and iter_utils (C29) models.

   A task is a small state machine whose steps are the atomic segments between two suspensions
   (asyncio runs one task step to its next real suspension without interleaving).  What a
   suspended task waits for is a future; its state is stored with the task ([fstate]).

   TRUSTED PRIMITIVE (assumed behaviour of CPython 3.12 asyncio, stated here as executable
   definitions and differentially tested against the real objects by harness/suites/keyedlock.py,
   suite `asynciolock`):

   * asyncio.Lock — [lock]: `_locked` flag + FIFO deque `_waiters` (here: the ids of the waiting
     tasks; each waiter future belongs to exactly one task).
       acquire  : if not locked and every queued waiter future is cancelled: take it without
                  suspending ([lk_can_take]); otherwise append a new future and suspend.
       resumed normally (future has a result): remove own future, set locked.
       resumed by CancelledError (future cancelled, or Task._must_cancel): remove own future; if the
                  lock is not locked pass the wake-up on ([lk_resume_cancel]); re-raise.
       release  : unlocked; `_wake_up_first`: give the FIRST queued future a result if it is still
                  pending (a done first future — woken or cancelled — means nothing is woken now).
   * Task.cancel() — [task_cancel]: on a finished task nothing; if the awaited future is still
     pending it is cancelled; otherwise (`not started yet` or `future already done`)
     `_must_cancel` is set and the next step of the task receives CancelledError.
   The section PlainLock at the end is the reference program `async with lock: <body>` over these
   primitives; it exists only so that the primitives themselves are compared with asyncio.  *)
From Coq Require Import List Bool Arith Lia.
Import ListNotations.

Inductive fstate := FPending | FResult | FCancelled.

Definition is_pending (f : fstate) : bool := match f with FPending => true | _ => false end.
Definition is_cancelled (f : fstate) : bool := match f with FCancelled => true | _ => false end.

Record lock := mkLock { l_locked : bool; l_waiters : list nat }.
Definition lock_new : lock := mkLock false [].

(* deque.remove(x): first occurrence *)
Fixpoint rm1 (i : nat) (l : list nat) : list nat :=
  match l with
  | [] => []
  | x :: r => if x =? i then r else x :: rm1 i r
  end.

Fixpoint upd {A} (i : nat) (x : A) (l : list A) : list A :=
  match l, i with
  | [], _ => []
  | _ :: r, 0 => x :: r
  | y :: r, S j => y :: upd j x r
  end.

Section LockOps.
  Variable futs : nat -> fstate.     (* state of the future task i currently awaits *)

  Definition all_cancelled (ws : list nat) : bool := forallb (fun w => is_cancelled (futs w)) ws.

  (* fast path of Lock.acquire *)
  Definition lk_can_take (l : lock) : bool := negb (l_locked l) && all_cancelled (l_waiters l).

  (* _wake_up_first: the task whose future gets a result now, if any *)
  Definition lk_wake_first (ws : list nat) : option nat :=
    match ws with
    | [] => None
    | w :: _ => if is_pending (futs w) then Some w else None
    end.

  Definition lk_take (l : lock) : lock := mkLock true (l_waiters l).
  Definition lk_enqueue (l : lock) (i : nat) : lock := mkLock (l_locked l) (l_waiters l ++ [i]).

  (* the waiter [i] resumes with a result *)
  Definition lk_resume_ok (l : lock) (i : nat) : lock := mkLock true (rm1 i (l_waiters l)).

  (* the waiter [i] resumes with CancelledError *)
  Definition lk_resume_cancel (l : lock) (i : nat) : lock * option nat :=
    let ws := rm1 i (l_waiters l) in
    (mkLock (l_locked l) ws, if l_locked l then None else lk_wake_first ws).

  (* release() on a locked lock *)
  Definition lk_release (l : lock) : lock * option nat :=
    (mkLock false (l_waiters l), lk_wake_first (l_waiters l)).
End LockOps.

(* association lists = Python dicts in insertion order *)
Section Assoc.
  Context {V : Type}.
  Fixpoint alookup (k : nat) (l : list (nat * V)) : option V :=
    match l with
    | [] => None
    | (k', v) :: r => if k' =? k then Some v else alookup k r
    end.
  Fixpoint aset (k : nat) (v : V) (l : list (nat * V)) : list (nat * V) :=
    match l with
    | [] => [(k, v)]
    | (k', v') :: r => if k' =? k then (k', v) :: r else (k', v') :: aset k v r
    end.
  Fixpoint adel (k : nat) (l : list (nat * V)) : list (nat * V) :=
    match l with
    | [] => []
    | (k', v') :: r => if k' =? k then adel k r else (k', v') :: adel k r
    end.
End Assoc.

(* Task.cancel() on a live task: [f] = state of the awaited future (None: first step not run yet) *)
Definition task_cancel (f : option fstate) (mc : bool) : option fstate * bool :=
  match f with
  | Some FPending => (Some FCancelled, mc)
  | _ => (f, true)
  end.

(* ---------- reference program over the primitives:  async with locks[k]: await gate ---------- *)
Module PlainLock.
  Inductive ppc := LInit | LWait | LHeld | LDone (cancelled : bool).
  Record ptask := mkP { p_lock : nat; p_pc : ppc; p_fut : fstate; p_mc : bool }.
  Record pst := mkPst { ps_tasks : list ptask; ps_locks : list lock; ps_err : bool }.
  Definition pdflt := mkP 0 (LDone false) FPending false.
  Definition pget (s : pst) i := nth i (ps_tasks s) pdflt.
  Definition pfuts (s : pst) : nat -> fstate := fun i => p_fut (pget s i).
  Definition pinit (ks : list nat) (nlocks : nat) : pst :=
    mkPst (map (fun k => mkP k LInit FPending false) ks) (repeat lock_new nlocks) false.
  Definition pset (s : pst) i (t : ptask) := mkPst (upd i t (ps_tasks s)) (ps_locks s) (ps_err s).
  Definition psetl (s : pst) k (l : lock) := mkPst (ps_tasks s) (upd k l (ps_locks s)) (ps_err s).
  Definition ppc_set (s : pst) i p := pset s i (mkP (p_lock (pget s i)) p FPending false).
  Definition pwake (s : pst) (o : option nat) :=
    match o with
    | None => s
    | Some w => let t := pget s w in pset s w (mkP (p_lock t) (p_pc t) FResult (p_mc t))
    end.
  Definition pready (t : ptask) :=
    match p_pc t with LInit => true | LDone _ => false | _ => negb (is_pending (p_fut t)) end.
  Definition prun (s : pst) (i : nat) : pst :=
    let t := pget s i in
    let k := p_lock t in
    let l := nth k (ps_locks s) lock_new in
    let rc := is_cancelled (p_fut t) || p_mc t in
    if negb (i <? length (ps_tasks s)) || negb (pready t) then s else
    match p_pc t with
    | LInit => if p_mc t then ppc_set s i (LDone true)
               else if lk_can_take (pfuts s) l then ppc_set (psetl s k (lk_take l)) i LHeld
               else ppc_set (psetl s k (lk_enqueue l i)) i LWait
    | LWait => if rc then let '(l', w) := lk_resume_cancel (pfuts s) l i in
                          ppc_set (pwake (psetl s k l') w) i (LDone true)
               else ppc_set (psetl s k (lk_resume_ok l i)) i LHeld
    | LHeld => if l_locked l then let '(l', w) := lk_release (pfuts s) l in
                                  ppc_set (pwake (psetl s k l') w) i (LDone rc)
               else mkPst (ps_tasks (ppc_set s i (LDone false))) (ps_locks s) true
    | LDone _ => s
    end.
  Definition popen (s : pst) i :=
    let t := pget s i in
    match p_pc t with
    | LHeld => if is_pending (p_fut t) && (i <? length (ps_tasks s))
               then pset s i (mkP (p_lock t) LHeld FResult (p_mc t)) else s
    | _ => s
    end.
  Definition pcancel (s : pst) i :=
    let t := pget s i in
    if negb (i <? length (ps_tasks s)) then s else
    match p_pc t with
    | LDone _ => s
    | LInit => pset s i (mkP (p_lock t) LInit (p_fut t) (snd (task_cancel None (p_mc t))))
    | p => match task_cancel (Some (p_fut t)) (p_mc t) with
           | (Some f, m) => pset s i (mkP (p_lock t) p f m)
           | (None, m) => pset s i (mkP (p_lock t) p (p_fut t) m)
           end
    end.
End PlainLock.
