(* Base/SchedRes.v — a small interleaving semantics for cooperative (asyncio) tasks.

   A system is a state type, a type of scheduler choices and a total [step] function: one choice =
   one atomic segment (the code a task runs between two await points) or one external action.
   A choice that is not enabled in the current state is a no-op, so *every* list of choices is a
   schedule and "for all schedules" is plain induction on the list.

   Also: association lists keyed by Z (Python dicts / deques with identities), with the update,
   delete and counting lemmas the models built on top need.  Used by Model/RunLimit.v (C30) and
   Model/Resource.v (C22). *)
From Coq Require Import List ZArith Bool Lia.
Import ListNotations.
Open Scope Z_scope.

Section Interleave.
  Context {St Choice : Type}.
  Variable step : St -> Choice -> St.

  Definition run_sched (s : St) (sched : list Choice) : St := fold_left step sched s.

  Lemma run_sched_nil : forall s, run_sched s [] = s.
  Proof. reflexivity. Qed.

  Lemma run_sched_cons : forall s c sched, run_sched s (c :: sched) = run_sched (step s c) sched.
  Proof. reflexivity. Qed.

  Lemma run_sched_app : forall s a b, run_sched s (a ++ b) = run_sched (run_sched s a) b.
  Proof. intros. unfold run_sched. apply fold_left_app. Qed.

  (* an invariant of every atomic segment is an invariant of every schedule *)
  Theorem inv_all_schedules : forall (Inv : St -> Prop),
    (forall s c, Inv s -> Inv (step s c)) ->
    forall sched s, Inv s -> Inv (run_sched s sched).
  Proof.
    intros Inv Hstep sched. induction sched as [|c sched IH]; intros s Hs.
    - exact Hs.
    - rewrite run_sched_cons. apply IH. apply Hstep. exact Hs.
  Qed.

  (* ... and holds at every intermediate point (every prefix of the schedule) *)
  Theorem inv_every_prefix : forall (Inv : St -> Prop),
    (forall s c, Inv s -> Inv (step s c)) ->
    forall sched s, Inv s -> forall k, Inv (run_sched s (firstn k sched)).
  Proof.
    intros Inv Hstep sched s Hs k. apply inv_all_schedules; assumption.
  Qed.

  (* two-state (relational) version: a simulation preserved by matching steps *)
  Theorem rel_all_schedules : forall (R : St -> St -> Prop) (f : Choice -> bool),
    (forall s1 s2 c, R s1 s2 -> f c = true -> R (step s1 c) (step s2 c)) ->
    (forall s1 s2 c, R s1 s2 -> f c = false -> R (step s1 c) s2) ->
    forall sched s1 s2, R s1 s2 -> R (run_sched s1 sched) (run_sched s2 (filter f sched)).
  Proof.
    intros R f Hin Hout sched. induction sched as [|c sched IH]; intros s1 s2 HR.
    - exact HR.
    - cbn [filter]. destruct (f c) eqn:E.
      + rewrite !run_sched_cons. apply IH. apply Hin; assumption.
      + rewrite run_sched_cons. apply IH. apply Hout; assumption.
  Qed.
End Interleave.

(* ---------------------------------------------------------------------------------------- *)
(* association lists keyed by Z                                                               *)

Section AList.
  Context {V : Type}.

  Fixpoint alookup (k : Z) (l : list (Z * V)) : option V :=
    match l with
    | [] => None
    | (k', v) :: t => if k' =? k then Some v else alookup k t
    end.

  (* replace the value under an existing key (all occurrences; keys are unique in use) *)
  Fixpoint aupd (k : Z) (v : V) (l : list (Z * V)) : list (Z * V) :=
    match l with
    | [] => []
    | (k', v') :: t => if k' =? k then (k', v) :: aupd k v t else (k', v') :: aupd k v t
    end.

  (* dict[k] = v : replace in place, or append *)
  Fixpoint aset (k : Z) (v : V) (l : list (Z * V)) : list (Z * V) :=
    match l with
    | [] => [(k, v)]
    | (k', v') :: t => if k' =? k then (k', v) :: t else (k', v') :: aset k v t
    end.

  (* del dict[k] (every entry under k; keys are unique in use) *)
  Fixpoint adel (k : Z) (l : list (Z * V)) : list (Z * V) :=
    match l with
    | [] => []
    | (k', v') :: t => if k' =? k then adel k t else (k', v') :: adel k t
    end.

  Definition akeys (l : list (Z * V)) : list Z := map fst l.

  Lemma akeys_aupd : forall k v l, akeys (aupd k v l) = akeys l.
  Proof.
    induction l as [|[k' v'] t IH]; cbn; [reflexivity|].
    destruct (k' =? k); cbn; f_equal; exact IH.
  Qed.

  Lemma akeys_app : forall l1 l2, akeys (l1 ++ l2) = akeys l1 ++ akeys l2.
  Proof. intros. unfold akeys. apply map_app. Qed.

  Lemma alookup_None_notin : forall k l, alookup k l = None <-> ~ In k (akeys l).
  Proof.
    induction l as [|[k' v'] t IH]; cbn.
    - tauto.
    - destruct (k' =? k) eqn:E.
      + apply Z.eqb_eq in E. split; [discriminate|]. intros H. exfalso. apply H. left. exact E.
      + apply Z.eqb_neq in E. rewrite IH. tauto.
  Qed.

  Lemma alookup_Some_in : forall k v l, alookup k l = Some v -> In (k, v) l.
  Proof.
    induction l as [|[k' v'] t IH]; cbn; [discriminate|].
    destruct (k' =? k) eqn:E.
    - apply Z.eqb_eq in E. intros H. inversion H. subst. left. reflexivity.
    - intros H. right. apply IH. exact H.
  Qed.

  Lemma alookup_aupd_same : forall k v l, alookup k (aupd k v l) = match alookup k l with Some _ => Some v | None => None end.
  Proof.
    induction l as [|[k' v'] t IH]; cbn; [reflexivity|].
    destruct (k' =? k) eqn:E; cbn; rewrite E; [reflexivity|exact IH].
  Qed.

  Lemma alookup_aupd_other : forall k k' v l, k' <> k -> alookup k' (aupd k v l) = alookup k' l.
  Proof.
    induction l as [|[k0 v0] t IH]; cbn; [reflexivity|]. intros Hne.
    destruct (k0 =? k) eqn:E; cbn.
    - apply Z.eqb_eq in E. subst k0. destruct (k =? k') eqn:E'.
      + apply Z.eqb_eq in E'. congruence.
      + apply IH. exact Hne.
    - destruct (k0 =? k'); [reflexivity|apply IH; exact Hne].
  Qed.

  Lemma alookup_app : forall k l1 l2,
    alookup k (l1 ++ l2) = match alookup k l1 with Some v => Some v | None => alookup k l2 end.
  Proof.
    induction l1 as [|[k' v'] t IH]; cbn; [reflexivity|]. intros l2.
    destruct (k' =? k); [reflexivity|apply IH].
  Qed.

  Lemma alookup_aset_same : forall k v l, alookup k (aset k v l) = Some v.
  Proof.
    induction l as [|[k' v'] t IH]; cbn.
    - rewrite Z.eqb_refl. reflexivity.
    - destruct (k' =? k) eqn:E; cbn; rewrite E; [reflexivity|exact IH].
  Qed.

  Lemma alookup_aset_other : forall k k' v l, k' <> k -> alookup k' (aset k v l) = alookup k' l.
  Proof.
    induction l as [|[k0 v0] t IH]; cbn; intros Hne.
    - destruct (k =? k') eqn:E; [apply Z.eqb_eq in E; congruence|reflexivity].
    - destruct (k0 =? k) eqn:E; cbn.
      + apply Z.eqb_eq in E. subst k0. destruct (k =? k') eqn:E'; [apply Z.eqb_eq in E'; congruence|reflexivity].
      + destruct (k0 =? k'); [reflexivity|apply IH; exact Hne].
  Qed.

  Lemma alookup_adel_other : forall k k' l, k' <> k -> alookup k' (adel k l) = alookup k' l.
  Proof.
    induction l as [|[k0 v0] t IH]; cbn; intros Hne; [reflexivity|].
    destruct (k0 =? k) eqn:E.
    - apply Z.eqb_eq in E. subst k0. destruct (k =? k') eqn:E'; [apply Z.eqb_eq in E'; congruence|apply IH; exact Hne].
    - cbn. destruct (k0 =? k'); [reflexivity|apply IH; exact Hne].
  Qed.

  Lemma alookup_adel_same : forall k l, alookup k (adel k l) = None.
  Proof.
    induction l as [|[k0 v0] t IH]; cbn; [reflexivity|].
    destruct (k0 =? k) eqn:E; [exact IH|]. cbn. rewrite E. exact IH.
  Qed.

  (* counting entries that satisfy a predicate *)
  Definition acount (P : V -> bool) (l : list (Z * V)) : nat :=
    length (filter (fun kv => P (snd kv)) l).

  Lemma acount_app : forall P l1 l2, acount P (l1 ++ l2) = (acount P l1 + acount P l2)%nat.
  Proof. intros. unfold acount. rewrite filter_app, app_length. reflexivity. Qed.

  Lemma acount_cons : forall P k v l,
    acount P ((k, v) :: l) = ((if P v then 1 else 0) + acount P l)%nat.
  Proof. intros. unfold acount. cbn. destruct (P v); reflexivity. Qed.

  Lemma aupd_notin : forall k v l, ~ In k (akeys l) -> aupd k v l = l.
  Proof.
    induction l as [|[k' v'] t IH]; cbn; intros H; [reflexivity|].
    destruct (k' =? k) eqn:E.
    - apply Z.eqb_eq in E. exfalso. apply H. left. exact E.
    - f_equal. apply IH. tauto.
  Qed.

  (* updating the (unique) entry under k changes a count by exactly the entry's contribution *)
  Lemma acount_aupd : forall P k v v0 l, NoDup (akeys l) -> alookup k l = Some v0 ->
    (acount P (aupd k v l) + (if P v0 then 1 else 0) = acount P l + (if P v then 1 else 0))%nat.
  Proof.
    induction l as [|[k' v'] t IH]; cbn [alookup aupd akeys map fst]; intros Hnd Hl; [discriminate|].
    inversion Hnd as [|? ? Hni Hnd']; subst.
    destruct (k' =? k) eqn:E.
    - apply Z.eqb_eq in E. subst k'. inversion Hl; subst v'.
      rewrite !acount_cons. rewrite (aupd_notin k v t Hni). lia.
    - rewrite !acount_cons. specialize (IH Hnd' Hl). lia.
  Qed.

  Lemma acount_zero_iff : forall P l,
    acount P l = 0%nat <-> forall k v, In (k, v) l -> P v = false.
  Proof.
    induction l as [|[k' v'] t IH].
    - cbn. split; [intros _ k v []|reflexivity].
    - rewrite acount_cons. split.
      + intros H k v [Hin|Hin].
        * inversion Hin; subst. destruct (P v); [discriminate|reflexivity].
        * apply IH with (k := k); [destruct (P v'); [discriminate|exact H]|exact Hin].
      + intros H. rewrite (H k' v' (or_introl eq_refl)). apply IH.
        intros k v Hin. apply (H k v). right. exact Hin.
  Qed.
End AList.

Global Arguments acount {V} P l : simpl never.
