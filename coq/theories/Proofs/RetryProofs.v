(* Lemmas about M-Retry: combinator algebra and documented bounds of the wait strategies. *)
From Coq Require Import List ZArith QArith Qminmax Qabs Qpower Bool Lqa Lia.
Import ListNotations.
From WF Require Import Model.Retry.
Open Scope Q_scope.

(* ---------- induction principles for the nested inductives ---------- *)
Section WaitInd.
Variable P : wait -> Prop.
Hypothesis HFixed : forall q, P (WFixed q).
Hypothesis HExp : forall a b c d, P (WExp a b c d).
Hypothesis HIncr : forall a b c, P (WIncr a b c).
Hypothesis HRandom : forall a b, P (WRandom a b).
Hypothesis HExpJ : forall a b c d, P (WExpJitter a b c d).
Hypothesis HRandExp : forall a b c d, P (WRandExp a b c d).
Hypothesis HChain : forall f r, P f -> Forall P r -> P (WChain f r).
Hypothesis HCombine : forall l, Forall P l -> P (WCombine l).

Fixpoint wait_ind' (w : wait) : P w :=
  match w with
  | WFixed q => HFixed q
  | WExp a b c d => HExp a b c d
  | WIncr a b c => HIncr a b c
  | WRandom a b => HRandom a b
  | WExpJitter a b c d => HExpJ a b c d
  | WRandExp a b c d => HRandExp a b c d
  | WChain f r => HChain f r (wait_ind' f)
      ((fix go (l : list wait) : Forall P l :=
          match l with [] => Forall_nil P | x :: t => Forall_cons x (wait_ind' x) (go t) end) r)
  | WCombine l => HCombine l
      ((fix go (l : list wait) : Forall P l :=
          match l with [] => Forall_nil P | x :: t => Forall_cons x (wait_ind' x) (go t) end) l)
  end.
End WaitInd.

(* ---------- retry / stop algebra ---------- *)
Lemma rcond_any_existsb up l x :
  rcond_eval up (RAny l) x = existsb (fun c => rcond_eval up c x) l.
Proof. cbn [rcond_eval]. induction l as [|c t IH]; cbn; [reflexivity|]. rewrite IH. reflexivity. Qed.

Lemma rcond_all_forallb up l x :
  rcond_eval up (RAll l) x = forallb (fun c => rcond_eval up c x) l.
Proof. cbn [rcond_eval]. induction l as [|c t IH]; cbn; [reflexivity|]. rewrite IH. reflexivity. Qed.

Lemma rcond_or up a b x : rcond_eval up (RAny [a; b]) x = rcond_eval up a x || rcond_eval up b x.
Proof. rewrite rcond_any_existsb. cbn. rewrite orb_false_r. reflexivity. Qed.

Lemma rcond_and up a b x : rcond_eval up (RAll [a; b]) x = rcond_eval up a x && rcond_eval up b x.
Proof. rewrite rcond_all_forallb. cbn. rewrite andb_true_r. reflexivity. Qed.

Lemma stop_any_existsb l n e u :
  stop_eval (SAny l) n e u = existsb (fun c => stop_eval c n e u) l.
Proof. cbn [stop_eval]. induction l as [|c t IH]; cbn; [reflexivity|]. rewrite IH. reflexivity. Qed.

Lemma stop_all_forallb l n e u :
  stop_eval (SAll l) n e u = forallb (fun c => stop_eval c n e u) l.
Proof. cbn [stop_eval]. induction l as [|c t IH]; cbn; [reflexivity|]. rewrite IH. reflexivity. Qed.

Lemma stop_or a b n e u : stop_eval (SAny [a; b]) n e u = stop_eval a n e u || stop_eval b n e u.
Proof. rewrite stop_any_existsb. cbn. rewrite orb_false_r. reflexivity. Qed.

Lemma stop_and a b n e u : stop_eval (SAll [a; b]) n e u = stop_eval a n e u && stop_eval b n e u.
Proof. rewrite stop_all_forallb. cbn. rewrite andb_true_r. reflexivity. Qed.

(* ---------- wait_combine is the sum ---------- *)
Fixpoint qsum (l : list Q) : Q := match l with [] => 0 | x :: t => x + qsum t end.

Lemma wait_combine_sum rng seed l n :
  wait_eval rng seed (WCombine l) n = qsum (map (fun w => wait_eval rng seed w n) l).
Proof. cbn [wait_eval]. induction l as [|w t IH]; cbn; [reflexivity|]. rewrite IH. reflexivity. Qed.

Lemma wait_plus rng seed a b n :
  wait_eval rng seed (WCombine [a; b]) n == wait_eval rng seed a n + wait_eval rng seed b n.
Proof. rewrite wait_combine_sum. cbn. ring. Qed.

(* ---------- wait_chain picks strategy min(n, len-1) ---------- *)
Lemma wait_chain_pick rng seed f r n :
  wait_eval rng seed (WChain f r) n =
  wait_eval rng seed (nth (Z.to_nat (Z.min n (Z.of_nat (S (length r)) - 1))) (f :: r) f) n.
Proof.
  cbn [wait_eval].
  set (idx := Z.to_nat (Z.min n (Z.of_nat (S (length r)) - 1))).
  destruct idx as [|k]; [reflexivity|]. cbn [nth].
  revert k. induction r as [|w t IH]; intros k; destruct k; cbn; try reflexivity. apply IH.
Qed.

(* ---------- documented domain and bounds ---------- *)
Fixpoint wf_wait (w : wait) : Prop :=
  match w with
  | WFixed q => 0 <= q
  | WExp _ _ mx mn => 0 <= mn /\ mn <= mx
  | WIncr _ _ mx => match mx with None => True | Some m => 0 <= m end
  | WRandom mn mx => 0 <= mn /\ mn <= mx
  | WExpJitter initial base mx jitter => 0 <= initial /\ 0 <= base /\ 0 <= mx /\ 0 <= jitter
  | WRandExp _ _ mx mn => 0 <= mn /\ mn <= mx
  | WChain f r => wf_wait f /\ (fix all (l : list wait) : Prop :=
                                  match l with [] => True | x :: t => wf_wait x /\ all t end) r
  | WCombine l => (fix all (l : list wait) : Prop :=
                     match l with [] => True | x :: t => wf_wait x /\ all t end) l
  end.

Fixpoint all_wf (l : list wait) : Prop := match l with [] => True | x :: t => wf_wait x /\ all_wf t end.
Lemma all_wf_fix l :
  (fix all (l : list wait) : Prop := match l with [] => True | x :: t => wf_wait x /\ all t end) l = all_wf l.
Proof. induction l as [|x t IH]; [reflexivity|]. cbn [all_wf]. rewrite <- IH. reflexivity. Qed.
Lemma wf_chain f r : wf_wait (WChain f r) = (wf_wait f /\ all_wf r).
Proof. cbn [wf_wait]. rewrite all_wf_fix. reflexivity. Qed.
Lemma wf_combine l : wf_wait (WCombine l) = all_wf l.
Proof. cbn [wf_wait]. apply all_wf_fix. Qed.
Lemma all_wf_Forall l : all_wf l <-> Forall wf_wait l.
Proof. induction l as [|x t IH]; cbn; split; intros H; auto.
  - destruct H. constructor; [assumption|apply IH; assumption].
  - inversion H; subst. split; [assumption|apply IH; assumption]. Qed.

(* lower bound and (optional, None = unbounded) upper bound each strategy documents *)
Definition omax (a b : option Q) : option Q :=
  match a, b with Some x, Some y => Some (Qmax x y) | _, _ => None end.
Definition oadd (a b : option Q) : option Q :=
  match a, b with Some x, Some y => Some (x + y) | _, _ => None end.

Fixpoint wlo (w : wait) : Q :=
  match w with
  | WFixed q => q
  | WExp _ _ _ mn => mn
  | WIncr _ _ _ => 0
  | WRandom mn _ => mn
  | WExpJitter _ _ _ _ => 0
  | WRandExp _ _ _ mn => mn
  | WChain f r => (fix go (l : list wait) : Q := match l with [] => wlo f | x :: t => Qmin (wlo x) (go t) end) r
  | WCombine l => (fix go (l : list wait) : Q := match l with [] => 0 | x :: t => wlo x + go t end) l
  end.
Fixpoint whi (w : wait) : option Q :=
  match w with
  | WFixed q => Some q
  | WExp _ _ mx _ => Some mx
  | WIncr _ _ mx => mx
  | WRandom _ mx => Some mx
  | WExpJitter _ _ mx _ => Some mx
  | WRandExp _ _ mx _ => Some mx
  | WChain f r => (fix go (l : list wait) : option Q :=
                     match l with [] => whi f | x :: t => omax (whi x) (go t) end) r
  | WCombine l => (fix go (l : list wait) : option Q :=
                     match l with [] => Some 0 | x :: t => oadd (whi x) (go t) end) l
  end.

Definition le_opt (v : Q) (h : option Q) : Prop := match h with None => True | Some m => v <= m end.

Ltac dmax a b :=
  let m := fresh "m" in let H := fresh "Hm" in
  pose proof (Q.max_spec a b) as H; set (m := Qmax a b) in *; clearbody m; destruct H as [[? ?]|[? ?]].
Ltac dmin a b :=
  let m := fresh "m" in let H := fresh "Hm" in
  pose proof (Q.min_spec a b) as H; set (m := Qmin a b) in *; clearbody m; destruct H as [[? ?]|[? ?]].
Ltac mm :=
  repeat match goal with
  | |- context [Qmax ?a ?b] => dmax a b
  | _ : context [Qmax ?a ?b] |- _ => dmax a b
  | |- context [Qmin ?a ?b] => dmin a b
  | _ : context [Qmin ?a ?b] |- _ => dmin a b
  end.

Lemma uniform_bounds a b r : a <= b -> 0 <= r -> r <= 1 -> a <= uniform a b r /\ uniform a b r <= b.
Proof. unfold uniform. intros. split; nra. Qed.

Definition in_bounds (w : wait) (v : Q) : Prop := 0 <= wlo w /\ wlo w <= v /\ le_opt v (whi w).

Lemma chain_lo_le f r x : In x (f :: r) ->
  (fix go (l : list wait) : Q := match l with [] => wlo f | x :: t => Qmin (wlo x) (go t) end) r <= wlo x.
Proof.
  induction r as [|y t IH]; cbn; intros H.
  - destruct H as [->|[]]. lra.
  - destruct H as [->|[->|H]].
    + specialize (IH (or_introl eq_refl)). mm; lra.
    + mm; lra.
    + specialize (IH (or_intror H)). mm; lra.
Qed.

Lemma chain_lo_nonneg f r : 0 <= wlo f -> Forall (fun x => 0 <= wlo x) r ->
  0 <= (fix go (l : list wait) : Q := match l with [] => wlo f | x :: t => Qmin (wlo x) (go t) end) r.
Proof.
  intros Hf Hr. induction Hr as [|y t Hy Ht IH]; cbn; [exact Hf|]. mm; lra.
Qed.

Lemma chain_hi_ge f r x v : In x (f :: r) -> le_opt v (whi x) ->
  le_opt v ((fix go (l : list wait) : option Q :=
               match l with [] => whi f | x :: t => omax (whi x) (go t) end) r).
Proof.
  induction r as [|y t IH]; cbn; intros H Hv.
  - destruct H as [->|[]]. exact Hv.
  - set (rest := (fix go (l : list wait) : option Q :=
               match l with [] => whi f | x :: t => omax (whi x) (go t) end) t) in *.
    destruct H as [->|[->|H]].
    + specialize (IH (or_introl eq_refl) Hv). destruct (whi y), rest; cbn in *; auto. mm; lra.
    + destruct (whi x), rest; cbn in *; auto. mm; lra.
    + specialize (IH (or_intror H) Hv). destruct (whi y), rest; cbn in *; auto. mm; lra.
Qed.

Theorem wait_bounds rng seed :
  0 <= rng seed -> rng seed <= 1 ->
  forall w n, wf_wait w -> in_bounds w (wait_eval rng seed w n).
Proof.
  intros Hr0 Hr1 w. induction w as [q|mult base mx mn|start incr mx|mn mx|ini base mx jit|mult base mx mn|f r IHf IHr|l IHl]
    using wait_ind'; intros n Hwf; unfold in_bounds.
  - cbn in *. repeat split; lra.
  - cbn [wf_wait] in Hwf. destruct Hwf as [H1 H2]. cbn [wait_eval wlo whi le_opt].
    destruct (exp_term mult base n) as [x|]; repeat split; try lra; mm; lra.
  - cbn [wf_wait] in Hwf. cbn [wait_eval wlo whi].
    destruct mx as [m|]; cbn [le_opt]; repeat split; try lra; mm; lra.
  - cbn [wf_wait] in Hwf. destruct Hwf as [H1 H2]. cbn [wait_eval wlo whi le_opt].
    destruct (uniform_bounds mn mx (rng seed) H2 Hr0 Hr1). repeat split; lra.
  - cbn [wf_wait] in Hwf. destruct Hwf as [H1 [H2 [H3 H4]]]. cbn [wait_eval wlo whi le_opt].
    destruct (exp_term ini base n) as [x|] eqn:E; [|repeat split; lra].
    assert (0 <= x) as Hx.
    { unfold exp_term in E. destruct (pow_overflows base n); [discriminate|]. inversion E; subst.
      apply Qmult_le_0_compat; [exact H1|]. apply Qpower_0_le. exact H2. }
    destruct (uniform_bounds 0 jit (rng seed) H4 Hr0 Hr1). repeat split; try lra; mm; lra.
  - cbn [wf_wait] in Hwf. destruct Hwf as [H1 H2]. cbn [wait_eval wlo whi le_opt].
    set (upper := match exp_term mult base n with None => mx | Some x => Qmax (Qmax 0 mn) (Qmin x mx) end).
    assert (mn <= upper /\ upper <= mx) as [U1 U2].
    { unfold upper. destruct (exp_term mult base n); [|split; lra]. split; mm; lra. }
    destruct (uniform_bounds mn upper (rng seed) U1 Hr0 Hr1). repeat split; lra.
  - rewrite wf_chain in Hwf. destruct Hwf as [Hf Hr]. apply all_wf_Forall in Hr.
    rewrite wait_chain_pick.
    set (idx := Z.to_nat (Z.min n (Z.of_nat (S (length r)) - 1))).
    assert (In (nth idx (f :: r) f) (f :: r)) as Hin.
    { destruct (Nat.lt_ge_cases idx (length (f :: r))) as [Hlt|Hge].
      - apply nth_In. exact Hlt.
      - rewrite nth_overflow by exact Hge. left. reflexivity. }
    set (x := nth idx (f :: r) f) in *.
    assert (in_bounds x (wait_eval rng seed x n)) as [B0 [B1 B2]].
    { destruct Hin as [<-|Hin]; [apply IHf; exact Hf|].
      rewrite Forall_forall in IHr, Hr. apply IHr; [exact Hin|apply Hr; exact Hin]. }
    cbn [wlo whi]. repeat split.
    + apply chain_lo_nonneg.
      * destruct (IHf n Hf) as [? _]. assumption.
      * rewrite Forall_forall in *. intros y Hy. destruct (IHr y Hy n (Hr y Hy)) as [? _]. assumption.
    + pose proof (chain_lo_le f r x Hin). lra.
    + apply (chain_hi_ge f r x); assumption.
  - rewrite wf_combine in Hwf. apply all_wf_Forall in Hwf.
    cbn [wait_eval wlo whi].
    induction l as [|y t IHt]; [cbn; repeat split; lra|].
    inversion IHl as [|? ? Hy Ht]; subst. inversion Hwf as [|? ? Wy Wt]; subst.
    specialize (IHt Ht Wt). destruct IHt as [T0 [T1 T2]]. destruct (Hy n Wy) as [Y0 [Y1 Y2]].
    repeat split; try lra.
    set (rest := (fix go (l : list wait) : option Q :=
       match l with [] => Some 0 | x :: t => oadd (whi x) (go t) end) t) in *.
    destruct (whi y), rest; cbn in *; auto. lra.
Qed.

(* ---------- jitter is a function of the seed (determinism per seed) ---------- *)
Lemma wait_deterministic rng1 rng2 seed w n :
  rng1 seed = rng2 seed -> wait_eval rng1 seed w n = wait_eval rng2 seed w n.
Proof.
  intros E. induction w as [q|a b c d|a b c|a b|a b c d|a b c d|f r IHf IHr|l IHl] using wait_ind';
    cbn [wait_eval]; rewrite ?E; try reflexivity.
  - destruct (Z.to_nat _) as [|k]; [exact IHf|].
    revert k. induction IHr as [|y t Hy Ht IH]; intros k; destruct k; cbn; auto.
  - induction IHl as [|y t Hy Ht IH]; cbn; [reflexivity|]. rewrite Hy, IH. reflexivity.
Qed.
