(* Proofs/IterUtilsProofs.v — merge_generators / debounced_sorted_prefix over ALL schedules (C29). *)
From Coq Require Import List Bool Arith ZArith Lia Permutation Sorted.
Import ListNotations.
From WF Require Import Base.SchedKL Model.IterUtils.

(* ---------- lists ---------- *)
Lemma upd_len {A} i (x : A) l : length (upd i x l) = length l.
Proof. revert i; induction l as [|y l IH]; intros [|i]; cbn; auto. Qed.

Lemma nth_upd {A} i j (x : A) l d :
  nth i (upd j x l) d = if (i =? j) && (j <? length l) then x else nth i l d.
Proof.
  revert i j; induction l as [|y l IH]; intros i j; cbn.
  - destruct i, j; cbn; rewrite ?andb_false_r; auto.
  - destruct j as [|j]; destruct i as [|i]; cbn; auto.
    rewrite IH. replace (S j <? S (length l)) with (j <? length l); auto.
Qed.

Lemma nth_upd_same {A} i (x : A) l d : i < length l -> nth i (upd i x l) d = x.
Proof. intro H. rewrite nth_upd, Nat.eqb_refl. apply Nat.ltb_lt in H. rewrite H. reflexivity. Qed.

Lemma nth_upd_other {A} i j (x : A) l d : i <> j -> nth i (upd j x l) d = nth i l d.
Proof. intro H. rewrite nth_upd. apply Nat.eqb_neq in H. rewrite H. reflexivity. Qed.

Lemma proj_app i a b : proj i (a ++ b) = proj i a ++ proj i b.
Proof. unfold proj. rewrite filter_app, map_app. reflexivity. Qed.

Lemma proj_single i j v : proj i [(j, v)] = if j =? i then [v] else [].
Proof. unfold proj; cbn. destruct (j =? i); reflexivity. Qed.

(* ---------- accessors ---------- *)
Definition tk (s : mst) i := nth i (m_tasks s) TNone.
Definition act (s : mst) i := nth i (m_active s) false.
Definition cur_items (s : mst) i := s_items (nth i (m_srcs s) src_dflt).
Definition cur_end (s : mst) i := s_end (nth i (m_srcs s) src_dflt).
Definition mid (s : mst) i := match tk s i with TFinished (RItem v) => [v] | _ => [] end.
Definition items0 (srcs0 : list src) i := s_items (nth i srcs0 src_dflt).
Definition end0 (srcs0 : list src) i := s_end (nth i srcs0 src_dflt).

Record Core (stop : bool) (srcs0 : list src) (s : mst) : Prop := {
  V_len : length (m_srcs s) = length srcs0 /\ length (m_active s) = length srcs0 /\ length (m_tasks s) = length srcs0;
  V_cons : forall i, i < length srcs0 -> items0 srcs0 i = proj i (m_out s) ++ mid s i ++ cur_items s i;
  V_tags : forall p, In p (m_out s) -> fst p < length srcs0;
  V_end : forall i, i < length srcs0 ->
          cur_end s i = end0 srcs0 i \/ exists e, tk s i = TFinished (RErr e);
  V_err : forall i e, i < length srcs0 -> tk s i = TFinished (RErr e) -> end0 srcs0 i = Some e;
  V_stop : forall i, i < length srcs0 -> tk s i = TFinished RStop -> cur_items s i = [] /\ cur_end s i = None;
  V_inact : forall i, i < length srcs0 -> act s i = false ->
          cur_items s i = [] /\ end0 srcs0 i = None /\ tk s i = TNone;
  V_exc : forall e, m_exc s = Some e -> exists i, i < length srcs0 /\ end0 srcs0 i = Some e;
  V_stopped : m_stopped s = true -> stop = true
}.

Record MInv (stop : bool) (srcs0 : list src) (s : mst) : Prop := {
  V_core : Core stop srcs0 s;
  V_none : forall i, i < length srcs0 -> tk s i = TNone -> act s i = false \/ exists rest, m_phase s = PYield i rest;
  V_rest : forall cur rest, m_phase s = PYield cur rest ->
          cur < length srcs0 /\ tk s cur = TNone /\ ~ In cur (map fst rest) /\ NoDup (map fst rest) /\
          forall j v, In (j, v) rest -> j < length srcs0 /\ tk s j = TFinished (RItem v);
  V_endp : m_phase s = PEnd -> has_task s = false \/ m_exc s <> None \/ m_stopped s = true;
  V_wait : m_phase s = PWait -> has_task s = true
}.

Lemma has_task_true s i : i < length (m_tasks s) -> tk s i <> TNone -> has_task s = true.
Proof.
  intros Hi Ht. unfold has_task. apply existsb_exists. exists (tk s i). split.
  - apply nth_In; auto.
  - destruct (tk s i); auto; congruence.
Qed.

Lemma has_task_false s : has_task s = false -> forall i, tk s i = TNone.
Proof.
  intros H i. unfold has_task in H. unfold tk.
  destruct (Nat.ltb_spec i (length (m_tasks s))) as [Hi|Hi]; [|apply nth_overflow; auto].
  destruct (nth i (m_tasks s) TNone) eqn:E; auto; exfalso;
    assert (existsb (fun t => match t with TNone => false | _ => true end) (m_tasks s) = true)
      by (apply existsb_exists; eexists; split; [apply nth_In; eauto| rewrite E; auto]); congruence.
Qed.

(* ---------- init ---------- *)
Lemma nth_map_const {A B} (c d : B) (l : list A) i : i < length l -> nth i (map (fun _ => c) l) d = c.
Proof. revert i; induction l as [|y l IH]; intros [|i] H; cbn in *; try lia; auto. apply IH; lia. Qed.

Lemma minit_inv stop srcs0 : MInv stop srcs0 (minit srcs0).
Proof.
  assert (T : forall i, i < length srcs0 -> tk (minit srcs0) i = TRunning).
  { intros i Hi. unfold tk, minit; cbn. apply nth_map_const; auto. }
  constructor; [constructor|..].
  - cbn. rewrite !map_length. auto.
  - intros i Hi. unfold mid. rewrite T by auto. reflexivity.
  - intros p [].
  - intros i Hi. left. reflexivity.
  - intros i e Hi H. rewrite T in H by auto. discriminate.
  - intros i Hi H. rewrite T in H by auto. discriminate.
  - intros i Hi H. exfalso. unfold act, minit in H; cbn in H.
    rewrite nth_map_const in H by auto. discriminate.
  - cbn. discriminate.
  - cbn. discriminate.
  - intros i Hi H. rewrite T in H by auto. discriminate.
  - intros cur rest H. cbn in H. destruct srcs0; discriminate.
  - cbn. destruct srcs0; [left; reflexivity|discriminate].
  - cbn. destruct srcs0 as [|a r]; [discriminate|]. intros _. reflexivity.
Qed.

(* ---------- primitive updates preserve the core invariant ---------- *)
Definition item_of (t : tstate) : list Z := match t with TFinished (RItem v) => [v] | _ => [] end.

(* task i and the remaining behaviour of source i change; nothing else *)
Lemma core_task stop srcs0 s i t' r' :
  Core stop srcs0 s -> i < length srcs0 -> act s i = true ->
  item_of t' ++ s_items r' = mid s i ++ cur_items s i ->
  (s_end r' = cur_end s i \/ exists e, t' = TFinished (RErr e)) ->
  (forall e, t' = TFinished (RErr e) -> end0 srcs0 i = Some e) ->
  (t' = TFinished RStop -> s_items r' = [] /\ s_end r' = None) ->
  ((exists e, tk s i = TFinished (RErr e)) -> exists e, t' = TFinished (RErr e)) ->
  Core stop srcs0 (mkM (upd i r' (m_srcs s)) (m_active s) (upd i t' (m_tasks s)) (m_phase s) (m_exc s) (m_stopped s) (m_out s)).
Proof.
  intros [[L1 [L2 L3]] Vc Vt Ve Vr Vs Vi Vx Vp] Hi Ha Hit Hend Herr Hstop Hkeep.
  assert (T : forall j, tk (mkM (upd i r' (m_srcs s)) (m_active s) (upd i t' (m_tasks s)) (m_phase s) (m_exc s) (m_stopped s) (m_out s)) j
              = if j =? i then t' else tk s j).
  { intro j. unfold tk; cbn [m_tasks]. destruct (Nat.eqb_spec j i).
    - subst. apply nth_upd_same. lia.
    - apply nth_upd_other. auto. }
  assert (S : forall j, nth j (upd i r' (m_srcs s)) src_dflt = if j =? i then r' else nth j (m_srcs s) src_dflt).
  { intro j. destruct (Nat.eqb_spec j i).
    - subst. apply nth_upd_same. lia.
    - apply nth_upd_other. auto. }
  constructor; unfold mid, cur_items, cur_end, act in *; cbn [m_srcs m_active m_phase m_exc m_stopped m_out]; auto.
  - cbn. rewrite !upd_len. auto.
  - intros j Hj. rewrite T, S. destruct (Nat.eqb_spec j i); [subst|apply Vc; auto].
    rewrite (Vc i Hi). fold (item_of t'). rewrite Hit. reflexivity.
  - intros j Hj. rewrite T, S. destruct (Nat.eqb_spec j i); [subst|apply Ve; auto].
    destruct Hend as [H|H]; [|right; auto]. destruct (Ve i Hi) as [E|E]; [left; congruence|right; auto].
  - intros j e Hj. rewrite T. destruct (Nat.eqb_spec j i); [subst; auto|apply Vr; auto].
  - intros j Hj. rewrite T, S. destruct (Nat.eqb_spec j i); [subst; auto|apply Vs; auto].
  - intros j Hj Hja. rewrite T, S. destruct (Nat.eqb_spec j i); [subst; congruence|apply Vi; auto].
Qed.

Lemma upd_same {A} i (l : list A) d : upd i (nth i l d) l = l.
Proof. revert i; induction l as [|y l IH]; intros [|i]; cbn; auto. f_equal. apply IH. Qed.

Lemma act_of_task stop srcs0 s i : Core stop srcs0 s -> i < length srcs0 -> tk s i <> TNone -> act s i = true.
Proof.
  intros HC Hi Ht. destruct (act s i) eqn:E; auto. destruct (V_inact _ _ _ HC i Hi E) as (_ & _ & H). congruence.
Qed.

(* only the task entry of source i changes *)
Lemma core_task_only stop srcs0 s i t' :
  Core stop srcs0 s -> i < length srcs0 -> act s i = true ->
  item_of t' = mid s i ->
  (forall e, t' = TFinished (RErr e) -> end0 srcs0 i = Some e) ->
  (t' = TFinished RStop -> cur_items s i = [] /\ cur_end s i = None) ->
  ((exists e, tk s i = TFinished (RErr e)) -> exists e, t' = TFinished (RErr e)) ->
  Core stop srcs0 (set_tasks s (upd i t' (m_tasks s))).
Proof.
  intros HC Hi Ha Hit Herr Hstop Hkeep.
  replace (set_tasks s (upd i t' (m_tasks s)))
    with (mkM (upd i (nth i (m_srcs s) src_dflt) (m_srcs s)) (m_active s) (upd i t' (m_tasks s))
              (m_phase s) (m_exc s) (m_stopped s) (m_out s))
    by (unfold set_tasks; rewrite upd_same; reflexivity).
  apply core_task; auto. fold (cur_items s i). rewrite Hit. reflexivity.
Qed.

Lemma tk_set_tasks s i t' j : i < length (m_tasks s) ->
  tk (set_tasks s (upd i t' (m_tasks s))) j = if j =? i then t' else tk s j.
Proof.
  intro Hi. unfold tk, set_tasks; cbn [m_tasks]. destruct (Nat.eqb_spec j i).
  - subst. apply nth_upd_same; auto.
  - apply nth_upd_other; auto.
Qed.

(* ---------- finish ---------- *)
Lemma finish_shape s i :
  finish s i = s \/
  (tk s i = TRunning /\ exists t' r', t' <> TNone /\
   finish s i = mkM (upd i r' (m_srcs s)) (m_active s) (upd i t' (m_tasks s)) (m_phase s) (m_exc s) (m_stopped s) (m_out s)).
Proof.
  unfold finish, task_of_src. fold (tk s i). destruct (tk s i) eqn:Ht; auto. right. split; auto.
  destruct (s_items (nth i (m_srcs s) src_dflt)); [destruct (s_end (nth i (m_srcs s) src_dflt))|].
  - eexists _, _. split; [|reflexivity]. discriminate.
  - exists (TFinished RStop), (nth i (m_srcs s) src_dflt). split; [discriminate|].
    unfold set_tasks. rewrite upd_same. reflexivity.
  - eexists _, _. split; [|reflexivity]. discriminate.
Qed.

Lemma finish_inv stop srcs0 s i : MInv stop srcs0 s -> MInv stop srcs0 (finish s i).
Proof.
  intros [HC Vn Vr Ve Vw].
  assert (HC' : Core stop srcs0 (finish s i)).
  { unfold finish, task_of_src. fold (tk s i). destruct (tk s i) eqn:Ht; [exact HC| |exact HC].
    destruct (Nat.ltb_spec i (length srcs0)) as [Hi|Hi].
    2:{ exfalso. destruct (V_len _ _ _ HC) as (_ & _ & L). unfold tk in Ht. rewrite nth_overflow in Ht by lia. discriminate. }
    assert (Ha : act s i = true) by (eapply act_of_task; eauto; congruence).
    assert (Hm : mid s i = []) by (unfold mid; rewrite Ht; reflexivity).
    assert (Hne : ~ exists e, tk s i = TFinished (RErr e)) by (intros (e & E); congruence).
    destruct (V_end _ _ _ HC i Hi) as [Hend|Hend]; [|contradiction].
    destruct (s_items (nth i (m_srcs s) src_dflt)) as [|v r] eqn:Hit.
    - destruct (s_end (nth i (m_srcs s) src_dflt)) as [e|] eqn:He.
      + apply core_task; auto; try discriminate; unfold cur_items, cur_end in *; rewrite ?Hit, ?He, ?Hm; cbn; eauto;
          try (intros e' [= <-]; congruence); try tauto.
      + apply core_task_only; auto; try discriminate; unfold cur_items, cur_end; rewrite ?Hit, ?He; auto; try tauto.
    - apply core_task; auto; try discriminate; unfold cur_items, cur_end in *; rewrite ?Hit, ?Hm; cbn; auto; try tauto. }
  destruct (finish_shape s i) as [E|(Ht & t' & r' & Hne & E)]; [rewrite E; constructor; auto|].
  destruct (V_len _ _ _ HC) as (_ & _ & L3).
  assert (Hi : i < length (m_tasks s)).
  { destruct (Nat.ltb_spec i (length (m_tasks s))); auto. unfold tk in Ht. rewrite nth_overflow in Ht by auto. discriminate. }
  assert (T : forall j, tk (finish s i) j = if j =? i then t' else tk s j).
  { intro j. rewrite E. unfold tk; cbn [m_tasks]. destruct (Nat.eqb_spec j i).
    - subst. apply nth_upd_same; auto.
    - apply nth_upd_other; auto. }
  constructor; auto; unfold act in *; rewrite E in *; cbn [m_phase m_exc m_stopped m_active] in *.
  - intros j Hj Hjt. rewrite T in Hjt. destruct (Nat.eqb_spec j i); [congruence|]. apply Vn; auto.
  - intros cur rest Hp. destruct (Vr cur rest Hp) as (a & b & c & d & e). repeat split; auto.
    + rewrite T. destruct (Nat.eqb_spec cur i); [subst; congruence|auto].
    + apply (e j v H).
    + rewrite T. destruct (Nat.eqb_spec j i); [subst|apply (e j v H)]. destruct (e i v H). congruence.
  - intros Hp. destruct (Ve Hp) as [H|H]; auto. exfalso. pose proof (has_task_false s H i). congruence.
  - intros _. apply (has_task_true _ i); [cbn; rewrite upd_len; auto|]. rewrite T, Nat.eqb_refl. auto.
Qed.

Lemma NoDup_snoc_nat (i : nat) ws : NoDup ws -> ~ In i ws -> NoDup (ws ++ [i]).
Proof.
  induction 1 as [|x ws Hx Hn IH]; cbn; intro Hi.
  - constructor; auto. constructor.
  - constructor.
    + intro H. apply in_app_or in H. destruct H as [H|[H|[]]]; auto.
    + apply IH. auto.
Qed.

Lemma NoDup_app_nat (a b : list nat) : NoDup a -> NoDup b -> (forall x, In x a -> In x b -> False) -> NoDup (a ++ b).
Proof.
  induction 1 as [|x a Hx Ha IH]; cbn; auto. intros Hb Hd. constructor.
  - intro H. apply in_app_or in H. destruct H; auto. eapply Hd; eauto.
  - apply IH; auto. intros y Hy. apply Hd. auto.
Qed.

(* ---------- the other primitive updates ---------- *)
Definition Quiet (srcs0 : list src) (s : mst) : Prop :=
  forall i, i < length srcs0 -> tk s i = TNone -> act s i = false.

Definition CG (srcs0 : list src) (s : mst) (completed : list (nat * Z)) : Prop :=
  NoDup (map fst completed) /\ forall j v, In (j, v) completed -> j < length srcs0 /\ tk s j = TFinished (RItem v).

Lemma core_same stop srcs0 s s' :
  Core stop srcs0 s -> m_srcs s' = m_srcs s -> m_active s' = m_active s -> m_tasks s' = m_tasks s ->
  m_out s' = m_out s -> (forall e, m_exc s' = Some e -> m_exc s = Some e \/ exists i, i < length srcs0 /\ end0 srcs0 i = Some e) ->
  (m_stopped s' = true -> m_stopped s = true \/ stop = true) -> Core stop srcs0 s'.
Proof.
  intros [L Vc Vt Ve Vr Vs Vi Vx Vp] E1 E2 E3 E4 Hx Hp.
  constructor; unfold mid, tk, act, cur_items, cur_end in *; rewrite ?E1, ?E2, ?E3, ?E4; auto.
  - intros e He. destruct (Hx e He); auto.
  - intro H. destruct (Hp H); auto.
Qed.

(* `next_item_tasks.pop(i); active_generators.pop(i)` for a source that raised StopAsyncIteration *)
Lemma core_remove stop srcs0 s i :
  Core stop srcs0 s -> i < length srcs0 -> tk s i = TFinished RStop ->
  Core stop srcs0 (mkM (m_srcs s) (upd i false (m_active s)) (upd i TNone (m_tasks s)) (m_phase s) (m_exc s) (m_stopped s) (m_out s)).
Proof.
  intros [[L1 [L2 L3]] Vc Vt Ve Vr Vs Vi Vx Vp] Hi Ht.
  assert (T : forall j, nth j (upd i TNone (m_tasks s)) TNone = if j =? i then TNone else tk s j).
  { intro j. destruct (Nat.eqb_spec j i); [subst; apply nth_upd_same; lia|apply nth_upd_other; auto]. }
  assert (A : forall j, nth j (upd i false (m_active s)) false = if j =? i then false else act s j).
  { intro j. destruct (Nat.eqb_spec j i); [subst; apply nth_upd_same; lia|apply nth_upd_other; auto]. }
  constructor; unfold mid, tk, act, cur_items, cur_end in *; cbn [m_srcs m_active m_tasks m_phase m_exc m_stopped m_out]; auto.
  - rewrite !upd_len. auto.
  - intros j Hj. rewrite T. destruct (Nat.eqb_spec j i); [subst|apply Vc; auto].
    rewrite (Vc i Hi), Ht. reflexivity.
  - intros j Hj. rewrite T. destruct (Nat.eqb_spec j i); [subst|apply Ve; auto].
    destruct (Ve i Hi) as [E|(e & E)]; [left; auto|congruence].
  - intros j e Hj. rewrite T. destruct (Nat.eqb_spec j i); [discriminate|apply Vr; auto].
  - intros j Hj. rewrite T. destruct (Nat.eqb_spec j i); [discriminate|apply Vs; auto].
  - intros j Hj. rewrite T, A. destruct (Nat.eqb_spec j i); [subst|apply Vi; auto].
    intros _. destruct (Vs i Hi Ht) as [E1 E2]. repeat split; auto.
    destruct (Ve i Hi) as [E|(e & E)]; congruence.
Qed.

(* pop the task of a completed result and yield it *)
Lemma core_yield stop srcs0 s i v ph :
  Core stop srcs0 s -> i < length srcs0 -> tk s i = TFinished (RItem v) ->
  Core stop srcs0 (mkM (m_srcs s) (m_active s) (upd i TNone (m_tasks s)) ph (m_exc s) (m_stopped s) (m_out s ++ [(i, v)])).
Proof.
  intros HC Hi Ht. assert (Ha : act s i = true) by (eapply act_of_task; eauto; congruence).
  destruct HC as [[L1 [L2 L3]] Vc Vt Ve Vr Vs Vi Vx Vp].
  assert (T : forall j, nth j (upd i TNone (m_tasks s)) TNone = if j =? i then TNone else tk s j).
  { intro j. destruct (Nat.eqb_spec j i); [subst; apply nth_upd_same; lia|apply nth_upd_other; auto]. }
  constructor; unfold mid, tk, act, cur_items, cur_end in *; cbn [m_srcs m_active m_tasks m_phase m_exc m_stopped m_out]; auto.
  - rewrite !upd_len. auto.
  - intros j Hj. rewrite T, proj_app, proj_single. destruct (Nat.eqb_spec j i).
    + subst. rewrite Nat.eqb_refl. rewrite (Vc i Hi), Ht. rewrite <- !app_assoc. reflexivity.
    + assert (i =? j = false) by (apply Nat.eqb_neq; auto). rewrite H, app_nil_r. apply Vc; auto.
  - intros p Hp. apply in_app_or in Hp. destruct Hp as [Hp|[<-|[]]]; auto.
  - intros j Hj. rewrite T. destruct (Nat.eqb_spec j i); [subst|apply Ve; auto].
    destruct (Ve i Hi) as [E|(e & E)]; [left; auto|congruence].
  - intros j e Hj. rewrite T. destruct (Nat.eqb_spec j i); [discriminate|apply Vr; auto].
  - intros j Hj. rewrite T. destruct (Nat.eqb_spec j i); [discriminate|apply Vs; auto].
  - intros j Hj Hja. rewrite T. destruct (Nat.eqb_spec j i); [subst; congruence|apply Vi; auto].
Qed.

(* ---------- handle ---------- *)
Lemma handle_inv stop srcs0 idxs : forall s completed,
  Core stop srcs0 s -> Quiet srcs0 s -> CG srcs0 s completed -> NoDup idxs ->
  (forall j, In j idxs -> ~ In j (map fst completed)) ->
  let '(s1, c1) := handle stop s idxs completed in
  Core stop srcs0 s1 /\ Quiet srcs0 s1 /\ CG srcs0 s1 c1 /\ m_phase s1 = m_phase s /\
  (m_stopped s1 = true -> m_stopped s = true \/ stop = true).
Proof.
  induction idxs as [|i r IH]; intros s completed HC HQ HG Hnd Hdis; cbn [handle].
  { split; [|split; [|split; [|split]]]; auto. }
  apply NoDup_cons_iff in Hnd. destruct Hnd as [Hni Hnr].
  unfold task_of_src. fold (tk s i).
  assert (Hdis' : forall j, In j r -> ~ In j (map fst completed)) by (intros j Hj; apply Hdis; cbn; auto).
  destruct (tk s i) as [| |[v| |e]] eqn:Ht; try (apply IH; auto; fail).
  - (* item *)
    destruct (Nat.ltb_spec i (length srcs0)) as [Hi|Hi].
    2:{ exfalso. destruct (V_len _ _ _ HC) as (_ & _ & L). unfold tk in Ht. rewrite nth_overflow in Ht by lia. discriminate. }
    apply IH; auto.
    + destruct HG as [G1 G2]. split.
      * rewrite map_app. cbn. apply NoDup_snoc_nat; auto. apply Hdis; cbn; auto.
      * intros j w Hj. apply in_app_or in Hj. destruct Hj as [Hj|[[= <- <-]|[]]]; auto.
    + intros j Hj. rewrite map_app, in_app_iff. cbn. intros [H|[<-|[]]]; [eapply Hdis'; eauto|auto].
  - (* StopAsyncIteration *)
    destruct (Nat.ltb_spec i (length srcs0)) as [Hi|Hi].
    2:{ exfalso. destruct (V_len _ _ _ HC) as (_ & _ & L). unfold tk in Ht. rewrite nth_overflow in Ht by lia. discriminate. }
    destruct stop.
    + split; [|split; [|split; [|split]]]; auto.
      eapply core_same; eauto; cbn; auto.
    + match goal with |- let '(_, _) := handle _ ?s' _ _ in _ => specialize (IH s' completed) end.
      destruct (V_len _ _ _ HC) as (L1 & L2 & L3).
      assert (T : forall j, tk (mkM (m_srcs s) (upd i false (m_active s)) (upd i TNone (m_tasks s)) (m_phase s) (m_exc s) (m_stopped s) (m_out s)) j
                  = if j =? i then TNone else tk s j).
      { intro j. unfold tk; cbn [m_tasks]. destruct (Nat.eqb_spec j i); [subst; apply nth_upd_same; lia|apply nth_upd_other; auto]. }
      apply IH; auto.
      * apply core_remove; auto.
      * intros j Hj. rewrite T. unfold act; cbn [m_active]. destruct (Nat.eqb_spec j i).
        -- subst. intros _. apply nth_upd_same. lia.
        -- intro H. rewrite nth_upd_other by auto. apply HQ; auto.
      * destruct HG as [G1 G2]. split; auto. intros j w Hj. destruct (G2 j w Hj) as [a b]. split; auto.
        rewrite T. destruct (Nat.eqb_spec j i); auto. subst. congruence.
  - (* error *)
    destruct (Nat.ltb_spec i (length srcs0)) as [Hi|Hi].
    2:{ exfalso. destruct (V_len _ _ _ HC) as (_ & _ & L). unfold tk in Ht. rewrite nth_overflow in Ht by lia. discriminate. }
    split; [|split; [|split; [|split]]]; auto.
    eapply core_same; eauto; cbn; auto; intros e' [= <-]; right; exists i; split; auto; eapply V_err; eauto.
Qed.

(* ---------- yield / loop condition ---------- *)
Lemma loop_check_inv stop srcs0 s : Core stop srcs0 s -> Quiet srcs0 s -> MInv stop srcs0 (loop_check s).
Proof.
  intros HC HQ. unfold loop_check.
  destruct (has_task s) eqn:Hh; destruct (m_exc s) eqn:He; destruct (m_stopped s) eqn:Hs; cbn [andb negb];
    (constructor; [eapply core_same; eauto; cbn; rewrite ?He, ?Hs; auto | intros i Hi Ht; left; apply HQ; auto
                  | cbn; discriminate | cbn; rewrite ?He, ?Hs; try discriminate; auto | cbn; try discriminate; auto]);
    intros _; right; left; discriminate.
Qed.

Lemma yield_next_inv stop srcs0 s completed :
  Core stop srcs0 s -> Quiet srcs0 s -> CG srcs0 s completed -> MInv stop srcs0 (yield_next s completed).
Proof.
  intros HC HQ [G1 G2]. destruct completed as [|[i v] rest]; [apply loop_check_inv; auto|].
  cbn [yield_next]. destruct (G2 i v ltac:(cbn; auto)) as [Hi Ht].
  destruct (V_len _ _ _ HC) as (L1 & L2 & L3).
  assert (T : forall j, tk (mkM (m_srcs s) (m_active s) (upd i TNone (m_tasks s)) (PYield i rest) (m_exc s) (m_stopped s) (m_out s ++ [(i, v)])) j
              = if j =? i then TNone else tk s j).
  { intro j. unfold tk; cbn [m_tasks]. destruct (Nat.eqb_spec j i); [subst; apply nth_upd_same; lia|apply nth_upd_other; auto]. }
  cbn in G1. apply NoDup_cons_iff in G1. destruct G1 as [Hni Hnd].
  constructor.
  - apply core_yield; auto.
  - intros j Hj. rewrite T. destruct (Nat.eqb_spec j i); [subst; intros _; right; cbn; eauto|]. intro H. left. apply HQ; auto.
  - intros cur rest' [= <- <-]. repeat split; auto.
    + rewrite T, Nat.eqb_refl. reflexivity.
    + apply (G2 j v0). cbn; auto.
    + rewrite T. destruct (Nat.eqb_spec j i).
      * subst. exfalso. apply Hni. apply in_map_iff. exists (i, v0). auto.
      * apply (G2 j v0). cbn; auto.
  - cbn. discriminate.
  - cbn. discriminate.
Qed.

(* ---------- wake ---------- *)
Lemma done_order_spec s order :
  NoDup (done_order s order) /\ forall j, In j (done_order s order) -> is_finished (tk s j) = true.
Proof.
  unfold done_order. set (fin := fun i => is_finished (task_of_src s i)).
  set (named := nodup Nat.eq_dec (filter fin order)). split.
  - apply NoDup_app_nat.
    + apply NoDup_nodup.
    + apply NoDup_filter, seq_NoDup.
    + intros j H1 H2. apply filter_In in H2. destruct H2 as [_ H2]. apply andb_true_iff in H2.
      destruct H2 as [_ H2]. apply negb_true_iff in H2.
      assert (existsb (Nat.eqb j) named = true) by (apply existsb_exists; exists j; split; auto; apply Nat.eqb_refl).
      congruence.
  - intros j Hj. apply in_app_or in Hj. destruct Hj as [Hj|Hj].
    + apply nodup_In in Hj. apply filter_In in Hj. apply Hj.
    + apply filter_In in Hj. destruct Hj as [_ Hj]. apply andb_true_iff in Hj. apply Hj.
Qed.

Lemma core_phase stop srcs0 s p : Core stop srcs0 s -> Core stop srcs0 (set_phase s p).
Proof. intro HC. eapply core_same; eauto. Qed.

Lemma wake_inv stop srcs0 s order : MInv stop srcs0 s -> MInv stop srcs0 (wake stop s order).
Proof.
  intros HI. pose proof HI as [HC Vn Vr Ve Vw]. unfold wake. destruct (m_phase s) eqn:Hp; auto.
  destruct (done_order s order) as [|i0 r0] eqn:Hd; auto.
  destruct (done_order_spec s order) as [Hnd Hfin]. rewrite Hd in Hnd, Hfin.
  assert (HQ : Quiet srcs0 s).
  { intros j Hj Ht. destruct (Vn j Hj Ht) as [H|(rest & H)]; auto. congruence. }
  pose proof (handle_inv stop srcs0 (i0 :: r0) s [] HC HQ) as H.
  destruct (handle stop s (i0 :: r0) []) as [s1 c1].
  destruct H as (HC1 & HQ1 & HG1 & Hp1 & Hs1); auto.
  { split; [constructor|]. intros j v []. }
  destruct (m_stopped s1) eqn:Hst.
  - constructor; cbn; try discriminate; auto.
    + apply core_phase; auto.
    + intros j Hj Ht. left. apply HQ1; auto.
  - apply yield_next_inv; auto.
Qed.

(* ---------- next ---------- *)
Lemma next_inv stop srcs0 s : MInv stop srcs0 s -> MInv stop srcs0 (next s).
Proof.
  intros HI. pose proof HI as [HC Vn Vr Ve Vw]. unfold next. destruct (m_phase s) as [|i rest|] eqn:Hp; auto.
  destruct (Vr i rest eq_refl) as (Hi & Ht & Hni & Hnd & Hrest).
  destruct (V_len _ _ _ HC) as (L1 & L2 & L3).
  fold (act s i). destruct (act s i) eqn:Ha.
  - assert (T : forall j, tk (set_tasks s (upd i TRunning (m_tasks s))) j = if j =? i then TRunning else tk s j)
      by (intro j; apply tk_set_tasks; lia).
    apply yield_next_inv.
    + apply core_task_only; auto; try discriminate.
      * unfold mid. rewrite Ht. reflexivity.
      * intros (e & E). congruence.
    + intros j Hj. rewrite T. destruct (Nat.eqb_spec j i); [discriminate|]. intro H.
      destruct (Vn j Hj H) as [A|(rest' & A)]; auto. congruence.
    + split; auto. intros j v Hj. destruct (Hrest j v Hj) as [a b]. split; auto.
      rewrite T. destruct (Nat.eqb_spec j i); auto. subst. exfalso. apply Hni. apply in_map_iff. exists (i, v). auto.
  - apply yield_next_inv; auto.
    + intros j Hj H. destruct (Vn j Hj H) as [A|(rest' & A)]; auto. congruence.
    + split; auto.
Qed.

Lemma mstep_inv stop srcs0 s c : MInv stop srcs0 s -> MInv stop srcs0 (mstep stop s c).
Proof. destruct c; cbn; [apply finish_inv | apply wake_inv | apply next_inv]. Qed.

Lemma mexec_inv stop srcs0 sched : forall s, MInv stop srcs0 s -> MInv stop srcs0 (mexec stop s sched).
Proof. induction sched as [|c r IH]; cbn; auto. intros s H. apply IH, mstep_inv; auto. Qed.

Theorem merge_reachable_inv stop srcs0 sched : MInv stop srcs0 (mexec stop (minit srcs0) sched).
Proof. apply mexec_inv, minit_inv. Qed.

(* =====================  theorems: merge_generators  ===================== *)
Definition mreach (stop : bool) (srcs0 : list src) (sched : list mchoice) : mst := mexec stop (minit srcs0) sched.

(* at every moment, under every schedule, in both modes: what has been yielded from source i is a
   prefix of its items (order preserved, nothing duplicated or invented) *)
Lemma merge_prefix stop srcs0 sched i :
  i < length srcs0 ->
  exists rest, s_items (nth i srcs0 src_dflt) = proj i (m_out (mreach stop srcs0 sched)) ++ rest.
Proof.
  intro Hi. pose proof (merge_reachable_inv stop srcs0 sched) as [HC _ _ _ _].
  eexists. apply (V_cons _ _ _ HC i Hi).
Qed.

Lemma merge_tags stop srcs0 sched p :
  In p (m_out (mreach stop srcs0 sched)) -> fst p < length srcs0.
Proof. pose proof (merge_reachable_inv stop srcs0 sched) as [HC _ _ _ _]. apply (V_tags _ _ _ HC). Qed.

(* default mode, generator finished without raising: every item of every input exactly once, no
   source had an error pending *)
Lemma merge_complete srcs0 sched :
  let s := mreach false srcs0 sched in
  m_phase s = PEnd -> m_exc s = None ->
  forall i, i < length srcs0 ->
    proj i (m_out s) = s_items (nth i srcs0 src_dflt) /\ s_end (nth i srcs0 src_dflt) = None.
Proof.
  intros s Hp Hx i Hi. pose proof (merge_reachable_inv false srcs0 sched) as [HC Vn Vr Ve Vw]. fold (mreach false srcs0 sched) in *. fold s in HC, Vn, Vr, Ve, Vw.
  assert (Ht : tk s i = TNone).
  { destruct (Ve Hp) as [H|[H|H]]; [apply has_task_false; auto|congruence|].
    pose proof (V_stopped _ _ _ HC H). discriminate. }
  destruct (Vn i Hi Ht) as [Ha|(rest & H)]; [|congruence].
  destruct (V_inact _ _ _ HC i Hi Ha) as (E1 & E2 & _).
  pose proof (V_cons _ _ _ HC i Hi) as Hc. unfold mid in Hc. rewrite Ht, E1 in Hc. cbn in Hc. rewrite app_nil_r in Hc.
  split; auto.
Qed.

(* an input's error is re-raised: the generator cannot end normally while a source has an error
   to raise, and what it raises is the error of one of its sources *)
Lemma merge_error srcs0 sched :
  let s := mreach false srcs0 sched in
  m_phase s = PEnd ->
  ((exists i e, i < length srcs0 /\ s_end (nth i srcs0 src_dflt) = Some e) -> m_exc s <> None) /\
  (forall e, m_exc s = Some e -> exists i, i < length srcs0 /\ s_end (nth i srcs0 src_dflt) = Some e).
Proof.
  intros s Hp. split.
  - intros (i & e & Hi & He) Hx. destruct (merge_complete srcs0 sched Hp Hx i Hi) as [_ H]. congruence.
  - pose proof (merge_reachable_inv false srcs0 sched) as [HC _ _ _ _]. apply (V_exc _ _ _ HC).
Qed.

(* =====================  theorems: debounced_sorted_prefix  ===================== *)
Section SortFacts.
  Variable kf : Z -> Z.
  Definition le_key (a b : Z) : Prop := (kf a <= kf b)%Z.

  Lemma insert_perm x l : Permutation (insert_by kf x l) (x :: l).
  Proof.
    induction l as [|y r IH]; cbn; auto. destruct (kf x <? kf y)%Z; auto.
    rewrite IH. apply perm_swap.
  Qed.

  Lemma fold_insert_perm l : forall acc, Permutation (fold_left (fun a x => insert_by kf x a) l acc) (acc ++ l).
  Proof.
    induction l as [|x r IH]; intro acc; cbn; [rewrite app_nil_r; auto|].
    rewrite IH. rewrite insert_perm. cbn. apply Permutation_middle.
  Qed.

  Lemma sort_perm l : Permutation (sort_by kf l) l.
  Proof. unfold sort_by. apply (fold_insert_perm l []). Qed.

  Lemma insert_sorted x l : Sorted le_key l -> Sorted le_key (insert_by kf x l).
  Proof.
    induction 1 as [|y r Hs IH Hh]; cbn; [repeat constructor|].
    destruct (Z.ltb_spec (kf x) (kf y)).
    - constructor; [constructor; auto|]. constructor. unfold le_key. lia.
    - constructor; auto. destruct r as [|z r']; cbn in *.
      + constructor. unfold le_key. lia.
      + inversion Hh; subst. destruct (Z.ltb_spec (kf x) (kf z)); constructor; unfold le_key in *; lia.
  Qed.

  Lemma sort_sorted l : Sorted le_key (sort_by kf l).
  Proof.
    unfold sort_by. assert (G : forall acc, Sorted le_key acc -> Sorted le_key (fold_left (fun a x => insert_by kf x a) l acc)).
    { induction l as [|x r IH]; intros acc H; cbn; auto. apply IH, insert_sorted; auto. }
    apply G. constructor.
  Qed.

  (* the repaired consumer: everything before the marker is buffered, the marker flushes the buffer
     sorted, everything after is passed through *)
  Definition val (x : nat * Z * bool) : Z := snd (fst x).
  Definition from0 (x : nat * Z * bool) : Prop := fst (fst x) = 0.

  Lemma consume_buffer pre : forall buf r, Forall from0 pre ->
    consume kf true false buf (pre ++ r) = consume kf true false (buf ++ map val pre) r.
  Proof.
    induction pre as [|[[i v] sg] pre IH]; intros buf r H; cbn; [rewrite app_nil_r; auto|].
    inversion H as [|? ? H0 H1]; subst. unfold from0 in H0; cbn in H0. subst i. cbn.
    rewrite IH by auto. rewrite <- app_assoc. reflexivity.
  Qed.

  Lemma consume_pass post : forall buf, Forall from0 post -> consume kf true true buf post = map val post.
  Proof.
    induction post as [|[[i v] sg] post IH]; intros buf H; cbn; auto.
    inversion H as [|? ? H0 H1]; subst. unfold from0 in H0; cbn in H0. subst i. cbn. rewrite IH; auto.
  Qed.

  Lemma consume_spec pre c sg post : Forall from0 pre -> Forall from0 post ->
    consume kf true false [] (pre ++ (1, c, sg) :: post) = sort_by kf (map val pre) ++ map val post.
  Proof.
    intros H1 H2. rewrite consume_buffer by auto. cbn. rewrite consume_pass by auto. reflexivity.
  Qed.
End SortFacts.

(* a merged stream of sources 0 and 1 in which source 1 contributed exactly [c] *)
Lemma split_at_marker (out : list (nat * Z)) c :
  (forall p, In p out -> fst p < 2) -> proj 1 out = [c] ->
  exists pre post, out = pre ++ (1, c) :: post /\
    Forall (fun p => fst p = 0) pre /\ Forall (fun p => fst p = 0) post /\
    proj 0 out = map snd pre ++ map snd post.
Proof.
  induction out as [|[i v] out IH]; intros Ht Hp; [discriminate|].
  assert (Hi : i < 2) by (apply (Ht (i, v)); cbn; auto).
  assert (Ht' : forall p, In p out -> fst p < 2) by (intros p Hp'; apply Ht; cbn; auto).
  destruct i as [|[|i]]; [| |lia].
  - unfold proj in Hp; cbn in Hp. fold (proj 1 out) in Hp.
    destruct (IH Ht' Hp) as (pre & post & -> & F1 & F2 & E).
    exists ((0, v) :: pre), post. repeat split; auto.
    unfold proj in *; cbn. f_equal. exact E.
  - unfold proj in Hp; cbn in Hp. fold (proj 1 out) in Hp. injection Hp as -> Hp.
    exists [], out. assert (F : Forall (fun p => fst p = 0) out).
    { apply Forall_forall. intros [j w] Hj. specialize (Ht' _ Hj). cbn in *.
      destruct j as [|[|j]]; auto; [|lia]. exfalso.
      assert (In w (proj 1 out)) by (unfold proj; apply in_map_iff; exists (1, w); split; auto; apply filter_In; auto).
      rewrite Hp in H. destruct H. }
    repeat split; auto. unfold proj; cbn. fold (proj 0 out). clear -F.
    induction out as [|[j w] out IH]; cbn; auto. inversion F; subst. cbn in *. subst j. cbn. f_equal. apply IH; auto.
Qed.

Lemma dsp_sorted_prefix kf inner sched :
  let s := dsp_run kf (mkSrc inner None) sched in
  m_phase s = PEnd ->
  exists burst later, inner = burst ++ later /\ dsp_output kf (m_out s) = sort_by kf burst ++ later.
Proof.
  intros s Hp. set (srcs0 := [mkSrc inner None; mkSrc [complete_marker] None]).
  assert (Hx : m_exc s = None).
  { destruct (m_exc s) as [e|] eqn:E; auto. exfalso.
    destruct (merge_error srcs0 sched Hp) as [_ H]. destruct (H e E) as (i & Hi & He).
    destruct i as [|[|i]]; cbn in *; try discriminate; lia. }
  destruct (merge_complete srcs0 sched Hp Hx 0 ltac:(cbn; lia)) as [P0 _].
  destruct (merge_complete srcs0 sched Hp Hx 1 ltac:(cbn; lia)) as [P1 _].
  cbn in P0, P1. fold s in P0, P1.
  destruct (split_at_marker (m_out s) complete_marker) as (pre & post & E & F1 & F2 & E0); auto.
  { intros p Hin. apply (merge_tags false srcs0 sched p Hin). }
  change (mreach false srcs0 sched) with s in P0, P1.
  exists (map snd pre), (map snd post). split; [congruence|].
  unfold dsp_output. rewrite E, map_app. cbn [map fst snd].
  rewrite (consume_spec kf); [rewrite !map_map; reflexivity| |];
    apply Forall_forall; intros x Hx'; apply in_map_iff in Hx'; destruct Hx' as (p & <- & Hp');
    unfold from0; cbn; [eapply Forall_forall in F1|eapply Forall_forall in F2]; eauto.
Qed.

(* the original code (flag_fix = false) could yield a later item before the sorted burst: the item
   is consumed when `is_complete` is already true but "__COMPLETE__" has not been consumed yet *)
Lemma dsp_old_code_refuted :
  let stream := [(0, 1%Z, false); (0, 5%Z, false); (0, 2%Z, true); (1, complete_marker, true)] in
  let out := consume (fun v => v) false false [] stream in
  out = [2%Z; 1%Z; 5%Z] /\
  forall burst later, [1%Z; 5%Z; 2%Z] = burst ++ later -> out <> sort_by (fun v => v) burst ++ later.
Proof.
  cbn. split; auto. intros burst later H.
  destruct burst as [|a burst]; cbn in H; [subst; vm_compute; discriminate|].
  injection H as <- H. destruct burst as [|b burst]; cbn in H; [subst; vm_compute; discriminate|].
  injection H as <- H. destruct burst as [|c burst]; cbn in H; [subst; vm_compute; discriminate|].
  injection H as <- H. destruct burst; cbn in H; [subst; vm_compute; discriminate|discriminate].
Qed.

Lemma sort_spec kf l : Permutation (sort_by kf l) l /\ Sorted (fun a b => (kf a <= kf b)%Z) (sort_by kf l).
Proof. exact (conj (sort_perm kf l) (sort_sorted kf l)). Qed.
