(* Proofs/IterUtilsProofs.v — merge_generators / debounced_sorted_prefix over ALL schedules (C29). *)
From Coq Require Import List Bool Arith ZArith Lia Permutation Sorted.
Import ListNotations.
From WF Require Import Base.SchedKL Model.IterUtils.

(* ---------- lists ---------- *)
Lemma upd_len {A} i (x : A) l : length (upd i x l) = length l.
Proof. revert i; induction l as [|y l IH]; intros [|i]; cbn; auto. Qed.

Lemma nth_upd {A} i j (x : A) l d :
  nth i (upd j x l) d = if (i =? j) && (j <? length l) then x else nth i l d.
Proof.
  revert i j; induction l as [|y l IH]; intros i j; cbn.
  - destruct i, j; cbn; rewrite ?andb_false_r; auto.
  - destruct j as [|j]; destruct i as [|i]; cbn; auto.
    rewrite IH. replace (S j <? S (length l)) with (j <? length l); auto.
Qed.

Lemma nth_upd_same {A} i (x : A) l d : i < length l -> nth i (upd i x l) d = x.
Proof. intro H. rewrite nth_upd, Nat.eqb_refl. apply Nat.ltb_lt in H. rewrite H. reflexivity. Qed.

Lemma nth_upd_other {A} i j (x : A) l d : i <> j -> nth i (upd j x l) d = nth i l d.
Proof. intro H. rewrite nth_upd. apply Nat.eqb_neq in H. rewrite H. reflexivity. Qed.

Lemma proj_app i a b : proj i (a ++ b) = proj i a ++ proj i b.
Proof. unfold proj. rewrite filter_app, map_app. reflexivity. Qed.

Lemma proj_single i j v : proj i [(j, v)] = if j =? i then [v] else [].
Proof. unfold proj; cbn. destruct (j =? i); reflexivity. Qed.

(* ---------- accessors ---------- *)
Definition tk (s : mst) i := nth i (m_tasks s) TNone.
Definition act (s : mst) i := nth i (m_active s) false.
Definition cur_items (s : mst) i := s_items (nth i (m_srcs s) src_dflt).
Definition cur_end (s : mst) i := s_end (nth i (m_srcs s) src_dflt).
Definition mid (s : mst) i := match tk s i with TFinished (RItem v) => [v] | _ => [] end.
Definition items0 (srcs0 : list src) i := s_items (nth i srcs0 src_dflt).
Definition end0 (srcs0 : list src) i := s_end (nth i srcs0 src_dflt).

Record Core (stop : bool) (srcs0 : list src) (s : mst) : Prop := {
  V_len : length (m_srcs s) = length srcs0 /\ length (m_active s) = length srcs0 /\ length (m_tasks s) = length srcs0;
  V_cons : forall i, i < length srcs0 -> items0 srcs0 i = proj i (m_out s) ++ mid s i ++ cur_items s i;
  V_tags : forall p, In p (m_out s) -> fst p < length srcs0;
  V_end : forall i, i < length srcs0 ->
          cur_end s i = end0 srcs0 i \/ exists e, end0 srcs0 i = Some e /\ tk s i = TFinished (RErr e);
  V_stop : forall i, i < length srcs0 -> tk s i = TFinished RStop -> cur_items s i = [] /\ cur_end s i = None;
  V_inact : forall i, i < length srcs0 -> act s i = false ->
          cur_items s i = [] /\ end0 srcs0 i = None /\ tk s i = TNone;
  V_none : forall i, i < length srcs0 -> tk s i = TNone -> act s i = false \/ exists rest, m_phase s = PYield i rest;
  V_rest : forall cur rest, m_phase s = PYield cur rest ->
          cur < length srcs0 /\ tk s cur = TNone /\ ~ In cur (map fst rest) /\ NoDup (map fst rest) /\
          forall j v, In (j, v) rest -> j < length srcs0 /\ tk s j = TFinished (RItem v);
  V_exc : forall e, m_exc s = Some e -> exists i, i < length srcs0 /\ end0 srcs0 i = Some e;
  V_stopped : m_stopped s = true -> stop = true
}.

Record MInv (stop : bool) (srcs0 : list src) (s : mst) : Prop := {
  V_core : Core stop srcs0 s;
  V_endp : m_phase s = PEnd -> has_task s = false \/ m_exc s <> None \/ m_stopped s = true;
  V_wait : m_phase s = PWait -> has_task s = true
}.

Lemma has_task_true s i : i < length (m_tasks s) -> tk s i <> TNone -> has_task s = true.
Proof.
  intros Hi Ht. unfold has_task. apply existsb_exists. exists (tk s i). split.
  - apply nth_In; auto.
  - destruct (tk s i); auto; congruence.
Qed.

Lemma has_task_false s : has_task s = false -> forall i, tk s i = TNone.
Proof.
  intros H i. unfold has_task in H. unfold tk.
  destruct (Nat.ltb_spec i (length (m_tasks s))) as [Hi|Hi]; [|apply nth_overflow; auto].
  destruct (nth i (m_tasks s) TNone) eqn:E; auto; exfalso;
    assert (existsb (fun t => match t with TNone => false | _ => true end) (m_tasks s) = true)
      by (apply existsb_exists; eexists; split; [apply nth_In; eauto| rewrite E; auto]); congruence.
Qed.

(* ---------- init ---------- *)
Lemma nth_map_const {A B} (c d : B) (l : list A) i : i < length l -> nth i (map (fun _ => c) l) d = c.
Proof. revert i; induction l as [|y l IH]; intros [|i] H; cbn in *; try lia; auto. apply IH; lia. Qed.

Lemma minit_inv stop srcs0 : MInv stop srcs0 (minit srcs0).
Proof.
  assert (T : forall i, i < length srcs0 -> tk (minit srcs0) i = TRunning).
  { intros i Hi. unfold tk, minit; cbn. apply nth_map_const; auto. }
  constructor; [constructor|..].
  - cbn. rewrite !map_length. auto.
  - intros i Hi. unfold mid. rewrite T by auto. reflexivity.
  - intros p [].
  - intros i Hi. left. reflexivity.
  - intros i Hi H. rewrite T in H by auto. discriminate.
  - intros i Hi H. exfalso. unfold act, minit in H; cbn in H.
    rewrite nth_map_const in H by auto. discriminate.
  - intros i Hi H. rewrite T in H by auto. discriminate.
  - intros cur rest H. cbn in H. destruct srcs0; discriminate.
  - cbn. discriminate.
  - cbn. discriminate.
  - cbn. destruct srcs0; [left; reflexivity|discriminate].
  - cbn. destruct srcs0 as [|a r]; [discriminate|]. intros _. reflexivity.
Qed.

(* ---------- primitive updates preserve the core invariant ---------- *)
Definition item_of (t : tstate) : list Z := match t with TFinished (RItem v) => [v] | _ => [] end.

(* the pending task of source i finishes: its task and its remaining behaviour change *)
Lemma core_finish stop srcs0 s i t' r' :
  Core stop srcs0 s -> i < length srcs0 -> tk s i = TRunning -> t' <> TNone ->
  item_of t' ++ s_items r' = cur_items s i ->
  (s_end r' = cur_end s i \/ exists e, cur_end s i = Some e /\ t' = TFinished (RErr e)) ->
  (t' = TFinished RStop -> s_items r' = [] /\ s_end r' = None) ->
  Core stop srcs0 (mkM (upd i r' (m_srcs s)) (m_active s) (upd i t' (m_tasks s)) (m_phase s) (m_exc s) (m_stopped s) (m_out s)).
Proof.
  intros [[L1 [L2 L3]] Vc Vt Ve Vs Vi Vn Vr Vx Vp] Hi Ht Hn Hit Hend Hstop.
  assert (T : forall j, tk (mkM (upd i r' (m_srcs s)) (m_active s) (upd i t' (m_tasks s)) (m_phase s) (m_exc s) (m_stopped s) (m_out s)) j
              = if j =? i then t' else tk s j).
  { intro j. unfold tk; cbn [m_tasks]. destruct (Nat.eqb_spec j i).
    - subst. apply nth_upd_same. lia.
    - apply nth_upd_other. auto. }
  assert (S : forall j, nth j (upd i r' (m_srcs s)) src_dflt = if j =? i then r' else nth j (m_srcs s) src_dflt).
  { intro j. destruct (Nat.eqb_spec j i).
    - subst. apply nth_upd_same. lia.
    - apply nth_upd_other. auto. }
  constructor; unfold mid, cur_items, cur_end, act in *; cbn [m_srcs m_active m_phase m_exc m_stopped m_out]; auto.
  - cbn. rewrite !upd_len. auto.
  - intros j Hj. rewrite T, S. destruct (Nat.eqb_spec j i); [subst|apply Vc; auto].
    rewrite (Vc i Hi), Ht. cbn [app]. fold (item_of t'). rewrite Hit. reflexivity.
  - intros j Hj. rewrite T, S. destruct (Nat.eqb_spec j i); [subst|apply Ve; auto].
    destruct (Ve i Hi) as [E|(e & _ & E)]; [|congruence].
    destruct Hend as [H|(e & H1 & H2)]; [left; congruence|right; exists e; split; congruence].
  - intros j Hj. rewrite T, S. destruct (Nat.eqb_spec j i); [subst; auto|apply Vs; auto].
  - intros j Hj Ha. rewrite T, S. destruct (Nat.eqb_spec j i); [subst|apply Vi; auto].
    destruct (Vi i Hi Ha) as (_ & _ & E). congruence.
  - intros j Hj. rewrite T. destruct (Nat.eqb_spec j i); [subst; congruence|apply Vn; auto].
  - intros cur rest Hp. destruct (Vr cur rest Hp) as (a & b & c & d & e). repeat split; auto.
    + rewrite T. destruct (Nat.eqb_spec cur i); [subst; congruence|auto].
    + apply (e j v H).
    + rewrite T. destruct (Nat.eqb_spec j i); [subst|apply (e j v H)].
      destruct (e i v H) as [_ E]. congruence.
Qed.

Lemma finish_core stop srcs0 s i : Core stop srcs0 s -> Core stop srcs0 (finish s i).
Proof.
  intro HC. unfold finish, task_of_src. fold (tk s i). destruct (tk s i) eqn:Ht; [exact HC| |exact HC].
  destruct (Nat.ltb_spec i (length srcs0)) as [Hi|Hi].
  2:{ exfalso. destruct (V_len _ _ _ HC) as (_ & _ & L). unfold tk in Ht. rewrite nth_overflow in Ht by lia. discriminate. }
  destruct (s_items (nth i (m_srcs s) src_dflt)) as [|v r] eqn:Hit.
  - destruct (s_end (nth i (m_srcs s) src_dflt)) as [e|] eqn:He.
    + apply core_finish; auto; try discriminate; unfold cur_items, cur_end; rewrite ?Hit, ?He; cbn; eauto.
    + replace (set_tasks s (upd i (TFinished RStop) (m_tasks s)))
        with (mkM (upd i (nth i (m_srcs s) src_dflt) (m_srcs s)) (m_active s) (upd i (TFinished RStop) (m_tasks s))
                  (m_phase s) (m_exc s) (m_stopped s) (m_out s)).
      2:{ unfold set_tasks. f_equal. clear. generalize (m_srcs s). intro l. revert i.
          induction l as [|y l IH]; intros [|i]; cbn; auto. f_equal. apply IH. }
      apply core_finish; auto; try discriminate; unfold cur_items, cur_end; rewrite ?Hit, ?He; cbn; auto.
  - apply core_finish; auto; try discriminate; unfold cur_items, cur_end; rewrite ?Hit; cbn; auto.
Qed.
