(* Proofs about M-Migrate (C28).  Part 1: the runner, for ANY schema type, ANY script semantics and
   ANY list of version-tagged migrations.  Part 2: the catalogue equalities.  Part 3: the instance
   (the packaged server migrations, parsed into Generated.v) — a finite sweep over all starts. *)
From Coq Require Import List ZArith Bool String Lia FinFun.
From WF Require Import Generated Model.Migrate.
Import ListNotations.
Open Scope list_scope.
Open Scope Z_scope.

Lemma zmem_In : forall v l, zmem v l = true <-> In v l.
Proof.
  intros v l. unfold zmem. rewrite existsb_exists. split.
  - intros [x [Hx He]]. apply Z.eqb_eq in He. subst. exact Hx.
  - intro H. exists v. split; [exact H | apply Z.eqb_refl].
Qed.

Lemma zmem_false_nIn : forall v l, zmem v l = false <-> ~ In v l.
Proof.
  intros v l. rewrite <- zmem_In. destruct (zmem v l); split; congruence.
Qed.

Lemma zmem_cons : forall x v l, zmem x (v :: l) = (x =? v) || zmem x l.
Proof. reflexivity. Qed.

Lemma zmem_same_In : forall v a b, (In v a <-> In v b) -> zmem v a = zmem v b.
Proof.
  intros v a b H. destruct (zmem v a) eqn:Ea, (zmem v b) eqn:Eb; try reflexivity.
  - apply zmem_In in Ea. apply H in Ea. apply zmem_In in Ea. congruence.
  - apply zmem_In in Eb. apply H in Eb. apply zmem_In in Eb. congruence.
Qed.

Lemma NoDup_app_intro : forall (A : Type) (l1 l2 : list A),
  NoDup l1 -> NoDup l2 -> (forall x, In x l1 -> In x l2 -> False) -> NoDup (l1 ++ l2).
Proof.
  intros A l1 l2 H1 H2 Hd. induction l1 as [|a l1 IH]; cbn; [exact H2|].
  inversion H1 as [|x l Hx Hl]; subst. constructor.
  - intro Hin. apply in_app_or in Hin. destruct Hin as [Hin|Hin]; [exact (Hx Hin)|].
    apply (Hd a); [left; reflexivity | exact Hin].
  - apply IH; [exact Hl|]. intros x Hx1 Hx2. apply (Hd x); [right; exact Hx1 | exact Hx2].
Qed.

Section RunnerProofs.
  Context {schema script : Type}.
  Variable exec : script -> schema -> option schema.

  Notation mig := (@mig script).
  Notation db := (@db schema).

  (* ---- a rows-free presentation of the loop: ok flag, newly recorded versions, schema ---- *)
  Fixpoint core (ms : list mig) (applied : list Z) (sch : schema) : bool * list Z * schema :=
    match ms with
    | [] => (true, [], sch)
    | m :: rest =>
        if zmem (m_ver m) applied || (m_ver m =? 0) then core rest applied sch
        else match exec (m_script m) sch with
             | None => (false, [], sch)
             | Some sch' =>
                 match core rest (m_ver m :: applied) sch' with
                 | (ok, news, s') => (ok, m_ver m :: news, s')
                 end
             end
    end.

  Definition tag (pkg : string) (l : list Z) : list (string * Z) := map (fun v => (pkg, v)) l.

  Lemma run_files_core : forall pkg ms ap s rows,
    run_files exec pkg ms ap s rows =
    match core ms ap s with
    | (ok, news, s') => FS ok (rev news ++ ap) s' (rows ++ tag pkg news)
    end.
  Proof.
    intros pkg ms. induction ms as [|m rest IH]; intros ap s rows; cbn [run_files core].
    - cbn. rewrite app_nil_r. reflexivity.
    - destruct (zmem (m_ver m) ap || (m_ver m =? 0)) eqn:E.
      + apply IH.
      + destruct (exec (m_script m) s) as [s1|] eqn:Ex.
        * rewrite IH. destruct (core rest (m_ver m :: ap) s1) as [[ok news] s'].
          cbn [rev tag map]. rewrite <- !app_assoc. reflexivity.
        * cbn. rewrite app_nil_r. reflexivity.
  Qed.

  Lemma core_ext : forall ms a1 a2 s,
    (forall v, In v (map m_ver ms) -> zmem v a1 = zmem v a2) -> core ms a1 s = core ms a2 s.
  Proof.
    induction ms as [|m rest IH]; intros a1 a2 s H; cbn [core]; [reflexivity|].
    rewrite <- (H (m_ver m)) by (left; reflexivity).
    destruct (zmem (m_ver m) a1 || (m_ver m =? 0)).
    - apply IH. intros v Hv. apply H. right. exact Hv.
    - destruct (exec (m_script m) s) as [s1|]; [|reflexivity].
      rewrite (IH (m_ver m :: a1) (m_ver m :: a2) s1); [reflexivity|].
      intros v Hv. rewrite !zmem_cons. rewrite (H v) by (right; exact Hv). reflexivity.
  Qed.

  Lemma core_skip : forall ms ap s,
    (forall m, In m ms -> m_ver m = 0 \/ zmem (m_ver m) ap = true) -> core ms ap s = (true, [], s).
  Proof.
    induction ms as [|m rest IH]; intros ap s H; cbn [core]; [reflexivity|].
    assert (E : zmem (m_ver m) ap || (m_ver m =? 0) = true).
    { destruct (H m (or_introl eq_refl)) as [H0|H1].
      - rewrite H0. rewrite orb_true_r. reflexivity.
      - rewrite H1. reflexivity. }
    rewrite E. apply IH. intros m' Hm'. apply H. right. exact Hm'.
  Qed.

  Lemma core_app : forall a b ap s,
    core (a ++ b) ap s =
    match core a ap s with
    | (true, n1, s1) => match core b (rev n1 ++ ap) s1 with (ok2, n2, s2) => (ok2, n1 ++ n2, s2) end
    | (false, n1, s1) => (false, n1, s1)
    end.
  Proof.
    induction a as [|m rest IH]; intros b ap s; cbn [app core].
    - cbn. destruct (core b ap s) as [[ok n] s']. reflexivity.
    - destruct (zmem (m_ver m) ap || (m_ver m =? 0)); [apply IH|].
      destruct (exec (m_script m) s) as [s1|]; [|reflexivity].
      rewrite IH. destruct (core rest (m_ver m :: ap) s1) as [[ok n1] s2].
      destruct ok; [|reflexivity].
      cbn [rev]. rewrite <- app_assoc. cbn [app].
      destruct (core b (rev n1 ++ m_ver m :: ap) s2) as [[ok2 n2] s3]. reflexivity.
  Qed.

  (* after a successful pass every non-zero version of the list is in the applied set *)
  Lemma core_covers : forall ms ap s news s',
    core ms ap s = (true, news, s') ->
    forall m, In m ms -> m_ver m = 0 \/ In (m_ver m) (news ++ ap).
  Proof.
    induction ms as [|m rest IH]; intros ap s news s' H m0 Hin; [destruct Hin|].
    cbn [core] in H.
    destruct (zmem (m_ver m) ap || (m_ver m =? 0)) eqn:E.
    - destruct Hin as [<-|Hin].
      + apply orb_true_iff in E. destruct E as [E|E].
        * right. apply in_or_app. right. apply zmem_In. exact E.
        * left. apply Z.eqb_eq. exact E.
      + eapply IH; eauto.
    - destruct (exec (m_script m) s) as [s1|]; [|discriminate].
      destruct (core rest (m_ver m :: ap) s1) as [[ok n1] s2] eqn:Ec.
      inversion H; subst ok news s'. clear H.
      destruct Hin as [<-|Hin].
      + right. left. reflexivity.
      + destruct (IH _ _ _ _ Ec m0 Hin) as [H0|H1]; [left; exact H0|].
        right. apply in_app_or in H1. destruct H1 as [H1|[H1|H1]].
        * right. apply in_or_app. left. exact H1.
        * left. exact H1.
        * right. apply in_or_app. right. exact H1.
  Qed.

  (* what is newly recorded: without repetition, non-zero, not applied before, from the list *)
  Lemma core_news : forall ms ap s ok news s',
    core ms ap s = (ok, news, s') ->
    NoDup news /\ forall v, In v news -> v <> 0 /\ ~ In v ap /\ In v (map m_ver ms).
  Proof.
    induction ms as [|m rest IH]; intros ap s ok news s' H; cbn [core] in H.
    - inversion H; subst. split; [constructor | intros v []].
    - destruct (zmem (m_ver m) ap || (m_ver m =? 0)) eqn:E.
      + destruct (IH _ _ _ _ _ H) as [Hn Hv]. split; [exact Hn|].
        intros v Hin. destruct (Hv v Hin) as [A [B C]]. repeat split; auto. right. exact C.
      + destruct (exec (m_script m) s) as [s1|].
        * destruct (core rest (m_ver m :: ap) s1) as [[ok1 n1] s2] eqn:Ec.
          inversion H; subst ok news s'. clear H.
          destruct (IH _ _ _ _ _ Ec) as [Hn Hv].
          apply orb_false_iff in E. destruct E as [E1 E2].
          apply zmem_false_nIn in E1. apply Z.eqb_neq in E2.
          split.
          -- constructor; [|exact Hn]. intro Hin. destruct (Hv _ Hin) as [_ [B _]].
             apply B. left. reflexivity.
          -- intros v [<-|Hin].
             ++ repeat split; auto. left. reflexivity.
             ++ destruct (Hv v Hin) as [A [B C]]. repeat split; auto.
                ** intro Hap. apply B. right. exact Hap.
                ** right. exact C.
        * inversion H; subst. split; [constructor | intros v []].
  Qed.

  (* a list of distinct, non-zero, not yet applied versions whose scripts all succeed is run in full *)
  Lemma core_all_run : forall a ap s s',
    NoDup (map m_ver a) -> (forall m, In m a -> m_ver m <> 0 /\ ~ In (m_ver m) ap) ->
    exec_all exec (map m_script a) s = Some s' ->
    core a ap s = (true, map m_ver a, s').
  Proof.
    induction a as [|m rest IH]; intros ap s s' Hnd Hall Hex; cbn in *.
    - inversion Hex. reflexivity.
    - destruct (Hall m (or_introl eq_refl)) as [Hnz Hni].
      apply zmem_false_nIn in Hni. apply Z.eqb_neq in Hnz. rewrite Hni, Hnz. cbn.
      destruct (exec (m_script m) s) as [s1|]; [|discriminate].
      inversion Hnd as [|x l Hx Hl]; subst.
      rewrite (IH (m_ver m :: ap) s1 s' Hl); [reflexivity| |exact Hex].
      intros m' Hm'. destruct (Hall m' (or_intror Hm')) as [A B]. split; [exact A|].
      intros [Heq|Hin]; [|exact (B Hin)].
      apply Hx. rewrite Heq. apply in_map. exact Hm'.
  Qed.

  (* ---- applied_of ---- *)
  Lemma applied_of_app : forall p r1 r2, applied_of p (r1 ++ r2) = applied_of p r1 ++ applied_of p r2.
  Proof. intros. unfold applied_of. rewrite filter_app, map_app. reflexivity. Qed.

  Lemma applied_of_tag_same : forall p l, applied_of p (tag p l) = l.
  Proof.
    intros p l. unfold applied_of, tag. induction l as [|v l IH]; [reflexivity|].
    cbn. rewrite String.eqb_refl. cbn. rewrite IH. reflexivity.
  Qed.

  Lemma applied_of_tag_other : forall p q l, p <> q -> applied_of p (tag q l) = [].
  Proof.
    intros p q l Hne. unfold applied_of, tag. induction l as [|v l IH]; [reflexivity|].
    cbn. destruct (String.eqb q p) eqn:E; [apply String.eqb_eq in E; congruence|]. exact IH.
  Qed.

  (* ---- bootstrap ---- *)
  Definition boot_rows (d : db) : list (string * Z) :=
    match d_sm (bootstrap d) with Some r => r | None => [] end.

  Lemma boot_rows_some : forall d r, d_sm d = Some r -> boot_rows d = r.
  Proof. intros d r H. unfold boot_rows, bootstrap. rewrite H. rewrite H. reflexivity. Qed.

  Lemma boot_rows_none : forall d, d_sm d = None -> boot_rows d = seed_rows (d_uv d).
  Proof.
    intros d H. unfold boot_rows, bootstrap. rewrite H. cbn.
    destruct (0 <? d_uv d) eqn:E; [reflexivity|].
    apply Z.ltb_ge in E. unfold seed_rows.
    replace (Z.to_nat (d_uv d)) with 0%nat by lia. reflexivity.
  Qed.

  Lemma seed_rows_tag : forall v, seed_rows v = tag SERVER (map Z.of_nat (seq 1 (Z.to_nat v))).
  Proof. intro v. unfold seed_rows, tag. rewrite map_map. reflexivity. Qed.

  Lemma NoDup_zseq : forall a n, NoDup (map Z.of_nat (seq a n)).
  Proof.
    intros a n. apply Injective_map_NoDup; [|apply seq_NoDup].
    intros x y H. apply Nat2Z.inj. exact H.
  Qed.

  Lemma In_zseq1 : forall x n, In x (map Z.of_nat (seq 1 n)) <-> 1 <= x <= Z.of_nat n.
  Proof.
    intros x n. rewrite in_map_iff. split.
    - intros [k [<- Hk]]. apply in_seq in Hk. lia.
    - intro H. exists (Z.to_nat x). split; [lia|]. apply in_seq. lia.
  Qed.

  Lemma boot_rows_nodup : forall p d, d_sm d = None -> NoDup (applied_of p (boot_rows d)).
  Proof.
    intros p d H. rewrite (boot_rows_none d H), seed_rows_tag.
    destruct (string_dec p SERVER) as [->|Hne].
    - rewrite applied_of_tag_same. apply NoDup_zseq.
    - rewrite applied_of_tag_other by exact Hne. constructor.
  Qed.

  Lemma bootstrap_schema : forall d : db, d_schema (bootstrap d) = d_schema d.
  Proof. intro d. unfold bootstrap. destruct (d_sm d); reflexivity. Qed.
  Lemma bootstrap_uv : forall d : db, d_uv (bootstrap d) = d_uv d.
  Proof. intro d. unfold bootstrap. destruct (d_sm d); reflexivity. Qed.

  (* ---- one source ---- *)
  Lemma run_single : forall p ms d,
    run_migrations exec [(p, ms)] d =
    match core ms (applied_of p (boot_rows d)) (d_schema d) with
    | (true, news, s') => Done (Db s' (d_uv d) (Some (boot_rows d ++ tag p news)))
    | (false, news, s') => Failed (Db s' (d_uv d) (Some (boot_rows d ++ tag p news)))
    end.
  Proof.
    intros p ms d. unfold run_migrations. cbn [run_sources].
    rewrite run_files_core. fold (boot_rows d). rewrite bootstrap_schema, bootstrap_uv.
    destruct (core ms (applied_of p (boot_rows d)) (d_schema d)) as [[ok news] s'].
    destruct ok; reflexivity.
  Qed.

  (* ======================= T3: any prefix converges ======================= *)
  (* A database produced by running a prefix `a` of the list (from ANY database d) and then given
     the whole list `a ++ b` behaves exactly like d given the whole list: same outcome (success or
     failure), same schema, same rows in the same order, same user_version. *)
  Theorem prefix_converges : forall p a b d da,
    run_migrations exec [(p, a)] d = Done da ->
    run_migrations exec [(p, a ++ b)] da = run_migrations exec [(p, a ++ b)] d.
  Proof.
    intros p a b d da H. rewrite run_single in H.
    destruct (core a (applied_of p (boot_rows d)) (d_schema d)) as [[ok n1] s1] eqn:Ea.
    destruct ok; [|discriminate]. inversion H; subst da; clear H.
    rewrite !run_single. cbn [d_schema d_uv].
    rewrite (boot_rows_some _ (boot_rows d ++ tag p n1)) by reflexivity.
    rewrite applied_of_app, applied_of_tag_same.
    rewrite !core_app. rewrite Ea.
    rewrite core_skip.
    2:{ intros m Hm. destruct (core_covers _ _ _ _ _ Ea m Hm) as [H0|H1]; [left; exact H0|].
        right. apply zmem_In. apply in_or_app. apply in_app_or in H1. tauto. }
    cbn [rev app].
    rewrite (core_ext b (applied_of p (boot_rows d) ++ n1) (rev n1 ++ applied_of p (boot_rows d)) s1).
    2:{ intros v _. apply zmem_same_In. rewrite !in_app_iff, <- in_rev. tauto. }
    destruct (core b (rev n1 ++ applied_of p (boot_rows d)) s1) as [[ok2 n2] s2].
    unfold tag. rewrite map_app, app_assoc. destruct ok2; reflexivity.
  Qed.

  (* ======================= a failed run leaves a prefix state ======================= *)
  Lemma core_failed_prefix : forall ms ap s news s',
    core ms ap s = (false, news, s') ->
    exists a m c, ms = a ++ m :: c /\ core a ap s = (true, news, s') /\ exec (m_script m) s' = None.
  Proof.
    induction ms as [|m rest IH]; intros ap s news s' H; cbn [core] in H; [discriminate|].
    destruct (zmem (m_ver m) ap || (m_ver m =? 0)) eqn:E.
    - destruct (IH _ _ _ _ H) as [a [m0 [c [Hms [Hc Hx]]]]].
      exists (m :: a), m0, c. split; [rewrite Hms; reflexivity|]. split; [|exact Hx].
      cbn [core]. rewrite E. exact Hc.
    - destruct (exec (m_script m) s) as [s1|] eqn:Ex.
      + destruct (core rest (m_ver m :: ap) s1) as [[ok n1] s2] eqn:Ec.
        inversion H; subst ok news s'. clear H.
        destruct (IH _ _ _ _ Ec) as [a [m0 [c [Hms [Hc Hx]]]]].
        exists (m :: a), m0, c. split; [rewrite Hms; reflexivity|]. split; [|exact Hx].
        cbn [core]. rewrite E, Ex, Hc. reflexivity.
      + inversion H; subst news s'. exists [], m, rest. repeat split. exact Ex.
  Qed.

  (* When run_migrations raises, the database it leaves is exactly the one a successful run of the
     files before the failing one produces (the failing script left no trace, its version is not
     recorded). *)
  Theorem failed_run_is_prefix_state : forall p ms d df,
    run_migrations exec [(p, ms)] d = Failed df ->
    exists a m c, ms = a ++ m :: c /\ run_migrations exec [(p, a)] d = Done df /\
                  exec (m_script m) (d_schema df) = None.
  Proof.
    intros p ms d df H. rewrite run_single in H.
    destruct (core ms (applied_of p (boot_rows d)) (d_schema d)) as [[ok news] s'] eqn:Ec.
    destruct ok; [discriminate|]. inversion H; subst df; clear H.
    destruct (core_failed_prefix _ _ _ _ _ Ec) as [a [m [c [Hms [Hc Hx]]]]].
    exists a, m, c. split; [exact Hms|]. split; [|exact Hx].
    rewrite run_single, Hc. reflexivity.
  Qed.

  (* Hence a database left behind by a failed run converges too: once the failing file is replaced
     (by any m'), continuing from the failed database ends exactly like the original start. *)
  Corollary failed_then_repaired_converges : forall p ms d df,
    run_migrations exec [(p, ms)] d = Failed df ->
    exists a m c, ms = a ++ m :: c /\ forall m',
      run_migrations exec [(p, a ++ m' :: c)] df = run_migrations exec [(p, a ++ m' :: c)] d.
  Proof.
    intros p ms d df H. destruct (failed_run_is_prefix_state _ _ _ _ H) as [a [m [c [Hms [Hr _]]]]].
    exists a, m, c. split; [exact Hms|]. intro m'. exact (prefix_converges p a (m' :: c) d df Hr).
  Qed.

  (* ======================= T1: idempotence (any number of sources) ======================= *)
  Lemma sources_noop : forall srcs s uv rows,
    (forall p ms, In (p, ms) srcs -> forall m, In m ms ->
        m_ver m = 0 \/ In (m_ver m) (applied_of p rows)) ->
    run_sources exec srcs s uv rows = Done (Db s uv (Some rows)).
  Proof.
    induction srcs as [|[p ms] rest IH]; intros s uv rows H; cbn [run_sources]; [reflexivity|].
    rewrite run_files_core. rewrite core_skip.
    - cbn. rewrite app_nil_r. apply IH. intros q ms' Hin. apply H. right. exact Hin.
    - intros m Hm. destruct (H p ms (or_introl eq_refl) m Hm) as [A|B]; [left; exact A|].
      right. apply zmem_In. exact B.
  Qed.

  Lemma sources_done_covers : forall srcs s uv rows d',
    run_sources exec srcs s uv rows = Done d' ->
    exists ext, d' = Db (d_schema d') uv (Some (rows ++ ext)) /\
      forall p ms, In (p, ms) srcs -> forall m, In m ms ->
        m_ver m = 0 \/ In (m_ver m) (applied_of p (rows ++ ext)).
  Proof.
    induction srcs as [|[p ms] rest IH]; intros s uv rows d' H; cbn [run_sources] in H.
    - inversion H; subst d'. exists []. rewrite app_nil_r. split; [reflexivity|]. intros ? ? [].
    - rewrite run_files_core in H.
      destruct (core ms (applied_of p rows) s) as [[ok news] s1] eqn:Ec. cbn in H.
      destruct ok; [|discriminate].
      destruct (IH _ _ _ _ H) as [ext [Hd Hcov]].
      exists (tag p news ++ ext). rewrite app_assoc. split; [exact Hd|].
      intros q ms' [Heq|Hin] m Hm.
      + inversion Heq; subst q ms'.
        destruct (core_covers _ _ _ _ _ Ec m Hm) as [A|B]; [left; exact A|]. right.
        rewrite !applied_of_app, applied_of_tag_same.
        apply in_app_or in B. rewrite !in_app_iff. tauto.
      + exact (Hcov q ms' Hin m Hm).
  Qed.

  Theorem run_idempotent : forall srcs d d',
    run_migrations exec srcs d = Done d' -> run_migrations exec srcs d' = Done d'.
  Proof.
    intros srcs d d' H. unfold run_migrations in H.
    destruct (sources_done_covers _ _ _ _ _ H) as [ext [Hd Hcov]].
    rewrite Hd. unfold run_migrations, bootstrap. cbn [d_sm d_schema d_uv].
    apply sources_noop. exact Hcov.
  Qed.

  (* a run never touches PRAGMA user_version *)
  Theorem run_keeps_user_version : forall srcs d d',
    run_migrations exec srcs d = Done d' -> d_uv d' = d_uv d.
  Proof.
    intros srcs d d' H. unfold run_migrations in H.
    destruct (sources_done_covers _ _ _ _ _ H) as [ext [Hd _]].
    rewrite Hd. cbn. apply bootstrap_uv.
  Qed.

  (* ======================= T2: every version recorded, once ======================= *)
  Theorem recorded_once : forall p ms d d',
    run_migrations exec [(p, ms)] d = Done d' ->
    NoDup (applied_of p (boot_rows d)) ->
    exists rows', d_sm d' = Some rows' /\ NoDup (applied_of p rows') /\
      (forall m, In m ms -> m_ver m <> 0 -> In (m_ver m) (applied_of p rows')) /\
      (forall v, In v (applied_of p rows') ->
                 In v (applied_of p (boot_rows d)) \/ (v <> 0 /\ In v (map m_ver ms))).
  Proof.
    intros p ms d d' H Hnd. rewrite run_single in H.
    destruct (core ms (applied_of p (boot_rows d)) (d_schema d)) as [[ok news] s'] eqn:Ec.
    destruct ok; [|discriminate]. inversion H; subst d'; clear H.
    exists (boot_rows d ++ tag p news). cbn [d_sm]. split; [reflexivity|].
    rewrite applied_of_app, applied_of_tag_same.
    destruct (core_news _ _ _ _ _ _ Ec) as [Hn Hv].
    split; [|split].
    - apply NoDup_app_intro; auto. intros x Hx1 Hx2. destruct (Hv x Hx2) as [_ [B _]]. exact (B Hx1).
    - intros m Hm Hnz. destruct (core_covers _ _ _ _ _ Ec m Hm) as [A|B]; [congruence|].
      apply in_app_or in B. rewrite in_app_iff. tauto.
    - intros v Hin. apply in_app_or in Hin. destruct Hin as [A|B]; [left; exact A|].
      right. destruct (Hv v B) as [X [_ Z]]. split; assumption.
  Qed.

  (* the same with "once" spelled as a count *)
  Corollary recorded_exactly_once : forall p ms d d',
    run_migrations exec [(p, ms)] d = Done d' ->
    NoDup (applied_of p (boot_rows d)) ->
    exists rows', d_sm d' = Some rows' /\
      forall m, In m ms -> m_ver m <> 0 -> count_occ Z.eq_dec (applied_of p rows') (m_ver m) = 1%nat.
  Proof.
    intros p ms d d' H Hnd. destruct (recorded_once _ _ _ _ H Hnd) as [rows' [A [B [C _]]]].
    exists rows'. split; [exact A|]. intros m Hm Hnz.
    apply NoDup_count_occ'; [exact B|]. exact (C m Hm Hnz).
  Qed.

  (* ======================= T4: legacy user_version databases ======================= *)
  Lemma zmem_zseq1 : forall x v, zmem x (map Z.of_nat (seq 1 (Z.to_nat v))) = true <-> 1 <= x <= v.
  Proof. intros x v. rewrite zmem_In, In_zseq1. lia. Qed.

  (* Split form.  The list is a ++ b; the legacy database at user_version v (no schema_migrations
     table) has had exactly the scripts of `a` executed (distinct versions in 1..v), the versions of
     `b` are above v.  Then, whenever the run from the empty database succeeds, the run from the
     legacy database succeeds with the SAME final schema; every version of the list is recorded
     exactly once; and if the versions of `a` are exactly 1..v the recorded rows are identical. *)
  Theorem legacy_converges_split : forall a b v s0 sL,
    0 <= v ->
    (forall m, In m a -> 1 <= m_ver m <= v) -> NoDup (map m_ver a) ->
    (forall m, In m b -> v < m_ver m) ->
    exec_all exec (map m_script a) s0 = Some sL ->
    forall dF, run_migrations exec [(SERVER, a ++ b)] (Db s0 0 None) = Done dF ->
    exists rowsF rowsL,
      d_sm dF = Some rowsF /\
      run_migrations exec [(SERVER, a ++ b)] (Db sL v None) = Done (Db (d_schema dF) v (Some rowsL)) /\
      (forall m, In m (a ++ b) -> In (m_ver m) (applied_of SERVER rowsL)) /\
      NoDup (applied_of SERVER rowsL) /\
      (map m_ver a = map Z.of_nat (seq 1 (Z.to_nat v)) -> rowsL = rowsF).
  Proof.
    intros a b v s0 sL Hv Ha Hnd Hb Hex dF HF.
    rewrite run_single in HF. rewrite boot_rows_none in HF by reflexivity.
    cbn [d_uv d_schema] in HF. change (seed_rows 0) with (@nil (string * Z)) in HF.
    cbn [applied_of filter map app] in HF.
    rewrite core_app in HF.
    rewrite (core_all_run a [] s0 sL Hnd) in HF; [| |exact Hex].
    2:{ intros m Hm. split; [specialize (Ha m Hm); lia | intros []]. }
    rewrite app_nil_r in HF.
    destruct (core b (rev (map m_ver a)) sL) as [[ok2 n2] s2] eqn:Eb.
    destruct ok2; [|discriminate]. inversion HF; subst dF; clear HF. cbn [d_sm d_schema].
    exists (tag SERVER (map m_ver a ++ n2)), (seed_rows v ++ tag SERVER n2).
    split; [reflexivity|].
    assert (Ecore : core (a ++ b) (applied_of SERVER (seed_rows v)) sL = (true, n2, s2)).
    { rewrite core_app. rewrite core_skip.
      - cbn [rev app].
        rewrite (core_ext b _ (rev (map m_ver a)) sL); [rewrite Eb; reflexivity|].
        intros x Hx. apply in_map_iff in Hx. destruct Hx as [m [<- Hm]]. specialize (Hb m Hm).
        rewrite seed_rows_tag, applied_of_tag_same.
        transitivity false.
        + apply zmem_false_nIn. intro Hin. apply zmem_In, zmem_zseq1 in Hin. lia.
        + symmetry. apply zmem_false_nIn. rewrite <- in_rev. intro Hin.
          apply in_map_iff in Hin. destruct Hin as [m' [Heq Hm']]. specialize (Ha m' Hm'). lia.
      - intros m Hm. right. rewrite seed_rows_tag, applied_of_tag_same.
        apply zmem_zseq1. exact (Ha m Hm). }
    split; [|split; [|split]].
    - rewrite run_single. rewrite boot_rows_none by reflexivity. cbn [d_uv d_schema].
      rewrite Ecore. reflexivity.
    - intros m Hm. rewrite applied_of_app, seed_rows_tag, !applied_of_tag_same.
      apply in_app_or in Hm. destruct Hm as [Hm|Hm].
      + apply in_or_app. left. apply zmem_In, zmem_zseq1. exact (Ha m Hm).
      + destruct (core_covers _ _ _ _ _ Eb m Hm) as [A|B]; [specialize (Hb m Hm); lia|].
        apply in_app_or in B. destruct B as [B|B]; [apply in_or_app; right; exact B|].
        apply in_rev in B. apply in_map_iff in B. destruct B as [m' [Heq Hm']].
        specialize (Ha m' Hm'). specialize (Hb m Hm). lia.
    - rewrite applied_of_app, seed_rows_tag, !applied_of_tag_same.
      destruct (core_news _ _ _ _ _ _ Eb) as [Hn Hvs].
      apply NoDup_app_intro; [apply NoDup_zseq | exact Hn |].
      intros x Hx1 Hx2. destruct (Hvs x Hx2) as [_ [_ C]].
      apply in_map_iff in C. destruct C as [m [<- Hm]]. specialize (Hb m Hm).
      apply zmem_In, zmem_zseq1 in Hx1. lia.
    - intro Heq. rewrite seed_rows_tag, <- Heq. unfold tag. rewrite map_app. reflexivity.
  Qed.
End RunnerProofs.

(* ---- consecutive versions 1..n: the shape the bootstrap presupposes ---- *)
Lemma firstn_seq_le : forall k a n, (k <= n)%nat -> firstn k (seq a n) = seq a k.
Proof.
  induction k as [|k IH]; intros a n H; [reflexivity|].
  destruct n as [|n]; [lia|]. cbn. f_equal. apply IH. lia.
Qed.

Lemma skipn_seq_le : forall k a n, (k <= n)%nat -> skipn k (seq a n) = seq (a + k) (n - k).
Proof.
  induction k as [|k IH]; intros a n H.
  - cbn. rewrite Nat.add_0_r, Nat.sub_0_r. reflexivity.
  - destruct n as [|n]; [lia|]. cbn [seq skipn]. rewrite IH by lia.
    replace (S a + k)%nat with (a + S k)%nat by lia. reflexivity.
Qed.

(* A legacy database at user_version k (the first k scripts executed by the old runner, no
   schema_migrations table), for a migration list whose versions are exactly 1..n and k <= n:
   whenever the run from the empty database succeeds, the run from the legacy database succeeds
   with the same schema and the same schema_migrations rows. *)
Theorem legacy_converges : forall (schema script : Type) (exec : script -> schema -> option schema)
    (ms : list (@mig script)) (n k : nat) (s0 sL : schema),
  map m_ver ms = zseq1 n -> (k <= n)%nat ->
  exec_all exec (map m_script (firstn k ms)) s0 = Some sL ->
  forall dF, run_migrations exec [(SERVER, ms)] (Db s0 0 None) = Done dF ->
  run_migrations exec [(SERVER, ms)] (Db sL (Z.of_nat k) None)
  = Done (Db (d_schema dF) (Z.of_nat k) (d_sm dF)).
Proof.
  intros schema script exec ms n k s0 sL Hv Hk Hex dF HF.
  rewrite <- (firstn_skipn k ms) in HF |- * at 1.
  assert (Ha : map m_ver (firstn k ms) = map Z.of_nat (seq 1 k)).
  { rewrite <- firstn_map, Hv. unfold zseq1. rewrite firstn_map, firstn_seq_le by exact Hk. reflexivity. }
  assert (Hb : map m_ver (skipn k ms) = map Z.of_nat (seq (1 + k) (n - k))).
  { rewrite <- skipn_map, Hv. unfold zseq1. rewrite skipn_map, skipn_seq_le by exact Hk. reflexivity. }
  destruct (legacy_converges_split exec (firstn k ms) (skipn k ms) (Z.of_nat k) s0 sL) with (dF := dF)
    as [rowsF [rowsL [HrF [Hrun [_ [_ Heq]]]]]].
  - lia.
  - intros m Hm. apply (in_map m_ver) in Hm. rewrite Ha in Hm. apply In_zseq1 in Hm. exact Hm.
  - rewrite Ha. apply NoDup_zseq.
  - intros m Hm. apply (in_map m_ver) in Hm. rewrite Hb in Hm.
    apply in_map_iff in Hm. destruct Hm as [x [<- Hx]]. apply in_seq in Hx. lia.
  - exact Hex.
  - exact HF.
  - rewrite Hrun, HrF. rewrite Heq; [reflexivity|]. rewrite Ha, Nat2Z.id. reflexivity.
Qed.

(* ------------------------------------------------------------------------------------------ *)
(* Part 2: the boolean catalogue comparison decides equality                                     *)
Lemma list_eqb_eq : forall (A : Type) (e : A -> A -> bool),
  (forall x y, e x y = true -> x = y) -> forall a b, list_eqb e a b = true -> a = b.
Proof.
  intros A e He. induction a as [|x a IH]; destruct b as [|y b]; cbn; intro H; try discriminate.
  - reflexivity.
  - apply andb_true_iff in H. destruct H as [H1 H2]. f_equal; [apply He; exact H1 | apply IH; exact H2].
Qed.

Lemma col_eqb_eq : forall a b, col_eqb a b = true -> a = b.
Proof.
  intros [n1 t1 nn1 d1 p1] [n2 t2 nn2 d2 p2]. unfold col_eqb. cbn.
  rewrite !andb_true_iff. intros [[[[H1 H2] H3] H4] H5].
  apply String.eqb_eq in H1, H2. apply Bool.eqb_prop in H3. apply Z.eqb_eq in H5.
  assert (d1 = d2).
  { destruct d1, d2; cbn in H4; try discriminate; [apply String.eqb_eq in H4; congruence | reflexivity]. }
  congruence.
Qed.

Lemma table_eqb_eq : forall a b, table_eqb a b = true -> a = b.
Proof.
  intros [n1 c1 a1] [n2 c2 a2]. unfold table_eqb. cbn. rewrite !andb_true_iff. intros [[H1 H2] H3].
  apply String.eqb_eq in H1. apply (list_eqb_eq _ _ col_eqb_eq) in H2. apply Bool.eqb_prop in H3. congruence.
Qed.

Lemma index_eqb_eq : forall a b, index_eqb a b = true -> a = b.
Proof.
  intros [n1 t1 c1 u1] [n2 t2 c2 u2]. unfold index_eqb. cbn. rewrite !andb_true_iff.
  intros [[[H1 H2] H3] H4]. apply String.eqb_eq in H1, H2.
  apply (list_eqb_eq _ String.eqb) in H3; [|intros x y; apply String.eqb_eq].
  apply Bool.eqb_prop in H4. congruence.
Qed.

Lemma catalog_eqb_eq : forall a b, catalog_eqb a b = true -> a = b.
Proof.
  intros [t1 i1] [t2 i2]. unfold catalog_eqb. cbn. rewrite andb_true_iff. intros [H1 H2].
  apply (list_eqb_eq _ _ table_eqb_eq) in H1. apply (list_eqb_eq _ _ index_eqb_eq) in H2. congruence.
Qed.

Lemma row_eqb_eq : forall a b, row_eqb a b = true -> a = b.
Proof.
  intros [p1 v1] [p2 v2]. unfold row_eqb. cbn. rewrite andb_true_iff. intros [H1 H2].
  apply String.eqb_eq in H1. apply Z.eqb_eq in H2. congruence.
Qed.

Lemma opt_rows_eqb_eq : forall a b, opt_rows_eqb a b = true -> a = b.
Proof.
  intros [a|] [b|]; cbn; intro H; try discriminate; [|reflexivity].
  f_equal. exact (list_eqb_eq _ _ row_eqb_eq _ _ H).
Qed.

(* ------------------------------------------------------------------------------------------ *)
(* Part 3: the instance — the packaged migrations from Generated.v                               *)
Definition server_n : nat := List.length server_migs.
Definition server_ref : sdb := outcome_db (srun [(SERVER, server_migs)] fresh_db).

(* Finite domain: all_starts server_n = fresh, the prefixes 0..server_n and the legacy versions
   1..server_n (2*server_n + 2 starts; 10 for the four packaged scripts).  Swept by computation. *)
Lemma instance_sweep :
  forallb (start_converges server_migs server_ref) (all_starts server_n) = true.
Proof. vm_compute. reflexivity. Qed.

Lemma instance_versions : map m_ver server_migs = zseq1 server_n.
Proof. vm_compute. reflexivity. Qed.

Lemma instance_fresh_ok : srun [(SERVER, server_migs)] fresh_db = Done server_ref.
Proof. vm_compute. reflexivity. Qed.

(* The sweep, read back as a statement about the runs. *)
Theorem instance_converges : forall st, In st (all_starts server_n) ->
  exists d0 d1,
    start_db server_migs st = Some d0 /\
    srun [(SERVER, server_migs)] d0 = Done d1 /\
    d_schema d1 = d_schema server_ref /\
    d_sm d1 = Some (map (fun v => (SERVER, v)) (zseq1 server_n)) /\
    srun [(SERVER, server_migs)] d1 = Done d1.
Proof.
  intros st Hin.
  pose proof instance_sweep as Hs. rewrite forallb_forall in Hs. specialize (Hs st Hin).
  unfold start_converges in Hs.
  destruct (start_db server_migs st) as [d0|]; [|discriminate].
  destruct (srun [(SERVER, server_migs)] d0) as [d1|d1] eqn:E1; [|discriminate].
  exists d0, d1. split; [reflexivity|]. split; [exact E1|].
  rewrite !andb_true_iff in Hs. destruct Hs as [[Hc Hr] _].
  apply catalog_eqb_eq in Hc. apply opt_rows_eqb_eq in Hr.
  split; [exact Hc|]. split.
  - rewrite Hr. vm_compute. reflexivity.
  - exact (run_idempotent exec_script _ _ _ E1).
Qed.

Lemma instance_nonvacuous :
  srun [(SERVER, server_migs)] fresh_db = Done server_ref /\ (0 < List.length server_migs)%nat.
Proof. split; [exact instance_fresh_ok | vm_compute; lia]. Qed.
