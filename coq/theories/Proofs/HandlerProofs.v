(* C08: which handler owns a step (Model/Handlers.v), what the reducer does with an exhausted failure
   (Model/Engine.v one_result RFailed), and the recovery budget along an event lineage. *)
From Coq Require Import List ZArith Bool PeanoNat Lia.
Import ListNotations.
From WF Require Import Model.Engine Model.Handlers Proofs.EngineCap.
Open Scope Z_scope.

Lemma zmem_in x l : zmem x l = true <-> In x l.
Proof.
  unfold zmem. rewrite existsb_exists. split.
  - intros [y [Hin E]]. apply Z.eqb_eq in E. subst. exact Hin.
  - intros Hin. exists x. split; [exact Hin|apply Z.eqb_refl].
Qed.

Lemma znodup_app a b : znodup (a ++ b) = true -> znodup a = true /\ znodup b = true /\ (forall x, In x a -> ~ In x b).
Proof.
  induction a as [|x t IH]; cbn [app znodup]; intros H.
  - repeat split; auto.
  - apply andb_true_iff in H. destruct H as [Hx Ht]. destruct (IH Ht) as [A [B C]].
    apply negb_true_iff in Hx.
    assert (~ In x (t ++ b)) as Nx by (intros X; apply zmem_in in X; congruence).
    repeat split.
    + apply andb_true_iff. split; [|exact A]. apply negb_true_iff.
      destruct (zmem x t) eqn:E; [|reflexivity]. apply zmem_in in E. exfalso. apply Nx. apply in_or_app. left. exact E.
    + exact B.
    + intros y [<-|Hy] Hb; [apply Nx; apply in_or_app; right; exact Hb|exact (C y Hy Hb)].
Qed.

Lemma lists_in n h : lists n h = true <-> exists l, hfor h = Some l /\ In n l.
Proof.
  unfold lists. destruct (hfor h) as [l|].
  - rewrite zmem_in. split; [intros H; exists l; auto|intros [l' [E H]]; inversion E; subst; exact H].
  - split; [discriminate|intros [l [E _]]; discriminate].
Qed.

Lemma lists_claims n h hs : In h hs -> lists n h = true -> In n (claims hs).
Proof.
  intros Hin L. unfold claims. apply in_flat_map. exists h. split; [exact Hin|].
  apply lists_in in L. destruct L as [l [-> H]]. exact H.
Qed.

(* the scoped owner is a handler that lists the step ... *)
Lemma scoped_owner_sound hs n h :
  scoped_owner hs n = Some h -> exists hh, In hh hs /\ hname hh = h /\ lists n hh = true.
Proof.
  unfold scoped_owner. destruct (find (lists n) hs) as [hh|] eqn:F; [|discriminate].
  intros H; inversion H; subst. apply find_some in F. destruct F as [Hin L]. exists hh. auto.
Qed.

(* ... and, when no step is claimed twice, it is THE handler that lists it *)
Lemma scoped_owner_complete : forall hs n hh,
  znodup (claims hs) = true -> In hh hs -> lists n hh = true -> scoped_owner hs n = Some (hname hh).
Proof.
  unfold scoped_owner. induction hs as [|h t IH]; intros n hh ND Hin L; [destruct Hin|].
  cbn [find]. destruct (lists n h) eqn:Lh.
  - destruct Hin as [->|Hin]; [reflexivity|]. exfalso.
    unfold claims in ND. cbn [flat_map] in ND. apply znodup_app in ND. destruct ND as [_ [_ D]].
    apply (D n).
    + apply lists_in in Lh. destruct Lh as [l [-> H]]. exact H.
    + exact (lists_claims n hh t Hin L).
  - destruct Hin as [->|Hin]; [congruence|].
    apply IH; [|exact Hin|exact L]. unfold claims in ND. cbn [flat_map] in ND. apply znodup_app in ND. tauto.
Qed.

Lemma scoped_owner_none hs n : scoped_owner hs n = None -> forall hh, In hh hs -> lists n hh = false.
Proof.
  unfold scoped_owner. destruct (find (lists n) hs) eqn:F; [discriminate|]. intros _ hh Hin.
  exact (find_none _ _ F hh Hin).
Qed.

Lemma handlers_valid_parts steps :
  handlers_valid steps = true ->
  Forall (fun h => 1 <= hmax h) (handlers_of steps) /\
  (length (filter is_wild (handlers_of steps)) <= 1)%nat /\
  (forall t, In t (claims (handlers_of steps)) -> is_step steps t = true /\ is_handler steps t = false) /\
  znodup (claims (handlers_of steps)) = true.
Proof.
  unfold handlers_valid. intros H. repeat (apply andb_true_iff in H; destruct H as [H ?]).
  repeat split.
  - apply Forall_forall. intros h Hin. rewrite forallb_forall in H. apply Z.leb_le. exact (H h Hin).
  - apply Nat.leb_le. assumption.
  - match goal with X : forallb _ (claims _) = true |- _ => rewrite forallb_forall in X; specialize (X t H3) end.
    apply andb_true_iff in H1. tauto.
  - match goal with X : forallb _ (claims _) = true |- _ => rewrite forallb_forall in X; specialize (X t H3) end.
    apply andb_true_iff in H1. destruct H1 as [_ X]. apply negb_true_iff in X. exact X.
  - assumption.
Qed.

(* THE ROUTING TABLE of a valid handler layout *)
Theorem owner_spec steps n h :
  handlers_valid steps = true ->
  (owner steps n = Some h <->
   (exists hh, In hh (handlers_of steps) /\ hname hh = h /\ lists n hh = true) \/
   ((forall hh, In hh (handlers_of steps) -> lists n hh = false) /\
    is_step steps n = true /\ is_handler steps n = false /\ wildcard (handlers_of steps) = Some h)).
Proof.
  intros V. destruct (handlers_valid_parts _ V) as [_ [_ [Hc ND]]]. unfold owner. split.
  - destruct (scoped_owner (handlers_of steps) n) as [h0|] eqn:S.
    + intros H; inversion H; subst. left. apply scoped_owner_sound. exact S.
    + destruct (is_step steps n) eqn:Is; [|discriminate]. destruct (is_handler steps n) eqn:Ih; [discriminate|].
      cbn [negb andb]. intros W. right. repeat split; try assumption. apply scoped_owner_none. exact S.
  - intros [[hh [Hin [<- L]]]|[Hn [Is [Ih W]]]].
    + rewrite (scoped_owner_complete _ _ _ ND Hin L). reflexivity.
    + destruct (scoped_owner (handlers_of steps) n) as [h0|] eqn:S.
      * apply scoped_owner_sound in S. destruct S as [hh [Hin [_ L]]]. rewrite (Hn hh Hin) in L. discriminate.
      * rewrite Is, Ih. exact W.
Qed.

(* a handler step is never covered by any handler *)
Theorem owner_never_for_handler_step steps n :
  handlers_valid steps = true -> is_handler steps n = true -> owner steps n = None.
Proof.
  intros V Ih. destruct (handlers_valid_parts _ V) as [_ [_ [Hc _]]]. unfold owner.
  destruct (scoped_owner (handlers_of steps) n) as [h0|] eqn:S.
  - apply scoped_owner_sound in S. destruct S as [hh [Hin [_ L]]].
    destruct (Hc n (lists_claims _ _ _ Hin L)) as [_ X]. congruence.
  - rewrite Ih. rewrite andb_false_r. reflexivity.
Qed.

(* the owner is always a declared handler, and the covered thing a declared step *)
Theorem owner_is_handler steps n h :
  handlers_valid steps = true -> owner steps n = Some h -> is_handler steps h = true /\ is_step steps n = true.
Proof.
  intros V H. destruct (handlers_valid_parts _ V) as [_ [_ [Hc _]]].
  apply (owner_spec _ _ _ V) in H. destruct H as [[hh [Hin [<- L]]]|[_ [Is [_ W]]]].
  - split.
    + unfold is_handler. apply existsb_exists. exists hh. split; [exact Hin|apply Z.eqb_refl].
    + exact (proj1 (Hc n (lists_claims _ _ _ Hin L))).
  - split; [|exact Is]. unfold wildcard in W. destruct (filter is_wild (handlers_of steps)) as [|w r] eqn:F; [discriminate|].
    inversion W; subst. unfold is_handler. apply existsb_exists. exists w. split; [|apply Z.eqb_refl].
    assert (In w (filter is_wild (handlers_of steps))) as X by (rewrite F; left; reflexivity).
    apply filter_In in X. tauto.
Qed.

(* ---------- the reducer: what happens to a failure whose retries are exhausted ---------- *)
Definition owner_of (c : config) (step : Z) : option handler :=
  match zlookup step (c_handler_for c) with Some n => zlookup n (c_handlers c) | None => None end.
Definition rc_get (h : Z) (rc : rcounts) : Z := match zlookup h rc with Some n => n | None => 0 end.

Theorem exhausted_failure_routed P step tev dc now a x fa a' hd :
  one_result P step tev dc now a (RFailed x fa) = Ok a' ->
  (match pol (w_cfg (k_w a)) with Some p => P p (fa - i_first (k_this a)) (i_att (k_this a) + 1) x | None => PStop end) = PStop ->
  owner_of (cfg (k_state a)) step = Some hd ->
  rc_get (h_step hd) (i_rc (k_this a)) + 1 <= h_max hd ->
  exists q,
    k_cmds a' = k_cmds a ++ [CQueue q (Some (h_step hd)) None] /\
    a_ev q = stepfailed_event (cfg (k_state a)) step tev (i_att (k_this a) + 1) (fa - i_first (k_this a)) /\
    a_rc q = zupdate (h_step hd) (rc_get (h_step hd) (i_rc (k_this a)) + 1) (i_rc (k_this a)) /\
    a_att q = None /\ k_state a' = k_state a /\ k_w a' = k_w a.
Proof.
  unfold one_result, owner_of, rc_get. intros H D O B. rewrite D in H.
  destruct (zlookup step (c_handler_for (cfg (k_state a)))) as [n|]; [|discriminate].
  rewrite O in H. apply Z.leb_le in B. rewrite B in H. inversion H; subst; clear H. cbn.
  eexists. repeat split.
Qed.

Theorem exhausted_failure_fails_run P step tev dc now a x fa a' :
  one_result P step tev dc now a (RFailed x fa) = Ok a' ->
  (match pol (w_cfg (k_w a)) with Some p => P p (fa - i_first (k_this a)) (i_att (k_this a) + 1) x | None => PStop end) = PStop ->
  (owner_of (cfg (k_state a)) step = None \/
   exists hd, owner_of (cfg (k_state a)) step = Some hd /\ h_max hd < rc_get (h_step hd) (i_rc (k_this a)) + 1) ->
  k_cmds a' = k_cmds a ++ [CPublish (PFailed step x (i_att (k_this a) + 1) (fa - i_first (k_this a))) ; CFail step x] /\
  running (k_state a') = false /\ workers (k_state a') = workers (k_state a).
Proof.
  unfold one_result, owner_of, rc_get. intros H D O. rewrite D in H.
  destruct O as [O|[hd [O B]]].
  - destruct (zlookup step (c_handler_for (cfg (k_state a)))) as [n|].
    + rewrite O in H. inversion H; subst. repeat split.
    + inversion H; subst. repeat split.
  - destruct (zlookup step (c_handler_for (cfg (k_state a)))) as [n|]; [|discriminate].
    rewrite O in H. apply Z.leb_gt in B. rewrite B in H. inversion H; subst. repeat split.
Qed.

(* a retry keeps the lineage's recovery counts and the original event; it is addressed to the failing step *)
Theorem retry_keeps_lineage P step tev dc now a x fa a' d :
  one_result P step tev dc now a (RFailed x fa) = Ok a' ->
  (match pol (w_cfg (k_w a)) with Some p => P p (fa - i_first (k_this a)) (i_att (k_this a) + 1) x | None => PStop end) = PRetry d ->
  exists q, k_cmds a' = k_cmds a ++ [CQueue q (Some step) (Some d)] /\ a_ev q = tev /\
            a_rc q = i_rc (k_this a) /\ a_att q = Some (i_att (k_this a) + 1) /\ a_exn q = Some x /\
            k_state a' = k_state a.
Proof.
  unfold one_result. intros H D. rewrite D in H. inversion H; subst; clear H. cbn. eexists. repeat split.
Qed.

(* an event returned by a step inherits the recovery counts of the invocation that produced it *)
Theorem returned_event_inherits_counts P step tev dc now a e a' :
  one_result P step tev dc now a (RResult (OEvent e)) = Ok a' ->
  zmem (ety e) (c_stop (cfg (k_state a))) = false ->
  exists q, In (CQueue q None None) (k_cmds a') /\ a_ev q = e /\ a_rc q = i_rc (k_this a).
Proof.
  unfold one_result. intros H S. rewrite S in H. inversion H; subst; clear H. cbn.
  eexists. split; [apply in_or_app; right; apply in_or_app; right; left; reflexivity|split; reflexivity].
Qed.

(* and an invocation started (or queued) for an attempt carries that attempt's counts *)
Theorem started_invocation_carries_counts step a w now w' cs :
  add_or_enqueue step a w now = Ok (w', cs) ->
  (exists i, inprogress w' = inprogress w ++ [i] /\ i_rc i = a_rc a /\ i_ev i = a_ev a /\ queue w' = queue w) \/
  (queue w' = queue w ++ [a] /\ inprogress w' = inprogress w).
Proof.
  unfold add_or_enqueue. destruct (Nat.ltb _ _).
  - destruct (first_free _ _ _); [|discriminate]. intros H; inversion H; subst. left. eexists. repeat split.
  - intros H; inversion H; subst. right. split; reflexivity.
Qed.

(* ---------- the budget along a lineage ---------- *)
(* hops of one event lineage: an event is returned / sent on (counts inherited), a failure is retried
   (counts inherited), or an exhausted failure is routed to handler h (its count is incremented, allowed
   only while the incremented count does not exceed max_recoveries h). *)
Inductive hop := HInherit | HRoute (h : Z).
Fixpoint lineage (maxof : Z -> Z) (rc : rcounts) (hops : list hop) : option rcounts :=
  match hops with
  | [] => Some rc
  | HInherit :: t => lineage maxof rc t
  | HRoute h :: t =>
    let c := rc_get h rc + 1 in
    if Z.leb c (maxof h) then lineage maxof (zupdate h c rc) t else None   (* None: the run fails instead *)
  end.
Fixpoint entries (h : Z) (hops : list hop) : Z :=
  match hops with
  | [] => 0
  | HRoute h' :: t => (if Z.eqb h' h then 1 else 0) + entries h t
  | _ :: t => entries h t
  end.

Lemma rc_get_zupdate h k v rc : rc_get h (zupdate k v rc) = if Z.eqb h k then v else rc_get h rc.
Proof.
  unfold rc_get. destruct (Z.eqb_spec h k) as [->|Hne].
  - rewrite zlookup_zupdate_eq. reflexivity.
  - rewrite zlookup_zupdate_neq by exact Hne. reflexivity.
Qed.

Lemma entries_nonneg h hops : 0 <= entries h hops.
Proof. induction hops as [|[|h'] t IH]; cbn [entries]; try lia. destruct (Z.eqb h' h); lia. Qed.

Theorem lineage_budget maxof : forall hops rc rc',
  lineage maxof rc hops = Some rc' ->
  forall h, rc_get h rc' = rc_get h rc + entries h hops /\ (0 < entries h hops -> rc_get h rc' <= maxof h).
Proof.
  induction hops as [|[|h'] t IH]; intros rc rc' H h; cbn [lineage entries] in *.
  - inversion H; subst. split; lia.
  - apply IH. exact H.
  - destruct (Z.leb (rc_get h' rc + 1) (maxof h')) eqn:B; [|discriminate]. apply Z.leb_le in B.
    destruct (IH _ _ H h) as [E L]. rewrite rc_get_zupdate in E.
    pose proof (entries_nonneg h t) as NN.
    destruct (Z.eqb_spec h h') as [Heq|Hne].
    + subst h'. rewrite Z.eqb_refl. split; [lia|]. intros _.
      destruct (Z.eq_dec (entries h t) 0) as [Z0|NZ]; [lia|apply L; lia].
    + destruct (Z.eqb_spec h' h) as [Heq|_]; [symmetry in Heq; contradiction|]. split; [lia|]. intros P. apply L. lia.
Qed.

(* from a fresh lineage (no counts) a handler is entered at most max_recoveries times *)
Corollary handler_entered_at_most_max maxof hops rc' h :
  lineage maxof [] hops = Some rc' -> 0 < entries h hops -> entries h hops <= maxof h.
Proof.
  intros H P. destruct (lineage_budget _ _ _ _ H h) as [E L]. unfold rc_get in E at 2. cbn in E.
  specialize (L P). lia.
Qed.
