(* Exact characterisation of _process_add_event_tick (C02 routing, C10 waiter resolution):
   which steps receive an event, how, and how many times. *)
From Coq Require Import List ZArith Bool Lia PeanoNat.
Import ListNotations.
From WF Require Import Model.Engine Proofs.EngineCap.
Open Scope Z_scope.

Definition load (w : wstate) : nat := (length (queue w) + length (inprogress w))%nat.

(* a waiter that is still waiting (neither resolved nor timed out) and whose type and requirements
   the event satisfies *)
Definition fresh_match (e : event) (wt : waiter) : bool := negb (w_pending wt) && waiter_matches e wt.
Definition upd (e : event) (wt : waiter) : waiter := if fresh_match e wt then resolve e wt else wt.

(* the attempt became exactly one new input of the step: appended to the queue, or started on a worker *)
Definition delivered_once (a : attempt) (w w' : wstate) : Prop :=
  w_cfg w' = w_cfg w /\ collected w' = collected w /\ waiters w' = waiters w /\
  ((queue w' = queue w ++ [a] /\ inprogress w' = inprogress w) \/
   (queue w' = queue w /\ exists ip, inprogress w' = inprogress w ++ [ip] /\ i_ev ip = a_ev a)).

Lemma aoe_delivers step a w now w' cs : add_or_enqueue step a w now = Ok (w', cs) -> delivered_once a w w'.
Proof.
  unfold add_or_enqueue, delivered_once. destruct (Nat.ltb _ _).
  - destruct (first_free _ _ _) as [id|]; [|discriminate].
    intros H; inversion H; subst; clear H. cbn. repeat split. right. split; [reflexivity|].
    eexists. split; reflexivity.
  - intros H; inversion H; subst; clear H. cbn. repeat split. left. split; reflexivity.
Qed.

Lemma delivered_load a w w' : delivered_once a w w' -> load w' = S (load w).
Proof.
  unfold delivered_once, load. intros [_ [_ [_ [[-> ->]|[-> [ip [-> _]]]]]]]; rewrite app_length; cbn; lia.
Qed.

(* ---------- the waiter pass of one step ---------- *)
Lemma waiter_pass_exact step e : forall todo done w now acc hit w' cs h,
  waiters w = done ++ todo ->
  waiter_pass step e done todo w now acc hit = Ok (w', cs, h) ->
  waiters w' = done ++ map (upd e) todo /\
  load w' = (load w + length (filter (fresh_match e) todo))%nat /\
  collected w' = collected w /\ w_cfg w' = w_cfg w /\
  h = hit || existsb (fresh_match e) todo /\
  (existsb (fresh_match e) todo = false -> w' = w).
Proof.
  induction todo as [|wt rest IH]; intros done w now acc hit w' cs h Hw H; cbn [waiter_pass] in H.
  - inversion H; subst. cbn. rewrite Nat.add_0_r, orb_false_r. repeat split; auto.
  - change (negb (w_pending wt) && waiter_matches e wt) with (fresh_match e wt) in H.
    cbn [map filter existsb]. unfold upd at 1. destruct (fresh_match e wt) eqn:F.
    + destruct (add_or_enqueue _ _ _ _) as [[w2 c2]|] eqn:A; [|discriminate].
      apply aoe_delivers in A. pose proof (delivered_load _ _ _ A) as L.
      destruct A as [A1 [A2 [A3 _]]]. cbn [waiters collected w_cfg set_w] in A1, A2, A3.
      apply IH in H; [|rewrite A3, <- app_assoc; reflexivity].
      destruct H as [H1 [H2 [H3 [H4 [H5 _]]]]].
      rewrite <- app_assoc in H1. cbn in H1. unfold load in L; cbn [queue inprogress set_w] in L.
      repeat split; try congruence.
      * rewrite H2. unfold load. cbn [length]. lia.
      * rewrite H5. rewrite orb_true_r. cbn. reflexivity.
      * discriminate.
    + apply IH in H; [|rewrite Hw, <- app_assoc; reflexivity].
      destruct H as [H1 [H2 [H3 [H4 [H5 H6]]]]]. rewrite <- app_assoc in H1. cbn in H1.
      repeat split; try assumption.
Qed.

Lemma map_upd_id e l : existsb (fresh_match e) l = false -> map (upd e) l = l.
Proof.
  induction l as [|x t IH]; cbn; [reflexivity|]. intros H. apply orb_false_iff in H. destruct H as [H1 H2].
  unfold upd at 1. rewrite H1. rewrite IH; [reflexivity|exact H2].
Qed.

(* a waiter is freshly matched at most once: after it has been resolved no later event matches it *)
Lemma fresh_match_once e e2 wt : fresh_match e wt = true -> fresh_match e2 (upd e wt) = false.
Proof. intros F. unfold upd. rewrite F. unfold fresh_match, w_pending, resolve. cbn. reflexivity. Qed.

Lemma pending_never_matches e wt : w_pending wt = true -> fresh_match e wt = false /\ upd e wt = wt.
Proof. intros P. unfold upd, fresh_match. rewrite P. cbn. auto. Qed.

Lemma resolved_event_matches e wt : fresh_match e wt = true ->
  w_resolved (upd e wt) = Some e /\ ety e = w_ty wt /\ forallb (attr_eq e) (w_reqs wt) = true.
Proof.
  intros F. unfold upd. rewrite F. unfold fresh_match, waiter_matches in F.
  apply andb_true_iff in F. destruct F as [_ F]. apply andb_true_iff in F. destruct F as [F1 F2].
  apply Z.eqb_eq in F1. cbn. auto.
Qed.

(* ---------- all steps: waiter pass ---------- *)
Definition is_hit (e : event) (target : option Z) (p : Z * wstate) : bool :=
  target_ok target (fst p) && existsb (fresh_match e) (waiters (snd p)).

Definition wait_rel (e : event) (target : option Z) (p p' : Z * wstate) : Prop :=
  fst p' = fst p /\
  (if is_hit e target p then
     waiters (snd p') = map (upd e) (waiters (snd p)) /\
     load (snd p') = (load (snd p) + length (filter (fresh_match e) (waiters (snd p))))%nat /\
     collected (snd p') = collected (snd p) /\ w_cfg (snd p') = w_cfg (snd p)
   else snd p' = snd p).

Lemma add_waiters_exact e target : forall ws now ws' cs hits,
  add_waiters e target ws now = Ok (ws', cs, hits) ->
  Forall2 (wait_rel e target) ws ws' /\ hits = map fst (filter (is_hit e target) ws).
Proof.
  induction ws as [|[n w] t IH]; intros now ws' cs hits H; cbn [add_waiters] in H.
  - inversion H; subst. split; [constructor|reflexivity].
  - destruct (if target_ok target n then waiter_pass n e [] (waiters w) w now [] false else Ok (w, [], false))
      as [[[w1 c1] h1]|] eqn:W; [|discriminate].
    destruct (add_waiters e target t now) as [[[t1 c2] h2]|] eqn:R; [|discriminate].
    inversion H; subst; clear H. apply IH in R. destruct R as [R1 R2].
    assert (wait_rel e target (n, w) (n, w1) /\ h1 = is_hit e target (n, w)) as [X1 X2].
    { unfold wait_rel, is_hit. cbn [fst snd]. destruct (target_ok target n) eqn:T.
      - apply waiter_pass_exact in W; [|reflexivity]. destruct W as [W1 [W2 [W3 [W4 [W5 W6]]]]].
        cbn in W1, W5. cbn [andb]. split; [|exact W5]. split; [reflexivity|].
        destruct (existsb (fresh_match e) (waiters w)) eqn:X; [auto|apply W6; reflexivity].
      - inversion W; subst. cbn. auto. }
    split; [constructor; assumption|].
    cbn [filter]. rewrite <- X2. destruct h1; cbn [map fst]; rewrite R2; reflexivity.
Qed.

(* ---------- all steps: routing ---------- *)
Definition takes (a : attempt) (target : option Z) (skip : list Z) (p : Z * wstate) : bool :=
  negb (zmem (fst p) skip) && zmem (ety (a_ev a)) (accepts (w_cfg (snd p))) && target_ok target (fst p).

Definition route_rel (a : attempt) (target : option Z) (skip : list Z) (p p' : Z * wstate) : Prop :=
  fst p' = fst p /\ (if takes a target skip p then delivered_once a (snd p) (snd p') else snd p' = snd p).

Lemma add_routes_exact a target skip : forall ws now ws' cs h,
  add_routes a target skip ws now = Ok (ws', cs, h) ->
  Forall2 (route_rel a target skip) ws ws' /\ h = existsb (takes a target skip) ws.
Proof.
  induction ws as [|[n w] t IH]; intros now ws' cs h H; cbn [add_routes] in H.
  - inversion H; subst. split; [constructor|reflexivity].
  - change (negb (zmem n skip) && zmem (ety (a_ev a)) (accepts (w_cfg w)) && target_ok target n)
      with (takes a target skip (n, w)) in H.
    destruct (if takes a target skip (n, w) then add_or_enqueue n a w now else Ok (w, [])) as [[w1 c1]|] eqn:W;
      [|discriminate].
    destruct (add_routes a target skip t now) as [[[t1 c2] h2]|] eqn:R; [|discriminate].
    inversion H; subst; clear H. apply IH in R. destruct R as [R1 R2]. subst h2. cbn [existsb]. split; [|reflexivity].
    constructor; [|exact R1]. unfold route_rel. cbn [fst snd]. split; [reflexivity|].
    destruct (takes a target skip (n, w)); [eapply aoe_delivers; exact W|inversion W; reflexivity].
Qed.

(* ---------- generic Forall2 plumbing ---------- *)
Lemma Forall2_compose {A} (R1 R2 R : A -> A -> Prop) l1 : forall l2 l3,
  (forall a b c, In a l1 -> R1 a b -> R2 b c -> R a c) ->
  Forall2 R1 l1 l2 -> Forall2 R2 l2 l3 -> Forall2 R l1 l3.
Proof.
  induction l1 as [|a t IH]; intros l2 l3 Hc H1 H2.
  - inversion H1; subst. inversion H2; subst. constructor.
  - inversion H1; subst. inversion H2; subst. constructor.
    + eapply Hc; [left; reflexivity|eassumption|eassumption].
    + eapply IH; [|eassumption|eassumption]. intros a0 b c Hin. apply Hc. right. exact Hin.
Qed.

Lemma zmem_hits (f : Z * wstate -> bool) ws n w :
  NoDup (map fst ws) -> In (n, w) ws -> zmem n (map fst (filter f ws)) = f (n, w).
Proof.
  unfold zmem. induction ws as [|[k v] t IH]; intros ND Hin; [destruct Hin|].
  cbn in ND. inversion ND as [|? ? Hk ND']; subst. destruct Hin as [Hin|Hin].
  - inversion Hin; subst. cbn [filter]. destruct (f (n, w)) eqn:F.
    + cbn. rewrite Z.eqb_refl. reflexivity.
    + destruct (existsb (Z.eqb n) (map fst (filter f t))) eqn:X; [|reflexivity].
      exfalso. apply existsb_exists in X. destruct X as [x [X1 X2]]. apply Z.eqb_eq in X2. subst x.
      apply Hk. apply in_map_iff in X1. destruct X1 as [[k' v'] [E I]]. cbn in E. subst k'.
      apply filter_In in I. destruct I as [I _]. apply in_map_iff. exists (n, v'). auto.
  - cbn [filter]. assert (n <> k) as Hne.
    { intros ->. apply Hk. apply in_map_iff. exists (k, w). auto. }
    destruct (f (k, v)); cbn; [|apply IH; assumption].
    destruct (Z.eqb_spec n k); [contradiction|]. cbn. apply IH; assumption.
Qed.

(* ---------- the whole tick ---------- *)
Definition add_rel (a : attempt) (target : option Z) (p p' : Z * wstate) : Prop :=
  fst p' = fst p /\
  (if is_hit (a_ev a) target p then
     (* a step waiting for the event receives it as its wait result, not as a new input: only
        replays of the waiting invocations are admitted, one per freshly resolved waiter *)
     waiters (snd p') = map (upd (a_ev a)) (waiters (snd p)) /\
     load (snd p') = (load (snd p) + length (filter (fresh_match (a_ev a)) (waiters (snd p))))%nat /\
     collected (snd p') = collected (snd p) /\ w_cfg (snd p') = w_cfg (snd p)
   else if zmem (ety (a_ev a)) (accepts (w_cfg (snd p))) && target_ok target (fst p) then
     delivered_once a (snd p) (snd p')
   else snd p' = snd p).

Theorem process_add_exact a target s now s' cs :
  Keys_ok s -> process_add a target s now = Ok (s', cs) ->
  Forall2 (add_rel a target) (workers s) (workers s') /\ cfg s' = cfg s.
Proof.
  unfold process_add, Keys_ok. intros ND H.
  destruct (add_waiters _ _ _) as [[[ws1 c1] hits]|] eqn:W; [|discriminate].
  destruct (add_routes _ _ _ _ _) as [[[ws2 c2] routed]|] eqn:R; [|discriminate].
  inversion H; subst; clear H. cbn [workers with_workers cfg]. split; [|reflexivity].
  apply add_waiters_exact in W. destruct W as [W1 W2].
  apply add_routes_exact in R. destruct R as [R1 _].
  eapply Forall2_compose; [|exact W1|exact R1].
  intros [n w] [n1 w1] [n2 w2] Hin [E1 Hw] [E2 Hr]. cbn [fst snd] in *. subst n1 n2.
  unfold add_rel. cbn [fst snd]. split; [reflexivity|].
  unfold takes in Hr. cbn [fst snd] in Hr. rewrite W2 in Hr.
  rewrite (zmem_hits _ _ _ _ ND Hin) in Hr.
  destruct (is_hit (a_ev a) target (n, w)) eqn:Hit.
  - cbn in Hr. subst w2. exact Hw.
  - subst w1. cbn [negb andb] in Hr. exact Hr.
Qed.

(* ---------- UnhandledEvent is reported exactly when nobody takes the event ---------- *)
Definition is_unhandled (c : command) : bool :=
  match c with CPublish (PUnhandled _ _ _) => true | _ => false end.
Definition n_unhandled (cs : list command) : nat := length (filter is_unhandled cs).

Lemma n_unhandled_app a b : n_unhandled (a ++ b) = (n_unhandled a + n_unhandled b)%nat.
Proof. unfold n_unhandled. rewrite filter_app, app_length. reflexivity. Qed.

Lemma aoe_no_unhandled step a w now w' cs : add_or_enqueue step a w now = Ok (w', cs) -> n_unhandled cs = 0%nat.
Proof.
  unfold add_or_enqueue. destruct (Nat.ltb _ _).
  - destruct (first_free _ _ _); [|discriminate]. intros H; inversion H; reflexivity.
  - intros H; inversion H; reflexivity.
Qed.

Lemma waiter_pass_no_unhandled step e : forall todo done w now acc hit w' cs h,
  waiter_pass step e done todo w now acc hit = Ok (w', cs, h) -> n_unhandled cs = n_unhandled acc.
Proof.
  induction todo as [|wt rest IH]; intros done w now acc hit w' cs h H; cbn [waiter_pass] in H.
  - inversion H; reflexivity.
  - destruct (negb (w_pending wt) && waiter_matches e wt).
    + destruct (add_or_enqueue _ _ _ _) as [[w2 c2]|] eqn:A; [|discriminate].
      apply IH in H. rewrite H, n_unhandled_app. apply aoe_no_unhandled in A. lia.
    + eapply IH; exact H.
Qed.

Lemma add_waiters_no_unhandled e target : forall ws now ws' cs hits,
  add_waiters e target ws now = Ok (ws', cs, hits) -> n_unhandled cs = 0%nat.
Proof.
  induction ws as [|[n w] t IH]; intros now ws' cs hits H; cbn [add_waiters] in H.
  - inversion H; reflexivity.
  - destruct (if target_ok target n then waiter_pass n e [] (waiters w) w now [] false else Ok (w, [], false))
      as [[[w1 c1] h1]|] eqn:W; [|discriminate].
    destruct (add_waiters e target t now) as [[[t1 c2] h2]|] eqn:R; [|discriminate].
    inversion H; subst; clear H. rewrite n_unhandled_app. apply IH in R. rewrite R.
    destruct (target_ok target n); [apply waiter_pass_no_unhandled in W; rewrite W; reflexivity|inversion W; reflexivity].
Qed.

Lemma add_routes_no_unhandled a target skip : forall ws now ws' cs h,
  add_routes a target skip ws now = Ok (ws', cs, h) -> n_unhandled cs = 0%nat.
Proof.
  induction ws as [|[n w] t IH]; intros now ws' cs h H; cbn [add_routes] in H.
  - inversion H; reflexivity.
  - destruct (if negb (zmem n skip) && zmem (ety (a_ev a)) (accepts (w_cfg w)) && target_ok target n
              then add_or_enqueue n a w now else Ok (w, [])) as [[w1 c1]|] eqn:W; [|discriminate].
    destruct (add_routes a target skip t now) as [[[t1 c2] h2]|] eqn:R; [|discriminate].
    inversion H; subst; clear H. rewrite n_unhandled_app. apply IH in R. rewrite R.
    destruct (negb (zmem n skip) && zmem (ety (a_ev a)) (accepts (w_cfg w)) && target_ok target n);
      [apply aoe_no_unhandled in W; rewrite W; reflexivity|inversion W; reflexivity].
Qed.

(* somebody takes the event: a step (the addressed one when a target is given) that waits for it
   or accepts its type *)
Definition taker (a : attempt) (target : option Z) (p : Z * wstate) : bool :=
  is_hit (a_ev a) target p || (zmem (ety (a_ev a)) (accepts (w_cfg (snd p))) && target_ok target (fst p)).

Lemma filter_nil_existsb {A} (f : A -> bool) l : filter f l = [] <-> existsb f l = false.
Proof.
  induction l as [|x t IH]; cbn; [tauto|]. destruct (f x); cbn; [split; discriminate|exact IH].
Qed.

Lemma Forall2_cfg_existsb e target (g : Z * wstate -> bool) ws ws1 :
  (forall p p', fst p' = fst p -> w_cfg (snd p') = w_cfg (snd p) -> g p' = g p) ->
  Forall2 (wait_rel e target) ws ws1 -> existsb g ws1 = existsb g ws.
Proof.
  intros Hg F. induction F as [|p p' l l' Hr F IH]; [reflexivity|]. cbn. rewrite IH. f_equal.
  destruct Hr as [E Hr]. apply Hg; [exact E|]. destruct (is_hit e target p); [tauto|rewrite Hr; reflexivity].
Qed.

Theorem process_add_unhandled a target s now s' cs :
  process_add a target s now = Ok (s', cs) ->
  n_unhandled cs =
    if existsb (taker a target) (workers s) || zmem (ety (a_ev a)) (c_inputreq (cfg s)) then 0%nat else 1%nat.
Proof.
  unfold process_add. intros H.
  destruct (add_waiters _ _ _) as [[[ws1 c1] hits]|] eqn:W; [|discriminate].
  destruct (add_routes _ _ _ _ _) as [[[ws2 c2] routed]|] eqn:R; [|discriminate].
  inversion H; subst; clear H.
  rewrite !n_unhandled_app. rewrite (add_waiters_no_unhandled _ _ _ _ _ _ _ W).
  rewrite (add_routes_no_unhandled _ _ _ _ _ _ _ _ R). cbn [Nat.add].
  apply add_waiters_exact in W. destruct W as [W1 W2].
  apply add_routes_exact in R. destruct R as [_ R2].
  assert (existsb (taker a target) (workers s) =
          negb (match hits with [] => true | _ => false end) || routed) as ->.
  { subst routed. destruct hits as [|h0 ht] eqn:Hh.
    - cbn [negb orb]. symmetry in W2. apply map_eq_nil in W2. apply filter_nil_existsb in W2.
      assert (existsb (takes a target []) ws1 = existsb (takes a target []) (workers s)) as ->.
      { apply (Forall2_cfg_existsb (a_ev a) target); [|exact W1].
        intros p p' E1 E2. unfold takes. rewrite E1, E2. reflexivity. }
      clear - W2. induction (workers s) as [|p t IH]; [reflexivity|]. cbn in *.
      apply orb_false_iff in W2. destruct W2 as [W2a W2b]. rewrite IH by exact W2b.
      unfold taker, takes. rewrite W2a. cbn. reflexivity.
    - cbn [negb orb].
      assert (existsb (is_hit (a_ev a) target) (workers s) = true) as X.
      { destruct (existsb (is_hit (a_ev a) target) (workers s)) eqn:Y; [reflexivity|].
        apply filter_nil_existsb in Y. rewrite Y in W2. discriminate. }
      clear - X. induction (workers s) as [|p t IH]; [discriminate|]. cbn in *.
      apply orb_true_iff in X. destruct X as [X|X].
      + unfold taker. rewrite X. reflexivity.
      + rewrite IH by exact X. apply orb_true_r. }
  destruct (negb (match hits with [] => true | _ => false end) || routed); [reflexivity|].
  cbn [orb]. destruct (zmem _ _); reflexivity.
Qed.

(* ---------- waiter bookkeeping of step results (C10) ---------- *)
(* re-registering an existing waiter id (the replayed invocation calling wait_for_event again)
   publishes no second waiter_event and schedules no second timeout *)
Lemma add_existing_waiter_silent P step tev dc now a wid wev reqs timeout ty k a' :
  find_waiter_idx wid (waiters (k_w a)) 0 = Some k ->
  one_result P step tev dc now a (RAddWaiter wid wev reqs timeout ty) = Ok a' ->
  k_cmds a' = k_cmds a.
Proof. intros F H. cbn [one_result] in H. rewrite F in H. inversion H; reflexivity. Qed.

(* a new waiter id publishes its waiter_event once and schedules its timeout once *)
Lemma add_new_waiter_cmds P step tev dc now a wid wev reqs timeout ty a' :
  find_waiter_idx wid (waiters (k_w a)) 0 = None ->
  one_result P step tev dc now a (RAddWaiter wid wev reqs timeout ty) = Ok a' ->
  k_cmds a' = k_cmds a ++ (match wev with Some e => [CPublish (PEvent e)] | None => [] end)
                      ++ (match timeout with Some t => [CSchedWaiterTimeout step wid t] | None => [] end).
Proof. intros F H. cbn [one_result] in H. rewrite F in H. inversion H; reflexivity. Qed.

(* a timeout tick for a waiter that an event already resolved is a no-op *)
Lemma timeout_after_resolve_noop step wid s now w k wt ev :
  zlookup step (workers s) = Some w -> find_waiter_idx wid (waiters w) 0 = Some k ->
  nth_error (waiters w) k = Some wt -> w_resolved wt = Some ev ->
  process_waiter_timeout step wid s now = Ok (s, []).
Proof. intros L F N R. unfold process_waiter_timeout. rewrite L, F, N, R. reflexivity. Qed.

(* ---------- corollaries used by the property files ---------- *)
Lemma Forall2_impl' {A B} (R1 R2 : A -> B -> Prop) l l' :
  (forall a b, R1 a b -> R2 a b) -> Forall2 R1 l l' -> Forall2 R2 l l'.
Proof. intros Hi F. induction F; constructor; auto. Qed.

(* what happens to every step's waiters on an add-event tick: each still-waiting waiter the event
   matches is resolved with it (once), every other waiter — pending ones included — is untouched *)
Theorem process_add_waiters a target s now s' cs :
  Keys_ok s -> process_add a target s now = Ok (s', cs) ->
  Forall2 (fun p p' => fst p' = fst p /\
             waiters (snd p') = if target_ok target (fst p) then map (upd (a_ev a)) (waiters (snd p))
                                else waiters (snd p))
          (workers s) (workers s').
Proof.
  intros ND H. destruct (process_add_exact _ _ _ _ _ _ ND H) as [F _].
  eapply Forall2_impl'; [|exact F]. intros [n w] [n' w'] [E R]. cbn [fst snd] in *. split; [exact E|].
  unfold is_hit in R. cbn [fst snd] in R. destruct (target_ok target n) eqn:T; cbn [andb] in R.
  - destruct (existsb (fresh_match (a_ev a)) (waiters w)) eqn:X.
    + tauto.
    + rewrite (map_upd_id _ _ X). rewrite andb_true_r in R.
      destruct (zmem _ _); [destruct R as [_ [_ [R _]]]; exact R|subst; reflexivity].
  - rewrite andb_false_r in R. subst. reflexivity.
Qed.

(* a step result that is an ordinary event is handed to the runner as exactly one queue command
   carrying that event, addressed to no particular step *)
Lemma result_event_queued_once P step tev dc now a e a' :
  zmem (ety e) (c_stop (cfg (k_state a))) = false ->
  one_result P step tev dc now a (RResult (OEvent e)) = Ok a' ->
  exists q, a_ev q = e /\
    k_cmds a' = k_cmds a ++ (if zmem (ety e) (c_inputreq (cfg (k_state a))) then [CPublish (PEvent e)] else [])
                         ++ [CQueue q None None] /\ k_state a' = k_state a /\ k_w a' = k_w a.
Proof.
  intros Hs H. cbn [one_result] in H. rewrite Hs in H. inversion H; subst; clear H. cbn.
  eexists. split; [|split; [reflexivity|split; reflexivity]]. reflexivity.
Qed.
