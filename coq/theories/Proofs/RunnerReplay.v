(* C11: the live engine state of the runner model is the fold of the reducer over the recorded tick log
   (each tick at the clock reading it was processed at), for every schedule. *)
From Coq Require Import List ZArith Bool PeanoNat Lia.
Import ListNotations.
From WF Require Import Model.Engine Model.Runner Proofs.EngineCap.
Open Scope Z_scope.

Lemma run_ticks_app P : forall a b s s1,
  run_ticks P s a = Ok s1 -> run_ticks P s (a ++ b) = run_ticks P s1 b.
Proof.
  induction a as [|[t now] r IH]; intros b s s1 H; cbn [run_ticks app] in *.
  - inversion H; reflexivity.
  - destruct (reduce P t s now) as [[s' cs]|]; [|discriminate]. apply IH. exact H.
Qed.

Definition Replay_ok (P : policy) (s0 : state) (r : rstate) : Prop :=
  run_ticks P s0 (tlog r) = Ok (st r) /\ ticklog r = map fst (tlog r).

Lemma do_command_replay r c : st (do_command r c) = st r /\ tlog (do_command r c) = tlog r /\ ticklog (do_command r c) = ticklog r.
Proof.
  unfold do_command. destruct (Runner.outcome r); try (repeat split; reflexivity).
  destruct c; cbn; try (repeat split; reflexivity).
  - destruct delay as [d|]; [destruct (Z.ltb 0 d)|]; repeat split; reflexivity.
  - destruct k; repeat split; reflexivity.
  - destruct (idle_pending r); repeat split; reflexivity.
Qed.

Lemma do_commands_replay cs : forall r,
  st (fold_left do_command cs r) = st r /\ tlog (fold_left do_command cs r) = tlog r /\
  ticklog (fold_left do_command cs r) = ticklog r.
Proof.
  induction cs as [|c t IH]; intro r; cbn [fold_left]; [repeat split; reflexivity|].
  destruct (IH (do_command r c)) as [A [B C]]. destruct (do_command_replay r c) as [A' [B' C']].
  repeat split; congruence.
Qed.

Lemma log_idle_replay r cs : st (log_idle r cs) = st r /\ tlog (log_idle r cs) = tlog r /\ ticklog (log_idle r cs) = ticklog r.
Proof. unfold log_idle. destruct (publishes_idle cs); repeat split; reflexivity. Qed.

Lemma drain_ticks_replay P s0 fuel : forall r, Replay_ok P s0 r -> Replay_ok P s0 (drain_ticks P r fuel).
Proof.
  induction fuel as [|f IH]; intros r Hi; cbn [drain_ticks].
  - destruct (Runner.outcome r); try exact Hi. destruct (tbuf r); exact Hi.
  - destruct (Runner.outcome r) eqn:O; try exact Hi.
    destruct (tbuf r) as [|t rest] eqn:TB; [exact Hi|].
    set (r0 := upd r (st r) rest (wakeups r) (wseq r) _ (pending r) (published r) ORunning).
    assert (Replay_ok P s0 r0) as H0 by exact Hi.
    destruct ((match t with TIdleCheck => true | _ => false end) && has_retry_wakeup (wakeups r)).
    + apply IH. exact H0.
    + destruct (reduce P t (st r0) (clock r0)) as [[s' cs]|] eqn:R; [|exact H0].
      apply IH. destruct H0 as [H1 H2].
      destruct (do_commands_replay cs
        (log_idle (log_tick (upd r0 s' (tbuf r0) (wakeups r0) (wseq r0) (idle_pending r0) (pending r0) (published r0) ORunning) t) cs))
        as [A [B C]].
      destruct (log_idle_replay
        (log_tick (upd r0 s' (tbuf r0) (wakeups r0) (wseq r0) (idle_pending r0) (pending r0) (published r0) ORunning) t) cs)
        as [A' [B' C']].
      split.
      * rewrite A, B, A', B'. cbn [st tlog log_tick upd clock].
        rewrite (run_ticks_app _ _ _ _ _ H1). cbn [run_ticks]. cbn [clock st upd] in R. rewrite R. reflexivity.
      * rewrite B, C, B', C'. cbn [ticklog tlog log_tick upd]. rewrite map_app, H2. reflexivity.
Qed.

Lemma wait_step_replay P s0 r k r' : Replay_ok P s0 r -> wait_step r k = Some r' -> Replay_ok P s0 r'.
Proof.
  unfold wait_step. intros Hi H.
  destruct (nth_error (donew r) k) as [[[[s w] e] rs]|].
  - destruct (has_stop _ _); inversion H; subst; exact Hi.
  - destruct (donew r); [|discriminate].
    destruct (mailbox r); [|inversion H; subst; exact Hi].
    destruct (due (clock r) (wakeups r)) as [d rest].
    destruct d.
    + destruct (pending r); [discriminate|inversion H; subst; exact Hi].
    + inversion H; subst; exact Hi.
Qed.

Lemma run_until_blocked_replay P s0 fuel : forall r, Replay_ok P s0 r -> Replay_ok P s0 (run_until_blocked P r fuel).
Proof.
  induction fuel as [|f IH]; intros r Hi; cbn [run_until_blocked].
  - destruct (Runner.outcome r); exact Hi.
  - pose proof (drain_ticks_replay P s0 tick_fuel r Hi) as H1.
    destruct (Runner.outcome (drain_ticks P r tick_fuel)); try exact H1.
    destruct (wait_step _ 0) as [r2|] eqn:W; [|exact H1].
    apply IH. eapply wait_step_replay; eassumption.
Qed.

Lemma act_replay P s0 r a : Replay_ok P s0 r -> Replay_ok P s0 (act P r a).
Proof.
  intros Hi. unfold act. destruct (Runner.outcome r); try exact Hi.
  apply run_until_blocked_replay.
  destruct a; [destruct (take_worker _ _ _) as [[e run']|]|..]; exact Hi.
Qed.

(* for every policy, start state, start event and every schedule: the engine state the runner holds is
   exactly the reducer folded over the recorded ticks, and the recorded log is what was processed *)
Theorem live_state_is_replay_of_log P s e acts :
  run_ticks P s (tlog (run P s e acts)) = Ok (st (run P s e acts)) /\
  ticklog (run P s e acts) = map fst (tlog (run P s e acts)).
Proof.
  unfold run.
  assert (forall r, Replay_ok P s r -> Replay_ok P s (fold_left (act P) acts r)) as F.
  { induction acts as [|a t IH]; intros r Hi; cbn [fold_left]; [exact Hi|]. apply IH. apply act_replay. exact Hi. }
  apply F. apply run_until_blocked_replay. split; reflexivity.
Qed.

(* replaying at one fixed clock reading is the special case of equal readings *)
Lemma run_ticks_fixed_now P now : forall ts s,
  run_ticks P s (map (fun t => (t, now)) ts) = fold_ticks P s ts now.
Proof.
  induction ts as [|t r IH]; intro s; cbn [map run_ticks fold_ticks]; [reflexivity|].
  destruct (reduce P t s now) as [[s' cs]|]; [apply IH|reflexivity].
Qed.
