(* C14, engine side (M-Engine, Model/Engine.v): what a snapshot / a replay of persisted ticks keeps of
   a pending waiter timeout and of a retry that waits out its delay. *)
From Coq Require Import List ZArith Bool Lia PeanoNat.
Import ListNotations.
From WF Require Import Model.Engine Proofs.EngineCap Proofs.EngineRoute.
Open Scope Z_scope.

(* (de)serialization keeps every waiter, with its id, in place *)
Lemma find_waiter_idx_map (f : waiter -> waiter) (Hf : forall w, w_id (f w) = w_id w) id :
  forall l k, find_waiter_idx id (map f l) k = find_waiter_idx id l k.
Proof. induction l as [|w t IH]; intro k; cbn; [reflexivity|]. rewrite Hf. destruct (Z.eqb (w_id w) id); auto. Qed.

Lemma resumed_waiter_found base w id :
  find_waiter_idx id (waiters (deser_worker base (ser_worker w))) 0 = find_waiter_idx id (waiters w) 0.
Proof.
  unfold deser_worker, ser_worker. cbn. rewrite map_map.
  apply (find_waiter_idx_map (fun x => deser_waiter (ser_waiter x))). intro x. reflexivity.
Qed.

(* every resume loses every waiter timeout: in a worker state that went through
   to_serialized / from_serialized, the replayed invocation's wait_for_event(timeout=t) finds its
   waiter id already registered and the reducer emits no CommandScheduleWaiterTimeout (nor anything else) *)
Theorem resumed_waiter_schedules_no_timeout P step tev dc now a base w wid wev reqs t ty k a' :
  find_waiter_idx wid (waiters w) 0 = Some k ->
  k_w a = deser_worker base (ser_worker w) ->
  one_result P step tev dc now a (RAddWaiter wid wev reqs (Some t) ty) = Ok a' ->
  k_cmds a' = k_cmds a.
Proof.
  intros F E H. eapply add_existing_waiter_silent; [|exact H]. rewrite E, resumed_waiter_found. exact F.
Qed.

(* while the run stays in memory the timeout is scheduled exactly once, when the id is first registered *)
Theorem first_registration_schedules_timeout P step tev dc now a wid wev reqs t ty a' :
  find_waiter_idx wid (waiters (k_w a)) 0 = None ->
  one_result P step tev dc now a (RAddWaiter wid wev reqs (Some t) ty) = Ok a' ->
  In (CSchedWaiterTimeout step wid t) (k_cmds a').
Proof.
  intros F H. rewrite (add_new_waiter_cmds _ _ _ _ _ _ _ _ _ _ _ _ F H).
  apply in_or_app. right. apply in_or_app. right. left. reflexivity.
Qed.

(* the serialized form of a waiter has no field for its deadline, and a pending waiter is not work
   for _check_idle_state: a run that only waits (with or without a timeout) is idle *)
Theorem waiting_run_is_idle s :
  running s = true -> (forall p, In p (workers s) -> queue (snd p) = [] /\ inprogress (snd p) = []) ->
  check_idle s = true.
Proof.
  intros R H. unfold check_idle. rewrite R. cbn. apply forallb_forall. intros p Hp.
  destruct (H p Hp) as (Q & I). unfold wquiet. rewrite Q, I. reflexivity.
Qed.

(* ---- witness: a retry that waits out its delay exists only as a command ---- *)
Definition w_ev : event := {| ety := 1 ; eid := 7 ; eattrs := [] |}.
Definition w_cfg0 : config :=
  {| c_handler_for := [] ; c_handlers := [] ; c_start := [0] ; c_stop := [9] ; c_inputreq := [8] ;
     c_ty_stepfailed := 7 |}.
Definition w_ip : inprog :=
  {| i_ev := w_ev ; i_wid := 0%nat ; i_snap := {| s_coll := [] ; s_wait := [] |} ; i_att := 0 ; i_first := 100 ;
     i_exn := None ; i_failed := None ; i_rc := [] |}.
Definition w_state : state :=
  {| running := true ; cfg := w_cfg0 ;
     workers := [(1, {| w_cfg := {| accepts := [1] ; nworkers := 1%nat ; pol := Some 0 |} ;
                        queue := [] ; inprogress := [w_ip] ; collected := [] ; waiters := [] |})] |}.
Definition w_policy : policy := fun _ _ _ _ => PRetry 32.
Definition w_tick : tick := TStep 1 0%nat w_ev [RFailed {| xty := 1 ; xmsg := 1 |} 101].

Definition has_delayed_retry (cs : list command) : bool :=
  existsb (fun c => match c with CQueue _ _ (Some d) => Z.ltb 0 d | _ => false end) cs.
Definition ser_empty (c : sctx) : bool :=
  forallb (fun p => match sq (snd p), sip (snd p) with [], [] => true | _, _ => false end) (sc_workers c).

Theorem retry_pending_not_in_state :
  exists P t s now s' cs, reduce P t s now = Ok (s', cs) /\ has_delayed_retry cs = true /\
    ser_empty (to_ser s') = true /\ check_idle s' = true.
Proof.
  exists w_policy, w_tick, w_state, 101.
  eexists. eexists. split; [vm_compute; reflexivity|]. vm_compute. auto.
Qed.
