(* Proofs about M-Validate: the DFS computes exactly the reachable set (with proved fuel
   sufficiency), and `validate` accepts exactly the well-formed graphs of Model/ValidateSpec.v. *)
From Coq Require Import List ZArith Bool Lia Relations Permutation.
Import ListNotations.
From WF Require Import Model.Validate Model.ValidateSpec.
Open Scope Z_scope.

(* ---------- membership tests ---------- *)
Lemma zmem_In x l : zmem x l = true <-> In x l.
Proof.
  unfold zmem. rewrite existsb_exists. split.
  - intros [y [H1 H2]]. apply Z.eqb_eq in H2. subst; auto.
  - intro H. exists x. split; auto. apply Z.eqb_refl.
Qed.
Lemma zmem_false x l : zmem x l = false <-> ~ In x l.
Proof.
  destruct (zmem x l) eqn:M; split; intro H; try discriminate; try reflexivity.
  - apply zmem_In in M. contradiction.
  - intro HI. apply zmem_In in HI. congruence.
Qed.
Lemma node_eqb_eq a b : node_eqb a b = true <-> a = b.
Proof.
  destruct a, b; simpl; split; intro H; try discriminate; try (apply Z.eqb_eq in H; subst; reflexivity);
    try (inversion H; apply Z.eqb_refl).
Qed.
Lemma node_eqb_refl a : node_eqb a a = true.
Proof. apply node_eqb_eq; reflexivity. Qed.
Lemma nmem_In n l : nmem n l = true <-> In n l.
Proof.
  unfold nmem. rewrite existsb_exists. split.
  - intros [y [H1 H2]]. apply node_eqb_eq in H2. subst; auto.
  - intro H. exists n. split; auto. apply node_eqb_refl.
Qed.
Lemma nmem_false n l : nmem n l = false <-> ~ In n l.
Proof.
  destruct (nmem n l) eqn:M; split; intro H; try discriminate; try reflexivity.
  - apply nmem_In in M. contradiction.
  - intro HI. apply nmem_In in HI. congruence.
Qed.
Lemma filter_nil {A} (f : A -> bool) l : filter f l = [] <-> forall x, In x l -> f x = false.
Proof.
  induction l as [|a l IH]; simpl.
  - split; auto. intros _ x [].
  - destruct (f a) eqn:Fa.
    + split; [discriminate|]. intro H. specialize (H a (or_introl eq_refl)). congruence.
    + rewrite IH. split; intros H x; [intros [->|Hx]; auto | intro Hx; apply H; auto].
Qed.
Lemma filter_len_le {A} (f : A -> bool) l : (length (filter f l) <= length l)%nat.
Proof. induction l as [|a l IH]; simpl; [lia|]. destruct (f a); simpl; lia. Qed.

(* ---------- dedup / uniq_of ---------- *)
Lemma dedup_In x l : In x (dedup l) <-> In x l.
Proof.
  induction l as [|a l IH]; simpl; [tauto|].
  destruct (zmem a l) eqn:M.
  - rewrite IH. apply zmem_In in M. split; [auto|]. intros [->|H]; auto.
  - simpl. rewrite IH. tauto.
Qed.
Lemma dedup_NoDup l : NoDup (dedup l).
Proof.
  induction l as [|a l IH]; simpl; [constructor|].
  destruct (zmem a l) eqn:M; auto.
  constructor; auto. rewrite dedup_In. apply zmem_false; auto.
Qed.
Lemma uniq_of_one l t : uniq_of l = UOne t <-> (In t l /\ forall x, In x l -> x = t).
Proof.
  unfold uniq_of. pose proof (dedup_NoDup l) as ND. pose proof (fun x => dedup_In x l) as DI.
  destruct (dedup l) as [|a [|b r]].
  - split; [discriminate|]. intros [H _]. apply DI in H. destruct H.
  - split.
    + intro H; inversion H; subst. split; [apply DI; left; auto|].
      intros x Hx. apply DI in Hx. destruct Hx as [->|[]]; auto.
    + intros [H1 H2]. f_equal. apply H2. apply DI. left; auto.
  - split; [discriminate|]. intros [_ H2].
    assert (a = t) by (apply H2, DI; left; auto).
    assert (b = t) by (apply H2, DI; right; left; auto).
    subst. inversion ND as [|? ? N _]. exfalso; apply N; left; auto.
Qed.
Lemma uniq_of_none l : uniq_of l = UNone <-> l = [].
Proof.
  unfold uniq_of. pose proof (fun x => dedup_In x l) as DI.
  destruct (dedup l) as [|a [|b r]] eqn:D.
  - split; auto. intros _. destruct l as [|x l]; auto. exfalso. apply (DI x). left; auto.
  - split; [discriminate|]. intros ->. discriminate.
  - split; [discriminate|]. intros ->. discriminate.
Qed.

(* ---------- DFS ---------- *)
Inductive reach (E : list edge) (S : list node) : node -> Prop :=
| reach_seed n : In n S -> reach E S n
| reach_step a b : reach E S a -> In (a, b) E -> reach E S b.

Lemma In_succs E a b : In b (succs E a) <-> In (a, b) E.
Proof.
  unfold succs. rewrite in_map_iff. split.
  - intros [[x y] [H1 H2]]. simpl in H1. subst. apply filter_In in H2. destruct H2 as [H2 H3].
    simpl in H3. apply node_eqb_eq in H3. subst; auto.
  - intro H. exists (a, b). split; auto. apply filter_In. split; auto. simpl. apply node_eqb_refl.
Qed.

(* number of edges whose source is not yet visited: the potential that bounds the while loop *)
Definition wsrc (E : list edge) (visited : list node) : nat :=
  length (filter (fun e => negb (nmem (fst e) visited)) E).
Lemma filter_count_split {A} (f1 f2 f3 : A -> bool) l :
  (forall x, f3 x = (f1 x || f2 x) /\ (f1 x && f2 x) = false) ->
  (length (filter f1 l) + length (filter f2 l) = length (filter f3 l))%nat.
Proof.
  intro H. induction l as [|a l IH]; simpl; [reflexivity|].
  destruct (H a) as [H1 H2]. destruct (f1 a), (f2 a), (f3 a); simpl in *; try discriminate; lia.
Qed.
Lemma wsrc_visit E n v : nmem n v = false ->
  (wsrc E (n :: v) + length (succs E n) = wsrc E v)%nat.
Proof.
  intro Hn. unfold wsrc, succs. rewrite map_length.
  apply filter_count_split. intro e. simpl.
  destruct (node_eqb (fst e) n) eqn:Q; simpl.
  - apply node_eqb_eq in Q. rewrite Q, Hn. auto.
  - destruct (nmem (fst e) v); auto.
Qed.

Lemma dfs_fuel_enough : forall fuel E stack visited,
  (length stack + wsrc E visited < fuel)%nat -> exists r, dfs fuel E stack visited = Some r.
Proof.
  induction fuel as [|f IH]; intros E stack visited H; [lia|].
  destruct stack as [|n rest]; simpl; [eauto|].
  destruct (nmem n visited) eqn:M.
  - apply IH. simpl in H. lia.
  - apply IH. pose proof (wsrc_visit E n visited M) as W.
    rewrite app_length, rev_length.
    match goal with |- context [length (filter ?f (succs E n))] =>
      pose proof (filter_len_le f (succs E n)) end.
    simpl in H. lia.
Qed.

Lemma run_dfs_total E S : exists r, run_dfs E S = Some r.
Proof.
  unfold run_dfs, dfs_fuel. apply dfs_fuel_enough. rewrite rev_length.
  unfold wsrc.
  match goal with |- context [length (filter ?f E)] => pose proof (filter_len_le f E) end.
  unfold edge in *. lia.
Qed.

Lemma dfs_sound : forall fuel E S stack visited r,
  dfs fuel E stack visited = Some r ->
  (forall n, In n stack -> reach E S n) -> (forall n, In n visited -> reach E S n) ->
  forall n, In n r -> reach E S n.
Proof.
  induction fuel as [|f IH]; intros E S stack visited r H Hs Hv; [discriminate|].
  destruct stack as [|n rest]; simpl in H.
  - inversion H; subst; auto.
  - destruct (nmem n visited) eqn:M.
    + eapply IH; eauto. intros; apply Hs; right; auto.
    + eapply IH; eauto.
      * intros x Hx. apply in_app_or in Hx. destruct Hx as [Hx|Hx].
        -- apply in_rev in Hx. apply filter_In in Hx. destruct Hx as [Hx _].
           apply In_succs in Hx. eapply reach_step; eauto. apply Hs; left; auto.
        -- apply Hs; right; auto.
      * intros x [<-|Hx]; auto. apply Hs; left; auto.
Qed.

Lemma dfs_complete : forall fuel E stack visited r,
  dfs fuel E stack visited = Some r ->
  (forall a b, In a visited -> In (a, b) E -> In b visited \/ In b stack) ->
  (forall n, In n visited \/ In n stack -> In n r) /\
  (forall a b, In a r -> In (a, b) E -> In b r).
Proof.
  induction fuel as [|f IH]; intros E stack visited r H Inv; [discriminate|].
  destruct stack as [|n rest]; simpl in H.
  - inversion H; subst. split.
    + intros n [Hn|[]]; auto.
    + intros a b Ha Hab. destruct (Inv a b Ha Hab) as [|[]]; auto.
  - destruct (nmem n visited) eqn:M.
    + apply nmem_In in M. apply IH in H.
      * destruct H as [H1 H2]. split; auto.
        intros x [Hx|[<-|Hx]]; auto.
      * intros a b Ha Hab. destruct (Inv a b Ha Hab) as [|[<-|]]; auto.
    + apply IH in H.
      * destruct H as [H1 H2]. split; auto.
        intros x [Hx|[<-|Hx]].
        -- apply H1. left; right; auto.
        -- apply H1. left; left; auto.
        -- apply H1. right. apply in_or_app; right; auto.
      * intros a b [<-|Ha] Hab.
        -- destruct (nmem b (n :: visited)) eqn:Mb.
           ++ apply nmem_In in Mb. left; auto.
           ++ right. apply in_or_app. left. apply in_rev. rewrite rev_involutive.
              apply filter_In. split; [apply In_succs; auto|].
              change (negb (nmem b (n :: visited)) = true). rewrite Mb; reflexivity.
        -- destruct (Inv a b Ha Hab) as [Hb|[<-|Hb]].
           ++ left; right; auto.
           ++ left; left; auto.
           ++ right. apply in_or_app; right; auto.
Qed.

Theorem run_dfs_spec E S r : run_dfs E S = Some r -> forall n, In n r <-> reach E S n.
Proof.
  unfold run_dfs. intros H n. split.
  - eapply dfs_sound; eauto.
    + intros x Hx. apply reach_seed. apply in_rev; auto.
    + intros x [].
  - apply dfs_complete in H; [|intros a b []].
    destruct H as [H1 H2]. induction 1 as [x Hx|a b _ IHa Hab].
    + apply H1. right. apply in_rev. rewrite rev_involutive; auto.
    + eapply H2; eauto.
Qed.

(* ---------- list facts used for the handler checks ---------- *)
Lemma NoDup_app_iff {A} (l1 l2 : list A) :
  NoDup (l1 ++ l2) <-> NoDup l1 /\ NoDup l2 /\ (forall x, In x l1 -> In x l2 -> False).
Proof.
  induction l1 as [|a l1 IH]; simpl.
  - split; [intro H; repeat split; auto; constructor | tauto].
  - split.
    + intro H. inversion H as [|? ? N ND]; subst. apply IH in ND. destruct ND as (A1 & A2 & A3).
      repeat split; auto.
      * constructor; auto. intro; apply N; apply in_or_app; auto.
      * intros x [<-|Hx] Hx2; [apply N; apply in_or_app; auto | eapply A3; eauto].
    + intros (A1 & A2 & A3). inversion A1 as [|? ? N ND]; subst. constructor.
      * intro H. apply in_app_or in H. destruct H as [H|H]; [auto | eapply A3; eauto].
      * apply IH. repeat split; auto. intros x Hx; apply A3; auto.
Qed.
Lemma NoDup_map_filter {A B} (f : A -> B) (p : A -> bool) l :
  NoDup (map f l) -> NoDup (map f (filter p l)).
Proof.
  induction l as [|a l IH]; simpl; auto. intro H. inversion H as [|? ? N ND]; subst.
  destruct (p a); simpl; auto. constructor; auto.
  intro Hin. apply N. apply in_map_iff in Hin. destruct Hin as [x [E Hx]].
  apply filter_In in Hx. destruct Hx as [Hx _]. apply in_map_iff. eauto.
Qed.

Section Equiv.
Variable U : ty -> kinds.

Lemma consumed_In g t : In t (consumed g) <-> consumes g t.
Proof. unfold consumed, consumes. apply in_flat_map. Qed.
Lemma returned_In g t : In t (returned g) <-> returns g t.
Proof. unfold returned, returns. apply in_flat_map. Qed.
Lemma produced_In g s t : In t (produced g s) <-> produces g s t.
Proof.
  unfold produced, produces. simpl. rewrite returned_In. split; intros [H|H]; auto.
Qed.
Lemma event_types_In g t : In t (event_types g) <-> is_event g t.
Proof.
  unfold event_types, is_event, consumes, returns. rewrite in_flat_map. split.
  - intros [st [H1 H2]]. apply in_app_or in H2. destruct H2; [left|right]; eauto.
  - intros [[st [H1 H2]]|[st [H1 H2]]]; exists st; split; auto; apply in_or_app; auto.
Qed.

(* --- start / stop --- *)
Lemma ensure_start_spec g s : ensure_start U g = UOne s <-> one_start U g s.
Proof.
  unfold ensure_start, one_start. rewrite uniq_of_one. split.
  - intros [H1 H2]. apply filter_In in H1. destruct H1 as [Hc Hs]. apply consumed_In in Hc.
    repeat split; auto. intros t Ht Hst. apply H2. apply filter_In. split; auto. apply consumed_In; auto.
  - intros (Hc & Hs & Hu). split.
    + apply filter_In. split; auto. apply consumed_In; auto.
    + intros x Hx. apply filter_In in Hx. destruct Hx as [A B]. apply Hu; auto. apply consumed_In; auto.
Qed.
Lemma ensure_stop_spec g e : ensure_stop U g = UOne e <-> one_stop U g e.
Proof.
  unfold ensure_stop, one_stop. rewrite uniq_of_one. split.
  - intros [H1 H2]. apply filter_In in H1. destruct H1 as [Hc Hs]. apply returned_In in Hc.
    repeat split; auto. intros t Ht Hst. apply H2. apply filter_In. split; auto. apply returned_In; auto.
  - intros (Hc & Hs & Hu). split.
    + apply filter_In. split; auto. apply returned_In; auto.
    + intros x Hx. apply filter_In in Hx. destruct Hx as [A B]. apply Hu; auto. apply returned_In; auto.
Qed.

(* --- connectivity --- *)
Lemma stop_consumers_nil g : stop_consumers U g = [] <-> no_stop_consumer U g.
Proof.
  unfold stop_consumers, no_stop_consumer. split.
  - intros H t [st [Hst Ht]]. apply map_eq_nil in H.
    pose proof (proj1 (filter_nil _ _) H st Hst) as Q. simpl in Q.
    destruct (is_stop U t) eqn:S; auto.
    assert (existsb (is_stop U) (s_acc st) = true) by (apply existsb_exists; eauto). congruence.
  - intro H. assert (F : filter (fun st => existsb (is_stop U) (s_acc st)) g = []).
    { apply filter_nil. intros st Hst. destruct (existsb (is_stop U) (s_acc st)) eqn:Q; auto.
      apply existsb_exists in Q. destruct Q as [t [Ht Hs]].
      rewrite (H t) in Hs; [discriminate | exists st; auto]. }
    rewrite F; reflexivity.
Qed.
Lemma unproduced_nil g s : unproduced U g s = [] <-> consumed_are_produced U g s.
Proof.
  unfold unproduced, consumed_are_produced. rewrite filter_nil. split.
  - intros H t Hc. apply consumed_In in Hc. specialize (H t Hc). apply andb_false_iff in H.
    destruct H as [H|H]; apply negb_false_iff in H; auto.
    left. apply produced_In. apply zmem_In; auto.
  - intros H t Ht. apply consumed_In in Ht. apply andb_false_iff.
    destruct (H t Ht) as [Hp|Hb]; [left|right]; apply negb_false_iff; auto.
    apply zmem_In, produced_In; auto.
Qed.
Lemma unconsumed_nil g s : unconsumed U g s = [] <-> produced_are_consumed U g s.
Proof.
  unfold unconsumed, produced_are_consumed. rewrite filter_nil. split.
  - intros H t Hp. apply produced_In in Hp. specialize (H t Hp). apply andb_false_iff in H.
    destruct H as [H|H]; apply negb_false_iff in H; auto.
    left. apply consumed_In. apply zmem_In; auto.
  - intros H t Ht. apply produced_In in Ht. apply andb_false_iff.
    destruct (H t Ht) as [Hp|Hb]; [left|right]; apply negb_false_iff; auto.
    apply zmem_In, consumed_In; auto.
Qed.
Lemma uses_hitl_spec g s : uses_hitl U g s = true <-> hitl_spec U g s.
Proof.
  unfold uses_hitl, hitl_spec. rewrite orb_true_iff, !existsb_exists. split.
  - intros [[t [A B]]|[t [A B]]]; [left|right]; exists t; split; auto;
      [apply produced_In | apply consumed_In]; auto.
  - intros [[t [A B]]|[t [A B]]]; [left|right]; exists t; split; auto;
      [apply produced_In | apply consumed_In]; auto.
Qed.
End Equiv.

(* ---------- @catch_error handlers ---------- *)
Lemma handlers_In g h : In h (handlers g) <-> In h g /\ s_handler h = true.
Proof. unfold handlers. apply filter_In. Qed.
Lemma names_In g n : In n (map s_name g) <-> is_step g n.
Proof.
  unfold is_step. rewrite in_map_iff. split; intros [st [A B]]; exists st; auto.
Qed.
Lemma hnames_In g n : In n (map s_name (handlers g)) <-> is_handler g n.
Proof.
  unfold is_handler. rewrite in_map_iff. split.
  - intros [h [A B]]. apply handlers_In in B. destruct B. exists h; auto.
  - intros [h (A & B & C)]. exists h. split; auto. apply handlers_In; auto.
Qed.

Lemma first_bad_maxrec_none g :
  first_bad_maxrec g = None <->
  (forall h, In h g -> s_handler h = true -> exists m, s_maxrec h = Some m /\ 1 <= m).
Proof.
  unfold first_bad_maxrec. destruct (filter bad_maxrec (handlers g)) as [|b l] eqn:F.
  - split; auto. intros _ h Hh Hd.
    assert (Q : bad_maxrec h = false) by (apply (proj1 (filter_nil _ _) F); apply handlers_In; auto).
    unfold bad_maxrec in Q. destruct (s_maxrec h) as [m|]; [|discriminate].
    exists m. split; auto. apply Z.ltb_ge in Q. lia.
  - split; [discriminate|]. intro H.
    assert (Hb : In b (filter bad_maxrec (handlers g))) by (rewrite F; left; auto).
    apply filter_In in Hb. destruct Hb as [A B]. apply handlers_In in A. destruct A as [A1 A2].
    destruct (H b A1 A2) as [m [E1 E2]]. unfold bad_maxrec in B. rewrite E1 in B.
    apply Z.ltb_lt in B. lia.
Qed.

Lemma claims_In g h t :
  In (h, t) (claims g) <->
  exists hs fs, In hs g /\ s_handler hs = true /\ s_name hs = h /\ s_for hs = Some fs /\ In t fs.
Proof.
  unfold claims. rewrite in_flat_map. split.
  - intros [hs [A B]]. apply handlers_In in A. destruct A as [A1 A2].
    destruct (s_for hs) as [fs|] eqn:F; [|destruct B].
    apply in_map_iff in B. destruct B as [x [E Hx]]. inversion E; subst.
    exists hs, fs. auto.
  - intros [hs [fs (A & B & C & D & E)]]. exists hs. split; [apply handlers_In; auto|].
    rewrite D. apply in_map_iff. exists t. subst; auto.
Qed.

Definition targets (h : stepc) : list Z := match s_for h with Some fs => fs | None => [] end.
Lemma claims_targets g : map snd (claims g) = flat_map targets (handlers g).
Proof.
  unfold claims. induction (handlers g) as [|h l IH]; simpl; auto.
  rewrite map_app, IH. f_equal. unfold targets. destruct (s_for h) as [fs|]; auto.
  rewrite map_map. simpl. apply map_id.
Qed.

Lemma lookup_cons_none k t h owner :
  lookup k ((t, h) :: owner) = None <-> k <> t /\ lookup k owner = None.
Proof.
  simpl. destruct (Z.eqb k t) eqn:Q.
  - apply Z.eqb_eq in Q. split; [discriminate | intros [N _]; contradiction].
  - apply Z.eqb_neq in Q. tauto.
Qed.

Lemma check_claims_nil names hnames : forall cl owner,
  check_claims names hnames cl owner = [] <->
  (forall h t, In (h, t) cl -> In t names /\ ~ In t hnames /\ lookup t owner = None)
  /\ NoDup (map snd cl).
Proof.
  induction cl as [|[h t] r IH]; intro owner; simpl.
  - split; auto. intros _. split; [intros ? ? []|constructor].
  - destruct (zmem t names) eqn:Mn; simpl.
    2:{ split; [discriminate|]. intros [H _]. destruct (H h t (or_introl eq_refl)) as [A _].
        apply zmem_In in A. congruence. }
    destruct (zmem t hnames) eqn:Mh.
    { split; [discriminate|]. intros [H _]. destruct (H h t (or_introl eq_refl)) as (_ & A & _).
      apply zmem_In in Mh. contradiction. }
    destruct (lookup t owner) as [o|] eqn:L.
    { split; [discriminate|]. intros [H _]. destruct (H h t (or_introl eq_refl)) as (_ & _ & A).
      congruence. }
    rewrite IH. apply zmem_In in Mn. apply zmem_false in Mh. split.
    + intros [H ND]. split.
      * intros h' t' [E|Hin].
        -- inversion E; subst. auto.
        -- destruct (H h' t' Hin) as (A & B & C). apply lookup_cons_none in C. tauto.
      * constructor; auto. intro Hin. apply in_map_iff in Hin. destruct Hin as [[h' t'] [E Hin]].
        simpl in E. subst. destruct (H h' t Hin) as (_ & _ & C). apply lookup_cons_none in C.
        destruct C as [C _]. apply C; reflexivity.
    + intros [H ND]. inversion ND as [|? ? N ND']; subst. split; auto.
      intros h' t' Hin. destruct (H h' t' (or_intror Hin)) as (A & B & C). repeat split; auto.
      apply lookup_cons_none. split; auto. intros ->. apply N. apply in_map_iff.
      exists (h', t). auto.
Qed.

Lemma NoDup_flat_targets l :
  NoDup (map s_name l) ->
  (NoDup (flat_map targets l) <->
   (forall h, In h l -> NoDup (targets h)) /\
   (forall h1 h2 t, In h1 l -> In h2 l -> s_name h1 <> s_name h2 ->
      In t (targets h1) -> In t (targets h2) -> False)).
Proof.
  induction l as [|a l IH]; simpl; intro ND.
  - split; [intros _; split; [intros ? []|intros ? ? ? []] | intros _; constructor].
  - inversion ND as [|? ? N ND']; subst. rewrite NoDup_app_iff, (IH ND'). split.
    + intros (A & [B1 B2] & C). split.
      * intros h [<-|Hh]; auto.
      * intros h1 h2 t [<-|H1] [<-|H2] Hne T1 T2.
        -- apply Hne; reflexivity.
        -- apply (C t T1). apply in_flat_map. eauto.
        -- apply (C t T2). apply in_flat_map. eauto.
        -- eapply B2; eauto.
    + intros [A B]. split; [apply A; auto|]. split; [split|].
      * intros h Hh; apply A; auto.
      * intros h1 h2 t H1 H2; apply B; auto.
      * intros t T1 T2. apply in_flat_map in T2. destruct T2 as [h [Hh T2]].
        apply (B a h t); auto. intro E. apply N. rewrite E. apply in_map; auto.
Qed.

Lemma wildcards_In g w :
  In w (wildcards g) <-> In w g /\ s_handler w = true /\ s_for w = None.
Proof.
  unfold wildcards. rewrite filter_In, handlers_In. split.
  - intros [[A B] C]. destruct (s_for w); [discriminate|auto].
  - intros (A & B & C). rewrite C. auto.
Qed.
Lemma wildcards_le1 g :
  NoDup (map s_name g) ->
  ((length (wildcards g) <= 1)%nat <->
   (forall h1 h2, In h1 g -> In h2 g -> s_handler h1 = true -> s_handler h2 = true ->
      s_for h1 = None -> s_for h2 = None -> s_name h1 = s_name h2)).
Proof.
  intro ND.
  assert (NDw : NoDup (map s_name (wildcards g))).
  { unfold wildcards, handlers. apply NoDup_map_filter, NoDup_map_filter; auto. }
  pose proof (wildcards_In g) as WI.
  destruct (wildcards g) as [|a [|b r]]; simpl.
  - split; [|lia]. intros _ h1 h2 H1 _ D1 _ F1 _. exfalso. apply (WI h1); auto.
  - split; [|lia]. intros _ h1 h2 H1 H2 D1 D2 F1 F2.
    assert (A1 : In h1 [a]) by (apply WI; auto). assert (A2 : In h2 [a]) by (apply WI; auto).
    destruct A1 as [<-|[]]. destruct A2 as [<-|[]]. reflexivity.
  - split; [lia|]. intro H. exfalso.
    assert (Ia : In a (a :: b :: r)) by (left; auto).
    assert (Ib : In b (a :: b :: r)) by (right; left; auto).
    apply WI in Ia. apply WI in Ib. destruct Ia as (A1 & A2 & A3). destruct Ib as (B1 & B2 & B3).
    pose proof (H a b A1 B1 A2 B2 A3 B3) as E.
    simpl in NDw. inversion NDw as [|? ? N _]. apply N. rewrite E. left; reflexivity.
Qed.

Lemma handler_errors_nil g :
  NoDup (map s_name g) ->
  (first_bad_maxrec g = None /\ handler_errors g = [] <-> handlers_ok g).
Proof.
  intro ND. unfold handler_errors, handlers_ok.
  rewrite first_bad_maxrec_none.
  assert (NDh : NoDup (map s_name (handlers g))) by (apply NoDup_map_filter; auto).
  pose proof (NoDup_flat_targets (handlers g) NDh) as NF.
  pose proof (wildcards_le1 g ND) as WL.
  split.
  - intros [M H]. apply app_eq_nil in H. destruct H as [W C].
    apply check_claims_nil in C. destruct C as [C1 C2].
    rewrite claims_targets in C2. apply NF in C2. destruct C2 as [T1 T2].
    split; auto. split.
    { apply WL. destruct (1 <? Z.of_nat (length (wildcards g))) eqn:Q; [discriminate|].
      apply Z.ltb_ge in Q. lia. }
    split.
    { intros h fs t Hh Hd Hf Ht.
      destruct (C1 (s_name h) t) as (A & B & _).
      { apply claims_In. exists h, fs. auto. }
      split; [apply names_In; auto | intro X; apply B; apply hnames_In; auto]. }
    split.
    { intros h fs Hh Hd Hf. specialize (T1 h). unfold targets in T1. rewrite Hf in T1.
      apply T1. apply handlers_In; auto. }
    { intros h1 h2 f1 f2 t H1 H2 D1 D2 Hne F1 F2 I1 I2.
      apply (T2 h1 h2 t); try (apply handlers_In; auto); auto; unfold targets.
      - rewrite F1; auto.
      - rewrite F2; auto. }
  - intros (M & W & T & N1 & N2). split; auto.
    assert (E1 : (if 1 <? Z.of_nat (length (wildcards g))
                  then [HWild (Z.of_nat (length (wildcards g)))] else []) = []).
    { apply WL in W. destruct (1 <? Z.of_nat (length (wildcards g))) eqn:Q; auto.
      apply Z.ltb_lt in Q. lia. }
    rewrite E1. simpl. apply check_claims_nil. split.
    { intros h t Hc. apply claims_In in Hc. destruct Hc as [hs [fs (A & B & C & D & E)]].
      destruct (T hs fs t A B D E) as [S1 S2]. repeat split; auto.
      - apply names_In; auto.
      - intro X. apply S2. apply hnames_In; auto. }
    rewrite claims_targets. apply NF. split.
    { intros h Hh. apply handlers_In in Hh. destruct Hh as [A B]. unfold targets.
      destruct (s_for h) as [fs|] eqn:F; [eapply N1; eauto | constructor]. }
    { intros h1 h2 t H1 H2 Hne I1 I2. apply handlers_In in H1. apply handlers_In in H2.
      destruct H1 as [A1 B1]. destruct H2 as [A2 B2]. unfold targets in I1, I2.
      destruct (s_for h1) as [f1|] eqn:F1; [|destruct I1].
      destruct (s_for h2) as [f2|] eqn:F2; [|destruct I2].
      eapply (N2 h1 h2 f1 f2 t); eauto. }
Qed.

(* ---------- the step/event graph ---------- *)
Lemma edges_In g a b : In (a, b) (edges g) <-> gedge g a b.
Proof.
  unfold edges. rewrite in_flat_map. split.
  - intros [st [Hst H]]. apply in_app_or in H. destruct H as [H|H]; apply in_map_iff in H;
      destruct H as [t [E Ht]]; inversion E; subst; constructor; auto.
  - intros H. destruct H as [st t Hst Ht|st t Hst Ht]; exists st; split; auto; apply in_or_app;
      [left|right]; apply in_map_iff; exists t; auto.
Qed.
Lemma swap_In (E : list edge) a b : In (a, b) (map swap E) <-> In (b, a) E.
Proof.
  rewrite in_map_iff. split.
  - intros [[x y] [H1 H2]]. unfold swap in H1. simpl in H1. inversion H1; subst; auto.
  - intro H. exists (b, a). split; auto.
Qed.

Lemma reach_path g S n : reach (edges g) S n <-> exists i, In i S /\ path g i n.
Proof.
  split.
  - induction 1 as [n Hn|a b _ [i [Hi P]] Hab].
    + exists n. split; auto. apply rt_refl.
    + exists i. split; auto. eapply rt_trans; eauto. apply rt_step. apply edges_In; auto.
  - intros [i [Hi P]]. unfold path in P. apply clos_rt_rtn1 in P.
    induction P as [|y z Hyz _ IH].
    + apply reach_seed; auto.
    + eapply reach_step; eauto. apply edges_In; auto.
Qed.
Lemma reach_rev_path g S n :
  reach (map swap (edges g)) S n <-> exists o, In o S /\ path g n o.
Proof.
  split.
  - induction 1 as [n Hn|a b _ [o [Ho P]] Hab].
    + exists n. split; auto. apply rt_refl.
    + exists o. split; auto. eapply rt_trans; eauto. apply rt_step. apply edges_In, swap_In; auto.
  - intros [o [Ho P]]. unfold path in P. apply clos_rt_rt1n in P.
    induction P as [|x y z Hxy _ IH].
    + apply reach_seed; auto.
    + eapply reach_step; [apply IH; auto|]. apply swap_In, edges_In; auto.
Qed.

Section Graph.
Variable U : ty -> kinds.

Lemma fwd_seeds_In g s n : In n (fwd_seeds U g s) <-> input_node U g s n.
Proof.
  unfold fwd_seeds, input_node. simpl. rewrite in_app_iff, !in_map_iff. split.
  - intros [H|[[t [E H]]|[h [E H]]]].
    + left; auto.
    + right; left. apply filter_In in H. destruct H as [A B]. exists t. repeat split; auto.
      apply event_types_In; auto.
    + right; right. exists h. split; auto. apply hnames_In; auto.
  - intros [H|[[t (E & A & B)]|[h [E H]]]].
    + left; auto.
    + right; left. exists t. split; auto. apply filter_In. split; auto. apply event_types_In; auto.
    + right; right. exists h. split; auto. apply hnames_In; auto.
Qed.
Lemma out_seeds_In g n :
  In n (out_seeds U g) <-> exists t, n = NE t /\ is_event g t /\ is_output U t = true.
Proof.
  unfold out_seeds. rewrite in_map_iff. split.
  - intros [t [E H]]. apply filter_In in H. destruct H as [A B]. exists t. repeat split; auto.
    apply event_types_In; auto.
  - intros [t (E & A & B)]. exists t. split; auto. apply filter_In. split; auto.
    apply event_types_In; auto.
Qed.

Lemma forward_spec g s fwd :
  forward_reachable U g s = Some fwd -> forall n, In n fwd <-> reachable U g s n.
Proof.
  unfold forward_reachable. intros H n. rewrite (run_dfs_spec _ _ _ H), reach_path.
  unfold reachable. split; intros [i [A B]]; exists i; split; auto; apply fwd_seeds_In; auto.
Qed.
Lemma reverse_spec g rv :
  reverse_reachable U g = Some rv -> forall n, In n rv <-> can_finish U g n.
Proof.
  unfold reverse_reachable. intros H n. rewrite (run_dfs_spec _ _ _ H), reach_rev_path.
  unfold can_finish. split.
  - intros [o [A B]]. apply out_seeds_In in A. destruct A as [t (E & A1 & A2)]. subst. eauto.
  - intros [t (A & B & C)]. exists (NE t). split; auto. apply out_seeds_In. eauto.
Qed.

Lemma unreachable_nil g s sk fwd :
  (forall n, In n fwd <-> reachable U g s n) ->
  (unreachable g sk fwd = [] <-> all_reachable U g s sk).
Proof.
  intro F. unfold unreachable, all_reachable. destruct (sk_reach sk).
  - split; auto. intros _ H; discriminate.
  - split.
    + intros H _ st Hst Hsk. apply map_eq_nil in H.
      pose proof (proj1 (filter_nil _ _) H st Hst) as Q. simpl in Q. rewrite Hsk in Q. simpl in Q.
      apply negb_false_iff, nmem_In in Q. apply F; auto.
    + intro H. specialize (H eq_refl).
      match goal with |- map _ ?l = [] => assert (E : l = []); [|rewrite E; reflexivity] end.
      apply filter_nil. intros st Hst. destruct (s_skip_reach st) eqn:K; auto. simpl.
      apply negb_false_iff, nmem_In, F. apply H; auto.
Qed.
Lemma dangling_nil g sk : dangling U g sk = [] <-> terminal_ok U g sk.
Proof.
  unfold dangling, terminal_ok. destruct (sk_term sk).
  - split; auto. intros _ H; discriminate.
  - rewrite filter_nil. split.
    + intros H _ t Ht. apply event_types_In in Ht. specialize (H t Ht). apply andb_false_iff in H.
      destruct H as [H|H]; apply negb_false_iff in H; auto.
      left. apply consumed_In, zmem_In; auto.
    + intros H t Ht. apply event_types_In in Ht. apply andb_false_iff.
      destruct (H eq_refl t Ht) as [A|A]; [left|right]; apply negb_false_iff; auto.
      apply zmem_In, consumed_In; auto.
Qed.
Lemma dead_ends_nil g sk rv :
  (forall n, In n rv <-> can_finish U g n) ->
  (dead_ends g sk rv = [] <-> no_dead_end U g sk).
Proof.
  intro F. unfold dead_ends, no_dead_end. destruct (sk_dead sk).
  - split; auto. intros _ H; discriminate.
  - split.
    + intros H _ st Hst Hret Hsk. apply map_eq_nil in H.
      pose proof (proj1 (filter_nil _ _) H st Hst) as Q. simpl in Q. rewrite Hsk in Q.
      destruct (s_ret st) as [|r0 rs]; [congruence|]. simpl in Q.
      apply negb_false_iff, nmem_In in Q. apply F; auto.
    + intro H. specialize (H eq_refl).
      match goal with |- map _ ?l = [] => assert (E : l = []); [|rewrite E; reflexivity] end.
      apply filter_nil. intros st Hst. destruct (s_ret st) as [|r0 rs] eqn:R; auto.
      destruct (s_skip_dead st) eqn:K; auto. simpl.
      apply negb_false_iff, nmem_In, F. apply H; auto. rewrite R; discriminate.
Qed.

(* ---------- validate = Accept, stage by stage ---------- *)
Lemma validate_accept g sk a :
  validate U g sk = Accept a <->
  exists s e,
    g <> [] /\ ensure_start U g = UOne s /\ ensure_stop U g = UOne e /\
    stop_consumers U g = [] /\ unproduced U g s = [] /\ unconsumed U g s = [] /\
    first_bad_maxrec g = None /\ handler_errors g = [] /\
    (exists fwd rv, forward_reachable U g s = Some fwd /\ reverse_reachable U g = Some rv /\
       unreachable g sk fwd = [] /\ dangling U g sk = [] /\ dead_ends g sk rv = []) /\
    a = {| a_start := s; a_stop := e; a_handlers := map s_name (handlers g);
           a_route := route g; a_hitl := uses_hitl U g s |}.
Proof.
  unfold validate. split.
  - destruct g as [|st0 g0] eqn:Eg; [discriminate|]. rewrite <- Eg.
    destruct (ensure_start U g) as [| |s] eqn:E1; try discriminate.
    destruct (ensure_stop U g) as [| |e] eqn:E2; try discriminate.
    destruct (stop_consumers U g) eqn:E3; try discriminate.
    destruct (unproduced U g s) eqn:E4; try discriminate.
    destruct (unconsumed U g s) eqn:E5; try discriminate.
    destruct (first_bad_maxrec g) eqn:E6; try discriminate.
    destruct (handler_errors g) eqn:E7; try discriminate.
    destruct (forward_reachable U g s) as [fwd|] eqn:E8; try discriminate.
    destruct (reverse_reachable U g) as [rv|] eqn:E9; try discriminate.
    destruct (unreachable g sk fwd) eqn:E10; try discriminate.
    destruct (dangling U g sk) eqn:E11; try discriminate.
    destruct (dead_ends g sk rv) eqn:E12; try discriminate.
    intro H. inversion H; subst a. exists s, e.
    split; [rewrite Eg; discriminate|].
    do 7 (split; [solve [auto]|]).
    split; [|reflexivity]. exists fwd, rv. auto.
  - intros [s [e (H0 & H1 & H2 & H3 & H4 & H5 & H6 & H7 & [fwd [rv (H8 & H9 & H10 & H11 & H12)]] & Ha)]].
    destruct g as [|st0 g0] eqn:Eg; [congruence|].
    rewrite H1, H2, H3, H4, H5, H6, H7, H8, H9, H10, H11, H12, Ha. reflexivity.
Qed.

Theorem validate_iff g sk :
  NoDup (map s_name g) ->
  ((exists a, validate U g sk = Accept a) <-> well_formed U g sk).
Proof.
  intro ND. split.
  - intros [a H]. apply validate_accept in H.
    destruct H as [s [e (H0 & H1 & H2 & H3 & H4 & H5 & H6 & H7 & [fwd [rv (H8 & H9 & H10 & H11 & H12)]] & Ha)]].
    exists s, e. unfold well_formed_with.
    split; [exact H0|].
    split; [apply ensure_start_spec; auto|].
    split; [apply ensure_stop_spec; auto|].
    split; [apply stop_consumers_nil; auto|].
    split; [apply unproduced_nil; auto|].
    split; [apply unconsumed_nil; auto|].
    split; [apply handler_errors_nil; auto|].
    split; [eapply unreachable_nil; eauto; apply forward_spec; auto|].
    split; [apply dangling_nil; auto|].
    eapply dead_ends_nil; eauto. apply reverse_spec; auto.
  - intros [s [e (H0 & H1 & H2 & H3 & H4 & H5 & H6 & H7 & H8 & H9)]].
    destruct (run_dfs_total (edges g) (fwd_seeds U g s)) as [fwd Hf].
    destruct (run_dfs_total (map swap (edges g)) (out_seeds U g)) as [rv Hr].
    apply handler_errors_nil in H6; auto. destruct H6 as [H6a H6b].
    eexists. apply validate_accept. exists s, e.
    split; [exact H0|].
    split; [apply ensure_start_spec; auto|].
    split; [apply ensure_stop_spec; auto|].
    split; [apply stop_consumers_nil; auto|].
    split; [apply unproduced_nil; auto|].
    split; [apply unconsumed_nil; auto|].
    split; [exact H6a|].
    split; [exact H6b|].
    split; [|reflexivity].
    exists fwd, rv.
    split; [exact Hf|]. split; [exact Hr|].
    split; [eapply unreachable_nil; eauto; apply forward_spec; auto|].
    split; [apply dangling_nil; auto|].
    eapply dead_ends_nil; eauto. apply reverse_spec; auto.
Qed.

Theorem validate_fields g sk a :
  validate U g sk = Accept a ->
  one_start U g (a_start a) /\ one_stop U g (a_stop a) /\
  (a_hitl a = true <-> hitl_spec U g (a_start a)).
Proof.
  intro H. apply validate_accept in H.
  destruct H as [s [e (H0 & H1 & H2 & _ & _ & _ & _ & _ & _ & Ha)]]. subst a. simpl.
  split; [apply ensure_start_spec; auto|]. split; [apply ensure_stop_spec; auto|].
  apply uses_hitl_spec.
Qed.

Theorem validate_never_out_of_fuel g sk : validate U g sk <> Reject ROutOfFuel.
Proof.
  unfold validate. destruct g as [|st0 g0] eqn:Eg; [discriminate|]. rewrite <- Eg.
  destruct (ensure_start U g) as [| |s]; try discriminate.
  destruct (ensure_stop U g) as [| |e]; try discriminate.
  destruct (stop_consumers U g); try discriminate.
  destruct (unproduced U g s); try discriminate.
  destruct (unconsumed U g s); try discriminate.
  destruct (first_bad_maxrec g); try discriminate.
  destruct (handler_errors g); try discriminate.
  unfold forward_reachable, reverse_reachable.
  destruct (run_dfs_total (edges g) (fwd_seeds U g s)) as [fwd ->].
  destruct (run_dfs_total (map swap (edges g)) (out_seeds U g)) as [rv ->].
  destruct (unreachable g sk fwd), (dangling U g sk), (dead_ends g sk rv); discriminate.
Qed.
End Graph.

(* ---------- the verdict does not depend on the order of the steps (dict / set iteration) ---------- *)
Section Order.
Variable U : ty -> kinds.
Variables g g' : graph.
Hypothesis same : forall st, In st g <-> In st g'.

Lemma consumes_ext t : consumes g t -> consumes g' t.
Proof. intros [st [A B]]. exists st. split; auto. apply same; auto. Qed.
Lemma returns_ext t : returns g t -> returns g' t.
Proof. intros [st [A B]]. exists st. split; auto. apply same; auto. Qed.
Lemma produces_ext s t : produces g s t -> produces g' s t.
Proof. intros [A|A]; [left|right]; auto using returns_ext. Qed.
Lemma is_event_ext t : is_event g t -> is_event g' t.
Proof. intros [A|A]; [left|right]; auto using consumes_ext, returns_ext. Qed.
Lemma is_step_ext n : is_step g n -> is_step g' n.
Proof. intros [st [A B]]. exists st. split; auto. apply same; auto. Qed.
Lemma is_handler_ext n : is_handler g n -> is_handler g' n.
Proof. intros [st (A & B & C)]. exists st. repeat split; auto. apply same; auto. Qed.
Lemma gedge_ext a b : gedge g a b -> gedge g' a b.
Proof. intros [st t A B|st t A B]; constructor; auto; apply same; auto. Qed.
Lemma path_ext a b : path g a b -> path g' a b.
Proof.
  unfold path. induction 1 as [x y H| |x y z _ IH1 _ IH2].
  - apply rt_step, gedge_ext; auto.
  - apply rt_refl.
  - eapply rt_trans; eauto.
Qed.
End Order.

Lemma well_formed_with_ext U g g' sk s e :
  (forall st, In st g <-> In st g') ->
  well_formed_with U g sk s e -> well_formed_with U g' sk s e.
Proof.
  intros same. assert (same' : forall st, In st g' <-> In st g) by (intro; symmetry; apply same).
  intros (H0 & (S1 & S2 & S3) & (E1 & E2 & E3) & H3 & H4 & H5 & (M1 & M2 & M3 & M4 & M5) & H7 & H8 & H9).
  split.
  { destruct g as [|x l]; [congruence|]. intro E. subst g'. apply (same x). left; auto. }
  split. { split; [eapply consumes_ext; eauto|]. split; auto. intros t Ht. apply S3. eapply consumes_ext; eauto. }
  split. { split; [eapply returns_ext; eauto|]. split; auto. intros t Ht. apply E3. eapply returns_ext; eauto. }
  split. { intros t Ht. apply H3. eapply consumes_ext; eauto. }
  split. { intros t Ht. destruct (H4 t) as [A|A]; [eapply consumes_ext; eauto| |auto].
           left. eapply produces_ext; eauto. }
  split. { intros t Ht. destruct (H5 t) as [A|A]; [eapply produces_ext; eauto| |auto].
           left. eapply consumes_ext; eauto. }
  split.
  { split. { intros h Hh. apply M1, same; auto. }
    split. { intros h1 h2 A1 A2. apply M2; apply same; auto. }
    split. { intros h fs t Hh Hd Hf Ht. destruct (M3 h fs t) as [A B]; auto. apply same; auto.
             split; [eapply is_step_ext; eauto|]. intro X. apply B. eapply is_handler_ext; eauto. }
    split. { intros h fs Hh. apply M4, same; auto. }
    intros h1 h2 f1 f2 t A1 A2. apply M5; apply same; auto. }
  split.
  { intros K st Hst Hsk. destruct (H7 K st) as [i [A B]]; auto. apply same; auto.
    exists i. split; [|eapply path_ext; eauto].
    destruct A as [A|[[t (A1 & A2 & A3)]|[h [A1 A2]]]].
    - left; auto.
    - right; left. exists t. repeat split; auto. eapply is_event_ext; eauto.
    - right; right. exists h. split; auto. eapply is_handler_ext; eauto. }
  split.
  { intros K t Ht. destruct (H8 K t) as [A|A]; [eapply is_event_ext; eauto| |auto].
    left. eapply consumes_ext; eauto. }
  { intros K st Hst Hr Hsk. destruct (H9 K st) as [t (A & B & C)]; auto. apply same; auto.
    exists t. split; [eapply is_event_ext; eauto|]. split; auto. eapply path_ext; eauto. }
Qed.

Theorem validate_order_independent U g g' sk :
  NoDup (map s_name g) -> Permutation g g' ->
  ((exists a, validate U g sk = Accept a) <-> (exists a, validate U g' sk = Accept a)).
Proof.
  intros ND P.
  assert (ND' : NoDup (map s_name g')) by (eapply Permutation_NoDup; [apply Permutation_map; eauto|auto]).
  assert (same : forall st, In st g <-> In st g').
  { intro st. split; apply Permutation_in; [auto | apply Permutation_sym; auto]. }
  rewrite (validate_iff U g sk ND), (validate_iff U g' sk ND'). unfold well_formed.
  split; intros [s [e H]]; exists s, e; eapply well_formed_with_ext; eauto.
  intro st; symmetry; apply same.
Qed.

(* accepted results agree on start class, stop class and the human-in-the-loop flag *)
Theorem validate_order_fields U g g' sk a a' :
  Permutation g g' -> validate U g sk = Accept a -> validate U g' sk = Accept a' ->
  a_start a = a_start a' /\ a_stop a = a_stop a' /\ a_hitl a = a_hitl a'.
Proof.
  intros P H H'.
  assert (same : forall st, In st g <-> In st g').
  { intro st. split; apply Permutation_in; [auto | apply Permutation_sym; auto]. }
  assert (same' : forall st, In st g' <-> In st g) by (intro; symmetry; apply same).
  destruct (validate_fields U g sk a H) as ((S1 & S2 & S3) & (E1 & E2 & E3) & Hh).
  destruct (validate_fields U g' sk a' H') as ((S1' & S2' & S3') & (E1' & E2' & E3') & Hh').
  assert (Es : a_start a = a_start a').
  { apply S3'; auto. eapply consumes_ext; eauto. }
  split; auto. split. { apply E3'; auto. eapply returns_ext; eauto. }
  assert (X : hitl_spec U g (a_start a) <-> hitl_spec U g' (a_start a')).
  { rewrite <- Es. unfold hitl_spec. split; intros [[t [A B]]|[t [A B]]]; [left|right|left|right]; exists t; split; auto;
      first [eapply produces_ext; eauto | eapply consumes_ext; eauto]. }
  destruct (a_hitl a) eqn:Q, (a_hitl a') eqn:Q'; auto.
  - assert (false = true) by (apply Hh', X, Hh; auto). congruence.
  - assert (false = true) by (apply Hh, X, Hh'; auto). congruence.
Qed.

(* ---------- handler_for_step ---------- *)
Theorem route_covers g n h :
  (length (wildcards g) <= 1)%nat ->
  (In (n, h) (route g) <-> covers g n h).
Proof.
  intro W. unfold route, covers.
  assert (SC : forall n h, In (n, h) (map (fun c : Z * Z => (snd c, fst c)) (claims g)) <-> In (h, n) (claims g)).
  { intros n0 h0. rewrite in_map_iff. split.
    - intros [[x y] [E H]]. simpl in E. inversion E; subst; auto.
    - intro H. exists (h0, n0). auto. }
  assert (SF : forall n, In n (map fst (map (fun c : Z * Z => (snd c, fst c)) (claims g))) <->
                         exists hs fs, In hs g /\ s_handler hs = true /\ s_for hs = Some fs /\ In n fs).
  { intro n0. rewrite map_map. simpl. rewrite in_map_iff. split.
    - intros [[x y] [E H]]. simpl in E. subst. apply claims_In in H.
      destruct H as [hs [fs (A & B & C & D & F)]]. exists hs, fs. auto.
    - intros [hs [fs (A & B & D & F)]]. exists (s_name hs, n0). split; auto.
      apply claims_In. exists hs, fs. auto. }
  pose proof (wildcards_In g) as WI.
  destruct (wildcards g) as [|w ws] eqn:Ew.
  - rewrite SC, claims_In. split; [intro H; left; auto|].
    intros [H|(_ & _ & _ & [w (A & B & C & _)])]; auto.
    exfalso. apply (WI w). auto.
  - assert (ws = []) by (destruct ws; auto; simpl in W; lia). subst ws.
    rewrite in_app_iff, SC, claims_In, in_map_iff. split.
    + intros [H|[x [E H]]]; [left; auto|]. inversion E; subst. right.
      apply filter_In in H. destruct H as [A B]. apply andb_true_iff in B. destruct B as [B1 B2].
      apply negb_true_iff, zmem_false in B1. apply negb_true_iff, zmem_false in B2.
      split; [apply names_In; auto|]. split; [intro X; apply B1, hnames_In; auto|].
      split. { intros hs fs H1 H2 H3 H4. apply B2, SF. exists hs, fs. auto. }
      exists w. assert (Iw : In w [w]) by (left; auto). apply WI in Iw. tauto.
    + intros [H|(A & B & C & [w' (D1 & D2 & D3 & D4)])]; [left; auto|]. right.
      assert (Iw : In w' [w]) by (apply WI; auto). destruct Iw as [<-|[]].
      exists n. split; [subst; auto|]. apply filter_In. split; [apply names_In; auto|].
      apply andb_true_iff. split; apply negb_true_iff, zmem_false.
      * intro X. apply B, hnames_In; auto.
      * intro X. apply SF in X. destruct X as [hs [fs (X1 & X2 & X3 & X4)]]. eapply C; eauto.
Qed.
