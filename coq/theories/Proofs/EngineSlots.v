(* Slots (C01, second sentence): every CRunWorker command issued by a tick names a worker id that
   is in the step's in_progress list of the resulting state, and a slot is only released by the
   step-result tick of that very slot. *)
From Coq Require Import List ZArith Bool Lia PeanoNat.
Import ListNotations.
From WF Require Import Model.Engine Proofs.EngineCap.
Open Scope Z_scope.

Definition wids (w : wstate) : list nat := map i_wid (inprogress w).

Definition runs_in (step : Z) (w : wstate) (cs : list command) : Prop :=
  forall st e k, In (CRunWorker st e k) cs -> st = step /\ In k (wids w).

Definition sruns (ws : list (Z * wstate)) (cs : list command) : Prop :=
  forall st e k, In (CRunWorker st e k) cs -> exists w, In (st, w) ws /\ In k (wids w).

Definition ws_le (ws ws' : list (Z * wstate)) : Prop :=
  forall n w, In (n, w) ws -> exists w', In (n, w') ws' /\ incl (wids w) (wids w').

Lemma runs_in_nil step w : runs_in step w [].
Proof. intros st e k []. Qed.

Lemma runs_in_mono step w w' cs : runs_in step w cs -> incl (wids w) (wids w') -> runs_in step w' cs.
Proof. intros H I st e k Hin. destruct (H st e k Hin) as [-> Hk]. split; [reflexivity|apply I; exact Hk]. Qed.

Lemma runs_in_app step w c1 c2 : runs_in step w c1 -> runs_in step w c2 -> runs_in step w (c1 ++ c2).
Proof. intros H1 H2 st e k Hin. apply in_app_or in Hin. destruct Hin; [eapply H1|eapply H2]; eassumption. Qed.

Lemma ws_le_refl ws : ws_le ws ws.
Proof. intros n w H. exists w. split; [exact H|apply incl_refl]. Qed.

Lemma ws_le_trans a b c : ws_le a b -> ws_le b c -> ws_le a c.
Proof.
  intros H1 H2 n w Hin. destruct (H1 n w Hin) as [w1 [I1 L1]]. destruct (H2 n w1 I1) as [w2 [I2 L2]].
  exists w2. split; [exact I2|eapply incl_tran; eassumption].
Qed.

Lemma sruns_le ws ws' cs : sruns ws cs -> ws_le ws ws' -> sruns ws' cs.
Proof.
  intros H L st e k Hin. destruct (H st e k Hin) as [w [I Hk]]. destruct (L st w I) as [w' [I' L']].
  exists w'. split; [exact I'|apply L'; exact Hk].
Qed.

Lemma sruns_app ws c1 c2 : sruns ws c1 -> sruns ws c2 -> sruns ws (c1 ++ c2).
Proof. intros H1 H2 st e k Hin. apply in_app_or in Hin. destruct Hin; [eapply H1|eapply H2]; eassumption. Qed.

Lemma sruns_nil ws : sruns ws [].
Proof. intros st e k []. Qed.

(* ---------- add_or_enqueue / drain ---------- *)
Lemma aoe_runs step a w now w' cs :
  add_or_enqueue step a w now = Ok (w', cs) -> runs_in step w' cs /\ incl (wids w) (wids w').
Proof.
  unfold add_or_enqueue. destruct (Nat.ltb _ _).
  - destruct (first_free _ _ _) as [id|]; [|discriminate].
    intros H; inversion H; subst; clear H. unfold runs_in, wids; cbn [inprogress set_w]. rewrite map_app. split.
    + intros st e k [Hin|[Hin|[]]]; [|discriminate]. inversion Hin; subst. split; [reflexivity|].
      apply in_or_app. right. left. reflexivity.
    + apply incl_appl. apply incl_refl.
  - intros H; inversion H; subst; clear H. split.
    + intros st e k [Hin|[]]. discriminate.
    + apply incl_refl.
Qed.

Lemma drain_runs step fuel : forall w now w' cs,
  drain step w now fuel = Ok (w', cs) -> runs_in step w' cs /\ incl (wids w) (wids w').
Proof.
  induction fuel as [|f IH]; intros w now w' cs H; cbn [drain] in H.
  - inversion H; subst. split; [apply runs_in_nil|apply incl_refl].
  - destruct (queue w) as [|a q]; [inversion H; subst; split; [apply runs_in_nil|apply incl_refl]|].
    destruct (Nat.ltb _ _); [|inversion H; subst; split; [apply runs_in_nil|apply incl_refl]].
    destruct (add_or_enqueue _ _ _ _) as [[w1 c1]|] eqn:A; [|discriminate].
    destruct (drain step w1 now f) as [[w2 c2]|] eqn:D; [|discriminate].
    inversion H; subst; clear H.
    apply aoe_runs in A. destruct A as [A1 A2]. apply IH in D. destruct D as [D1 D2].
    split.
    + apply runs_in_app; [eapply runs_in_mono; eassumption|exact D1].
    + eapply incl_tran; [|exact D2]. exact A2.
Qed.

(* ---------- TAdd ---------- *)
Lemma waiter_pass_runs step e : forall todo done w now acc hit w' cs h,
  runs_in step w acc -> waiter_pass step e done todo w now acc hit = Ok (w', cs, h) ->
  runs_in step w' cs /\ incl (wids w) (wids w').
Proof.
  induction todo as [|wt rest IH]; intros done w now acc hit w' cs h Hr H; cbn [waiter_pass] in H.
  - inversion H; subst. split; [exact Hr|apply incl_refl].
  - destruct (negb (w_pending wt) && waiter_matches e wt).
    + destruct (add_or_enqueue _ _ _ _) as [[w2 c2]|] eqn:A; [|discriminate].
      apply aoe_runs in A. destruct A as [A1 A2].
      eapply IH in H.
      * destruct H as [H1 H2]. split; [exact H1|]. eapply incl_tran; [|exact H2]. exact A2.
      * apply runs_in_app; [|exact A1]. eapply runs_in_mono; [exact Hr|exact A2].
    + eapply IH; eassumption.
Qed.

Lemma add_waiters_runs e target : forall ws now ws' cs hits,
  add_waiters e target ws now = Ok (ws', cs, hits) -> sruns ws' cs /\ ws_le ws ws'.
Proof.
  induction ws as [|[n w] t IH]; intros now ws' cs hits H; cbn [add_waiters] in H.
  - inversion H; subst. split; [apply sruns_nil|apply ws_le_refl].
  - destruct (if target_ok target n then waiter_pass n e [] (waiters w) w now [] false else Ok (w, [], false))
      as [[[w1 c1] h1]|] eqn:W; [|discriminate].
    destruct (add_waiters e target t now) as [[[t1 c2] h2]|] eqn:R; [|discriminate].
    inversion H; subst; clear H.
    assert (runs_in n w1 c1 /\ incl (wids w) (wids w1)) as [W1 W2].
    { destruct (target_ok target n).
      - eapply waiter_pass_runs; [|exact W]. apply runs_in_nil.
      - inversion W; subst. split; [apply runs_in_nil|apply incl_refl]. }
    apply IH in R. destruct R as [R1 R2]. split.
    + intros st ev k Hin. apply in_app_or in Hin. destruct Hin as [Hin|Hin].
      * destruct (W1 st ev k Hin) as [-> Hk]. exists w1. split; [left; reflexivity|exact Hk].
      * destruct (R1 st ev k Hin) as [w' [I Hk]]. exists w'. split; [right; exact I|exact Hk].
    + intros n0 w0 [Hin|Hin].
      * inversion Hin; subst. exists w1. split; [left; reflexivity|exact W2].
      * destruct (R2 n0 w0 Hin) as [w' [I L]]. exists w'. split; [right; exact I|exact L].
Qed.

Lemma add_routes_runs a target skip : forall ws now ws' cs h,
  add_routes a target skip ws now = Ok (ws', cs, h) -> sruns ws' cs /\ ws_le ws ws'.
Proof.
  induction ws as [|[n w] t IH]; intros now ws' cs h H; cbn [add_routes] in H.
  - inversion H; subst. split; [apply sruns_nil|apply ws_le_refl].
  - destruct ((if negb (zmem n skip) && zmem (ety (a_ev a)) (accepts (w_cfg w)) && target_ok target n
               then add_or_enqueue n a w now else Ok (w, []))) as [[w1 c1]|] eqn:W; [|discriminate].
    destruct (add_routes a target skip t now) as [[[t1 c2] h2]|] eqn:R; [|discriminate].
    inversion H; subst; clear H.
    assert (runs_in n w1 c1 /\ incl (wids w) (wids w1)) as [W1 W2].
    { destruct (negb (zmem n skip) && zmem (ety (a_ev a)) (accepts (w_cfg w)) && target_ok target n).
      - eapply aoe_runs; exact W.
      - inversion W; subst. split; [apply runs_in_nil|apply incl_refl]. }
    apply IH in R. destruct R as [R1 R2]. split.
    + intros st ev k Hin. apply in_app_or in Hin. destruct Hin as [Hin|Hin].
      * destruct (W1 st ev k Hin) as [-> Hk]. exists w1. split; [left; reflexivity|exact Hk].
      * destruct (R1 st ev k Hin) as [w' [I Hk]]. exists w'. split; [right; exact I|exact Hk].
    + intros n0 w0 [Hin|Hin].
      * inversion Hin; subst. exists w1. split; [left; reflexivity|exact W2].
      * destruct (R2 n0 w0 Hin) as [w' [I L]]. exists w'. split; [right; exact I|exact L].
Qed.

Lemma process_add_runs a target s now s' cs :
  process_add a target s now = Ok (s', cs) -> sruns (workers s') cs /\ ws_le (workers s) (workers s').
Proof.
  unfold process_add. intros H.
  destruct (add_waiters _ _ _) as [[[ws1 c1] hits]|] eqn:W; [|discriminate].
  destruct (add_routes _ _ _ _ _) as [[[ws2 c2] routed]|] eqn:R; [|discriminate].
  inversion H; subst; clear H. cbn [workers with_workers].
  apply add_waiters_runs in W. destruct W as [W1 W2].
  apply add_routes_runs in R. destruct R as [R1 R2]. split.
  - apply sruns_app; [eapply sruns_le; eassumption|]. apply sruns_app; [exact R1|].
    intros st e k Hin.
    destruct (negb (match hits with [] => true | _ => false end) || routed); [destruct Hin|].
    destruct (zmem _ _); [destruct Hin|]. destruct Hin as [Hin|[]]. discriminate.
  - eapply ws_le_trans; eassumption.
Qed.

(* ---------- zupdate facts ---------- *)
Lemma zupdate_in {A} k (v : A) l : In (k, v) (zupdate k v l).
Proof.
  induction l as [|[k' v'] t IH]; cbn; [left; reflexivity|].
  destruct (Z.eqb k k'); [left; reflexivity|right; exact IH].
Qed.

Lemma zupdate_other_in {A} k (v : A) l n x : n <> k -> In (n, x) l -> In (n, x) (zupdate k v l).
Proof.
  intros Hne. induction l as [|[k' v'] t IH]; cbn; intros Hin; [destruct Hin|].
  destruct (Z.eqb_spec k k') as [->|Hk].
  - destruct Hin as [Hin|Hin]; [inversion Hin; subst; contradiction|right; exact Hin].
  - destruct Hin as [Hin|Hin]; [left; exact Hin|right; apply IH; exact Hin].
Qed.

Lemma ws_le_put step w w2 ws :
  NoDup (map fst ws) -> zlookup step ws = Some w -> incl (wids w) (wids w2) ->
  ws_le ws (zupdate step w2 ws).
Proof.
  intros ND L I n w0 Hin. destruct (Z.eq_dec n step) as [->|Hne].
  - pose proof (zlookup_nodup _ _ _ ND Hin) as L'. rewrite L in L'. inversion L'; subst.
    exists w2. split; [apply zupdate_in|exact I].
  - exists w0. split; [apply zupdate_other_in; assumption|apply incl_refl].
Qed.

(* ---------- TStep ---------- *)
Lemma replace_ip_wids' i' l : map i_wid (replace_ip i' l) = map i_wid l.
Proof. exact (replace_ip_wids i' l). Qed.

Lemma remove_ip_keeps wid k l : k <> wid -> In k (map i_wid l) -> In k (map i_wid (remove_ip wid l)).
Proof.
  intros Hne. induction l as [|i t IH]; cbn; intros Hin; [exact Hin|].
  destruct (Nat.eqb_spec (i_wid i) wid) as [E|E].
  - destruct Hin as [Hin|Hin]; [congruence|exact Hin].
  - cbn. destruct Hin as [Hin|Hin]; [left; exact Hin|right; apply IH; exact Hin].
Qed.

Lemma find_ip_wid wid l i : find_ip wid l = Some i -> i_wid i = wid /\ In wid (map i_wid l).
Proof.
  induction l as [|j t IH]; cbn; [discriminate|].
  destruct (Nat.eqb_spec (i_wid j) wid) as [E|E]; intros H.
  - inversion H; subst. split; [reflexivity|left; reflexivity].
  - destruct (IH H) as [H1 H2]. split; [exact H1|right; exact H2].
Qed.

(* invariant of the result loop, relative to the tick's step/worker and the initial state *)
Record acc_ok (step : Z) (wid : nat) (w : wstate) (ws : list (Z * wstate)) (a : acc) : Prop := {
  ok_wids : wids (k_w a) = wids w ;
  ok_this : i_wid (k_this a) = wid ;
  ok_cmds : forall st e k, In (CRunWorker st e k) (k_cmds a) -> st = step /\ k = wid /\ k_keep a = true ;
  ok_others : forall n w0, In (n, w0) ws -> n <> step ->
              exists w', In (n, w') (workers (k_state a)) /\ wids w' = wids w0 }.

Lemma in_app_single {A} (x y : A) l : In x (l ++ [y]) -> In x l \/ x = y.
Proof. intros H. apply in_app_or in H. destruct H as [H|[H|[]]]; [left; exact H|right; symmetry; exact H]. Qed.

Lemma acc_ok_same step wid w ws a a' :
  acc_ok step wid w ws a ->
  wids (k_w a') = wids (k_w a) -> i_wid (k_this a') = i_wid (k_this a) ->
  (forall st e k, In (CRunWorker st e k) (k_cmds a') ->
     In (CRunWorker st e k) (k_cmds a) \/ (st = step /\ k = wid /\ k_keep a' = true)) ->
  (k_keep a = true -> k_keep a' = true) ->
  (workers (k_state a') = workers (k_state a) \/
   exists v, workers (k_state a') = map (fun p => (fst p, clear_cw (snd p))) (zupdate step v (workers (k_state a)))) ->
  acc_ok step wid w ws a'.
Proof.
  intros [Hw Ht Hc Ho] E1 E2 E3 E4 E5. constructor.
  - rewrite E1. exact Hw.
  - rewrite E2. exact Ht.
  - intros st e k Hin. destruct (E3 st e k Hin) as [H|H]; [|exact H].
    destruct (Hc st e k H) as [H1 [H2 H3]]. auto.
  - intros n w0 Hin Hne. destruct (Ho n w0 Hin Hne) as [w' [I E]]. destruct E5 as [->|[v ->]].
    + exists w'. split; assumption.
    + exists (clear_cw w'). split; [|exact E].
      apply in_map_iff. exists (n, w'). split; [reflexivity|]. apply zupdate_other_in; assumption.
Qed.

Ltac crun_in Hin :=
  repeat (apply in_app_or in Hin; destruct Hin as [Hin|Hin]);
  try (left; exact Hin);
  try (cbn [In] in Hin; repeat (destruct Hin as [Hin|Hin]; try discriminate Hin); try contradiction).

Lemma one_result_ok P step wid w ws tev dc now a r a' :
  acc_ok step wid w ws a -> one_result P step tev dc now a r = Ok a' -> acc_ok step wid w ws a'.
Proof.
  intros Hok H. pose proof Hok as [Hw Ht Hc Ho]. unfold one_result in H.
  break_match H; try discriminate; inversion H; subst; clear H; try exact Hok;
    (eapply acc_ok_same; [exact Hok| | | | |]; cbn [k_w k_this k_cmds k_keep k_state workers with_workers];
     [ unfold wids; cbn [inprogress set_w clear_cw]; rewrite ?replace_ip_wids'; reflexivity
     | cbn [i_wid with_snap]; reflexivity
     | intros st e0 k Hin; crun_in Hin
     | auto
     | try (left; reflexivity) ]).
  all: try (right; eexists; reflexivity).
  (* collect re-run: CRunWorker on the tick's own slot, keep = true *)
  all: try (right; inversion Hin; subst; auto).
Qed.

Lemma results_loop_ok P step wid w ws tev dc now : forall rs a a',
  acc_ok step wid w ws a -> results_loop P step tev dc now a rs = Ok a' -> acc_ok step wid w ws a'.
Proof.
  induction rs as [|r t IH]; intros a a' Hi H; cbn [results_loop] in H.
  - inversion H; subst; exact Hi.
  - destruct (one_result P step tev dc now a r) as [a1|] eqn:O; [|discriminate].
    eapply IH; [|exact H]. eapply one_result_ok; eassumption.
Qed.

Definition keeps_except (step : Z) (wid : nat) (ws ws' : list (Z * wstate)) : Prop :=
  forall n w0 k, In (n, w0) ws -> In k (wids w0) -> ~ (n = step /\ k = wid) ->
  exists w', In (n, w') ws' /\ In k (wids w').

Lemma process_step_runs P step wid tev rs s now s' cs :
  Keys_ok s -> process_step P step wid tev rs s now = Ok (s', cs) ->
  sruns (workers s') cs /\ keeps_except step wid (workers s) (workers s').
Proof.
  unfold process_step, Keys_ok. intros ND H.
  destruct (zlookup step (workers s)) as [w|] eqn:L; [|discriminate].
  destruct (find_ip wid (inprogress w)) as [this|] eqn:F; [|discriminate].
  destruct (results_loop _ _ _ _ _ _ _) as [a|] eqn:RL; [|discriminate].
  destruct (find_ip_wid _ _ _ F) as [Fw Fin].
  assert (acc_ok step wid w (workers s) a) as [Hw Ht Hc Ho].
  { eapply results_loop_ok; [|exact RL]. constructor; cbn.
    - reflexivity.
    - exact Fw.
    - intros st e k [].
    - intros n w0 Hin Hne. exists w0. split; [exact Hin|reflexivity]. }
  (* the worker after the optional removal *)
  set (w2 := if k_keep a then k_w a
             else set_w (k_w a) (queue (k_w a)) (remove_ip wid (inprogress (k_w a))) (collected (k_w a)) (waiters (k_w a))).
  set (cmds := if k_keep a then k_cmds a
               else CPublish (PStep step NotRunning (Some wid) (ety tev) (k_out a)) :: k_cmds a).
  assert (H' : (if existsb is_exit (k_cmds a) then Ok (put_w step w2 (k_state a), cmds)
                else match drain step w2 now (length (queue w2)) with
                     | Err c => Err c
                     | Ok (w3, c3) => Ok (put_w step w3 (k_state a), cmds ++ c3) end) = Ok (s', cs)).
  { subst w2 cmds. destruct (k_keep a); exact H. }
  clear H.
  assert (Hcm : runs_in step w2 cmds).
  { intros st e k Hin. subst cmds w2. destruct (k_keep a) eqn:K.
    - destruct (Hc st e k Hin) as [-> [-> _]]. split; [reflexivity|]. rewrite Hw. exact Fin.
    - destruct Hin as [Hin|Hin]; [discriminate|]. destruct (Hc st e k Hin) as [_ [_ X]]. discriminate. }
  assert (Hk2 : forall k, In k (wids w) -> k <> wid -> In k (wids w2)).
  { intros k Hk Hne. subst w2. destruct (k_keep a).
    - rewrite Hw. exact Hk.
    - unfold wids; cbn [inprogress set_w]. apply remove_ip_keeps; [exact Hne|]. fold (wids (k_w a)). rewrite Hw. exact Hk. }
  assert (Hfin : forall w3 c3, runs_in step w3 c3 -> incl (wids w2) (wids w3) ->
            sruns (workers (put_w step w3 (k_state a))) (cmds ++ c3) /\
            keeps_except step wid (workers s) (workers (put_w step w3 (k_state a)))).
  { intros w3 c3 R3 I3. unfold put_w; cbn [workers with_workers]. split.
    - intros st e k Hin. apply in_app_or in Hin. exists w3.
      destruct Hin as [Hin|Hin].
      + destruct (Hcm st e k Hin) as [-> Hk]. split; [apply zupdate_in|apply I3; exact Hk].
      + destruct (R3 st e k Hin) as [-> Hk]. split; [apply zupdate_in|exact Hk].
    - intros n w0 k Hin Hk Hnot. destruct (Z.eq_dec n step) as [->|Hne].
      + pose proof (zlookup_nodup _ _ _ ND Hin) as L'. rewrite L in L'. inversion L'; subst.
        exists w3. split; [apply zupdate_in|]. apply I3. apply Hk2; [exact Hk|].
        intros ->. apply Hnot. split; reflexivity.
      + destruct (Ho n w0 Hin Hne) as [w' [I E]]. exists w'. split; [apply zupdate_other_in; assumption|].
        rewrite E. exact Hk. }
  destruct (existsb is_exit (k_cmds a)).
  - inversion H'; subst; clear H'. specialize (Hfin w2 [] (runs_in_nil _ _) (incl_refl _)).
    rewrite app_nil_r in Hfin. exact Hfin.
  - destruct (drain _ _ _ _) as [[w3 c3]|] eqn:D; [|discriminate].
    inversion H'; subst; clear H'. apply drain_runs in D. destruct D as [D1 D2]. apply Hfin; assumption.
Qed.

Lemma ws_le_keeps step wid ws ws' : ws_le ws ws' -> keeps_except step wid ws ws'.
Proof.
  intros L n w0 k Hin Hk _. destruct (L n w0 Hin) as [w' [I Hi]]. exists w'. split; [exact I|apply Hi; exact Hk].
Qed.

(* ---------- TWaiterTimeout ---------- *)
Lemma process_waiter_timeout_runs step wid s now s' cs :
  Keys_ok s -> process_waiter_timeout step wid s now = Ok (s', cs) ->
  sruns (workers s') cs /\ ws_le (workers s) (workers s').
Proof.
  unfold process_waiter_timeout, Keys_ok. intros ND H.
  destruct (zlookup step (workers s)) as [w|] eqn:L;
    [|inversion H; subst; split; [apply sruns_nil|apply ws_le_refl]].
  destruct (find_waiter_idx _ _ _) as [k|]; [|inversion H; subst; split; [apply sruns_nil|apply ws_le_refl]].
  destruct (nth_error _ _) as [wt|]; [|inversion H; subst; split; [apply sruns_nil|apply ws_le_refl]].
  destruct (w_resolved wt); [inversion H; subst; split; [apply sruns_nil|apply ws_le_refl]|].
  destruct (add_or_enqueue _ _ _ _) as [[w2 c2]|] eqn:A; [|discriminate].
  inversion H; subst; clear H. apply aoe_runs in A. destruct A as [A1 A2].
  unfold put_w; cbn [workers with_workers]. split.
  - intros st e k0 Hin. destruct (A1 st e k0 Hin) as [-> Hk]. exists w2. split; [apply zupdate_in|exact Hk].
  - eapply ws_le_put; [exact ND|exact L|exact A2].
Qed.

(* ---------- reduce ---------- *)
Lemma sruns_snoc_idle ws cs (b : bool) : sruns ws cs -> sruns ws (if b then cs ++ [CSchedIdle] else cs).
Proof.
  intros H. destruct b; [|exact H]. apply sruns_app; [exact H|]. intros st e k [Hin|[]]. discriminate.
Qed.

Definition tick_releases (t : tick) (n : Z) (k : nat) : Prop :=
  exists e rs, t = TStep n k e rs.

Ltac no_runs :=
  let st := fresh "st" in let e := fresh "e" in let k := fresh "k" in let Hin := fresh "Hin" in
  intros st e k Hin;
  repeat match type of Hin with context [if ?b then _ else _] => destruct b end;
  cbn [In app] in Hin; repeat (destruct Hin as [Hin|Hin]; try discriminate Hin); try contradiction.

Lemma reduce_runs P t s now s' cs :
  Keys_ok s -> reduce P t s now = Ok (s', cs) ->
  sruns (workers s') cs /\
  (forall n w0 k, In (n, w0) (workers s) -> In k (wids w0) -> ~ tick_releases t n k ->
     exists w', In (n, w') (workers s') /\ In k (wids w')).
Proof.
  intros ND H. unfold reduce in H. destruct t.
  - destruct (process_add _ _ _ _) as [[s1 c1]|] eqn:E; [|discriminate].
    inversion H; subst; clear H. apply process_add_runs in E. destruct E as [E1 E2]. split.
    + apply sruns_snoc_idle. exact E1.
    + intros n w0 k Hin Hk _. destruct (E2 n w0 Hin) as [w' [I Hi]]. exists w'. split; [exact I|apply Hi; exact Hk].
  - destruct (process_step _ _ _ _ _ _ _) as [[s1 c1]|] eqn:E; [|discriminate].
    inversion H; subst; clear H. apply process_step_runs in E; [|exact ND]. destruct E as [E1 E2]. split.
    + apply sruns_snoc_idle. exact E1.
    + intros n w0 k Hin Hk Hnot. apply (E2 n w0 k Hin Hk).
      intros [-> ->]. apply Hnot. exists e, rs. reflexivity.
  - inversion H; subst; clear H. split; [no_runs|].
    intros n w0 k Hin Hk _. exists w0. split; assumption.
  - inversion H; subst; clear H. split; [no_runs|].
    intros n w0 k Hin Hk _. exists w0. split; assumption.
  - inversion H; subst; clear H. cbn [workers with_workers]. split; [no_runs|].
    intros n w0 k Hin Hk _. exists w0. split; assumption.
  - destruct (process_waiter_timeout _ _ _ _) as [[s1 c1]|] eqn:E; [|discriminate].
    inversion H; subst; clear H. apply process_waiter_timeout_runs in E; [|exact ND]. destruct E as [E1 E2]. split.
    + apply sruns_snoc_idle. exact E1.
    + intros n w0 k Hin Hk _. destruct (E2 n w0 Hin) as [w' [I Hi]]. exists w'. split; [exact I|apply Hi; exact Hk].
  - inversion H; subst; clear H. split; [no_runs|].
    intros n w0 k Hin Hk _. exists w0. split; assumption.
  - inversion H; subst; clear H. split; [no_runs|].
    intros n w0 k Hin Hk _. exists w0. split; assumption.
Qed.

Theorem reduce_runs_in_progress P t s now s' cs step e wid :
  Keys_ok s -> reduce P t s now = Ok (s', cs) -> In (CRunWorker step e wid) cs ->
  exists w, In (step, w) (workers s') /\ In wid (map i_wid (inprogress w)).
Proof. intros ND H Hin. destruct (reduce_runs _ _ _ _ _ _ ND H) as [R _]. exact (R step e wid Hin). Qed.

Theorem reduce_runs_slot_in_range P t s now s' cs step e wid :
  Keys_ok s -> Inv_state s -> reduce P t s now = Ok (s', cs) -> In (CRunWorker step e wid) cs ->
  exists w, In (step, w) (workers s') /\ (wid < nworkers (w_cfg w))%nat /\
            (length (inprogress w) <= nworkers (w_cfg w))%nat /\ NoDup (map i_wid (inprogress w)).
Proof.
  intros ND Hi H Hin. destruct (reduce_runs_in_progress _ _ _ _ _ _ _ _ _ ND H Hin) as [w [I Hk]].
  pose proof (reduce_cap _ _ _ _ _ _ Hi H) as Hi'. unfold Inv_state, Inv_ws in Hi'.
  rewrite Forall_forall in Hi'. specialize (Hi' (step, w) I). cbn in Hi'. destruct Hi' as [H1 [H2 H3]].
  exists w. repeat split; try assumption.
  rewrite Forall_forall in H3. apply in_map_iff in Hk. destruct Hk as [i [<- Hi0]]. apply H3. exact Hi0.
Qed.

Theorem reduce_keeps_other_slots P t s now s' cs n w k :
  Keys_ok s -> reduce P t s now = Ok (s', cs) -> In (n, w) (workers s) ->
  In k (map i_wid (inprogress w)) ->
  (forall e rs, t <> TStep n k e rs) ->
  exists w', In (n, w') (workers s') /\ In k (map i_wid (inprogress w')).
Proof.
  intros ND H Hin Hk Hnot. destruct (reduce_runs _ _ _ _ _ _ ND H) as [_ K].
  apply (K n w k Hin Hk). intros [e [rs ->]]. exact (Hnot e rs eq_refl).
Qed.

Theorem rebuild_cap P s ts now s' : Keys_ok s -> rebuild P s ts now = Ok s' -> Inv_state s'.
Proof.
  unfold rebuild. intros ND H. destruct (rewind s now) as [[s1 c1]|] eqn:R; [|discriminate].
  eapply fold_ticks_cap; [|exact H]. eapply rewind_cap; eassumption.
Qed.
