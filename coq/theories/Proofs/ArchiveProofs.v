(* Proofs about M-Archive (C33). *)
From Coq Require Import List ZArith Bool Ascii String Lia.
Import ListNotations.
From WF Require Import Generated Model.Archive.
Open Scope Z_scope.

(* ---------- strings ---------- *)
Lemma str_eqb_refl : forall a, str_eqb a a = true.
Proof. induction a as [|x a IH]; cbn; [reflexivity|]. rewrite Ascii.eqb_refl, IH. reflexivity. Qed.

Lemma str_eqb_eq : forall a b, str_eqb a b = true <-> a = b.
Proof.
  induction a as [|x a IH]; destruct b as [|y b]; cbn; split; intro H; try reflexivity; try discriminate.
  - apply andb_true_iff in H. destruct H as [H1 H2]. apply Ascii.eqb_eq in H1. apply IH in H2. congruence.
  - inversion H; subst. rewrite Ascii.eqb_refl. apply str_eqb_refl.
Qed.

Lemma str_eqb_neq : forall a b, a <> b -> str_eqb a b = false.
Proof. intros a b H. destruct (str_eqb a b) eqn:E; [|reflexivity]. apply str_eqb_eq in E. contradiction. Qed.

Lemma prefix_b_refl_app : forall p l, prefix_b p (p ++ l)%list = true.
Proof. induction p as [|x p IH]; intro l; cbn; [reflexivity|]. rewrite Ascii.eqb_refl. apply IH. Qed.

Lemma prefix_b_in : forall p l c, prefix_b p l = true -> In c p -> In c l.
Proof.
  induction p as [|x p IH]; intros l c H Hin; [inversion Hin|].
  destruct l as [|y l]; cbn in H; [discriminate|]. apply andb_true_iff in H. destruct H as [H1 H2].
  apply Ascii.eqb_eq in H1. subst y. destruct Hin as [->|Hin]; [left; reflexivity|right; eapply IH; eauto].
Qed.

(* a pattern whose last character does not occur in m cannot reach into m *)
Lemma prefix_snoc_notin : forall a c b m,
  ~ In c m -> prefix_b (a ++ [c])%list (b ++ m)%list = prefix_b (a ++ [c])%list b.
Proof.
  induction a as [|x a IH]; intros c b m Hn.
  - destruct b as [|y b]; cbn; [|reflexivity].
    destruct m as [|z m]; [reflexivity|]. cbn.
    destruct (Ascii.eqb c z) eqn:E; [|reflexivity]. apply Ascii.eqb_eq in E. exfalso. apply Hn. left. congruence.
  - destruct b as [|y b].
    + cbn [app]. destruct (prefix_b (x :: a ++ [c])%list m) eqn:E; [|reflexivity].
      exfalso. apply Hn. apply (prefix_b_in _ _ c E). right. apply in_or_app. right. left. reflexivity.
    + cbn. rewrite IH by exact Hn. reflexivity.
Qed.

Definition dot : ascii := "."%char.
Definition dotfree (n : str) : Prop := ~ In dot n.

Lemma ends_with_dotfree : forall n w s',
  dotfree n -> ends_with (n ++ w)%list (dot :: s') = ends_with w (dot :: s').
Proof.
  intros n w s' H. unfold ends_with. rewrite rev_app_distr. cbn [rev].
  apply prefix_snoc_notin. intro Hin. apply H. apply in_rev. exact Hin.
Qed.

Lemma ends_with_self : forall n w, ends_with (n ++ w)%list w = true.
Proof. intros n w. unfold ends_with. rewrite rev_app_distr. apply prefix_b_refl_app. Qed.

Lemma firstn_app_exact : forall (A : Type) (a b : list A), firstn (List.length a) (a ++ b)%list = a.
Proof. intros A a b. induction a as [|x a IH]; cbn; [destruct b; reflexivity|]. rewrite IH. reflexivity. Qed.

Lemma skipn_app_exact : forall (A : Type) (a b : list A), skipn (List.length a) (a ++ b)%list = b.
Proof. intros A a b. induction a as [|x a IH]; cbn; [reflexivity|exact IH]. Qed.

Lemma remove_suffix_app : forall n w, remove_suffix (n ++ w)%list w = n.
Proof.
  intros n w. unfold remove_suffix. rewrite app_length.
  replace (List.length n + List.length w - List.length w)%nat with (List.length n) by lia.
  apply firstn_app_exact.
Qed.

(* ---------- the dispatch table ---------- *)
Lemma classify_with_ext : forall t f g,
  (forall s k, In (s, k) t -> f s = g s) -> classify_with f t = classify_with g t.
Proof.
  induction t as [|[s k] t IH]; intros f g H; cbn; [reflexivity|].
  rewrite (H s k (or_introl eq_refl)). destruct (g s); [reflexivity|].
  apply IH. intros s0 k0 Hin. apply (H s0 k0). right. exact Hin.
Qed.

Definition starts_with_dot (s : str) : bool := match s with c :: _ => Ascii.eqb c dot | [] => false end.

Lemma table_dotted : forallb (fun p => starts_with_dot (fst p)) dispatch_table = true.
Proof. vm_compute. reflexivity. Qed.

Lemma classify_dotfree : forall n w,
  dotfree n -> classify (n ++ w)%list = classify_with (ends_with w) dispatch_table.
Proof.
  intros n w H. unfold classify. apply classify_with_ext. intros s k Hin.
  pose proof table_dotted as T. rewrite forallb_forall in T. specialize (T (s, k) Hin). cbn in T.
  destruct s as [|c s']; [discriminate|]. cbn in T. apply Ascii.eqb_eq in T. subst c.
  apply ends_with_dotfree. exact H.
Qed.

(* every file name written by create is classified as what it was written as *)
Lemma classify_cr : forall n, dotfree n -> classify (n ++ wsuf "cr")%list = Some (wsuf "cr", KCr).
Proof. intros n H. rewrite classify_dotfree by exact H. vm_compute. reflexivity. Qed.
Lemma classify_secret_enc : forall n, dotfree n ->
  classify (n ++ wsuf "secret_enc")%list = Some (wsuf "secret_enc", KSecretEnc).
Proof. intros n H. rewrite classify_dotfree by exact H. vm_compute. reflexivity. Qed.
Lemma classify_secret_yaml : forall n, dotfree n ->
  classify (n ++ wsuf "secret_yaml")%list = Some (wsuf "secret_yaml", KSecretYaml).
Proof. intros n H. rewrite classify_dotfree by exact H. vm_compute. reflexivity. Qed.
Lemma classify_meta : forall n, dotfree n -> classify (n ++ wsuf "meta")%list = Some (wsuf "meta", KMeta).
Proof. intros n H. rewrite classify_dotfree by exact H. vm_compute. reflexivity. Qed.

Lemma not_manifest : forall n w,
  ends_with manifest_name_read w = false -> str_eqb (n ++ w)%list manifest_name_read = false.
Proof.
  intros n w H. destruct (str_eqb (n ++ w)%list manifest_name_read) eqn:E; [|reflexivity].
  apply str_eqb_eq in E. pose proof (ends_with_self n w) as S. rewrite E in S. congruence.
Qed.

Lemma manifest_names_agree : str_eqb manifest_name_written manifest_name_read = true.
Proof. vm_compute. reflexivity. Qed.

(* ---------- dictionaries ---------- *)
Section Dict.
Context {X : Type}.

Lemma aset_fresh : forall k (v : X) l, aget k l = None -> aset k v l = (l ++ [(k, v)])%list.
Proof.
  induction l as [|[k' v'] l IH]; cbn; intro H; [reflexivity|].
  destruct (str_eqb k k'); [discriminate|]. rewrite IH by exact H. reflexivity.
Qed.

Lemma aget_app : forall k (l l' : list (str * X)),
  aget k (l ++ l')%list = match aget k l with Some v => Some v | None => aget k l' end.
Proof.
  induction l as [|[k' v'] l IH]; intro l'; cbn; [reflexivity|].
  destruct (str_eqb k k'); [reflexivity|apply IH].
Qed.
End Dict.

(* entries collected from a list of documents, keyed by a name function without repetitions *)
Section Collected.
Context {D X : Type}.
Variable name : D -> str.
Variable f : D -> option X.

Definition collected (ds : list D) : list (str * X) :=
  flat_map (fun d => match f d with Some x => [(name d, x)] | None => [] end) ds.

Lemma collected_absent : forall ds n, ~ In n (map name ds) -> aget n (collected ds) = None.
Proof.
  induction ds as [|d ds IH]; intros n H; cbn; [reflexivity|].
  cbn in H. rewrite aget_app. destruct (f d) as [x|]; cbn.
  - rewrite str_eqb_neq by (intro E; apply H; left; congruence). apply IH. tauto.
  - apply IH. tauto.
Qed.

Lemma collected_get : forall ds d, NoDup (map name ds) -> In d ds -> aget (name d) (collected ds) = f d.
Proof.
  induction ds as [|c ds IH]; intros d ND Hin; [inversion Hin|].
  cbn in ND. inversion ND as [|? ? Hn ND']; subst. cbn. rewrite aget_app. destruct Hin as [->|Hin].
  - destruct (f d) as [x|]; cbn.
    + rewrite str_eqb_refl. reflexivity.
    + apply collected_absent. exact Hn.
  - assert (Ne : name d <> name c).
    { intro E. apply Hn. rewrite <- E. apply in_map. exact Hin. }
    destruct (f c) as [x|]; cbn.
    + rewrite str_eqb_neq by exact Ne. apply IH; assumption.
    + apply IH; assumption.
Qed.
End Collected.

(* ---------- create / read ---------- *)
Section RoundTrip.
Variables bytes doc pwd rand : Type.
Variable doc_name : doc -> str.
Variable ydump : doc -> bytes.
Variable yload : bytes -> option doc.
Variable mdump : manifest -> bytes.
Variable mload : bytes -> option manifest.
Variable gdump : Z -> bytes.
Variable gload : bytes -> option (option Z).
Variable enc : pwd -> rand -> bytes -> bytes.
Variable dec : pwd -> bytes -> dres bytes.
Variable pw_nonempty : pwd -> bool.

Hypothesis yaml_roundtrip : forall d, yload (ydump d) = Some d.
Hypothesis manifest_roundtrip : forall m, mload (mdump m) = Some m.
Hypothesis generation_roundtrip : forall g, gload (gdump g) = Some (Some g).
Hypothesis aead_roundtrip : forall p r b, dec p (enc p r b) = DOk b.

Notation member := (member bytes).
Notation rstate := (rstate doc).
Notation read_step := (read_step bytes doc pwd yload mload gload dec).
Notation read_member := (read_member bytes doc pwd yload mload gload dec).
Notation files_of := (files_of bytes doc pwd rand doc_name ydump gdump enc pw_nonempty).
Notation create := (create bytes doc pwd rand doc_name ydump mdump gdump enc pw_nonempty).
Notation read := (read bytes doc pwd yload mload gload dec).
Notation expected_entries := (expected_entries doc doc_name).

Lemma read_step_ok : forall pw st m, read_step pw (Ok st) m = read_member pw st m.
Proof. reflexivity. Qed.

Definition fresh (n : str) (st : rstate) : Prop :=
  aget n (r_crs doc st) = None /\ aget n (r_secs doc st) = None /\ aget n (r_metas doc st) = None.

Lemma read_cr_file : forall pw st n cr, dotfree n ->
  read_member pw st ((n ++ wsuf "cr")%list, true, ydump cr)
  = Ok (mkR doc (r_manifest doc st) (aset n cr (r_crs doc st)) (r_secs doc st) (r_metas doc st)).
Proof.
  intros pw st n cr H. unfold Archive.read_member. cbn [negb].
  rewrite not_manifest by (vm_compute; reflexivity).
  rewrite classify_cr by exact H. rewrite remove_suffix_app, yaml_roundtrip. reflexivity.
Qed.

Lemma read_meta_file : forall pw st n g, dotfree n ->
  read_member pw st ((n ++ wsuf "meta")%list, true, gdump g)
  = Ok (mkR doc (r_manifest doc st) (r_crs doc st) (r_secs doc st) (aset n (Some g) (r_metas doc st))).
Proof.
  intros pw st n g H. unfold Archive.read_member. cbn [negb].
  rewrite not_manifest by (vm_compute; reflexivity).
  rewrite classify_meta by exact H. rewrite remove_suffix_app, generation_roundtrip. reflexivity.
Qed.

Lemma read_secret_file_same_pw : forall pw rnd st n sd, dotfree n ->
  read_member pw st (secret_file bytes doc pwd rand ydump enc pw_nonempty pw rnd n sd)
  = Ok (mkR doc (r_manifest doc st) (r_crs doc st) (aset n sd (r_secs doc st)) (r_metas doc st)).
Proof.
  intros pw rnd st n sd H. unfold secret_file.
  assert (P : forall pw', read_member pw' st ((n ++ wsuf "secret_yaml")%list, true, ydump sd)
              = Ok (mkR doc (r_manifest doc st) (r_crs doc st) (aset n sd (r_secs doc st)) (r_metas doc st))).
  { intro pw'. unfold Archive.read_member. cbn [negb]. rewrite not_manifest by (vm_compute; reflexivity).
    rewrite classify_secret_yaml by exact H. rewrite remove_suffix_app, yaml_roundtrip. reflexivity. }
  destruct pw as [p|]; [|apply P].
  destruct (encrypts pwd pw_nonempty (Some p)); [|apply P].
  unfold Archive.read_member. cbn [negb]. rewrite not_manifest by (vm_compute; reflexivity).
  rewrite classify_secret_enc by exact H. rewrite remove_suffix_app, aead_roundtrip, yaml_roundtrip. reflexivity.
Qed.

Definition sec_entries secrets (ds : list doc) : list (str * doc) :=
  collected doc_name (fun cr => aget (doc_name cr) secrets) ds.
Definition meta_entries gens (ds : list doc) : list (str * option Z) :=
  collected doc_name (fun cr => option_map Some (gen_lookup gens (doc_name cr))) ds.

Lemma read_files_of : forall secrets gens pw rnd cr st,
  dotfree (doc_name cr) -> fresh (doc_name cr) st ->
  fold_left (read_step pw) (files_of secrets gens pw rnd cr) (Ok st)
  = Ok (mkR doc (r_manifest doc st)
            (r_crs doc st ++ [(doc_name cr, cr)])
            (r_secs doc st ++ sec_entries secrets [cr])
            (r_metas doc st ++ meta_entries gens [cr]))%list.
Proof.
  intros secrets gens pw rnd cr st Hd [F1 [F2 F3]]. unfold Archive.files_of, sec_entries, meta_entries, collected.
  cbn [flat_map]. rewrite !app_nil_r.
  set (n := doc_name cr) in *.
  cbn [fold_left app]. rewrite read_step_ok. rewrite read_cr_file by exact Hd.
  rewrite (aset_fresh n cr _ F1).
  destruct (aget n secrets) as [sd|]; destruct (gen_lookup gens n) as [g|]; cbn [app fold_left option_map].
  - rewrite read_step_ok. rewrite read_secret_file_same_pw by exact Hd. cbn [r_manifest r_crs r_secs r_metas].
    rewrite read_step_ok. rewrite read_meta_file by exact Hd. cbn [r_manifest r_crs r_secs r_metas].
    rewrite (aset_fresh n sd _ F2), (aset_fresh n (Some g) _ F3). reflexivity.
  - rewrite read_step_ok. rewrite read_secret_file_same_pw by exact Hd. cbn [r_manifest r_crs r_secs r_metas].
    rewrite (aset_fresh n sd _ F2), app_nil_r. reflexivity.
  - rewrite read_step_ok. rewrite read_meta_file by exact Hd. cbn [r_manifest r_crs r_secs r_metas].
    rewrite (aset_fresh n (Some g) _ F3), app_nil_r. reflexivity.
  - rewrite !app_nil_r. reflexivity.
Qed.

Lemma aget_single_other : forall (X : Type) n n' (v : X), n' <> n -> aget n' [(n, v)] = None.
Proof. intros X n n' v H. cbn. rewrite str_eqb_neq by exact H. reflexivity. Qed.

Lemma fresh_after : forall secrets gens cr st n',
  n' <> doc_name cr -> fresh n' st ->
  fresh n' (mkR doc (r_manifest doc st)
                (r_crs doc st ++ [(doc_name cr, cr)])
                (r_secs doc st ++ sec_entries secrets [cr])
                (r_metas doc st ++ meta_entries gens [cr]))%list.
Proof.
  intros secrets gens cr st n' Ne [F1 [F2 F3]]. unfold fresh. cbn [r_crs r_secs r_metas].
  rewrite !aget_app, F1, F2, F3. unfold sec_entries, meta_entries, collected. cbn [flat_map]. rewrite !app_nil_r.
  split; [apply aget_single_other; exact Ne|]. split.
  - destruct (aget (doc_name cr) secrets); [apply aget_single_other; exact Ne|reflexivity].
  - destruct (gen_lookup gens (doc_name cr)); cbn; [rewrite str_eqb_neq by exact Ne|]; reflexivity.
Qed.

Lemma collected_cons : forall (X : Type) (f : doc -> option X) c ds,
  collected doc_name f (c :: ds) = (collected doc_name f [c] ++ collected doc_name f ds)%list.
Proof. intros X f c ds. unfold collected. cbn [flat_map]. rewrite app_nil_r. reflexivity. Qed.

Lemma read_deps : forall secrets gens pw rnd deps st,
  NoDup (map doc_name deps) ->
  (forall cr, In cr deps -> dotfree (doc_name cr)) ->
  (forall cr, In cr deps -> fresh (doc_name cr) st) ->
  fold_left (read_step pw) (flat_map (files_of secrets gens pw rnd) deps) (Ok st)
  = Ok (mkR doc (r_manifest doc st)
            (r_crs doc st ++ map (fun cr => (doc_name cr, cr)) deps)
            (r_secs doc st ++ sec_entries secrets deps)
            (r_metas doc st ++ meta_entries gens deps))%list.
Proof.
  intros secrets gens pw rnd deps. induction deps as [|c deps IH]; intros st ND Hd Hf.
  - cbn. unfold sec_entries, meta_entries, collected. cbn. rewrite !app_nil_r. destruct st; reflexivity.
  - cbn [flat_map]. rewrite fold_left_app.
    rewrite read_files_of; [|apply Hd; left; reflexivity|apply Hf; left; reflexivity].
    cbn in ND. inversion ND as [|? ? Hn ND']; subst.
    rewrite IH; [| exact ND' | intros cr Hin; apply Hd; right; exact Hin |].
    + cbn [r_manifest r_crs r_secs r_metas map]. unfold sec_entries, meta_entries.
      rewrite (collected_cons _ _ c deps), (collected_cons _ _ c deps). rewrite <- !app_assoc. reflexivity.
    + intros cr Hin. apply fresh_after.
      * intro E. apply Hn. rewrite <- E. apply in_map. exact Hin.
      * apply Hf. right. exact Hin.
Qed.

Theorem roundtrip : forall deps secrets gens ns ts pw rnd,
  NoDup (map doc_name deps) ->
  (forall cr, In cr deps -> dotfree (doc_name cr)) ->
  read pw (create deps secrets gens ns ts pw rnd)
  = Ok (mkM 1 ts ns (Z.of_nat (List.length deps)) (flag_encrypted pwd pw_nonempty pw),
        expected_entries deps secrets gens).
Proof.
  intros deps secrets gens ns ts pw rnd ND Hd. unfold Archive.read, Archive.create.
  cbn [fold_left]. rewrite read_step_ok. unfold Archive.read_member. cbn [negb].
  rewrite manifest_names_agree, manifest_roundtrip.
  rewrite read_deps; [| exact ND | exact Hd | intros cr _; repeat split; reflexivity].
  cbn [r_manifest r_crs r_secs r_metas rempty m_version app]. cbn [Z.eqb Pos.eqb].
  f_equal. f_equal. unfold entries_of, Archive.expected_entries. cbn [r_crs r_secs r_metas].
  rewrite map_map. apply map_ext_in. intros cr Hin. cbn [fst snd].
  unfold sec_entries, meta_entries.
  rewrite (collected_get doc_name _ deps cr ND Hin), (collected_get doc_name _ deps cr ND Hin).
  destruct (gen_lookup gens (doc_name cr)); reflexivity.
Qed.

(* ---------- a different password ---------- *)
Hypothesis aead_wrong_key : forall p p' r b, p <> p' -> dec p' (enc p r b) = DTag.

Lemma fold_err : forall pw ms e, fold_left (read_step pw) ms (Err e) = Err e.
Proof. intros pw ms e. induction ms as [|m ms IH]; cbn; [reflexivity|exact IH]. Qed.

Definition wrong_pw_error (pw' : option pwd) : err :=
  match pw' with Some _ => EInvalidTag | None => ENoPassword end.

Lemma read_files_of_wrong : forall secrets gens p rnd pw' c st,
  encrypts pwd pw_nonempty (Some p) = true ->
  (forall p', pw' = Some p' -> p' <> p) ->
  dotfree (doc_name c) ->
  (aget (doc_name c) secrets <> None ->
     fold_left (read_step pw') (files_of secrets gens (Some p) rnd c) (Ok st) = Err (wrong_pw_error pw')) /\
  (aget (doc_name c) secrets = None ->
     exists st1, fold_left (read_step pw') (files_of secrets gens (Some p) rnd c) (Ok st) = Ok st1).
Proof.
  intros secrets gens p rnd pw' c st He Hp Dc. unfold Archive.files_of.
  cbn [app fold_left]. rewrite read_step_ok, read_cr_file by exact Dc.
  destruct (aget (doc_name c) secrets) as [sd|] eqn:S; split; intro H; try congruence.
  - cbn [app fold_left]. rewrite read_step_ok. unfold secret_file. rewrite He.
    unfold Archive.read_member. cbn [negb]. rewrite not_manifest by (vm_compute; reflexivity).
    rewrite classify_secret_enc by exact Dc.
    destruct pw' as [p'|]; cbn [wrong_pw_error].
    + rewrite (aead_wrong_key p p') by (intro E; apply (Hp p' eq_refl); congruence).
      apply fold_err.
    + apply fold_err.
  - cbn [app]. destruct (gen_lookup gens (doc_name c)); cbn [fold_left].
    + rewrite read_step_ok, read_meta_file by exact Dc. eexists. reflexivity.
    + eexists. reflexivity.
Qed.

Lemma read_deps_wrong : forall secrets gens p rnd pw' deps st,
  encrypts pwd pw_nonempty (Some p) = true ->
  (forall p', pw' = Some p' -> p' <> p) ->
  (forall cr, In cr deps -> dotfree (doc_name cr)) ->
  (exists cr, In cr deps /\ aget (doc_name cr) secrets <> None) ->
  fold_left (read_step pw') (flat_map (files_of secrets gens (Some p) rnd) deps) (Ok st)
  = Err (wrong_pw_error pw').
Proof.
  intros secrets gens p rnd pw' deps. induction deps as [|c deps IH]; intros st He Hp Hd [cr [Hin Hs]];
    [inversion Hin|].
  cbn [flat_map]. rewrite fold_left_app.
  assert (Dc : dotfree (doc_name c)) by (apply Hd; left; reflexivity).
  destruct (read_files_of_wrong secrets gens p rnd pw' c st He Hp Dc) as [W1 W2].
  destruct (aget (doc_name c) secrets) as [sd|] eqn:S.
  - rewrite W1 by congruence. apply fold_err.
  - destruct (W2 eq_refl) as [st1 E1]. rewrite E1.
    destruct Hin as [->|Hin]; [congruence|].
    apply IH; [exact He|exact Hp|intros x Hx; apply Hd; right; exact Hx|].
    exists cr. split; assumption.
Qed.

Theorem wrong_password : forall deps secrets gens ns ts p rnd pw',
  encrypts pwd pw_nonempty (Some p) = true ->
  (forall p', pw' = Some p' -> p' <> p) ->
  (forall cr, In cr deps -> dotfree (doc_name cr)) ->
  (exists cr, In cr deps /\ aget (doc_name cr) secrets <> None) ->
  read pw' (create deps secrets gens ns ts (Some p) rnd) = Err (wrong_pw_error pw').
Proof.
  intros deps secrets gens ns ts p rnd pw' He Hp Hd Hs. unfold Archive.read, Archive.create.
  cbn [fold_left]. rewrite read_step_ok. unfold Archive.read_member. cbn [negb].
  rewrite manifest_names_agree, manifest_roundtrip.
  rewrite (read_deps_wrong secrets gens p rnd pw' deps _ He Hp Hd Hs). reflexivity.
Qed.

End RoundTrip.

(* ---------- encryption.py wire format ---------- *)
Section WireProofs.
Variables key byte : Type.
Variable kdf : list byte -> list byte -> key.
Variable aes_enc : key -> list byte -> list byte -> list byte.
Variable aes_dec : key -> list byte -> list byte -> option (list byte).

Hypothesis aes_roundtrip : forall k n m, aes_dec k n (aes_enc k n m) = Some m.
Hypothesis aes_tag : forall k n m, List.length (aes_enc k n m) = (List.length m + tag_len)%nat.

Lemma wire_split : forall (salt nonce ct : list byte),
  List.length salt = salt_len -> List.length nonce = nonce_len ->
  firstn salt_len (salt ++ nonce ++ ct)%list = salt /\
  firstn nonce_len (skipn salt_len (salt ++ nonce ++ ct)%list) = nonce /\
  skipn (salt_len + nonce_len) (salt ++ nonce ++ ct)%list = ct.
Proof.
  intros salt nonce ct Hs Hn. rewrite <- Hs, <- Hn. split; [apply firstn_app_exact|]. split.
  - rewrite skipn_app_exact. apply firstn_app_exact.
  - rewrite <- app_length, app_assoc. apply skipn_app_exact.
Qed.

Theorem wire_roundtrip : forall pw salt nonce pt,
  List.length salt = salt_len -> List.length nonce = nonce_len ->
  wire_decrypt key byte kdf aes_dec pw (wire_encrypt key byte kdf aes_enc pw salt nonce pt) = DOk pt.
Proof.
  intros pw salt nonce pt Hs Hn. unfold wire_decrypt, wire_encrypt.
  destruct (wire_split salt nonce (aes_enc (kdf pw salt) nonce pt) Hs Hn) as [E1 [E2 E3]].
  rewrite E1, E2, E3, aes_roundtrip.
  assert (L : Nat.ltb (List.length (salt ++ nonce ++ aes_enc (kdf pw salt) nonce pt)%list)
                      (salt_len + nonce_len + tag_len) = false).
  { apply Nat.ltb_ge. rewrite !app_length, aes_tag, Hs, Hn. lia. }
  rewrite L. reflexivity.
Qed.

Hypothesis aes_wrong_key : forall k k' n m, k <> k' -> aes_dec k' n (aes_enc k n m) = None.
Hypothesis kdf_injective : forall pw pw' salt, pw <> pw' -> kdf pw salt <> kdf pw' salt.

Theorem wire_wrong_password : forall pw pw' salt nonce pt,
  pw <> pw' -> List.length salt = salt_len -> List.length nonce = nonce_len ->
  wire_decrypt key byte kdf aes_dec pw' (wire_encrypt key byte kdf aes_enc pw salt nonce pt) = DTag.
Proof.
  intros pw pw' salt nonce pt Ne Hs Hn. unfold wire_decrypt, wire_encrypt.
  destruct (wire_split salt nonce (aes_enc (kdf pw salt) nonce pt) Hs Hn) as [E1 [E2 E3]].
  rewrite E1, E2, E3, (aes_wrong_key _ _ _ _ (kdf_injective pw pw' salt Ne)).
  assert (L : Nat.ltb (List.length (salt ++ nonce ++ aes_enc (kdf pw salt) nonce pt)%list)
                      (salt_len + nonce_len + tag_len) = false).
  { apply Nat.ltb_ge. rewrite !app_length, aes_tag, Hs, Hn. lia. }
  rewrite L. reflexivity.
Qed.

Theorem wire_short_rejected : forall pw data,
  (List.length data < salt_len + nonce_len + tag_len)%nat -> wire_decrypt key byte kdf aes_dec pw data = DShort.
Proof. intros pw data H. unfold wire_decrypt. apply Nat.ltb_lt in H. rewrite H. reflexivity. Qed.
End WireProofs.

(* DNS-1035 labels have no dot *)
Definition dns1035_char (c : ascii) : bool :=
  let n := nat_of_ascii c in
  ((97 <=? n) && (n <=? 122))%nat || ((48 <=? n) && (n <=? 57))%nat || (n =? 45)%nat.

Lemma dns1035_dotfree : forall n, forallb dns1035_char n = true -> dotfree n.
Proof.
  intros n H Hin. rewrite forallb_forall in H. specialize (H dot Hin). vm_compute in H. discriminate.
Qed.
