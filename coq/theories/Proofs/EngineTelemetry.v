(* Step lifecycle telemetry (C35): per step, the StepStateChanged publications of every tick drive
   the "open RUNNING slots" automaton from the worker ids in in_progress before the tick to the
   worker ids in in_progress after it. *)
From Coq Require Import List ZArith Bool PeanoNat Lia.
Import ListNotations.
From WF Require Import Model.Engine Proofs.EngineCap Proofs.EngineSlots.
Open Scope Z_scope.

(* ---------- the telemetry word of one step ---------- *)
Definition tel := (sstate * option nat)%type.

Fixpoint step_tel (n : Z) (cs : list command) : list tel :=
  match cs with
  | [] => []
  | CPublish (PStep st ss w _ _) :: t => if Z.eqb st n then (ss, w) :: step_tel n t else step_tel n t
  | _ :: t => step_tel n t
  end.

Fixpoint remove_nat (k : nat) (l : list nat) : list nat :=
  match l with [] => [] | h :: t => if Nat.eqb h k then t else h :: remove_nat k t end.

(* `open` = worker ids with a RUNNING that has not been closed by NOT_RUNNING yet.
   PREPARING carries no worker id; RUNNING k needs k closed; NOT_RUNNING k needs k open. *)
Definition tel_step (open : list nat) (p : tel) : option (list nat) :=
  match p with
  | (Preparing, None) => Some open
  | (Running, Some k) => if existsb (Nat.eqb k) open then None else Some (open ++ [k])
  | (NotRunning, Some k) => if existsb (Nat.eqb k) open then Some (remove_nat k open) else None
  | _ => None
  end.

Fixpoint tel_run (open : list nat) (ps : list tel) : option (list nat) :=
  match ps with
  | [] => Some open
  | p :: t => match tel_step open p with None => None | Some o => tel_run o t end
  end.

Lemma step_tel_app n a b : step_tel n (a ++ b) = step_tel n a ++ step_tel n b.
Proof.
  induction a as [|c a IH]; [reflexivity|]. cbn [app step_tel].
  destruct c; try exact IH. destruct p; try exact IH.
  destruct (Z.eqb step n); [cbn [app]; rewrite IH; reflexivity|exact IH].
Qed.

Lemma tel_run_app o a b :
  tel_run o (a ++ b) = match tel_run o a with Some o' => tel_run o' b | None => None end.
Proof.
  revert o. induction a as [|p a IH]; intro o; [reflexivity|]. cbn [app tel_run].
  destruct (tel_step o p); [apply IH|reflexivity].
Qed.

Lemma tel_run_trans o1 o2 o3 a b :
  tel_run o1 a = Some o2 -> tel_run o2 b = Some o3 -> tel_run o1 (a ++ b) = Some o3.
Proof. intros A B. rewrite tel_run_app, A. exact B. Qed.

(* commands that mention only step n in their StepStateChanged publications *)
Definition only_step (n : Z) (cs : list command) : Prop := forall m, m <> n -> step_tel m cs = [].

Lemma only_step_app n a b : only_step n a -> only_step n b -> only_step n (a ++ b).
Proof. intros A B m Hm. rewrite step_tel_app, (A m Hm), (B m Hm). reflexivity. Qed.

Lemma only_step_nil n : only_step n [].
Proof. intros m _. reflexivity. Qed.

Lemma remove_ip_wids wid l : map i_wid (remove_ip wid l) = remove_nat wid (map i_wid l).
Proof.
  induction l as [|i t IH]; [reflexivity|]. cbn [remove_ip map remove_nat].
  destruct (Nat.eqb (i_wid i) wid); [reflexivity|]. cbn [map]. rewrite IH. reflexivity.
Qed.

Lemma existsb_nat_in k l : existsb (Nat.eqb k) l = true <-> In k l.
Proof.
  rewrite existsb_exists. split.
  - intros [x [Hin E]]. apply Nat.eqb_eq in E. subst. exact Hin.
  - intros Hin. exists k. split; [exact Hin|apply Nat.eqb_refl].
Qed.

Lemma existsb_nat_notin k l : ~ In k l -> existsb (Nat.eqb k) l = false.
Proof.
  intros H. destruct (existsb (Nat.eqb k) l) eqn:E; [|reflexivity].
  apply existsb_nat_in in E. contradiction.
Qed.

(* ---------- add_or_enqueue ---------- *)
Lemma aoe_tel n a w now w' cs :
  Inv_cap w -> add_or_enqueue n a w now = Ok (w', cs) ->
  tel_run (wids w) (step_tel n cs) = Some (wids w') /\ only_step n cs.
Proof.
  intros [Hlen [Hnd Hall]]. unfold add_or_enqueue.
  destruct (Nat.ltb (length (inprogress w)) (nworkers (w_cfg w))) eqn:E.
  - destruct (first_free (map i_wid (inprogress w)) 0 (nworkers (w_cfg w))) as [id|] eqn:F; [|discriminate].
    intros H; inversion H; subst; clear H.
    apply first_free_spec in F. destruct F as [_ Hni]. split.
    + cbn [step_tel]. rewrite Z.eqb_refl. cbn [tel_run tel_step].
      unfold wids at 1. rewrite (existsb_nat_notin _ _ Hni).
      unfold wids. cbn [inprogress set_w]. rewrite map_app. reflexivity.
    + intros m Hm. cbn [step_tel]. destruct (Z.eqb_spec n m) as [->|_]; [contradiction|reflexivity].
  - intros H; inversion H; subst; clear H. split.
    + cbn [step_tel]. rewrite Z.eqb_refl. reflexivity.
    + intros m Hm. cbn [step_tel]. destruct (Z.eqb_spec n m) as [->|_]; [contradiction|reflexivity].
Qed.

(* exactly one of: started on a fresh slot with RUNNING, or queued with PREPARING; the latter iff at capacity *)
Lemma aoe_running_or_preparing n a w now w' cs :
  add_or_enqueue n a w now = Ok (w', cs) ->
  (length (inprogress w) < nworkers (w_cfg w))%nat /\
    (exists id, cs = [CRunWorker n (a_ev a) id ; CPublish (PStep n Running (Some id) (ety (a_ev a)) NoOut)] /\
                queue w' = queue w /\ wids w' = wids w ++ [id])
  \/
  (nworkers (w_cfg w) <= length (inprogress w))%nat /\
    cs = [CPublish (PStep n Preparing None (ety (a_ev a)) NoOut)] /\
    queue w' = queue w ++ [a] /\ wids w' = wids w.
Proof.
  unfold add_or_enqueue.
  destruct (Nat.ltb (length (inprogress w)) (nworkers (w_cfg w))) eqn:E.
  - apply Nat.ltb_lt in E.
    destruct (first_free _ _ _) as [id|]; [|discriminate].
    intros H; inversion H; subst; clear H. left. split; [exact E|].
    exists id. repeat split. unfold wids. cbn [inprogress set_w]. rewrite map_app. reflexivity.
  - apply Nat.ltb_ge in E. intros H; inversion H; subst; clear H. right. repeat split. exact E.
Qed.

(* ---------- drain ---------- *)
Lemma drain_tel n fuel : forall w now w' cs,
  Inv_cap w -> drain n w now fuel = Ok (w', cs) ->
  tel_run (wids w) (step_tel n cs) = Some (wids w') /\ only_step n cs.
Proof.
  induction fuel as [|f IH]; intros w now w' cs Hi H; cbn [drain] in H.
  { inversion H; subst. split; [reflexivity|apply only_step_nil]. }
  destruct (queue w) as [|a q] eqn:Q.
  { inversion H; subst. split; [reflexivity|apply only_step_nil]. }
  destruct (Nat.ltb _ _) eqn:E.
  2:{ inversion H; subst. split; [reflexivity|apply only_step_nil]. }
  destruct (add_or_enqueue _ _ _ _) as [[w1 c1]|] eqn:A; [|discriminate].
  destruct (drain n w1 now f) as [[w2 c2]|] eqn:D; [|discriminate].
  inversion H; subst; clear H.
  set (w0 := set_w w q (inprogress w) (collected w) (waiters w)) in *.
  assert (Inv_cap w0) as H0 by (eapply cap_same; [| |exact Hi]; reflexivity).
  destruct (aoe_tel _ _ _ _ _ _ H0 A) as [T1 O1].
  destruct (IH _ _ _ _ (add_or_enqueue_cap _ _ _ _ _ _ H0 A) D) as [T2 O2].
  split; [|apply only_step_app; assumption].
  rewrite step_tel_app. eapply tel_run_trans; [exact T1|exact T2].
Qed.

(* ---------- waiter pass / routing of an add-event tick ---------- *)
Lemma waiter_pass_tel n e : forall todo done w now acc hit w' cs h,
  Inv_cap w -> waiter_pass n e done todo w now acc hit = Ok (w', cs, h) ->
  exists cs2, cs = acc ++ cs2 /\ tel_run (wids w) (step_tel n cs2) = Some (wids w') /\ only_step n cs2.
Proof.
  induction todo as [|wt rest IH]; intros done w now acc hit w' cs h Hi H; cbn [waiter_pass] in H.
  { inversion H; subst. exists []. rewrite app_nil_r. split; [reflexivity|split; [reflexivity|apply only_step_nil]]. }
  destruct (negb (w_pending wt) && waiter_matches e wt).
  - destruct (add_or_enqueue _ _ _ _) as [[w2 c2]|] eqn:A; [|discriminate].
    set (w1 := set_w w (queue w) (inprogress w) (collected w) (done ++ resolve e wt :: rest)) in *.
    assert (Inv_cap w1) as H1 by (eapply cap_same; [| |exact Hi]; reflexivity).
    destruct (aoe_tel _ _ _ _ _ _ H1 A) as [T1 O1].
    destruct (IH _ _ _ _ _ _ _ _ (add_or_enqueue_cap _ _ _ _ _ _ H1 A) H) as [cs2 [-> [T2 O2]]].
    exists (c2 ++ cs2). rewrite app_assoc. split; [reflexivity|split].
    + rewrite step_tel_app. eapply tel_run_trans; [exact T1|exact T2].
    + apply only_step_app; assumption.
  - apply (IH _ _ _ _ _ _ _ _ Hi H).
Qed.

(* per-step relation between worker lists, position by position *)
Definition tel_rel (cs : list command) (p p' : Z * wstate) : Prop :=
  fst p' = fst p /\ tel_run (wids (snd p)) (step_tel (fst p) cs) = Some (wids (snd p')).

Definition mentions_only (keys : list Z) (cs : list command) : Prop :=
  forall m, ~ In m keys -> step_tel m cs = [].

Lemma mentions_only_app keys a b : mentions_only keys a -> mentions_only keys b -> mentions_only keys (a ++ b).
Proof. intros A B m Hm. rewrite step_tel_app, (A m Hm), (B m Hm). reflexivity. Qed.

Lemma only_step_mentions n keys cs : only_step n cs -> In n keys -> mentions_only keys cs.
Proof. intros O Hin m Hm. apply O. intros ->. contradiction. Qed.

Lemma mentions_only_weaken keys keys' cs : mentions_only keys cs -> incl keys keys' -> mentions_only keys' cs.
Proof. intros M I m Hm. apply M. intros Hin. apply Hm, I, Hin. Qed.

Lemma tel_rel_extend_l cs0 cs p p' :
  step_tel (fst p) cs0 = [] -> tel_rel cs p p' -> tel_rel (cs0 ++ cs) p p'.
Proof. intros E [H1 H2]. split; [exact H1|]. rewrite step_tel_app, E. exact H2. Qed.

Lemma Forall2_tel_extend_l cs0 cs ws ws' :
  (forall m, In m (map fst ws) -> step_tel m cs0 = []) ->
  Forall2 (tel_rel cs) ws ws' -> Forall2 (tel_rel (cs0 ++ cs)) ws ws'.
Proof.
  intros Hm F. induction F as [|p p' l l' R F IH]; constructor.
  - apply tel_rel_extend_l; [apply Hm; left; reflexivity|exact R].
  - apply IH. intros m Hin. apply Hm. right. exact Hin.
Qed.

Lemma add_waiters_tel e target : forall ws now ws' cs hits,
  NoDup (map fst ws) -> Inv_ws ws -> add_waiters e target ws now = Ok (ws', cs, hits) ->
  Forall2 (tel_rel cs) ws ws' /\ mentions_only (map fst ws) cs.
Proof.
  induction ws as [|[n w] t IH]; intros now ws' cs hits ND Hi H; cbn [add_waiters] in H.
  { inversion H; subst. split; [constructor|intros m _; reflexivity]. }
  inversion ND as [|? ? Hnotin ND']; subst. inversion Hi as [|? ? Hw Hit]; subst. cbn [snd] in Hw.
  destruct (if target_ok target n then waiter_pass n e [] (waiters w) w now [] false else Ok (w, [], false))
    as [[[w1 c1] h1]|] eqn:W; [|discriminate].
  destruct (add_waiters e target t now) as [[[t' c'] hs]|] eqn:R; [|discriminate].
  inversion H; subst; clear H.
  destruct (IH _ _ _ _ ND' Hit R) as [F M].
  assert (tel_run (wids w) (step_tel n c1) = Some (wids w1) /\ only_step n c1) as [T1 O1].
  { destruct (target_ok target n).
    - destruct (waiter_pass_tel _ _ _ _ _ _ _ _ _ _ _ Hw W) as [cs2 [-> [T O]]]. split; assumption.
    - inversion W; subst. split; [reflexivity|apply only_step_nil]. }
  split.
  - constructor.
    + split; [reflexivity|]. cbn [fst snd]. rewrite step_tel_app, (M n Hnotin), app_nil_r. exact T1.
    + apply Forall2_tel_extend_l; [|exact F].
      intros m Hin. apply O1. intros ->. contradiction.
  - apply mentions_only_app.
    + apply (only_step_mentions n); [exact O1|left; reflexivity].
    + eapply mentions_only_weaken; [exact M|]. intros x Hx. right. exact Hx.
Qed.

Lemma add_routes_tel a target skip : forall ws now ws' cs h,
  NoDup (map fst ws) -> Inv_ws ws -> add_routes a target skip ws now = Ok (ws', cs, h) ->
  Forall2 (tel_rel cs) ws ws' /\ mentions_only (map fst ws) cs.
Proof.
  induction ws as [|[n w] t IH]; intros now ws' cs h ND Hi H; cbn [add_routes] in H.
  { inversion H; subst. split; [constructor|intros m _; reflexivity]. }
  inversion ND as [|? ? Hnotin ND']; subst. inversion Hi as [|? ? Hw Hit]; subst. cbn [snd] in Hw.
  set (take := negb (zmem n skip) && zmem (ety (a_ev a)) (accepts (w_cfg w)) && target_ok target n) in *.
  destruct (if take then add_or_enqueue n a w now else Ok (w, [])) as [[w1 c1]|] eqn:W; [|discriminate].
  destruct (add_routes a target skip t now) as [[[t' c'] h']|] eqn:R; [|discriminate].
  inversion H; subst; clear H.
  destruct (IH _ _ _ _ ND' Hit R) as [F M].
  assert (tel_run (wids w) (step_tel n c1) = Some (wids w1) /\ only_step n c1) as [T1 O1].
  { destruct take.
    - apply (aoe_tel _ _ _ _ _ _ Hw W).
    - inversion W; subst. split; [reflexivity|apply only_step_nil]. }
  split.
  - constructor.
    + split; [reflexivity|]. cbn [fst snd]. rewrite step_tel_app, (M n Hnotin), app_nil_r. exact T1.
    + apply Forall2_tel_extend_l; [|exact F].
      intros m Hin. apply O1. intros ->. contradiction.
  - apply mentions_only_app.
    + apply (only_step_mentions n); [exact O1|left; reflexivity].
    + eapply mentions_only_weaken; [exact M|]. intros x Hx. right. exact Hx.
Qed.

Lemma Forall2_tel_keys cs ws ws' : Forall2 (tel_rel cs) ws ws' -> map fst ws' = map fst ws.
Proof. intros F. induction F as [|p p' l l' [R _] F IH]; [reflexivity|]. cbn [map]. rewrite R, IH. reflexivity. Qed.

Lemma Forall2_tel_compose c1 c2 ws1 : forall ws2 ws3,
  Forall2 (tel_rel c1) ws1 ws2 -> Forall2 (tel_rel c2) ws2 ws3 -> Forall2 (tel_rel (c1 ++ c2)) ws1 ws3.
Proof.
  induction ws1 as [|p t IH]; intros ws2 ws3 F1 F2.
  - inversion F1; subst. inversion F2; subst. constructor.
  - inversion F1 as [|? p2 ? t2 [K1 T1] F1']; subst. inversion F2 as [|? p3 ? t3 [K2 T2] F2']; subst.
    constructor; [|eapply IH; eassumption].
    split; [congruence|]. rewrite step_tel_app. rewrite K1 in T2. eapply tel_run_trans; eassumption.
Qed.

Lemma Forall2_tel_extend_r cs cs0 ws ws' :
  (forall m, step_tel m cs0 = []) -> Forall2 (tel_rel cs) ws ws' -> Forall2 (tel_rel (cs ++ cs0)) ws ws'.
Proof.
  intros E F. induction F as [|p p' l l' [K T] F IH]; constructor; [|exact IH].
  split; [exact K|]. rewrite step_tel_app, E, app_nil_r. exact T.
Qed.

Lemma process_add_tel a target s now s' cs :
  Keys_ok s -> Inv_state s -> process_add a target s now = Ok (s', cs) ->
  Forall2 (tel_rel cs) (workers s) (workers s').
Proof.
  unfold process_add, Keys_ok, Inv_state. intros ND Hi H.
  destruct (add_waiters _ _ _ _) as [[[ws1 cs1] hits]|] eqn:W; [|discriminate].
  destruct (add_routes _ _ _ _ _) as [[[ws2 cs2] routed]|] eqn:R; [|discriminate].
  inversion H; subst; clear H. cbn [workers with_workers].
  destruct (add_waiters_tel _ _ _ _ _ _ _ ND Hi W) as [F1 _].
  assert (NoDup (map fst ws1)) as ND1 by (rewrite (Forall2_tel_keys _ _ _ F1); exact ND).
  assert (Inv_ws ws1) as Hi1 by (eapply add_waiters_cap; eassumption).
  destruct (add_routes_tel _ _ _ _ _ _ _ _ ND1 Hi1 R) as [F2 _].
  rewrite app_assoc. apply Forall2_tel_extend_r.
  - intros m. destruct (_ || _); [reflexivity|]. destruct (zmem _ _); reflexivity.
  - eapply Forall2_tel_compose; eassumption.
Qed.

(* ---------- step-result tick ---------- *)
Definition same_others (step : Z) (ws ws' : list (Z * wstate)) : Prop :=
  Forall2 (fun p p' => fst p' = fst p /\ (fst p <> step -> wids (snd p') = wids (snd p))) ws ws'.

Lemma same_others_refl step ws : same_others step ws ws.
Proof. induction ws; constructor; [split; auto|assumption]. Qed.

Lemma same_others_trans step a : forall b c, same_others step a b -> same_others step b c -> same_others step a c.
Proof.
  induction a as [|p t IH]; intros b c F1 F2.
  - inversion F1; subst. inversion F2; subst. constructor.
  - inversion F1 as [|? p2 ? t2 [K1 W1] F1']; subst. inversion F2 as [|? p3 ? t3 [K2 W2] F2']; subst.
    constructor; [|eapply IH; eassumption].
    split; [congruence|]. intros Hne. rewrite W2; [apply W1; exact Hne|congruence].
Qed.

Lemma same_others_keys step ws ws' : same_others step ws ws' -> map fst ws' = map fst ws.
Proof. intros F. induction F as [|p p' l l' [R _] F IH]; [reflexivity|]. cbn [map]. rewrite R, IH. reflexivity. Qed.

Lemma same_others_zupdate step v ws : In step (map fst ws) -> same_others step ws (zupdate step v ws).
Proof.
  induction ws as [|[k w] t IH]; intros Hin; [destruct Hin|]. cbn [zupdate].
  destruct (Z.eqb_spec step k) as [->|Hne].
  - constructor; [|apply same_others_refl]. split; [reflexivity|]. intros X. contradiction.
  - constructor; [split; auto|]. apply IH. destruct Hin as [Hin|Hin]; [cbn in Hin; congruence|exact Hin].
Qed.

Lemma same_others_clear step ws : same_others step ws (map (fun p => (fst p, clear_cw (snd p))) ws).
Proof. induction ws as [|[k w] t IH]; constructor; [split; auto|exact IH]. Qed.

Record acc_tel (step : Z) (w : wstate) (ws : list (Z * wstate)) (a : acc) : Prop := {
  at_wids : wids (k_w a) = wids w ;
  at_cmds : forall m, step_tel m (k_cmds a) = [] ;
  at_others : same_others step ws (workers (k_state a)) }.

Lemma acc_tel_same step w ws a a' :
  acc_tel step w ws a -> In step (map fst ws) ->
  wids (k_w a') = wids (k_w a) ->
  (forall m, step_tel m (k_cmds a') = step_tel m (k_cmds a)) ->
  (workers (k_state a') = workers (k_state a) \/
   exists v, workers (k_state a') = map (fun p => (fst p, clear_cw (snd p))) (zupdate step v (workers (k_state a)))) ->
  acc_tel step w ws a'.
Proof.
  intros [Hw Hc Ho] Hin E1 E2 E3. constructor.
  - rewrite E1. exact Hw.
  - intros m. rewrite E2. apply Hc.
  - destruct E3 as [->|[v ->]]; [exact Ho|].
    eapply same_others_trans; [exact Ho|].
    eapply same_others_trans; [|apply same_others_clear].
    apply same_others_zupdate. rewrite (same_others_keys _ _ _ Ho). exact Hin.
Qed.

Lemma one_result_tel P step w ws tev dc now a r a' :
  acc_tel step w ws a -> In step (map fst ws) ->
  one_result P step tev dc now a r = Ok a' -> acc_tel step w ws a'.
Proof.
  intros Hok Hin H. unfold one_result in H.
  break_match H; try discriminate; inversion H; subst; clear H; try exact Hok;
    (eapply acc_tel_same; [exact Hok|exact Hin| | |];
     cbn [k_w k_this k_cmds k_keep k_state workers with_workers];
     [ unfold wids; cbn [inprogress set_w clear_cw]; rewrite ?replace_ip_wids'; reflexivity
     | intros m; rewrite ?step_tel_app; cbn [step_tel app]; rewrite ?app_nil_r; reflexivity
     | try (left; reflexivity) ]).
  all: try (right; eexists; reflexivity).
Qed.

Lemma results_loop_tel P step w ws tev dc now : forall rs a a',
  acc_tel step w ws a -> In step (map fst ws) ->
  results_loop P step tev dc now a rs = Ok a' -> acc_tel step w ws a'.
Proof.
  induction rs as [|r t IH]; intros a a' Hi Hin H; cbn [results_loop] in H.
  - inversion H; subst; exact Hi.
  - destruct (one_result P step tev dc now a r) as [a1|] eqn:O; [|discriminate].
    eapply IH; [|exact Hin|exact H]. eapply one_result_tel; eassumption.
Qed.

Lemma put_tel step cs w w3 : forall ws0 ws1,
  NoDup (map fst ws0) -> zlookup step ws0 = Some w -> same_others step ws0 ws1 ->
  tel_run (wids w) (step_tel step cs) = Some (wids w3) -> only_step step cs ->
  Forall2 (tel_rel cs) ws0 (zupdate step w3 ws1).
Proof.
  induction ws0 as [|[k v] t IH]; intros ws1 ND L F T O; [discriminate|].
  inversion F as [|? [k1 v1] ? t1 [K W] F']; subst. cbn [fst snd] in *. subst k1.
  inversion ND as [|? ? Hnotin ND']; subst.
  cbn [zlookup] in L. cbn [zupdate]. destruct (Z.eqb_spec step k) as [->|Hne].
  - inversion L; subst. constructor; [split; [reflexivity|exact T]|].
    clear IH L T F ND. revert t1 F'. induction t as [|[k2 v2] t IH2]; intros t1 F'; inversion F' as [|? [k3 v3] ? t3 [K3 W3] F3]; subst; constructor.
    + cbn [fst snd] in *. subst k3. split; [reflexivity|].
      assert (k2 <> k) as Hne by (intros ->; apply Hnotin; left; reflexivity).
      cbn [fst snd]. rewrite (O k2 Hne). cbn [tel_run]. rewrite (W3 Hne). reflexivity.
    + apply IH2; [intros X; apply Hnotin; right; exact X| |exact F3].
      inversion ND'; assumption.
  - constructor; [|apply IH; assumption].
    split; [reflexivity|]. cbn [fst snd].
    assert (k <> step) as Hne' by congruence.
    rewrite (O k Hne'). cbn [tel_run]. rewrite (W Hne'). reflexivity.
Qed.

Lemma in_wids_existsb k w : In k (wids w) -> existsb (Nat.eqb k) (wids w) = true.
Proof. intros H. apply existsb_nat_in. exact H. Qed.

Lemma process_step_tel P step wid tev rs s now s' cs :
  Keys_ok s -> Inv_state s -> process_step P step wid tev rs s now = Ok (s', cs) ->
  Forall2 (tel_rel cs) (workers s) (workers s').
Proof.
  unfold process_step, Keys_ok. intros ND Hi H.
  destruct (zlookup step (workers s)) as [w|] eqn:L; [|discriminate].
  destruct (find_ip wid (inprogress w)) as [this|] eqn:F; [|discriminate].
  destruct (results_loop _ _ _ _ _ _ _) as [a|] eqn:RL; [|discriminate].
  destruct (find_ip_wid _ _ _ F) as [Fw Fin].
  assert (In step (map fst (workers s))) as Hin by (eapply zlookup_in; exact L).
  assert (acc_tel step w (workers s) a) as [Hw Hc Ho].
  { eapply results_loop_tel; [|exact Hin|exact RL]. constructor; cbn.
    - reflexivity.
    - intros m. reflexivity.
    - apply same_others_refl. }
  assert (acc_inv a) as [_ Aw].
  { eapply results_loop_inv; [|exact RL]. split; cbn; [exact Hi|eapply Inv_ws_zlookup; eassumption]. }
  set (w2 := if k_keep a then k_w a
             else set_w (k_w a) (queue (k_w a)) (remove_ip wid (inprogress (k_w a))) (collected (k_w a)) (waiters (k_w a))).
  set (cmds := if k_keep a then k_cmds a
               else CPublish (PStep step NotRunning (Some wid) (ety tev) (k_out a)) :: k_cmds a).
  assert (H' : (if existsb is_exit (k_cmds a) then Ok (put_w step w2 (k_state a), cmds)
                else match drain step w2 now (length (queue w2)) with
                     | Err c => Err c
                     | Ok (w3, c3) => Ok (put_w step w3 (k_state a), cmds ++ c3) end) = Ok (s', cs)).
  { subst w2 cmds. destruct (k_keep a); exact H. }
  clear H.
  assert (T2 : tel_run (wids w) (step_tel step cmds) = Some (wids w2) /\ only_step step cmds).
  { subst cmds w2. destruct (k_keep a).
    - rewrite Hc, Hw. split; [reflexivity|]. intros m _. apply Hc.
    - cbn [step_tel]. rewrite Z.eqb_refl, Hc. cbn [tel_run tel_step].
      fold (wids w) in Fin. rewrite (in_wids_existsb _ _ Fin). split.
      + unfold wids at 2. cbn [inprogress set_w]. rewrite remove_ip_wids. fold (wids (k_w a)). rewrite Hw. reflexivity.
      + intros m Hm. cbn [step_tel]. destruct (Z.eqb_spec step m) as [->|_]; [contradiction|apply Hc]. }
  destruct T2 as [T2 O2].
  assert (Inv_cap w2) as I2.
  { subst w2. destruct (k_keep a); [exact Aw|apply cap_remove; exact Aw]. }
  destruct (existsb is_exit (k_cmds a)).
  - inversion H'; subst; clear H'. unfold put_w; cbn [workers with_workers].
    eapply put_tel; eassumption.
  - destruct (drain _ _ _ _) as [[w3 c3]|] eqn:D; [|discriminate].
    inversion H'; subst; clear H'. unfold put_w; cbn [workers with_workers].
    destruct (drain_tel _ _ _ _ _ _ I2 D) as [T3 O3].
    eapply put_tel; try eassumption.
    + rewrite step_tel_app. eapply tel_run_trans; eassumption.
    + apply only_step_app; assumption.
Qed.

(* ---------- waiter-timeout tick ---------- *)
Lemma Forall2_tel_refl ws : Forall2 (tel_rel []) ws ws.
Proof. induction ws; constructor; [split; reflexivity|assumption]. Qed.

Lemma process_waiter_timeout_tel step wid s now s' cs :
  Keys_ok s -> Inv_state s -> process_waiter_timeout step wid s now = Ok (s', cs) ->
  Forall2 (tel_rel cs) (workers s) (workers s').
Proof.
  unfold process_waiter_timeout, Keys_ok. intros ND Hi H.
  destruct (zlookup step (workers s)) as [w|] eqn:L; [|inversion H; subst; apply Forall2_tel_refl].
  destruct (find_waiter_idx _ _ _) as [k|]; [|inversion H; subst; apply Forall2_tel_refl].
  destruct (nth_error _ _) as [wt|]; [|inversion H; subst; apply Forall2_tel_refl].
  destruct (w_resolved wt); [inversion H; subst; apply Forall2_tel_refl|].
  destruct (add_or_enqueue _ _ _ _) as [[w2 c2]|] eqn:A; [|discriminate].
  inversion H; subst; clear H. unfold put_w; cbn [workers with_workers].
  set (w1 := set_w w (queue w) (inprogress w) (collected w) _) in A.
  assert (Inv_cap w1) as H1.
  { eapply cap_same; [| |eapply Inv_ws_zlookup; eassumption]; reflexivity. }
  destruct (aoe_tel _ _ _ _ _ _ H1 A) as [T O].
  eapply put_tel; try eassumption. apply same_others_refl.
Qed.

(* ---------- every tick ---------- *)
Lemma Forall2_tel_const cs ws : (forall m, step_tel m cs = []) -> Forall2 (tel_rel cs) ws ws.
Proof.
  intros E. induction ws as [|p t IH]; constructor; [|exact IH].
  split; [reflexivity|]. rewrite E. reflexivity.
Qed.

Lemma tel_snoc_idle cs ws ws' (b : bool) :
  Forall2 (tel_rel cs) ws ws' -> Forall2 (tel_rel (if b then cs ++ [CSchedIdle] else cs)) ws ws'.
Proof. intros F. destruct b; [|exact F]. apply Forall2_tel_extend_r; [reflexivity|exact F]. Qed.

Theorem reduce_tel P t s now s' cs :
  Keys_ok s -> Inv_state s -> reduce P t s now = Ok (s', cs) ->
  Forall2 (tel_rel cs) (workers s) (workers s').
Proof.
  intros ND Hi H. unfold reduce in H. destruct t.
  - destruct (process_add _ _ _ _) as [[s1 c1]|] eqn:E; [|discriminate].
    inversion H; subst; clear H. apply tel_snoc_idle. eapply process_add_tel; eassumption.
  - destruct (process_step _ _ _ _ _ _ _) as [[s1 c1]|] eqn:E; [|discriminate].
    inversion H; subst; clear H. apply tel_snoc_idle. eapply process_step_tel; eassumption.
  - inversion H; subst; clear H. apply Forall2_tel_const. intros m. repeat match goal with |- context [if ?b then _ else _] => destruct b end; reflexivity.
  - inversion H; subst; clear H. apply Forall2_tel_const. intros m. repeat match goal with |- context [if ?b then _ else _] => destruct b end; reflexivity.
  - inversion H; subst; clear H. cbn [workers with_workers]. apply Forall2_tel_const. intros m. repeat match goal with |- context [if ?b then _ else _] => destruct b end; reflexivity.
  - destruct (process_waiter_timeout _ _ _ _) as [[s1 c1]|] eqn:E; [|discriminate].
    inversion H; subst; clear H. apply tel_snoc_idle. eapply process_waiter_timeout_tel; eassumption.
  - inversion H; subst; clear H. apply Forall2_tel_const. destruct (check_idle s'); reflexivity.
  - inversion H; subst; clear H. apply Forall2_tel_const. reflexivity.
Qed.

Lemma reduce_keys P t s now s' cs :
  Keys_ok s -> Inv_state s -> reduce P t s now = Ok (s', cs) -> Keys_ok s'.
Proof.
  intros ND Hi H. unfold Keys_ok. rewrite (Forall2_tel_keys _ _ _ (reduce_tel _ _ _ _ _ _ ND Hi H)). exact ND.
Qed.

(* ---------- whole histories: the published stream of a run ---------- *)
Fixpoint run_cmds (P : policy) (s : state) (ts : list (tick * Z)) : res (state * list command) :=
  match ts with
  | [] => Ok (s, [])
  | (t, now) :: r =>
    match reduce P t s now with
    | Err c => Err c
    | Ok (s1, c1) => match run_cmds P s1 r with Err c => Err c | Ok (s2, c2) => Ok (s2, c1 ++ c2) end
    end
  end.

Theorem run_tel P : forall ts s s' cs,
  Keys_ok s -> Inv_state s -> run_cmds P s ts = Ok (s', cs) ->
  Forall2 (tel_rel cs) (workers s) (workers s').
Proof.
  induction ts as [|[t now] r IH]; intros s s' cs ND Hi H; cbn [run_cmds] in H.
  - inversion H; subst. apply Forall2_tel_refl.
  - destruct (reduce P t s now) as [[s1 c1]|] eqn:R; [|discriminate].
    destruct (run_cmds P s1 r) as [[s2 c2]|] eqn:RR; [|discriminate].
    inversion H; subst; clear H.
    eapply Forall2_tel_compose.
    + eapply reduce_tel; eassumption.
    + apply IH; [eapply reduce_keys; eassumption|eapply reduce_cap; eassumption|exact RR].
Qed.

(* consequences of a well-formed telemetry word *)
Lemma tel_step_nodup o p o' : NoDup o -> tel_step o p = Some o' -> NoDup o'.
Proof.
  intros ND. destruct p as [[| |] [k|]]; cbn [tel_step]; try discriminate.
  - intros H; inversion H; subst; exact ND.
  - destruct (existsb (Nat.eqb k) o) eqn:E; [discriminate|]. intros H; inversion H; subst.
    apply NoDup_app_singleton; [exact ND|]. intros Hin. apply existsb_nat_in in Hin. congruence.
  - destruct (existsb (Nat.eqb k) o); [|discriminate]. intros H; inversion H; subst. clear H.
    induction o as [|h t IH]; [constructor|]. cbn [remove_nat]. inversion ND as [|? ? Hn ND']; subst.
    destruct (Nat.eqb h k); [assumption|]. constructor; [|apply IH; assumption].
    intros Hin. apply Hn. clear -Hin. induction t as [|x t IH]; [destruct Hin|]. cbn [remove_nat] in Hin.
    destruct (Nat.eqb x k); [right; exact Hin|]. destruct Hin as [->|Hin]; [left; reflexivity|right; apply IH; exact Hin].
Qed.

(* counting: in a word accepted from the empty open set, #RUNNING = #NOT_RUNNING + |still open| *)
Definition is_running (p : tel) : bool := match p with (Running, _) => true | _ => false end.
Definition is_notrunning (p : tel) : bool := match p with (NotRunning, _) => true | _ => false end.
Definition countb {A} (f : A -> bool) (l : list A) : nat := length (filter f l).

Lemma remove_nat_length k o : existsb (Nat.eqb k) o = true -> S (length (remove_nat k o)) = length o.
Proof.
  induction o as [|h t IH]; cbn [existsb remove_nat length]; [discriminate|].
  rewrite (Nat.eqb_sym k h). destruct (Nat.eqb h k); cbn [orb]; [reflexivity|].
  intros E. cbn [length]. rewrite (IH E). reflexivity.
Qed.

Lemma tel_run_count : forall ps o o',
  tel_run o ps = Some o' ->
  (length o + countb is_running ps = countb is_notrunning ps + length o')%nat.
Proof.
  induction ps as [|p t IH]; intros o o' H; cbn [tel_run] in H.
  - inversion H; subst. unfold countb; cbn. lia.
  - destruct (tel_step o p) as [o1|] eqn:S; [|discriminate]. specialize (IH _ _ H).
    unfold countb in *. cbn [filter].
    destruct p as [[| |] [k|]]; cbn [tel_step] in S; try discriminate; cbn [is_running is_notrunning].
    + inversion S; subst. lia.
    + destruct (existsb _ _); [discriminate|]. inversion S; subst. rewrite app_length in IH. cbn [length] in *. lia.
    + destruct (existsb _ _) eqn:E; [|discriminate]. inversion S; subst.
      pose proof (remove_nat_length _ _ E). cbn [length] in *. lia.
Qed.

(* ---------- an InputRequiredEvent returned by a step is published exactly once ---------- *)
Definition is_pevent (e : event) (c : command) : bool :=
  match c with CPublish (PEvent e') => Z.eqb (eid e') (eid e) && Z.eqb (ety e') (ety e) | _ => false end.
Definition n_pevent (e : event) (cs : list command) : nat := length (filter (is_pevent e) cs).

Lemma n_pevent_app e a b : n_pevent e (a ++ b) = (n_pevent e a + n_pevent e b)%nat.
Proof. unfold n_pevent. rewrite filter_app, app_length. reflexivity. Qed.

(* at the step-result tick: the returned (non-stop) event adds exactly one publication iff it is an
   InputRequiredEvent, plus exactly one queue command *)
Lemma returned_event_published P step tev dc now a e a' :
  one_result P step tev dc now a (RResult (OEvent e)) = Ok a' ->
  zmem (ety e) (c_stop (cfg (k_state a))) = false ->
  exists q, k_cmds a' = k_cmds a ++ (if zmem (ety e) (c_inputreq (cfg (k_state a))) then [CPublish (PEvent e)] else [])
                         ++ [CQueue q None None] /\ a_ev q = e.
Proof.
  unfold one_result. intros H Hs. rewrite Hs in H. inversion H; subst; clear H. cbn [k_cmds].
  eexists. split; [reflexivity|reflexivity].
Qed.

Lemma aoe_no_pevent e step a w now w' cs : add_or_enqueue step a w now = Ok (w', cs) -> n_pevent e cs = 0%nat.
Proof.
  unfold add_or_enqueue. destruct (Nat.ltb _ _).
  - destruct (first_free _ _ _); intros H; inversion H; reflexivity.
  - intros H; inversion H; reflexivity.
Qed.

Lemma waiter_pass_no_pevent ev step e : forall todo done w now acc hit w' cs h,
  waiter_pass step e done todo w now acc hit = Ok (w', cs, h) -> n_pevent ev cs = n_pevent ev acc.
Proof.
  induction todo as [|wt rest IH]; intros done w now acc hit w' cs h H; cbn [waiter_pass] in H.
  - inversion H; reflexivity.
  - destruct (negb (w_pending wt) && waiter_matches e wt).
    + destruct (add_or_enqueue _ _ _ _) as [[w2 c2]|] eqn:A; [|discriminate].
      apply IH in H. rewrite H, n_pevent_app, (aoe_no_pevent _ _ _ _ _ _ _ A). lia.
    + apply IH in H. exact H.
Qed.

Lemma add_waiters_no_pevent ev e target : forall ws now ws' cs hits,
  add_waiters e target ws now = Ok (ws', cs, hits) -> n_pevent ev cs = 0%nat.
Proof.
  induction ws as [|[n w] t IH]; intros now ws' cs hits H; cbn [add_waiters] in H.
  - inversion H; reflexivity.
  - destruct (if target_ok target n then _ else _) as [[[w1 c1] h1]|] eqn:W; [|discriminate].
    destruct (add_waiters e target t now) as [[[t' c'] hs]|] eqn:R; [|discriminate].
    inversion H; subst. rewrite n_pevent_app, (IH _ _ _ _ R).
    destruct (target_ok target n).
    + rewrite (waiter_pass_no_pevent _ _ _ _ _ _ _ _ _ _ _ _ W). reflexivity.
    + inversion W; reflexivity.
Qed.

Lemma add_routes_no_pevent ev a target skip : forall ws now ws' cs h,
  add_routes a target skip ws now = Ok (ws', cs, h) -> n_pevent ev cs = 0%nat.
Proof.
  induction ws as [|[n w] t IH]; intros now ws' cs h H; cbn [add_routes] in H.
  - inversion H; reflexivity.
  - set (take := negb (zmem n skip) && zmem (ety (a_ev a)) (accepts (w_cfg w)) && target_ok target n) in *.
    destruct (if take then add_or_enqueue n a w now else Ok (w, [])) as [[w1 c1]|] eqn:W; [|discriminate].
    destruct (add_routes a target skip t now) as [[[t' c'] h']|] eqn:R; [|discriminate].
    inversion H; subst. rewrite n_pevent_app, (IH _ _ _ _ R).
    destruct take.
    + rewrite (aoe_no_pevent _ _ _ _ _ _ _ W). reflexivity.
    + inversion W; reflexivity.
Qed.

(* the add-event tick that later delivers the returned event publishes no event at all *)
Theorem add_tick_publishes_no_event P ev a target s now s' cs :
  reduce P (TAdd a target) s now = Ok (s', cs) -> n_pevent ev cs = 0%nat.
Proof.
  unfold reduce, process_add. intros H.
  destruct (add_waiters _ _ _ _) as [[[ws1 cs1] hits]|] eqn:W; [|discriminate].
  destruct (add_routes _ _ _ _ _) as [[[ws2 cs2] routed]|] eqn:R; [|discriminate].
  inversion H; subst; clear H.
  pose proof (add_waiters_no_pevent ev _ _ _ _ _ _ _ W) as Z1.
  pose proof (add_routes_no_pevent ev _ _ _ _ _ _ _ _ R) as Z2.
  match goal with |- n_pevent ev (if _ then ?l ++ _ else ?l) = _ =>
    assert (n_pevent ev l = 0%nat) as Z0 end.
  { rewrite !n_pevent_app, Z1, Z2.
    repeat match goal with |- context [if ?b then _ else _] => destruct b end; reflexivity. }
  match goal with |- context [if ?b then _ else _] => destruct b end;
    [rewrite n_pevent_app, Z0; reflexivity|exact Z0].
Qed.

(* per step: #RUNNING published + |in_progress before| = #NOT_RUNNING published + |in_progress after| *)
Definition count_rel (cs : list command) (p p' : Z * wstate) : Prop :=
  fst p' = fst p /\
  (length (inprogress (snd p)) + countb is_running (step_tel (fst p) cs) =
   countb is_notrunning (step_tel (fst p) cs) + length (inprogress (snd p')))%nat.

Theorem run_balanced P ts s s' cs :
  Keys_ok s -> Inv_state s -> run_cmds P s ts = Ok (s', cs) ->
  Forall2 (count_rel cs) (workers s) (workers s').
Proof.
  intros ND Hi H. pose proof (run_tel _ _ _ _ _ ND Hi H) as F.
  induction F as [|p p' l l' [K T] F IH]; constructor; [|exact IH].
  split; [exact K|]. apply tel_run_count in T. unfold wids in T. rewrite !map_length in T. exact T.
Qed.
