(* Lemmas about the persistence / crash / resume half of Model/ServerPersist.v (C13). *)
From Coq Require Import List ZArith Bool PeanoNat Lia Permutation.
Import ListNotations.
From WF Require Import Model.Engine Model.ServerPersist Proofs.EngineCap Proofs.ServerPersistProofs.
Open Scope Z_scope.

(* ------------------------------------------------------------------------------------------ *)
(* A. association-list helpers                                                                  *)
(* ------------------------------------------------------------------------------------------ *)
Lemma zlookup_some_in {A} k (l : list (Z * A)) v : zlookup k l = Some v -> In (k, v) l.
Proof.
  induction l as [|[k' v'] t IH]; cbn; [discriminate |].
  destruct (Z.eqb k k') eqn:E; [apply Z.eqb_eq in E; subst; intro H; inversion H; auto | auto].
Qed.

Lemma in_keys_zlookup {A} k (l : list (Z * A)) : In k (map fst l) -> exists v, zlookup k l = Some v.
Proof.
  induction l as [|[k' v'] t IH]; cbn; [intros [] |].
  destruct (Z.eqb k k') eqn:E; [eauto |]. intros [H | H]; [apply Z.eqb_neq in E; congruence | auto].
Qed.

Lemma zlookup_map_snd {A B} (f : A -> B) k (l : list (Z * A)) :
  zlookup k (map (fun p => (fst p, f (snd p))) l) = option_map f (zlookup k l).
Proof. induction l as [|[k' v'] t IH]; cbn; [reflexivity |]. destruct (Z.eqb k k'); auto. Qed.

Lemma zlookup_map_keyed {A} (g : Z -> A -> A) k (l : list (Z * A)) :
  zlookup k (map (fun p => (fst p, g (fst p) (snd p))) l) = option_map (g k) (zlookup k l).
Proof.
  induction l as [|[k' v'] t IH]; cbn; [reflexivity |].
  destruct (Z.eqb k k') eqn:E; [apply Z.eqb_eq in E; subst; reflexivity | auto].
Qed.

Lemma zlookup_map_match {A D} (X : list (Z * D)) (F : A -> D -> A) k (l : list (Z * A)) :
  zlookup k (map (fun p => match zlookup (fst p) X with Some d => (fst p, F (snd p) d) | None => p end) l) =
  option_map (fun b => match zlookup k X with Some d => F b d | None => b end) (zlookup k l).
Proof.
  induction l as [|[k' v'] t IH]; cbn; [reflexivity |].
  destruct (zlookup k' X) as [d|] eqn:Ex; cbn; destruct (Z.eqb k k') eqn:E; auto;
    apply Z.eqb_eq in E; subst; rewrite Ex; reflexivity.
Qed.

(* ------------------------------------------------------------------------------------------ *)
(* B. the reducer never changes the set of steps                                                *)
(* ------------------------------------------------------------------------------------------ *)
Definition keys (s : state) : list Z := map fst (workers s).

Lemma add_waiters_keys e target : forall ws now ws' cs hits,
  add_waiters e target ws now = Ok (ws', cs, hits) -> map fst ws' = map fst ws.
Proof.
  induction ws as [|[n w] t IH]; intros now ws' cs hits H; cbn [add_waiters] in H.
  - inversion H; reflexivity.
  - destruct (if target_ok target n then _ else _) as [[[w1 c1] h1]|]; [| discriminate].
    destruct (add_waiters e target t now) as [[[t' c'] hs]|] eqn:E; [| discriminate].
    inversion H; subst. cbn. f_equal. eapply IH; eauto.
Qed.

Lemma add_routes_keys a target skip : forall ws now ws' cs h,
  add_routes a target skip ws now = Ok (ws', cs, h) -> map fst ws' = map fst ws.
Proof.
  induction ws as [|[n w] t IH]; intros now ws' cs h H; cbn [add_routes] in H.
  - inversion H; reflexivity.
  - match type of H with context[if ?b then add_or_enqueue n a w now else _] => destruct b end;
      [destruct (add_or_enqueue n a w now) as [[w1 c1]|]; [| discriminate] |];
      (destruct (add_routes a target skip t now) as [[[t' c'] h']|] eqn:E; [| discriminate]);
      inversion H; subst; cbn; f_equal; eapply IH; eauto.
Qed.

Lemma map_fst_map_snd {A B} (f : Z * A -> B) (l : list (Z * A)) :
  map fst (map (fun p => (fst p, f p)) l) = map fst l.
Proof. induction l; cbn; congruence. Qed.

Lemma one_result_keys P step tev dc now a r a' :
  one_result P step tev dc now a r = Ok a' -> In step (keys (k_state a)) -> keys (k_state a') = keys (k_state a).
Proof.
  intros H Hin. unfold one_result in H.
  destruct r as [o | x fa | buf e | buf | wid wev reqs tmo ty | wid].
  - destruct o as [e | |]; try (inversion H; subst; reflexivity).
    destruct (zmem _ _); inversion H; subst; cbn; [| reflexivity].
    unfold keys; cbn. rewrite (map_fst_map_snd (fun p => clear_cw (snd p))). apply zupdate_keys_in. exact Hin.
  - destruct (match pol _ with Some p => _ | None => _ end); try discriminate.
    + inversion H; subst; reflexivity.
    + destruct (match zlookup step _ with Some n => _ | None => None end) as [hd|].
      * destruct (Z.leb _ _); inversion H; subst; reflexivity.
      * inversion H; subst; reflexivity.
    + destruct (match zlookup step _ with Some n => _ | None => None end) as [hd|].
      * destruct (Z.leb _ _); inversion H; subst; reflexivity.
      * inversion H; subst; reflexivity.
  - destruct (Nat.ltb _ _); inversion H; subst; reflexivity.
  - destruct dc; inversion H; subst; reflexivity.
  - destruct (find_waiter_idx _ _ _); inversion H; subst; reflexivity.
  - destruct dc; inversion H; subst; reflexivity.
Qed.

Lemma results_loop_keys P step tev dc now : forall rs a a',
  results_loop P step tev dc now a rs = Ok a' -> In step (keys (k_state a)) -> keys (k_state a') = keys (k_state a).
Proof.
  induction rs as [|r rs IH]; intros a a' H Hin; cbn [results_loop] in H.
  - inversion H; reflexivity.
  - destruct (one_result P step tev dc now a r) as [a1|] eqn:E; [| discriminate].
    pose proof (one_result_keys _ _ _ _ _ _ _ _ E Hin) as K1.
    rewrite (IH _ _ H); [exact K1 | rewrite K1; exact Hin].
Qed.

Theorem reduce_keys P t s now s' cs : reduce P t s now = Ok (s', cs) -> keys s' = keys s.
Proof.
  intro H. unfold reduce in H.
  destruct t as [a target | step wid e rs | | e | tm | step wid | |]; try (inversion H; subst; reflexivity).
  - unfold process_add in H.
    destruct (add_waiters _ _ _ _) as [[[ws1 cs1] hits]|] eqn:E1; [| discriminate].
    destruct (add_routes _ _ _ _ _) as [[[ws2 cs2] routed]|] eqn:E2; [| discriminate].
    inversion H; subst. unfold keys; cbn.
    rewrite (add_routes_keys _ _ _ _ _ _ _ _ E2). eapply add_waiters_keys; eauto.
  - unfold process_step in H.
    destruct (zlookup step (workers s)) as [w|] eqn:Ez; [| discriminate].
    destruct (find_ip wid (inprogress w)) as [this|]; [| discriminate].
    destruct (results_loop _ _ _ _ _ _ _) as [a|] eqn:E; [| discriminate].
    assert (Hin : In step (keys s)) by (eapply zlookup_in; eauto).
    pose proof (results_loop_keys _ _ _ _ _ _ _ _ E Hin) as K. cbn in K.
    assert (Hput : forall w2, keys (put_w step w2 (k_state a)) = keys s).
    { intro w2. unfold keys, put_w; cbn. rewrite zupdate_keys_in; [exact K | ]. fold (keys (k_state a)). rewrite K. exact Hin. }
    destruct (k_keep a).
    + destruct (existsb is_exit (k_cmds a)).
      * inversion H; subst. apply Hput.
      * destruct (drain _ _ _ _) as [[w3 c3]|]; [| discriminate]. inversion H; subst. apply Hput.
    + destruct (existsb is_exit (k_cmds a)).
      * inversion H; subst. apply Hput.
      * destruct (drain _ _ _ _) as [[w3 c3]|]; [| discriminate]. inversion H; subst. apply Hput.
  - unfold process_waiter_timeout in H.
    destruct (zlookup step (workers s)) as [w|] eqn:Ez; [| inversion H; subst; reflexivity].
    destruct (find_waiter_idx _ _ _); [| inversion H; subst; reflexivity].
    destruct (nth_error _ _) as [wt|]; [| inversion H; subst; reflexivity].
    destruct (w_resolved wt); [inversion H; subst; reflexivity |].
    destruct (add_or_enqueue _ _ _ _) as [[w2 c2]|]; [| discriminate].
    inversion H; subst. unfold keys, put_w; cbn. apply zupdate_keys_in. eapply zlookup_in; eauto.
Qed.

Lemma replay_fold_keys P : forall ts s now ex s' ex',
  replay_fold P s ts now ex = Ok (s', ex') -> keys s' = keys s.
Proof.
  induction ts as [|t ts IH]; intros s now ex s' ex' H; cbn [replay_fold] in H.
  - inversion H; reflexivity.
  - destruct (reduce P t s now) as [[s1 cs]|] eqn:E; [| discriminate].
    rewrite (IH _ _ _ _ _ H). eapply reduce_keys; eauto.
Qed.

Theorem replay_keys P base ts now s ex :
  replay P (blank_state base) ts now = Ok (s, ex) -> keys s = keys base.
Proof.
  unfold replay. destruct (rewind (blank_state base) now) as [[s0 c0]|] eqn:E; [| discriminate].
  intro H. rewrite (replay_fold_keys _ _ _ _ _ _ _ H). unfold keys. rewrite (rewind_keys _ _ _ _ E).
  unfold blank_state; cbn. apply (map_fst_map_snd (fun p => blank_worker (snd p))).
Qed.

(* ------------------------------------------------------------------------------------------ *)
(* C. rewind touches every worker exactly once                                                  *)
(* ------------------------------------------------------------------------------------------ *)
Lemma insert_sorted_perm p l : Permutation (insert_sorted p l) (p :: l).
Proof.
  induction l as [|h t IH]; cbn; [reflexivity |].
  destruct (Z.leb (fst p) (fst h)); [reflexivity |].
  rewrite IH. apply perm_swap.
Qed.
Lemma sort_workers_perm l : Permutation (sort_workers l) l.
Proof. induction l as [|h t IH]; cbn; [reflexivity |]. rewrite insert_sorted_perm. constructor. exact IH. Qed.

Lemma rewind_all_lookup : forall order ws now cs ws' cs',
  NoDup (map fst order) -> rewind_all order ws now cs = Ok (ws', cs') ->
  (forall k w, In (k, w) order -> exists w1 c1, rewind_worker k w now = Ok (w1, c1) /\ zlookup k ws' = Some w1) /\
  (forall k, ~ In k (map fst order) -> zlookup k ws' = zlookup k ws).
Proof.
  induction order as [|[n w] t IH]; intros ws now cs ws' cs' ND H; cbn [rewind_all] in H.
  - inversion H; subst. split; [intros k w [] | reflexivity].
  - destruct (rewind_worker n w now) as [[w1 c1]|] eqn:R; [| discriminate].
    cbn in ND. inversion ND as [|? ? Hn Ht]; subst.
    destruct (IH _ _ _ _ _ Ht H) as [IH1 IH2]. split.
    + intros k w0 [E | Hin].
      * inversion E; subst. exists w1, c1. split; [exact R |]. rewrite (IH2 k Hn). apply zlookup_zupdate_eq.
      * apply IH1; exact Hin.
    + intros k Hk. cbn in Hk. rewrite IH2 by tauto. apply zlookup_zupdate_neq. intro E; subst; tauto.
Qed.

Theorem rewind_lookup s now s' cs : Keys_ok s -> rewind s now = Ok (s', cs) ->
  running s' = running s /\
  forall k w, zlookup k (workers s) = Some w ->
    exists w1 c1, rewind_worker k w now = Ok (w1, c1) /\ zlookup k (workers s') = Some w1.
Proof.
  unfold rewind, Keys_ok. intros ND H.
  destruct (rewind_all _ _ _ _) as [[ws cs0]|] eqn:R; [| discriminate]. inversion H; subst; cbn.
  split; [reflexivity |]. intros k w Hz.
  assert (NDs : NoDup (map fst (sort_workers (workers s)))).
  { eapply Permutation_NoDup; [| exact ND]. apply Permutation_map. symmetry. apply sort_workers_perm. }
  destruct (rewind_all_lookup _ _ _ _ _ _ NDs R) as [L1 _]. apply L1.
  eapply Permutation_in; [symmetry; apply sort_workers_perm |]. apply zlookup_some_in. exact Hz.
Qed.

(* ------------------------------------------------------------------------------------------ *)
(* D. the work a configuration holds                                                            *)
(* ------------------------------------------------------------------------------------------ *)
Lemma aoe_held step a w now w' cs : add_or_enqueue step a w now = Ok (w', cs) ->
  (held w' = map i_ev (inprogress w) ++ a_ev a :: map a_ev (queue w) \/
   held w' = map i_ev (inprogress w) ++ map a_ev (queue w) ++ [a_ev a]) /\
  collected w' = collected w /\ waiters w' = waiters w /\
  (length (inprogress w) < nworkers (w_cfg w) -> held w' = map i_ev (inprogress w) ++ a_ev a :: map a_ev (queue w))%nat.
Proof.
  unfold add_or_enqueue, held. destruct (Nat.ltb _ _) eqn:El.
  - destruct (first_free _ _ _); intro H; inversion H; subst; cbn.
    rewrite map_app, <- app_assoc. cbn. repeat split; auto.
  - intro H; inversion H; subst; cbn. rewrite map_app. repeat split; auto.
    intro Hlt. apply Nat.ltb_ge in El. lia.
Qed.

(* draining a queue into free worker slots keeps the list of held inputs as it is *)
Lemma drain_held step fuel : forall w now w' cs, drain step w now fuel = Ok (w', cs) ->
  held w' = held w /\ collected w' = collected w /\ waiters w' = waiters w.
Proof.
  induction fuel as [|f IH]; intros w now w' cs H; cbn [drain] in H; [inversion H; auto |].
  destruct (queue w) as [|a q] eqn:Eq; [inversion H; auto |].
  destruct (Nat.ltb _ _) eqn:El; [| inversion H; auto].
  destruct (add_or_enqueue _ _ _ _) as [[w1 c1]|] eqn:Ea; [| discriminate].
  destruct (drain step w1 now f) as [[w2 c2]|] eqn:Ed; [| discriminate].
  inversion H; subst. apply aoe_held in Ea. destruct Ea as (_ & Ec & Ew & Eh). cbn in Ec, Ew, Eh.
  apply Nat.ltb_lt in El. specialize (Eh El).
  destruct (IH _ _ _ _ Ed) as (H1 & H2 & H3). rewrite H1, H2, H3, Eh, Ec, Ew.
  unfold held. rewrite Eq. cbn. auto.
Qed.

Lemma rewind_worker_held step w now w' cs : rewind_worker step w now = Ok (w', cs) ->
  Permutation (held w') (held w) /\ collected w' = collected w /\ waiters w' = waiters w.
Proof.
  unfold rewind_worker. intro H. apply drain_held in H. destruct H as (H1 & H2 & H3). cbn in H2, H3.
  split; [| auto]. rewrite H1. unfold held; cbn. rewrite map_app, map_rev, map_map. cbn.
  apply Permutation_app_tail. rewrite <- Permutation_rev.
  replace (map (fun x => a_ev (attempt_of_ip x)) (inprogress w)) with (map i_ev (inprogress w)); [reflexivity |].
  apply map_ext. reflexivity.
Qed.

(* from_serialized (to_serialized s): what each step's worker looks like afterwards *)
Lemma from_ser_lookup base s n w :
  keys s = keys base -> zlookup n (workers s) = Some w ->
  exists bw, zlookup n (workers base) = Some bw /\
    zlookup n (workers (from_ser base (to_ser s))) = Some (deser_worker (blank_worker bw) (ser_worker w)).
Proof.
  intros Hk Hz.
  assert (Hin : In n (keys base)) by (rewrite <- Hk; eapply zlookup_in; eauto).
  destruct (in_keys_zlookup _ _ Hin) as [bw Hb]. exists bw. split; [exact Hb |].
  unfold from_ser, to_ser, blank_state; cbn.
  rewrite (zlookup_map_match _ deser_worker), (zlookup_map_snd blank_worker n (workers base)), Hb. cbn.
  rewrite (zlookup_map_snd ser_worker n (workers s)), Hz. reflexivity.
Qed.

Lemma from_ser_keys base c : keys (from_ser base c) = keys base.
Proof.
  unfold keys, from_ser, blank_state; cbn. rewrite map_map.
  rewrite map_map. apply map_ext. intros [k v]; cbn. destruct (zlookup k (sc_workers c)); reflexivity.
Qed.

(* resume_preserves_work: replaying a persisted log, serialising, deserialising and rewinding yields a state that
   holds, step by step, exactly the inputs the replayed state holds (queued or in progress), the same collected
   buffers, the same waiters (ids and resolutions) and the same running flag - nothing lost, nothing duplicated *)
Theorem resume_preserves_work base s now r' cs :
  Keys_ok s -> keys s = keys base ->
  rewind (from_ser base (to_ser s)) now = Ok (r', cs) ->
  running r' = running s /\
  forall n w, zlookup n (workers s) = Some w ->
    exists w', zlookup n (workers r') = Some w' /\
      Permutation (held w') (held w) /\ collected w' = collected w /\
      map w_id (waiters w') = map w_id (waiters w) /\ map w_resolved (waiters w') = map w_resolved (waiters w) /\
      map w_ev (waiters w') = map w_ev (waiters w).
Proof.
  intros ND Hk H.
  assert (NDr : Keys_ok (from_ser base (to_ser s))).
  { unfold Keys_ok. fold (keys (from_ser base (to_ser s))). rewrite from_ser_keys, <- Hk. exact ND. }
  destruct (rewind_lookup _ _ _ _ NDr H) as [Hrun Hl]. split; [rewrite Hrun; reflexivity |].
  intros n w Hz. destruct (from_ser_lookup base s n w Hk Hz) as (bw & Hb & Hr).
  destruct (Hl _ _ Hr) as (w1 & c1 & Hrw & Hz1). exists w1. split; [exact Hz1 |].
  apply rewind_worker_held in Hrw. destruct Hrw as (P1 & C1 & W1).
  split; [| split; [| split; [| split]]].
  - rewrite P1. unfold held, deser_worker, ser_worker; cbn.
    rewrite map_app, !map_map. cbn. rewrite Permutation_app_comm.
    replace (map (fun x => a_ev (resumed_attempt x)) (map i_ev (inprogress w))) with (map i_ev (inprogress w));
      [| rewrite map_map; reflexivity].
    replace (map (fun x => a_ev (ser_attempt x)) (queue w)) with (map a_ev (queue w)); [reflexivity |].
    apply map_ext. reflexivity.
  - rewrite C1. reflexivity.
  - rewrite W1. unfold deser_worker, ser_worker; cbn. rewrite !map_map. reflexivity.
  - rewrite W1. unfold deser_worker, ser_worker; cbn. rewrite !map_map. reflexivity.
  - rewrite W1. unfold deser_worker, ser_worker; cbn. rewrite !map_map. reflexivity.
Qed.

(* the same, stated for a persisted log *)
Theorem resume_from_log_preserves_work P base ts now s ex r' cs :
  Keys_ok base -> replay P (blank_state base) ts now = Ok (s, ex) ->
  rewind (from_ser base (to_ser s)) now = Ok (r', cs) ->
  running r' = running s /\
  forall n w, zlookup n (workers s) = Some w ->
    exists w', zlookup n (workers r') = Some w' /\
      Permutation (held w') (held w) /\ collected w' = collected w /\
      map w_id (waiters w') = map w_id (waiters w) /\ map w_resolved (waiters w') = map w_resolved (waiters w) /\
      map w_ev (waiters w') = map w_ev (waiters w).
Proof.
  intros ND Hrep Hrw. pose proof (replay_keys _ _ _ _ _ _ Hrep) as Hk.
  apply (resume_preserves_work base s now r' cs); [unfold Keys_ok; fold (keys s); rewrite Hk; exact ND | exact Hk | exact Hrw].
Qed.

(* the resumed runner always boots: rewinding a deserialised state cannot fail *)
Lemma rewind_all_total : forall order ws now cs,
  (forall k w, In (k, w) order -> inprogress w = []) -> exists ws' cs', rewind_all order ws now cs = Ok (ws', cs').
Proof.
  induction order as [|[n w] t IH]; intros ws now cs Hq; cbn [rewind_all]; [eauto |].
  assert (Hw : inprogress w = []) by (apply (Hq n); left; reflexivity).
  unfold rewind_worker. rewrite Hw. cbn [map rev app].
  destruct (drain_ok n (length (queue w)) (set_w w (queue w) [] (collected w) (waiters w)) now) as (w1 & c1 & Ed);
    [apply cap_empty; reflexivity |].
  cbn [queue] in Ed. rewrite Ed. apply IH. intros k w0 Hin. apply (Hq k). right; exact Hin.
Qed.

Theorem resume_boot_total base c now : exists r' cs, rewind (from_ser base c) now = Ok (r', cs).
Proof.
  unfold rewind.
  destruct (rewind_all_total (sort_workers (workers (from_ser base c))) (workers (from_ser base c)) now []) as (ws' & cs' & E).
  - intros k w Hin. apply (Permutation_in _ (sort_workers_perm _)) in Hin.
    unfold from_ser, blank_state in Hin; cbn in Hin. rewrite map_map in Hin. apply in_map_iff in Hin.
    destruct Hin as ([k0 v0] & E & _). cbn in E. destruct (zlookup k0 (sc_workers c)); inversion E; subst; reflexivity.
  - rewrite E. eauto.
Qed.

(* ------------------------------------------------------------------------------------------ *)
(* E. finalisation instead of re-running                                                         *)
(* ------------------------------------------------------------------------------------------ *)
Lemma last_exit_some cs cur : (exists c, cur = Some c) -> exists c, last_exit cs cur = Some c.
Proof.
  revert cur. unfold last_exit. induction cs as [|c cs IH]; intros cur H; cbn [fold_left]; [exact H |].
  apply IH. destruct (is_exit c); [eauto | exact H].
Qed.
Lemma last_exit_finds cs cur : existsb is_exit cs = true -> exists c, last_exit cs cur = Some c /\ is_exit c = true.
Proof.
  revert cur. unfold last_exit. induction cs as [|c cs IH]; intros cur H; cbn in H; [discriminate |]. cbn [fold_left].
  destruct (is_exit c) eqn:E.
  - destruct (existsb is_exit cs) eqn:E2; [apply IH; reflexivity |].
    clear IH H. assert (G : forall cur', fold_left (fun acc c0 => if is_exit c0 then Some c0 else acc) cs cur' = cur').
    { induction cs as [|c1 cs1 IH1]; intro cur'; cbn; [reflexivity |]. cbn in E2. apply orb_false_iff in E2.
      destruct E2 as [E3 E4]. rewrite E3. apply IH1; exact E4. }
    rewrite G. eauto.
  - cbn in H. apply IH; exact H.
Qed.

Lemma last_exit_is_exit cs : forall cur c, last_exit cs cur = Some c -> (forall c0, cur = Some c0 -> is_exit c0 = true) -> is_exit c = true.
Proof.
  unfold last_exit. induction cs as [|c1 cs IH]; intros cur c H Hc; cbn [fold_left] in H; [apply Hc; exact H |].
  eapply IH; [exact H |]. destruct (is_exit c1) eqn:E; [intros c0 E0; inversion E0; subst; exact E | exact Hc].
Qed.

(* once some persisted tick made the reducer emit an exit command, replay reports an exit command *)
Lemma replay_fold_keeps_exit P : forall ts s now ex s' ex',
  replay_fold P s ts now ex = Ok (s', ex') -> (exists c, ex = Some c) -> exists c, ex' = Some c.
Proof.
  induction ts as [|t ts IH]; intros s now ex s' ex' H Hex; cbn [replay_fold] in H.
  - inversion H; subst; exact Hex.
  - destruct (reduce P t s now) as [[s1 cs]|]; [| discriminate].
    eapply IH; [exact H |]. apply last_exit_some; exact Hex.
Qed.

Lemma replay_fold_app P : forall ts1 ts2 s now ex,
  replay_fold P s (ts1 ++ ts2) now ex =
  match replay_fold P s ts1 now ex with Err c => Err c | Ok (s1, ex1) => replay_fold P s1 ts2 now ex1 end.
Proof.
  induction ts1 as [|t ts1 IH]; intros ts2 s now ex; cbn [app replay_fold]; [reflexivity |].
  destruct (reduce P t s now) as [[s1 cs]|]; [apply IH | reflexivity].
Qed.

(* finalize_matches, part 1: a log in which some tick ends the run is never resumed: the handler is finalised *)
Theorem log_with_exit_is_finalised P base ts1 t ts2 now s0 c0 s1 ex1 s2 cs s ex :
  rewind (blank_state base) now = Ok (s0, c0) ->
  replay_fold P s0 ts1 now None = Ok (s1, ex1) ->
  reduce P t s1 now = Ok (s2, cs) -> existsb is_exit cs = true ->
  replay P (blank_state base) (ts1 ++ t :: ts2) now = Ok (s, ex) ->
  exists c, ex = Some c /\ is_exit c = true.
Proof.
  intros Hrw H1 Hr He H. unfold replay in H. rewrite Hrw in H. rewrite replay_fold_app, H1 in H.
  cbn [replay_fold] in H. rewrite Hr in H.
  destruct (last_exit_finds cs ex1 He) as (c & Hc & Hic).
  destruct (replay_fold_keeps_exit _ _ _ _ _ _ _ H (ex_intro _ c Hc)) as (c' & Ec'). exists c'. split; [exact Ec' |].
  subst ex. clear - H Hc Hic.
  assert (G : forall ts s now ex s' ex' c', replay_fold P s ts now ex = Ok (s', ex') ->
              (forall c0, ex = Some c0 -> is_exit c0 = true) -> ex' = Some c' -> is_exit c' = true).
  { induction ts as [|t0 ts0 IH]; intros s3 now0 ex3 s4 ex4 c4 Hf Hall He4; cbn [replay_fold] in Hf.
    - inversion Hf; subst. apply Hall; reflexivity.
    - destruct (reduce P t0 s3 now0) as [[s5 cs5]|]; [| discriminate].
      eapply IH; [exact Hf | | exact He4]. intros c6 E6. eapply last_exit_is_exit; [exact E6 | exact Hall]. }
  eapply G; [exact H | | reflexivity]. intros c1 E1. rewrite Hc in E1. inversion E1; subst. exact Hic.
Qed.

(* finalize_matches, part 2: what _on_server_start writes for an exit command is what the live terminal event
   would have written: same status, same result *)
Theorem finalize_agrees_with_live k c h : exit_of k c ->
  exists s r e, finalize_of c = Some (s, r, e) /\ s = k_status k /\
    h_status (upd_status (Some s) r e None h) = h_status (k_write k h) /\
    h_result (upd_status (Some s) r e None h) = h_result (k_write k h).
Proof. intro H; inversion H; subst; cbn; eexists; eexists; eexists; repeat split; reflexivity. Qed.

(* finalize_matches, part 3: the restart itself.  A running, non-idle handler without a live loop whose replay ended
   with an exit command gets the status of that command and is NOT re-run (no loop is started); when the store
   accepts the write the record carries status, result and error of the command. *)
Theorem server_start_finalises bo stops c s r e y h :
  finalize_of c = Some (s, r, e) -> y_phase y <> PhActive ->
  s_rec (y_store y) = Some h -> h_status h = SRunning -> h_idle h = false ->
  let y' := step_op bo stops (OpServerStart (RExit (Some c))) y in
  y_phase y' = y_phase y /\
  (fst (pop (f_status (s_fl (y_store y)))) = false ->
   s_rec (y_store y') = Some (upd_status (Some s) r e None h)).
Proof.
  intros Hf Hph Hr Hs Hi. cbn [step_op]. rewrite Hr, Hs, Hi. cbn [is_terminal orb].
  destruct (y_phase y) eqn:Ep; try (exfalso; apply Hph; reflexivity); rewrite Hf; cbn; (split; [reflexivity |]);
    intro Hp; unfold start_write, attempt_status;
    destruct (pop (f_status (s_fl (y_store y)))) as [bad l]; cbn in Hp; subst bad; cbn; rewrite Hr; reflexivity.
Qed.

(* an idle-release exit, or no exit at all, resumes the run *)
Theorem server_start_resumes bo stops ex y h :
  (ex = None \/ ex = Some CCompleteIdleRelease) -> y_phase y <> PhActive ->
  s_rec (y_store y) = Some h -> h_status h = SRunning -> h_idle h = false ->
  let y' := step_op bo stops (OpServerStart (RExit ex)) y in
  y_phase y' = PhActive /\ y_store y' = y_store y.
Proof.
  intros Hex Hph Hr Hs Hi. cbn [step_op]. rewrite Hr, Hs, Hi. cbn [is_terminal orb].
  destruct (y_phase y) eqn:Ep; try (exfalso; apply Hph; reflexivity); destruct Hex as [-> | ->]; cbn; auto.
Qed.

(* ------------------------------------------------------------------------------------------ *)
(* F. the desired resume_any_prefix is refuted                                                   *)
(* ------------------------------------------------------------------------------------------ *)
Definition w_cfg1 (acc : list Z) : wstate :=
  {| w_cfg := {| accepts := acc ; nworkers := 1 ; pol := None |} ; queue := [] ; inprogress := [] ;
     collected := [] ; waiters := [] |}.
Definition two_step : state :=
  {| running := false ;
     cfg := {| c_handler_for := [] ; c_handlers := [] ; c_start := [0] ; c_stop := [9] ; c_inputreq := [8] ;
               c_ty_stepfailed := 7 |} ;
     workers := [(1, w_cfg1 [0]) ; (2, w_cfg1 [1])] |}.
Definition ev (ty i : Z) : event := {| ety := ty ; eid := i ; eattrs := [] |}.
Definition nopol : policy := fun _ _ _ _ => PStop.
(* s1: StartEvent -> A ; s2: A -> StopEvent.  The uninterrupted log: *)
Definition full_log : list tick :=
  [TAdd (blank (ev 0 1)) None ; TStep 1 0 (ev 0 1) [RResult (OEvent (ev 1 2))] ;
   TAdd {| a_ev := ev 1 2 ; a_att := None ; a_first := None ; a_exn := None ; a_failed := None ; a_rc := [] |} None ;
   TStep 2 0 (ev 1 2) [RResult (OEvent (ev 9 3))]].

Definition all_quiet (s : state) : bool :=
  forallb (fun p => match queue (snd p), inprogress (snd p) with [], [] => true | _, _ => false end) (workers s).

Theorem resume_any_prefix_refuted :
  (* the uninterrupted run completes with the StopEvent ... *)
  (exists s, replay nopol (blank_state two_step) full_log 0 = Ok (s, Some (CComplete (ev 9 3)))) /\
  (* ... the log is a runner log: the third tick is exactly what tick_buffer held after the second ... *)
  (exists s, follow nopol (blank_state two_step) [] (map (fun t => (t, 0)) (firstn 2 full_log)) = Ok (s, [nth 2 full_log TCancel ; TIdleCheck])) /\
  (* ... but a process stopped after the first two persisted ticks resumes into a state that holds no work at all,
     with nothing to re-run and nothing rehydrated: s1's output is lost and the run never completes *)
  (exists r, context_from_ticks nopol two_step (firstn 2 full_log) 0 = (RExit None, Some r) /\
             running r = true /\ all_quiet r = true /\ resume_boot r 0 = Ok (r, [], [])).
Proof.
  split; [eexists; vm_compute; reflexivity |].
  split; [eexists; vm_compute; reflexivity |].
  eexists. split; [vm_compute; reflexivity |]. vm_compute. repeat split; reflexivity.
Qed.

(* resume_at_quiescent: when tick_buffer holds no add-event tick at the crash point, the resumed state holds exactly
   the work of the live configuration (state + buffer) *)
Theorem resume_at_quiescent P base log s buf now r' cs :
  Keys_ok s -> keys s = keys base ->
  follow P (blank_state base) [] log = Ok (s, buf) -> buffered_adds buf = [] ->
  rewind (from_ser base (to_ser s)) now = Ok (r', cs) ->
  forall n w, zlookup n (workers s) = Some w ->
    exists w', zlookup n (workers r') = Some w' /\ Permutation (held w') (held w ++ buffered_adds buf).
Proof.
  intros ND Hk _ Hb Hrw n w Hz. rewrite Hb, app_nil_r.
  destruct (resume_preserves_work base s now r' cs ND Hk Hrw) as [_ Hl].
  destruct (Hl n w Hz) as (w' & Hz' & Hp & _). eauto.
Qed.
