(* C04 / C31 at the runner level (Model/Runner.v): for EVERY schedule of environment actions, the published stream of
   a live run contains no terminal event, and the stream of a run that has ended with a result / a step failure / a
   cancellation / a timeout is `pre ++ [p]` where `pre` contains no terminal event and `p` is the terminal event of
   exactly that kind (with that result / exception) - nothing is published after it.
   Hypothesis on the environment (the property's own exclusion): user code does not hand-publish a StopEvent
   (tick_clean: no TPublish of a stop type, no waiter_event of a stop type). *)
From Coq Require Import List ZArith Bool PeanoNat Lia.
Import ListNotations.
From WF Require Import Model.Engine Model.Runner Proofs.EngineCap Model.ServerPersist Proofs.ServerPersistProofs
  Proofs.EngineExit Proofs.RunnerSlotsExact.
Open Scope Z_scope.

Definition term_match (k : tkind) (o : outcome_t) : Prop :=
  match k, o with
  | KCompleted e, OResult e' => e' = e
  | KFailed x, OFailed x' => x' = x
  | KTimedOut _, Runner.OTimedOut => True
  | KCancelled, Runner.OCancelled => True
  | _, _ => False
  end.

Definition no_term (stops : list Z) (l : list pub) : Prop := Forall (fun p => terminal_of stops p = None) l.

Definition ended (stops : list Z) (r : rstate) : Prop :=
  exists pre p k, published r = pre ++ [p] /\ no_term stops pre /\ terminal_of stops p = Some k /\
                  term_match k (Runner.outcome r).

Definition Ends_ok (stops : list Z) (r : rstate) : Prop :=
  match Runner.outcome r with
  | ORunning | Runner.OIdleReleased => no_term stops (published r)
  | OResult _ | OFailed _ | Runner.OCancelled | Runner.OTimedOut => ended stops r
  | OCrashed _ | OOutOfFuel => True          (* artefacts of the model (reducer error, fuel), not outcomes of a run *)
  end.

Definition ticks_clean (stops : list Z) (l : list tick) : Prop := Forall (fun t => tick_clean stops t = true) l.

Record Clean (stops : list Z) (r : rstate) : Prop := {
  cl_cfg : c_stop (cfg (st r)) = stops ;
  cl_tbuf : ticks_clean stops (tbuf r) ;
  cl_mail : ticks_clean stops (mailbox r) ;
  cl_wake : Forall (fun w : Z * Z * tick => tick_clean stops (snd w) = true) (wakeups r) ;
  cl_done : Forall (fun d : Z * nat * event * list result => forallb (result_clean stops) (snd d) = true) (donew r)
}.

Definition action_clean (stops : list Z) (a : action) : Prop :=
  match a with
  | AWorkerDone _ _ sends rs => ticks_clean stops sends /\ forallb (result_clean stops) rs = true
  | ADeliver t => tick_clean stops t = true
  | AAdvance _ => True
  end.

(* ---------- Ends_ok depends on the outcome and the published stream only ---------- *)
Lemma Ends_same stops r r2 : Runner.outcome r2 = Runner.outcome r -> published r2 = published r ->
  Ends_ok stops r -> Ends_ok stops r2.
Proof. unfold Ends_ok, ended. intros -> ->. exact (fun H => H). Qed.

Lemma Ends_frozen stops cs r : Runner.outcome r <> ORunning -> Ends_ok stops r -> Ends_ok stops (fold_left do_command cs r).
Proof.
  intros H E. destruct (nothing_published_after_exit cs r H) as [A B]. eapply Ends_same; [exact B|exact A|exact E].
Qed.

Definition pend_ok (stops : list Z) (pend : option tkind) (l : list pub) : Prop :=
  match pend with
  | None => no_term stops l
  | Some k => exists pre p, l = pre ++ [p] /\ no_term stops pre /\ terminal_of stops p = Some k
  end.

Lemma do_commands_ends stops : forall cs r pend,
  Runner.outcome r = ORunning -> cmds_wf stops pend cs -> pend_ok stops pend (published r) ->
  Ends_ok stops (fold_left do_command cs r).
Proof.
  induction cs as [|c t IH]; intros r pend O W Pk.
  - cbn in *. subst pend. unfold Ends_ok. rewrite O. exact Pk.
  - cbn [fold_left]. cbn [cmds_wf] in W. destruct pend as [k|].
    + destruct W as [X _]. destruct Pk as [pre [p [E1 [E2 E3]]]].
      apply Ends_frozen.
      * unfold do_command. rewrite O. inversion X; subst; cbn; discriminate.
      * unfold Ends_ok, ended. unfold do_command. rewrite O.
        inversion X; subst; cbn [Runner.outcome published upd];
          exists pre, p; eexists; (split; [exact E1|split; [exact E2|split; [exact E3|cbn; auto]]]).
    + destruct c.
      * destruct W as [_ W]. apply (IH _ None); [unfold do_command; rewrite O; reflexivity|exact W|].
        unfold do_command; rewrite O; exact Pk.
      * destruct W as [_ W]. apply (IH _ None).
        -- unfold do_command; rewrite O. destruct delay as [d|]; [destruct (Z.ltb 0 d)|]; reflexivity.
        -- exact W.
        -- unfold do_command; rewrite O. destruct delay as [d|]; [destruct (Z.ltb 0 d)|]; exact Pk.
      * destruct W as [X _]. discriminate X.
      * destruct W as [X _]. discriminate X.
      * destruct W as [_ W]. apply Ends_frozen.
        -- unfold do_command. rewrite O. cbn. discriminate.
        -- unfold Ends_ok, do_command. rewrite O. cbn. exact Pk.
      * destruct W as [X _]. discriminate X.
      * apply (IH _ (terminal_of stops p)); [unfold do_command; rewrite O; reflexivity|exact W|].
        unfold do_command. rewrite O. cbn [published upd].
        destruct (terminal_of stops p) as [k|] eqn:T.
        -- exists (published r), p. split; [reflexivity|split; [exact Pk|exact T]].
        -- apply Forall_app. split; [exact Pk|]. constructor; [exact T|constructor].
      * destruct W as [_ W]. apply (IH _ None).
        -- unfold do_command; rewrite O. destruct (idle_pending r); [exact O|reflexivity].
        -- exact W.
        -- unfold do_command; rewrite O. destruct (idle_pending r); exact Pk.
      * destruct W as [_ W]. apply (IH _ None); [unfold do_command; rewrite O; reflexivity|exact W|].
        unfold do_command; rewrite O; exact Pk.
Qed.

(* ---------- cleanliness is preserved ---------- *)
Lemma insert_wakeup_Forall (Q : Z * Z * tick -> Prop) w : forall l, Q w -> Forall Q l -> Forall Q (insert_wakeup w l).
Proof.
  induction l as [|h t IH]; intros Hw Hl; cbn [insert_wakeup].
  - constructor; [exact Hw|constructor].
  - destruct w as [[tw sw] kw]. destruct h as [[th sh] kh].
    destruct (Z.ltb tw th || (Z.eqb tw th && Z.ltb sw sh)).
    + constructor; [exact Hw|exact Hl].
    + inversion Hl; subst. constructor; [assumption|]. apply IH; assumption.
Qed.

Lemma do_command_clean stops r c : Clean stops r -> Clean stops (do_command r c).
Proof.
  intros [A B C D E]. unfold do_command. destruct (Runner.outcome r); try (constructor; assumption).
  destruct c.
  - constructor; assumption.
  - destruct delay as [d|]; [destruct (Z.ltb 0 d)|]; constructor; cbn [st tbuf mailbox wakeups donew upd]; try assumption.
    + apply insert_wakeup_Forall; [reflexivity|exact D].
    + apply Forall_app. split; [exact B|constructor; [reflexivity|constructor]].
    + apply Forall_app. split; [exact B|constructor; [reflexivity|constructor]].
  - destruct k; constructor; assumption.
  - constructor; assumption.
  - constructor; assumption.
  - constructor; assumption.
  - constructor; assumption.
  - destruct (idle_pending r); constructor; cbn [st tbuf mailbox wakeups donew upd]; try assumption.
    apply Forall_app. split; [exact B|constructor; [reflexivity|constructor]].
  - constructor; cbn [st tbuf mailbox wakeups donew upd]; try assumption.
    apply insert_wakeup_Forall; [reflexivity|exact D].
Qed.

Lemma do_commands_clean stops : forall cs r, Clean stops r -> Clean stops (fold_left do_command cs r).
Proof. induction cs as [|c t IH]; intros r H; cbn [fold_left]; [exact H|]. apply IH. apply do_command_clean. exact H. Qed.

Definition Inv (stops : list Z) (r : rstate) : Prop := Clean stops r /\ Ends_ok stops r.

Lemma drain_inv stops P : forall f r, Inv stops r -> Inv stops (drain_ticks P r f).
Proof.
  induction f as [|f IH]; intros r [Cl En]; cbn [drain_ticks].
  - destruct (Runner.outcome r) eqn:O; try (split; assumption). destruct (tbuf r) eqn:T; [split; assumption|].
    destruct Cl as [A B C D E]. split; [constructor; cbn [st tbuf mailbox wakeups donew upd]; try assumption; rewrite T in B; exact B|].
    unfold Ends_ok. cbn. exact I.
  - destruct (Runner.outcome r) eqn:O; try (split; assumption). destruct (tbuf r) as [|t rest] eqn:T; [split; assumption|].
    destruct Cl as [A B C D E]. rewrite T in B. pose proof (Forall_inv B) as Ht. pose proof (Forall_inv_tail B) as Hrest.
    match goal with |- context [if ?b then _ else _] => destruct b eqn:Idle end.
    + apply IH. split.
      * constructor; cbn [st tbuf mailbox wakeups donew upd]; assumption.
      * unfold Ends_ok in *. cbn [Runner.outcome published upd]. rewrite O in En. exact En.
    + cbn [st clock upd].
      destruct (reduce P t (st r) (clock r)) as [[s' cs]|c] eqn:R.
      * apply IH. split.
        -- apply do_commands_clean. unfold log_idle. destruct (publishes_idle cs);
             constructor; cbn [st tbuf mailbox wakeups donew upd log_tick]; try assumption;
             rewrite (reduce_cfg _ _ _ _ _ _ R); exact A.
        -- apply (do_commands_ends stops cs _ None).
           ++ unfold log_idle. destruct (publishes_idle cs); reflexivity.
           ++ eapply reduce_cmds_wf; [exact R|exact Ht|exact A].
           ++ unfold Ends_ok in En. rewrite O in En. unfold pend_ok, log_idle. destruct (publishes_idle cs); exact En.
      * split; [constructor; cbn [st tbuf mailbox wakeups donew upd]; assumption|]. unfold Ends_ok. cbn. exact I.
Qed.

Lemma due_clean stops now : forall l d rest, due now l = (d, rest) ->
  Forall (fun w : Z * Z * tick => tick_clean stops (snd w) = true) l ->
  ticks_clean stops d /\ Forall (fun w : Z * Z * tick => tick_clean stops (snd w) = true) rest.
Proof.
  induction l as [|[[t s] k] l IH]; intros d rest H F; cbn [due] in H.
  - inversion H; subst. split; constructor.
  - destruct (Z.leb t now).
    + destruct (due now l) as [d1 r1] eqn:E. inversion H; subst. inversion F; subst.
      destruct (IH _ _ eq_refl H3) as [X Y]. split; [constructor; [exact H2|exact X]|exact Y].
    + inversion H; subst. split; [constructor|exact F].
Qed.

Lemma Forall_firstn_skipn {A} (Q : A -> Prop) : forall n (l : list A), Forall Q l -> Forall Q (firstn n l ++ skipn (S n) l).
Proof.
  induction n as [|n IH]; intros l H; destruct l as [|a l]; cbn [firstn skipn app]; try constructor.
  - inversion H; assumption.
  - inversion H; assumption.
  - apply IH. inversion H; assumption.
Qed.

Lemma wait_inv stops r c r2 : Inv stops r -> wait_step r c = Some r2 -> Inv stops r2.
Proof.
  intros [[A B C D E] En] H. unfold wait_step in H.
  destruct (nth_error (donew r) c) as [[[[s w] ev] rs]|] eqn:N.
  - assert (forallb (result_clean stops) rs = true) as Hrs.
    { apply nth_error_In in N. rewrite Forall_forall in E. exact (E _ N). }
    destruct (has_stop (cfg (st r)) rs); injection H as <-; (split; [|eapply Ends_same; [| |exact En]; reflexivity]);
      constructor; cbn [st tbuf mailbox wakeups donew set_wait log_fire]; try assumption;
      try (apply Forall_app; split; [exact B|constructor; [exact Hrs|constructor]]).
    + constructor.
    + apply Forall_firstn_skipn. exact E.
  - destruct (donew r) eqn:Dn; [|discriminate H]. destruct (mailbox r) as [|t mb] eqn:Mb.
    + destruct (due (clock r) (wakeups r)) as [d rest] eqn:Du. destruct (due_clean stops _ _ _ _ Du D) as [X Y].
      destruct d as [|d0 dl].
      * destruct (pending r); [discriminate H|]. injection H as <-.
        split; [|eapply Ends_same; [| |exact En]; reflexivity].
        constructor; cbn [st tbuf mailbox wakeups donew set_wait log_fire]; try assumption; constructor.
      * injection H as <-. split; [|eapply Ends_same; [| |exact En]; reflexivity].
        constructor; cbn [st tbuf mailbox wakeups donew set_wait log_fire]; try assumption; try constructor.
        apply Forall_app. split; [exact B|exact X].
    + injection H as <-. inversion C; subst. split; [|eapply Ends_same; [| |exact En]; reflexivity].
      constructor; cbn [st tbuf mailbox wakeups donew set_wait log_fire]; try assumption; try constructor.
      apply Forall_app. split; [exact B|constructor; [assumption|constructor]].
Qed.

Lemma rub_inv stops P : forall f r, Inv stops r -> Inv stops (run_until_blocked P r f).
Proof.
  induction f as [|f IH]; intros r Hi; cbn [run_until_blocked].
  - destruct (Runner.outcome r) eqn:O; try exact Hi. destruct Hi as [[A B C D E] En].
    split; [constructor; cbn [st tbuf mailbox wakeups donew upd]; assumption|]. unfold Ends_ok. cbn. exact I.
  - generalize (drain_inv stops P tick_fuel r Hi). generalize (drain_ticks P r tick_fuel). intros r1 H1.
    destruct (Runner.outcome r1) eqn:O1; try exact H1.
    destruct (wait_step r1 0) as [r2|] eqn:Wt; [|exact H1].
    apply IH. eapply wait_inv; [exact H1|exact Wt].
Qed.

Lemma act_inv stops P r a : action_clean stops a -> Inv stops r -> Inv stops (act P r a).
Proof.
  intros Ha Hi. unfold act. destruct (Runner.outcome r) eqn:O; try exact Hi.
  apply rub_inv. destruct Hi as [[A B C D E] En]. destruct a as [s w sends rs|t|dt]; cbn in Ha.
  - destruct (take_worker s w (runningw r)) as [[ev run']|]; [|split; [constructor; assumption|exact En]].
    destruct Ha as [H1 H2]. split; [|eapply Ends_same; [| |exact En]; [exact (eq_sym O) |reflexivity]].
    constructor; cbn [st tbuf mailbox wakeups donew]; try assumption.
    + apply Forall_app. split; assumption.
    + apply Forall_app. split; [exact E|constructor; [exact H2|constructor]].
  - split; [|eapply Ends_same; [| |exact En]; [exact (eq_sym O)|reflexivity]].
    constructor; cbn [st tbuf mailbox wakeups donew]; try assumption.
    apply Forall_app. split; [exact C|constructor; [exact Ha|constructor]].
  - split; [|eapply Ends_same; [| |exact En]; [exact (eq_sym O)|reflexivity]].
    constructor; cbn [st tbuf mailbox wakeups donew]; assumption.
Qed.

Lemma start_inv s e now : Inv (c_stop (cfg s)) (start s e now).
Proof.
  split.
  - constructor; cbn; try constructor; try reflexivity. constructor.
  - unfold Ends_ok. cbn. constructor.
Qed.

Theorem run_ends_ok P s e now : forall acts, Forall (action_clean (c_stop (cfg s))) acts ->
  Inv (c_stop (cfg s)) (run_at P s e now acts).
Proof.
  unfold run_at. intros acts.
  generalize (rub_inv (c_stop (cfg s)) P loop_fuel _ (start_inv s e now)).
  generalize (run_until_blocked P (start s e now) loop_fuel).
  induction acts as [|a l IH]; intros r Hi F; cbn [fold_left]; [exact Hi|].
  inversion F; subst. apply IH; [|assumption]. apply act_inv; assumption.
Qed.

(* for every schedule: no terminal event on the stream of a live run; the stream of an ended run is
   (non-terminal events) ++ [the terminal event of the outcome's kind] *)
Theorem run_stream_ends_with_the_matching_terminal_event P s e now acts :
  Forall (action_clean (c_stop (cfg s))) acts -> Ends_ok (c_stop (cfg s)) (run_at P s e now acts).
Proof. intros F. exact (proj2 (run_ends_ok P s e now acts F)). Qed.

(* ---------- the four outcomes, spelled out ---------- *)
Lemma terminal_completed stops p e : terminal_of stops p = Some (KCompleted e) -> p = PEvent e /\ zmem (ety e) stops = true.
Proof.
  destruct p; cbn; try discriminate. destruct (zmem (ety e0) stops) eqn:Z; [|discriminate].
  intros H; injection H as <-. split; [reflexivity|exact Z].
Qed.
Lemma terminal_failed stops p x : terminal_of stops p = Some (KFailed x) -> exists s a el, p = PFailed s x a el.
Proof.
  destruct p; cbn; try discriminate.
  - destruct (zmem (ety e) stops); discriminate.
  - intros H; injection H as <-. eauto.
Qed.
Lemma terminal_timedout stops p t : terminal_of stops p = Some (KTimedOut t) -> exists a, p = PTimedOut t a.
Proof.
  destruct p; cbn; try discriminate.
  - destruct (zmem (ety e) stops); discriminate.
  - intros H; injection H as <-. eauto.
Qed.
Lemma terminal_cancelled stops p : terminal_of stops p = Some KCancelled -> p = PCancelled.
Proof.
  destruct p; cbn; try discriminate; [destruct (zmem (ety e) stops); discriminate|reflexivity].
Qed.

Section Outcomes.
  Variables (P : policy) (s : state) (e : event) (now : Z) (acts : list action).
  Hypothesis clean : Forall (action_clean (c_stop (cfg s))) acts.
  Let r := run_at P s e now acts.
  Let stops := c_stop (cfg s).

  Theorem run_result_is_last ev : Runner.outcome r = OResult ev ->
    exists pre, published r = pre ++ [PEvent ev] /\ no_term stops pre /\ zmem (ety ev) stops = true.
  Proof.
    intros O. pose proof (run_stream_ends_with_the_matching_terminal_event P s e now acts clean) as H.
    unfold Ends_ok in H. fold r in H. rewrite O in H. destruct H as [pre [p [k [E1 [E2 [E3 E4]]]]]].
    fold r in E1, E4. rewrite O in E4. destruct k; cbn in E4; try contradiction. subst e0.
    destruct (terminal_completed _ _ _ E3) as [-> Z]. exists pre. auto.
  Qed.

  Theorem run_failure_is_last x : Runner.outcome r = OFailed x ->
    exists pre st a el, published r = pre ++ [PFailed st x a el] /\ no_term stops pre.
  Proof.
    intros O. pose proof (run_stream_ends_with_the_matching_terminal_event P s e now acts clean) as H.
    unfold Ends_ok in H. fold r in H. rewrite O in H. destruct H as [pre [p [k [E1 [E2 [E3 E4]]]]]].
    fold r in E1, E4. rewrite O in E4. destruct k; cbn in E4; try contradiction. subst x0.
    destruct (terminal_failed _ _ _ E3) as [st0 [a [el ->]]]. exists pre, st0, a, el. auto.
  Qed.

  Theorem run_cancel_is_last : Runner.outcome r = Runner.OCancelled ->
    exists pre, published r = pre ++ [PCancelled] /\ no_term stops pre.
  Proof.
    intros O. pose proof (run_stream_ends_with_the_matching_terminal_event P s e now acts clean) as H.
    unfold Ends_ok in H. fold r in H. rewrite O in H. destruct H as [pre [p [k [E1 [E2 [E3 E4]]]]]].
    fold r in E1, E4. rewrite O in E4. destruct k; cbn in E4; try contradiction.
    rewrite (terminal_cancelled _ _ E3) in E1. exists pre. auto.
  Qed.

  Theorem run_timeout_is_last : Runner.outcome r = Runner.OTimedOut ->
    exists pre t a, published r = pre ++ [PTimedOut t a] /\ no_term stops pre.
  Proof.
    intros O. pose proof (run_stream_ends_with_the_matching_terminal_event P s e now acts clean) as H.
    unfold Ends_ok in H. fold r in H. rewrite O in H. destruct H as [pre [p [k [E1 [E2 [E3 E4]]]]]].
    fold r in E1, E4. rewrite O in E4. destruct k; cbn in E4; try contradiction.
    destruct (terminal_timedout _ _ _ E3) as [a ->]. exists pre, t, a. auto.
  Qed.

  Theorem run_live_has_no_terminal : Runner.outcome r = ORunning -> no_term stops (published r).
  Proof.
    intros O. pose proof (run_stream_ends_with_the_matching_terminal_event P s e now acts clean) as H.
    unfold Ends_ok in H. fold r in H. rewrite O in H. exact H.
  Qed.
End Outcomes.
