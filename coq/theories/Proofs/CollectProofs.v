(* C09: collect_events — what a returned list is, when it is returned, and what the reducer does
   with the add/delete results (fresh vs stale snapshot). *)
From Coq Require Import List ZArith Bool PeanoNat Lia Permutation.
Import ListNotations.
From WF Require Import Model.Engine Model.Collect Proofs.EngineCap.
Open Scope Z_scope.

(* ---------- take_first / pick ---------- *)
Lemma take_first_spec t : forall pool x pool',
  take_first t pool = Some (x, pool') ->
  ety x = t /\ Permutation pool (x :: pool') /\
  exists pre, pool = pre ++ x :: skipn (length pre) pool' /\ pool' = pre ++ skipn (length pre) pool' /\
              Forall (fun e => ety e <> t) pre.
Proof.
  induction pool as [|e r IH]; intros x pool' H; cbn [take_first] in H; [discriminate|].
  destruct (Z.eqb_spec (ety e) t) as [E|E].
  - inversion H; subst. split; [reflexivity|]. split; [apply Permutation_refl|].
    exists []. cbn. repeat split; constructor.
  - destruct (take_first t r) as [[y r']|] eqn:T; [|discriminate]. inversion H; subst.
    destruct (IH _ _ eq_refl) as [H1 [H2 [pre [H3 [H4 H5]]]]]. split; [exact H1|]. split.
    + eapply Permutation_trans; [apply perm_skip; exact H2|apply perm_swap].
    + exists (e :: pre). cbn [length skipn app]. repeat split.
      * f_equal. exact H3.
      * f_equal. exact H4.
      * constructor; assumption.
Qed.

(* a returned list has exactly the expected types, in the order of `expected`, and uses each pooled
   event at most once: it is a sub-multiset of the pool (rest = what was not used) *)
Lemma pick_spec : forall expected pool l,
  pick expected pool = Some l ->
  map ety l = expected /\ exists rest, Permutation pool (l ++ rest).
Proof.
  induction expected as [|t ts IH]; intros pool l H; cbn [pick] in H.
  - inversion H; subst. split; [reflexivity|]. exists pool. apply Permutation_refl.
  - destruct (take_first t pool) as [[x pool']|] eqn:T; [|discriminate].
    destruct (pick ts pool') as [l'|] eqn:P; [|discriminate]. inversion H; subst.
    destruct (take_first_spec _ _ _ _ T) as [E [Pm _]].
    destruct (IH _ _ P) as [Ty [rest Pr]]. split.
    + cbn [map]. rewrite E, Ty. reflexivity.
    + exists rest. cbn [app]. eapply Permutation_trans; [exact Pm|]. apply perm_skip. exact Pr.
Qed.

(* ---------- counting ---------- *)
Fixpoint zcount (t : Z) (l : list Z) : nat :=
  match l with [] => O | h :: r => (if Z.eqb h t then 1 else 0) + zcount t r end%nat.
Definition tcount (t : Z) (l : list event) : nat := zcount t (map ety l).

Lemma zcount_remove_one t u l :
  zcount u (remove_one t l) = (if Z.eqb t u then pred (zcount u l) else zcount u l).
Proof.
  induction l as [|h r IH]; cbn [remove_one zcount].
  - destruct (Z.eqb t u); reflexivity.
  - destruct (Z.eqb_spec h t) as [->|Hne].
    + destruct (Z.eqb_spec t u) as [->|Hne2]; [cbn; reflexivity|].
      destruct (Z.eqb_spec t u); [contradiction|reflexivity].
    + cbn [zcount]. rewrite IH. destruct (Z.eqb_spec t u) as [->|Hne2].
      * destruct (Z.eqb_spec h u) as [->|_]; [contradiction|reflexivity].
      * reflexivity.
Qed.

Lemma zcount_remaining u : forall buf expected,
  zcount u (remaining expected buf) = (zcount u expected - tcount u buf)%nat.
Proof.
  unfold remaining, tcount. induction buf as [|e r IH]; intros expected; cbn [fold_left map zcount].
  - lia.
  - rewrite IH, zcount_remove_one. destruct (Z.eqb (ety e) u); lia.
Qed.

Lemma tcount_app u a b : tcount u (a ++ b) = (tcount u a + tcount u b)%nat.
Proof. unfold tcount. rewrite map_app. induction (map ety a) as [|h r IH]; cbn [app zcount]; lia. Qed.

Lemma take_first_some t : forall pool, (1 <= tcount t pool)%nat -> exists x pool', take_first t pool = Some (x, pool').
Proof.
  unfold tcount. induction pool as [|e r IH]; cbn [map zcount take_first]; intros H; [lia|].
  destruct (Z.eqb (ety e) t); [eauto|]. destruct (IH ltac:(lia)) as [x [p' ->]]. eauto.
Qed.

Lemma take_first_count t u : forall pool x pool',
  take_first t pool = Some (x, pool') -> tcount u pool = ((if Z.eqb t u then 1 else 0) + tcount u pool')%nat.
Proof.
  unfold tcount. induction pool as [|e r IH]; intros x pool' H; cbn [take_first] in H; [discriminate|].
  destruct (Z.eqb_spec (ety e) t) as [E|E].
  - inversion H; subst. cbn [map zcount]. reflexivity.
  - destruct (take_first t r) as [[y r']|] eqn:T; [|discriminate]. inversion H; subst.
    cbn [map zcount]. rewrite (IH _ _ eq_refl). lia.
Qed.

(* pop(0) never raises when every expected type is available often enough *)
Lemma pick_succeeds : forall expected pool,
  (forall u, (zcount u expected <= tcount u pool)%nat) -> exists l, pick expected pool = Some l.
Proof.
  induction expected as [|t ts IH]; intros pool H; cbn [pick]; [eauto|].
  destruct (take_first_some t pool) as [x [pool' T]].
  { specialize (H t). cbn [zcount] in H. rewrite Z.eqb_refl in H. lia. }
  rewrite T. destruct (IH pool') as [l P].
  { intros u. specialize (H u). cbn [zcount] in H. rewrite (take_first_count _ u _ _ _ T) in H.
    destruct (Z.eqb t u); lia. }
  rewrite P. eauto.
Qed.

Lemma is_singleton_spec t l : is_singleton t l = true <-> l = [t].
Proof.
  destruct l as [|x [|y r]]; cbn; split; intros H; try discriminate.
  - apply Z.eqb_eq in H. subst. reflexivity.
  - inversion H. apply Z.eqb_refl.
Qed.

(* ---------- collect ---------- *)
Definition buf_of (b : Z) (coll : list (Z * list event)) : list event :=
  match zlookup b coll with Some l => l | None => [] end.

(* a list is returned exactly when the buffer plus the incoming event completes the expected multiset:
   what is still missing is precisely one event of the incoming type *)
Theorem collect_returns_iff b coll ev expected :
  expected <> [] ->
  ((exists l rs, collect b coll ev expected = CReturn l rs) <->
   remaining expected (buf_of b coll) = [ety ev]).
Proof.
  intros Hne. unfold collect, buf_of. destruct expected as [|t ts]; [contradiction|].
  set (buf := match zlookup b coll with Some l => l | None => [] end).
  split.
  - intros [l [rs H]]. destruct (is_singleton _ _) eqn:S.
    + apply is_singleton_spec in S. exact S.
    + destruct (zmem _ _); discriminate.
  - intros R. rewrite R. cbn [is_singleton]. rewrite Z.eqb_refl.
    destruct (pick_succeeds (t :: ts) (buf ++ [ev])) as [l P].
    { intros u. pose proof (zcount_remaining u buf (t :: ts)) as C. rewrite R in C.
      rewrite tcount_app. unfold tcount at 2. cbn [map zcount] in *. lia. }
    rewrite P. eauto.
Qed.

(* never IndexError *)
Theorem collect_no_index_error b coll ev expected : collect b coll ev expected <> CIndexError.
Proof.
  unfold collect. destruct expected as [|t ts]; [discriminate|].
  set (buf := match zlookup b coll with Some l => l | None => [] end).
  destruct (is_singleton _ _) eqn:S; [|destruct (zmem _ _); discriminate].
  apply is_singleton_spec in S.
  destruct (pick_succeeds (t :: ts) (buf ++ [ev])) as [l P].
  { intros u. pose proof (zcount_remaining u buf (t :: ts)) as C. rewrite S in C.
    rewrite tcount_app. unfold tcount at 2. cbn [map zcount] in *. lia. }
  rewrite P. discriminate.
Qed.

(* the returned list: one event of every expected type, ordered as `expected`; every element comes from
   the buffer or is the incoming event, each used at most once; the incoming event is one of them; the
   only recorded effect is the deletion of the buffer *)
Theorem collect_returned_list b coll ev expected l rs :
  collect b coll ev expected = CReturn l rs -> expected <> [] ->
  map ety l = expected /\
  (exists rest, Permutation (buf_of b coll ++ [ev]) (l ++ rest)) /\
  rs = [RDelColl b].
Proof.
  unfold collect, buf_of. intros H Hne. destruct expected as [|t ts]; [contradiction|].
  set (buf := match zlookup b coll with Some l => l | None => [] end) in *.
  destruct (is_singleton _ _); [|destruct (zmem _ _); discriminate].
  destruct (pick _ _) as [l0|] eqn:P; [|discriminate]. inversion H; subst.
  destruct (pick_spec _ _ _ P) as [Ty Pm]. repeat split; assumption.
Qed.

(* when nothing is returned the incoming event is buffered iff its type is still missing, and nothing else happens *)
Theorem collect_none b coll ev expected rs :
  collect b coll ev expected = CNone rs ->
  rs = if zmem (ety ev) (remaining expected (buf_of b coll)) then [RAddColl b ev] else [].
Proof.
  unfold collect, buf_of. destruct expected as [|t ts]; [discriminate|].
  destruct (is_singleton _ _) eqn:S.
  - destruct (pick _ _); discriminate.
  - destruct (zmem _ _); intros H; inversion H; reflexivity.
Qed.

Theorem collect_empty_expected b coll ev : collect b coll ev [] = CReturn [] [].
Proof. reflexivity. Qed.

(* ---------- the reducer half ---------- *)
Definition snap_buf (b : Z) (i : inprog) : list event := buf_of b (s_coll (i_snap i)).

(* an add whose snapshot is not stale appends exactly the event to the buffer: nothing lost, nothing doubled *)
Theorem add_collected_fresh P step tev dc now a b e a' :
  one_result P step tev dc now a (RAddColl b e) = Ok a' ->
  (length (buf_of b (collected (k_w a))) <= length (snap_buf b (k_this a)))%nat ->
  buf_of b (collected (k_w a')) = buf_of b (collected (k_w a)) ++ [e] /\
  (forall b', b' <> b -> buf_of b' (collected (k_w a')) = buf_of b' (collected (k_w a))) /\
  k_cmds a' = k_cmds a /\ k_keep a' = k_keep a /\ inprogress (k_w a') = inprogress (k_w a).
Proof.
  unfold one_result, snap_buf, buf_of. intros H Hl.
  set (cur := match zlookup b (collected (k_w a)) with Some l => l | None => [] end) in *.
  set (sent := match zlookup b (s_coll (i_snap (k_this a))) with Some l => l | None => [] end) in *.
  destruct (Nat.ltb (length sent) (length cur)) eqn:E; [apply Nat.ltb_lt in E; lia|].
  inversion H; subst; clear H. cbn [k_w k_cmds k_keep collected inprogress set_w].
  repeat split.
  - rewrite zlookup_zupdate_eq. reflexivity.
  - intros b' Hne. rewrite zlookup_zupdate_neq by exact Hne.
    destruct (zlookup b (collected (k_w a))) eqn:L; [reflexivity|].
    clear -Hne L. induction (collected (k_w a)) as [|[k v] t IH]; cbn [app zlookup].
    + destruct (Z.eqb_spec b' b); [contradiction|reflexivity].
    + cbn [zlookup] in L. destruct (Z.eqb b k); [discriminate|]. destruct (Z.eqb b' k); [reflexivity|apply IH; exact L].
Qed.

(* an add whose snapshot is stale (the buffer grew since the invocation started) changes no buffer: the
   same invocation is re-run on the same slot with the refreshed snapshot and its slot is kept *)
Theorem add_collected_stale P step tev dc now a b e a' :
  one_result P step tev dc now a (RAddColl b e) = Ok a' ->
  (length (snap_buf b (k_this a)) < length (buf_of b (collected (k_w a))))%nat ->
  (forall b', buf_of b' (collected (k_w a')) = buf_of b' (collected (k_w a))) /\
  k_cmds a' = k_cmds a ++ [CRunWorker step e (i_wid (k_this a))] /\ k_keep a' = true /\
  s_coll (i_snap (k_this a')) = collected (k_w a') /\ i_wid (k_this a') = i_wid (k_this a).
Proof.
  unfold one_result, snap_buf, buf_of. intros H Hl.
  set (cur := match zlookup b (collected (k_w a)) with Some l => l | None => [] end) in *.
  set (sent := match zlookup b (s_coll (i_snap (k_this a))) with Some l => l | None => [] end) in *.
  destruct (Nat.ltb (length sent) (length cur)) eqn:E; [|apply Nat.ltb_ge in E; lia].
  inversion H; subst; clear H. cbn [k_w k_cmds k_keep k_this collected set_w i_snap with_snap s_coll i_wid].
  repeat split.
  intros b'. subst cur. destruct (zlookup b (collected (k_w a))) eqn:L; [reflexivity|].
  cbn [length] in Hl. lia.
Qed.

(* a completing invocation deletes the whole buffer, whatever its snapshot was *)
Theorem del_collected_completes P step tev now a b a' :
  one_result P step tev true now a (RDelColl b) = Ok a' ->
  collected (k_w a') = zremove b (collected (k_w a)) /\ k_cmds a' = k_cmds a.
Proof. unfold one_result. intros H; inversion H; subst. split; reflexivity. Qed.

(* what collect_events returns inside the invocation running on slot `wid` of `step`: it reads the
   snapshot taken when the invocation started (run_worker passes worker.shared_state) *)
Definition invocation_collect (s : state) (step : Z) (wid : nat) (b : Z) (expected : list Z) : option collect_out :=
  match zlookup step (workers s) with
  | None => None
  | Some w => match find_ip wid (inprogress w) with
              | None => None
              | Some i => Some (collect b (s_coll (i_snap i)) (i_ev i) expected)
              end
  end.
