(* Proofs about M-Serde: decode (encode v) = Some v for every value that conforms to its kind
   (events with typed / dynamic fields / result / nested events, exceptions of message-faithful
   classes, arrays, tick objects, discriminated unions), for the three codecs. *)
From Coq Require Import List ZArith Bool Lia.
Import ListNotations.
From WF Require Import Model.Serde.
Open Scope Z_scope.

(* ---------- induction principle for the nested inductive tval ---------- *)
Section TvalInd.
Variable P : tval -> Prop.
Hypothesis HJ : forall j, P (TJ j).
Hypothesis HX : forall c m, P (TX c m).
Hypothesis HE : forall c ty dy r, Forall (fun kx => P (snd kx)) ty -> P (TE c ty dy r).
Hypothesis HA : forall l, Forall P l -> P (TArr l).
Hypothesis HO : forall kv, Forall (fun kx => P (snd kx)) kv -> P (TObj kv).
Fixpoint tval_ind' (v : tval) : P v :=
  match v with
  | TJ j => HJ j
  | TX c m => HX c m
  | TE c ty dy r =>
    HE c ty dy r ((fix go (l : list (Z * tval)) : Forall (fun kx => P (snd kx)) l :=
                     match l with
                     | [] => Forall_nil _
                     | kx :: rest => Forall_cons kx (tval_ind' (snd kx)) (go rest)
                     end) ty)
  | TArr l =>
    HA l ((fix go (l : list tval) : Forall P l :=
             match l with
             | [] => Forall_nil _
             | x :: rest => Forall_cons x (tval_ind' x) (go rest)
             end) l)
  | TObj kv =>
    HO kv ((fix go (l : list (Z * tval)) : Forall (fun kx => P (snd kx)) l :=
              match l with
              | [] => Forall_nil _
              | kx :: rest => Forall_cons kx (tval_ind' (snd kx)) (go rest)
              end) kv)
  end.
End TvalInd.

(* ---------- association lists ---------- *)
Lemma jget_app {A} k (a b : list (Z * A)) :
  jget k (a ++ b) = match jget k a with Some v => Some v | None => jget k b end.
Proof.
  induction a as [|[k' v] a IH]; simpl; auto. destruct (Z.eqb k k'); auto.
Qed.
Lemma jget_none {A} k (l : list (Z * A)) : ~ In k (map fst l) -> jget k l = None.
Proof.
  induction l as [|[k' v] l IH]; simpl; auto. intro H.
  destruct (Z.eqb k k') eqn:Q.
  - apply Z.eqb_eq in Q. exfalso. apply H. left; auto.
  - apply IH. intro; apply H; right; auto.
Qed.
Lemma jget_some_in {A} k (l : list (Z * A)) v : jget k l = Some v -> In k (map fst l).
Proof.
  induction l as [|[k' v'] l IH]; simpl; [discriminate|].
  destruct (Z.eqb k k') eqn:Q.
  - apply Z.eqb_eq in Q. intros _. left; auto.
  - intro H. right; auto.
Qed.
Lemma zin_In k l : zin k l = true <-> In k l.
Proof.
  unfold zin. rewrite existsb_exists. split.
  - intros [y [H1 H2]]. apply Z.eqb_eq in H2. subst; auto.
  - intro H. exists k. split; auto. apply Z.eqb_refl.
Qed.

Lemma filter_all_false {A} (f : A -> bool) l : (forall x, In x l -> f x = false) -> filter f l = [].
Proof.
  induction l as [|a l IH]; simpl; auto. intro H.
  rewrite (H a (or_introl eq_refl)). apply IH. intros; apply H; auto.
Qed.

Section Proofs.
Variable ct : Z -> option cinfo.
Variable xt : Z -> xinfo.

(* ---------- exceptions ---------- *)
(* the class can be rebuilt from its message: importable, and either cls(m) gives str = m, or
   cls(m) fails with a non-lookup error and the __new__ path gives str = m *)
Definition faithful (c m : Z) : Prop :=
  x_importable (xt c) = true /\
  (x_ctor (xt c) m = CtorOk m \/ (x_ctor (xt c) m = CtorOtherError /\ x_new (xt c) m = Some m)).

Lemma dec_enc_exn c m : faithful c m -> dec_exn xt (enc_exn c m) = Some (TX c m).
Proof.
  intros [Hi [Hc|[Hc Hn]]]; unfold dec_exn, enc_exn; cbn [jget]; cbv [k_exc_type k_exc_msg];
    cbn [Z.eqb Pos.eqb]; rewrite Hi, Hc; auto.
  rewrite Hn, Z.eqb_refl. reflexivity.
Qed.

(* after the fix the decoder never fails on an encoded exception, and the message is kept unless a
   successfully running constructor changed it *)
Lemma dec_enc_exn_total c m :
  exists c' m', dec_exn xt (enc_exn c m) = Some (TX c' m') /\
                (m' = m \/ x_ctor (xt c) m = CtorOk m') /\ (c' = c \/ c' = exc_base).
Proof.
  unfold dec_exn, enc_exn; cbn [jget]; cbv [k_exc_type k_exc_msg]; cbn [Z.eqb Pos.eqb].
  destruct (x_importable (xt c)); [|exists exc_base, m; auto].
  destruct (x_ctor (xt c) m) as [m'| |] eqn:C.
  - exists c, m'. auto.
  - exists exc_base, m. auto.
  - destruct (x_new (xt c) m) as [m2|]; [|exists exc_base, m; auto].
    destruct (Z.eqb m2 m); [exists c, m | exists exc_base, m]; auto.
Qed.

(* ---------- conformance of a value to a kind ---------- *)
Fixpoint conf (v : tval) (k : kind) {struct v} : Prop :=
  match v with
  | TJ j => match k with KJson => True | KOptExn | KOptEvent => j = JNull | _ => False end
  | TX c m => match k with KExn | KOptExn => faithful c m | _ => False end
  | TE c ty dy r =>
    match k with
    | KEvent | KOptEvent =>
      c <> 0 /\ exists ci, ct c = Some ci /\ (c_stop ci = false -> r = JNull)
        /\ ~ In k_data (map fst ty) /\ (c_stop ci = true -> ~ In k_result (map fst ty))
        /\ incl (map fst (c_fields ci)) (map fst ty)
        /\ (fix all (l : list (Z * tval)) : Prop :=
              match l with
              | [] => True
              | (n, x) :: rest => (exists kk, jget n (c_fields ci) = Some kk /\ conf x kk) /\ all rest
              end) ty
    | _ => False
    end
  | TArr l =>
    match k with
    | KArr kk => (fix all (l : list tval) : Prop :=
                    match l with [] => True | x :: rest => conf x kk /\ all rest end) l
    | _ => False
    end
  | TObj kv =>
    match k with
    | KObj fs =>
      (fix all (l : list (Z * tval)) : Prop :=
         match l with
         | [] => True
         | (n, x) :: rest => (exists kk, jget n fs = Some kk /\ conf x kk) /\ all rest
         end) kv
    | KUnion alts =>
      exists t fs, jget k_type kv = Some (TJ (JStr t)) /\ jget t alts = Some fs /\
        (fix all (l : list (Z * tval)) : Prop :=
           match l with
           | [] => True
           | (n, x) :: rest => (exists kk, jget n fs = Some kk /\ conf x kk) /\ all rest
           end) kv
    | _ => False
    end
  end.

(* the list-level condition, as a definition we can name *)
Fixpoint fields_conf (fs : list (Z * kind)) (l : list (Z * tval)) : Prop :=
  match l with
  | [] => True
  | (n, x) :: rest => (exists kk, jget n fs = Some kk /\ conf x kk) /\ fields_conf fs rest
  end.
Fixpoint list_conf (kk : kind) (l : list tval) : Prop :=
  match l with [] => True | x :: rest => conf x kk /\ list_conf kk rest end.

Definition dumpf (kx : Z * tval) : Z * json := (fst kx, dump ct true (snd kx)).

Lemma map_fst_dumpf l : map fst (map dumpf l) = map fst l.
Proof. induction l as [|[k x] l IH]; simpl; congruence. Qed.

Lemma jget_dumpf k l : jget k (map dumpf l) = option_map (dump ct true) (jget k l).
Proof.
  induction l as [|[k' x] l IH]; simpl; auto. destruct (Z.eqb k k'); auto.
Qed.

Lemma dec_fields_app dec a b fs :
  dec_fields dec (a ++ b) fs =
  opt_bind (dec_fields dec a fs) (fun x => opt_bind (dec_fields dec b fs) (fun y => Some (x ++ y))).
Proof.
  induction a as [|[k v] a IH]; simpl.
  - destruct (dec_fields dec b fs); reflexivity.
  - destruct (jget k fs) as [kk|]; auto.
    destruct (dec v kk) as [tv|]; simpl; auto.
    rewrite IH. destruct (dec_fields dec a fs) as [x|]; simpl; auto.
    destruct (dec_fields dec b fs); reflexivity.
Qed.
Lemma dec_fields_skip dec b fs :
  (forall k, In k (map fst b) -> jget k fs = None) -> dec_fields dec b fs = Some [].
Proof.
  induction b as [|[k v] b IH]; simpl; auto. intro H.
  rewrite (H k (or_introl eq_refl)). apply IH. intros; apply H; auto.
Qed.

Lemma dec_fields_typed fs l :
  Forall (fun kx => forall k, conf (snd kx) k -> decode ct xt (dump ct true (snd kx)) k = Some (snd kx)) l ->
  fields_conf fs l ->
  dec_fields (decode ct xt) (map dumpf l) fs = Some l.
Proof.
  induction l as [|[n x] l IH]; simpl; auto.
  intros HF [[kk [Hk Hc]] Hrest]. inversion HF as [|? ? H1 H2]; subst. simpl in H1.
  rewrite Hk, (H1 kk Hc). simpl. rewrite (IH H2 Hrest). reflexivity.
Qed.
Lemma dec_list_ok kk l :
  Forall (fun x => forall k, conf x k -> decode ct xt (dump ct true x) k = Some x) l ->
  list_conf kk l ->
  dec_list (decode ct xt) (map (dump ct true) l) kk = Some l.
Proof.
  induction l as [|x l IH]; simpl; auto.
  intros HF [Hc Hrest]. inversion HF as [|? ? H1 H2]; subst.
  rewrite (H1 kk Hc). simpl. rewrite (IH H2 Hrest). reflexivity.
Qed.

Lemma fields_conf_names fs l n : fields_conf fs l -> In n (map fst l) -> In n (map fst fs).
Proof.
  induction l as [|[n' x] l IH]; simpl; [intros _ []|].
  intros [[kk [Hk _]] Hr] [<-|Hn]; [eapply jget_some_in; eauto | auto].
Qed.

(* the body of a dumped event *)
Definition body (c : Z) (ty : list (Z * tval)) (dy : list (Z * json)) (r : json) : list (Z * json) :=
  map dumpf ty ++ data_entry ct true c dy ++ result_entry r.

Lemma dump_TE c ty dy r : dump ct true (TE c ty dy r) = tag c (JObj (body c ty dy r)).
Proof. reflexivity. Qed.

Lemma data_entry_keys c dy k : In k (map fst (data_entry ct true c dy)) -> k = k_data.
Proof. unfold data_entry. destruct dy; simpl; [intros []|]. intros [<-|[]]; auto. Qed.
Lemma result_entry_keys r k : In k (map fst (result_entry r)) -> k = k_result.
Proof. unfold result_entry. destruct r; simpl; try (intros [<-|[]]; auto). intros []. Qed.

Lemma build_event_ok c ci ty dy r :
  (c_stop ci = false -> r = JNull) ->
  ~ In k_data (map fst ty) -> (c_stop ci = true -> ~ In k_result (map fst ty)) ->
  incl (map fst (c_fields ci)) (map fst ty) ->
  fields_conf (c_fields ci) ty ->
  build_event c ci (body c ty dy r) ty = Some (TE c ty dy r).
Proof.
  intros Hr Hd Hres Hincl Hconf. unfold build_event.
  assert (Fst : map fst (body c ty dy r) =
                map fst ty ++ map fst (data_entry ct true c dy) ++ map fst (result_entry r)).
  { unfold body. rewrite !map_app, map_fst_dumpf. reflexivity. }
  (* required fields present *)
  assert (Req : forallb (fun f => zin (fst f) (map fst (body c ty dy r))) (c_fields ci) = true).
  { apply forallb_forall. intros [n kk] Hin. simpl. apply zin_In. rewrite Fst. apply in_or_app. left.
    apply Hincl. apply in_map_iff. exists (n, kk). auto. }
  rewrite Req.
  (* _data *)
  assert (Gd : jget k_data (body c ty dy r) = match dy with [] => None | _ => Some (JObj dy) end).
  { unfold body. rewrite jget_app, jget_dumpf, (jget_none k_data ty Hd). simpl.
    rewrite jget_app. unfold data_entry. destruct dy as [|e dy']; simpl.
    - unfold result_entry. destruct r; reflexivity.
    - reflexivity. }
  rewrite Gd.
  (* no extras *)
  assert (Ex : extras (map fst (c_fields ci)) (c_stop ci) (body c ty dy r) = []).
  { unfold extras. clear Gd Req Fst.
    assert (G : forall e, In e (body c ty dy r) ->
              negb (zin (fst e) (map fst (c_fields ci))) && negb (Z.eqb (fst e) k_data)
              && negb (c_stop ci && Z.eqb (fst e) k_result) = false).
    { intros e He. unfold body in He. apply in_app_or in He. destruct He as [He|He].
      - assert (In (fst e) (map fst (c_fields ci))).
        { eapply fields_conf_names; eauto. rewrite <- (map_fst_dumpf ty). apply in_map; auto. }
        apply zin_In in H. rewrite H. reflexivity.
      - apply in_app_or in He. destruct He as [He|He].
        + assert (fst e = k_data) by (apply (data_entry_keys c dy); apply in_map; auto).
          rewrite H, Z.eqb_refl. simpl. rewrite andb_false_r. reflexivity.
        + assert (fst e = k_result) by (apply (result_entry_keys r); apply in_map; auto).
          rewrite H, Z.eqb_refl. destruct (c_stop ci) eqn:S.
          * simpl. rewrite andb_false_r. reflexivity.
          * rewrite (Hr eq_refl) in He. destruct He. }
    apply filter_all_false. exact G. }
  rewrite Ex.
  (* result *)
  assert (Gr : (if c_stop ci then match jget k_result (body c ty dy r) with Some x => x | None => JNull end
                else JNull) = r).
  { destruct (c_stop ci) eqn:S; [|symmetry; auto].
    unfold body. rewrite jget_app, jget_dumpf, (jget_none k_result ty (Hres eq_refl)). simpl.
    rewrite jget_app. unfold data_entry. destruct dy as [|e dy']; simpl; unfold result_entry; destruct r; reflexivity. }
  destruct dy as [|e dy']; simpl fold_left; rewrite Gr; reflexivity.
Qed.

(* ---------- the round-trip theorem ---------- *)
Lemma conf_fields_conf_TE ci ty :
  (fix all (l : list (Z * tval)) : Prop :=
     match l with
     | [] => True
     | (n, x) :: rest => (exists kk, jget n (c_fields ci) = Some kk /\ conf x kk) /\ all rest
     end) ty = fields_conf (c_fields ci) ty.
Proof. induction ty as [|[n x] ty IH]; simpl; congruence. Qed.
Lemma conf_fields_conf fs kv :
  (fix all (l : list (Z * tval)) : Prop :=
     match l with
     | [] => True
     | (n, x) :: rest => (exists kk, jget n fs = Some kk /\ conf x kk) /\ all rest
     end) kv = fields_conf fs kv.
Proof. induction kv as [|[n x] kv IH]; simpl; congruence. Qed.
Lemma conf_list_conf kk l :
  (fix all (l : list tval) : Prop :=
     match l with [] => True | x :: rest => conf x kk /\ all rest end) l = list_conf kk l.
Proof. induction l as [|x l IH]; simpl; congruence. Qed.

Lemma dump_map_dumpf kv : map (fun kx => (fst kx, dump ct true (snd kx))) kv = map dumpf kv.
Proof. reflexivity. Qed.

Theorem decode_dump : forall v k, conf v k -> decode ct xt (dump ct true v) k = Some v.
Proof.
  induction v as [j|c m|c ty dy r IH|l IH|kv IH] using tval_ind'; intros k Hc.
  - destruct k; simpl in Hc; try contradiction; subst; try reflexivity. destruct j; reflexivity.
  - destruct k; simpl in Hc; try contradiction; simpl.
    + apply dec_enc_exn; auto.
    + change (dec_exn xt (enc_exn c m) = Some (TX c m)). apply dec_enc_exn; auto.
  - assert (Hc' : c <> 0 /\ exists ci, ct c = Some ci /\ (c_stop ci = false -> r = JNull)
                  /\ ~ In k_data (map fst ty) /\ (c_stop ci = true -> ~ In k_result (map fst ty))
                  /\ incl (map fst (c_fields ci)) (map fst ty) /\ fields_conf (c_fields ci) ty).
    { destruct k; simpl in Hc; try contradiction;
        destruct Hc as [H0 [ci (H1 & H2 & H3 & H4 & H5 & H6)]]; split; auto; exists ci;
        rewrite conf_fields_conf_TE in H6; auto 10. }
    destruct Hc' as [Hne [ci (Hct & Hr & Hd & Hres & Hincl & Hconf)]].
    assert (KE : k = KEvent \/ k = KOptEvent) by (destruct k; simpl in Hc; try contradiction; auto).
    rewrite dump_TE.
    assert (Core : with_value (fun v => match v with
                     | JObj kvb => opt_bind (dec_fields (decode ct xt) kvb (c_fields ci)) (build_event c ci kvb)
                     | _ => None end)
                     [(k_ispyd, JBool true); (k_value, JObj (body c ty dy r)); (k_qname, JStr c)]
                   = Some (TE c ty dy r)).
    { cbn [with_value]. cbv [k_ispyd k_value]. cbn [Z.eqb Pos.eqb].
      unfold body at 1. rewrite dec_fields_app, (dec_fields_typed _ _ IH Hconf). simpl.
      rewrite dec_fields_skip.
      - simpl. rewrite app_nil_r. apply build_event_ok; auto.
      - intros k0 Hk0. rewrite map_app in Hk0. apply in_app_or in Hk0. apply jget_none. intro Hin.
        destruct Hk0 as [Hk0|Hk0].
        + apply data_entry_keys in Hk0. subst. apply Hd. apply Hincl; auto.
        + destruct (c_stop ci) eqn:S.
          * apply result_entry_keys in Hk0. subst. apply (Hres eq_refl). apply Hincl; auto.
          * rewrite (Hr eq_refl) in Hk0. destruct Hk0. }
    assert (Cne : negb (Z.eqb c 0) = true) by (apply negb_true_iff, Z.eqb_neq; auto).
    destruct KE as [-> | ->]; unfold tag; cbn [decode jget]; cbv [k_ispyd k_qname k_value];
      cbn [Z.eqb Pos.eqb truthy andb]; rewrite Cne, Hct; exact Core.
  - destruct k; simpl in Hc; try contradiction. rewrite conf_list_conf in Hc.
    cbn [dump decode]. rewrite (dec_list_ok _ _ IH Hc). reflexivity.
  - destruct k; simpl in Hc; try contradiction.
    + rewrite conf_fields_conf in Hc. cbn [dump decode]. rewrite dump_map_dumpf.
      rewrite (dec_fields_typed _ _ IH Hc). reflexivity.
    + destruct Hc as [t [fs (Ht & Ha & Hf)]]. rewrite conf_fields_conf in Hf.
      cbn [dump decode]. rewrite dump_map_dumpf, jget_dumpf, Ht. simpl. rewrite Ha.
      rewrite (dec_fields_typed _ _ IH Hf). reflexivity.
Qed.
End Proofs.

(* ---------- the three codecs ---------- *)
Section CodecTheorems.
Variable ct : Z -> option cinfo.
Variable xt : Z -> xinfo.

Theorem json_roundtrip e :
  conf ct xt e KEvent -> json_decode ct xt (json_encode ct true e) = Some e.
Proof. apply decode_dump. Qed.

Theorem tick_roundtrip shape t :
  conf ct xt t shape -> tick_decode ct xt shape (tick_encode ct true t) = Some t.
Proof. apply decode_dump. Qed.

Lemma reg_lookup_sound registry name : forall acc c',
  fold_left (fun acc c => match ct c with
                          | Some i => if Z.eqb (c_name i) name then Some c else acc
                          | None => acc end) registry acc = Some c' ->
  acc = Some c' \/ (In c' registry /\ exists ci', ct c' = Some ci' /\ c_name ci' = name).
Proof.
  induction registry as [|c l IH]; simpl; intros acc c' H; auto.
  apply IH in H. destruct H as [H|[H1 H2]]; [|right; auto].
  destruct (ct c) as [i|] eqn:E; auto.
  destruct (Z.eqb (c_name i) name) eqn:Q; auto.
  inversion H; subst. right. split; auto. exists i. split; auto. apply Z.eqb_eq; auto.
Qed.

Theorem env_roundtrip registry c ty dy r ci :
  conf ct xt (TE c ty dy r) KEvent -> ct c = Some ci ->
  (forall c' ci', In c' registry -> ct c' = Some ci' -> c_name ci' = c_name ci -> c' = c) ->
  env_decode ct xt registry (env_encode ct true (TE c ty dy r)) = Some (TE c ty dy r).
Proof.
  intros Hc Hct Huniq.
  pose proof (decode_dump ct xt _ _ Hc) as D. rewrite dump_TE in D.
  assert (Hne : c <> 0) by (simpl in Hc; tauto).
  unfold env_encode. rewrite dump_TE, Hct.
  unfold untag_value, tag. cbn [jget]. cbv [k_ispyd k_value]. cbn [Z.eqb Pos.eqb].
  unfold env_decode. cbn [jget]. cbv [k_value k_qname k_type]. cbn [Z.eqb Pos.eqb].
  assert (Q : Z.eqb c 0 = false) by (apply Z.eqb_neq; auto). rewrite Q.
  fold k_value k_qname k_ispyd. change (JObj [(-3, JBool true); (k_value, JObj (body ct c ty dy r)); (k_qname, JStr c)])
    with (tag c (JObj (body ct c ty dy r))).
  destruct (Z.eqb (c_name ci) 0); [exact D|].
  unfold reg_lookup. destruct (fold_left _ registry None) as [c'|] eqn:F; [|exact D].
  apply reg_lookup_sound in F. destruct F as [F|[F1 [ci' [F2 F3]]]]; [discriminate|].
  rewrite (Huniq c' ci' F1 F2 F3). exact D.
Qed.
End CodecTheorems.

(* ---------- a boolean checker for conformance (used for concrete examples and by the suite to
   recognise the cases that lie inside the theorems' hypotheses) ---------- *)
Section Checker.
Variable ct : Z -> option cinfo.
Variable xt : Z -> xinfo.

Lemma faithfulb_sound c m : faithfulb xt c m = true -> faithful xt c m.
Proof.
  unfold faithfulb, faithful. intro H. apply andb_true_iff in H. destruct H as [H1 H2]. split; auto.
  destruct (x_ctor (xt c) m) as [m'| |]; try discriminate.
  - left. apply Z.eqb_eq in H2. subst; auto.
  - right. split; auto. destruct (x_new (xt c) m) as [m2|]; [|discriminate].
    apply Z.eqb_eq in H2. subst; auto.
Qed.

Lemma fieldsb_sound fs l :
  Forall (fun kx => forall k, confb ct xt (snd kx) k = true -> conf ct xt (snd kx) k) l ->
  (fix all (l : list (Z * tval)) : bool :=
     match l with
     | [] => true
     | (n, x) :: rest => match jget n fs with Some kk => confb ct xt x kk | None => false end && all rest
     end) l = true ->
  fields_conf ct xt fs l.
Proof.
  induction l as [|[n x] l IH]; simpl; auto. intros HF H. inversion HF as [|? ? H1 H2]; subst.
  apply andb_true_iff in H. destruct H as [Ha Hb]. split; [|apply IH; auto].
  destruct (jget n fs) as [kk|]; [|discriminate]. exists kk. split; auto.
Qed.

Theorem confb_sound : forall v k, confb ct xt v k = true -> conf ct xt v k.
Proof.
  induction v as [j|c m|c ty dy r IH|l IH|kv IH] using tval_ind'; intros k H.
  - destruct k; simpl in *; try discriminate; auto; destruct j; simpl in H; try discriminate; auto.
  - destruct k; simpl in *; try discriminate; apply faithfulb_sound; auto.
  - assert (KE : k = KEvent \/ k = KOptEvent) by (destruct k; simpl in H; try discriminate; auto).
    assert (H' : negb (Z.eqb c 0) &&
      match ct c with
      | Some ci =>
        (c_stop ci || is_null r) && negb (zin k_data (map fst ty))
        && (negb (c_stop ci) || negb (zin k_result (map fst ty)))
        && forallb (fun n => zin n (map fst ty)) (map fst (c_fields ci))
        && (fix all (l : list (Z * tval)) : bool :=
              match l with
              | [] => true
              | (n, x) :: rest =>
                match jget n (c_fields ci) with Some kk => confb ct xt x kk | None => false end && all rest
              end) ty
      | None => false
      end = true) by (destruct KE; subst k; exact H).
    clear H. apply andb_true_iff in H'. destruct H' as [Hc H'].
    destruct (ct c) as [ci|] eqn:Hct; [|discriminate].
    repeat (apply andb_true_iff in H'; destruct H' as [H' ?]).
    assert (G : c <> 0 /\ exists ci0, ct c = Some ci0 /\ (c_stop ci0 = false -> r = JNull)
                /\ ~ In k_data (map fst ty) /\ (c_stop ci0 = true -> ~ In k_result (map fst ty))
                /\ incl (map fst (c_fields ci0)) (map fst ty) /\ fields_conf ct xt (c_fields ci0) ty).
    { split; [apply Z.eqb_neq, negb_true_iff; auto|]. exists ci. split; auto.
      split. { intro S. rewrite S in H'. simpl in H'. destruct r; simpl in H'; try discriminate; auto. }
      split. { intro X. apply zin_In in X. rewrite X in H2. discriminate. }
      split. { intros S X. apply zin_In in X. rewrite S, X in H1. discriminate. }
      split. { intros n Hn. apply zin_In. apply (proj1 (forallb_forall _ _) H0 n Hn). }
      apply fieldsb_sound; auto. }
    destruct G as [G0 [ci0 (G1 & G2 & G3 & G4 & G5 & G6)]].
    rewrite <- conf_fields_conf_TE in G6.
    destruct KE; subst k; simpl; (split; [exact G0|]); exists ci0; auto 10.
  - destruct k; simpl in H; try discriminate. simpl. rewrite conf_list_conf.
    induction l as [|x l IHl]; simpl; auto. inversion IH as [|? ? H1 H2]; subst.
    apply andb_true_iff in H. destruct H as [Ha Hb]. split; auto.
  - destruct k; simpl in H; try discriminate; simpl.
    + rewrite conf_fields_conf. apply fieldsb_sound; auto.
    + destruct (jget k_type kv) as [[j| | | |]|] eqn:T; try discriminate.
      destruct j; try discriminate.
      destruct (jget s alts) as [fs|] eqn:A; [|discriminate].
      exists s, fs. split; auto. split; auto. rewrite conf_fields_conf. apply fieldsb_sound; auto.
Qed.
End Checker.
