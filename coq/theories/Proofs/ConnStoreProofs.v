(* Proofs about M-ConnStore (C21): single-connection mode equals per-call mode for every sequence of
   store operations, provided no session closes a connection it did not open. *)
From Coq Require Import List ZArith Bool Lia.
Import ListNotations.
From WF Require Import Model.StateStore Model.ConnStore Proofs.StateStoreProofs.
Open Scope Z_scope.

Section Generic.
  Variables D R : Type.

  (* no session of the program (whatever it reads) closes the connection it was given *)
  Inductive no_close : prog D R -> Prop :=
  | nc_done : forall r, no_close (Done r)
  | nc_sess : forall upd k, (forall d, no_close (k d)) -> no_close (Sess false upd k)
  | nc_reopen : forall k, no_close k -> no_close (Reopen k).

  Lemma run_single_eq : forall p, no_close p -> forall d,
    run_single D R p d (COpen) = (fst (run_percall D R p d), COpen, snd (run_percall D R p d)).
  Proof.
    intros p H. induction H as [r|upd k H IH|k H IH]; intro d; cbn; [reflexivity| |]; apply IH.
  Qed.

  Theorem runs_single_eq : forall ps, Forall no_close ps -> forall d,
    runs_single D R ps d COpen = (fst (runs_percall D R ps d), COpen, snd (runs_percall D R ps d)).
  Proof.
    intros ps H. induction H as [|p ps Hp Hps IH]; intro d; cbn; [reflexivity|].
    rewrite (run_single_eq p Hp d).
    destruct (run_percall D R p d) as [d1 x]. cbn.
    rewrite (IH d1). destruct (runs_percall D R ps d1) as [d2 xs]. reflexivity.
  Qed.

  (* per-call mode never meets a closed connection *)
  Lemma run_percall_not_closed : forall p d, snd (run_percall D R p d) <> PClosed.
  Proof.
    induction p as [r|closes upd k IH|k IH]; intro d; cbn; [discriminate| |]; apply IH.
  Qed.

  (* once the shared connection is closed, every operation that needs the database fails and nothing
     is written any more *)
  Lemma run_single_closed : forall closes upd k d,
    run_single D R (Sess closes upd k) d CClosed = (d, CClosed, PClosed).
  Proof. reflexivity. Qed.

  (* a program whose first session closes the connection leaves it closed if it ends there *)
  Lemma run_single_closing_session : forall upd r d,
    run_single D R (Sess true upd (fun _ => Done r)) d COpen = (upd d, CClosed, PDone r).
  Proof. reflexivity. Qed.
End Generic.

Arguments no_close {D R} p.

(* ---------- the concrete store ---------- *)
Lemma compile_state_no_close : forall ct run ty o, no_close (compile_state false ct run ty o).
Proof.
  intros ct run ty o. destruct o; cbn; unfold load, save, set_state_sess;
    repeat first [apply nc_done | apply nc_sess; intro].
  - destruct (set_by_path _ p v); repeat first [apply nc_done | apply nc_sess; intro].
Qed.

Lemma compile_no_close : forall ct w, no_close (compile false ct w).
Proof.
  intros ct w. destruct w; cbn; unfold ws;
    try (repeat first [apply nc_done | apply nc_sess; intro | apply nc_reopen]; fail).
  - destruct hs; repeat first [apply nc_done | apply nc_sess; intro].
  - destruct hs; repeat first [apply nc_done | apply nc_sess; intro].
  - destruct (run =? src); repeat first [apply nc_done | apply nc_sess; intro].
  - apply compile_state_no_close.
Qed.

Theorem store_single_eq_percall : forall ct ops d,
  runs_single _ _ (map (compile false ct) ops) d COpen =
  (fst (runs_percall _ _ (map (compile false ct) ops) d), COpen,
   snd (runs_percall _ _ (map (compile false ct) ops) d)).
Proof.
  intros ct ops d. apply runs_single_eq. apply Forall_forall. intros p Hin.
  apply in_map_iff in Hin. destruct Hin as [w [E _]]. subst p. apply compile_no_close.
Qed.

(* with state-store sessions that close the connection they were given (the code before the repair)
   the two modes differ: the first state write fails half-way and every later operation fails *)
Theorem store_closing_refuted :
  exists ops,
    snd (runs_single _ _ (map (compile true []) ops) wdb_empty COpen) <>
    snd (runs_percall _ _ (map (compile true []) ops) wdb_empty).
Proof.
  exists [WState 1 dict_cls (OSet [97] (VInt 1)); WGetTicks 1].
  vm_compute. intro H. discriminate H.
Qed.

(* ---------- the state operations of this model are those of Model/StateStore.v ---------- *)
Lemma zget_zput_same : forall A k (v : A) m, zget k (zput k v m) = Some v.
Proof.
  intros A k v m. induction m as [|[k' v'] m IH]; cbn.
  - rewrite Z.eqb_refl. reflexivity.
  - destruct (k =? k') eqn:E; cbn; rewrite E; [reflexivity|exact IH].
Qed.

Lemma get_row_put_row : forall d run o, get_row (put_row d run o) run = Some o.
Proof. intros. unfold get_row, put_row. cbn. apply zget_zput_same. Qed.

(* per-call execution of a compiled state operation = sql_step on that run's row *)
Local Opaque get_row put_row.

Theorem compile_state_is_sql_step : forall b ct run ty o d,
  match o with OSnapEdit _ | OSnapWrite => False | _ => True end ->
  let q := {| q_row := get_row d run; q_snap := None |} in
  let r := run_percall _ _ (compile_state b ct run ty o) d in
  snd r = PDone (WOut (snd (sql_step ct ty q o))) /\
  get_row (fst r) run = q_row (fst (sql_step ct ty q o)).
Proof.
  intros b ct run ty o d Hop q r. subst q r.
  destruct o; try contradiction; cbn; unfold sql_load, sql_set_state, row_or_default; cbn;
    destruct (get_row d run) as [s|] eqn:E; cbn; rewrite ?E, ?get_row_put_row; cbn.
  - (* OGet *) auto.
  - auto.
  - (* OSet *) destruct (set_by_path s p v); cbn; rewrite ?E, ?get_row_put_row; auto.
  - destruct (set_by_path (default_state ct ty) p v); cbn; rewrite ?E, ?get_row_put_row; auto.
  - (* OSetState *) destruct (merge_state s inc); cbn; rewrite ?E, ?get_row_put_row; auto.
  - destruct (merge_state (default_state ct ty) inc); cbn; rewrite ?E, ?get_row_put_row; auto.
  - (* OClear *) rewrite (merge_same_class_replaces s (default_state ct (o_cls s)) eq_refl). cbn.
    rewrite ?get_row_put_row. auto.
  - rewrite (merge_same_class_replaces (default_state ct ty) (default_state ct ty) eq_refl).
    cbn. rewrite ?get_row_put_row. auto.
  - (* OEdit *) auto.
  - auto.
  - (* OGetState *) auto.
  - auto.
Qed.
