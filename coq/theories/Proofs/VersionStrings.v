(* C34, string level: the round trips for ARBITRARY digit strings (leading zeros, any number of
   components), i.e. for every semver pre-release string `d(.d)*-label.d` and every PEP 440 string
   `d(.d)*labeld`, not only for rendered versions.  Generalises the lemmas of VersionProofs.v from
   `render_nat n` to any non-empty string of ASCII digits. *)
From Coq Require Import List ZArith NArith Bool Lia ZifyBool Arith.
Import ListNotations.
From WF Require Import Generated Model.Version Proofs.VersionProofs.
Open Scope Z_scope.

Definition digit_string (d : str) : Prop := d <> [] /\ forallb is_digit d = true.
Definition letter_string (l : str) : Prop := l <> [] /\ forallb is_label_char l = true.

Lemma render_nat_digit_string : forall n, digit_string (render_nat n).
Proof. intro n. split; [apply render_nat_nonempty | apply render_nat_digits]. Qed.

Lemma digits1_ds : forall d r, digit_string d -> no_digit_head r -> digits1 (d ++ r) = Some (d, r).
Proof.
  intros d r [Hne Hd] Hr. unfold digits1. rewrite span_app; [|exact Hd | exact Hr].
  destruct d; [congruence | reflexivity].
Qed.

(* ".y.z" for digit strings y, z *)
Definition tail_of (sep : Z) (ds : list str) : str := flat_map (fun d => sep :: d) ds.

Lemma tail_of_render : forall sep l, tail_of sep (map render_nat l) = tail_text sep l.
Proof. intros sep l. unfold tail_of, tail_text. rewrite flat_map_concat_map, map_map, <- flat_map_concat_map. reflexivity. Qed.

Lemma join_cons_tail_of : forall sep x ds, join [sep] (x :: ds) = x ++ tail_of sep ds.
Proof.
  intros sep x ds. revert x. induction ds as [|y ds IH]; intro x.
  - cbn. rewrite app_nil_r. reflexivity.
  - change (join [sep] (x :: y :: ds)) with (x ++ [sep] ++ join [sep] (y :: ds)). rewrite IH. reflexivity.
Qed.

Lemma tail_of_head : forall sep ds r, is_digit sep = false -> no_digit_head r -> no_digit_head (tail_of sep ds ++ r).
Proof. intros sep [|y ds] r Hs Hr; [exact Hr | exact Hs]. Qed.

Lemma tail_of_length : forall sep ds, (length ds <= length (tail_of sep ds))%nat.
Proof.
  intros sep ds. induction ds as [|y ds IH]; [apply le_n|].
  cbn [tail_of flat_map length]. fold (tail_of sep ds). rewrite app_length. cbn [length]. lia.
Qed.

Lemma more_components_tail_of : forall sep ds fuel acc r,
  Forall digit_string ds -> is_digit sep = false -> no_digit_head r -> no_sep_digit_head sep r ->
  (length ds <= fuel)%nat ->
  more_components fuel sep acc (tail_of sep ds ++ r) = (acc ++ tail_of sep ds, r).
Proof.
  intros sep ds. induction ds as [|y ds IH]; intros fuel acc r Hds Hs Hr Hr2 Hf.
  - cbn [tail_of flat_map app]. rewrite app_nil_r. destruct fuel as [|f]; [reflexivity|].
    cbn [more_components]. destruct r as [|c t]; [reflexivity|].
    destruct (c =? sep) eqn:E; [|reflexivity].
    assert (c = sep) by lia. subst c. cbn [no_sep_digit_head] in Hr2.
    destruct Hr2 as [Hr2|Hr2]; [congruence|].
    unfold digits1. destruct t as [|d t']; [reflexivity|]. cbn [span]. rewrite Hr2. reflexivity.
  - inversion Hds as [|? ? Hy Hds']; subst.
    destruct fuel as [|f]; [cbn in Hf; lia|]. cbn [tail_of flat_map]. fold (tail_of sep ds).
    rewrite <- app_assoc. cbn [app more_components]. rewrite Z.eqb_refl.
    rewrite digits1_ds by first [exact Hy | apply tail_of_head; assumption].
    rewrite IH; [|assumption..|cbn in Hf; lia]. rewrite <- !app_assoc. reflexivity.
Qed.

Lemma parse_components_tail_of : forall ds fuel acc r,
  Forall digit_string ds -> no_digit_head r -> no_sep_digit_head 46 r -> (length ds <= fuel)%nat ->
  parse_components fuel acc (tail_of 46 ds ++ r) = (acc ++ map parse_nat ds, r).
Proof.
  induction ds as [|y ds IH]; intros fuel acc r Hds Hr Hr2 Hf.
  - cbn [tail_of flat_map app map]. rewrite app_nil_r. destruct fuel as [|f]; [reflexivity|].
    cbn [parse_components]. destruct r as [|c t]; [reflexivity|].
    destruct (c =? 46) eqn:E; [|reflexivity].
    assert (c = 46) by lia. subst c. cbn [no_sep_digit_head] in Hr2.
    destruct Hr2 as [Hr2|Hr2]; [congruence|].
    unfold digits1. destruct t as [|d t']; [reflexivity|]. cbn [span]. rewrite Hr2. reflexivity.
  - inversion Hds as [|? ? Hy Hds']; subst.
    destruct fuel as [|f]; [cbn in Hf; lia|]. cbn [tail_of flat_map]. fold (tail_of 46 ds).
    rewrite <- app_assoc. cbn [app parse_components]. change (46 =? 46) with true. cbv iota.
    rewrite digits1_ds by first [exact Hy | apply tail_of_head; [reflexivity | exact Hr]].
    rewrite IH; [|assumption..|cbn in Hf; lia]. cbn [map]. rewrite <- app_assoc. reflexivity.
Qed.

Lemma release_part_scan_ds : forall d0 ds r,
  digit_string d0 -> Forall digit_string ds -> no_digit_head r -> no_sep_digit_head 46 r ->
  release_part (d0 ++ tail_of 46 ds ++ r) = Some (d0 ++ tail_of 46 ds, r).
Proof.
  intros d0 ds r H0 Hds Hr Hr2. unfold release_part.
  rewrite digits1_ds by first [exact H0 | apply tail_of_head; [reflexivity | exact Hr]].
  change c34_semver_base_exact with (@None Z). cbv iota. change c34_semver_base_sep with 46.
  rewrite more_components_tail_of; [reflexivity | exact Hds | reflexivity | exact Hr | exact Hr2 |].
  rewrite app_length. pose proof (tail_of_length 46 ds). lia.
Qed.

(* the texts *)
Definition sem_text (d0 : str) (ds : list str) (lab num : str) : str :=
  d0 ++ tail_of 46 ds ++ 45 :: lab ++ 46 :: num.
Definition pep_text (d0 : str) (ds : list str) (lab num : str) : str :=
  d0 ++ tail_of 46 ds ++ lab ++ num.

(* the regex matches every string  d(.d)*-letters.d  and returns its three parts *)
Theorem match_semver_text : forall d0 ds lab num,
  digit_string d0 -> Forall digit_string ds -> letter_string lab -> digit_string num ->
  match_semver (sem_text d0 ds lab num) = Some (d0 ++ tail_of 46 ds, lab, num).
Proof.
  intros d0 ds lab num H0 Hds [Hlne Hl] Hn. unfold match_semver, sem_text.
  rewrite release_part_scan_ds; [|exact H0 | exact Hds | reflexivity | left; discriminate].
  change (45 =? c34_semver_pre_sep) with true. cbv iota.
  rewrite span_app; [|exact Hl | reflexivity].
  destruct lab as [|c0 lc] eqn:El; [congruence|].
  change (46 =? c34_semver_num_sep) with true. cbv iota.
  rewrite <- (app_nil_r num) at 1. rewrite digits1_ds by first [exact Hn | exact I]. reflexivity.
Qed.

(* semver -> PEP 440 for every such string with a PEP 440 label, and ValueError for any other *)
Theorem semver_to_pep440_text : forall d0 ds lb num,
  digit_string d0 -> Forall digit_string ds -> digit_string num ->
  semver_to_pep440 (sem_text d0 ds (label_chars lb) num) = S2P_ok (pep_text d0 ds (label_chars lb) num).
Proof.
  intros d0 ds lb num H0 Hds Hn. unfold semver_to_pep440.
  rewrite match_semver_text; [|exact H0 | exact Hds | | exact Hn].
  - cbn [fst snd]. rewrite label_in_pep440_labels.
    change c34_s2p_group_order with [1; 2; 3]. cbn [flat_map nth_group Z.eqb Pos.eqb].
    unfold pep_text. rewrite app_nil_r, <- !app_assoc. reflexivity.
  - split; [apply label_chars_nonempty | apply label_chars_are_label_chars].
Qed.

Theorem semver_to_pep440_unsupported_label : forall d0 ds lab num,
  digit_string d0 -> Forall digit_string ds -> letter_string lab -> digit_string num ->
  existsb (str_eqb lab) c34_pep440_labels = false ->
  semver_to_pep440 (sem_text d0 ds lab num) = S2P_bad_label.
Proof.
  intros d0 ds lab num H0 Hds Hl Hn Hnot. unfold semver_to_pep440.
  rewrite match_semver_text by assumption. cbn [fst snd]. rewrite Hnot. reflexivity.
Qed.

(* Version(..) of every string  d(.d)*(a|b|rc)d *)
Theorem parse_pep_text : forall d0 ds lb num,
  digit_string d0 -> Forall digit_string ds -> digit_string num ->
  parse_pep440 (pep_text d0 ds (label_chars lb) num) =
  Some (mkV (map parse_nat (d0 :: ds)) (Some (lb, parse_nat num))).
Proof.
  intros d0 ds lb num H0 Hds Hn. unfold parse_pep440, pep_text.
  destruct (label_head lb num) as [H1 H2].
  rewrite digits1_ds by first [exact H0 | apply tail_of_head; [reflexivity | exact H1]].
  rewrite parse_components_tail_of; [| exact Hds | exact H1 | exact H2 |
    rewrite app_length; pose proof (tail_of_length 46 ds); lia].
  pose proof (label_chars_nonempty lb) as Hl.
  destruct (label_chars lb ++ num) as [|c0 rest] eqn:E;
    [destruct (label_chars lb); [congruence | discriminate]|].
  rewrite <- E. rewrite parse_label_chars.
  rewrite <- (app_nil_r num). rewrite digits1_ds by first [exact Hn | exact I].
  rewrite app_nil_r. reflexivity.
Qed.

Theorem parse_final_text : forall d0 ds,
  digit_string d0 -> Forall digit_string ds ->
  parse_pep440 (d0 ++ tail_of 46 ds) = Some (mkV (map parse_nat (d0 :: ds)) None).
Proof.
  intros d0 ds H0 Hds. unfold parse_pep440. rewrite <- (app_nil_r (tail_of 46 ds)).
  rewrite digits1_ds by first [exact H0 | apply tail_of_head; [reflexivity | exact I]].
  rewrite parse_components_tail_of; [reflexivity | exact Hds | exact I | exact I |].
  rewrite app_length. pose proof (tail_of_length 46 ds). lia.
Qed.

(* the normalized semver spelling of a semver pre-release string *)
Definition normalized_semver (d0 : str) (ds : list str) (lb : label) (num : str) : str :=
  p2s (mkV (map parse_nat (d0 :: ds)) (Some (lb, parse_nat num))).

(* semver -> PEP 440 -> semver, from ANY semver pre-release string with a PEP 440 label: the
   normalized original (every number re-rendered without leading zeros) *)
Theorem semver_string_roundtrip : forall d0 ds lb num,
  digit_string d0 -> Forall digit_string ds -> digit_string num ->
  exists p, semver_to_pep440 (sem_text d0 ds (label_chars lb) num) = S2P_ok p /\
            pep440_to_semver p = Some (normalized_semver d0 ds lb num).
Proof.
  intros d0 ds lb num H0 Hds Hn. exists (pep_text d0 ds (label_chars lb) num). split.
  - apply semver_to_pep440_text; assumption.
  - unfold pep440_to_semver. rewrite parse_pep_text by assumption. reflexivity.
Qed.

(* a final release (no pre-release part) passes through semver_to_pep440 unchanged *)
Theorem semver_final_passthrough : forall d0 ds,
  digit_string d0 -> Forall digit_string ds ->
  semver_to_pep440 (d0 ++ tail_of 46 ds) = S2P_ok (d0 ++ tail_of 46 ds).
Proof.
  intros d0 ds H0 Hds. unfold semver_to_pep440, match_semver.
  rewrite <- (app_nil_r (tail_of 46 ds)) at 1.
  rewrite release_part_scan_ds; [reflexivity | exact H0 | exact Hds | exact I | exact I].
Qed.

(* the normalized text is itself of the same form with rendered numbers: normalisation is idempotent *)
Theorem normalized_semver_is_rendered : forall d0 ds lb num,
  normalized_semver d0 ds lb num =
  sem_text (render_nat (parse_nat d0)) (map render_nat (map parse_nat ds)) (label_chars lb)
           (render_nat (parse_nat num)).
Proof.
  intros d0 ds lb num. unfold normalized_semver. cbn [map]. rewrite p2s_text.
  unfold sem_text. rewrite tail_of_render. reflexivity.
Qed.

Theorem final_release_text : forall d0 ds,
  digit_string d0 -> Forall digit_string ds ->
  semver_to_pep440 (d0 ++ tail_of 46 ds) = S2P_ok (d0 ++ tail_of 46 ds) /\
  parse_pep440 (d0 ++ tail_of 46 ds) = Some (mkV (map parse_nat (d0 :: ds)) None).
Proof. intros d0 ds H0 Hds. split; [apply semver_final_passthrough | apply parse_final_text]; assumption. Qed.
