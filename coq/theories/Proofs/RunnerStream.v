(* C35 at the runner level (Model/Runner.v): while the run is live, the stream the run loop has published is exactly
   the sequence of publish commands the reducer returned along the processed-tick log, in command order - so every
   statement proved about the command lists of tick histories (telemetry automaton, balance) is a statement about the
   published stream of every schedule. *)
From Coq Require Import List ZArith Bool PeanoNat Lia.
Import ListNotations.
From WF Require Import Model.Engine Model.Runner Proofs.EngineCap Proofs.EngineTelemetry Proofs.RunnerReplay.
Open Scope Z_scope.

Definition pubs_of (cs : list command) : list pub :=
  flat_map (fun c => match c with CPublish p => [p] | _ => [] end) cs.

Lemma pubs_of_app a b : pubs_of (a ++ b) = pubs_of a ++ pubs_of b.
Proof. apply flat_map_app. Qed.

Definition Stream_ok (P : policy) (s0 : state) (r : rstate) : Prop :=
  exists cs, run_cmds P s0 (tlog r) = Ok (st r, cs) /\ published r = pubs_of cs.

Lemma run_cmds_snoc P : forall a s s1 c1 t now s' cs,
  run_cmds P s a = Ok (s1, c1) -> reduce P t s1 now = Ok (s', cs) ->
  run_cmds P s (a ++ [(t, now)]) = Ok (s', c1 ++ cs).
Proof.
  induction a as [|[t0 n0] r IH]; intros s s1 c1 t now s' cs H R; cbn [run_cmds app] in *.
  - inversion H; subst. rewrite R. cbn. rewrite app_nil_r. reflexivity.
  - destruct (reduce P t0 s n0) as [[s2 c2]|c]; [|discriminate].
    destruct (run_cmds P s2 r) as [[s3 c3]|c] eqn:E; [|discriminate]. inversion H; subst.
    rewrite (IH _ _ _ _ _ _ _ E R), app_assoc. reflexivity.
Qed.

Lemma do_commands_pub : forall cs r,
  Runner.outcome (fold_left do_command cs r) = ORunning ->
  published (fold_left do_command cs r) = published r ++ pubs_of cs /\ Runner.outcome r = ORunning.
Proof.
  induction cs as [|c t IH]; intros r H; cbn [fold_left] in *.
  { cbn. rewrite app_nil_r. split; [reflexivity|exact H]. }
  destruct (IH _ H) as [E O1].
  assert (Runner.outcome r = ORunning) as O0.
  { destruct (Runner.outcome r) eqn:X; [reflexivity|..]; unfold do_command in O1; rewrite X in O1; congruence. }
  split; [|exact O0]. rewrite E. change (c :: t) with ([c] ++ t). rewrite pubs_of_app, app_assoc. f_equal.
  unfold do_command in *. rewrite O0 in *.
  destruct c; cbn [pubs_of flat_map app]; rewrite ?app_nil_r.
  - reflexivity.
  - destruct delay as [d|]; [destruct (Z.ltb 0 d)|]; reflexivity.
  - destruct k; cbn in O1; discriminate.
  - cbn in O1; discriminate.
  - cbn in O1; discriminate.
  - cbn in O1; discriminate.
  - reflexivity.
  - destruct (idle_pending r); reflexivity.
  - reflexivity.
Qed.

Lemma drain_outcome P : forall f r, Runner.outcome (drain_ticks P r f) = ORunning -> Runner.outcome r = ORunning.
Proof.
  intros f r H. destruct (Runner.outcome r) eqn:E; [reflexivity|..]; destruct f; cbn [drain_ticks] in H; rewrite E in H; congruence.
Qed.

Lemma Stream_same P s0 r r2 : Stream_ok P s0 r -> st r2 = st r -> tlog r2 = tlog r -> published r2 = published r -> Stream_ok P s0 r2.
Proof. intros [cs [A B]] E1 E2 E3. exists cs. rewrite E1, E2, E3. split; assumption. Qed.

Lemma tick_stream P s0 r t s' cs r1 :
  Stream_ok P s0 r -> reduce P t (st r) (clock r) = Ok (s', cs) ->
  st r1 = s' -> tlog r1 = tlog r ++ [(t, clock r)] -> published r1 = published r ->
  Runner.outcome (fold_left do_command cs r1) = ORunning -> Stream_ok P s0 (fold_left do_command cs r1).
Proof.
  intros [c0 [A B]] R E1 E2 E3 Out.
  destruct (do_commands_pub _ _ Out) as [Pb _]. destruct (do_commands_replay cs r1) as [S1 [S2 _]].
  exists (c0 ++ cs). rewrite S1, S2, Pb, E1, E2, E3. split.
  - apply (run_cmds_snoc P _ _ _ _ _ _ _ _ A R).
  - rewrite B, pubs_of_app. reflexivity.
Qed.

Lemma drain_stream P s0 : forall f r, Stream_ok P s0 r -> Runner.outcome (drain_ticks P r f) = ORunning ->
  Stream_ok P s0 (drain_ticks P r f).
Proof.
  induction f as [|f IH]; intros r S; cbn [drain_ticks].
  - destruct (Runner.outcome r); intros H; try exact S. destruct (tbuf r); [exact S|discriminate H].
  - destruct (Runner.outcome r) eqn:Or; intros H; try exact S. destruct (tbuf r) as [|t rest] eqn:ET; [exact S|].
    match type of H with context [if ?b then _ else _] => destruct b eqn:Idle end.
    + apply IH; [|exact H]. eapply Stream_same; [exact S|reflexivity|reflexivity|reflexivity].
    + cbn [st clock upd] in *.
      destruct (reduce P t (st r) (clock r)) as [[s' cs]|c] eqn:R; [|discriminate H].
      apply IH; [|exact H]. apply drain_outcome in H.
      eapply (tick_stream P s0 r t s' cs); try eassumption;
        unfold log_idle; destruct (publishes_idle cs); reflexivity.
Qed.

Lemma wait_stream P s0 r c r2 : Stream_ok P s0 r -> wait_step r c = Some r2 -> Stream_ok P s0 r2.
Proof.
  intros S H. unfold wait_step in H.
  destruct (nth_error (donew r) c) as [[[[s w] ev] rs]|].
  - destruct (has_stop (cfg (st r)) rs); injection H as <-; (eapply Stream_same; [exact S|reflexivity|reflexivity|reflexivity]).
  - destruct (donew r); [|discriminate H]. destruct (mailbox r).
    + destruct (due (clock r) (wakeups r)) as [d rest]. destruct d.
      * destruct (pending r); [discriminate H|]. injection H as <-. eapply Stream_same; [exact S|reflexivity|reflexivity|reflexivity].
      * injection H as <-. eapply Stream_same; [exact S|reflexivity|reflexivity|reflexivity].
    + injection H as <-. eapply Stream_same; [exact S|reflexivity|reflexivity|reflexivity].
Qed.

Lemma rub_stream P s0 : forall f r, Stream_ok P s0 r -> Runner.outcome (run_until_blocked P r f) = ORunning ->
  Stream_ok P s0 (run_until_blocked P r f).
Proof.
  induction f as [|f IH]; intros r S; cbn [run_until_blocked].
  - destruct (Runner.outcome r); intros H; exact S.
  - generalize (drain_stream P s0 tick_fuel r S). generalize (drain_ticks P r tick_fuel). intros r1 S1.
    destruct (Runner.outcome r1) eqn:O1; intros H; try (rewrite O1 in H; discriminate H).
    destruct (wait_step r1 0) as [r2|] eqn:Wt; [|exact (S1 eq_refl)].
    apply IH; [eapply wait_stream; [exact (S1 eq_refl)|exact Wt]|exact H].
Qed.

Definition Good (P : policy) (s0 : state) (r : rstate) : Prop := Runner.outcome r = ORunning -> Stream_ok P s0 r.

Lemma act_good P s0 r a : Good P s0 r -> Good P s0 (act P r a).
Proof.
  intros G. unfold act. destruct (Runner.outcome r) eqn:O; try exact G.
  specialize (G O). intros H. apply rub_stream; [|exact H].
  destruct a as [s w sends rs|t|dt].
  - destruct (take_worker s w (runningw r)) as [[ev run']|]; [|exact G].
    eapply Stream_same; [exact G|reflexivity|reflexivity|reflexivity].
  - eapply Stream_same; [exact G|reflexivity|reflexivity|reflexivity].
  - eapply Stream_same; [exact G|reflexivity|reflexivity|reflexivity].
Qed.

Lemma run_good P s e now acts : Good P s (run_at P s e now acts).
Proof.
  unfold run_at.
  assert (Good P s (run_until_blocked P (start s e now) loop_fuel)) as G0.
  { intros H. apply rub_stream; [|exact H]. exists []. split; reflexivity. }
  revert G0. generalize (run_until_blocked P (start s e now) loop_fuel).
  induction acts as [|a l IH]; intros r G; cbn [fold_left]; [exact G|]. apply IH. apply act_good. exact G.
Qed.

(* the published stream of a live run is the publish commands of its tick log, in order *)
Theorem run_stream_is_log_commands P s e now acts :
  Runner.outcome (run_at P s e now acts) = ORunning ->
  exists cs, run_cmds P s (tlog (run_at P s e now acts)) = Ok (st (run_at P s e now acts), cs) /\
             published (run_at P s e now acts) = pubs_of cs.
Proof. exact (run_good P s e now acts). Qed.

(* hence the telemetry statements hold of the published stream of every schedule *)
Theorem run_stream_telemetry P s e now acts :
  Keys_ok s -> Inv_state s -> Runner.outcome (run_at P s e now acts) = ORunning ->
  exists cs, published (run_at P s e now acts) = pubs_of cs /\
             Forall2 (tel_rel cs) (workers s) (workers (st (run_at P s e now acts))) /\
             Forall2 (count_rel cs) (workers s) (workers (st (run_at P s e now acts))).
Proof.
  intros K Cp O. destruct (run_good P s e now acts O) as [cs [A B]]. exists cs. split; [exact B|]. split.
  - exact (run_tel _ _ _ _ _ K Cp A).
  - exact (run_balanced _ _ _ _ _ K Cp A).
Qed.
