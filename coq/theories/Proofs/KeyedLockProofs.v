(* Proofs/KeyedLockProofs.v — invariants of the KeyedLock model over ALL schedules (C25). *)
From Coq Require Import List Bool Arith ZArith Lia.
Import ListNotations.
From WF Require Import Base.SchedKL Model.KeyedLock.

(* ---------- lists ---------- *)
Lemma upd_length {A} i (x : A) l : length (upd i x l) = length l.
Proof. revert i; induction l as [|y l IH]; intros [|i]; cbn; auto. Qed.

Lemma nth_upd_eq {A} i (x : A) l d : i < length l -> nth i (upd i x l) d = x.
Proof. revert i; induction l as [|y l IH]; intros [|i] H; cbn in *; try lia; auto. apply IH; lia. Qed.

Lemma nth_upd_neq {A} i j (x : A) l d : i <> j -> nth j (upd i x l) d = nth j l d.
Proof. revert i j; induction l as [|y l IH]; intros [|i] [|j] H; cbn; auto; try congruence. Qed.

Lemma rm1_In x i l : In x (rm1 i l) -> In x l.
Proof. induction l as [|y l IH]; cbn; auto. destruct (y =? i); cbn; intuition. Qed.

Lemma rm1_In_neq x i l : x <> i -> In x l -> In x (rm1 i l).
Proof.
  intros Hn. induction l as [|y l IH]; cbn; auto.
  destruct (Nat.eqb_spec y i); cbn; intros [E|H]; subst; auto; try congruence.
Qed.

Lemma rm1_NoDup i l : NoDup l -> NoDup (rm1 i l).
Proof.
  induction 1 as [|y l Hy Hl IH]; cbn; [constructor|].
  destruct (y =? i); auto. constructor; auto. intro H; apply Hy; eapply rm1_In; eauto.
Qed.

Lemma rm1_notin i l : NoDup l -> ~ In i (rm1 i l).
Proof.
  induction 1 as [|y l Hy Hl IH]; cbn; auto.
  destruct (Nat.eqb_spec y i); subst; auto. cbn; intros [E|H]; auto.
Qed.

Lemma rm1_length i l : In i l -> S (length (rm1 i l)) = length l.
Proof.
  induction l as [|y l IH]; cbn; [tauto|].
  destruct (Nat.eqb_spec y i); subst; auto. intros [E|H]; [congruence|]. cbn; rewrite IH; auto.
Qed.

Lemma rm1_head i r : rm1 i (i :: r) = r.
Proof. cbn. rewrite Nat.eqb_refl. reflexivity. Qed.

Lemma rm1_cons_neq i j r : j <> i -> rm1 i (j :: r) = j :: rm1 i r.
Proof. intro H. cbn. destruct (Nat.eqb_spec j i); congruence. Qed.

(* ---------- association lists ---------- *)
Section AssocLemmas.
  Context {V : Type}.
  Implicit Types l : list (nat * V).

  Lemma alookup_aset_eq k v l : alookup k (aset k v l) = Some v.
  Proof.
    induction l as [|[k' v'] l IH]; cbn; [rewrite Nat.eqb_refl; auto|].
    destruct (Nat.eqb_spec k' k); cbn.
    - subst. rewrite Nat.eqb_refl. auto.
    - destruct (Nat.eqb_spec k' k); congruence.
  Qed.

  Lemma alookup_aset_neq k k' v l : k' <> k -> alookup k' (aset k v l) = alookup k' l.
  Proof.
    intro H. induction l as [|[k2 v2] l IH]; cbn.
    - destruct (Nat.eqb_spec k k'); congruence.
    - destruct (Nat.eqb_spec k2 k); cbn.
      + subst. destruct (Nat.eqb_spec k k'); congruence.
      + destruct (k2 =? k'); auto.
  Qed.

  Lemma alookup_adel_eq k l : alookup k (adel k l) = None.
  Proof.
    induction l as [|[k' v'] l IH]; cbn; auto.
    destruct (Nat.eqb_spec k' k); cbn; auto. destruct (Nat.eqb_spec k' k); congruence.
  Qed.

  Lemma alookup_adel_neq k k' l : k' <> k -> alookup k' (adel k l) = alookup k' l.
  Proof.
    intro H. induction l as [|[k2 v2] l IH]; cbn; auto.
    destruct (Nat.eqb_spec k2 k); cbn.
    - subst. destruct (Nat.eqb_spec k k'); congruence.
    - destruct (k2 =? k'); auto.
  Qed.

  Lemma alookup_none_all l : (forall k, alookup k l = None) -> l = [].
  Proof.
    destruct l as [|[k v] l]; auto. intro H. specialize (H k). cbn in H. rewrite Nat.eqb_refl in H. discriminate.
  Qed.
End AssocLemmas.

(* ---------- state accessors ---------- *)
Definition nT (s : st) : nat := length (s_tasks s).

Lemma get_set_task_eq s i t : i < nT s -> get (set_task s i t) i = t.
Proof. intro H. unfold get, set_task; cbn. apply nth_upd_eq; auto. Qed.

Lemma get_set_task_neq s i j t : i <> j -> get (set_task s i t) j = get s j.
Proof. intro H. unfold get, set_task; cbn. apply nth_upd_neq; auto. Qed.

Lemma get_oob s i : nT s <= i -> get s i = dflt.
Proof. intro H. unfold get. apply nth_overflow; auto. Qed.

Lemma nT_set_task s i t : nT (set_task s i t) = nT s.
Proof. unfold nT, set_task; cbn. apply upd_length. Qed.

(* ---------- the main lock is never contended: main-lock-free forms of the two blocks ---------- *)
Definition reg_pure (s : st) (i : nat) : st :=
  let k := t_key (get s i) in
  let s1 := match alookup k (s_locks s) with
            | None => set_refs (set_locks s (aset k lock_new (s_locks s))) (aset k 0%Z (s_refs s))
            | Some _ => s
            end in
  match alookup k (s_refs s1) with
  | None => crash s1 i
  | Some r => acquire_key (set_refs s1 (aset k (r + 1)%Z (s_refs s1))) i
  end.

Definition dereg_pure (s : st) (i : nat) (exc : bool) : st :=
  let k := t_key (get s i) in
  match alookup k (s_refs s) with
  | None => crash s i
  | Some r =>
      let r' := (r - 1)%Z in
      let s1 := if (r' =? 0)%Z
                then set_refs (set_locks s (adel k (s_locks s))) (adel k (s_refs s))
                else set_refs s (aset k r' (s_refs s)) in
      set_pc s1 i (PDone exc)
  end.

Lemma register_free s i : s_main s = lock_new -> register s i = reg_pure s i.
Proof.
  destruct s as [ts m ls rs e]; cbn. intros ->.
  unfold register, reg_pure, after_main1, acquire_key, release_main, crash, set_pc, get; cbn.
  destruct (alookup (t_key (nth i ts dflt)) ls); cbn.
  - destruct (alookup (t_key (nth i ts dflt)) rs); cbn; auto.
  - rewrite !alookup_aset_eq; cbn. reflexivity.
Qed.

Lemma deregister_free s i exc : s_main s = lock_new -> deregister s i exc = dereg_pure s i exc.
Proof.
  destruct s as [ts m ls rs e]; cbn. intros ->.
  unfold deregister, dereg_pure, after_main2, release_main, crash, set_pc, get; cbn.
  destruct (alookup (t_key (nth i ts dflt)) rs); cbn; auto.
  destruct (z - 1 =? 0)%Z; cbn; auto.
Qed.

(* ---------- the invariant ---------- *)
Definition L (s : st) (k : nat) : option lock := alookup k (s_locks s).
Definition R (s : st) (k : nat) : option Z := alookup k (s_refs s).
Definition key (s : st) (j : nat) : nat := t_key (get s j).
Definition pcof (s : st) (j : nat) : pc := t_pc (get s j).
Definition futof (s : st) (j : nat) : fstate := t_fut (get s j).

Definition refs_of (l : lock) : Z := (Z.of_nat (length (l_waiters l)) + (if l_locked l then 1 else 0))%Z.

Record InvK (s : st) (k : nat) : Prop := {
  K_wait : forall j, j < nT s -> key s j = k -> pcof s j = PWaitKey ->
           exists l, L s k = Some l /\ In j (l_waiters l);
  K_waiters : forall l j, L s k = Some l -> In j (l_waiters l) ->
           j < nT s /\ key s j = k /\ pcof s j = PWaitKey;
  K_nodup : forall l, L s k = Some l -> NoDup (l_waiters l);
  K_cs : forall j, j < nT s -> key s j = k -> pcof s j = PInCS ->
           exists l, L s k = Some l /\ l_locked l = true;
  K_mutex : forall j j', j < nT s -> j' < nT s -> key s j = k -> key s j' = k ->
           pcof s j = PInCS -> pcof s j' = PInCS -> j = j';
  K_locked : forall l, L s k = Some l -> l_locked l = true ->
           exists j, j < nT s /\ key s j = k /\ pcof s j = PInCS;
  K_refs : R s k = match L s k with None => None | Some l => Some (refs_of l) end;
  K_used : forall l, L s k = Some l -> l_locked l = true \/ l_waiters l <> [];
  K_result : forall l j, L s k = Some l -> In j (l_waiters l) -> futof s j = FResult ->
           l_locked l = false /\ exists r, l_waiters l = j :: r;
  K_live : forall l, L s k = Some l -> l_locked l = false ->
           exists j, In j (l_waiters l) /\ futof s j <> FPending
}.

Record Inv (s : st) : Prop := {
  I_err : s_err s = false;
  I_main : s_main s = lock_new;
  I_pcs : forall j, pcof s j <> PWaitMain1 /\ forall e, pcof s j <> PWaitMain2 e;
  I_keys : forall k, InvK s k
}.

(* s' agrees with s on everything key k can see *)
Record agree (s s' : st) (k : nat) : Prop := {
  A_n : nT s' = nT s;
  A_L : L s' k = L s k;
  A_R : R s' k = R s k;
  A_key : forall j, key s' j = key s j;
  A_task : forall j, key s j = k -> get s' j = get s j
}.

Lemma frame s s' k : agree s s' k -> InvK s k -> InvK s' k.
Proof.
  intros [An AL AR Ak At] [K1 K2 K3 K4 K5 K6 K7 K8 K9 K10].
  assert (P : forall j, key s j = k -> pcof s' j = pcof s j) by (intros j Hj; unfold pcof; rewrite At; auto).
  assert (F : forall j, key s j = k -> futof s' j = futof s j) by (intros j Hj; unfold futof; rewrite At; auto).
  constructor; rewrite ?An, ?AL, ?AR; auto.
  - intros j Hj Hk Hp. rewrite Ak in Hk. rewrite P in Hp; eauto.
  - intros l j Hl Hin. destruct (K2 l j Hl Hin) as (a & b & c). rewrite Ak, P; auto.
  - intros j Hj Hk Hp. rewrite Ak in Hk. rewrite P in Hp; eauto.
  - intros j j' Hj Hj' Hk Hk' Hp Hp'. rewrite Ak in Hk, Hk'. rewrite P in Hp, Hp'; eauto.
  - intros l Hl Hlk. destruct (K6 l Hl Hlk) as (j & a & b & c). exists j. rewrite Ak, P; auto.
  - intros l j Hl Hin Hf. destruct (K2 l j Hl Hin) as (a & b & c). rewrite F in Hf; eauto.
  - intros l Hl Hlk. destruct (K10 l Hl Hlk) as (j & Hin & Hf). exists j. split; auto.
    destruct (K2 l j Hl Hin) as (a & b & c). rewrite F; auto.
Qed.

(* ---------- every step of task i is a local update of its key ---------- *)
Definition put {V} (k : nat) (o : option V) (l : list (nat * V)) : list (nat * V) :=
  match o with Some v => aset k v l | None => adel k l end.

Lemma alookup_put_eq {V} k (o : option V) l : alookup k (put k o l) = o.
Proof. destruct o; cbn; [apply alookup_aset_eq | apply alookup_adel_eq]. Qed.

Lemma alookup_put_neq {V} k k' (o : option V) l : k' <> k -> alookup k' (put k o l) = alookup k' l.
Proof. intro H. destruct o; cbn; [apply alookup_aset_neq | apply alookup_adel_neq]; auto. Qed.

Definition upd_state (s : st) (i : nat) (p' : pc) (w : option nat) (lo : option lock) (ro : option Z) : st :=
  let k := key s i in
  set_refs (set_locks (set_pc (wake s w) i p') (put k lo (s_locks s))) (put k ro (s_refs s)).

Lemma nT_wake s w : nT (wake s w) = nT s.
Proof. destruct w; cbn; auto. apply nT_set_task. Qed.

Lemma nT_upd_state s i p' w lo ro : nT (upd_state s i p' w lo ro) = nT s.
Proof. unfold upd_state, set_refs, set_locks, set_pc, nT; cbn. rewrite upd_length. apply nT_wake. Qed.

Lemma get_wake s w j :
  get (wake s w) j =
  match w with
  | Some x => if (j =? x) && (x <? nT s)
              then mkTask (key s j) (pcof s j) FResult (t_mc (get s j)) else get s j
  | None => get s j
  end.
Proof.
  destruct w as [x|]; unfold wake; auto.
  destruct (Nat.eqb_spec j x).
  - subst. rewrite andb_true_l. destruct (Nat.ltb_spec x (nT s)).
    + rewrite get_set_task_eq; auto.
    + rewrite (get_oob s x) by auto. apply get_oob. rewrite nT_set_task; auto.
  - rewrite andb_false_l. rewrite get_set_task_neq; auto.
Qed.

Lemma get_upd_state s i p' w lo ro j : i < nT s ->
  get (upd_state s i p' w lo ro) j =
  if j =? i then mkTask (key s i) p' FPending false else get (wake s w) j.
Proof.
  intro Hi. unfold upd_state, set_refs, set_locks, set_pc.
  change (get (mkSt ?a ?b ?c ?d ?e) j) with (nth j a dflt).
  cbn [s_tasks set_task].
  destruct (Nat.eqb_spec j i).
  - subst. rewrite nth_upd_eq by (fold (nT (wake s w)); rewrite nT_wake; auto).
    f_equal. fold (get (wake s w) i). rewrite get_wake. destruct w as [x|]; auto.
    destruct ((i =? x) && (x <? nT s)); auto.
  - rewrite nth_upd_neq; auto.
Qed.

Lemma L_upd_state s i p' w lo ro : L (upd_state s i p' w lo ro) (key s i) = lo.
Proof. unfold L, upd_state; cbn. apply alookup_put_eq. Qed.
Lemma R_upd_state s i p' w lo ro : R (upd_state s i p' w lo ro) (key s i) = ro.
Proof. unfold R, upd_state; cbn. apply alookup_put_eq. Qed.
Lemma L_upd_state_neq s i p' w lo ro k : k <> key s i -> L (upd_state s i p' w lo ro) k = L s k.
Proof. intro H. unfold L, upd_state; cbn. apply alookup_put_neq; auto. Qed.
Lemma R_upd_state_neq s i p' w lo ro k : k <> key s i -> R (upd_state s i p' w lo ro) k = R s k.
Proof. intro H. unfold R, upd_state; cbn. apply alookup_put_neq; auto. Qed.

Lemma key_upd_state s i p' w lo ro j : i < nT s -> key (upd_state s i p' w lo ro) j = key s j.
Proof.
  intro Hi. unfold key at 1. rewrite get_upd_state; auto.
  destruct (Nat.eqb_spec j i); subst; auto.
  rewrite get_wake. destruct w as [x|]; auto. destruct ((j =? x) && (x <? nT s)); auto.
Qed.

Lemma upd_state_agree s i p' w lo ro k :
  i < nT s -> k <> key s i -> (forall x, w = Some x -> key s x = key s i) ->
  agree s (upd_state s i p' w lo ro) k.
Proof.
  intros Hi Hk Hw. constructor.
  - apply nT_upd_state.
  - apply L_upd_state_neq; auto.
  - apply R_upd_state_neq; auto.
  - intro j. apply key_upd_state; auto.
  - intros j Hj. rewrite get_upd_state; auto.
    destruct (Nat.eqb_spec j i); [subst; congruence|].
    rewrite get_wake. destruct w as [x|]; auto.
    destruct (Nat.eqb_spec j x); cbn; auto. subst. specialize (Hw x eq_refl). congruence.
Qed.

Definition ws_of (o : option lock) : list nat := match o with Some l => l_waiters l | None => [] end.

(* local conditions under which the update keeps the invariant of the acting task's key *)
Record local_ok (s : st) (i : nat) (p' : pc) (w : option nat) (lo : option lock) (ro : option Z) : Prop := {
  O_i : i < nT s;
  O_w : forall x, w = Some x -> x < nT s /\ x <> i /\ key s x = key s i;
  O_in : forall j, j <> i -> In j (ws_of (L s (key s i))) -> In j (ws_of lo);
  O_ini : p' = PWaitKey -> In i (ws_of lo);
  O_sub : forall j, In j (ws_of lo) -> (j = i /\ p' = PWaitKey) \/ (j <> i /\ In j (ws_of (L s (key s i))));
  O_nodup : NoDup (ws_of lo);
  O_cs : (p' = PInCS \/ exists j, j <> i /\ j < nT s /\ key s j = key s i /\ pcof s j = PInCS) ->
         exists l', lo = Some l' /\ l_locked l' = true;
  O_mx : p' = PInCS -> forall j, j <> i -> j < nT s -> key s j = key s i -> pcof s j <> PInCS;
  O_lk : forall l', lo = Some l' -> l_locked l' = true ->
         p' = PInCS \/ exists j, j <> i /\ j < nT s /\ key s j = key s i /\ pcof s j = PInCS;
  O_refs : ro = match lo with None => None | Some l' => Some (refs_of l') end;
  O_used : forall l', lo = Some l' -> l_locked l' = true \/ l_waiters l' <> [];
  O_res : forall l' j, lo = Some l' -> In j (l_waiters l') -> (w = Some j \/ (j <> i /\ futof s j = FResult)) ->
          l_locked l' = false /\ exists r, l_waiters l' = j :: r;
  O_live : forall l', lo = Some l' -> l_locked l' = false ->
          exists j, In j (l_waiters l') /\ j <> i /\ (w = Some j \/ futof s j <> FPending)
}.

Lemma pcof_upd_state s i p' w lo ro j : i < nT s ->
  pcof (upd_state s i p' w lo ro) j = if j =? i then p' else pcof s j.
Proof.
  intro Hi. unfold pcof at 1. rewrite get_upd_state; auto. destruct (j =? i); auto.
  rewrite get_wake. destruct w as [x|]; auto. destruct ((j =? x) && (x <? nT s)); auto.
Qed.

Lemma futof_upd_state s i p' w lo ro j : i < nT s -> (forall x, w = Some x -> x < nT s) ->
  futof (upd_state s i p' w lo ro) j =
  if j =? i then FPending else if match w with Some x => j =? x | None => false end then FResult else futof s j.
Proof.
  intros Hi Hw. unfold futof at 1. rewrite get_upd_state; auto. destruct (j =? i); auto.
  rewrite get_wake. destruct w as [x|]; auto.
  specialize (Hw x eq_refl). apply Nat.ltb_lt in Hw. rewrite Hw, andb_true_r. destruct (j =? x); auto.
Qed.

Lemma upd_state_InvK s i p' w lo ro :
  InvK s (key s i) -> local_ok s i p' w lo ro -> InvK (upd_state s i p' w lo ro) (key s i).
Proof.
  intros [K1 K2 K3 K4 K5 K6 K7 K8 K9 K10] [Oi Ow Oin Oini Osub Ond Ocs Omx Olk Orefs Oused Ores Olive].
  set (k := key s i) in *.
  assert (Hwn : forall x, w = Some x -> x < nT s) by (intros x Hx; apply Ow; auto).
  constructor; rewrite ?nT_upd_state; fold k; unfold k at 1;
    rewrite ?L_upd_state, ?R_upd_state; fold k.
  - (* wait *)
    intros j Hj Hk Hp. rewrite key_upd_state in Hk by auto. rewrite pcof_upd_state in Hp by auto.
    destruct (Nat.eqb_spec j i).
    + subst j. specialize (Oini Hp). destruct lo as [l'|]; [eauto|destruct Oini].
    + destruct (K1 j Hj Hk Hp) as (l & Hl & Hin).
      assert (In j (ws_of lo)) by (apply Oin; auto; rewrite Hl; auto).
      destruct lo as [l'|]; [eauto|contradiction].
  - (* waiters *)
    intros l' j Hl Hin. subst lo. rewrite key_upd_state, pcof_upd_state by auto.
    destruct (Osub j Hin) as [[-> Hp]|[Hne Hin0]].
    + rewrite Nat.eqb_refl. auto.
    + destruct (Nat.eqb_spec j i); [contradiction|].
      destruct (L s k) as [l|] eqn:Hl; [|destruct Hin0]. apply (K2 l j); auto.
  - intros l' Hl. subst lo. exact Ond.
  - (* cs *)
    intros j Hj Hk Hp. rewrite key_upd_state in Hk by auto. rewrite pcof_upd_state in Hp by auto.
    apply Ocs. destruct (Nat.eqb_spec j i); [left; auto| right; exists j; auto].
  - (* mutex *)
    intros j j' Hj Hj' Hk Hk' Hp Hp'. rewrite key_upd_state in Hk, Hk' by auto.
    rewrite pcof_upd_state in Hp, Hp' by auto.
    destruct (Nat.eqb_spec j i), (Nat.eqb_spec j' i); subst; auto.
    + exfalso. eapply Omx; eauto.
    + exfalso. eapply Omx; eauto.
  - (* locked *)
    intros l' Hl Hlk. destruct (Olk l' Hl Hlk) as [Hp|(j & Hne & Hj & Hk & Hp)].
    + exists i. rewrite key_upd_state, pcof_upd_state, Nat.eqb_refl by auto. auto.
    + exists j. rewrite key_upd_state, pcof_upd_state by auto.
      destruct (Nat.eqb_spec j i); [contradiction|auto].
  - exact Orefs.
  - exact Oused.
  - (* result *)
    intros l' j Hl Hin Hf. rewrite futof_upd_state in Hf by auto.
    destruct (Nat.eqb_spec j i); [discriminate|].
    apply (Ores l' j Hl Hin). destruct w as [x|].
    + destruct (Nat.eqb_spec j x); [left; subst; auto | right; auto].
    + right; auto.
  - (* live *)
    intros l' Hl Hlk. destruct (Olive l' Hl Hlk) as (j & Hin & Hne & Hf).
    exists j. split; auto. rewrite futof_upd_state by auto.
    destruct (Nat.eqb_spec j i); [contradiction|].
    destruct Hf as [->|Hf]; [rewrite Nat.eqb_refl; discriminate|].
    destruct w as [x|]; auto. destruct (j =? x); auto; discriminate.
Qed.

Lemma err_upd_state s i p' w lo ro : s_err (upd_state s i p' w lo ro) = s_err s.
Proof. unfold upd_state; cbn. destruct w; reflexivity. Qed.
Lemma main_upd_state s i p' w lo ro : s_main (upd_state s i p' w lo ro) = s_main s.
Proof. unfold upd_state; cbn. destruct w; reflexivity. Qed.

Lemma upd_state_Inv s i p' w lo ro :
  Inv s -> local_ok s i p' w lo ro ->
  p' <> PWaitMain1 -> (forall e, p' <> PWaitMain2 e) ->
  Inv (upd_state s i p' w lo ro).
Proof.
  intros [Ie Im Ip Ik] Hok Hp1 Hp2. pose proof (O_i _ _ _ _ _ _ Hok) as Hi.
  constructor; rewrite ?err_upd_state, ?main_upd_state; auto.
  - intro j. rewrite pcof_upd_state by auto. destruct (j =? i); auto.
  - intro k. destruct (Nat.eq_dec k (key s i)) as [->|Hne].
    + apply upd_state_InvK; auto.
    + eapply frame; [|apply Ik]. apply upd_state_agree; auto.
      intros x Hx. apply (O_w _ _ _ _ _ _ Hok x Hx).
Qed.

(* ---------- list-level facts about dict updates ---------- *)
Section AssocMore.
  Context {V : Type}.
  Implicit Types l : list (nat * V).
  Lemma aset_aset k v v0 l : aset k v (aset k v0 l) = aset k v l.
  Proof.
    induction l as [|[k' v'] l IH]; cbn; [rewrite Nat.eqb_refl; auto|].
    destruct (Nat.eqb_spec k' k) as [E|E]; cbn.
    - subst; rewrite Nat.eqb_refl; auto.
    - apply Nat.eqb_neq in E. rewrite E, IH; auto.
  Qed.
  Lemma adel_aset k v l : adel k (aset k v l) = adel k l.
  Proof.
    induction l as [|[k' v'] l IH]; cbn; [rewrite Nat.eqb_refl; auto|].
    destruct (Nat.eqb_spec k' k) as [E|E]; cbn.
    - subst; rewrite Nat.eqb_refl; auto.
    - apply Nat.eqb_neq in E. rewrite E, IH; auto.
  Qed.
  Lemma aset_same k v l : alookup k l = Some v -> aset k v l = l.
  Proof.
    induction l as [|[k' v'] l IH]; cbn; [discriminate|].
    destruct (Nat.eqb_spec k' k); cbn; intro H.
    - congruence.
    - rewrite IH; auto.
  Qed.
  Lemma adel_absent k l : alookup k l = None -> adel k l = l.
  Proof.
    induction l as [|[k' v'] l IH]; cbn; auto.
    destruct (Nat.eqb_spec k' k); cbn; intro H; [discriminate|]. rewrite IH; auto.
  Qed.
  Lemma put_same k l : put k (alookup k l) l = l.
  Proof. destruct (alookup k l) eqn:E; cbn; [apply aset_same | apply adel_absent]; auto. Qed.
End AssocMore.

Lemma key_wake s w j : key (wake s w) j = key s j.
Proof. unfold key. rewrite get_wake. destruct w as [x|]; auto. destruct ((j =? x) && (x <? nT s)); auto. Qed.

Lemma futs_ext (f g : nat -> fstate) ws : (forall x, In x ws -> f x = g x) -> all_cancelled f ws = all_cancelled g ws.
Proof. intro H. unfold all_cancelled. induction ws as [|x r IH]; cbn; auto. rewrite H, IH; cbn; auto. intros; apply H; cbn; auto. Qed.

(* ---------- the blocks of [run] as local updates ---------- *)
Definition mk (s : st) (i : nat) (p' : pc) (w : option nat) (ls : list (nat * lock)) (rs : list (nat * Z)) : st :=
  set_refs (set_locks (set_pc (wake s w) i p') ls) rs.

Lemma upd_state_mk s i p' w lo ro :
  upd_state s i p' w lo ro = mk s i p' w (put (key s i) lo (s_locks s)) (put (key s i) ro (s_refs s)).
Proof. reflexivity. Qed.

Lemma acquire_key_eq s i ls rs l :
  alookup (key s i) ls = Some l ->
  acquire_key (set_refs (set_locks s ls) rs) i =
  if lk_can_take (futs s) l
  then mk s i PInCS None (aset (key s i) (lk_take l) ls) rs
  else mk s i PWaitKey None (aset (key s i) (lk_enqueue l i) ls) rs.
Proof.
  intro H. unfold acquire_key. cbn [s_locks set_refs set_locks].
  change (get (set_refs (set_locks s ls) rs) i) with (get s i).
  change (futs (set_refs (set_locks s ls) rs)) with (futs s).
  change (t_key (get s i)) with (key s i). rewrite H.
  destruct (lk_can_take (futs s) l); reflexivity.
Qed.

Lemma dereg_pure_eq s i exc w ls r :
  alookup (key s i) (s_refs s) = Some r ->
  dereg_pure (wake (set_locks s ls) w) i exc =
  if (r - 1 =? 0)%Z
  then mk s i (PDone exc) w (adel (key s i) ls) (adel (key s i) (s_refs s))
  else mk s i (PDone exc) w ls (aset (key s i) (r - 1)%Z (s_refs s)).
Proof.
  intro H. unfold dereg_pure.
  assert (Hk : t_key (get (wake (set_locks s ls) w) i) = key s i).
  { change (key (wake (set_locks s ls) w) i = key s i). rewrite key_wake. reflexivity. }
  rewrite Hk.
  assert (Hr : s_refs (wake (set_locks s ls) w) = s_refs s) by (destruct w; reflexivity).
  rewrite Hr, H.
  destruct (r - 1 =? 0)%Z; destruct w; reflexivity.
Qed.

(* ---------- case A: a task that is neither queued nor inside changes to such a pc ---------- *)
Lemma ws_of_L s k l : L s k = Some l -> ws_of (L s k) = l_waiters l.
Proof. intros ->; reflexivity. Qed.

Lemma local_ok_same s i p' :
  InvK s (key s i) -> i < nT s ->
  pcof s i <> PWaitKey -> pcof s i <> PInCS -> p' <> PWaitKey -> p' <> PInCS ->
  local_ok s i p' None (L s (key s i)) (R s (key s i)).
Proof.
  intros [K1 K2 K3 K4 K5 K6 K7 K8 K9 K10] Hi Hp1 Hp2 Hq1 Hq2.
  assert (Hni : forall l j, L s (key s i) = Some l -> In j (l_waiters l) -> j <> i).
  { intros l j Hl Hin ->. destruct (K2 l i Hl Hin) as (_ & _ & Hp). congruence. }
  constructor; auto; try congruence.
  - intros j Hin. right. destruct (L s (key s i)) as [l|] eqn:Hl; [|destruct Hin]. split; eauto.
  - destruct (L s (key s i)) as [l|] eqn:Hl; cbn; [eauto|constructor].
  - intros [Hp|(j & Hne & Hj & Hk & Hp)]; [congruence|]. eapply K4; eauto.
  - intros l' Hl Hlk. right. destruct (K6 l' Hl Hlk) as (j & Hj & Hk & Hp). exists j. repeat split; auto. congruence.
  - intros l' j Hl Hin [Hw|[Hne Hf]]; [discriminate|]. eapply K9; eauto.
  - intros l' Hl Hlk. destruct (K10 l' Hl Hlk) as (j & Hin & Hf). exists j. repeat split; eauto.
Qed.

Lemma set_pc_upd_state s i p' :
  set_pc s i p' = upd_state s i p' None (L s (key s i)) (R s (key s i)).
Proof. unfold upd_state, L, R. rewrite !put_same. reflexivity. Qed.

Lemma caseA s i p' :
  Inv s -> i < nT s -> pcof s i = PInit -> (exists c, p' = PDone c) -> Inv (set_pc s i p').
Proof.
  intros HI Hi Hp [c ->]. rewrite set_pc_upd_state.
  apply upd_state_Inv; auto; try discriminate.
  apply local_ok_same; auto; try congruence. apply HI.
Qed.

(* ---------- case B: first step of a task (register, then try the key lock) ---------- *)
Lemma set_locks_same s : set_locks s (s_locks s) = s.
Proof. destruct s; reflexivity. Qed.

Lemma NoDup_snoc (i : nat) ws : NoDup ws -> ~ In i ws -> NoDup (ws ++ [i]).
Proof.
  induction 1 as [|x ws Hx Hn IH]; cbn; intro Hi.
  - constructor; auto. constructor.
  - constructor.
    + intro H. apply in_app_or in H. destruct H as [H|[H|[]]]; auto.
    + apply IH. auto.
Qed.

Lemma not_waiting s i l : InvK s (key s i) -> L s (key s i) = Some l -> pcof s i <> PWaitKey -> ~ In i (l_waiters l).
Proof. intros HK Hl Hp Hin. destruct (K_waiters _ _ HK l i Hl Hin) as (_ & _ & H). auto. Qed.

Lemma caseB s i : Inv s -> i < nT s -> pcof s i = PInit -> Inv (reg_pure s i).
Proof.
  intros HI Hi Hp. pose proof (I_keys _ HI (key s i)) as HK.
  unfold reg_pure. change (t_key (get s i)) with (key s i).
  change (alookup (key s i) (s_locks s)) with (L s (key s i)).
  destruct (L s (key s i)) as [l|] eqn:Hl.
  - (* the key has a lock already *)
    pose proof HK as [K1 K2 K3 K4 K5 K6 K7 K8 K9 K10]. rewrite Hl in K7.
    change (alookup (key s i) (s_refs s)) with (R s (key s i)). rewrite K7.
    rewrite <- (set_locks_same s) at 1. rewrite (acquire_key_eq s i _ _ l) by exact Hl.
    assert (Hni : ~ In i (l_waiters l)) by (eapply not_waiting; eauto; congruence).
    assert (Hne : forall j, In j (l_waiters l) -> j <> i) by (intros j Hj ->; auto).
    destruct (lk_can_take (futs s) l) eqn:Hc.
    + (* taken at once *)
      apply andb_true_iff in Hc. destruct Hc as [Hu Hac]. apply negb_true_iff in Hu.
      change (mk s i PInCS None (aset (key s i) (lk_take l) (s_locks s)) (aset (key s i) (refs_of l + 1)%Z (s_refs s)))
        with (upd_state s i PInCS None (Some (lk_take l)) (Some (refs_of l + 1)%Z)).
      apply upd_state_Inv; auto; try discriminate.
      constructor; rewrite ?Hl; cbn [ws_of lk_take l_waiters l_locked].
      * exact Hi.
      * intros x [=].
      * intros j _ Hj; exact Hj.
      * discriminate.
      * intros j Hj. right. auto.
      * eauto.
      * intros _. eexists; split; reflexivity.
      * intros _ j Hne' Hj Hk Hpj. destruct (K4 j Hj Hk Hpj) as (l0 & Hl0 & Hlk). congruence.
      * intros l' _ _. left; reflexivity.
      * unfold refs_of; cbn. rewrite Hu. f_equal. lia.
      * intros l' [= <-]. left; reflexivity.
      * intros l' j [= <-] Hin [Hw|[_ Hf]]; [discriminate|]. cbn in Hin.
        unfold all_cancelled in Hac. rewrite forallb_forall in Hac. specialize (Hac j Hin).
        unfold futs in Hac. unfold futof in Hf. rewrite Hf in Hac. discriminate.
      * intros l' [= <-]. cbn. discriminate.
    + (* queued *)
      change (mk s i PWaitKey None (aset (key s i) (lk_enqueue l i) (s_locks s)) (aset (key s i) (refs_of l + 1)%Z (s_refs s)))
        with (upd_state s i PWaitKey None (Some (lk_enqueue l i)) (Some (refs_of l + 1)%Z)).
      apply upd_state_Inv; auto; try discriminate.
      constructor; rewrite ?Hl; cbn [ws_of lk_enqueue l_waiters l_locked].
      * exact Hi.
      * intros x [=].
      * intros j _ Hj. apply in_or_app; auto.
      * intros _. apply in_or_app; right; cbn; auto.
      * intros j Hj. apply in_app_or in Hj. destruct Hj as [Hj|[<-|[]]]; [right|left]; auto.
      * apply NoDup_snoc; eauto.
      * intros [Hq|(j & Hne' & Hj & Hk & Hpj)]; [discriminate|].
        destruct (K4 j Hj Hk Hpj) as (l0 & Hl0 & Hlk). exists (lk_enqueue l i). split; auto.
        cbn. congruence.
      * discriminate.
      * intros l' [= <-]. cbn. intro Hlk. right. destruct (K6 l Hl Hlk) as (j & Hj & Hk & Hpj).
        exists j. repeat split; auto. congruence.
      * unfold refs_of; cbn. rewrite app_length; cbn. f_equal. lia.
      * intros l' [= <-]. right. cbn. destruct (l_waiters l); discriminate.
      * intros l' j [= <-] Hin [Hw|[Hne' Hf]]; [discriminate|]. cbn in *.
        apply in_app_or in Hin. destruct Hin as [Hin|[->|[]]]; [|congruence].
        destruct (K9 l j Hl Hin Hf) as (Hu & r & Hr). split; auto. exists (r ++ [i]). rewrite Hr. reflexivity.
      * intros l' [= <-]. cbn. intro Hu. destruct (K10 l Hl Hu) as (j & Hin & Hf).
        exists j. repeat split; auto. apply in_or_app; auto.
  - (* new lock *)
    pose proof HK as [K1 K2 K3 K4 K5 K6 K7 K8 K9 K10].
    cbn [s_refs set_refs set_locks]. rewrite alookup_aset_eq.
    change (set_refs (set_refs (set_locks s ?a) ?b) ?c) with (set_refs (set_locks s a) c).
    rewrite (acquire_key_eq s i _ _ lock_new) by apply alookup_aset_eq.
    cbn [lk_can_take lock_new l_locked l_waiters negb all_cancelled forallb andb].
    rewrite !aset_aset. cbn [Z.add].
    change (mk s i PInCS None (aset (key s i) (lk_take lock_new) (s_locks s)) (aset (key s i) 1%Z (s_refs s)))
      with (upd_state s i PInCS None (Some (lk_take lock_new)) (Some 1%Z)).
    apply upd_state_Inv; auto; try discriminate.
    constructor; rewrite ?Hl; cbn [ws_of l_waiters l_locked lk_take lock_new].
    + exact Hi.
    + intros x [=].
    + intros j _ [].
    + discriminate.
    + intros j [].
    + constructor.
    + intros _. eexists; split; reflexivity.
    + intros _ j Hne' Hj Hk Hpj. destruct (K4 j Hj Hk Hpj) as (l0 & Hl0 & _). congruence.
    + intros l' _ _. left; reflexivity.
    + reflexivity.
    + intros l' [= <-]. left; reflexivity.
    + intros l' j [= <-] [].
    + intros l' [= <-]. cbn. discriminate.
Qed.

(* ---------- case C2: a woken waiter takes the lock ---------- *)
Lemma caseC2 s i l :
  Inv s -> i < nT s -> pcof s i = PWaitKey -> L s (key s i) = Some l -> futof s i = FResult ->
  Inv (set_pc (set_locks s (aset (key s i) (lk_resume_ok l i) (s_locks s))) i PInCS).
Proof.
  intros HI Hi Hp Hl Hf. pose proof (I_keys _ HI (key s i)) as HK.
  pose proof HK as [K1 K2 K3 K4 K5 K6 K7 K8 K9 K10]. rewrite Hl in K7.
  destruct (K1 i Hi eq_refl Hp) as (l0 & Hl0 & Hin). rewrite Hl in Hl0. injection Hl0 as <-.
  destruct (K9 l i Hl Hin Hf) as (Hu & r & Hr).
  replace (set_pc (set_locks s (aset (key s i) (lk_resume_ok l i) (s_locks s))) i PInCS)
    with (upd_state s i PInCS None (Some (lk_resume_ok l i)) (R s (key s i))).
  2:{ unfold upd_state, R. rewrite put_same. destruct s; reflexivity. }
  apply upd_state_Inv; auto; try discriminate.
  pose proof (K3 l Hl) as Hnd.
  constructor; rewrite ?Hl; cbn [ws_of lk_resume_ok l_waiters l_locked].
  - exact Hi.
  - intros x [=].
  - intros j Hne Hj. apply rm1_In_neq; auto.
  - discriminate.
  - intros j Hj. right. split; [|eapply rm1_In; eauto]. intros ->. eapply rm1_notin; eauto.
  - apply rm1_NoDup; auto.
  - intros _. eexists; split; reflexivity.
  - intros _ j Hne Hj Hk Hpj. destruct (K4 j Hj Hk Hpj) as (l0 & Hl0 & Hlk). congruence.
  - intros l' _ _. left; reflexivity.
  - rewrite K7. unfold refs_of; cbn. rewrite Hu. f_equal. pose proof (rm1_length i _ Hin). lia.
  - intros l' [= <-]. left; reflexivity.
  - intros l' j [= <-] Hj [Hw|[Hne Hfj]]; [discriminate|]. cbn in Hj.
    apply rm1_In in Hj. destruct (K9 l j Hl Hj Hfj) as (_ & r' & Hr'). congruence.
  - intros l' [= <-]. cbn. discriminate.
Qed.

(* ---------- _wake_up_first ---------- *)
Lemma wake_first_some futs ws x :
  lk_wake_first futs ws = Some x -> exists r, ws = x :: r /\ futs x = FPending.
Proof.
  destruct ws as [|h r]; cbn; [discriminate|]. destruct (futs h) eqn:E; cbn; try discriminate.
  intros [= <-]. eauto.
Qed.

Lemma wake_first_live futs ws :
  ws <> [] -> exists h r, ws = h :: r /\ (lk_wake_first futs ws = Some h \/ futs h <> FPending).
Proof.
  destruct ws as [|h r]; [congruence|]. intros _. exists h, r. split; auto. cbn.
  destruct (futs h); cbn; auto; right; discriminate.
Qed.

Lemma main_wake s w : s_main (wake s w) = s_main s.
Proof. destruct w; reflexivity. Qed.

(* ---------- cases C1 and D: leaving (cancelled in the queue / end of the critical section) ---------- *)
Lemma leave_Inv s i l (locked' : bool) (ws' : list nat) w exc :
  Inv s -> i < nT s -> L s (key s i) = Some l ->
  (pcof s i = PWaitKey \/ pcof s i = PInCS) ->
  w = (if locked' then None else lk_wake_first (futs s) ws') ->
  (forall j, j <> i -> In j (l_waiters l) -> In j ws') ->
  (forall j, In j ws' -> j <> i /\ In j (l_waiters l)) ->
  NoDup ws' ->
  (locked' = true -> l_locked l = true /\ pcof s i = PWaitKey) ->
  (locked' = false -> l_locked l = true -> pcof s i = PInCS) ->
  (refs_of l - 1 = Z.of_nat (length ws') + (if locked' then 1 else 0))%Z ->
  (forall j r, l_waiters l = j :: r -> j <> i -> exists r', ws' = j :: r') ->
  Inv (dereg_pure (wake (set_locks s (aset (key s i) (mkLock locked' ws') (s_locks s))) w) i exc).
Proof.
  intros HI Hi Hl Hpc Hw Hin Hsub Hnd Hlk1 Hlk2 Hrefs Hhead.
  pose proof (I_keys _ HI (key s i)) as HK.
  pose proof HK as [K1 K2 K3 K4 K5 K6 K7 K8 K9 K10]. rewrite Hl in K7.
  rewrite (dereg_pure_eq s i exc w _ (refs_of l)) by exact K7.
  assert (Hwx : forall x, w = Some x -> locked' = false /\ exists r, ws' = x :: r /\ futof s x = FPending).
  { intros x Hx. rewrite Hx in Hw. destruct locked'; [discriminate|]. split; auto.
    symmetry in Hw. apply wake_first_some in Hw. exact Hw. }
  assert (Hnot : forall j, j < nT s -> key s j = key s i -> pcof s j = PInCS -> j <> i -> l_locked l = true /\ pcof s i = PWaitKey).
  { intros j Hj Hk Hpj Hne. destruct (K4 j Hj Hk Hpj) as (l0 & Hl0 & Hlk0). rewrite Hl in Hl0. injection Hl0 as <-.
    split; auto. destruct Hpc as [|Hpi]; auto. exfalso. apply Hne. eapply K5; eauto. }
  destruct (refs_of l - 1 =? 0)%Z eqn:Hz.
  - (* last one: the lock disappears *)
    apply Z.eqb_eq in Hz. rewrite adel_aset.
    assert (Hu : locked' = false) by (destruct locked'; auto; lia).
    assert (Hws : ws' = []) by (destruct ws'; auto; subst locked'; cbn in Hrefs; lia).
    subst locked' ws'. cbn in Hw. subst w.
    change (mk s i (PDone exc) None (adel (key s i) (s_locks s)) (adel (key s i) (s_refs s)))
      with (upd_state s i (PDone exc) None None None).
    apply upd_state_Inv; auto; try discriminate.
    constructor; rewrite ?Hl; cbn [ws_of].
    + exact Hi.
    + intros x [=].
    + intros j Hne Hj. eapply Hin; eauto.
    + discriminate.
    + intros j [].
    + constructor.
    + intros [Hq|(j & Hne & Hj & Hk & Hpj)]; [discriminate|].
      destruct (Hnot j Hj Hk Hpj Hne) as (Hlk & Hpi).
      destruct Hpc as [Hpi'|Hpi']; [|congruence].
      exfalso. destruct (K1 i Hi eq_refl Hpi) as (l0 & Hl0 & Hini). rewrite Hl in Hl0. injection Hl0 as <-.
      unfold refs_of in Hrefs, Hz. rewrite Hlk in *. pose proof (rm1_length i _ Hini). cbn in Hrefs. lia.
    + discriminate.
    + discriminate.
    + reflexivity.
    + discriminate.
    + discriminate.
    + discriminate.
  - (* the lock stays *)
    apply Z.eqb_neq in Hz.
    change (mk s i (PDone exc) w (aset (key s i) (mkLock locked' ws') (s_locks s)) (aset (key s i) (refs_of l - 1)%Z (s_refs s)))
      with (upd_state s i (PDone exc) w (Some (mkLock locked' ws')) (Some (refs_of l - 1)%Z)).
    apply upd_state_Inv; auto; try discriminate.
    constructor; rewrite ?Hl; cbn [ws_of l_waiters l_locked].
    + exact Hi.
    + intros x Hx. destruct (Hwx x Hx) as (_ & r & Hr & _).
      assert (Hx' : In x ws') by (rewrite Hr; cbn; auto).
      destruct (Hsub x Hx') as (Hne & Hxl). destruct (K2 l x Hl Hxl) as (a & b & c). auto.
    + exact Hin.
    + discriminate.
    + intros j Hj. right. apply Hsub; auto.
    + exact Hnd.
    + intros [Hq|(j & Hne & Hj & Hk & Hpj)]; [discriminate|].
      destruct (Hnot j Hj Hk Hpj Hne) as (Hlk & Hpi).
      exists (mkLock locked' ws'). split; auto. cbn.
      destruct locked'; auto; specialize (Hlk2 eq_refl Hlk); congruence.
    + discriminate.
    + intros l' [= <-]. cbn. intro Hlk. right. destruct (Hlk1 Hlk) as (Hlk' & Hpi).
      destruct (K6 l Hl Hlk') as (j & Hj & Hk & Hpj). exists j. repeat split; auto. congruence.
    + f_equal. rewrite Hrefs. reflexivity.
    + intros l' [= <-]. cbn. destruct locked'; auto. right. destruct ws'; [cbn in Hrefs; lia|discriminate].
    + intros l' j [= <-] Hj [Hx|[Hne Hfj]]; cbn in *.
      * destruct (Hwx j Hx) as (Hu & r & Hr & _). split; eauto.
      * destruct (Hsub j Hj) as (_ & Hjl). destruct (K9 l j Hl Hjl Hfj) as (Hu & r & Hr).
        destruct (Hhead j r Hr Hne) as (r' & Hr'). split; eauto.
        destruct locked'; auto. destruct (Hlk1 eq_refl). congruence.
    + intros l' [= <-]. cbn. intro Hu. subst locked'.
      assert (Hne : ws' <> []) by (destruct ws'; [cbn in Hrefs; lia|discriminate]).
      destruct (wake_first_live (futs s) ws' Hne) as (h & r & Hr & Hh).
      assert (Hhin : In h ws') by (rewrite Hr; cbn; auto).
      exists h. repeat split; auto.
      * apply Hsub; auto.
      * rewrite Hw. destruct Hh; auto.
Qed.

(* ---------- open / cancel: only the awaited future or must_cancel of one task changes ---------- *)
Lemma retask_Inv s i t' :
  Inv s -> i < nT s -> t_key t' = key s i -> t_pc t' = pcof s i ->
  (pcof s i = PWaitKey -> (t_fut t' = FResult -> futof s i = FResult) /\ (futof s i <> FPending -> t_fut t' <> FPending)) ->
  Inv (set_task s i t').
Proof.
  intros [Ie Im Ip Ik] Hi Hk Hp Hf.
  assert (Gk : forall j, key (set_task s i t') j = key s j).
  { intro j. unfold key. destruct (Nat.eq_dec i j) as [<-|Hne]; [rewrite get_set_task_eq|rewrite get_set_task_neq]; auto. }
  assert (Gp : forall j, pcof (set_task s i t') j = pcof s j).
  { intro j. unfold pcof. destruct (Nat.eq_dec i j) as [<-|Hne]; [rewrite get_set_task_eq|rewrite get_set_task_neq]; auto. }
  assert (Gf : forall j, j <> i -> futof (set_task s i t') j = futof s j).
  { intros j Hne. unfold futof. rewrite get_set_task_neq; auto. }
  assert (Gi : futof (set_task s i t') i = t_fut t') by (unfold futof; rewrite get_set_task_eq; auto).
  constructor; auto.
  - intro j. rewrite Gp. auto.
  - intro k. destruct (Ik k) as [K1 K2 K3 K4 K5 K6 K7 K8 K9 K10].
    constructor; rewrite ?nT_set_task; change (L (set_task s i t') k) with (L s k);
      change (R (set_task s i t') k) with (R s k); auto.
    + intros j Hj. rewrite Gk, Gp. eauto.
    + intros l j Hl Hin. rewrite Gk, Gp. eauto.
    + intros j Hj. rewrite Gk, Gp. eauto.
    + intros j j' Hj Hj'. rewrite !Gk, !Gp. eauto.
    + intros l Hl Hlk. destruct (K6 l Hl Hlk) as (j & a & b & c). exists j. rewrite Gk, Gp. auto.
    + intros l j Hl Hin Hfj. destruct (Nat.eq_dec j i) as [->|Hne].
      * rewrite Gi in Hfj. destruct (K2 l i Hl Hin) as (_ & _ & Hpi). apply (K9 l i Hl Hin). apply Hf; auto.
      * rewrite Gf in Hfj by auto. eauto.
    + intros l Hl Hlk. destruct (K10 l Hl Hlk) as (j & Hin & Hfj). exists j. split; auto.
      destruct (Nat.eq_dec j i) as [->|Hne].
      * rewrite Gi. destruct (K2 l i Hl Hin) as (_ & _ & Hpi). apply Hf; auto.
      * rewrite Gf; auto.
Qed.

Lemma open_Inv s i : Inv s -> Inv (open_gate s i).
Proof.
  intro HI. unfold open_gate. destruct (t_pc (get s i)) eqn:Hp; auto.
  destruct (is_pending (t_fut (get s i))); cbn [andb]; auto.
  destruct (Nat.ltb_spec i (length (s_tasks s))); auto.
  apply retask_Inv; auto. unfold pcof. rewrite Hp. discriminate.
Qed.

Lemma cancel_Inv s i : Inv s -> Inv (cancel s i).
Proof.
  intro HI. unfold cancel. destruct (Nat.ltb_spec i (length (s_tasks s))); cbn [negb]; auto.
  assert (G : forall p, p = t_pc (get s i) ->
    Inv (if is_pending (t_fut (get s i))
         then set_task s i (mkTask (t_key (get s i)) p FCancelled (t_mc (get s i)))
         else set_task s i (mkTask (t_key (get s i)) p (t_fut (get s i)) true))).
  { intros p ->. destruct (t_fut (get s i)) eqn:Hf; cbn [is_pending]; apply retask_Inv; auto; cbn;
      intros _; unfold futof; rewrite Hf; split; congruence. }
  destruct (t_pc (get s i)) eqn:Hp; auto.
  apply retask_Inv; auto; unfold pcof; rewrite Hp; discriminate.
Qed.

(* ---------- run ---------- *)
Lemma run_Inv s i : Inv s -> Inv (run s i).
Proof.
  intro HI. unfold run.
  destruct (Nat.ltb_spec i (length (s_tasks s))) as [Hi|]; cbn [negb orb]; auto.
  destruct (ready (get s i)) eqn:Hr; cbn [negb]; auto.
  pose proof (I_keys _ HI (key s i)) as HK.
  pose proof (I_main _ HI) as Hm.
  change (t_key (get s i)) with (key s i).
  destruct (t_pc (get s i)) eqn:Hp.
  - (* PInit *)
    destruct (t_mc (get s i)).
    + apply caseA; eauto.
    + rewrite register_free by auto. apply caseB; auto.
  - exfalso. destruct (I_pcs _ HI i) as [H1 _]. auto.
  - (* PWaitKey *)
    change (alookup (key s i) (s_locks s)) with (L s (key s i)).
    destruct (K_wait _ _ HK i Hi eq_refl Hp) as (l & Hl & Hin). rewrite Hl.
    pose proof (K_nodup _ _ HK l Hl) as Hnd.
    destruct (resume_cancel (get s i)) eqn:Hrc.
    + unfold lk_resume_cancel.
      rewrite deregister_free by (rewrite main_wake; exact Hm).
      apply leave_Inv with (l := l); auto.
      * intros j Hne Hj. apply rm1_In_neq; auto.
      * intros j Hj. split; [intros ->; eapply rm1_notin; eauto | eapply rm1_In; eauto].
      * apply rm1_NoDup; auto.
      * intros Hlk. rewrite Hlk. congruence.
      * unfold refs_of. pose proof (rm1_length i _ Hin). lia.
      * intros j r Hjr Hne. rewrite Hjr. rewrite rm1_cons_neq by auto. eauto.
    + apply caseC2; auto.
      unfold resume_cancel in Hrc. unfold ready in Hr. rewrite Hp in Hr.
      unfold futof. destruct (t_fut (get s i)); cbn in *; congruence.
  - (* PInCS *)
    change (alookup (key s i) (s_locks s)) with (L s (key s i)).
    destruct (K_cs _ _ HK i Hi eq_refl Hp) as (l & Hl & Hlk). rewrite Hl, Hlk.
    unfold lk_release.
    rewrite deregister_free by (rewrite main_wake; exact Hm).
    apply leave_Inv with (l := l); auto.
    + intros j Hj. split; auto. intros ->. destruct (K_waiters _ _ HK l i Hl Hj) as (_ & _ & Hpi). unfold pcof in Hpi. congruence.
    + eapply K_nodup; eauto.
    + discriminate.
    + unfold refs_of. rewrite Hlk. lia.
    + intros j r Hjr _. eauto.
  - exfalso. destruct (I_pcs _ HI i) as [_ H2]. eapply H2; eauto.
  - exact HI.
Qed.

Lemma step_Inv s c : Inv s -> Inv (step s c).
Proof. destruct c; cbn; [apply run_Inv | apply open_Inv | apply cancel_Inv]. Qed.

Lemma exec_Inv sched : forall s, Inv s -> Inv (exec s sched).
Proof. induction sched as [|c r IH]; cbn; auto. intros s H. apply IH. apply step_Inv; auto. Qed.

Lemma init_Inv keys : Inv (init keys).
Proof.
  assert (P : forall j, pcof (init keys) j = PInit \/ pcof (init keys) j = PDone false).
  { intro j. unfold pcof, get, init; cbn. destruct (Nat.ltb_spec j (length keys)).
    - left. rewrite nth_indep with (d' := mkTask 0 PInit FPending false) by (rewrite map_length; auto).
      change (mkTask 0 PInit FPending false) with ((fun k => mkTask k PInit FPending false) 0).
      rewrite map_nth. reflexivity.
    - right. rewrite nth_overflow; auto. rewrite map_length; auto. }
  constructor; auto.
  - intro j. destruct (P j) as [-> | ->]; split; try discriminate; intros; discriminate.
  - intro k. constructor; unfold L, R; cbn; try discriminate; auto.
    + intros j _ _ Hp. destruct (P j); congruence.
    + intros j _ _ Hp. destruct (P j); congruence.
    + intros j j' _ _ _ _ Hp. destruct (P j); congruence.
Qed.

Theorem reachable_Inv keys sched : Inv (exec (init keys) sched).
Proof. apply exec_Inv, init_Inv. Qed.

(* ---------- what one [run] step can do, as a local update with its side facts ---------- *)
(* progress measure: every effective step of a task strictly lowers its weight *)
Definition wt (t : task) : nat :=
  match t_pc t with
  | PInit => 6 | PWaitMain1 => 5 | PWaitKey => 4
  | PInCS => if is_pending (t_fut t) then 3 else 2
  | PWaitMain2 _ => 1 | PDone _ => 0
  end.

Inductive shape (s : st) (i : nat) : st -> Prop :=
| sh_same : (nT s <= i \/ ready (get s i) = false) -> shape s i s
| sh_upd p' w lo ro :
    i < nT s ->
    (forall x, w = Some x -> x < nT s /\ key s x = key s i) ->
    (forall x, w = Some x -> pcof s x = PWaitKey) ->
    wt (mkTask (key s i) p' FPending false) < wt (get s i) ->
    (* the queue of the key lock is FIFO: unchanged, one appended at the tail, or one removed *)
    (ws_of lo = ws_of (L s (key s i)) \/ ws_of lo = ws_of (L s (key s i)) ++ [i]
     \/ ws_of lo = rm1 i (ws_of (L s (key s i)))) ->
    (* entering: either at once past cancelled waiters only, or from the head of the queue *)
    (p' = PInCS ->
       (pcof s i = PInit /\ all_cancelled (futs s) (ws_of (L s (key s i))) = true) \/
       (pcof s i = PWaitKey /\ exists r, ws_of (L s (key s i)) = i :: r)) ->
    (* a queued task either enters or was cancelled *)
    (pcof s i = PWaitKey -> p' = PInCS \/ (p' = PDone true /\ resume_cancel (get s i) = true)) ->
    (pcof s i = PInit -> t_mc (get s i) = false -> p' = PInCS \/ p' = PWaitKey) ->
    (pcof s i = PInit -> L s (key s i) = None -> t_mc (get s i) = false -> p' = PInCS) ->
    shape s i (upd_state s i p' w lo ro).

Ltac side Hp :=
  try solve [unfold wt; rewrite Hp; cbn; lia];
  try solve [unfold pcof; rewrite ?Hp; intros;
             first [congruence | left; reflexivity | right; reflexivity | left; congruence | right; congruence]].

Lemma run_shape s i : Inv s -> shape s i (run s i).
Proof.
  intro HI. unfold run.
  destruct (Nat.ltb_spec i (length (s_tasks s))) as [Hi|]; cbn [negb orb]; [|constructor; left; auto].
  destruct (ready (get s i)) eqn:Hr; cbn [negb]; [|constructor; right; auto].
  pose proof (I_keys _ HI (key s i)) as HK.
  pose proof (I_main _ HI) as Hm.
  change (t_key (get s i)) with (key s i).
  destruct (t_pc (get s i)) eqn:Hp.
  - (* PInit *)
    destruct (t_mc (get s i)) eqn:Hmc.
    + rewrite set_pc_upd_state. constructor; auto; try discriminate; side Hp; intros; congruence.
    + rewrite register_free by auto.
      unfold reg_pure. change (t_key (get s i)) with (key s i).
      change (alookup (key s i) (s_locks s)) with (L s (key s i)).
      destruct (L s (key s i)) as [l|] eqn:Hl.
      * pose proof (K_refs _ _ HK) as K7. rewrite Hl in K7.
        change (alookup (key s i) (s_refs s)) with (R s (key s i)). rewrite K7.
        match goal with |- context [acquire_key (set_refs s ?X) i] =>
          replace (set_refs s X) with (set_refs (set_locks s (s_locks s)) X) by (rewrite set_locks_same; reflexivity) end.
        rewrite (acquire_key_eq s i _ _ l) by exact Hl.
        destruct (lk_can_take (futs s) l) eqn:Hc.
        -- apply andb_true_iff in Hc. destruct Hc as [Hu Hac].
           change (mk s i PInCS None (aset (key s i) (lk_take l) (s_locks s)) (aset (key s i) (refs_of l + 1)%Z (s_refs s)))
             with (upd_state s i PInCS None (Some (lk_take l)) (Some (refs_of l + 1)%Z)).
           constructor; auto; try discriminate; side Hp; rewrite ?Hl; cbn [ws_of lk_take l_waiters]; auto.
        -- change (mk s i PWaitKey None (aset (key s i) (lk_enqueue l i) (s_locks s)) (aset (key s i) (refs_of l + 1)%Z (s_refs s)))
             with (upd_state s i PWaitKey None (Some (lk_enqueue l i)) (Some (refs_of l + 1)%Z)).
           constructor; auto; try discriminate; side Hp; rewrite ?Hl; cbn [ws_of lk_enqueue l_waiters]; auto.
      * cbn [s_refs set_refs set_locks]. rewrite alookup_aset_eq.
        change (set_refs (set_refs (set_locks s ?a) ?b) ?c) with (set_refs (set_locks s a) c).
        rewrite (acquire_key_eq s i _ _ lock_new) by apply alookup_aset_eq.
        cbn [lk_can_take lock_new l_locked l_waiters negb all_cancelled forallb andb].
        rewrite !aset_aset. cbn [Z.add].
        change (mk s i PInCS None (aset (key s i) (lk_take lock_new) (s_locks s)) (aset (key s i) 1%Z (s_refs s)))
          with (upd_state s i PInCS None (Some (lk_take lock_new)) (Some 1%Z)).
        constructor; auto; try discriminate; side Hp; rewrite ?Hl; cbn [ws_of lk_take lock_new l_waiters]; auto.
  - exfalso. destruct (I_pcs _ HI i) as [H1 _]. auto.
  - (* PWaitKey *)
    change (alookup (key s i) (s_locks s)) with (L s (key s i)).
    destruct (K_wait _ _ HK i Hi eq_refl Hp) as (l & Hl & Hin). rewrite Hl.
    destruct (resume_cancel (get s i)) eqn:Hrc.
    + unfold lk_resume_cancel.
      rewrite deregister_free by (rewrite main_wake; exact Hm).
      pose proof (K_refs _ _ HK) as K7. rewrite Hl in K7.
      rewrite (dereg_pure_eq s i true _ _ (refs_of l)) by exact K7.
      assert (Hw0 : forall x, (if l_locked l then None else lk_wake_first (futs s) (rm1 i (l_waiters l))) = Some x ->
                   x < nT s /\ key s x = key s i /\ pcof s x = PWaitKey).
      { intros x Hx. destruct (l_locked l); [discriminate|]. apply wake_first_some in Hx.
        destruct Hx as (r & Hx & _). assert (Hxi : In x (rm1 i (l_waiters l))) by (rewrite Hx; cbn; auto).
        apply rm1_In in Hxi. apply (K_waiters _ _ HK l x Hl Hxi). }
      assert (Hw : forall x, (if l_locked l then None else lk_wake_first (futs s) (rm1 i (l_waiters l))) = Some x ->
                   x < nT s /\ key s x = key s i) by (intros x Hx; destruct (Hw0 x Hx) as (a & b & c); auto).
      assert (Hw' : forall x, (if l_locked l then None else lk_wake_first (futs s) (rm1 i (l_waiters l))) = Some x ->
                   pcof s x = PWaitKey) by (intros x Hx; destruct (Hw0 x Hx) as (a & b & c); auto).
      assert (Hwt : forall e, wt (mkTask (key s i) (PDone e) FPending false) < wt (get s i)) by (intro e; unfold wt; rewrite Hp; cbn; lia).
      destruct (refs_of l - 1 =? 0)%Z eqn:Hz.
      * rewrite adel_aset. apply Z.eqb_eq in Hz.
        assert (Hws : rm1 i (l_waiters l) = []).
        { pose proof (rm1_length i _ Hin). unfold refs_of in Hz.
          destruct (rm1 i (l_waiters l)); auto. cbn in H. destruct (l_locked l); lia. }
        match goal with |- shape _ _ (mk s i ?p ?w _ _) =>
          change (shape s i (upd_state s i p w None None)) end.
        constructor; auto; try discriminate; side Hp; rewrite ?Hl; cbn [ws_of]; auto.
      * match goal with |- shape _ _ (mk s i ?p ?w (aset _ ?l' _) (aset _ ?r' _)) =>
          change (shape s i (upd_state s i p w (Some l') (Some r'))) end.
        constructor; auto; try discriminate; side Hp; rewrite ?Hl; cbn [ws_of l_waiters]; auto.
    + replace (set_pc (set_locks s (aset (key s i) (lk_resume_ok l i) (s_locks s))) i PInCS)
        with (upd_state s i PInCS None (Some (lk_resume_ok l i)) (R s (key s i))).
      2:{ unfold upd_state, R. rewrite put_same. destruct s; reflexivity. }
      assert (Hf : futof s i = FResult).
      { unfold resume_cancel in Hrc. unfold ready in Hr. rewrite Hp in Hr.
        unfold futof. destruct (t_fut (get s i)); cbn in *; congruence. }
      destruct (K_result _ _ HK l i Hl Hin Hf) as (Hu & r & Hr').
      constructor; auto; try discriminate; side Hp; rewrite ?Hl; cbn [ws_of lk_resume_ok l_waiters]; auto.
      intros _. right. unfold pcof. rewrite Hp. split; eauto.
  - (* PInCS *)
    change (alookup (key s i) (s_locks s)) with (L s (key s i)).
    destruct (K_cs _ _ HK i Hi eq_refl Hp) as (l & Hl & Hlk). rewrite Hl, Hlk.
    unfold lk_release.
    rewrite deregister_free by (rewrite main_wake; exact Hm).
    pose proof (K_refs _ _ HK) as K7. rewrite Hl in K7.
    rewrite (dereg_pure_eq s i _ _ _ (refs_of l)) by exact K7.
    assert (Hw0 : forall x, lk_wake_first (futs s) (l_waiters l) = Some x -> x < nT s /\ key s x = key s i /\ pcof s x = PWaitKey).
    { intros x Hx. apply wake_first_some in Hx.
      destruct Hx as (r & Hx & _). assert (Hxi : In x (l_waiters l)) by (rewrite Hx; cbn; auto).
      apply (K_waiters _ _ HK l x Hl Hxi). }
    assert (Hw : forall x, lk_wake_first (futs s) (l_waiters l) = Some x -> x < nT s /\ key s x = key s i)
      by (intros x Hx; destruct (Hw0 x Hx) as (a & b & c); auto).
    assert (Hw' : forall x, lk_wake_first (futs s) (l_waiters l) = Some x -> pcof s x = PWaitKey)
      by (intros x Hx; destruct (Hw0 x Hx) as (a & b & c); auto).
    assert (Hwt : forall e, wt (mkTask (key s i) (PDone e) FPending false) < wt (get s i)).
    { intro e. unfold wt. rewrite Hp. unfold ready in Hr. rewrite Hp in Hr. cbn.
      destruct (is_pending (t_fut (get s i))); [discriminate|lia]. }
    destruct (refs_of l - 1 =? 0)%Z eqn:Hz.
    + rewrite adel_aset. apply Z.eqb_eq in Hz.
      assert (Hws : l_waiters l = []).
      { unfold refs_of in Hz. rewrite Hlk in Hz. destruct (l_waiters l); auto. cbn [length] in Hz. lia. }
      match goal with |- shape _ _ (mk s i ?p ?w _ _) =>
        change (shape s i (upd_state s i p w None None)) end.
      constructor; auto; try discriminate; side Hp; rewrite ?Hl; cbn [ws_of]; auto;
        unfold pcof; rewrite Hp; discriminate.
    + match goal with |- shape _ _ (mk s i ?p ?w (aset _ ?l' _) (aset _ ?r' _)) =>
        change (shape s i (upd_state s i p w (Some l') (Some r'))) end.
      constructor; auto; try discriminate; side Hp; rewrite ?Hl; cbn [ws_of l_waiters]; auto;
        unfold pcof; rewrite Hp; discriminate.
  - exfalso. destruct (I_pcs _ HI i) as [_ H2]. eapply H2; eauto.
  - unfold ready in Hr. rewrite Hp in Hr. discriminate.
Qed.

(* =====================  the theorems  ===================== *)
From Coq Require Import Permutation.

Definition reach (keys : list nat) (sched : list choice) : st := exec (init keys) sched.

Lemma in_cs_pc s i : in_cs s i = true <-> i < nT s /\ pcof s i = PInCS.
Proof.
  unfold in_cs, pcof, nT. rewrite andb_true_iff, Nat.ltb_lt.
  destruct (t_pc (get s i)); intuition congruence.
Qed.

(* 1. mutual exclusion per key *)
Lemma mutual_exclusion keys sched i j :
  let s := reach keys sched in
  in_cs s i = true -> in_cs s j = true -> t_key (get s i) = t_key (get s j) -> i = j.
Proof.
  intros s Hi Hj Hk. apply in_cs_pc in Hi, Hj. destruct Hi, Hj.
  pose proof (reachable_Inv keys sched) as HI.
  eapply (K_mutex _ _ (I_keys _ HI (key s i))); eauto.
Qed.

(* 4. no KeyError/RuntimeError inside KeyedLock; the main lock is free at every scheduling point and
   nobody ever waits for it (so `async with self._get_main_lock()` never suspends) *)
Lemma no_internal_error keys sched :
  let s := reach keys sched in
  s_err s = false /\ s_main s = lock_new /\
  forall i, t_pc (get s i) <> PWaitMain1 /\ forall e, t_pc (get s i) <> PWaitMain2 e.
Proof. intro s. destruct (reachable_Inv keys sched) as [a b c d]. auto. Qed.

(* 2. refs[k] = number of tasks between register and deregister; _locks has k iff that is > 0 *)
Lemma registered_ids_In s k j :
  In j (registered_ids s k) <-> j < nT s /\ key s j = k /\ registered (get s j) = true.
Proof.
  unfold registered_ids. rewrite filter_In, in_seq, andb_true_iff, Nat.eqb_eq. unfold nT, key. intuition lia.
Qed.

Lemma registered_pc s j : Inv s -> (registered (get s j) = true <-> pcof s j = PWaitKey \/ pcof s j = PInCS).
Proof.
  intro HI. destruct (I_pcs _ HI j) as [_ H2]. unfold registered, pcof in *.
  destruct (t_pc (get s j)) eqn:E; intuition (try congruence); exfalso; eapply H2; eauto.
Qed.

Lemma refs_count_Inv s k : Inv s ->
  match L s k with
  | None => registered_ids s k = [] /\ R s k = None
  | Some l => R s k = Some (Z.of_nat (length (registered_ids s k))) /\ registered_ids s k <> []
  end.
Proof.
  intro HI. pose proof (I_keys _ HI k) as [K1 K2 K3 K4 K5 K6 K7 K8 K9 K10].
  destruct (L s k) as [l|] eqn:Hl.
  - assert (Hh : exists hs, (l_locked l = true -> exists h, hs = [h] /\ h < nT s /\ key s h = k /\ pcof s h = PInCS)
                        /\ (l_locked l = false -> hs = [])).
    { destruct (l_locked l) eqn:Hlk.
      - destruct (K6 l eq_refl Hlk) as (h & a & b & c). exists [h]. split; [eauto|discriminate].
      - exists []. split; [discriminate|auto]. }
    destruct Hh as (hs & Hh1 & Hh0).
    assert (P : Permutation (registered_ids s k) (hs ++ l_waiters l)).
    { apply NoDup_Permutation.
      - unfold registered_ids. apply NoDup_filter, seq_NoDup.
      - destruct (l_locked l) eqn:Hlk.
        + destruct (Hh1 eq_refl) as (h & -> & a & b & c). cbn. constructor; eauto.
          intro Hin. destruct (K2 l h eq_refl Hin) as (_ & _ & Hp). congruence.
        + rewrite (Hh0 eq_refl). cbn. eauto.
      - intro j. rewrite registered_ids_In, in_app_iff. split.
        + intros (Hj & Hk & Hr). apply registered_pc in Hr; auto. destruct Hr as [Hp|Hp].
          * right. destruct (K1 j Hj Hk Hp) as (l0 & [= <-] & Hin). auto.
          * left. destruct (K4 j Hj Hk Hp) as (l0 & [= <-] & Hlk).
            destruct (Hh1 Hlk) as (h & -> & a & b & c). left. eapply K5; eauto.
        + intros [Hin|Hin].
          * destruct (l_locked l) eqn:Hlk.
            -- destruct (Hh1 eq_refl) as (h & -> & a & b & c). destruct Hin as [<-|[]].
               repeat split; auto. apply registered_pc; auto.
            -- rewrite (Hh0 eq_refl) in Hin. destruct Hin.
          * destruct (K2 l j eq_refl Hin) as (a & b & c). repeat split; auto. apply registered_pc; auto. }
    pose proof (Permutation_length P) as Hlen. rewrite app_length in Hlen.
    split.
    + rewrite K7. f_equal. unfold refs_of. rewrite Hlen.
      destruct (l_locked l) eqn:Hlk.
      * destruct (Hh1 eq_refl) as (h & -> & _). cbn [length]. lia.
      * rewrite (Hh0 eq_refl). cbn [length]. lia.
    + intro E. rewrite E in Hlen. cbn in Hlen.
      destruct (K8 l eq_refl) as [Hlk|Hw].
      * destruct (Hh1 Hlk) as (h & -> & _). cbn in Hlen. lia.
      * destruct (l_waiters l); [congruence|]. cbn in Hlen. lia.
  - split; auto.
    destruct (registered_ids s k) as [|j r] eqn:E; auto. exfalso.
    assert (Hin : In j (registered_ids s k)) by (rewrite E; cbn; auto).
    apply registered_ids_In in Hin. destruct Hin as (Hj & Hk & Hr).
    apply registered_pc in Hr; auto. destruct Hr as [Hp|Hp].
    + destruct (K1 j Hj Hk Hp) as (l0 & Hl0 & _). discriminate.
    + destruct (K4 j Hj Hk Hp) as (l0 & Hl0 & _). discriminate.
Qed.

Lemma refs_count keys sched k :
  let s := reach keys sched in
  let c := length (registered_ids s k) in
  alookup k (s_refs s) = (if c =? 0 then None else Some (Z.of_nat c)) /\
  (alookup k (s_locks s) = None <-> c = 0).
Proof.
  intros s c. pose proof (refs_count_Inv s k (reachable_Inv keys sched)) as H.
  change (alookup k (s_locks s)) with (L s k). change (alookup k (s_refs s)) with (R s k).
  subst c. destruct (L s k) as [l|].
  - destruct H as [Hr Hne]. destruct (registered_ids s k) eqn:E; [congruence|]. cbn [length Nat.eqb].
    split; auto. split; [discriminate|]. cbn; lia.
  - destruct H as [-> Hr]. cbn. split; auto. tauto.
Qed.

(* 3. once all holders and waiters are gone (finished or cancelled) no lock state remains *)
Lemma all_done_spec s : all_done s = true -> forall j, done (get s j) = true.
Proof.
  unfold all_done. rewrite forallb_forall. intros H j. unfold get.
  destruct (Nat.ltb_spec j (length (s_tasks s))).
  - apply H. apply nth_In; auto.
  - rewrite nth_overflow; auto.
Qed.

Lemma cleanup keys sched :
  let s := reach keys sched in
  all_done s = true -> s_locks s = [] /\ s_refs s = [].
Proof.
  intros s Hd. pose proof (reachable_Inv keys sched) as HI. fold (reach keys sched) in HI. fold s in HI.
  pose proof (all_done_spec s Hd) as Hdone.
  assert (E : forall k, registered_ids s k = []).
  { intro k. destruct (registered_ids s k) as [|j r] eqn:E; auto. exfalso.
    assert (Hin : In j (registered_ids s k)) by (rewrite E; cbn; auto).
    apply registered_ids_In in Hin. destruct Hin as (_ & _ & Hr). specialize (Hdone j).
    unfold registered, done in *. destruct (t_pc (get s j)); discriminate. }
  split; apply alookup_none_all; intro k; pose proof (refs_count_Inv s k HI) as H;
    fold (L s k); fold (R s k); destruct (L s k); destruct H; auto; congruence.
Qed.

(* per key: as soon as nobody is registered for k, neither dict mentions k *)
Lemma cleanup_key keys sched k :
  let s := reach keys sched in
  registered_ids s k = [] -> alookup k (s_locks s) = None /\ alookup k (s_refs s) = None.
Proof.
  intros s E. pose proof (refs_count_Inv s k (reachable_Inv keys sched)) as H.
  fold (reach keys sched) in H. fold s in H. fold (L s k). fold (R s k).
  destruct (L s k); destruct H; auto; congruence.
Qed.

(* 5. independence across keys *)
Definition task_of (c : choice) : nat := match c with CRun i | COpen i | CCancel i => i end.

Lemma agree_refl s k : agree s s k.
Proof. constructor; auto. Qed.

Lemma set_task_agree s i t' k : t_key t' = key s i -> k <> key s i -> agree s (set_task s i t') k.
Proof.
  intros Hk Hne. constructor; auto.
  - apply nT_set_task.
  - intro j. unfold key. destruct (Nat.eq_dec i j) as [<-|Hn]; [|rewrite get_set_task_neq; auto].
    destruct (Nat.ltb_spec i (nT s)); [rewrite get_set_task_eq; auto|].
    rewrite !get_oob; auto. rewrite nT_set_task; auto.
  - intros j Hj. destruct (Nat.eq_dec i j) as [<-|Hn]; [congruence|]. apply get_set_task_neq; auto.
Qed.

Lemma step_agree s c k : Inv s -> k <> key s (task_of c) -> agree s (step s c) k.
Proof.
  intros HI Hne. destruct c as [i|i|i]; cbn [step task_of] in *.
  - destruct (run_shape s i HI) as [|p' w lo ro Hi Hw _ _ _ _ _ _ _]; [apply agree_refl|].
    apply upd_state_agree; auto. intros x Hx. apply Hw; auto.
  - unfold open_gate. destruct (t_pc (get s i)); try apply agree_refl.
    destruct (is_pending (t_fut (get s i)) && (i <? length (s_tasks s))); [|apply agree_refl].
    apply set_task_agree; auto.
  - unfold cancel. destruct (negb (i <? length (s_tasks s))); [apply agree_refl|].
    destruct (t_pc (get s i)); try apply agree_refl; try (destruct (is_pending (t_fut (get s i))));
      apply set_task_agree; auto.
Qed.

Lemma independence_frame keys sched c k :
  let s := reach keys sched in
  k <> t_key (get s (task_of c)) ->
  let s' := step s c in
  alookup k (s_locks s') = alookup k (s_locks s) /\ alookup k (s_refs s') = alookup k (s_refs s) /\
  forall j, t_key (get s j) = k -> get s' j = get s j.
Proof.
  intros s Hne s'. destruct (step_agree s c k (reachable_Inv keys sched) Hne) as [a b c' d e]. auto.
Qed.

Lemma independence_enter keys sched i :
  let s := reach keys sched in
  i < length (s_tasks s) -> t_pc (get s i) = PInit -> t_mc (get s i) = false ->
  registered_ids s (t_key (get s i)) = [] ->
  in_cs (step s (CRun i)) i = true.
Proof.
  intros s Hi Hp Hmc Hreg. pose proof (reachable_Inv keys sched) as HI. fold (reach keys sched) in HI. fold s in HI.
  assert (Hl : L s (key s i) = None).
  { pose proof (refs_count_Inv s (key s i) HI) as H. destruct (L s (key s i)); auto. destruct H. contradiction. }
  cbn [step]. destruct (run_shape s i HI) as [[Hge|Hr]|p' w lo ro Hi' Hw _ _ _ _ _ _ Hnew].
  - unfold nT in Hge. lia.
  - unfold ready in Hr. rewrite Hp in Hr. discriminate.
  - apply in_cs_pc. rewrite nT_upd_state, pcof_upd_state, Nat.eqb_refl by auto. split; auto.
Qed.

(* 6. progress *)
Lemma deadlock_free_Inv s i :
  Inv s -> i < nT s -> done (get s i) = false -> exists c, enabled s c = true.
Proof.
  intros HI Hi Hd. pose proof (I_keys _ HI (key s i)) as [K1 K2 K3 K4 K5 K6 K7 K8 K9 K10].
  assert (Hrun : forall j, j < nT s -> ready (get s j) = true -> exists c, enabled s c = true).
  { intros j Hj Hr. exists (CRun j). cbn. apply andb_true_iff. split; auto. apply Nat.ltb_lt; auto. }
  assert (Hcs : forall j, j < nT s -> pcof s j = PInCS -> exists c, enabled s c = true).
  { intros j Hj Hp. destruct (is_pending (t_fut (get s j))) eqn:Hf.
    - exists (COpen j). cbn. unfold pcof in Hp. rewrite Hp, Hf. apply andb_true_iff. split; auto. apply Nat.ltb_lt; auto.
    - apply (Hrun j Hj). unfold ready. unfold pcof in Hp. rewrite Hp, Hf. reflexivity. }
  destruct (t_pc (get s i)) eqn:Hp.
  - apply (Hrun i Hi). unfold ready. rewrite Hp. reflexivity.
  - exfalso. destruct (I_pcs _ HI i) as [H1 _]. auto.
  - destruct (K1 i Hi eq_refl Hp) as (l & Hl & Hin).
    destruct (l_locked l) eqn:Hlk.
    + destruct (K6 l Hl Hlk) as (h & Hh & _ & Hph). eauto.
    + destruct (K10 l Hl Hlk) as (j & Hjin & Hf). destruct (K2 l j Hl Hjin) as (Hj & _ & Hpj).
      apply (Hrun j Hj). unfold ready. unfold pcof in Hpj. rewrite Hpj. unfold futof in Hf.
      destruct (t_fut (get s j)); auto; congruence.
  - eauto.
  - exfalso. destruct (I_pcs _ HI i) as [_ H2]. eapply H2; eauto.
  - unfold done in Hd. rewrite Hp in Hd. discriminate.
Qed.

Lemma deadlock_free keys sched :
  let s := reach keys sched in
  all_done s = false -> exists c, enabled s c = true.
Proof.
  intros s Hd. unfold all_done in Hd.
  assert (exists t, In t (s_tasks s) /\ done t = false) as (t & Hin & Ht).
  { induction (s_tasks s) as [|t r IH]; cbn in Hd; [discriminate|].
    destruct (done t) eqn:E; cbn in Hd.
    - destruct (IH Hd) as (t' & a & b). exists t'; cbn; auto.
    - exists t; cbn; auto. }
  destruct (In_nth _ _ dflt Hin) as (i & Hi & Hnth).
  apply (deadlock_free_Inv s i); auto. apply reachable_Inv. unfold get. rewrite Hnth. auto.
Qed.

(* a queued task that nobody cancels stays queued until it enters *)
Definition waiting (s : st) (i : nat) : Prop :=
  i < nT s /\ pcof s i = PWaitKey /\ resume_cancel (get s i) = false.

Lemma waiting_step s c i :
  Inv s -> waiting s i -> c <> CCancel i -> waiting (step s c) i \/ in_cs (step s c) i = true.
Proof.
  intros HI (Hi & Hp & Hrc) Hc.
  assert (Hother : forall j p' w lo ro, j <> i -> j < nT s ->
            waiting (upd_state s j p' w lo ro) i).
  { intros j p' w lo ro Hne Hj. unfold waiting. rewrite nT_upd_state, pcof_upd_state by auto.
    destruct (Nat.eqb_spec i j); [congruence|]. repeat split; auto.
    rewrite get_upd_state by auto. destruct (Nat.eqb_spec i j); [congruence|].
    rewrite get_wake. destruct w as [x|]; auto.
    destruct ((i =? x) && (x <? nT s)); auto.
    unfold resume_cancel in *. cbn. apply orb_false_iff in Hrc. destruct Hrc as [_ ->]. reflexivity. }
  destruct c as [j|j|j]; cbn [step].
  - destruct (run_shape s j HI) as [|p' w lo ro Hj Hw _ _ _ _ Hq _ _]; [left; split; auto|].
    destruct (Nat.eq_dec j i) as [->|Hne]; [|left; apply Hother; auto].
    right. apply in_cs_pc. rewrite nT_upd_state, pcof_upd_state, Nat.eqb_refl by auto.
    split; auto. destruct (Hq Hp) as [|[_ Hx]]; auto. congruence.
  - left. unfold open_gate. destruct (Nat.eq_dec j i) as [->|Hne].
    + unfold pcof in Hp. rewrite Hp. split; auto.
    + destruct (t_pc (get s j)); try (split; auto; fail).
      destruct (is_pending (t_fut (get s j)) && (j <? length (s_tasks s))); [|split; auto].
      unfold waiting, pcof. rewrite nT_set_task, get_set_task_neq by auto. auto.
  - left. assert (Hne : j <> i) by congruence. unfold cancel.
    destruct (negb (j <? length (s_tasks s))); [split; auto|].
    destruct (t_pc (get s j)); try (split; auto; fail); try destruct (is_pending (t_fut (get s j)));
      unfold waiting, pcof; rewrite nT_set_task, get_set_task_neq by auto; auto.
Qed.

Lemma waiter_enters_Inv sched : forall s i,
  Inv s -> waiting s i -> (forall c, In c sched -> c <> CCancel i) ->
  waiting (exec s sched) i \/
  exists p q, sched = p ++ q /\ in_cs (exec s p) i = true.
Proof.
  induction sched as [|c r IH]; intros s i HI Hw Hnc; [left; auto|].
  cbn [exec fold_left]. destruct (waiting_step s c i HI Hw) as [Hw'|Hin].
  - apply Hnc; cbn; auto.
  - destruct (IH (step s c) i (step_Inv _ _ HI) Hw') as [H|(p & q & -> & H)].
    + intros c' Hc'. apply Hnc; cbn; auto.
    + left; auto.
    + right. exists (c :: p), q. split; auto.
  - right. exists [c], r. split; auto.
Qed.

Lemma pcof_set_task_same s i t' j : t_pc t' = pcof s i -> pcof (set_task s i t') j = pcof s j.
Proof.
  intro H. unfold pcof in *. destruct (Nat.eq_dec i j) as [<-|Hne]; [|rewrite get_set_task_neq; auto].
  destruct (Nat.ltb_spec i (nT s)); [rewrite get_set_task_eq; auto|].
  rewrite !get_oob; auto. rewrite nT_set_task; auto.
Qed.

Lemma pcof_open s i j : pcof (open_gate s i) j = pcof s j.
Proof.
  unfold open_gate. destruct (t_pc (get s i)) eqn:E; auto.
  destruct (is_pending (t_fut (get s i)) && (i <? length (s_tasks s))); auto.
  apply pcof_set_task_same. unfold pcof. rewrite E. reflexivity.
Qed.

Lemma pcof_cancel s i j : pcof (cancel s i) j = pcof s j.
Proof.
  unfold cancel. destruct (negb (i <? length (s_tasks s))); auto.
  destruct (t_pc (get s i)) eqn:E; auto; try destruct (is_pending (t_fut (get s i)));
    apply pcof_set_task_same; unfold pcof; rewrite E; reflexivity.
Qed.

(* 7. FIFO: a queued task enters only from the head of the queue; the queue only grows at the tail
   and shrinks by removal; a newcomer passes queued tasks only if all of them are cancelled *)
Lemma fifo_enter_Inv s c j :
  Inv s -> j < nT s -> in_cs s j = false -> in_cs (step s c) j = true ->
  c = CRun j /\
  ((pcof s j = PWaitKey /\ exists l r, L s (key s j) = Some l /\ l_waiters l = j :: r) \/
   (pcof s j = PInit /\ forall x, In x (ws_of (L s (key s j))) -> futof s x = FCancelled)).
Proof.
  intros HI Hj Hout Hin. apply in_cs_pc in Hin. destruct Hin as [_ Hin].
  assert (Hnot : pcof s j <> PInCS).
  { intro E. assert (in_cs s j = true) by (apply in_cs_pc; auto). congruence. }
  destruct c as [i|i|i]; cbn [step] in Hin.
  - destruct (run_shape s i HI) as [|p' w lo ro Hi Hw _ _ _ He _ _ _]; [congruence|].
    rewrite pcof_upd_state in Hin by auto. destruct (Nat.eqb_spec j i) as [->|]; [|congruence].
    split; auto. subst p'. destruct (He eq_refl) as [[Hp Hac]|[Hp [r Hr]]].
    + right. split; auto. intros x Hx. unfold all_cancelled in Hac. rewrite forallb_forall in Hac.
      specialize (Hac x Hx). unfold futs in Hac. unfold futof. destruct (t_fut (get s x)); auto; discriminate.
    + left. split; auto. destruct (L s (key s i)) as [l|]; [|discriminate]. eauto.
  - rewrite pcof_open in Hin. contradiction.
  - rewrite pcof_cancel in Hin. contradiction.
Qed.

Lemma queue_step_Inv s c k :
  Inv s ->
  let ws := ws_of (L s k) in let ws' := ws_of (L (step s c) k) in
  ws' = ws \/ ws' = ws ++ [task_of c] \/ ws' = rm1 (task_of c) ws.
Proof.
  intros HI ws ws'. subst ws ws'.
  destruct (Nat.eq_dec k (key s (task_of c))) as [->|Hne].
  2:{ left. rewrite (A_L _ _ _ (step_agree s c k HI Hne)). reflexivity. }
  destruct c as [i|i|i]; cbn [step task_of].
  - destruct (run_shape s i HI) as [|p' w lo ro Hi Hw _ _ Hq _ _ _ _]; auto.
    rewrite L_upd_state. exact Hq.
  - left. unfold open_gate. destruct (t_pc (get s i)); auto.
    destruct (is_pending (t_fut (get s i)) && (i <? length (s_tasks s))); auto.
  - left. unfold cancel. destruct (negb (i <? length (s_tasks s))); auto.
    destruct (t_pc (get s i)); auto; destruct (is_pending (t_fut (get s i))); auto.
Qed.

(* ---------- termination measure ---------- *)
Definition mu (s : st) : nat := list_sum (map wt (s_tasks s)).

Lemma sum_upd i x l : i < length l ->
  list_sum (map wt (upd i x l)) + wt (nth i l dflt) = list_sum (map wt l) + wt x.
Proof.
  revert i; induction l as [|y l IH]; intros [|i] H; cbn in *; try lia.
  specialize (IH i ltac:(lia)). unfold list_sum in IH. lia.
Qed.

Lemma mu_set_task s i t' : i < nT s -> mu (set_task s i t') + wt (get s i) = mu s + wt t'.
Proof. intro H. unfold mu, set_task, get; cbn. apply sum_upd; auto. Qed.

Lemma upd_oob {A} i (x : A) l : length l <= i -> upd i x l = l.
Proof. revert i; induction l as [|y l IH]; intros [|i] H; cbn in *; auto; try lia. f_equal. apply IH. lia. Qed.

Lemma mu_wake s w : (forall x, w = Some x -> pcof s x = PWaitKey) -> mu (wake s w) = mu s.
Proof.
  intro H. destruct w as [x|]; auto. specialize (H x eq_refl). unfold wake.
  destruct (Nat.ltb_spec x (nT s)) as [Hx|Hx].
  - pose proof (mu_set_task s x (mkTask (t_key (get s x)) (t_pc (get s x)) FResult (t_mc (get s x))) Hx) as E.
    unfold wt in E. cbn [t_pc t_fut] in E. unfold pcof in H. rewrite H in E. rewrite H. lia.
  - unfold mu, set_task; cbn. rewrite upd_oob; auto.
Qed.

Lemma wt_wake s w i : (forall x, w = Some x -> pcof s x = PWaitKey) -> wt (get (wake s w) i) = wt (get s i).
Proof.
  intro H. rewrite get_wake. destruct w as [x|]; auto. specialize (H x eq_refl).
  destruct (Nat.eqb_spec i x); cbn [andb]; auto. subst. destruct (x <? nT s); auto.
  unfold wt; cbn [t_pc t_fut]. unfold pcof in *. rewrite H. reflexivity.
Qed.

Lemma mu_upd_state s i p' w lo ro :
  i < nT s -> (forall x, w = Some x -> pcof s x = PWaitKey) ->
  mu (upd_state s i p' w lo ro) + wt (get s i) = mu s + wt (mkTask (key s i) p' FPending false).
Proof.
  intros Hi Hw. unfold upd_state, set_refs, set_locks, set_pc.
  change (mu (mkSt ?a ?b ?c ?d ?e)) with (list_sum (map wt a)). cbn [s_tasks set_task].
  pose proof (sum_upd i (mkTask (t_key (get (wake s w) i)) p' FPending false) (s_tasks (wake s w))) as E.
  fold (nT (wake s w)) in E. rewrite nT_wake in E. specialize (E Hi).
  fold (get (wake s w) i) in E. rewrite wt_wake in E by auto.
  fold (mu (wake s w)) in E. rewrite mu_wake in E by auto.
  change (t_key (get (wake s w) i)) with (key (wake s w) i) in *. rewrite key_wake in *. exact E.
Qed.

Lemma effective_step_decreases s c : Inv s -> enabled s c = true -> mu (step s c) < mu s.
Proof.
  intros HI He. destruct c as [i|i|i]; cbn in He; [| |discriminate]; apply andb_true_iff in He; destruct He as [Hi He];
    apply Nat.ltb_lt in Hi; cbn [step].
  - destruct (run_shape s i HI) as [[Hge|Hr]|p' w lo ro Hi' Hw Hw' Hwt _ _ _ _ _].
    + unfold nT in Hge; lia.
    + congruence.
    + pose proof (mu_upd_state s i p' w lo ro Hi' Hw'). lia.
  - unfold open_gate. destruct (t_pc (get s i)) eqn:Hp; try discriminate.
    rewrite He. apply Nat.ltb_lt in Hi. rewrite Hi. cbn [andb]. apply Nat.ltb_lt in Hi.
    pose proof (mu_set_task s i (mkTask (t_key (get s i)) PInCS FResult (t_mc (get s i))) Hi) as E.
    unfold wt in E. cbn [t_pc t_fut] in E. rewrite Hp, He in E. cbn [is_pending] in E. lia.
Qed.


Lemma idle_step s c : enabled s c = false -> (forall i, c <> CCancel i) -> step s c = s.
Proof.
  intros He Hc. destruct c as [i|i|i]; [| |exfalso; eapply Hc; eauto]; unfold enabled in He; cbn [step].
  - unfold run. destruct (i <? length (s_tasks s)); cbn [negb orb andb] in *; auto. rewrite He. reflexivity.
  - unfold open_gate. destruct (t_pc (get s i)); auto.
    destruct (i <? length (s_tasks s)); cbn [andb] in *; [rewrite He; reflexivity|rewrite andb_false_r; reflexivity].
Qed.

Lemma cancel_no_increase s i : mu (cancel s i) <= mu s.
Proof.
  unfold cancel. destruct (Nat.ltb_spec i (length (s_tasks s))) as [Hi|]; cbn [negb]; auto.
  assert (G : forall t', wt t' <= wt (get s i) -> mu (set_task s i t') <= mu s).
  { intros t' H. pose proof (mu_set_task s i t' Hi). lia. }
  destruct (t_pc (get s i)) eqn:Hp; auto; try destruct (is_pending (t_fut (get s i))) eqn:Hf;
    apply G; unfold wt; cbn; rewrite Hp, ?Hf; cbn; lia.
Qed.

(* number of choices in a schedule that did something other than cancelling *)
Fixpoint effective (s : st) (sched : list choice) : nat :=
  match sched with
  | [] => 0
  | c :: r => (if enabled s c then 1 else 0) + effective (step s c) r
  end.

Lemma effective_bound sched : forall s, Inv s -> effective s sched + mu (exec s sched) <= mu s.
Proof.
  induction sched as [|c r IH]; intros s HI; cbn [effective exec fold_left]; [lia|].
  specialize (IH (step s c) (step_Inv _ _ HI)). fold (exec (step s c) r) in *.
  destruct (enabled s c) eqn:He.
  - pose proof (effective_step_decreases s c HI He). lia.
  - assert (mu (step s c) <= mu s).
    { destruct c as [i|i|i]; [rewrite idle_step; auto; discriminate | rewrite idle_step; auto; discriminate |].
      cbn [step]. apply cancel_no_increase. }
    lia.
Qed.

Lemma mu_init keys : mu (init keys) = 6 * length keys.
Proof. unfold mu, init; cbn. induction keys; cbn; auto. rewrite IHkeys. lia. Qed.

Lemma bounded_progress keys sched : effective (init keys) sched <= 6 * length keys.
Proof. pose proof (effective_bound sched (init keys) (init_Inv keys)). rewrite mu_init in H. lia. Qed.

(* every waiter eventually enters: put together *)
Lemma waiter_eventually_enters keys sched sched' i :
  let s := reach keys sched in
  waiting s i -> (forall c, In c sched' -> c <> CCancel i) ->
  all_done (exec s sched') = true ->
  exists p q, sched' = p ++ q /\ in_cs (exec s p) i = true.
Proof.
  intros s Hw Hnc Hd.
  destruct (waiter_enters_Inv sched' s i (reachable_Inv keys sched) Hw Hnc) as [(Hi & Hp & _)|H]; auto.
  exfalso. pose proof (all_done_spec _ Hd i) as Hdi. unfold done, pcof in *. rewrite Hp in Hdi. discriminate.
Qed.

Lemma fifo_enter keys sched c j :
  let s := reach keys sched in
  j < length (s_tasks s) -> in_cs s j = false -> in_cs (step s c) j = true ->
  c = CRun j /\
  ((t_pc (get s j) = PWaitKey /\
    exists l r, alookup (t_key (get s j)) (s_locks s) = Some l /\ l_waiters l = j :: r) \/
   (t_pc (get s j) = PInit /\
    forall x, In x (ws_of (alookup (t_key (get s j)) (s_locks s))) -> t_fut (get s x) = FCancelled)).
Proof. exact (fifo_enter_Inv _ c j (reachable_Inv keys sched)). Qed.

Lemma queue_is_fifo keys sched c k :
  let s := reach keys sched in
  let ws := ws_of (alookup k (s_locks s)) in
  let ws' := ws_of (alookup k (s_locks (step s c))) in
  ws' = ws \/ ws' = ws ++ [task_of c] \/ ws' = rm1 (task_of c) ws.
Proof. exact (queue_step_Inv _ c k (reachable_Inv keys sched)). Qed.
