(* Proofs about Model/SseClient.v (C17), on top of Proofs/EventLogProofs.v (C16). *)
From Coq Require Import List ZArith Bool Lia ZifyBool Sorted.
Import ListNotations.
From WF Require Import Model.EventLog Model.SseClient Proofs.EventLogProofs.
Open Scope Z_scope.

(* ================================================================================== *)
(* A. strip / startswith on the lines the server produces                               *)
(* ================================================================================== *)

(* non-empty, first and last character are not whitespace *)
Definition clean (t : text) : Prop :=
  (exists a, hd_error t = Some a /\ is_ws a = false) /\
  (exists b, hd_error (rev t) = Some b /\ is_ws b = false).

Definition nolf (t : text) : Prop := ~ In LF t.

Lemma lstrip_hd : forall a t, is_ws a = false -> lstrip (a :: t) = a :: t.
Proof. intros a t H. cbn. now rewrite H. Qed.

Lemma clean_strip : forall t, clean t -> strip t = t.
Proof.
  intros t [(a & Ha & Wa) (b & Hb & Wb)]. unfold strip.
  destruct t as [|a' t]; [discriminate|]. cbn in Ha. injection Ha as ->.
  rewrite (lstrip_hd a t Wa).
  destruct (rev (a :: t)) as [|b' r] eqn:E; [discriminate|]. cbn in Hb. injection Hb as ->.
  rewrite (lstrip_hd b r Wb), <- E. apply rev_involutive.
Qed.

Lemma clean_nonempty : forall t, clean t -> t <> [].
Proof. intros t [(a & Ha & _) _] ->. discriminate. Qed.

Lemma hd_error_app : forall {A} (l m : list A), l <> [] -> hd_error (l ++ m) = hd_error l.
Proof. intros A [|a l] m H; [congruence|reflexivity]. Qed.

Lemma rev_nonempty : forall {A} (l : list A), l <> [] -> rev l <> [].
Proof. intros A l H E. apply H. rewrite <- (rev_involutive l), E. reflexivity. Qed.

(* a clean text stays clean when a non-blank character (and anything else) is put in front *)
Lemma clean_wrap : forall a pre t, is_ws a = false -> clean t -> clean (a :: pre ++ t).
Proof.
  intros a pre t Wa Ct. pose proof (clean_nonempty t Ct) as NE. destruct Ct as [_ (b & Hb & Wb)]. split.
  - exists a. now split.
  - exists b. split; [|exact Wb]. cbn [rev]. rewrite rev_app_distr, <- app_assoc.
    rewrite hd_error_app by now apply rev_nonempty. exact Hb.
Qed.

Lemma strip_blank_clean : forall t, clean t -> strip (32 :: t) = t.
Proof.
  intros t Ct. unfold strip. cbn [lstrip]. replace (is_ws 32) with true by reflexivity.
  apply (clean_strip t Ct).
Qed.

Section Wire.
Variable show : Z -> text.
Variable parse : text -> option Z.
(* what is assumed of Python's str(int) / int(str) on sequence numbers *)
Hypothesis parse_show : forall n, 0 <= n -> parse (show n) = Some n.
Hypothesis show_clean : forall n, 0 <= n -> clean (show n).
Hypothesis show_nolf : forall n, 0 <= n -> nolf (show n).

Notation id_line := (id_line show).
Notation item_lines := (item_lines show).
Notation body := (body show).
Notation on_line := (on_line parse).

Lemma on_line_id : forall r n, 0 <= n ->
  on_line r (id_line n) = mkR (Some (show n)) (r_last r) (r_out r).
Proof.
  intros r n Hn. unfold SseClient.on_line, SseClient.id_line.
  assert (C : clean (s_id ++ [32] ++ show n)).
  { change (s_id ++ [32] ++ show n) with (105 :: [100; 58; 32] ++ show n).
    apply clean_wrap; [reflexivity|now apply show_clean]. }
  rewrite (clean_strip _ C). cbn [s_id app starts skipn].
  replace (105 =? 105) with true by reflexivity. replace (100 =? 100) with true by reflexivity.
  replace (58 =? 58) with true by reflexivity. cbn [andb].
  now rewrite (strip_blank_clean _ (show_clean n Hn)).
Qed.

Lemma on_line_data : forall n l o p, 0 <= n -> clean p ->
  on_line (mkR (Some (show n)) l o) (data_line p) = mkR None n (o ++ [(n, p)]).
Proof.
  intros n l o p Hn Cp. unfold SseClient.on_line, data_line.
  assert (C : clean (s_data ++ [32] ++ p)).
  { change (s_data ++ [32] ++ p) with (100 :: [97; 116; 97; 58; 32] ++ p). now apply clean_wrap. }
  rewrite (clean_strip _ C). cbn [s_data s_id app starts skipn r_id r_last r_out].
  replace (105 =? 100) with false by reflexivity. cbn [andb].
  replace (100 =? 100) with true by reflexivity. replace (97 =? 97) with true by reflexivity.
  replace (116 =? 116) with true by reflexivity. replace (58 =? 58) with true by reflexivity. cbn [andb].
  rewrite (strip_blank_clean _ Cp), (parse_show n Hn). reflexivity.
Qed.

Lemma on_line_blank : forall r, on_line r [] = r.
Proof. reflexivity. Qed.

Lemma on_line_beat : forall r, on_line r s_beat = r.
Proof. intros r. unfold SseClient.on_line. reflexivity. Qed.

(* ================================================================================== *)
(* B. Splitting the received text into lines                                            *)
(* ================================================================================== *)

Lemma lines_of_nolf : forall l t cur, nolf l -> lines_of (l ++ t) cur = lines_of t (cur ++ l).
Proof.
  induction l as [|c l IH]; intros t cur H; [now rewrite app_nil_r|].
  cbn [app lines_of]. assert (c <> LF) by (intros ->; apply H; now left).
  replace (c =? LF) with false by lia.
  rewrite IH by (intros X; apply H; now right). now rewrite <- app_assoc.
Qed.

Lemma lines_of_line : forall l t cur, nolf l ->
  lines_of (l ++ LF :: t) cur = (let '(ls, r) := lines_of t [] in ((cur ++ l) :: ls, r)).
Proof. intros l t cur H. rewrite lines_of_nolf by exact H. cbn [lines_of]. reflexivity. Qed.

Lemma lines_of_join : forall ls t, Forall nolf ls ->
  lines_of (join ls ++ t) [] = (let '(ls', r) := lines_of t [] in (ls ++ ls', r)).
Proof.
  induction ls as [|l ls IH]; intros t F; [cbn; now destruct (lines_of t [])|].
  inversion F; subst. unfold join. cbn [flat_map]. rewrite <- !app_assoc. cbn [app].
  rewrite lines_of_line by assumption. fold (join ls). rewrite IH by assumption.
  destruct (lines_of t []). reflexivity.
Qed.

Lemma lines_of_join_all : forall ls, Forall nolf ls -> lines_of (join ls) [] = (ls, []).
Proof.
  intros ls F. pose proof (lines_of_join ls [] F) as H. rewrite app_nil_r in H. rewrite H. cbn.
  now rewrite app_nil_r.
Qed.

(* cutting the text anywhere leaves a prefix of the lines (and an unterminated rest that is dropped) *)
Lemma lines_of_cut : forall ls c, Forall nolf ls ->
  exists j, fst (lines_of (firstn c (join ls)) []) = firstn j ls.
Proof.
  induction ls as [|l ls IH]; intros c F.
  - exists O. cbn. now rewrite firstn_nil.
  - inversion F; subst. unfold join. cbn [flat_map]. fold (join ls). rewrite <- app_assoc. cbn [app].
    destruct (Nat.le_gt_cases c (length l)) as [Hc|Hc].
    + exists O. rewrite firstn_app. replace (c - length l)%nat with O by lia. cbn [firstn]. rewrite app_nil_r.
      assert (N : nolf (firstn c l)).
      { intros X. apply H1. rewrite <- (firstn_skipn c l). apply in_or_app. now left. }
      pose proof (lines_of_nolf (firstn c l) [] [] N) as E. rewrite app_nil_r in E. rewrite E. reflexivity.
    + destruct (IH (c - length l - 1)%nat H2) as [j Hj]. exists (S j).
      rewrite firstn_app, firstn_all2 by lia.
      replace (c - length l)%nat with (S (c - length l - 1)) by lia. cbn [firstn].
      rewrite lines_of_line by assumption.
      destruct (lines_of (firstn (c - length l - 1) (join ls)) []) as [ls' r]. cbn in *. now rewrite Hj.
Qed.

Lemma lines_of_rest_nolf : forall t cur, nolf cur -> nolf (snd (lines_of t cur)).
Proof.
  induction t as [|c t IH]; intros cur H; [exact H|]. cbn [lines_of].
  destruct (c =? LF) eqn:E.
  - specialize (IH [] (fun X => X)). destruct (lines_of t []). exact IH.
  - apply IH. intros X. apply in_app_or in X. destruct X as [X|[X|[]]]; [now apply H|]. lia.
Qed.

Lemma lines_of_app : forall a b cur,
  lines_of (a ++ b) cur =
  (let '(la, ra) := lines_of a cur in let '(lb, rb) := lines_of b ra in (la ++ lb, rb)).
Proof.
  induction a as [|c a IH]; intros b cur.
  - cbn. now destruct (lines_of b cur).
  - cbn [app lines_of]. destruct (c =? LF).
    + rewrite IH. destruct (lines_of a []) as [la ra]. destruct (lines_of b ra). reflexivity.
    + apply IH.
Qed.

Lemma feed_chunks : forall chunks buf ls, nolf buf ->
  fold_left feed chunks (buf, ls) =
  (let '(ls', r) := lines_of (buf ++ concat chunks) [] in (r, ls ++ ls')).
Proof.
  induction chunks as [|ch chunks IH]; intros buf ls H.
  - cbn [fold_left concat]. rewrite app_nil_r.
    pose proof (lines_of_nolf buf [] [] H) as E. rewrite app_nil_r in E. rewrite E. cbn. now rewrite app_nil_r.
  - change (fold_left feed (ch :: chunks) (buf, ls)) with (fold_left feed chunks (feed (buf, ls) ch)).
    unfold feed at 2. cbn [fst snd].
    pose proof (lines_of_rest_nolf (buf ++ ch) [] (fun X => X)) as N.
    destruct (lines_of (buf ++ ch) []) as [l1 r1] eqn:E1. cbn [snd] in N.
    rewrite IH by exact N.
    replace (buf ++ concat (ch :: chunks)) with ((buf ++ ch) ++ concat chunks)
      by (cbn [concat]; now rewrite app_assoc).
    rewrite (lines_of_app (buf ++ ch) (concat chunks) []), E1.
    pose proof (lines_of_nolf r1 (concat chunks) [] N) as E. cbn [app] in E. rewrite E.
    destruct (lines_of (concat chunks) r1). now rewrite app_assoc.
Qed.

Lemma concat_chop : forall sizes t, concat (chop sizes t) = t.
Proof.
  induction sizes as [|n ns IH]; intros t.
  - destruct t; cbn; [reflexivity|now rewrite app_nil_r].
  - destruct t as [|c t]; [reflexivity|]. cbn [chop concat]. rewrite IH. apply firstn_skipn.
Qed.

(* the lines of a connection do not depend on how the transport chunks the text *)
Lemma conn_lines_cut : forall txt c sizes,
  conn_lines txt (Some c) sizes = fst (lines_of (firstn c txt) []).
Proof.
  intros. unfold conn_lines. rewrite (feed_chunks _ [] [] (fun X => X)). cbn [app]. rewrite concat_chop.
  now destruct (lines_of (firstn c txt) []).
Qed.

Lemma conn_lines_all : forall txt sizes,
  conn_lines txt None sizes =
  (let '(ls, r) := lines_of txt [] in ls ++ match r with [] => [] | _ => [r] end).
Proof.
  intros. unfold conn_lines. rewrite (feed_chunks _ [] [] (fun X => X)). cbn [app]. rewrite concat_chop.
  now destruct (lines_of txt []).
Qed.

(* ================================================================================== *)
(* C. The reader on a prefix of a response                                              *)
(* ================================================================================== *)

Fixpoint frames_in (items : list item) : list (Z * text) :=
  match items with
  | [] => []
  | IFrame n p :: t => (n, p) :: frames_in t
  | IBeat :: t => frames_in t
  end.

Definition good_item (it : item) : Prop :=
  match it with IFrame n p => 0 <= n /\ clean p /\ nolf p | IBeat => True end.

Definition last_fst (l : list (Z * text)) (d : Z) : Z :=
  match last_opt l with Some (n, _) => n | None => d end.

Lemma last_fst_app : forall a b d, last_fst (a ++ b) d = last_fst b (last_fst a d).
Proof.
  intros a b d. unfold last_fst. destruct b as [|x b]; [now rewrite app_nil_r|].
  destruct (last_opt_some (x :: b)) as [y Hy]; [discriminate|]. rewrite Hy.
  assert (E : last_opt (a ++ x :: b) = Some y).
  { clear d. induction a as [|z a IH]; [exact Hy|]. cbn [app]. rewrite last_opt_cons; [exact IH|].
    destruct a; discriminate. }
  now rewrite E.
Qed.

Lemma item_lines_nolf : forall it, good_item it -> Forall nolf (item_lines it).
Proof.
  intros [n p|] G; cbn [SseClient.item_lines].
  - destruct G as (Hn & _ & Np). repeat constructor.
    + unfold SseClient.id_line, nolf. intros X. cbn in X.
      destruct X as [X|[X|[X|[X|X]]]]; try discriminate. now apply (show_nolf n Hn).
    + unfold data_line, nolf. intros X. cbn in X.
      destruct X as [X|[X|[X|[X|[X|[X|X]]]]]]; try discriminate. now apply Np.
    + intros [].
  - repeat constructor; unfold nolf, s_beat, LF; cbn; intuition discriminate.
Qed.

Lemma lines_nolf : forall items, Forall good_item items -> Forall nolf (flat_map item_lines items).
Proof.
  induction items as [|it items IH]; intros F; [constructor|]. inversion F; subst.
  cbn [flat_map]. apply Forall_app. split; [now apply item_lines_nolf|auto].
Qed.

(* after any prefix of the lines of a response the reader has handed on exactly the first m frames
   (those whose data line is complete), and last_sequence is the id of the last of them *)
Lemma reader_prefix : forall items j l o, Forall good_item items ->
  let r := fold_left on_line (firstn j (flat_map item_lines items)) (mkR None l o) in
  exists m, r_out r = o ++ firstn m (frames_in items) /\
            r_last r = last_fst (firstn m (frames_in items)) l /\
            ((length (flat_map item_lines items) <= j)%nat ->
             (length (frames_in items) <= m)%nat /\ r_id r = None).
Proof.
  induction items as [|it items IH]; intros j l o F.
  - cbn. rewrite firstn_nil. cbn. exists O. cbn. rewrite app_nil_r. repeat split; auto.
  - inversion F as [|? ? G F']; subst. destruct it as [n p|].
    + destruct G as (Hn & Cp & Np). cbn [flat_map SseClient.item_lines app frames_in].
      destruct j as [|[|[|j]]].
      * exists O. cbn [firstn fold_left r_out r_last]. rewrite app_nil_r.
        split; [reflexivity|]. split; [reflexivity|]. intros H. exfalso. cbn [length] in H. lia.
      * cbn [firstn fold_left]. rewrite on_line_id by exact Hn. exists O.
        cbn [firstn r_out r_last]. rewrite app_nil_r.
        split; [reflexivity|]. split; [reflexivity|]. intros H. exfalso. cbn [length] in H. lia.
      * cbn [firstn fold_left]. rewrite on_line_id by exact Hn. cbn [r_last r_out].
        rewrite on_line_data by assumption. exists 1%nat. cbn [firstn r_out r_last].
        split; [reflexivity|]. split; [reflexivity|]. intros H. exfalso. cbn [length] in H. lia.
      * cbn [firstn fold_left]. rewrite on_line_id by exact Hn. cbn [r_last r_out].
        rewrite on_line_data by assumption. rewrite on_line_blank.
        destruct (IH j n (o ++ [(n, p)]) F') as (m & E1 & E2 & E3). exists (S m). cbn [firstn].
        rewrite E1, E2. split; [now rewrite <- app_assoc|]. split.
        -- change ((n, p) :: firstn m (frames_in items)) with ([(n, p)] ++ firstn m (frames_in items)).
           rewrite last_fst_app. reflexivity.
        -- cbn [length]. intros H. destruct E3 as [E3 E4]; [lia|]. split; [lia|exact E4].
    + cbn [flat_map SseClient.item_lines app frames_in].
      destruct j as [|[|j]].
      * exists O. cbn [firstn fold_left r_out r_last]. rewrite app_nil_r.
        split; [reflexivity|]. split; [reflexivity|]. intros H. exfalso. cbn [length] in H. lia.
      * cbn [firstn fold_left]. rewrite on_line_beat. exists O. cbn [firstn r_out r_last]. rewrite app_nil_r.
        split; [reflexivity|]. split; [reflexivity|]. intros H. exfalso. cbn [length] in H. lia.
      * cbn [firstn fold_left]. rewrite on_line_beat, on_line_blank.
        destruct (IH j l o F') as (m & E1 & E2 & E3). exists m.
        split; [exact E1|]. split; [exact E2|]. intros H. apply E3. cbn [length] in H. lia.
Qed.

Lemma frames_in_app : forall a b, frames_in (a ++ b) = frames_in a ++ frames_in b.
Proof.
  induction a as [|[n p|] a IH]; intros b; cbn; [reflexivity| |]; now rewrite IH.
Qed.

Lemma frames_in_beats : forall n, frames_in (repeat IBeat n) = [].
Proof. induction n; cbn; auto. Qed.

Lemma good_beats : forall n, Forall good_item (repeat IBeat n).
Proof. induction n; cbn; constructor; auto. exact I. Qed.

Lemma weave_frames : forall fs beats, (forall f, In f fs -> exists n p, f = IFrame n p) ->
  frames_in (weave beats fs) = frames_in fs.
Proof.
  induction fs as [|f fs IH]; intros beats H; cbn [weave].
  - apply frames_in_beats.
  - rewrite frames_in_app, frames_in_beats. cbn [app].
    destruct (H f (or_introl eq_refl)) as (n & p & ->). cbn [frames_in]. f_equal.
    apply IH. intros g Hg. apply H. now right.
Qed.

Lemma weave_good : forall fs beats, Forall good_item fs -> Forall good_item (weave beats fs).
Proof.
  induction fs as [|f fs IH]; intros beats F; cbn [weave]; [apply good_beats|].
  inversion F; subst. apply Forall_app. split; [apply good_beats|]. constructor; auto.
Qed.

(* one connection: whatever the heartbeats, the cut and the chunking, the reader hands on a prefix of
   the frames (all of them when the response ends normally) *)
Lemma connection : forall fs beats cut sizes l, Forall good_item fs ->
  (forall f, In f fs -> exists n p, f = IFrame n p) ->
  let r := fold_left on_line (conn_lines (body (weave beats fs)) cut sizes) (mkR None l []) in
  exists m, r_out r = firstn m (frames_in fs) /\ r_last r = last_fst (firstn m (frames_in fs)) l /\
            (cut = None -> (length (frames_in fs) <= m)%nat).
Proof.
  intros fs beats cut sizes l G Hf. set (items := weave beats fs).
  assert (GI : Forall good_item items) by now apply weave_good.
  assert (NL : Forall nolf (flat_map item_lines items)) by now apply lines_nolf.
  assert (EF : frames_in items = frames_in fs) by now apply weave_frames.
  destruct cut as [c|].
  - rewrite conn_lines_cut. unfold SseClient.body.
    destruct (lines_of_cut _ c NL) as [j Hj]. fold items. rewrite Hj.
    destruct (reader_prefix items j l [] GI) as (m & E1 & E2 & _). rewrite EF in *.
    exists m. cbn [app] in E1. repeat split; auto. discriminate.
  - rewrite conn_lines_all. unfold SseClient.body. fold items. rewrite (lines_of_join_all _ NL). rewrite app_nil_r.
    pose proof (reader_prefix items (length (flat_map item_lines items)) l [] GI) as R.
    rewrite firstn_all in R. destruct R as (m & E1 & E2 & E3). rewrite EF in *.
    exists m. cbn [app] in E1. repeat split; auto. intros _. now apply E3.
Qed.
End Wire.

(* ================================================================================== *)
(* D. Order facts about the specified stream (from the gap-free numbering)              *)
(* ================================================================================== *)

Definition lt_seq (a b : sev) : Prop := s_seq a < s_seq b.

Lemma gf_sorted : forall L n, gf n L -> StronglySorted lt_seq L.
Proof.
  induction L as [|a L IH]; intros n G; constructor.
  - destruct G as [_ G]. now apply (IH (S n)).
  - destruct G as [Ga G]. pose proof (gf_ge _ _ G) as F. eapply Forall_impl; [|exact F].
    unfold lt_seq. intros; lia.
Qed.

Lemma sorted_filter : forall f l, StronglySorted lt_seq l -> StronglySorted lt_seq (filter f l).
Proof.
  induction l as [|a l IH]; intros S; [constructor|]. inversion S; subst. cbn [filter].
  destruct (f a); [|auto]. constructor; [auto|]. now apply Forall_filter.
Qed.

Lemma sorted_until_term : forall l, StronglySorted lt_seq l -> StronglySorted lt_seq (until_term l).
Proof.
  induction l as [|a l IH]; intros S; [constructor|]. inversion S; subst. cbn [until_term].
  destruct (is_terminal a); constructor; auto; try constructor. now apply until_term_incl.
Qed.

Lemma vis_spec_sorted : forall k inc L, gapfree L -> StronglySorted lt_seq (vis_spec k inc L).
Proof.
  intros. unfold vis_spec, sub_spec. apply sorted_filter, sorted_until_term, sorted_filter.
  now apply (gf_sorted L 0).
Qed.

Lemma vis_spec_above : forall k inc L, Forall (fun e => k < s_seq e) (vis_spec k inc L).
Proof.
  intros. unfold vis_spec, sub_spec. apply Forall_filter, until_term_incl.
  induction L as [|a L IH]; cbn [filter]; [constructor|].
  destruct (k <? s_seq a) eqn:E; [constructor; [lia|exact IH]|exact IH].
Qed.

Lemma until_term_in : forall l e, In e (until_term l) -> In e l.
Proof.
  induction l as [|a l IH]; intros e H; [exact H|]. cbn [until_term] in H.
  destruct H as [->|H]; [now left|]. right. destruct (is_terminal a); [destruct H|auto].
Qed.

Lemma vis_spec_in : forall k inc L e, In e (vis_spec k inc L) -> In e L.
Proof.
  intros k inc L e H. unfold vis_spec, sub_spec in H. apply filter_In in H. destruct H as [H _].
  apply until_term_in in H. apply filter_In in H. tauto.
Qed.

Lemma sorted_app_lt : forall a b, StronglySorted lt_seq (a ++ b) ->
  forall x y, In x a -> In y b -> s_seq x < s_seq y.
Proof.
  induction a as [|z a IH]; intros b S x y Hx Hy; [destruct Hx|]. cbn [app] in S. inversion S; subst.
  destruct Hx as [->|Hx].
  - rewrite Forall_forall in H2. apply H2. apply in_or_app. now right.
  - now apply (IH b).
Qed.

Lemma last_opt_in : forall {A} (l : list A) x, last_opt l = Some x -> In x l.
Proof.
  induction l as [|a l IH]; intros x H; [discriminate|]. destruct l as [|b l].
  - cbn in H. injection H as ->. now left.
  - right. apply IH. now rewrite last_opt_cons in H by discriminate.
Qed.

Lemma last_opt_split : forall {A} (l : list A) x, last_opt l = Some x -> exists l', l = l' ++ [x].
Proof.
  induction l as [|a l IH]; intros x H; [discriminate|]. destruct l as [|b l].
  - cbn in H. injection H as ->. now exists [].
  - rewrite last_opt_cons in H by discriminate. destruct (IH x H) as [l' E]. exists (a :: l'). cbn. now rewrite E.
Qed.

(* in a sorted list, what is at or below the sequence number of the last element of a prefix is
   exactly that prefix *)
Lemma filter_upto_split : forall a b e, StronglySorted lt_seq (a ++ b) -> last_opt a = Some e ->
  filter (upto (s_seq e)) (a ++ b) = a.
Proof.
  intros a b e S La. destruct (last_opt_split a e La) as [a' ->].
  rewrite filter_app.
  rewrite filter_upto_all, filter_upto_none; [apply app_nil_r| |].
  - apply Forall_forall. intros y Hy. apply (sorted_app_lt _ _ S e y); [|exact Hy].
    apply in_or_app. right. now left.
  - apply Forall_forall. intros x Hx. apply in_app_or in Hx. destruct Hx as [Hx|[->|[]]]; [|lia].
    rewrite <- app_assoc in S. pose proof (sorted_app_lt _ _ S x e Hx). cbn in H.
    specialize (H (or_introl eq_refl)). lia.
Qed.

(* a run publishes nothing after its terminal event *)
Definition terminal_last (L : list sev) : Prop :=
  forall A e B, L = A ++ e :: B -> is_terminal e = true -> B = [].

Lemma existsb_split : forall (l : list sev), existsb is_terminal l = true ->
  exists A e B, l = A ++ e :: B /\ is_terminal e = true.
Proof.
  induction l as [|a l IH]; intros H; [discriminate|]. cbn in H. destruct (is_terminal a) eqn:E.
  - now exists [], a, l.
  - destruct (IH H) as (A & e & B & -> & T). now exists (a :: A), e, B.
Qed.

(* a snapshot of the log that contains a terminal event is the whole log *)
Lemma snapshot_complete : forall L n e, terminal_last L -> In e (firstn n L) -> is_terminal e = true ->
  firstn n L = L.
Proof.
  intros L n e TL Hin T. apply in_split in Hin. destruct Hin as (A & B & E).
  pose proof (firstn_skipn n L) as FS. rewrite E in FS.
  assert (X : B ++ skipn n L = []).
  { apply (TL A e); [|exact T]. rewrite <- app_assoc in FS. symmetry. exact FS. }
  apply app_eq_nil in X. destruct X as [_ X]. rewrite <- (firstn_skipn n L) at 2. rewrite X. now rewrite app_nil_r.
Qed.

(* what the client has seen up to its cursor, followed by the stream after the cursor, is the
   uninterrupted stream — also when the cursor is the terminal event itself *)
Lemma resume_any : forall L k0 last inc, gapfree L -> terminal_last L -> k0 <= last ->
  (last = k0 \/ exists e, In e L /\ s_seq e = last) ->
  vis_spec k0 inc L = filter (upto last) (vis_spec k0 inc L) ++ vis_spec last inc L.
Proof.
  intros L k0 last inc G TL Hk W.
  destruct (existsb is_terminal (filter (upto last) (sub_spec k0 L))) eqn:E.
  - (* the terminal event has been seen: it is the last stored event, nothing is above the cursor *)
    apply existsb_split in E. destruct E as (A & x & B & EX & T).
    assert (Hx : In x (filter (upto last) (sub_spec k0 L))) by (rewrite EX; apply in_or_app; right; now left).
    apply filter_In in Hx. destruct Hx as [Hx Ux]. unfold upto in Ux.
    assert (HxL : In x L) by (unfold sub_spec in Hx; apply until_term_in in Hx; apply filter_In in Hx; tauto).
    assert (Kx : k0 < s_seq x).
    { unfold sub_spec in Hx. apply until_term_in in Hx. apply filter_In in Hx. lia. }
    destruct W as [->|(e & He & Se)]; [lia|].
    apply in_split in HxL. destruct HxL as (A' & B' & EL). pose proof (TL A' x B' EL T) as ->.
    assert (Sx : s_seq x = Z.of_nat (length L) - 1).
    { apply (gf_last L 0 x G). rewrite EL. apply last_opt_app. }
    pose proof (gf_lt L 0 G) as LT. rewrite Forall_forall in LT. specialize (LT e He).
    assert (EA : filter (above last) L = []) by (apply (filter_above_none L 0 last G); lia).
    destruct (spec_below last inc L EA) as [V1 _]. rewrite V1, app_nil_r.
    symmetry. apply filter_upto_all. apply Forall_forall. intros y Hy. apply vis_spec_in in Hy.
    pose proof (gf_lt L 0 G) as LT'. rewrite Forall_forall in LT'. specialize (LT' y Hy). lia.
  - destruct (resume_compose L k0 last inc G Hk E) as [_ R]. now rewrite R.
Qed.

(* ================================================================================== *)
(* E. The reconnect loop                                                                *)
(* ================================================================================== *)

Section Client.
Variable show : Z -> text.
Variable parse : text -> option Z.
Hypothesis parse_show : forall n, 0 <= n -> parse (show n) = Some n.
Hypothesis show_clean : forall n, 0 <= n -> clean (show n).
Hypothesis show_nolf : forall n, 0 <= n -> nolf (show n).

Variable ptext : Z -> text.            (* the JSON text of each payload *)
Variable bk : backend.
Variable L : list sev.                 (* everything the run ever stores *)
Variable tst : bool.                   (* handler status is terminal *)
Variable inc : bool.                   (* include_internal *)
Variable k0 : Z.                       (* the numeric cursor the stream is started from *)
Variable maxr : nat.                   (* max_reconnect_attempts *)
Hypothesis L_gapfree : gapfree L.
Hypothesis L_terminal_last : terminal_last L.
Hypothesis payload_ok : forall e, In e L -> clean (ptext (e_pid (s_ev e))) /\ nolf (ptext (e_pid (s_ev e))).

Definition pair_of (e : sev) : Z * text := (s_seq e, ptext (e_pid (s_ev e))).
Definition V0 : list sev := vis_spec k0 inc L.
Definition srv : nat -> nat -> Z -> sresp := serve ptext bk L (HRun tst) inc.

(* a handler is marked completed only after all events of the run are stored *)
Definition honest (a : attempt) : Prop :=
  match a with AServe n1 _ _ _ _ => tst = true -> (length L <= n1)%nat | AFail => True end.

Record CInv (c : cstate) : Prop := mkCI {
  ci_ge : k0 <= c_last c;
  ci_out : c_out c = map pair_of (filter (upto (c_last c)) V0);
  ci_last : c_last c = last_fst (c_out c) k0;
  ci_wit : c_last c = k0 \/ exists e, In e V0 /\ s_seq e = c_last c;
  ci_done : c_st c = DoneOK -> c_out c = map pair_of V0;
  ci_found : c_st c <> NotFound
}.

Lemma frames_in_map : forall V, frames_in (map (frame_of ptext) V) = map pair_of V.
Proof. induction V as [|e V IH]; cbn; [reflexivity|]. now rewrite IH. Qed.

Lemma last_fst_map : forall V d,
  last_fst (map pair_of V) d = match last_opt V with Some e => s_seq e | None => d end.
Proof.
  intros V d. unfold last_fst. destruct V as [|a V]; [reflexivity|].
  destruct (last_opt_some (a :: V)) as [x Hx]; [discriminate|]. rewrite Hx.
  assert (E : last_opt (map pair_of (a :: V)) = Some (pair_of x)).
  { revert Hx. generalize (a :: V). induction l as [|b l IH]; intros H; [discriminate|].
    destruct l as [|c l]; [cbn in *; congruence|]. rewrite last_opt_cons in H by discriminate.
    cbn [map]. rewrite last_opt_cons by discriminate. now apply IH. }
  now rewrite E.
Qed.

Lemma init_inv : CInv (client_init k0).
Proof.
  assert (E : filter (upto k0) V0 = []) by (apply filter_upto_none, vis_spec_above).
  constructor; cbn [client_init c_last c_out c_st]; try discriminate.
  - lia.
  - now rewrite E.
  - reflexivity.
  - now left.
Qed.

Lemma good_frames : forall V, (forall e, In e V -> In e L) -> Forall good_item (map (frame_of ptext) V).
Proof.
  intros V H. apply Forall_forall. intros it Hit. apply in_map_iff in Hit. destruct Hit as (e & <- & He).
  specialize (H e He). cbn. destruct (payload_ok e H). split; [|now split].
  pose proof (gf_ge L 0 L_gapfree) as F. rewrite Forall_forall in F. specialize (F e H). lia.
Qed.

Lemma step_inv : forall c a, CInv c -> honest a -> CInv (client_step show parse maxr srv c a).
Proof.
  intros c a I Ha. unfold client_step. destruct (c_st c) eqn:Est; try exact I.
  destruct a as [|n1 n2 beats cut sizes].
  - (* connection failure: only the attempt counter moves *)
    constructor; cbn [c_last c_out c_st]; try apply I.
    + destruct (maxr <? S (c_att c))%nat; discriminate.
    + destruct (maxr <? S (c_att c))%nat; discriminate.
  - set (last := c_last c) in *.
    assert (WL : last = k0 \/ exists e, In e L /\ s_seq e = last).
    { destruct (ci_wit _ I) as [W|(e & He & Se)]; [now left|]. right. exists e. split; [|exact Se].
      now apply (vis_spec_in k0 inc L). }
    pose proof (resume_any L k0 last inc L_gapfree L_terminal_last (ci_ge _ I) WL) as RA. fold V0 in RA.
    set (A := filter (upto last) V0) in *. set (V1 := vis_spec last inc L) in *.
    unfold srv, serve.
    assert (G1 : gapfree (firstn n1 L)) by now apply gf_firstn.
    rewrite (resolve_cursor bk (firstn n1 L) tst last G1).
    destruct ((length (firstn n1 L) <=? Z.to_nat (last + 1))%nat &&
              (tst || match last_opt (firstn n1 L) with Some e => is_terminal e | None => false end)) eqn:EC.
    + (* 204: the run is over and nothing is stored above the cursor *)
      apply andb_true_iff in EC. destruct EC as [EC1 EC2]. apply Nat.leb_le in EC1.
      assert (FL : firstn n1 L = L).
      { apply orb_true_iff in EC2. destruct EC2 as [T|T].
        - apply firstn_all2. now apply Ha.
        - destruct (last_opt (firstn n1 L)) as [x|] eqn:Ex; [|discriminate].
          apply (snapshot_complete L n1 x L_terminal_last); [now apply last_opt_in|exact T]. }
      rewrite FL in EC1.
      assert (EA : filter (above last) L = []).
      { rewrite (filter_above_gf L 0 last L_gapfree). apply skipn_all2. lia. }
      destruct (spec_below last inc L EA) as [E1 _]. fold V1 in E1. rewrite E1, app_nil_r in RA.
      constructor; cbn [c_last c_out c_st]; try apply I; try discriminate.
      intros _. rewrite (ci_out _ I). fold last. fold A. now rewrite <- RA.
    + (* a stream for the cursor, served from the snapshot n2 *)
      set (VS := vis_spec last inc (firstn n2 L)).
      assert (PV : exists W, V1 = VS ++ W).
      { unfold V1, VS. pose proof (vis_spec_prefix last inc (firstn n2 L) (skipn n2 L)) as P.
        rewrite firstn_skipn in P. exact P. }
      destruct PV as [W EW].
      assert (InL : forall e, In e VS -> In e L).
      { intros e He. apply vis_spec_in in He. rewrite <- (firstn_skipn n2 L). apply in_or_app. now left. }
      destruct (connection show parse parse_show show_clean show_nolf (map (frame_of ptext) VS)
                  beats cut sizes last (good_frames VS InL)) as (m & R1 & R2 & R3).
      { intros f Hf. apply in_map_iff in Hf. destruct Hf as (e & <- & _). unfold frame_of. eauto. }
      rewrite frames_in_map in R1, R2, R3. rewrite firstn_map in R1, R2.
      set (D := firstn m VS) in *.
      assert (ED : V1 = D ++ (skipn m VS ++ W)).
      { rewrite EW. unfold D. now rewrite app_assoc, firstn_skipn. }
      assert (SV1 : StronglySorted lt_seq V1) by now apply vis_spec_sorted.
      assert (AV1 : Forall (fun e => last < s_seq e) V1) by apply vis_spec_above.
      assert (AA : Forall (fun e => s_seq e <= last) A).
      { apply Forall_forall. intros e He. apply filter_In in He. unfold upto in He. lia. }
      set (last' := last_fst (map pair_of D) last) in *.
      assert (NEW : k0 <= last' /\ filter (upto last') V0 = A ++ D /\
                    (last' = k0 \/ exists e, In e V0 /\ s_seq e = last')).
      { unfold last'. rewrite last_fst_map. destruct (last_opt D) as [e|] eqn:LD.
        - pose proof (last_opt_in _ _ LD) as HeD.
          assert (HeV1 : In e V1) by (rewrite ED; apply in_or_app; now left).
          rewrite Forall_forall in AV1. pose proof (AV1 e HeV1) as Lt. pose proof (ci_ge _ I). fold last in H.
          split; [lia|]. split.
          + rewrite RA, filter_app. f_equal.
            * apply filter_upto_all. eapply Forall_impl; [|exact AA]. cbn. intros; lia.
            * rewrite ED. apply filter_upto_split; [now rewrite <- ED|exact LD].
          + right. exists e. split; [|reflexivity]. rewrite RA. apply in_or_app. now right.
        - assert (D = []) by (destruct D as [|x D']; [reflexivity|]; destruct (last_opt_some (x :: D')) as [y Hy]; [discriminate|congruence]).
          rewrite H, app_nil_r. split; [exact (ci_ge _ I)|]. split; [reflexivity|]. exact (ci_wit _ I). }
      destruct NEW as (N1 & N2 & N3).
      assert (OUT : c_out c ++ map pair_of D = map pair_of (filter (upto last') V0)).
      { rewrite N2, map_app. f_equal. exact (ci_out _ I). }
      assert (LAST : last' = last_fst (c_out c ++ map pair_of D) k0).
      { rewrite last_fst_app, <- (ci_last _ I). reflexivity. }
      destruct cut as [cpt|].
      * constructor; cbn [c_last c_out c_st]; rewrite ?R1, ?R2; fold last'; auto.
        -- destruct (maxr <? 1)%nat; discriminate.
        -- destruct (maxr <? 1)%nat; discriminate.
      * constructor; cbn [c_last c_out c_st]; rewrite ?R1, ?R2; fold last'; auto.
        -- (* normal end of a response that closes by itself: everything was delivered *)
           destruct (ended last (firstn n2 L)) eqn:EN; [|discriminate]. intros _.
           unfold ended in EN. apply existsb_split in EN. destruct EN as (X1 & x & X2 & EX & T).
           assert (Hx : In x (firstn n2 L)).
           { assert (In x (filter (fun e => last <? s_seq e) (firstn n2 L))) by (rewrite EX; apply in_or_app; right; now left).
             apply filter_In in H. tauto. }
           pose proof (snapshot_complete L n2 x L_terminal_last Hx T) as FL.
           assert (EVS : VS = V1) by (unfold VS, V1; now rewrite FL).
           specialize (R3 eq_refl). rewrite map_length in R3.
           assert (DD : D = V1) by (unfold D; rewrite EVS in *; now apply firstn_all2).
           rewrite DD, (ci_out _ I). fold last. fold A. rewrite <- map_app. now rewrite <- RA.
        -- destruct (ended last (firstn n2 L)); discriminate.
Qed.

Lemma run_inv : forall l c, CInv c -> Forall honest l -> CInv (fold_left (client_step show parse maxr srv) l c).
Proof.
  induction l as [|a l IH]; intros c I F; [exact I|]. inversion F; subst. cbn [fold_left].
  apply IH; [now apply step_inv|assumption].
Qed.

(* Every later event exactly once, in sequence order; last_sequence = the sequence of the last event
   yielded; a normal end means everything was delivered — for every pattern of connection failures,
   drops at any position, heartbeats, chunkings, and however the log grows meanwhile. *)
Theorem client_delivers : forall atts, Forall honest atts ->
  let c := client_run show parse maxr srv k0 atts in
  exists n, c_out c = map pair_of (firstn n V0) /\
            c_last c = last_fst (c_out c) k0 /\
            (c_st c = DoneOK -> c_out c = map pair_of V0) /\
            c_st c <> NotFound.
Proof.
  intros atts F c. pose proof (run_inv atts _ init_inv F) as I. fold (client_run show parse maxr srv k0 atts) in I.
  fold c in I. split with (length (filter (upto (c_last c)) V0)).
  split; [|split; [exact (ci_last _ I)|split; [exact (ci_done _ I)|exact (ci_found _ I)]]].
  rewrite (ci_out _ I). f_equal.
  (* the delivered events are an initial segment of the specified stream *)
  assert (WL : c_last c = k0 \/ exists e, In e L /\ s_seq e = c_last c).
  { destruct (ci_wit _ I) as [W|(e & He & Se)]; [now left|]. right. exists e. split; [|exact Se].
    now apply (vis_spec_in k0 inc L). }
  pose proof (resume_any L k0 (c_last c) inc L_gapfree L_terminal_last (ci_ge _ I) WL) as RA. fold V0 in RA.
  set (A := filter (upto (c_last c)) V0) in *. set (V1 := vis_spec (c_last c) inc L) in *.
  clearbody A V1. rewrite RA, firstn_app, Nat.sub_diag, firstn_all. cbn [firstn]. now rewrite app_nil_r.
Qed.

(* ... hence strictly increasing sequence numbers above the initial cursor *)
Theorem client_once_in_order : forall atts, Forall honest atts ->
  let c := client_run show parse maxr srv k0 atts in
  StronglySorted Z.lt (map fst (c_out c)) /\ Forall (fun n => k0 < n) (map fst (c_out c)).
Proof.
  intros atts F c. destruct (client_delivers atts F) as (n & E & _). fold c in E. rewrite E.
  assert (S0 : StronglySorted lt_seq (firstn n V0)).
  { pose proof (vis_spec_sorted k0 inc L L_gapfree) as S. fold V0 in S. rewrite <- (firstn_skipn n V0) in S.
    clear - S. induction (firstn n V0) as [|a l IH]; [constructor|]. cbn [app] in S. inversion S; subst.
    constructor; [auto|]. apply Forall_app in H2. tauto. }
  assert (A0 : Forall (fun e => k0 < s_seq e) (firstn n V0)).
  { pose proof (vis_spec_above k0 inc L) as A. fold V0 in A. rewrite <- (firstn_skipn n V0) in A.
    apply Forall_app in A. tauto. }
  rewrite map_map. cbn [pair_of fst]. split.
  - clear - S0. induction S0 as [|a l S IH F]; cbn [map]; constructor; [exact IH|].
    clear - F. induction F; cbn [map]; constructor; auto.
  - clear - A0. induction A0; cbn [map]; constructor; auto.
Qed.

(* the stream fails with ConnectionError only after more than max_reconnect_attempts consecutive
   failed attempts (a drop after a successful response counts as the first of a new series) *)
Fixpoint tolerable (cnt : nat) (l : list attempt) : Prop :=
  match l with
  | [] => True
  | AFail :: t => (S cnt <= maxr)%nat /\ tolerable (S cnt) t
  | AServe _ _ _ (Some _) _ :: t => (1 <= maxr)%nat /\ tolerable 1 t
  | AServe _ _ _ None _ :: t => tolerable cnt t
  end.

Lemma absorbing : forall l c, c_st c <> Running -> fold_left (client_step show parse maxr srv) l c = c.
Proof.
  induction l as [|a l IH]; intros c H; [reflexivity|]. cbn [fold_left].
  assert (E : client_step show parse maxr srv c a = c) by (unfold client_step; destruct (c_st c); congruence).
  rewrite E. now apply IH.
Qed.

Theorem client_gives_up_only_beyond_limit : forall atts, tolerable 0 atts ->
  c_st (client_run show parse maxr srv k0 atts) <> GaveUp.
Proof.
  intros atts. unfold client_run.
  assert (H : forall l c cnt, (c_st c = Running -> c_att c = cnt) -> c_st c <> GaveUp -> tolerable cnt l ->
              c_st (fold_left (client_step show parse maxr srv) l c) <> GaveUp).
  { induction l as [|a l IH]; intros c cnt Hc Hg T; [exact Hg|]. cbn [fold_left].
    destruct (c_st c) eqn:Es;
      try (assert (E : client_step show parse maxr srv c a = c) by (unfold client_step; now rewrite Es);
           rewrite E, absorbing by congruence; congruence).
    - pose proof (Hc eq_refl) as Ec. destruct a as [|n1 n2 beats cut sizes].
      + destruct T as [T1 T2].
        assert (E : client_step show parse maxr srv c AFail =
                    mkC (c_last c) (S cnt) (c_out c) Running (c_reqs c ++ [c_last c])).
        { unfold client_step. rewrite Es, Ec. replace (maxr <? S cnt)%nat with false by lia. reflexivity. }
        rewrite E. apply (IH _ (S cnt)); cbn [c_st c_att]; auto; discriminate.
      + remember (client_step show parse maxr srv c (AServe n1 n2 beats cut sizes)) as c' eqn:Ec'.
        unfold client_step in Ec'. rewrite Es in Ec'.
        destruct (srv n1 n2 (c_last c)) as [| |frames closes].
        * subst c'. rewrite absorbing by (cbn; discriminate). cbn. discriminate.
        * subst c'. rewrite absorbing by (cbn; discriminate). cbn. discriminate.
        * destruct cut as [cpt|].
          -- destruct T as [T1 T2]. replace (maxr <? 1)%nat with false in Ec' by lia. subst c'.
             apply (IH _ 1%nat); cbn [c_st c_att]; auto; discriminate.
          -- subst c'. rewrite absorbing by (cbn; destruct closes; discriminate).
             cbn. destruct closes; discriminate. }
  intros T. apply (H atts (client_init k0) O); cbn; auto. discriminate.
Qed.

(* every fault pattern within the limit, followed by one undisturbed connection once the run is over,
   ends the stream normally with every event delivered *)
Definition is_fault (a : attempt) : Prop :=
  match a with AFail => True | AServe _ _ _ (Some _) _ => True | AServe _ _ _ None _ => False end.

Lemma faults_status : forall l c, Forall is_fault l -> (c_st c = Running \/ c_st c = DoneOK) ->
  c_st (fold_left (client_step show parse maxr srv) l c) <> GaveUp -> CInv c -> Forall honest l ->
  let c' := fold_left (client_step show parse maxr srv) l c in
  c_st c' = Running \/ c_st c' = DoneOK.
Proof.
  induction l as [|a l IH]; intros c F Hs Hg I Hh; [exact Hs|]. inversion F; subst. inversion Hh; subst.
  cbn [fold_left] in *. apply IH; auto; [|now apply step_inv].
  destruct Hs as [Hs|Hs]; [|right; unfold client_step; now rewrite Hs].
  pose proof (step_inv c a I H3) as I'.
  destruct (c_st (client_step show parse maxr srv c a)) eqn:E; auto.
  - exfalso. apply Hg. rewrite absorbing by (rewrite E; discriminate). exact E.
  - exfalso. exact (ci_found _ I' E).
  - exfalso. unfold client_step in E. rewrite Hs in E. destruct a as [|n1 n2 beats [cpt|] sizes]; cbn in H1; try contradiction.
    + cbn in E. destruct (maxr <=? c_att c)%nat; discriminate.
    + destruct (srv n1 n2 (c_last c)); cbn in E; try discriminate.
      destruct maxr; discriminate.
Qed.

Theorem client_completes : forall faults beats sizes,
  Forall is_fault faults -> Forall honest faults -> tolerable 0 faults ->
  existsb is_terminal L = true ->
  let c := client_run show parse maxr srv k0 (faults ++ [AServe (length L) (length L) beats None sizes]) in
  c_st c = DoneOK /\ c_out c = map pair_of V0.
Proof.
  intros faults beats sizes F Hh T HT c.
  set (fin := AServe (length L) (length L) beats None sizes) in *.
  assert (Hfin : honest fin) by (cbn; intros _; lia).
  assert (HA : Forall honest (faults ++ [fin])) by (apply Forall_app; split; [exact Hh|now constructor]).
  pose proof (run_inv _ _ init_inv HA) as I. fold (client_run show parse maxr srv k0 (faults ++ [fin])) in I. fold c in I.
  assert (D : c_st c = DoneOK); [|split; [exact D|exact (ci_done _ I D)]].
  unfold c, client_run. rewrite fold_left_app. cbn [fold_left].
  set (c1 := fold_left (client_step show parse maxr srv) faults (client_init k0)).
  pose proof (run_inv faults _ init_inv Hh) as I1. fold c1 in I1.
  assert (S1 : c_st c1 = Running \/ c_st c1 = DoneOK).
  { apply (faults_status faults (client_init k0) F); auto using init_inv.
    apply (client_gives_up_only_beyond_limit faults T). }
  destruct S1 as [S1|S1]; [|unfold client_step; now rewrite S1].
  unfold client_step. rewrite S1. unfold fin, srv, serve. rewrite !firstn_all.
  rewrite (resolve_cursor bk L tst (c_last c1) L_gapfree).
  apply existsb_split in HT. destruct HT as (A & x & B & EL & Tx).
  pose proof (L_terminal_last A x B EL Tx) as ->.
  assert (LO : last_opt L = Some x) by (rewrite EL; apply last_opt_app).
  rewrite LO, Tx, orb_true_r, andb_true_r.
  destruct (length L <=? Z.to_nat (c_last c1 + 1))%nat eqn:EC; [reflexivity|].
  apply Nat.leb_gt in EC.
  assert (Sx : s_seq x = Z.of_nat (length L) - 1) by (apply (gf_last L 0 x L_gapfree LO)).
  assert (EN : ended (c_last c1) L = true).
  { unfold ended. apply existsb_exists. exists x. split; [|exact Tx]. apply filter_In. split.
    - rewrite EL. apply in_or_app. right. now left.
    - lia. }
  now rewrite EN.
Qed.
End Client.
