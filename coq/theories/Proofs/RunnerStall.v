(* C03 at the runner level (Model/Runner.v): for every schedule, while the run is live, the engine state the run loop
   holds has no stall - a step with queued events runs at its full worker limit. *)
From Coq Require Import List ZArith Bool PeanoNat Lia.
Import ListNotations.
From WF Require Import Model.Engine Model.Runner Proofs.EngineCap Proofs.EngineStall Proofs.RunnerReplay.
Open Scope Z_scope.

Lemma do_commands_no_exit : forall cs r,
  Runner.outcome (fold_left do_command cs r) = ORunning -> existsb is_exit cs = false /\ Runner.outcome r = ORunning.
Proof.
  induction cs as [|c t IH]; intros r H; cbn [fold_left existsb] in *; [split; [reflexivity|exact H]|].
  destruct (IH _ H) as [E O1].
  assert (Runner.outcome r = ORunning) as O0.
  { destruct (Runner.outcome r) eqn:X; [reflexivity|..]; unfold do_command in O1; rewrite X in O1; congruence. }
  split; [|exact O0]. rewrite E, orb_false_r.
  unfold do_command in O1. rewrite O0 in O1.
  destruct c; cbn [is_exit]; try reflexivity; try (cbn in O1; discriminate O1).
  destruct k; cbn in O1; discriminate O1.
Qed.

Lemma drain_outcome P : forall f r, Runner.outcome (drain_ticks P r f) = ORunning -> Runner.outcome r = ORunning.
Proof.
  intros f r H. destruct (Runner.outcome r) eqn:E; [reflexivity|..]; destruct f; cbn [drain_ticks] in H; rewrite E in H; congruence.
Qed.

Lemma tick_nostall P r t s' cs r1 :
  Nostall (st r) -> reduce P t (st r) (clock r) = Ok (s', cs) -> st r1 = s' ->
  Runner.outcome (fold_left do_command cs r1) = ORunning -> Nostall (st (fold_left do_command cs r1)).
Proof.
  intros S R E H. destruct (do_commands_no_exit _ _ H) as [NE _]. destruct (do_commands_replay cs r1) as [S1 _].
  rewrite S1, E. exact (reduce_nostall _ _ _ _ _ _ S R NE).
Qed.

Lemma drain_ticks_nostall P : forall f r, Nostall (st r) -> Runner.outcome (drain_ticks P r f) = ORunning ->
  Nostall (st (drain_ticks P r f)).
Proof.
  induction f as [|f IH]; intros r S; cbn [drain_ticks].
  - destruct (Runner.outcome r); intros H; try exact S. destruct (tbuf r); exact S.
  - destruct (Runner.outcome r) eqn:Or; intros H; try exact S. destruct (tbuf r) as [|t rest] eqn:ET; [exact S|].
    match type of H with context [if ?b then _ else _] => destruct b eqn:Idle end.
    + apply IH; [exact S|exact H].
    + cbn [st clock upd] in *.
      destruct (reduce P t (st r) (clock r)) as [[s' cs]|c] eqn:R; [|discriminate H].
      apply IH; [|exact H]. apply drain_outcome in H.
      eapply (tick_nostall P r t s' cs); try eassumption. unfold log_idle. destruct (publishes_idle cs); reflexivity.
Qed.

Lemma wait_st r c r2 : wait_step r c = Some r2 -> st r2 = st r.
Proof.
  unfold wait_step. intros H.
  destruct (nth_error (donew r) c) as [[[[s w] ev] rs]|].
  - destruct (has_stop (cfg (st r)) rs); injection H as <-; reflexivity.
  - destruct (donew r); [|discriminate H]. destruct (mailbox r).
    + destruct (due (clock r) (wakeups r)) as [d rest]. destruct d.
      * destruct (pending r); [discriminate H|]. injection H as <-. reflexivity.
      * injection H as <-. reflexivity.
    + injection H as <-. reflexivity.
Qed.

Lemma rub_nostall P : forall f r, Nostall (st r) -> Runner.outcome (run_until_blocked P r f) = ORunning ->
  Nostall (st (run_until_blocked P r f)).
Proof.
  induction f as [|f IH]; intros r S; cbn [run_until_blocked].
  - destruct (Runner.outcome r); intros H; exact S.
  - generalize (drain_ticks_nostall P tick_fuel r S). generalize (drain_ticks P r tick_fuel). intros r1 S1.
    destruct (Runner.outcome r1) eqn:O1; intros H; try (rewrite O1 in H; discriminate H).
    destruct (wait_step r1 0) as [r2|] eqn:Wt; [|exact (S1 eq_refl)].
    apply IH; [rewrite (wait_st _ _ _ Wt); exact (S1 eq_refl)|exact H].
Qed.

Definition Good (r : rstate) : Prop := Runner.outcome r = ORunning -> Nostall (st r).

Lemma act_good P r a : Good r -> Good (act P r a).
Proof.
  intros G. unfold act. destruct (Runner.outcome r) eqn:O; try exact G.
  specialize (G O). intros H. apply rub_nostall; [|exact H].
  destruct a as [s w sends rs|t|dt]; [destruct (take_worker s w (runningw r)) as [[ev run']|]|..]; exact G.
Qed.

Theorem run_loop_nostall P s e now acts :
  Nostall s -> Runner.outcome (run_at P s e now acts) = ORunning -> Nostall (st (run_at P s e now acts)).
Proof.
  intros S. unfold run_at.
  assert (Good (run_until_blocked P (start s e now) loop_fuel)) as G0 by (intros H; apply rub_nostall; [exact S|exact H]).
  revert G0. generalize (run_until_blocked P (start s e now) loop_fuel).
  induction acts as [|a l IH]; intros r G; cbn [fold_left]; [exact G|]. apply IH. apply act_good. exact G.
Qed.
