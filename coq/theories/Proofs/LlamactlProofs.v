(* Proofs about M-Llamactl (C37). *)
From Coq Require Import List ZArith Bool Lia.
Import ListNotations.
From WF Require Import Generated Model.Llamactl.
Open Scope Z_scope.

Definition all_on : flags := mkF true true true.
Lemma flags_now_all_on : flags_now = all_on.
Proof. reflexivity. Qed.

Definition pkey (p : profile) : Z * Z := (p_name p, p_url p).

Lemma has_key_true : forall n u p, has_key n u p = true <-> pkey p = (n, u).
Proof.
  intros n u p. unfold has_key, pkey. rewrite andb_true_iff, !Z.eqb_eq. split.
  - intros [-> ->]. reflexivity.
  - intros H. inversion H. auto.
Qed.

Lemma has_key_pkey : forall n u p q, pkey p = pkey q -> has_key n u p = has_key n u q.
Proof. intros n u p q H. unfold has_key. unfold pkey in H. inversion H as [[H1 H2]]. reflexivity. Qed.

(* ---------- generic list facts ---------- *)
Section ListFacts.
Context {A B : Type}.

Lemma NoDup_map_inj : forall (f : A -> B) l x y,
  NoDup (map f l) -> In x l -> In y l -> f x = f y -> x = y.
Proof.
  intros f l. induction l as [|a l IH]; intros x y ND Hx Hy E; [inversion Hx|].
  cbn in ND. inversion ND as [|? ? Hn ND']; subst.
  destruct Hx as [->|Hx], Hy as [->|Hy]; auto.
  - exfalso. apply Hn. rewrite E. apply in_map. exact Hy.
  - exfalso. apply Hn. rewrite <- E. apply in_map. exact Hx.
Qed.

Lemma NoDup_map_filter : forall (f : A -> B) g l, NoDup (map f l) -> NoDup (map f (filter g l)).
Proof.
  intros f g l. induction l as [|a l IH]; intro ND; cbn; [constructor|].
  cbn in ND. inversion ND as [|? ? Hn ND']; subst.
  destruct (g a); cbn; auto. constructor; auto.
  intro Hin. apply Hn. apply in_map_iff in Hin. destruct Hin as [x [E Hx]].
  apply filter_In in Hx. destruct Hx as [Hx _]. rewrite <- E. apply in_map. exact Hx.
Qed.

Lemma find_filter : forall (f g : A -> bool) l,
  (forall x, In x l -> f x = true -> g x = true) -> find f (filter g l) = find f l.
Proof.
  intros f g l. induction l as [|a l IH]; intro H; cbn; [reflexivity|].
  destruct (g a) eqn:Ga; cbn.
  - destruct (f a); [reflexivity|]. apply IH. intros x Hx. apply H. right. exact Hx.
  - destruct (f a) eqn:Fa.
    + rewrite (H a (or_introl eq_refl) Fa) in Ga. discriminate.
    + apply IH. intros x Hx. apply H. right. exact Hx.
Qed.

Lemma find_app_none : forall (f : A -> bool) l a,
  find f l = None -> find f (l ++ [a]) = if f a then Some a else None.
Proof.
  intros f l a. induction l as [|b l IH]; cbn; intro H; [reflexivity|].
  destruct (f b); [discriminate|]. apply IH. exact H.
Qed.

Lemma NoDup_snoc : forall (l : list A) a, NoDup l -> ~ In a l -> NoDup (l ++ [a]).
Proof.
  induction l as [|b l IH]; cbn; intros a ND Hn.
  - constructor; [intros []|constructor].
  - inversion ND as [|? ? Hb ND']; subst. constructor.
    + intro Hin. apply in_app_or in Hin. destruct Hin as [Hin|[->|[]]]; [tauto|]. apply Hn. left. reflexivity.
    + apply IH; [exact ND'|]. intro Hin. apply Hn. right. exact Hin.
Qed.

Lemma existsb_filter_sub : forall (f g : A -> bool) l,
  existsb f (filter g l) = true -> existsb f l = true.
Proof.
  intros f g l H. apply existsb_exists in H. destruct H as [x [Hx Fx]].
  apply filter_In in Hx. apply existsb_exists. exists x. tauto.
Qed.
End ListFacts.

(* ---------- profile-table facts ---------- *)
Lemma find_key_in : forall n u l p, find (has_key n u) l = Some p -> In p l /\ pkey p = (n, u).
Proof. intros n u l p H. apply find_some in H. destruct H as [H1 H2]. apply has_key_true in H2. auto. Qed.

Lemma find_key_unique : forall n u l p,
  NoDup (map pkey l) -> In p l -> pkey p = (n, u) -> find (has_key n u) l = Some p.
Proof.
  intros n u l p ND Hin Hk. destruct (find (has_key n u) l) as [q|] eqn:F.
  - apply find_key_in in F. destruct F as [Hq Kq]. f_equal.
    apply (NoDup_map_inj pkey l q p ND Hq Hin). congruence.
  - exfalso. pose proof (find_none _ _ F p Hin) as H. apply has_key_true in Hk. congruence.
Qed.

Definition preserving (f : profile -> profile) (l : list profile) : Prop :=
  forall x, In x l -> pkey (f x) = pkey x /\ p_id (f x) = p_id x.

Lemma map_preserving : forall f l, preserving f l ->
  map pkey (map f l) = map pkey l /\ map p_id (map f l) = map p_id l.
Proof.
  intros f l H. rewrite !map_map. split; apply map_ext_in; intros x Hx; apply H; exact Hx.
Qed.

Lemma find_map_preserving : forall f l n u, preserving f l ->
  option_map p_id (find (has_key n u) (map f l)) = option_map p_id (find (has_key n u) l).
Proof.
  intros f l n u. induction l as [|a l IH]; intro H; cbn; [reflexivity|].
  destruct (H a (or_introl eq_refl)) as [Hk Hi].
  rewrite (has_key_pkey n u (f a) a Hk). destruct (has_key n u a); cbn.
  - f_equal. exact Hi.
  - apply IH. intros x Hx. apply H. right. exact Hx.
Qed.

Lemma existsb_map_preserving : forall f l i u, preserving f l ->
  existsb (fun p => (p_id p =? i) && (p_url p =? u)) (map f l)
  = existsb (fun p => (p_id p =? i) && (p_url p =? u)) l.
Proof.
  intros f l i u. induction l as [|a l IH]; intro H; cbn; [reflexivity|].
  destruct (H a (or_introl eq_refl)) as [Hk Hi]. unfold pkey in Hk. inversion Hk as [[Hn Hu]].
  rewrite Hi, Hu. f_equal. apply IH. intros x Hx. apply H. right. exact Hx.
Qed.

Lemma min_name_in : forall l p, min_name l = Some p -> In p l.
Proof.
  induction l as [|a l IH]; cbn; intros p H; [discriminate|].
  destruct (min_name l) as [q|].
  - destruct (p_name q <? p_name a); inversion H; subst; auto.
  - inversion H; auto.
Qed.

Lemma first_profile_in : forall u s p, cm_first_profile u s = Some p -> In p (s_profs s) /\ p_url p = u.
Proof.
  intros u s p H. unfold cm_first_profile in H. apply min_name_in in H. apply filter_In in H.
  destruct H as [H1 H2]. apply Z.eqb_eq in H2. auto.
Qed.

(* ---------- structural invariant of the profiles table (PK and UNIQUE index) ---------- *)
Record K (s : st) : Prop := mkK {
  K_keys : NoDup (map pkey (s_profs s));
  K_ids : NoDup (map p_id (s_profs s));
  K_next : Forall (fun p => p_id p < s_next s) (s_profs s) }.

Lemma K_init : K init.
Proof. split; cbn; constructor. Qed.

Lemma K_same_profs : forall s s', s_profs s' = s_profs s -> s_next s' = s_next s -> K s -> K s'.
Proof. intros s s' Hp Hn [a b c]. split; rewrite ?Hp, ?Hn; assumption. Qed.

Lemma K_filter : forall s g, K s -> K (set_profs (filter g (s_profs s)) s).
Proof.
  intros s g [a b c]. split; cbn.
  - apply NoDup_map_filter. exact a.
  - apply NoDup_map_filter. exact b.
  - rewrite Forall_forall in *. intros x Hx. apply filter_In in Hx. apply c. tauto.
Qed.

Lemma K_map_preserving : forall s f, preserving f (s_profs s) -> K s -> K (set_profs (map f (s_profs s)) s).
Proof.
  intros s f H [a b c]. destruct (map_preserving f _ H) as [E1 E2]. split; cbn.
  - rewrite E1. exact a.
  - rewrite E2. exact b.
  - rewrite Forall_forall in *. intros x Hx. apply in_map_iff in Hx. destruct Hx as [y [<- Hy]].
    destruct (H y Hy) as [_ ->]. apply c. exact Hy.
Qed.

(* replacing, by id, a row by one with the same key and id *)
Lemma replace_preserving : forall s p q,
  K s -> In p (s_profs s) -> p_id q = p_id p -> pkey q = pkey p ->
  preserving (fun x => if p_id x =? p_id q then q else x) (s_profs s).
Proof.
  intros s p q Ks Hp Hi Hk x Hx. destruct (p_id x =? p_id q) eqn:E; [|auto].
  apply Z.eqb_eq in E. assert (x = p).
  { apply (NoDup_map_inj p_id (s_profs s) x p (K_ids s Ks) Hx Hp). congruence. }
  subst x. split; congruence.
Qed.

Lemma create_spec : forall n u proj key uid mail s s' p,
  cm_create_profile n u proj key uid mail s = Some (s', p) ->
  cm_get_profile n u s = None /\ pkey p = (n, u) /\ p_id p = s_next s /\
  s' = mkS (s_envs s) (s_profs s ++ [p]) (s_env s) (s_cur s) (s_next s + 1).
Proof.
  intros n u proj key uid mail s s' p H. unfold cm_create_profile in H.
  destruct (proj =? 0); [discriminate|].
  destruct (cm_get_profile n u s) eqn:G; [discriminate|].
  inversion H; subst. auto.
Qed.

Lemma K_create : forall n u proj key uid mail s s' p,
  cm_create_profile n u proj key uid mail s = Some (s', p) -> K s -> K s'.
Proof.
  intros n u proj key uid mail s s' p H [a b c].
  destruct (create_spec _ _ _ _ _ _ _ _ _ H) as [G [Hk [Hi ->]]]. split; cbn.
  - rewrite map_app. cbn. apply NoDup_snoc; auto.
    intros Hin. apply in_map_iff in Hin. destruct Hin as [x [E Hx]].
    unfold cm_get_profile in G. pose proof (find_none _ _ G x Hx) as F.
    assert (has_key n u x = true) by (apply has_key_true; congruence). congruence.
  - rewrite map_app. cbn. apply NoDup_snoc; auto.
    intros Hin. apply in_map_iff in Hin. destruct Hin as [x [E Hx]].
    rewrite Forall_forall in c. specialize (c x Hx). lia.
  - rewrite Forall_forall in *. intros x Hx. apply in_app_or in Hx. destruct Hx as [Hx|[<-|[]]].
    + specialize (c x Hx). lia.
    + lia.
Qed.

(* ---------- what the active profile is ---------- *)
Definition act_id (s : st) : option Z := option_map p_id (active s).

Lemma active_unfold : forall s,
  active s = match s_cur s with Some n => find (has_key n (s_env s)) (s_profs s) | None => None end.
Proof. reflexivity. Qed.

Lemma active_in : forall s p, active s = Some p ->
  In p (s_profs s) /\ p_url p = s_env s /\ s_cur s = Some (p_name p).
Proof.
  intros s p H. rewrite active_unfold in H. destruct (s_cur s) as [n|]; [|discriminate].
  apply find_key_in in H. destruct H as [Hin Hk]. unfold pkey in Hk. inversion Hk; subst. auto.
Qed.

Lemma active_cur_none : forall s, s_cur s = None -> active s = None.
Proof. intros s H. rewrite active_unfold, H. reflexivity. Qed.

Definition survives (i u : Z) (l : list profile) : bool :=
  existsb (fun p => (p_id p =? i) && (p_url p =? u)) l.
Arguments survives : simpl never.

Lemma update_facts : forall q p s s',
  K s -> In p (s_profs s) -> p_id q = p_id p -> pkey q = pkey p ->
  cm_update_profile q s = Some s' ->
  exists f, preserving f (s_profs s) /\ s' = set_profs (map f (s_profs s)) s /\
            (forall x, In x (s_profs s) -> p_id x = p_id p -> f x = q).
Proof.
  intros q p s s' Ks Hp Hi Hk H. unfold cm_update_profile in H.
  destruct (cm_get_profile_by_id (p_id q) s) eqn:G.
  - destruct (existsb _ (s_profs s)); [discriminate|]. inversion H; subst.
    exists (fun x => if p_id x =? p_id q then q else x). split; [|split; [reflexivity|]].
    + eapply replace_preserving; eauto.
    + intros x _ Hx. rewrite Hx, <- Hi, Z.eqb_refl. reflexivity.
  - exfalso. unfold cm_get_profile_by_id in G. pose proof (find_none _ _ G p Hp) as F. cbn in F.
    rewrite Hi, Z.eqb_refl in F. discriminate.
Qed.

Lemma pres_state : forall f s, preserving f (s_profs s) -> K s ->
  let s' := set_profs (map f (s_profs s)) s in
  K s' /\ act_id s' = act_id s /\ (forall i u, survives i u (s_profs s') = survives i u (s_profs s)).
Proof.
  intros f s H Ks s'. split; [apply K_map_preserving; assumption|]. split.
  - unfold act_id. rewrite !active_unfold. subst s'. cbn. destruct (s_cur s); [|reflexivity].
    apply find_map_preserving. exact H.
  - intros i u. apply existsb_map_preserving. exact H.
Qed.

Lemma set_project_preserving : forall n u proj l,
  preserving (fun p => if has_key n u p
                       then mkP (p_id p) (p_name p) (p_url p) proj (p_key p) (p_keyid p) (p_uid p) (p_mail p)
                       else p) l.
Proof. intros n u proj l x _. destruct (has_key n u x); auto. Qed.

(* the key looked up after filtering out other keys *)
Lemma find_after_filter : forall n u g l,
  (forall x, In x l -> has_key n u x = true -> g x = true) ->
  find (has_key n u) (filter g l) = find (has_key n u) l.
Proof. intros. apply find_filter. assumption. Qed.

Lemma env_mem_in : forall u s, env_mem u s = true <-> In u (map fst (s_envs s)).
Proof.
  intros u s. unfold env_mem. rewrite existsb_exists, in_map_iff. split.
  - intros [e [He E]]. apply Z.eqb_eq in E. exists e. auto.
  - intros [e [E He]]. exists e. split; [exact He|]. apply Z.eqb_eq. exact E.
Qed.

Lemma in_upsert : forall u e ra l,
  In u (map fst (filter (fun x : Z * bool => negb (fst x =? e)) l ++ [(e, ra)])) <-> (u = e \/ In u (map fst l)).
Proof.
  intros u e ra l. rewrite map_app, in_app_iff, in_map_iff. cbn. split.
  - intros [[x [E Hx]]|[H|[]]]; [|auto]. apply filter_In in Hx. right. rewrite <- E. apply in_map. tauto.
  - intros [->|H]; [auto|]. destruct (Z.eq_dec u e) as [->|Ne]; [auto|].
    left. apply in_map_iff in H. destruct H as [x [E Hx]]. exists x. split; [exact E|].
    apply filter_In. split; [exact Hx|]. apply negb_true_iff, Z.eqb_neq. congruence.
Qed.

Lemma in_env_remove : forall u e l,
  In u (map fst (filter (fun x : Z * bool => negb (fst x =? e)) l)) <-> (u <> e /\ In u (map fst l)).
Proof.
  intros u e l. rewrite !in_map_iff. split.
  - intros [x [E Hx]]. apply filter_In in Hx. destruct Hx as [Hx Hn].
    apply negb_true_iff, Z.eqb_neq in Hn. split; [congruence|]. exists x. auto.
  - intros [Ne [x [E Hx]]]. exists x. split; [exact E|]. apply filter_In. split; [exact Hx|].
    apply negb_true_iff, Z.eqb_neq. congruence.
Qed.

(* ---------- surviving picks ---------- *)
Lemma surviving_unfold : forall s a,
  surviving s a = match a with
                  | Some i => if survives i (s_env s) (s_profs s) then Some i else None
                  | None => None
                  end.
Proof. reflexivity. Qed.

Lemma same_view : forall s s', s_cur s' = s_cur s -> s_env s' = s_env s -> s_profs s' = s_profs s ->
  active s' = active s /\ forall a, surviving s' a = surviving s a.
Proof.
  intros s s' H1 H2 H3. split.
  - rewrite !active_unfold, H1, H2, H3. reflexivity.
  - intro a. rewrite !surviving_unfold, H2, H3. reflexivity.
Qed.

Lemma survives_in : forall p u l, In p l -> p_url p = u -> survives (p_id p) u l = true.
Proof.
  intros p u l Hin Hu. apply existsb_exists. exists p. split; [exact Hin|].
  rewrite Hu, !Z.eqb_refl. reflexivity.
Qed.

Lemma survives_filter_false : forall i u g l, survives i u l = false -> survives i u (filter g l) = false.
Proof.
  intros i u g l H. destruct (survives i u (filter g l)) eqn:E; [|reflexivity].
  apply existsb_filter_sub in E. unfold survives in H. congruence.
Qed.

Lemma survives_filter_keep : forall i u g l,
  (forall x, In x l -> p_url x = u -> g x = true) -> survives i u (filter g l) = survives i u l.
Proof.
  intros i u g l H. destruct (survives i u l) eqn:E.
  - apply existsb_exists in E. destruct E as [x [Hx Fx]]. apply existsb_exists. exists x.
    split; [|exact Fx]. apply filter_In. split; [exact Hx|]. apply H; [exact Hx|].
    apply andb_true_iff in Fx. destruct Fx as [_ Fx]. apply Z.eqb_eq. exact Fx.
  - apply survives_filter_false. exact E.
Qed.

Lemma survives_none_of_url : forall i u l, survives i u (filter (fun p => negb (p_url p =? u)) l) = false.
Proof.
  intros i u l. destruct (survives i u (filter _ l)) eqn:E; [|reflexivity].
  apply existsb_exists in E. destruct E as [x [Hx Fx]]. apply filter_In in Hx. destruct Hx as [_ Hx].
  apply andb_true_iff in Fx. destruct Fx as [_ Fx]. rewrite Fx in Hx. discriminate.
Qed.

Lemma surviving_filter_none : forall s s' a g,
  surviving s a = None -> s_env s' = s_env s -> s_profs s' = filter g (s_profs s) -> surviving s' a = None.
Proof.
  intros s s' a g H He Hp. rewrite surviving_unfold in *. destruct a as [i|]; [|reflexivity].
  rewrite He, Hp. destruct (survives i (s_env s) (s_profs s)) eqn:E; [discriminate|].
  rewrite survives_filter_false by exact E. reflexivity.
Qed.

(* conclusions 3 and 4 of the step lemma, packaged *)
Definition concl3 (s : st) (o : op) (r : res) (s' : st) : Prop :=
  forall p', active s' = Some p' ->
    In (p_id p') (picks s o r) \/ (tenure_ends true s o r s' = false /\ act_id s = Some (p_id p')).
Definition concl4 (s : st) (o : op) (r : res) (s' : st) : Prop :=
  forall a, act_id s = surviving s a ->
    act_id s' = surviving s' (last_pick s o r (if tenure_ends true s o r s' then None else a)).

Lemma concl_cur_none : forall s o r s',
  s_cur s' = None ->
  (forall a, surviving s' (last_pick s o r (if tenure_ends true s o r s' then None else a)) = None) ->
  concl3 s o r s' /\ concl4 s o r s'.
Proof.
  intros s o r s' Hc Hs. split.
  - intros p' Hp. rewrite active_cur_none in Hp by exact Hc. discriminate.
  - intros a _. unfold act_id. rewrite active_cur_none by exact Hc. rewrite Hs. reflexivity.
Qed.

Lemma concl_unchanged : forall s o r s',
  act_id s' = act_id s -> (forall a, act_id s = surviving s a -> surviving s' a = surviving s a) ->
  tenure_ends true s o r s' = false -> picks s o r = [] -> (forall old, last_pick s o r old = old) ->
  concl3 s o r s' /\ concl4 s o r s'.
Proof.
  intros s o r s' Ha Hs Ht Hp Hl. split.
  - intros p' H. right. split; [exact Ht|]. rewrite <- Ha. unfold act_id. rewrite H. reflexivity.
  - intros a H. rewrite Ht, Hl, Ha, (Hs a H). exact H.
Qed.

Lemma tenure_same_env : forall s o r s',
  s_env s' = s_env s ->
  match o, r with OEnvAdd _ _, _ => False | OEnvSwitch _, RNone => False | _, _ => True end ->
  tenure_ends true s o r s' = false.
Proof.
  intros s o r s' He Ho. unfold tenure_ends. rewrite He, Z.eqb_refl. cbn.
  destruct o; try reflexivity; try contradiction. destruct r; try reflexivity; contradiction.
Qed.

Lemma create_success : forall n proj key uid mail s s1 p,
  cm_create_profile n (s_env s) proj key uid mail s = Some (s1, p) -> K s ->
  let s' := cm_set_current_profile (Some (p_name p)) s1 in
  K s' /\ s_env s' = s_env s /\ s_envs s' = s_envs s /\ active s' = Some p /\
  survives (p_id p) (s_env s) (s_profs s') = true.
Proof.
  intros n proj key uid mail s s1 p C Ks s'. pose proof (K_create _ _ _ _ _ _ _ _ _ C Ks) as K1.
  destruct (create_spec _ _ _ _ _ _ _ _ _ C) as [G [Hk [Hi E]]]. subst s1. subst s'.
  split; [eapply K_same_profs; [| |exact K1]; reflexivity|]. split; [reflexivity|]. split; [reflexivity|].
  unfold pkey in Hk. injection Hk as Hn Hu. split.
  - rewrite active_unfold. cbn [s_cur s_env s_profs cm_set_current_profile]. unfold cm_get_profile in G.
    rewrite ?Hn, ?Hu. rewrite (find_app_none _ _ p G).
    assert (has_key n (s_env s) p = true) as -> by (apply has_key_true; unfold pkey; congruence). reflexivity.
  - cbn [s_profs cm_set_current_profile]. apply survives_in; [apply in_or_app; right; left; reflexivity|exact Hu].
Qed.

(* ---------- one step: structural invariant, known environment, where the active profile comes from ---------- *)
Definition facts (s : st) (o : op) (r : res) (s' : st) : Prop :=
  K s' /\ (env_known s -> env_known s') /\ concl3 s o r s' /\ concl4 s o r s'.

Lemma facts_noop : forall s o r,
  K s -> picks s o r = [] -> (forall old, last_pick s o r old = old) ->
  match o, r with OEnvAdd _ _, _ => False | OEnvSwitch _, RNone => False | _, _ => True end ->
  facts s o r s.
Proof.
  intros s o r Ks Hp Hl Ho. split; [exact Ks|]. split; [auto|].
  apply concl_unchanged; auto. apply tenure_same_env; auto.
Qed.

Lemma surviving_none_l : forall s, surviving s None = None.
Proof. reflexivity. Qed.

Lemma facts_env_add : forall s u ra s' r,
  K s -> step_gen all_on s (OEnvAdd u ra) = (s', r) -> facts s (OEnvAdd u ra) r s'.
Proof.
  intros s u ra s' r Ks H. cbn in H. inversion H; subst; clear H. split; [|split].
  - eapply K_same_profs; [| |exact Ks]; reflexivity.
  - intros _. right. cbn. apply in_upsert. left. reflexivity.
  - apply concl_cur_none; [reflexivity|]. intros a. unfold tenure_ends. cbn [andb]. rewrite orb_true_r. reflexivity.
Qed.

Lemma facts_env_upsert : forall s u ra s' r,
  K s -> step_gen all_on s (OEnvUpsert u ra) = (s', r) -> facts s (OEnvUpsert u ra) r s'.
Proof.
  intros s u ra s' r Ks H. cbn in H. inversion H; subst; clear H.
  destruct (same_view s (cm_upsert_environment u ra s) eq_refl eq_refl eq_refl) as [Va Vs].
  split; [|split].
  - eapply K_same_profs; [| |exact Ks]; reflexivity.
  - intros [H0|Hin]; [left; exact H0|]. right. cbn. apply in_upsert. right. exact Hin.
  - apply concl_unchanged; [|auto| |reflexivity|reflexivity].
    + unfold act_id. rewrite Va. reflexivity.
    + apply tenure_same_env; [reflexivity|exact I].
Qed.

Lemma facts_env_switch : forall s u s' r,
  K s -> step_gen all_on s (OEnvSwitch u) = (s', r) -> facts s (OEnvSwitch u) r s'.
Proof.
  intros s u s' r Ks H. cbn in H. destruct (env_mem u s) eqn:M; inversion H; subst; clear H.
  - split; [|split].
    + eapply K_same_profs; [| |exact Ks]; reflexivity.
    + intros _. right. cbn. apply env_mem_in. exact M.
    + apply concl_cur_none; [reflexivity|]. intros a. unfold tenure_ends. cbn [andb]. rewrite orb_true_r. reflexivity.
  - apply facts_noop; auto.
Qed.

Lemma facts_env_delete : forall s u s' r,
  K s -> step_gen all_on s (OEnvDelete u) = (s', r) -> facts s (OEnvDelete u) r s'.
Proof.
  intros s u s' r Ks H. cbn in H. unfold cm_delete_environment in H.
  destruct (negb (env_mem u s)) eqn:M; cbn in H.
  { inversion H; subst; clear H. apply facts_noop; auto. }
  destruct (s_env s =? u) eqn:E; cbn in H; inversion H; subst; clear H.
  - apply Z.eqb_eq in E. split; [|split].
    + eapply K_same_profs; [| |apply (K_filter s (fun p => negb (p_url p =? u)) Ks)]; reflexivity.
    + intros _. left. reflexivity.
    + apply concl_cur_none; [reflexivity|]. intros a. cbn [last_pick].
      unfold tenure_ends. cbn [s_env cm_set_current_profile cm_set_current_environment andb].
      rewrite orb_false_r. rewrite surviving_unfold.
      destruct (negb (s_env s =? default_url)) eqn:D; [reflexivity|].
      apply negb_false_iff, Z.eqb_eq in D. destruct a as [i|]; [|reflexivity].
      cbn [s_env s_profs cm_set_current_profile cm_set_current_environment set_envs set_profs].
      assert (default_url = u) as -> by congruence.
      rewrite survives_none_of_url. reflexivity.
  - apply Z.eqb_neq in E.
    set (s1 := set_envs _ _).
    assert (Hf : forall n x, In x (s_profs s) -> has_key n (s_env s) x = true -> negb (p_url x =? u) = true).
    { intros n x _ Hx. apply has_key_true in Hx. unfold pkey in Hx. injection Hx as _ Hu.
      apply negb_true_iff, Z.eqb_neq. congruence. }
    assert (Va : active s1 = active s).
    { rewrite !active_unfold. subst s1. cbn. destruct (s_cur s) as [n|]; [|reflexivity].
      apply find_after_filter. apply Hf. }
    split; [|split].
    + eapply K_same_profs; [| |apply (K_filter s (fun p => negb (p_url p =? u)) Ks)]; reflexivity.
    + intros [H0|Hin]; [left; exact H0|]. right. subst s1. cbn. apply in_env_remove. auto.
    + apply concl_unchanged; [| | |reflexivity|reflexivity].
      * unfold act_id. rewrite Va. reflexivity.
      * intros a _. rewrite !surviving_unfold. destruct a as [i|]; [|reflexivity]. subst s1. cbn.
        rewrite survives_filter_keep; [reflexivity|].
        intros x _ Hx. apply negb_true_iff, Z.eqb_neq. congruence.
      * apply tenure_same_env; [reflexivity|exact I].
Qed.

Lemma facts_created : forall s o n proj key uid mail s1 p,
  K s -> cm_create_profile n (s_env s) proj key uid mail s = Some (s1, p) ->
  picks s o (RAuth (p_id p)) = [p_id p] ->
  (forall old, last_pick s o (RAuth (p_id p)) old = Some (p_id p)) ->
  facts s o (RAuth (p_id p)) (cm_set_current_profile (Some (p_name p)) s1).
Proof.
  intros s o n proj key uid mail s1 p Ks C Hp Hl.
  destruct (create_success _ _ _ _ _ _ _ _ C Ks) as [K' [He [Hes [Ha Hs]]]].
  split; [exact K'|]. split; [|split].
  - unfold env_known. rewrite He, Hes. auto.
  - intros p' H. left. rewrite Ha in H. inversion H; subst. rewrite Hp. left. reflexivity.
  - intros a _. unfold act_id. rewrite Ha, Hl, surviving_unfold, He, Hs. reflexivity.
Qed.

Lemma facts_create_tok : forall s n key proj s' r,
  K s -> step_gen all_on s (OCreateTok n key proj) = (s', r) -> facts s (OCreateTok n key proj) r s'.
Proof.
  intros s n key proj s' r Ks H. cbn in H.
  destruct (cm_create_profile n (s_env s) proj key 0 0 s) as [[s1 p]|] eqn:C; inversion H; subst; clear H.
  - eapply facts_created; eauto.
  - apply facts_noop; auto.
Qed.

(* a state obtained by a key- and id-preserving rewrite of rows *)
Lemma facts_preserved : forall s o r f,
  K s -> preserving f (s_profs s) ->
  picks s o r = [] -> (forall old, last_pick s o r old = old) ->
  match o, r with OEnvAdd _ _, _ => False | OEnvSwitch _, RNone => False | _, _ => True end ->
  facts s o r (set_profs (map f (s_profs s)) s).
Proof.
  intros s o r f Ks Hf Hp Hl Ho. destruct (pres_state f s Hf Ks) as [K' [Ha Hs]].
  split; [exact K'|]. split; [auto|].
  apply concl_unchanged; auto.
  - intros a _. rewrite !surviving_unfold. destruct a as [i|]; [|reflexivity]. cbn [s_env set_profs].
    rewrite Hs. reflexivity.
  - apply tenure_same_env; auto.
Qed.

Lemma facts_oidc : forall s uid mail proj s' r,
  K s -> step_gen all_on s (OOidc uid mail proj) = (s', r) -> facts s (OOidc uid mail proj) r s'.
Proof.
  intros s uid mail proj s' r Ks H. cbn in H.
  destruct (cm_get_profile_by_uid (s_env s) uid s) as [ex|] eqn:G.
  - unfold cm_get_profile_by_uid in G. apply find_some in G. destruct G as [Hin Hx].
    apply andb_true_iff in Hx. destruct Hx as [Hu _]. apply Z.eqb_eq in Hu.
    set (ex' := mkP (p_id ex) (p_name ex) (p_url ex) (p_proj ex) (p_key ex) (p_keyid ex) uid mail) in *.
    destruct (cm_update_profile ex' s) as [s1|] eqn:U; inversion H; subst; clear H.
    + destruct (update_facts ex' ex s s1 Ks Hin eq_refl eq_refl U) as [f [Hf [-> Hfx]]].
      destruct (pres_state f s Hf Ks) as [K' [Ha Hs]].
      assert (Hact : act_id (cm_set_current_profile (Some (p_name ex')) (set_profs (map f (s_profs s)) s))
                     = Some (p_id ex)).
      { unfold act_id. rewrite active_unfold. cbn [s_cur s_env s_profs cm_set_current_profile set_profs ex' p_name].
        rewrite (find_map_preserving f _ _ _ Hf).
        rewrite (find_key_unique (p_name ex) (s_env s) (s_profs s) ex (K_keys s Ks) Hin).
        - reflexivity.
        - unfold pkey. rewrite Hu. reflexivity. }
      change (p_name ex') with (p_name ex) in Hact. change (p_id ex') with (p_id ex).
      change (p_name ex') with (p_name ex).
      split; [eapply K_same_profs; [| |exact K']; reflexivity|]. split; [auto|]. split.
      * intros p' H. left. unfold act_id in Hact. rewrite H in Hact. cbn in Hact. injection Hact as ->.
        left. reflexivity.
      * intros a _. rewrite Hact. cbn [last_pick]. rewrite surviving_unfold.
        cbn [s_env s_profs cm_set_current_profile set_profs]. rewrite Hs.
        rewrite (survives_in ex (s_env s) (s_profs s) Hin Hu). reflexivity.
    + apply facts_noop; auto.
  - destruct (cm_create_profile mail (s_env s) proj 0 uid mail s) as [[s1 p]|] eqn:C; inversion H; subst; clear H.
    + eapply facts_created; eauto.
    + apply facts_noop; auto.
Qed.

Lemma facts_select : forall s n s' r,
  K s -> step_gen all_on s (OSelect n) = (s', r) -> facts s (OSelect n) r s'.
Proof.
  intros s n s' r Ks H. cbn in H. inversion H; subst; clear H.
  assert (Ha : active (cm_set_current_profile (Some n) s) = cm_get_profile n (s_env s) s) by reflexivity.
  split; [eapply K_same_profs; [| |exact Ks]; reflexivity|]. split; [auto|]. split.
  - intros p' H. left. rewrite Ha in H. cbn [picks]. rewrite H. left. reflexivity.
  - intros a _. unfold act_id. rewrite Ha. cbn [last_pick].
    destruct (cm_get_profile n (s_env s) s) as [p|] eqn:G; [|reflexivity].
    unfold cm_get_profile in G. apply find_key_in in G. destruct G as [Hin Hk].
    unfold pkey in Hk. injection Hk as _ Hu.
    rewrite surviving_unfold. cbn [s_env s_profs cm_set_current_profile].
    rewrite (survives_in p (s_env s) (s_profs s) Hin Hu). reflexivity.
Qed.

Lemma facts_select_any : forall s s' r,
  K s -> step_gen all_on s OSelectAny = (s', r) -> facts s OSelectAny r s'.
Proof.
  intros s s' r Ks H. cbn in H.
  destruct (cm_first_profile (s_env s) s) as [p|] eqn:F; inversion H; subst; clear H.
  - destruct (first_profile_in _ _ _ F) as [Hin Hu].
    assert (Ha : active (cm_set_current_profile (Some (p_name p)) s) = Some p).
    { rewrite active_unfold. cbn [s_cur s_env s_profs cm_set_current_profile].
      apply find_key_unique; [apply (K_keys s Ks)|exact Hin|]. unfold pkey. rewrite Hu. reflexivity. }
    split; [eapply K_same_profs; [| |exact Ks]; reflexivity|]. split; [auto|]. split.
    + intros p' H. left. rewrite Ha in H. injection H as <-. cbn [picks]. rewrite F. left. reflexivity.
    + intros a _. unfold act_id. rewrite Ha. cbn [last_pick option_map]. rewrite F.
      rewrite surviving_unfold. cbn [s_env s_profs cm_set_current_profile].
      rewrite (survives_in p (s_env s) (s_profs s) Hin Hu). reflexivity.
  - apply facts_noop; auto.
    + cbn [picks]. rewrite F. reflexivity.
    + intros old. cbn [last_pick]. rewrite F. reflexivity.
Qed.

Lemma facts_update : forall s n proj key keyid s' r,
  K s -> step_gen all_on s (OUpdate n proj key keyid) = (s', r) -> facts s (OUpdate n proj key keyid) r s'.
Proof.
  intros s n proj key keyid s' r Ks H. cbn in H.
  destruct (cm_get_profile n (s_env s) s) as [p|] eqn:G.
  - unfold cm_get_profile in G. apply find_key_in in G. destruct G as [Hin _].
    set (p' := mkP (p_id p) (p_name p) (p_url p) proj key keyid (p_uid p) (p_mail p)) in *.
    destruct (cm_update_profile p' s) as [s1|] eqn:U; inversion H; subst; clear H.
    + destruct (update_facts p' p s s' Ks Hin eq_refl eq_refl U) as [f [Hf [-> _]]].
      apply facts_preserved; auto.
    + apply facts_noop; auto.
  - inversion H; subst; clear H. apply facts_noop; auto.
Qed.

Lemma facts_set_project : forall s n proj s' r,
  K s -> step_gen all_on s (OSetProject n proj) = (s', r) -> facts s (OSetProject n proj) r s'.
Proof.
  intros s n proj s' r Ks H. cbn in H. inversion H; subst; clear H. unfold cm_set_project.
  apply facts_preserved; auto. apply set_project_preserving.
Qed.

Lemma facts_destroy : forall s s' r,
  K s -> step_gen all_on s ODestroy = (s', r) -> facts s ODestroy r s'.
Proof.
  intros s s' r Ks H. cbn in H. inversion H; subst; clear H. split; [|split].
  - split; cbn; constructor.
  - intros _. left. reflexivity.
  - apply concl_cur_none; [reflexivity|]. intros a. rewrite surviving_unfold.
    destruct (last_pick _ _ _ _); reflexivity.
Qed.

Lemma key_other_name : forall c n u x, c <> n -> has_key c u x = true -> has_key n u x = false.
Proof.
  intros c n u x Ne H. apply has_key_true in H. unfold pkey in H. injection H as Hn _.
  unfold has_key. assert (p_name x =? n = false) as -> by (apply Z.eqb_neq; congruence). reflexivity.
Qed.

Lemma facts_delete : forall s n s' r,
  K s -> step_gen all_on s (ODelete n) = (s', r) -> facts s (ODelete n) r s'.
Proof.
  intros s n s' r Ks H. cbn in H. unfold cm_delete_profile in H. cbn in H.
  set (g := fun p => negb (has_key n (s_env s) p)) in *.
  set (s1 := set_profs (filter g (s_profs s)) s) in *.
  assert (K1 : K s1) by (apply K_filter; exact Ks).
  assert (Ht : forall r0 s0, s_env s0 = s_env s -> tenure_ends true s (ODelete n) r0 s0 = false).
  { intros r0 s0 He. apply tenure_same_env; [exact He|exact I]. }
  destruct (s_cur s) as [c|] eqn:Cur.
  - destruct (c =? n) eqn:E; inversion H; subst; clear H.
    + (* the pointer named the deleted profile *)
      apply Z.eqb_eq in E. subst c.
      split; [eapply K_same_profs; [| |exact K1]; reflexivity|]. split; [auto|]. split.
      * intros p' Hp. rewrite active_cur_none in Hp by reflexivity. discriminate.
      * intros a Hpre. unfold act_id at 1. rewrite active_cur_none by reflexivity. cbn [option_map last_pick].
        rewrite Ht by reflexivity. rewrite surviving_unfold. destruct a as [i|]; [|reflexivity].
        cbn [s_env s_profs cm_set_current_profile s1 set_profs].
        destruct (survives i (s_env s) (filter g (s_profs s))) eqn:S; [|reflexivity]. exfalso.
        apply existsb_exists in S. destruct S as [x [Hx Fx]]. apply filter_In in Hx. destruct Hx as [Hx Gx].
        apply andb_true_iff in Fx. destruct Fx as [Fi Fu]. apply Z.eqb_eq in Fi. apply Z.eqb_eq in Fu.
        rewrite surviving_unfold in Hpre.
        rewrite <- Fi, (survives_in x (s_env s) (s_profs s) Hx Fu) in Hpre.
        unfold act_id in Hpre. destruct (active s) as [p|] eqn:A; [|discriminate].
        cbn in Hpre. injection Hpre as Hid.
        rewrite active_unfold, Cur in A. apply find_some in A. destruct A as [Hp Kp].
        assert (x = p) by (apply (NoDup_map_inj p_id (s_profs s) x p (K_ids s Ks) Hx Hp); congruence).
        subst x. unfold g in Gx. rewrite Kp in Gx. discriminate.
    + (* the pointer names another profile *)
      apply Z.eqb_neq in E.
      assert (Va : active s1 = active s).
      { rewrite !active_unfold. subst s1. cbn [s_cur s_env s_profs set_profs]. rewrite Cur.
        apply find_after_filter. intros x _ Hx. unfold g. rewrite (key_other_name c n _ x E Hx). reflexivity. }
      split; [exact K1|]. split; [auto|].
      apply concl_unchanged; [| |apply Ht; reflexivity|reflexivity|reflexivity].
      * unfold act_id. rewrite Va. reflexivity.
      * intros a Hpre. rewrite !surviving_unfold in *. destruct a as [i|]; [|reflexivity].
        cbn [s_env s_profs s1 set_profs].
        destruct (survives i (s_env s) (s_profs s)) eqn:S.
        -- unfold act_id in Hpre. destruct (active s) as [p|] eqn:A; [|discriminate].
           cbn in Hpre. injection Hpre as Hid.
           rewrite active_unfold, Cur in A. apply find_some in A. destruct A as [Hp Kp].
           assert (Hu : p_url p = s_env s).
           { apply has_key_true in Kp. unfold pkey in Kp. injection Kp as _ Hu. exact Hu. }
           assert (In p (filter g (s_profs s))).
           { apply filter_In. split; [exact Hp|]. unfold g. rewrite (key_other_name c n _ p E Kp). reflexivity. }
           rewrite <- Hid. rewrite (survives_in p (s_env s) _ H Hu). reflexivity.
        -- rewrite (survives_filter_false _ _ g _ S). reflexivity.
  - inversion H; subst; clear H. split; [exact K1|]. split; [auto|].
    apply concl_unchanged; [| |apply Ht; reflexivity|reflexivity|reflexivity].
    + unfold act_id. rewrite !active_cur_none by (exact Cur). reflexivity.
    + intros a Hpre. unfold act_id in Hpre. rewrite active_cur_none in Hpre by exact Cur. cbn in Hpre.
      symmetry in Hpre. rewrite Hpre. eapply surviving_filter_none; [exact Hpre|reflexivity|reflexivity].
Qed.

(* ---------- all CLI operations ---------- *)
Lemma step_facts : forall s o s' r,
  cli_op o = true -> K s -> step_gen all_on s o = (s', r) -> facts s o r s'.
Proof.
  intros s o s' r Hc Ks H. destruct o; try discriminate Hc.
  - eapply facts_env_add; eauto.
  - eapply facts_env_upsert; eauto.
  - eapply facts_env_switch; eauto.
  - eapply facts_env_delete; eauto.
  - eapply facts_create_tok; eauto.
  - eapply facts_oidc; eauto.
  - eapply facts_select; eauto.
  - eapply facts_select_any; eauto.
  - eapply facts_update; eauto.
  - eapply facts_set_project; eauto.
  - eapply facts_delete; eauto.
  - eapply facts_destroy; eauto.
Qed.

(* ---------- histories ---------- *)
Lemma tenure_mono : forall strict s o r s',
  tenure_ends true s o r s' = false -> tenure_ends strict s o r s' = false.
Proof.
  intros strict s o r s' H. unfold tenure_ends in *. apply orb_false_iff in H. destruct H as [H1 H2].
  rewrite H1. destruct strict; [exact H2|reflexivity].
Qed.

Definition GInv (sg : st * list Z) : Prop := K (fst sg) /\ c37_ok sg.

Lemma GInv_init : GInv (init, []).
Proof.
  split; [exact K_init|]. split; cbn.
  - left. reflexivity.
  - intros p H. discriminate.
Qed.

Lemma gstep_inv : forall strict sg o,
  cli_op o = true -> GInv sg -> GInv (gstep_gen all_on strict sg o).
Proof.
  intros strict [s g] o Hc [Ks [He Ha]]. cbn [fst snd] in *. unfold gstep_gen.
  destruct (step_gen all_on s o) as [s' r] eqn:H.
  destruct (step_facts s o s' r Hc Ks H) as [K' [He' [C3 _]]].
  split; [exact K'|]. split; cbn [fst snd]; [auto|].
  intros p Hp. split; [apply (active_in s' p Hp)|].
  destruct (C3 p Hp) as [Hin|[Ht Hact]].
  - apply in_or_app. left. exact Hin.
  - rewrite (tenure_mono strict _ _ _ _ Ht). apply in_or_app. right.
    unfold act_id in Hact. destruct (active s) as [q|] eqn:A; [|discriminate].
    cbn in Hact. injection Hact as <-. apply (Ha q A).
Qed.

Lemma grun_inv : forall strict ops sg,
  forallb cli_op ops = true -> GInv sg -> GInv (grun_gen all_on strict sg ops).
Proof.
  intros strict ops. induction ops as [|o ops IH]; intros sg Hc Hi; cbn [grun_gen]; [exact Hi|].
  cbn in Hc. apply andb_true_iff in Hc. destruct Hc as [Ho Hc].
  apply IH; [exact Hc|]. apply gstep_inv; assumption.
Qed.

(* C37, both readings of "while that environment was current" (strict = true: a new tenure
   starts at every successful add/switch; strict = false: only when the environment changes) *)
Theorem c37_holds : forall strict ops,
  forallb cli_op ops = true -> c37_ok (grun strict (init, []) ops).
Proof.
  intros strict ops Hc. unfold grun. rewrite flags_now_all_on.
  apply (grun_inv strict ops (init, []) Hc GInv_init).
Qed.

Theorem c37_env_known : forall ops, forallb cli_op ops = true -> env_known (run init ops).
Proof.
  intros ops Hc. pose proof (c37_holds false ops Hc) as [H _].
  assert (E : forall f strict ops sg, fst (grun_gen f strict sg ops) = run_gen f (fst sg) ops).
  { clear. intros f strict ops. induction ops as [|o ops IH]; intros [s g]; cbn [grun_gen run_gen fst]; [reflexivity|].
    rewrite IH. unfold gstep_gen. destruct (step_gen f s o); reflexivity. }
  unfold grun in H. rewrite E in H. exact H.
Qed.

(* ---------- refinement: the active profile IS the user's last pick of this tenure ---------- *)
Definition AInv (sa : st * option Z) : Prop := K (fst sa) /\ act_id (fst sa) = surviving (fst sa) (snd sa).

Lemma arun_inv : forall ops sa, forallb cli_op ops = true -> AInv sa -> AInv (arun sa ops).
Proof.
  induction ops as [|o ops IH]; intros [s a] Hc Hi; cbn [arun]; [exact Hi|].
  cbn in Hc. apply andb_true_iff in Hc. destruct Hc as [Ho Hc]. apply IH; [exact Hc|].
  destruct Hi as [Ks Ha]. cbn [fst snd] in *. unfold astep, step. rewrite flags_now_all_on.
  destruct (step_gen all_on s o) as [s' r] eqn:H.
  destruct (step_facts s o s' r Ho Ks H) as [K' [_ [_ C4]]]. split; cbn [fst snd]; [exact K'|].
  apply C4. exact Ha.
Qed.

Theorem c37_refinement : forall ops,
  forallb cli_op ops = true ->
  let sa := arun (init, None) ops in
  option_map p_id (active (fst sa)) = surviving (fst sa) (snd sa).
Proof.
  intros ops Hc. apply (arun_inv ops (init, None) Hc). split; [exact K_init|reflexivity].
Qed.

(* ---------- boolean monitor is complete for the Prop statement ---------- *)
Lemma c37_ok_b_complete : forall sg, c37_ok sg -> c37_ok_b sg = true.
Proof.
  intros [s g] [He Ha]. cbn [fst snd] in *. unfold c37_ok_b. cbn [fst snd]. apply andb_true_iff. split.
  - unfold env_known_b. destruct He as [H0|Hin].
    + rewrite H0. reflexivity.
    + apply orb_true_iff. right. apply env_mem_in. exact Hin.
  - unfold active_picked_b. destruct (active s) as [p|] eqn:A; [|reflexivity].
    destruct (Ha p A) as [Hu Hin]. rewrite Hu, Z.eqb_refl. cbn.
    apply existsb_exists. exists (p_id p). split; [exact Hin|apply Z.eqb_refl].
Qed.

(* ---------- each of the three clearing statements is needed ---------- *)
Definition witness_delete : list op := [OCreateTok 2 0 1; OEnvAdd 1 false; OCreateTok 2 0 1; OEnvDelete 1].
Definition witness_switch : list op := [OCreateTok 2 0 1; OEnvAdd 1 false; OCreateTok 2 0 1; OEnvSwitch 0].
Definition witness_add : list op := [OEnvAdd 1 false; OCreateTok 2 0 1; OEnvSwitch 0; OCreateTok 2 0 1; OEnvAdd 1 true].

Lemma refuted_with : forall f ops,
  c37_ok_b (grun_gen f false (init, []) ops) = false -> ~ c37_ok (grun_gen f false (init, []) ops).
Proof. intros f ops H C. apply c37_ok_b_complete in C. congruence. Qed.

Theorem c37_without_delete_clear_refuted :
  exists ops, forallb cli_op ops = true /\ ~ c37_ok (grun_gen (mkF true true false) false (init, []) ops).
Proof. exists witness_delete. split; [reflexivity|]. apply refuted_with. vm_compute. reflexivity. Qed.

Theorem c37_without_switch_clear_refuted :
  exists ops, forallb cli_op ops = true /\ ~ c37_ok (grun_gen (mkF false true true) false (init, []) ops).
Proof. exists witness_switch. split; [reflexivity|]. apply refuted_with. vm_compute. reflexivity. Qed.

Theorem c37_without_add_clear_refuted :
  exists ops, forallb cli_op ops = true /\ ~ c37_ok (grun_gen (mkF true false true) false (init, []) ops).
Proof. exists witness_add. split; [reflexivity|]. apply refuted_with. vm_compute. reflexivity. Qed.

(* renaming a profile through update_profile (not a CLI operation) is outside the theorem, and
   has to be: it can make a never-picked profile active *)
Theorem c37_raw_rename_outside : exists ops, ~ c37_ok (grun false (init, []) ops).
Proof.
  exists [OCreateTok 2 0 1; OEnvAdd 1 false; OSelect 0; OUpdateRaw 1 0 1].
  unfold grun. rewrite flags_now_all_on. apply refuted_with. vm_compute. reflexivity.
Qed.

(* switching to an unknown environment is rejected and changes nothing *)
Lemma switch_unknown_rejected : forall s u, env_mem u s = false -> step s (OEnvSwitch u) = (s, RValueError).
Proof. intros s u H. unfold step. cbn. rewrite H. reflexivity. Qed.
