(* Proofs about Model/Journal.v (C27). *)
From Coq Require Import List ZArith Bool PeanoNat Lia.
Import ListNotations.
From WF Require Import Model.Journal.
Open Scope Z_scope.

(* ================= generic list facts ================= *)
Lemma filter_id {A} (f : A -> bool) l : (forall x, In x l -> f x = true) -> filter f l = l.
Proof.
  induction l as [|a l IH]; intro H; cbn; [reflexivity|].
  rewrite (H a (or_introl eq_refl)). f_equal. apply IH. intros x Hx. apply H. now right.
Qed.

Lemma NoDup_app_iff' {A} (l1 l2 : list A) :
  NoDup l1 -> NoDup l2 -> (forall x, In x l1 -> In x l2 -> False) -> NoDup (l1 ++ l2).
Proof.
  induction l1 as [|a l1 IH]; intros H1 H2 H; cbn; [assumption|].
  inversion H1 as [|? ? Hn H1']; subst. constructor.
  - intro Hin. apply in_app_or in Hin. destruct Hin as [Hin|Hin]; [now apply Hn|].
    apply (H a); [now left|assumption].
  - apply IH; try assumption. intros x Hx Hy. apply (H x); [now right|assumption].
Qed.

Lemma firstn_S_nth {A} (l : list A) i x : nth_error l i = Some x -> firstn (S i) l = firstn i l ++ [x].
Proof.
  revert i. induction l as [|a l IH]; intros [|i] H; cbn in *; try discriminate.
  - now inversion H.
  - f_equal. now apply IH.
Qed.

Lemma nth_error_split_firstn {A} (l : list A) i x :
  nth_error l i = Some x -> l = firstn i l ++ x :: skipn (S i) l.
Proof.
  revert i. induction l as [|a l IH]; intros [|i] H; cbn in *; try discriminate.
  - now inversion H.
  - f_equal. now apply IH.
Qed.

Lemma keys_of_app a b : keys_of (a ++ b) = keys_of a ++ keys_of b.
Proof. unfold keys_of. now rewrite flat_map_app. Qed.

Lemma keys_of_map_some l : keys_of (map Some l) = l.
Proof. induction l; cbn; [reflexivity|]. now f_equal. Qed.

Lemma notmo_app a b : notmo (a ++ b) = notmo a && notmo b.
Proof. unfold notmo. now rewrite forallb_app. Qed.

Lemma notmo_map_keys h : notmo h = true -> h = map Some (keys_of h).
Proof.
  induction h as [|[k|] h IH]; cbn; intro H; try discriminate; [reflexivity|].
  f_equal. now apply IH.
Qed.

Lemma notmo_firstn_prefix n a b : notmo (firstn n (a ++ b)) = true -> notmo (firstn n a) = true.
Proof. rewrite firstn_app, notmo_app. intro H. now apply andb_prop in H. Qed.

(* ================= JournalCrud ================= *)
Fixpoint enum_rows (run n : Z) (E : list Z) : list jrow :=
  match E with
  | [] => []
  | k :: r => {| jr_run := run ; jr_seq := n ; jr_key := k |} :: enum_rows run (n + 1) r
  end.

(* the single-writer shape of the journal table: the rows of `run`, in rowid order, are (0,E0),(1,E1),... *)
Definition rows_enum (run : Z) (d : db) (E : list Z) : Prop := run_rows run d = enum_rows run 0 E.

Lemma sort_enum run n E : sort_rows (enum_rows run n E) = enum_rows run n E.
Proof.
  revert n. induction E as [|k E IH]; intro n; cbn; [reflexivity|].
  unfold sort_rows in IH. rewrite IH.
  destruct E as [|k' E]; cbn; [reflexivity|].
  destruct (n <=? n + 1) eqn:H; [reflexivity|lia].
Qed.

Lemma map_key_enum run n E : map jr_key (enum_rows run n E) = E.
Proof. revert n. induction E as [|k E IH]; intro n; cbn; [reflexivity|]. now rewrite IH. Qed.

Lemma load_enum run d E : rows_enum run d E -> crud_load run d = E.
Proof. unfold rows_enum, crud_load. intros ->. now rewrite sort_enum, map_key_enum. Qed.

Lemma enum_rows_app run n E k :
  enum_rows run n (E ++ [k]) = enum_rows run n E ++ [ {| jr_run := run ; jr_seq := n + Z.of_nat (length E) ; jr_key := k |} ].
Proof.
  revert n. induction E as [|x E IH]; intro n; cbn [enum_rows app length].
  - now rewrite Z.add_0_r.
  - rewrite IH. cbn [app]. rewrite Nat2Z.inj_succ.
    replace (n + 1 + Z.of_nat (length E)) with (n + Z.succ (Z.of_nat (length E))) by lia. reflexivity.
Qed.

Lemma insert_enum run d E k :
  rows_enum run d E -> rows_enum run (crud_insert run (Z.of_nat (length E)) k d) (E ++ [k]).
Proof.
  unfold rows_enum, run_rows, crud_insert. cbn. intro H.
  rewrite filter_app, H, enum_rows_app. cbn. now rewrite Z.eqb_refl.
Qed.

Lemma insert_other run run' s k d : run' <> run -> run_rows run' (crud_insert run s k d) = run_rows run' d.
Proof.
  intro H. unfold run_rows, crud_insert. cbn. rewrite filter_app. cbn.
  destruct (run =? run') eqn:E; [lia|]. now rewrite app_nil_r.
Qed.

Lemma enum_rows_bound run n E r :
  In r (enum_rows run n E) -> jr_run r = run /\ n <= jr_seq r < n + Z.of_nat (length E).
Proof.
  revert n. induction E as [|k E IH]; intros n H; cbn in H; [contradiction|].
  destruct H as [<-|H]; cbn [jr_run jr_seq length]; [lia|].
  apply IH in H. cbn [length]. lia.
Qed.

(* on a single-writer table purge_stale's truncate deletes nothing *)
Lemma truncate_enum_id run d E : rows_enum run d E -> d_j (crud_truncate_from run (Z.of_nat (length E)) d) = d_j d.
Proof.
  unfold rows_enum, run_rows. intro H. cbn. apply filter_id. intros r Hr.
  destruct (jr_run r =? run) eqn:Er; cbn; [|reflexivity].
  assert (Hin : In r (enum_rows run 0 E)) by (rewrite <- H; apply filter_In; split; assumption).
  apply enum_rows_bound in Hin. destruct (Z.of_nat (length E) <=? jr_seq r) eqn:L; [lia|reflexivity].
Qed.

(* what the two DELETE statements do on ANY table content *)
Lemma truncate_spec run n d r :
  In r (d_j (crud_truncate_from run n d)) <-> In r (d_j d) /\ ~ (jr_run r = run /\ n <= jr_seq r).
Proof.
  cbn. rewrite filter_In. split; intros [H1 H2]; split; try assumption.
  - intros [Ha Hb]. rewrite Ha, Z.eqb_refl in H2. cbn in H2. destruct (n <=? jr_seq r) eqn:L; [discriminate|lia].
  - destruct (jr_run r =? run) eqn:Er; cbn; [|reflexivity].
    destruct (n <=? jr_seq r) eqn:L; [|reflexivity]. exfalso. apply H2. lia.
Qed.

Lemma purge_ops_spec run fid d o :
  In o (d_o (crud_purge_ops run fid d)) <-> In o (d_o d) /\ ~ (or_run o = run /\ fid < or_fid o).
Proof.
  cbn. rewrite filter_In. split; intros [H1 H2]; split; try assumption.
  - intros [Ha Hb]. rewrite Ha, Z.eqb_refl in H2. cbn in H2. destruct (fid <? or_fid o) eqn:L; [discriminate|lia].
  - destruct (or_run o =? run) eqn:Er; cbn; [|reflexivity].
    destruct (fid <? or_fid o) eqn:L; [|reflexivity]. exfalso. apply H2. lia.
Qed.

Lemma run_rows_dj run d d' : d_j d' = d_j d -> run_rows run d' = run_rows run d.
Proof. unfold run_rows. now intros ->. Qed.

(* ================= task-instance lists ================= *)
Lemma find_by_key_some l k t : find_by_key l k = Some t -> In t l /\ fst t = k.
Proof.
  induction l as [|i l IH]; cbn; [discriminate|].
  destruct (fst i =? k) eqn:E; intro H.
  - inversion H; subst. split; [now left|lia].
  - destruct (IH H). split; [now right|assumption].
Qed.

Lemma find_by_key_refind l k t : find_by_key l k = Some t -> find_by_key l (fst t) = Some t.
Proof. intro H. destruct (find_by_key_some _ _ _ H) as [_ <-]. exact H. Qed.

Lemma find_by_key_self l t : NoDup (map fst l) -> In t l -> find_by_key l (fst t) = Some t.
Proof.
  induction l as [|i l IH]; cbn; intros Hn Hi; [contradiction|].
  inversion Hn as [|? ? Hnot Hn']; subst.
  destruct Hi as [->|Hi]; [now rewrite Z.eqb_refl|].
  destruct (fst i =? fst t) eqn:E; [|now apply IH].
  exfalso. apply Hnot. apply Z.eqb_eq in E. rewrite E. now apply in_map.
Qed.

Lemma find_by_key_in l k : (exists t, In t l /\ fst t = k) -> find_by_key l k <> None.
Proof.
  induction l as [|i l IH]; intros [t [Hi Hk]]; cbn; [contradiction|].
  destruct (fst i =? k) eqn:E; [discriminate|].
  destruct Hi as [->|Hi]; [lia|]. apply IH. now exists t.
Qed.

Lemma find_by_uid_some l u i : find_by_uid l u = Some i -> In i l /\ snd i = u.
Proof.
  induction l as [|x l IH]; cbn; [discriminate|].
  destruct (snd x =? u) eqn:E; intro H.
  - inversion H; subst. split; [now left|lia].
  - destruct (IH H). split; [now right|assumption].
Qed.

Lemma islive_find l u : existsb (fun i : inst => snd i =? u) l = true -> exists i, find_by_uid l u = Some i.
Proof.
  induction l as [|x l IH]; cbn; [discriminate|].
  destruct (snd x =? u); [intros _; now exists x|]. cbn. exact IH.
Qed.

Lemma In_remove_uid u l (i : inst) : In i (remove_uid u l) <-> In i l /\ snd i <> u.
Proof.
  unfold remove_uid. rewrite filter_In. split; intros [H1 H2]; split; try assumption.
  - destruct (snd i =? u) eqn:E; [discriminate|lia].
  - destruct (snd i =? u) eqn:E; [lia|reflexivity].
Qed.

Lemma NoDup_map_filter {A B} (f : A -> B) p l : NoDup (map f l) -> NoDup (map f (filter p l)).
Proof.
  induction l as [|a l IH]; cbn; intro H; [constructor|].
  inversion H as [|? ? Hn H']; subst.
  destruct (p a); cbn; [constructor|]; [|now apply IH|now apply IH].
  intro Hin. apply Hn. apply in_map_iff in Hin. destruct Hin as [x [Hx Hi]].
  apply filter_In in Hi. apply in_map_iff. exists x. now split.
Qed.

Lemma spawn_bound n ks i : In i (spawn n ks) -> n <= snd i < n + Z.of_nat (length ks).
Proof.
  revert n. induction ks as [|k ks IH]; intros n H; cbn in H; [contradiction|].
  cbn [length]. rewrite Nat2Z.inj_succ. destruct H as [<-|H]; cbn; [lia|]. apply IH in H. lia.
Qed.

Lemma spawn_NoDup n ks : NoDup (map snd (spawn n ks)).
Proof.
  revert n. induction ks as [|k ks IH]; intro n; cbn; constructor; [|apply IH].
  intro H. apply in_map_iff in H. destruct H as [i [Hs Hi]]. apply spawn_bound in Hi. cbn in Hs. lia.
Qed.

(* ================= prologue / resolve on a single-writer table ================= *)
Definition mode_of (live : list inst) (exp : option Z) : mode :=
  match live with
  | [] => MEmpty
  | _ => match exp with
         | Some k => match find_by_key live k with Some t => MReplay t | None => MFresh true end
         | None => MFresh false
         end
  end.

Lemma prologue_wf run fid live d a E :
  j_crud (a_j a) = true -> rows_enum run d E ->
  (j_entries (a_j a) = None \/ j_entries (a_j a) = Some E) ->
  forall d1 a1 m, prologue run fid live d a = (d1, a1, m) ->
    d_j d1 = d_j d /\ j_entries (a_j a1) = Some E /\ j_idx (a_j a1) = j_idx (a_j a) /\ j_crud (a_j a1) = true
    /\ m = mode_of live (nth_error E (j_idx (a_j a)))
    /\ a_purged a1 = match nth_error E (j_idx (a_j a)) with None => true | Some _ => a_purged a end
    /\ d_o d1 = match nth_error E (j_idx (a_j a)) with
                | None => if a_purged a then d_o d
                          else match E with [] => d_o d | _ => d_o (crud_purge_ops run fid d) end
                | Some _ => d_o d
                end.
Proof.
  intros Hc Hr He d1 a1 m H. unfold prologue in H.
  assert (Hj : j_load run d (a_j a) = {| j_crud := true ; j_entries := Some E ; j_idx := j_idx (a_j a) |}).
  { unfold j_load. destruct He as [He|He]; rewrite He.
    - rewrite Hc, (load_enum _ _ _ Hr). reflexivity.
    - destruct (a_j a) as [c e i]; cbn in *; subst; reflexivity. }
  rewrite Hj in H. unfold j_next_expected in H. cbn [j_entries j_idx] in H.
  inversion H; subst; clear H. cbn [a_j a_purged j_entries j_idx j_crud].
  repeat split.
  - destruct (nth_error E (j_idx (a_j a))); [reflexivity|].
    destruct (a_purged a); [reflexivity|].
    unfold j_purge_stale, j_has_entries. cbn [j_entries j_crud].
    destruct E as [|k E']; [reflexivity|]. cbn [andb].
    apply (truncate_enum_id run (crud_purge_ops run fid d) (k :: E')). exact Hr.
  - destruct (nth_error E (j_idx (a_j a))); [reflexivity|].
    destruct (a_purged a); [reflexivity|].
    unfold j_purge_stale, j_has_entries. cbn [j_entries j_crud].
    destruct E as [|k E']; reflexivity.
Qed.

Lemma resolve_cases run live m pick d a :
  resolve run live m pick d a = (d, a, None)
  \/ (exists t, m = MReplay t /\ pick <> None
        /\ resolve run live m pick d a = (d, {| a_j := j_advance (a_j a) ; a_purged := a_purged a |}, Some t))
  \/ (exists fb u i, m = MFresh fb /\ pick = Some u /\ find_by_uid live u = Some i
        /\ resolve run live m pick d a =
           (fst (j_record run (fst i) d (a_j a)),
            {| a_j := snd (j_record run (fst i) d (a_j a)) ; a_purged := a_purged a |}, Some i)).
Proof.
  destruct m as [|t|fb], pick as [u|]; cbn; try (now left).
  - right. left. exists t. repeat split. discriminate.
  - destruct (find_by_uid live u) as [i|] eqn:F; [|now left].
    right. right. exists fb, u, i. repeat split; try assumption.
Qed.

(* ================= the loop: which steps exist ================= *)
Definition enabled (st : lstate) (pick : option Z) : Prop :=
  match l_mode st, pick with
  | _, None => True
  | MEmpty, Some _ => False
  | MReplay t, Some u => u = snd t
  | MFresh _, Some u => islive st u = true
  end.

Lemma step_cases run prog st e :
  step run prog st e = st
  \/ (exists dn, step run prog st e = with_done st dn)
  \/ (exists pick, enabled st pick /\ step run prog st e = finish run prog st pick).
Proof.
  destruct e as [u| |p]; cbn.
  - destruct (islive st u && negb (isdone st u)); [right; left; eexists; reflexivity|now left].
  - destruct (l_mode st) as [|t|fb] eqn:M.
    + right. right. exists None. split; [unfold enabled; now rewrite M|reflexivity].
    + destruct (l_tmo st && negb (isdone st (snd t))); [|now left].
      right. right. exists None. split; [unfold enabled; now rewrite M|reflexivity].
    + destruct (l_tmo st && negb (existsb (fun i => isdone st (snd i)) (l_live st))); [|now left].
      right. right. exists None. split; [unfold enabled; now rewrite M|reflexivity].
  - destruct (l_mode st) as [|t|fb] eqn:M.
    + right. right. exists None. split; [unfold enabled; now rewrite M|reflexivity].
    + destruct (isdone st (snd t)); [|now left].
      right. right. exists (Some (snd t)). split; [unfold enabled; now rewrite M|reflexivity].
    + destruct (isdone st p && islive st p) eqn:C; [|now left].
      right. right. exists (Some p). split; [|reflexivity].
      unfold enabled. rewrite M. now apply andb_prop in C.
Qed.

(* ================= invariants of a process lifetime ================= *)
Section Inv.
  Variable run : Z.
  Variable prog : list (option Z) -> pinfo.
  Variable d0 : db.          (* the database the process starts from *)

  Notation enter := (enter run prog).
  Notation finish := (finish run prog).
  Notation step := (step run prog).
  Notation exec := (exec run prog).

  (* ---- journal / database coherence (unconditional) ---- *)
  Definition InvJ (E : list Z) (st : lstate) : Prop :=
    j_crud (a_j (l_ad st)) = true
    /\ j_entries (a_j (l_ad st)) = Some E
    /\ rows_enum run (l_db st) E
    /\ (j_idx (a_j (l_ad st)) <= length E)%nat
    /\ j_idx (a_j (l_ad st)) = length (keys_of (l_hist st))
    /\ (forall r', r' <> run -> run_rows r' (l_db st) = run_rows r' d0)
    /\ l_mode st = mode_of (l_live st) (nth_error E (j_idx (a_j (l_ad st)))).

  Lemma enter_InvJ d a live done hist handed next fb E :
    j_crud (a_j a) = true -> rows_enum run d E ->
    (j_entries (a_j a) = None \/ j_entries (a_j a) = Some E) ->
    (j_idx (a_j a) <= length E)%nat ->
    j_idx (a_j a) = length (keys_of hist) ->
    (forall r', r' <> run -> run_rows r' d = run_rows r' d0) ->
    InvJ E (enter d a live done hist handed next fb).
  Proof.
    intros Hc Hr He Hi Hk Ho. unfold Journal.enter. cbv zeta.
    destruct (prologue run (p_fid (prog hist)) (live ++ spawn next (p_pending (prog hist))) d a)
      as [[d1 a1] m] eqn:P.
    destruct (prologue_wf _ _ _ _ _ _ Hc Hr He _ _ _ P) as (Hd & He1 & Hi1 & Hc1 & Hm & _).
    unfold InvJ. cbn [l_ad l_db l_hist l_mode l_live].
    repeat split; try assumption.
    - unfold rows_enum. rewrite (run_rows_dj _ _ _ Hd). exact Hr.
    - now rewrite Hi1.
    - now rewrite Hi1.
    - intros r' Hr'. rewrite (run_rows_dj _ _ _ Hd). now apply Ho.
    - now rewrite Hi1.
  Qed.

  Lemma finish_InvJ E st pick :
    InvJ E st -> enabled st pick ->
    exists E', (E' = E \/ exists k, E' = E ++ [k]) /\ InvJ E' (finish st pick).
  Proof.
    intros (Hc & He & Hr & Hi & Hk & Ho & Hm) Hen. unfold Journal.finish.
    destruct (resolve_cases run (l_live st) (l_mode st) pick (l_db st) (l_ad st))
      as [R|[(t & Mt & _ & R)|(fb & u & i & Mf & Pu & Fu & R)]]; rewrite R.
    - exists E. split; [now left|].
      apply enter_InvJ; try assumption; [now right|].
      cbn. rewrite keys_of_app. cbn. now rewrite app_nil_r.
    - exists E. split; [now left|].
      rewrite Mt in Hm. unfold mode_of in Hm.
      assert (Hlt : (j_idx (a_j (l_ad st)) < length E)%nat).
      { apply nth_error_Some. destruct (l_live st); [discriminate|].
        destruct (nth_error E (j_idx (a_j (l_ad st)))); [discriminate|]. discriminate. }
      apply enter_InvJ; cbn [a_j j_advance j_crud j_entries j_idx option_map]; try assumption; [now right|].
      rewrite keys_of_app, app_length. cbn. lia.
    - exists (E ++ [fst i]). split; [right; now exists (fst i)|].
      unfold j_record. rewrite He, Hc. cbn [fst snd].
      apply enter_InvJ; cbn [a_j j_crud j_entries j_idx option_map]; try assumption; try reflexivity.
      + now apply insert_enum.
      + now right.
      + rewrite app_length. cbn. lia.
      + rewrite keys_of_app, app_length. cbn. lia.
      + intros r' Hr'. rewrite insert_other by assumption. now apply Ho.
  Qed.

  (* ---- task instances (unconditional) ---- *)
  Definition InvT (st : lstate) : Prop :=
    NoDup (map snd (l_live st))
    /\ (forall i, In i (l_live st) -> snd i < l_next st)
    /\ NoDup (map snd (l_handed st))
    /\ (forall i, In i (l_handed st) -> snd i < l_next st)
    /\ (forall i, In i (l_handed st) -> ~ In (snd i) (map snd (l_live st)))
    /\ map fst (l_handed st) = keys_of (l_hist st).

  Lemma enter_InvT d a (live : list inst) done hist (handed : list inst) next fb :
    NoDup (map snd live) -> (forall i, In i live -> snd i < next) ->
    NoDup (map snd handed) -> (forall i, In i handed -> snd i < next) ->
    (forall i, In i handed -> ~ In (snd i) (map snd live)) ->
    map fst handed = keys_of hist ->
    InvT (enter d a live done hist handed next fb).
  Proof.
    intros H1 H2 H3 H4 H5 H6. unfold Journal.enter. cbv zeta.
    destruct (prologue run (p_fid (prog hist)) (live ++ spawn next (p_pending (prog hist))) d a) as [[d1 a1] m].
    unfold InvT. cbn [l_live l_next l_handed l_hist].
    set (ks := p_pending (prog hist)).
    repeat split; try assumption.
    - rewrite map_app. apply NoDup_app_iff'.
      + exact H1.
      + apply spawn_NoDup.
      + intros x Hx Hy. apply in_map_iff in Hx. destruct Hx as [i [<- Hi]].
        apply in_map_iff in Hy. destruct Hy as [j [Hj Hjs]]. apply spawn_bound in Hjs. apply H2 in Hi. lia.
    - intros i Hi. apply in_app_or in Hi. destruct Hi as [Hi|Hi].
      + apply H2 in Hi. lia.
      + apply spawn_bound in Hi. lia.
    - intros i Hi. apply H4 in Hi. lia.
    - intros i Hi Hl. rewrite map_app in Hl. apply in_app_or in Hl. destruct Hl as [Hl|Hl].
      + now apply (H5 i Hi).
      + apply in_map_iff in Hl. destruct Hl as [j [Hj Hjs]]. apply spawn_bound in Hjs. apply H4 in Hi. lia.
  Qed.

  Lemma mode_replay_in live exp t :
    mode_of live exp = MReplay t -> In t live /\ exp = Some (fst t) /\ find_by_key live (fst t) = Some t.
  Proof.
    unfold mode_of. destruct live as [|x l]; [discriminate|].
    destruct exp as [k|]; [|discriminate].
    destruct (find_by_key (x :: l) k) as [t'|] eqn:F; [|discriminate].
    intro H. inversion H; subst. destruct (find_by_key_some _ _ _ F) as [Hi Hk].
    split; [assumption|]. split; [now rewrite Hk|]. now apply find_by_key_refind with (k := k).
  Qed.

  Lemma finish_InvT E st pick : InvJ E st -> InvT st -> enabled st pick -> InvT (finish st pick).
  Proof.
    intros (_ & _ & _ & _ & _ & _ & Hm) (H1 & H2 & H3 & H4 & H5 & H6) Hen. unfold Journal.finish.
    assert (Hand : forall t, In t (l_live st) ->
              InvT (enter (l_db st) (l_ad st) (l_live st) (l_done st) (l_hist st) (l_handed st) (l_next st) (l_fb st)) ->
              forall d a, InvT (enter d a (remove_uid (snd t) (l_live st)) (l_done st)
                                (l_hist st ++ [Some (fst t)]) (l_handed st ++ [t]) (l_next st) (l_fb st))).
    { intros t Ht _ d a. apply enter_InvT.
      - unfold remove_uid. now apply NoDup_map_filter.
      - intros i Hi. apply In_remove_uid in Hi. now apply H2.
      - rewrite map_app. apply NoDup_app_iff'; [assumption|repeat constructor; intros []|].
        intros x Hx [<-|[]]. apply in_map_iff in Hx. destruct Hx as [i [Hs Hi]].
        apply (H5 i Hi). rewrite Hs. now apply in_map.
      - intros i Hi. apply in_app_or in Hi. destruct Hi as [Hi|[<-|[]]]; [now apply H4|now apply H2].
      - intros i Hi Hl. apply in_map_iff in Hl. destruct Hl as [j [Hs Hj]]. apply In_remove_uid in Hj.
        destruct Hj as [Hj Hne]. apply in_app_or in Hi. destruct Hi as [Hi|[<-|[]]].
        + apply (H5 i Hi). rewrite <- Hs. now apply in_map.
        + now apply Hne.
      - rewrite map_app, keys_of_app. cbn. f_equal. exact H6. }
    destruct (resolve_cases run (l_live st) (l_mode st) pick (l_db st) (l_ad st))
      as [R|[(t & Mt & _ & R)|(fb & u & i & Mf & Pu & Fu & R)]]; rewrite R.
    - cbn [option_map]. rewrite app_nil_r. apply enter_InvT; try assumption.
      rewrite keys_of_app. cbn. now rewrite app_nil_r.
    - rewrite Mt in Hm. symmetry in Hm. apply mode_replay_in in Hm. destruct Hm as [Ht _].
      cbn [option_map]. apply Hand; [assumption|]. now apply enter_InvT.
    - apply find_by_uid_some in Fu. destruct Fu as [Hi _].
      cbn [option_map]. apply Hand; [assumption|]. now apply enter_InvT.
  Qed.

  (* ---- a process lifetime from a single-writer table ---- *)
  Variable J : list Z.
  Hypothesis d0_wf : rows_enum run d0 J.

  Definition InvU (st : lstate) : Prop := (exists F, InvJ (J ++ F) st) /\ InvT st.

  Lemma init_InvU : InvU (init run prog d0).
  Proof.
    unfold init. split.
    - exists []. rewrite app_nil_r. apply enter_InvJ; cbn; try reflexivity; try assumption; [now left|lia].
    - apply enter_InvT; cbn; try constructor; intros i [].
  Qed.

  Lemma step_InvU st e : InvU st -> InvU (step st e).
  Proof.
    intros [[F HJ] HT].
    destruct (step_cases run prog st e) as [->|[[dn ->]|[pick [Hen ->]]]].
    - split; [now exists F|assumption].
    - split; [now exists F|assumption].
    - destruct (finish_InvJ _ _ _ HJ Hen) as [E' [[->|[k ->]] HJ']].
      + split; [now exists F|]. now apply (finish_InvT _ _ _ HJ).
      + split; [exists (F ++ [k]); now rewrite app_assoc|]. now apply (finish_InvT _ _ _ HJ).
  Qed.

  Lemma exec_from_InvU s st : InvU st -> InvU (exec_from run prog st s).
  Proof.
    revert st. induction s as [|e s IH]; intros st H; cbn; [assumption|]. apply IH. now apply step_InvU.
  Qed.

  (* Unconditional clauses (any timers, any completion order, any crash point = any schedule):
     the journal after the recovered process is the recorded one plus appended keys, rows stay 0..n-1 in order,
     the in-memory journal equals the table, rows of other runs are untouched, no task instance is handed twice. *)
  Theorem recovered_journal_extends : forall s,
    let st := exec d0 s in
    exists F, crud_load run (l_db st) = J ++ F
      /\ rows_enum run (l_db st) (J ++ F)
      /\ j_entries (a_j (l_ad st)) = Some (J ++ F)
      /\ (j_idx (a_j (l_ad st)) <= length (J ++ F))%nat
      /\ (forall r', r' <> run -> run_rows r' (l_db st) = run_rows r' d0)
      /\ NoDup (map snd (l_handed st))
      /\ map fst (l_handed st) = keys_of (l_hist st).
  Proof.
    intros s st. destruct (exec_from_InvU s _ init_InvU) as [[F HJ] HT]. fold (exec d0 s) in HJ, HT. fold st in HJ, HT.
    destruct HJ as (Hc & He & Hr & Hi & Hk & Ho & Hm). destruct HT as (H1 & H2 & H3 & H4 & H5 & H6).
    exists F. repeat split; try assumption. now apply load_enum.
  Qed.
End Inv.

(* ================= replay ================= *)
Section Replay.
  Variable run : Z.
  Variable prog : list (option Z) -> pinfo.
  Variable d0 : db.
  Variable J : list Z.

  Notation enter := (enter run prog).
  Notation finish := (finish run prog).
  Notation step := (step run prog).
  Notation exec := (exec run prog).
  Notation sim := (sim prog).
  Notation n := (length J).

  (* the recorded order can be replayed by the loop: every recorded key is a live task when its turn comes *)
  Definition replayable (K : list Z) : Prop := sim (map Some K) <> None.

  Lemma sim_from_None rs : fold_left (sim_step prog) rs None = None.
  Proof. induction rs; cbn; auto. Qed.

  Lemma sim_snoc h r : sim (h ++ [r]) = sim_step prog (sim h) r.
  Proof. unfold Journal.sim. now rewrite fold_left_app. Qed.

  Lemma sim_prefix a b : sim (a ++ b) <> None -> sim a <> None.
  Proof.
    unfold Journal.sim. rewrite fold_left_app. intros H H0. rewrite H0 in H. now rewrite sim_from_None in H.
  Qed.

  Lemma replay_find hist live nx i k :
    replayable J -> sim hist = Some (hist, live, nx) -> hist = map Some (firstn i J) -> nth_error J i = Some k ->
    find_by_key live k <> None.
  Proof.
    intros HR HS Hh Hk F. apply HR.
    rewrite (nth_error_split_firstn _ _ _ Hk), map_app, <- Hh. cbn [map].
    change (Some k :: map Some (skipn (S i) J)) with ([Some k] ++ map Some (skipn (S i) J)).
    rewrite app_assoc. unfold Journal.sim. rewrite fold_left_app. fold (sim (hist ++ [Some k])).
    rewrite sim_snoc, HS. cbn. rewrite F. apply sim_from_None.
  Qed.

  Lemma replay_phase (hist : list (option Z)) :
    firstn n hist = map Some (firstn (length hist) J) -> (length hist < n)%nat ->
    hist = map Some (firstn (length hist) J) /\ keys_of hist = firstn (length hist) J /\ skipn n hist = []
    /\ exists k, nth_error J (length hist) = Some k.
  Proof.
    intros P Hlt. rewrite firstn_all2 in P by lia. repeat split.
    - exact P.
    - rewrite P at 1. apply keys_of_map_some.
    - apply skipn_all2. lia.
    - destruct (nth_error J (length hist)) eqn:E; [now eexists|]. apply nth_error_None in E. lia.
  Qed.

  Lemma fresh_phase (hist : list (option Z)) :
    firstn n hist = map Some (firstn (length hist) J) -> (n <= length hist)%nat ->
    firstn n hist = map Some J /\ keys_of hist = J ++ keys_of (skipn n hist).
  Proof.
    intros P Hge. rewrite (firstn_all2 J) in P by lia. split; [exact P|].
    rewrite <- (firstn_skipn n hist) at 1. rewrite keys_of_app, P, keys_of_map_some. reflexivity.
  Qed.

  Definition ops_after (purged : bool) (hist : list (option Z)) : list orow :=
    if purged then match J with
                   | [] => d_o d0
                   | _ => d_o (crud_purge_ops run (p_fid (prog (firstn n hist))) d0)
                   end
    else d_o d0.

  Definition G (st : lstate) : Prop :=
    sim (l_hist st) = Some (l_hist st, l_live st, l_next st)
    /\ firstn n (l_hist st) = map Some (firstn (length (l_hist st)) J)
    /\ j_entries (a_j (l_ad st)) = Some (J ++ keys_of (skipn n (l_hist st)))
    /\ l_fb st = 0%nat
    /\ a_purged (l_ad st) = (n <=? length (l_hist st))%nat
    /\ d_o (l_db st) = ops_after (n <=? length (l_hist st))%nat (l_hist st)
    /\ l_tmo st = p_tmo (prog (l_hist st)).

  Hypothesis HR : replayable J.

  Lemma enter_G d a (live : list inst) done hist handed next fb :
    let E := J ++ keys_of (skipn n hist) in
    j_crud (a_j a) = true -> rows_enum run d E ->
    (j_entries (a_j a) = None \/ j_entries (a_j a) = Some E) ->
    j_idx (a_j a) = length (keys_of hist) ->
    sim hist = Some (hist, live ++ spawn next (p_pending (prog hist)), next + Z.of_nat (length (p_pending (prog hist)))) ->
    firstn n hist = map Some (firstn (length hist) J) ->
    fb = 0%nat ->
    a_purged a = (n <? length hist)%nat ->
    d_o d = ops_after (n <? length hist)%nat hist ->
    G (enter d a live done hist handed next fb).
  Proof.
    intros E Hc Hr He Hi HS P2 Hfb Hp Ho. unfold Journal.enter. cbv zeta.
    destruct (prologue run (p_fid (prog hist)) (live ++ spawn next (p_pending (prog hist))) d a)
      as [[d1 a1] m] eqn:P.
    destruct (prologue_wf _ _ _ _ _ _ Hc Hr He _ _ _ P) as (Hd & He1 & Hi1 & Hc1 & Hm & Hp1 & Ho1).
    unfold G. cbn [l_ad l_db l_hist l_mode l_live l_next l_fb l_tmo].
    split; [exact HS|]. split; [exact P2|]. split; [exact He1|].
    destruct (Nat.ltb_spec (length hist) n) as [Hlt|Hge].
    - (* still replaying *)
      destruct (replay_phase hist P2 Hlt) as (Hh & Hk & Hs & k & Hn).
      assert (EJ : E = J) by (unfold E; rewrite Hs; cbn; apply app_nil_r).
      assert (Hidx : j_idx (a_j a) = length hist).
      { rewrite Hi, Hk, firstn_length. lia. }
      rewrite EJ, Hidx, Hn in Hm, Hp1, Ho1.
      assert (F := replay_find _ _ _ _ _ HR HS Hh Hn).
      replace (n <=? length hist)%nat with false by (symmetry; apply Nat.leb_gt; lia).
      replace (n <? length hist)%nat with false in Hp, Ho by (symmetry; apply Nat.ltb_ge; lia).
      repeat split.
      + rewrite Hm. unfold mode_of. destruct (live ++ spawn next (p_pending (prog hist))); [assumption|].
        destruct (find_by_key (i :: l) k); [assumption|contradiction].
      + now rewrite Hp1.
      + now rewrite Ho1.
    - (* fresh *)
      destruct (fresh_phase hist P2 Hge) as (Hf & Hk).
      assert (Hidx : j_idx (a_j a) = length E) by (rewrite Hi, Hk; reflexivity).
      assert (Hn : nth_error E (j_idx (a_j a)) = None) by (apply nth_error_None; lia).
      rewrite Hn in Hm, Hp1, Ho1.
      replace (n <=? length hist)%nat with true by (symmetry; apply Nat.leb_le; lia).
      repeat split.
      + rewrite Hm. unfold mode_of. destruct (live ++ spawn next (p_pending (prog hist))); assumption.
      + exact Hp1.
      + rewrite Ho1. destruct (Nat.ltb_spec n (length hist)) as [Hl|Hl]; rewrite Hp.
        * exact Ho.
        * assert (Heq : length hist = n) by lia.
          assert (Hs : skipn n hist = []) by (apply skipn_all2; lia).
          assert (EJ : E = J) by (unfold E; rewrite Hs; cbn; apply app_nil_r).
          rewrite EJ. unfold ops_after. cbn [ops_after].
          destruct J as [|k0 J']; [exact Ho|].
          rewrite firstn_all2 by lia. cbn [crud_purge_ops d_o]. now rewrite Ho.
  Qed.

  Hypothesis d0_wf : rows_enum run d0 J.
  (* the loop never has two live tasks with the same key (worker slots / pull numbers are unique while live) *)
  Hypothesis prog_distinct : forall h live nx, sim h = Some (h, live, nx) -> NoDup (map fst live).

  Lemma init_G : G (init run prog d0).
  Proof.
    unfold init. apply enter_G; cbn; try reflexivity.
    - rewrite skipn_nil. cbn. rewrite app_nil_r. exact d0_wf.
    - now left.
    - apply firstn_nil.
  Qed.

  Lemma ops_after_snoc (hist : list (option Z)) r :
    ops_after (n <=? length hist)%nat hist = ops_after (n <? length (hist ++ [r]))%nat (hist ++ [r]).
  Proof.
    rewrite app_length. cbn [length].
    replace (n <? length hist + 1)%nat with (n <=? length hist)%nat
      by (destruct (Nat.leb_spec n (length hist)); symmetry; [apply Nat.ltb_lt|apply Nat.ltb_ge]; lia).
    destruct (Nat.leb_spec n (length hist)) as [Hl|Hl]; [|reflexivity].
    unfold ops_after. rewrite firstn_app. replace (n - length hist)%nat with 0%nat by lia.
    cbn [firstn]. now rewrite app_nil_r.
  Qed.

  Lemma finish_G E st pick :
    InvJ run d0 E st -> G st -> enabled st pick ->
    notmo (firstn n (l_hist (finish st pick))) = true ->
    G (finish st pick).
  Proof.
    intros (Hc & He & Hr & Hi & Hk & Hoth & Hm) (G1 & G2 & G3 & G4 & G5 & G6 & G7) Hen Hok.
    rewrite He in G3. inversion G3 as [EE]. clear G3.
    unfold Journal.finish in *.
    destruct (resolve_cases run (l_live st) (l_mode st) pick (l_db st) (l_ad st))
      as [R|[(t & Mt & _ & R)|(fb & u & i & Mf & Pu & Fu & R)]]; rewrite R in *; cbn [option_map] in *.
    - (* a wait that timed out / returned nothing *)
      assert (Hge : (n <= length (l_hist st))%nat).
      { destruct (Nat.leb_spec n (length (l_hist st))) as [|Hlt]; [assumption|exfalso].
        unfold Journal.enter in Hok. cbv zeta in Hok.
        destruct (prologue run _ _ (l_db st) (l_ad st)) as [[d1 a1] m] in Hok. cbn [l_hist] in Hok.
        rewrite firstn_all2 in Hok by (rewrite app_length; cbn; lia).
        rewrite notmo_app in Hok. cbn in Hok. now rewrite andb_false_r in Hok. }
      assert (Hsk : skipn n (l_hist st ++ [None]) = skipn n (l_hist st) ++ [None]).
      { rewrite skipn_app. replace (n - length (l_hist st))%nat with 0%nat by lia. reflexivity. }
      apply enter_G; try assumption.
      + rewrite Hsk, keys_of_app. cbn. rewrite app_nil_r. now rewrite <- EE.
      + right. rewrite Hsk, keys_of_app. cbn. rewrite app_nil_r. now rewrite <- EE.
      + rewrite keys_of_app. cbn. now rewrite app_nil_r.
      + rewrite sim_snoc, G1. reflexivity.
      + rewrite firstn_app. replace (n - length (l_hist st))%nat with 0%nat by lia. cbn [firstn].
        rewrite app_nil_r, G2. rewrite app_length. cbn [length].
        rewrite !(firstn_all2 J) by lia. reflexivity.
      + rewrite G5, app_length. cbn [length].
        destruct (Nat.leb_spec n (length (l_hist st))); symmetry; [apply Nat.ltb_lt|apply Nat.ltb_ge]; lia.
      + rewrite G6. apply ops_after_snoc.
    - (* replay: the expected task is handed over *)
      rewrite Mt in Hm. symmetry in Hm. apply mode_replay_in in Hm. destruct Hm as (Ht & Hn & Hfind).
      assert (Hlt : (length (l_hist st) < n)%nat).
      { destruct (Nat.ltb_spec (length (l_hist st)) n) as [|Hge]; [assumption|exfalso].
        destruct (fresh_phase _ G2 Hge) as (_ & Hkk).
        assert (j_idx (a_j (l_ad st)) = length E) by (rewrite Hk, Hkk, EE; reflexivity).
        assert (nth_error E (j_idx (a_j (l_ad st))) = None) by (apply nth_error_None; lia). congruence. }
      destruct (replay_phase _ G2 Hlt) as (Hh & Hkk & Hs & k & Hnk).
      assert (EJ : E = J) by (rewrite EE, Hs; cbn; apply app_nil_r).
      assert (Hidx : j_idx (a_j (l_ad st)) = length (l_hist st)) by (rewrite Hk, Hkk, firstn_length; lia).
      rewrite EJ, Hidx, Hnk in Hn. inversion Hn as [Hkt]. clear Hn.
      assert (Hs' : skipn n (l_hist st ++ [Some (fst t)]) = []) by (apply skipn_all2; rewrite app_length; cbn; lia).
      apply enter_G; cbn [a_j j_advance j_crud j_entries j_idx a_purged]; try assumption.
      + rewrite Hs'. cbn. rewrite app_nil_r. now rewrite <- EJ.
      + right. rewrite Hs'. cbn. rewrite app_nil_r. now rewrite <- EJ.
      + rewrite keys_of_app, app_length. cbn. lia.
      + rewrite sim_snoc, G1. cbn. rewrite Hfind. reflexivity.
      + rewrite firstn_all2 by (rewrite app_length; cbn; lia).
        rewrite app_length. cbn [length]. rewrite Nat.add_1_r.
        rewrite (firstn_S_nth _ _ _ Hnk), map_app, <- Hh, Hkt. reflexivity.
      + rewrite G5, app_length. cbn [length].
        destruct (Nat.leb_spec n (length (l_hist st))); symmetry; [apply Nat.ltb_lt|apply Nat.ltb_ge]; lia.
      + rewrite G6. apply ops_after_snoc.
    - (* fresh: some finished task is recorded and handed over *)
      assert (Hge : (n <= length (l_hist st))%nat).
      { destruct (Nat.leb_spec n (length (l_hist st))) as [|Hlt]; [assumption|exfalso].
        destruct (replay_phase _ G2 Hlt) as (Hh & Hkk & Hs & k & Hnk).
        assert (EJ : E = J) by (rewrite EE, Hs; cbn; apply app_nil_r).
        assert (Hidx : j_idx (a_j (l_ad st)) = length (l_hist st)) by (rewrite Hk, Hkk, firstn_length; lia).
        rewrite EJ, Hidx, Hnk, Mf in Hm. unfold mode_of in Hm.
        destruct (l_live st) as [|x l]; [discriminate|].
        destruct (find_by_key (x :: l) k) eqn:F; [discriminate|].
        exact (replay_find _ _ _ _ _ HR G1 Hh Hnk F). }
      destruct (find_by_uid_some _ _ _ Fu) as [Hin _].
      assert (Hfind : find_by_key (l_live st) (fst i) = Some i).
      { apply find_by_key_self; [|assumption]. exact (prog_distinct _ _ _ G1). }
      assert (Hsk : skipn n (l_hist st ++ [Some (fst i)]) = skipn n (l_hist st) ++ [Some (fst i)]).
      { rewrite skipn_app. replace (n - length (l_hist st))%nat with 0%nat by lia. reflexivity. }
      unfold j_record. rewrite He, Hc. cbn [fst snd].
      apply enter_G; cbn [a_j j_crud j_entries j_idx a_purged]; try assumption; try reflexivity.
      + rewrite Hsk, keys_of_app. cbn. rewrite app_assoc, <- EE. now apply insert_enum.
      + right. rewrite Hsk, keys_of_app. cbn. now rewrite app_assoc, <- EE.
      + rewrite keys_of_app, app_length. cbn. lia.
      + rewrite sim_snoc, G1. cbn. rewrite Hfind. reflexivity.
      + rewrite firstn_app. replace (n - length (l_hist st))%nat with 0%nat by lia. cbn [firstn].
        rewrite app_nil_r, G2. rewrite app_length. cbn [length].
        rewrite !(firstn_all2 J) by lia. reflexivity.
      + rewrite G5, app_length. cbn [length].
        destruct (Nat.leb_spec n (length (l_hist st))); symmetry; [apply Nat.ltb_lt|apply Nat.ltb_ge]; lia.
      + cbn [crud_insert d_o]. rewrite G6. apply ops_after_snoc.
  Qed.

  Lemma enter_hist d a live done hist handed next fb : l_hist (enter d a live done hist handed next fb) = hist.
  Proof.
    unfold Journal.enter. cbv zeta. destruct (prologue run _ _ d a) as [[d1 a1] m]. reflexivity.
  Qed.

  Lemma finish_hist st pick : exists r, l_hist (finish st pick) = l_hist st ++ [r].
  Proof.
    unfold Journal.finish. destruct (resolve run _ _ pick _ _) as [[d1 a1] res].
    rewrite enter_hist. now eexists.
  Qed.

  Lemma exec_snoc d s e : exec d (s ++ [e]) = step (exec d s) e.
  Proof. unfold Journal.exec, exec_from. now rewrite fold_left_app. Qed.

  Lemma exec_G : forall s, notmo (firstn n (l_hist (exec d0 s))) = true -> G (exec d0 s).
  Proof.
    induction s as [|e s IH] using rev_ind; intro Hok.
    - exact init_G.
    - rewrite exec_snoc in *.
      destruct (exec_from_InvU run prog d0 J s _ (init_InvU run prog d0 J d0_wf)) as [[F HJ] _].
      fold (exec d0 s) in HJ.
      destruct (step_cases run prog (exec d0 s) e) as [Hs|[[dn Hs]|[pick [Hen Hs]]]]; rewrite Hs in *.
      + now apply IH.
      + apply IH in Hok. exact Hok.
      + destruct (finish_hist (exec d0 s) pick) as [r Hr].
        apply (finish_G _ _ _ HJ); try assumption. apply IH.
        rewrite Hr in Hok. now apply notmo_firstn_prefix in Hok.
  Qed.

  (* C27 main theorem (one recovered process): for EVERY schedule s (completion order, timer firings, and the point
     where it stops = the next crash point) of the process recovered from a database whose journal J is replayable,
     provided no wait timed out before the n-th task was handed over:
       - the results handed to the control loop start with exactly the recorded keys, in the recorded order;
       - the journal afterwards is the recorded one followed by the keys handed over after the transition;
       - the "non-deterministic execution" fallback was never taken;
       - the orphan purge ran exactly when the n-th result had been handed over, once, with the function id
         current at that call; before that operation_outputs is untouched;
       - if no wait timed out at all, the new journal is again replayable (so the argument repeats after
         the next crash). *)
  Theorem replay_same_order : forall s,
    let st := exec d0 s in
    notmo (firstn n (l_hist st)) = true ->
    firstn n (l_hist st) = map Some (firstn (length (l_hist st)) J)
    /\ crud_load run (l_db st) = J ++ keys_of (skipn n (l_hist st))
    /\ rows_enum run (l_db st) (J ++ keys_of (skipn n (l_hist st)))
    /\ l_fb st = 0%nat
    /\ a_purged (l_ad st) = (n <=? length (l_hist st))%nat
    /\ d_o (l_db st) = ops_after (n <=? length (l_hist st))%nat (l_hist st)
    /\ (notmo (l_hist st) = true -> replayable (J ++ keys_of (skipn n (l_hist st)))).
  Proof.
    intros s st Hok. destruct (exec_G s Hok) as (G1 & G2 & G3 & G4 & G5 & G6 & G7). fold st in G1, G2, G3, G4, G5, G6, G7.
    destruct (exec_from_InvU run prog d0 J s _ (init_InvU run prog d0 J d0_wf)) as [[F HJ] _].
    fold (exec d0 s) in HJ. fold st in HJ. destruct HJ as (_ & He & Hr & _).
    assert (EE : J ++ F = J ++ keys_of (skipn n (l_hist st))) by congruence. rewrite EE in Hr. clear G3.
    repeat split; try assumption.
    - now apply load_enum.
    - intro Hall. unfold replayable.
      destruct (Nat.ltb_spec (length (l_hist st)) n) as [Hlt|Hge].
      + destruct (replay_phase _ G2 Hlt) as (_ & _ & Hs & _). rewrite Hs. cbn. rewrite app_nil_r. exact HR.
      + destruct (fresh_phase _ G2 Hge) as (_ & Hk). rewrite <- Hk, <- (notmo_map_keys _ Hall), G1. discriminate.
  Qed.
End Replay.

(* ================= from the first start, through any number of crashes ================= *)
Section Chain.
  Variable run : Z.
  Variable prog : list (option Z) -> pinfo.
  Hypothesis prog_distinct : forall h live nx, sim prog h = Some (h, live, nx) -> NoDup (map fst live).

  Lemma replayable_nil : replayable prog [].
  Proof. unfold replayable, sim, sim0. cbn. discriminate. Qed.

  (* successive process lifetimes; each one stops (crashes) where its schedule ends *)
  Fixpoint chain_db (d : db) (ss : list (list ev)) : db :=
    match ss with [] => d | s :: r => chain_db (l_db (exec run prog d s)) r end.
  Fixpoint chain_ok (d : db) (ss : list (list ev)) : bool :=
    match ss with
    | [] => true
    | s :: r => notmo (l_hist (exec run prog d s)) && chain_ok (l_db (exec run prog d s)) r
    end.

  Theorem crash_chain : forall ss d K,
    rows_enum run d K -> replayable prog K -> chain_ok d ss = true ->
    exists F, rows_enum run (chain_db d ss) (K ++ F) /\ replayable prog (K ++ F).
  Proof.
    induction ss as [|s ss IH]; intros d K Hw Hrp Hok; cbn in *.
    - exists []. now rewrite app_nil_r.
    - apply andb_prop in Hok. destruct Hok as [H1 H2].
      assert (Hpre : notmo (firstn (length K) (l_hist (exec run prog d s))) = true).
      { rewrite <- (firstn_skipn (length K) (l_hist (exec run prog d s))), notmo_app in H1.
        now apply andb_prop in H1. }
      destruct (replay_same_order run prog d K Hrp Hw prog_distinct s Hpre) as (_ & _ & Hr & _ & _ & _ & Hnext).
      destruct (IH _ _ Hr (Hnext H1) H2) as [F [HF1 HF2]].
      exists (keys_of (skipn (length K) (l_hist (exec run prog d s))) ++ F).
      now rewrite app_assoc.
  Qed.

  (* a first start (empty journal for this run), any number of crashed lifetimes without a timed-out wait, then a
     recovery under an arbitrary schedule: the recovered loop observes the recorded order *)
  Theorem recovery_after_crashes : forall ss d s,
    rows_enum run d [] -> chain_ok d ss = true ->
    let dc := chain_db d ss in
    let K := crud_load run dc in
    let st := exec run prog dc s in
    notmo (firstn (length K) (l_hist st)) = true ->
    firstn (length K) (l_hist st) = map Some (firstn (length (l_hist st)) K)
    /\ crud_load run (l_db st) = K ++ keys_of (skipn (length K) (l_hist st))
    /\ l_fb st = 0%nat
    /\ a_purged (l_ad st) = (length K <=? length (l_hist st))%nat.
  Proof.
    intros ss d s Hw Hok dc K st Hpre.
    destruct (crash_chain ss d [] Hw replayable_nil Hok) as [F [HF1 HF2]]. cbn [app] in HF1, HF2.
    fold dc in HF1. assert (HK : K = F) by (unfold K; now apply load_enum). rewrite <- HK in HF1, HF2.
    destruct (replay_same_order run prog dc K HF2 HF1 prog_distinct s Hpre) as (A & B & _ & C & D & _).
    repeat split; assumption.
  Qed.
End Chain.

(* ================= "the same result as an uninterrupted run" ================= *)
(* Past the transition the recovered process is in the state ANY process with the same result history is in — in
   particular the uninterrupted one (K = []): the live task instances, the uid counter, the armed timer, the journal
   (object and table), the replay index, the wait mode and the purge flag are functions of the history alone.  What the
   loop does next is a function of that state and of the environment's schedule. *)
Theorem same_history_same_loop_state :
  forall (run : Z) (prog : list (option Z) -> pinfo),
  (forall h live nx, sim prog h = Some (h, live, nx) -> NoDup (map fst live)) ->
  forall dA KA dB KB,
  replayable prog KA -> rows_enum run dA KA -> replayable prog KB -> rows_enum run dB KB ->
  forall sA sB,
  let a := exec run prog dA sA in
  let b := exec run prog dB sB in
  notmo (firstn (length KA) (l_hist a)) = true -> notmo (firstn (length KB) (l_hist b)) = true ->
  l_hist a = l_hist b ->
  (length KA <= length (l_hist a))%nat -> (length KB <= length (l_hist b))%nat ->
  l_live a = l_live b /\ l_next a = l_next b /\ l_tmo a = l_tmo b
  /\ j_entries (a_j (l_ad a)) = j_entries (a_j (l_ad b))
  /\ j_idx (a_j (l_ad a)) = j_idx (a_j (l_ad b))
  /\ l_mode a = l_mode b
  /\ a_purged (l_ad a) = a_purged (l_ad b)
  /\ crud_load run (l_db a) = crud_load run (l_db b)
  /\ l_fb a = l_fb b.
Proof.
  intros run prog Hd dA KA dB KB HRA HwA HRB HwB sA sB a b HokA HokB Hh HlA HlB.
  destruct (exec_G run prog dA KA HRA HwA Hd sA HokA) as (A1 & A2 & A3 & A4 & A5 & A6 & A7).
  destruct (exec_G run prog dB KB HRB HwB Hd sB HokB) as (B1 & B2 & B3 & B4 & B5 & B6 & B7).
  fold a in A1, A2, A3, A4, A5, A6, A7. fold b in B1, B2, B3, B4, B5, B6, B7.
  destruct (exec_from_InvU run prog dA KA sA _ (init_InvU run prog dA KA HwA)) as [[FA IA] _].
  destruct (exec_from_InvU run prog dB KB sB _ (init_InvU run prog dB KB HwB)) as [[FB IB] _].
  fold (exec run prog dA sA) in IA. fold (exec run prog dB sB) in IB. fold a in IA. fold b in IB.
  destruct IA as (_ & EA & RA & _ & KiA & _ & MA). destruct IB as (_ & EB & RB & _ & KiB & _ & MB).
  destruct (fresh_phase KA _ A2 HlA) as (_ & KA'). destruct (fresh_phase KB _ B2 HlB) as (_ & KB').
  assert (EeA : KA ++ FA = keys_of (l_hist a)) by congruence.
  assert (EeB : KB ++ FB = keys_of (l_hist b)) by congruence.
  rewrite Hh in A1. rewrite B1 in A1. inversion A1 as [[Hlive Hnext]].
  assert (Hent : j_entries (a_j (l_ad a)) = j_entries (a_j (l_ad b))) by (rewrite EA, EB, EeA, EeB, Hh; reflexivity).
  assert (Hidx : j_idx (a_j (l_ad a)) = j_idx (a_j (l_ad b))) by (rewrite KiA, KiB, Hh; reflexivity).
  split; [first [reflexivity | symmetry; exact Hlive | exact Hlive]|].
  split; [first [reflexivity | symmetry; exact Hnext | exact Hnext]|].
  split; [rewrite A7, B7, Hh; reflexivity|].
  split; [exact Hent|]. split; [exact Hidx|].
  split; [rewrite MA, MB, Hidx, <- Hlive, EeA, EeB, Hh; reflexivity|].
  split.
  { rewrite A5, B5.
    replace (length KA <=? length (l_hist a))%nat with true by (symmetry; now apply Nat.leb_le).
    symmetry. now apply Nat.leb_le. }
  split; [rewrite (load_enum _ _ _ RA), (load_enum _ _ _ RB), EeA, EeB, Hh; reflexivity|].
  now rewrite A4, B4.
Qed.

(* ================= the purge at the replay -> fresh transition, on ANY table content ================= *)
Theorem purge_stale_spec run fid d j E :
  j_entries j = Some E -> E <> [] -> j_crud j = true ->
  let d' := j_purge_stale run fid d j in
  (forall r, In r (d_j d') <-> In r (d_j d) /\ ~ (jr_run r = run /\ Z.of_nat (length E) <= jr_seq r))
  /\ (forall o, In o (d_o d') <-> In o (d_o d) /\ ~ (or_run o = run /\ fid < or_fid o)).
Proof.
  intros He Hne Hc d'. unfold d', j_purge_stale, j_has_entries. rewrite He, Hc.
  destruct E as [|k E']; [contradiction|]. cbn [andb]. split.
  - intro r. rewrite truncate_spec. cbn [crud_purge_ops d_j]. reflexivity.
  - intro o. cbn [crud_truncate_from d_o]. apply purge_ops_spec.
Qed.

Theorem purge_stale_noop run fid d j :
  (j_entries j = None \/ j_entries j = Some [] \/ j_crud j = false) -> j_purge_stale run fid d j = d.
Proof.
  unfold j_purge_stale, j_has_entries. intros [H|[H|H]]; rewrite H; try reflexivity.
  destruct (j_entries j) as [[|? ?]|]; reflexivity.
Qed.

(* wait_for_next_task purges only in a call that finds no expected key, and only in the first such call *)
Theorem prologue_purge_exact run fid live d a :
  let j := j_load run d (a_j a) in
  (j_next_expected j <> None ->
     fst (fst (prologue run fid live d a)) = d /\ a_purged (snd (fst (prologue run fid live d a))) = a_purged a)
  /\ (j_next_expected j = None ->
     a_purged (snd (fst (prologue run fid live d a))) = true
     /\ fst (fst (prologue run fid live d a)) = if a_purged a then d else j_purge_stale run fid d j).
Proof.
  intro j. unfold prologue. fold j. cbn [fst snd a_purged].
  destruct (j_next_expected j); split; intro H; try congruence; split; reflexivity.
Qed.

(* ================= timeouts are not journaled: the recovered loop can diverge ================= *)
Definition w_prog : list (option Z) -> pinfo :=
  tbl_prog [ ([], {| p_pending := [1] ; p_tmo := true ; p_fid := 0 |}) ;
             ([-1], {| p_pending := [0] ; p_tmo := false ; p_fid := 0 |}) ].
(* first process: task 1 ("b:0") runs, the wait times out, the loop then starts task 0 ("a:0" = a delayed retry);
   a:0 finishes, then b:0.  Journal: [0; 1]. *)
Definition w_s1 : list ev := [ETmo ; EDone 1 ; EWake 1 ; EDone 0 ; EWake 0].
(* recovered process: b:0's recorded output is returned at once *)
Definition w_s2 : list ev := [EDone 0 ; EWake 0].

Theorem timeout_divergence :
  exists prog s1 s2,
    let st1 := exec 0 prog db_empty s1 in
    let K := crud_load 0 (l_db st1) in
    let st2 := exec 0 prog (l_db st1) s2 in
    l_hist st1 = [None ; Some 0 ; Some 1] /\ K = [0 ; 1]
    /\ l_hist st2 = [Some 1] /\ l_fb st2 = 1%nat /\ crud_load 0 (l_db st2) = [0 ; 1 ; 1]
    /\ firstn (length K) (l_hist st2) <> map Some (firstn (length (l_hist st2)) K).
Proof.
  exists w_prog, w_s1, w_s2. vm_compute. repeat split; try reflexivity. discriminate.
Qed.

(* non-vacuity of the main theorem's hypotheses: a two-step workflow, crash after the first completion *)
Definition e_prog : list (option Z) -> pinfo :=
  tbl_prog [ ([], {| p_pending := [0 ; 1] ; p_tmo := false ; p_fid := 3 |}) ;
             ([1], {| p_pending := [2] ; p_tmo := true ; p_fid := 5 |}) ].
Lemma e_replayable : replayable e_prog [1].
Proof. vm_compute. discriminate. Qed.
Lemma e_rows : rows_enum 0 (l_db (exec 0 e_prog db_empty [EDone 1 ; EWake 1])) [1].
Proof. vm_compute. reflexivity. Qed.
Lemma e_recovered :
  let st := exec 0 e_prog (l_db (exec 0 e_prog db_empty [EDone 1 ; EWake 1])) [EDone 0 ; EDone 1 ; EWake 0 ; EWake 1 ; EDone 2 ; EWake 2] in
  l_hist st = [Some 1 ; Some 2] /\ crud_load 0 (l_db st) = [1 ; 2] /\ l_fb st = 0%nat.
Proof. vm_compute. repeat split; reflexivity. Qed.
