(* C01 at the runner level (Model/Runner.v): every started-and-unfinished invocation (a worker that is pending, running,
   finished-but-not-harvested, or whose result tick is still buffered) occupies its own slot of in_progress - for every
   schedule.  Hence at most num_workers invocations of a step are in flight, on distinct slots. *)
From Coq Require Import List ZArith Bool PeanoNat Lia Permutation.
Import ListNotations.
From WF Require Import Model.Engine Model.Runner Proofs.EngineCap Proofs.EngineSlots Proofs.EngineTelemetry Proofs.EngineRuns.
Open Scope Z_scope.

Notation key := (Z * nat)%type (only parsing).
Definition kp (x : Z * nat * event) : key := (fst (fst x), snd (fst x)).
Definition kd (x : Z * nat * event * list result) : key := kp (fst x).
Definition tick_key (t : tick) : list key := match t with TStep n k _ _ => [(n, k)] | _ => [] end.
Definition bufkeys (l : list tick) : list key := flat_map tick_key l.
Definition held (r : rstate) : list key :=
  map kp (pending r) ++ map kp (runningw r) ++ map kd (donew r) ++ bufkeys (tbuf r).
Definition occupies (s : state) (x : key) : Prop :=
  exists w, zlookup (fst x) (workers s) = Some w /\ In (snd x) (wids w).

(* the environment: results with at most one AddCollectedEvent (one collect_events call per buffer and invocation);
   only add-event ticks are sent or delivered *)
Definition results_ok (rs : list result) : Prop := (length (filter is_addcoll rs) <= 1)%nat.
Definition is_add (t : tick) : bool := match t with TAdd _ _ => true | _ => false end.
Definition action_ok (a : action) : Prop :=
  match a with
  | AWorkerDone _ _ sends rs => forallb is_add sends = true /\ results_ok rs
  | ADeliver t => is_add t = true
  | AAdvance _ => True
  end.
Definition tick_ok (t : tick) : Prop := match t with TStep _ _ _ rs => results_ok rs | _ => True end.
Definition nostep (t : tick) : Prop := tick_key t = [].

Definition key_dec : forall a b : key, {a = b} + {a <> b}.
Proof. decide equality; [apply Nat.eq_dec|apply Z.eq_dec]. Defined.
Definition cnt (x : key) (l : list key) : nat := count_occ key_dec l x.

Record Slots_ok (r : rstate) : Prop := {
  so_keys : Keys_ok (st r) ;
  so_cap : Inv_state (st r) ;
  so_nodup : forall x, (cnt x (held r) <= 1)%nat ;
  so_occ : forall x, In x (held r) -> occupies (st r) x ;
  so_tbuf : Forall tick_ok (tbuf r) ;
  so_done : Forall (fun x => results_ok (snd x)) (donew r) ;
  so_mail : Forall nostep (mailbox r) ;
  so_wake : Forall (fun x => nostep (snd x)) (wakeups r) }.

(* ---------- executing the commands of a tick ---------- *)
Fixpoint runs_list (cs : list command) : list (Z * nat * event) :=
  match cs with
  | [] => []
  | CRunWorker s e w :: t => (s, w, e) :: runs_list t
  | _ :: t => runs_list t
  end.

Lemma in_runs_list_of n k cs : In (n, k) (map kp (runs_list cs)) <-> In k (runs_of n cs).
Proof.
  induction cs as [|c t IH]; [split; intros []|]. destruct c; try exact IH.
  cbn [runs_list runs_of map kp fst snd]. destruct (Z.eqb_spec step n) as [->|Hne].
  - cbn [In]. rewrite IH. unfold kp; cbn [fst snd]. split.
    + intros [H|H]; [left; inversion H; reflexivity|right; exact H].
    + intros [H|H]; [left; subst; reflexivity|right; exact H].
  - cbn [In]. rewrite IH. unfold kp; cbn [fst snd]. split; [intros [H|H]; [inversion H; contradiction|exact H]|intros H; right; exact H].
Qed.

Lemma runs_list_nodup cs : (forall n, NoDup (runs_of n cs)) -> NoDup (map kp (runs_list cs)).
Proof.
  induction cs as [|c t IH]; intros H; [constructor|].
  destruct c; try (apply IH; intros n; specialize (H n); exact H).
  cbn [runs_list map kp fst snd]. constructor.
  - intros Hin. apply in_runs_list_of in Hin. specialize (H step). cbn [runs_of] in H. rewrite Z.eqb_refl in H.
    inversion H; contradiction.
  - apply IH. intros n. specialize (H n). cbn [runs_of] in H. destruct (Z.eqb step n); [inversion H; assumption|exact H].
Qed.

Definition appended_ok (l : list tick) : Prop := Forall (fun t => nostep t /\ tick_ok t) l.

(* if the run is still live after the commands, every command was executed: the workers to start were
   appended to `pending`, only add-event / idle-check ticks were buffered or scheduled, nothing else moved *)
Lemma do_commands_live : forall cs r,
  Runner.outcome (fold_left do_command cs r) = ORunning ->
  Runner.outcome r = ORunning /\
  let r' := fold_left do_command cs r in
  pending r' = pending r ++ runs_list cs /\ runningw r' = runningw r /\ donew r' = donew r /\ st r' = st r /\
  mailbox r' = mailbox r /\
  (exists more, tbuf r' = tbuf r ++ more /\ appended_ok more) /\
  (Forall (fun x => nostep (snd x)) (wakeups r) -> Forall (fun x => nostep (snd x)) (wakeups r')).
Proof.
  induction cs as [|c t IH]; intros r H; cbn [fold_left] in *.
  { split; [exact H|]. cbn. rewrite app_nil_r. repeat split; auto. exists []. rewrite app_nil_r. split; [reflexivity|constructor]. }
  destruct (IH _ H) as [O1 [Pn [Rn [Dn [Sn [Mn [[more [Tn Am]] Wn]]]]]]].
  assert (Runner.outcome r = ORunning) as O0.
  { destruct (Runner.outcome r) eqn:E; [reflexivity|..]; unfold do_command in O1; rewrite E in O1; congruence. }
  split; [exact O0|]. cbn zeta.
  unfold do_command in *. rewrite O0 in *.
  assert (forall w t0 l, Forall (fun x : Z * Z * tick => nostep (snd x)) l -> nostep t0 ->
                         Forall (fun x : Z * Z * tick => nostep (snd x)) (insert_wakeup (w, t0) l)) as IW.
  { intros [tw sw] t0 l F N. induction l as [|[[th sh] kh] rest IHl]; cbn [insert_wakeup].
    - constructor; [exact N|constructor].
    - destruct (Z.ltb tw th || (Z.eqb tw th && Z.ltb sw sh)).
      + constructor; [exact N|exact F].
      + inversion F; subst. constructor; [assumption|apply IHl; assumption]. }
  destruct c.
  - (* CRunWorker *) cbn in *. rewrite Pn, Rn, Dn, Sn, Mn, Tn. cbn [runs_list]. rewrite <- app_assoc. cbn [app].
    repeat split; auto. exists more. split; [reflexivity|exact Am].
  - (* CQueue *) destruct delay as [d|]; [destruct (Z.ltb 0 d)|]; cbn in *; rewrite Pn, Rn, Dn, Sn, Mn, Tn; cbn [runs_list].
    + repeat split; auto. exists more. split; [reflexivity|exact Am]. intros F. apply Wn. apply IW; [exact F|reflexivity].
    + repeat split; auto. exists (TAdd a target :: more). rewrite <- app_assoc. split; [reflexivity|].
      constructor; [split; [reflexivity|exact I]|exact Am].
    + repeat split; auto. exists (TAdd a target :: more). rewrite <- app_assoc. split; [reflexivity|].
      constructor; [split; [reflexivity|exact I]|exact Am].
  - (* CHalt *) destruct k; cbn in O1; discriminate.
  - cbn in O1; discriminate.
  - cbn in O1; discriminate.
  - cbn in O1; discriminate.
  - (* CPublish *) cbn in *. rewrite Pn, Rn, Dn, Sn, Mn, Tn. cbn [runs_list]. repeat split; auto. exists more. split; [reflexivity|exact Am].
  - (* CSchedIdle *) destruct (idle_pending r); cbn in *; rewrite Pn, Rn, Dn, Sn, Mn, Tn; cbn [runs_list].
    + repeat split; auto. exists more. split; [reflexivity|exact Am].
    + repeat split; auto. exists (TIdleCheck :: more). rewrite <- app_assoc. split; [reflexivity|].
      constructor; [split; [reflexivity|exact I]|exact Am].
  - (* CSchedWaiterTimeout *) cbn in *. rewrite Pn, Rn, Dn, Sn, Mn, Tn. cbn [runs_list]. repeat split; auto.
    exists more. split; [reflexivity|exact Am]. intros F. apply Wn. apply IW; [exact F|reflexivity].
Qed.

(* ---------- counting ---------- *)
Lemma cnt_app x a b : cnt x (a ++ b) = (cnt x a + cnt x b)%nat.
Proof. apply count_occ_app. Qed.
Lemma cnt_in x l : In x l <-> (1 <= cnt x l)%nat.
Proof. unfold cnt. rewrite (count_occ_In key_dec). lia. Qed.
Lemma cnt_nodup l : NoDup l <-> forall x, (cnt x l <= 1)%nat.
Proof. apply NoDup_count_occ. Qed.
Lemma cnt_single x y : cnt x [y] = if key_dec y x then 1%nat else 0%nat.
Proof. unfold cnt. cbn. destruct (key_dec y x); reflexivity. Qed.

Lemma NoDup_app_intro {A} (a b : list A) : NoDup a -> NoDup b -> (forall x, In x a -> ~ In x b) -> NoDup (a ++ b).
Proof.
  induction a as [|h t IH]; intros Na Nb D; [exact Nb|]. inversion Na; subst. cbn. constructor.
  - rewrite in_app_iff. intros [X|X]; [contradiction|]. exact (D h (or_introl eq_refl) X).
  - apply IH; [assumption|assumption|]. intros x Hx. apply D. right. exact Hx.
Qed.
Lemma NoDup_app_disj {A} (a b : list A) x : NoDup (a ++ b) -> In x a -> In x b -> False.
Proof.
  induction a as [|h t IH]; intros N Ha Hb; [destruct Ha|]. cbn in N. inversion N; subst.
  destruct Ha as [->|Ha]; [apply H1; apply in_app_iff; right; exact Hb|exact (IH H2 Ha Hb)].
Qed.
Lemma NoDup_app_r {A} (a b : list A) : NoDup (a ++ b) -> NoDup b.
Proof. induction a as [|h t IH]; intros N; [exact N|]. inversion N; subst. apply IH. assumption. Qed.

Lemma zlookup_In {A} k (l : list (Z * A)) v : zlookup k l = Some v -> In (k, v) l.
Proof.
  induction l as [|[k' v'] t IH]; cbn [zlookup]; [discriminate|]. destruct (Z.eqb_spec k k') as [->|Hne].
  - intros E; inversion E; subst. left. reflexivity.
  - intros E. right. apply IH. exact E.
Qed.
Lemma in_keys_zlookup {A} k (l : list (Z * A)) : In k (map fst l) -> exists v, zlookup k l = Some v.
Proof.
  induction l as [|[k' v'] t IH]; intros H; [destruct H|]. cbn [zlookup]. destruct (Z.eqb_spec k k') as [->|Hne].
  - eexists; reflexivity.
  - destruct H as [H|H]; [cbn in H; congruence|apply IH; exact H].
Qed.
Lemma runs_of_in_cmd n k cs : In k (runs_of n cs) -> exists e, In (CRunWorker n e k) cs.
Proof.
  induction cs as [|c t IH]; intros H; [destruct H|].
  destruct c; try (destruct (IH H) as [e0 He]; exists e0; right; exact He).
  cbn [runs_of] in H. destruct (Z.eqb_spec step n) as [->|Hne].
  - destruct H as [<-|H]; [exists e; left; reflexivity|destruct (IH H) as [e0 He]; exists e0; right; exact He].
  - destruct (IH H) as [e0 He]; exists e0; right; exact He.
Qed.
Lemma own_slot_key t n k : own_slot t n k -> tick_key t = [(n, k)].
Proof. intros [e [rs ->]]. reflexivity. Qed.
Lemma wids_nodup s n w : Inv_state s -> zlookup n (workers s) = Some w -> NoDup (wids w).
Proof. intros Hi L. destruct (Inv_ws_zlookup _ _ _ Hi L) as [_ [N _]]. exact N. Qed.
Lemma remove_nat_keeps k k0 l : k <> k0 -> In k l -> In k (remove_nat k0 l).
Proof.
  induction l as [|h t IH]; intros Hne H; [destruct H|]. cbn [remove_nat]. destruct (Nat.eqb_spec h k0) as [->|Hn].
  - destruct H as [H|H]; [congruence|exact H].
  - destruct H as [H|H]; [left; exact H|right; apply IH; assumption].
Qed.
Lemma short_nodup {A} (l : list A) : (length l <= 1)%nat -> NoDup l.
Proof. destruct l as [|a [|b r]]; cbn; intros H; [constructor|constructor; [intros []|constructor]|lia]. Qed.

(* ---------- one tick: the started slots are new, the others stay occupied ---------- *)
Lemma tick_keys P t s now s' cs old :
  Keys_ok s -> Inv_state s -> tick_ok t -> reduce P t s now = Ok (s', cs) ->
  (forall x, (cnt x (tick_key t ++ old) <= 1)%nat) ->
  (forall x, In x (tick_key t ++ old) -> occupies s x) ->
  (forall x, (cnt x (old ++ map kp (runs_list cs)) <= 1)%nat) /\
  (forall x, In x (old ++ map kp (runs_list cs)) -> occupies s' x).
Proof.
  intros ND Hi Tok H C O.
  pose proof (reduce_cap _ _ _ _ _ _ Hi H) as Hi'.
  pose proof (reduce_keys _ _ _ _ _ _ ND Hi H) as ND'.
  assert (forall n k, own_slot t n k -> In (n, k) old -> False) as Own.
  { intros n k Ho Hin. specialize (C (n, k)). rewrite (own_slot_key _ _ _ Ho), cnt_app, cnt_single in C.
    apply cnt_in in Hin. destruct (key_dec (n, k) (n, k)); [lia|congruence]. }
  assert (forall n k, In k (runs_of n cs) -> occupies s' (n, k)) as B.
  { intros n k Hk. destruct (runs_of_in_cmd _ _ _ Hk) as [e He].
    destruct (reduce_runs_in_progress _ _ _ _ _ _ _ _ _ ND H He) as [w [I Hw]].
    exists w. split; [apply zlookup_nodup; [exact ND'|exact I]|exact Hw]. }
  assert (forall n, NoDup (runs_of n cs)) as A.
  { intros n. destruct (runs_of n cs) as [|k0 r0] eqn:E; [constructor|]. rewrite <- E.
    assert (exists w, zlookup n (workers s) = Some w) as [w L].
    { destruct (B n k0) as [w' [L' _]]; [rewrite E; left; reflexivity|].
      apply in_keys_zlookup. unfold Keys_ok in *.
      rewrite <- (Forall2_tel_keys _ _ _ (reduce_tel _ _ _ _ _ _ ND Hi H)). eapply zlookup_in. exact L'. }
    destruct (reduce_runs_shape _ _ _ _ _ _ _ _ ND Hi H L) as [w' [reruns [fresh [L' [R [Fa [Sh [Len _]]]]]]]].
    pose proof (wids_nodup _ _ _ Hi' L') as Nw. rewrite R. apply NoDup_app_intro.
    - apply short_nodup. destruct t; try lia. cbn in Tok. unfold results_ok in Tok. lia.
    - destruct Sh as [W|[k [_ [_ W]]]]; rewrite W in Nw; exact (NoDup_app_r _ _ Nw).
    - intros k Hk Hf. destruct (Fa k Hk) as [_ [Hw W]]. rewrite W in Nw. exact (NoDup_app_disj _ _ _ Nw Hw Hf). }
  assert (forall n k, In k (runs_of n cs) -> In (n, k) old -> False) as Cc.
  { intros n k Hk Hold.
    destruct (O (n, k)) as [w [L Hw]]; [apply in_app_iff; right; exact Hold|]. cbn [fst snd] in *.
    destruct (reduce_runs_shape _ _ _ _ _ _ _ _ ND Hi H L) as [w' [reruns [fresh [L' [R [Fa [Sh [Len _]]]]]]]].
    pose proof (wids_nodup _ _ _ Hi' L') as Nw. rewrite R in Hk. apply in_app_iff in Hk. destruct Hk as [Hk|Hk].
    - destruct (Fa k Hk) as [Ho _]. exact (Own n k Ho Hold).
    - destruct Sh as [W|[k1 [Ho [_ W]]]]; rewrite W in Nw.
      + exact (NoDup_app_disj _ _ _ Nw Hw Hk).
      + destruct (Nat.eq_dec k k1) as [->|Hne]; [exact (Own n k1 Ho Hold)|].
        exact (NoDup_app_disj _ _ _ Nw (remove_nat_keeps _ _ _ Hne Hw) Hk). }
  assert (forall x, In x old -> occupies s' x) as D.
  { intros [n k] Hold. destruct (O (n, k)) as [w [L Hw]]; [apply in_app_iff; right; exact Hold|]. cbn [fst snd] in *.
    destruct (reduce_keeps_other_slots _ _ _ _ _ _ n w k ND H (zlookup_In _ _ _ L) Hw) as [w' [I Hw']].
    - intros e rs ->. apply (Own n k); [exists e, rs; reflexivity|exact Hold].
    - exists w'. split; [apply zlookup_nodup; [exact ND'|exact I]|exact Hw']. }
  split.
  - intros x. rewrite cnt_app.
    assert (cnt x old <= 1)%nat as C1 by (specialize (C x); rewrite cnt_app in C; lia).
    assert (cnt x (map kp (runs_list cs)) <= 1)%nat as C2 by (apply cnt_nodup; apply runs_list_nodup; exact A).
    destruct (in_dec key_dec x old) as [I1|I1]; [|apply (count_occ_not_In key_dec) in I1; unfold cnt in *; lia].
    destruct (in_dec key_dec x (map kp (runs_list cs))) as [I2|I2]; [|apply (count_occ_not_In key_dec) in I2; unfold cnt in *; lia].
    exfalso. destruct x as [n k]. apply in_runs_list_of in I2. exact (Cc n k I2 I1).
  - intros x Hx. apply in_app_iff in Hx. destruct Hx as [Hx|Hx]; [exact (D x Hx)|].
    destruct x as [n k]. apply in_runs_list_of in Hx. exact (B n k Hx).
Qed.

(* ---------- the tick buffer ---------- *)
Lemma bufkeys_app a b : bufkeys (a ++ b) = bufkeys a ++ bufkeys b.
Proof. apply flat_map_app. Qed.
Lemma bufkeys_nostep l : Forall nostep l -> bufkeys l = [].
Proof. induction 1 as [|t l N _ IH]; [reflexivity|]. cbn [bufkeys flat_map]. fold (bufkeys l). rewrite N, IH. reflexivity. Qed.
Lemma appended_split more : appended_ok more -> Forall nostep more /\ Forall tick_ok more.
Proof. intros A. split; eapply Forall_impl; try exact A; intros t [X Y]; assumption. Qed.
Lemma nostep_tick_ok t : nostep t -> tick_ok t.
Proof. destruct t; cbn; intros N; try exact I. discriminate N. Qed.

Lemma held_cnt x r :
  cnt x (held r) = (cnt x (map kp (pending r)) + cnt x (map kp (runningw r)) + cnt x (map kd (donew r)) + cnt x (bufkeys (tbuf r)))%nat.
Proof. unfold held. rewrite !cnt_app. lia. Qed.

(* a state whose held keys are a sub-multiset of another's, over the same reducer state *)
Lemma Slots_sub r r2 :
  Slots_ok r -> st r2 = st r -> (forall x, (cnt x (held r2) <= cnt x (held r))%nat) ->
  Forall tick_ok (tbuf r2) -> Forall (fun x => results_ok (snd x)) (donew r2) -> Forall nostep (mailbox r2) ->
  Forall (fun x => nostep (snd x)) (wakeups r2) -> Slots_ok r2.
Proof.
  intros [K Cp N Oc _ _ _ _] E Le T D M W. constructor; try assumption; rewrite ?E; try assumption.
  - intros x. specialize (Le x). specialize (N x). lia.
  - intros x Hx. apply Oc. apply cnt_in. apply cnt_in in Hx. specialize (Le x). lia.
Qed.

Lemma tick_slots P r t rest s' cs r1 :
  Slots_ok r -> tbuf r = t :: rest -> reduce P t (st r) (clock r) = Ok (s', cs) ->
  st r1 = s' -> tbuf r1 = rest -> pending r1 = pending r -> runningw r1 = runningw r -> donew r1 = donew r ->
  mailbox r1 = mailbox r -> wakeups r1 = wakeups r ->
  Runner.outcome (fold_left do_command cs r1) = ORunning -> Slots_ok (fold_left do_command cs r1).
Proof.
  intros [K Cp N Oc Tb Dn Mb Wk] ET H E1 E2 E3 E4 E5 E6 E7 Out.
  destruct (do_commands_live cs r1 Out) as [_ L]. cbn zeta in L.
  destruct L as [Pn [Rn [Dn' [Sn [Mn [[more [Tn Am]] Wn]]]]]].
  destruct (appended_split _ Am) as [Am1 Am2].
  rewrite ET in Tb. inversion Tb as [|? ? Tok Tb']; subst.
  set (old := map kp (pending r) ++ map kp (runningw r) ++ map kd (donew r) ++ bufkeys (tbuf r1)).
  destruct (tick_keys P t (st r) (clock r) (st r1) cs old K Cp Tok H) as [C' O'].
  { intros x. specialize (N x). rewrite held_cnt, ET in N. unfold old. cbn [bufkeys flat_map] in N. fold (bufkeys (tbuf r1)) in N.
    rewrite !cnt_app in *. lia. }
  { intros x Hx. apply Oc. unfold held, old in *. rewrite ET. cbn [bufkeys flat_map]. fold (bufkeys (tbuf r1)).
    rewrite !in_app_iff in *. tauto. }
  assert (forall x, cnt x (held (fold_left do_command cs r1)) = cnt x (old ++ map kp (runs_list cs))) as HC.
  { intros x. rewrite held_cnt, Pn, Rn, Dn', Tn, E3, E4, E5, bufkeys_app, (bufkeys_nostep _ Am1), map_app. unfold old.
    rewrite !cnt_app. cbn. lia. }
  constructor.
  - rewrite Sn. eapply reduce_keys; eassumption.
  - rewrite Sn. eapply reduce_cap; eassumption.
  - intros x. rewrite HC. apply C'.
  - intros x Hx. rewrite Sn. apply O'. apply cnt_in. rewrite <- HC. apply cnt_in. exact Hx.
  - rewrite Tn. apply Forall_app. split; assumption.
  - rewrite Dn', E5. exact Dn.
  - rewrite Mn, E6. exact Mb.
  - apply Wn. rewrite E7. exact Wk.
Qed.

Lemma drain_outcome P : forall f r, Runner.outcome (drain_ticks P r f) = ORunning -> Runner.outcome r = ORunning.
Proof.
  intros f r H. destruct (Runner.outcome r) eqn:E; [reflexivity|..]; destruct f; cbn [drain_ticks] in H; rewrite E in H; congruence.
Qed.

Lemma drain_slots P : forall f r, Slots_ok r -> Runner.outcome (drain_ticks P r f) = ORunning -> Slots_ok (drain_ticks P r f).
Proof.
  induction f as [|f IH]; intros r S H; cbn [drain_ticks] in *.
  - destruct (Runner.outcome r); try exact S. destruct (tbuf r); [exact S|discriminate H].
  - destruct (Runner.outcome r) eqn:Or; try exact S. destruct (tbuf r) as [|t rest] eqn:ET; [exact S|].
    match type of H with context [if ?b then _ else _] => destruct b eqn:Idle end.
    + (* the idle check is dropped *)
      apply IH; [|exact H]. destruct t; try discriminate Idle.
      eapply Slots_sub; [exact S|reflexivity| | | | |]; cbn [upd tbuf donew mailbox wakeups].
      * intros x. rewrite !held_cnt. cbn [upd tbuf donew pending runningw]. rewrite ET.
        unfold bufkeys. cbn [flat_map tick_key app]. lia.
      * pose proof (so_tbuf _ S) as T. rewrite ET in T. inversion T; assumption.
      * exact (so_done _ S).
      * exact (so_mail _ S).
      * exact (so_wake _ S).
    + cbn [st clock upd] in *.
      destruct (reduce P t (st r) (clock r)) as [[s' cs]|c] eqn:R; [|discriminate H].
      apply IH; [|exact H]. apply drain_outcome in H.
      eapply (tick_slots P r t rest s' cs); try eassumption;
        unfold log_idle; destruct (publishes_idle cs); reflexivity.
Qed.

(* ---------- waiting: start the pending workers, harvest one completion ---------- *)
Lemma cnt_nil x : cnt x [] = 0%nat.
Proof. reflexivity. Qed.
Lemma cnt_cons x h t : cnt x (h :: t) = (cnt x [h] + cnt x t)%nat.
Proof. change (h :: t) with ([h] ++ t). apply cnt_app. Qed.
Lemma nth_split_cnt x : forall c (l : list (Z * nat * event * list result)) a,
  nth_error l c = Some a ->
  (cnt x (map kd (firstn c l ++ skipn (S c) l)) + cnt x [kd a] = cnt x (map kd l))%nat.
Proof.
  induction c as [|c IH]; intros [|h t] a E; try discriminate E.
  - cbn in E. inversion E; subst. cbn [firstn skipn app map]. rewrite (cnt_cons x (kd a) (map kd t)). lia.
  - cbn [nth_error] in E. specialize (IH t a E).
    change (firstn (S c) (h :: t)) with (h :: firstn c t). change (skipn (S (S c)) (h :: t)) with (skipn (S c) t).
    cbn [app map]. rewrite (cnt_cons x (kd h) (map kd t)), (cnt_cons x (kd h) (map kd (firstn c t ++ skipn (S c) t))). lia.
Qed.
Lemma Forall_drop_nth {A} (Q : A -> Prop) : forall c l, Forall Q l -> Forall Q (firstn c l ++ skipn (S c) l).
Proof.
  induction c as [|c IH]; intros [|h t] F; cbn [firstn skipn app]; try exact F.
  - inversion F; assumption.
  - inversion F; subst. constructor; [assumption|apply IH; assumption].
Qed.
Lemma nth_error_Forall {A} (Q : A -> Prop) l c a : Forall Q l -> nth_error l c = Some a -> Q a.
Proof. intros F E. rewrite Forall_forall in F. apply F. eapply nth_error_In. exact E. Qed.
Lemma due_nostep now : forall l d rest,
  Forall (fun x : Z * Z * tick => nostep (snd x)) l -> due now l = (d, rest) ->
  Forall nostep d /\ Forall (fun x : Z * Z * tick => nostep (snd x)) rest.
Proof.
  induction l as [|[[t s] k] l IH]; intros d rest F E; cbn [due] in E.
  - inversion E; subst. split; constructor.
  - destruct (Z.leb t now).
    + destruct (due now l) as [d0 r0] eqn:D. inversion E; subst. inversion F; subst.
      destruct (IH _ _ H2 eq_refl) as [X Y]. split; [constructor; assumption|exact Y].
    + inversion E; subst. split; [constructor|exact F].
Qed.

Local Arguments skipn : simpl never.
Local Arguments firstn : simpl never.
Lemma wait_slots r c r2 : Slots_ok r -> wait_step r c = Some r2 -> Slots_ok r2.
Proof.
  intros S H. unfold wait_step in H.
  pose proof (so_tbuf _ S) as T. pose proof (so_done _ S) as D. pose proof (so_mail _ S) as M. pose proof (so_wake _ S) as W.
  destruct (nth_error (donew r) c) as [[[[s w] e] rs]|] eqn:N.
  - pose proof (nth_split_cnt) as Sp. pose proof (nth_error_Forall _ _ _ _ D N) as Rk. cbn [snd] in Rk.
    destruct (has_stop (cfg (st r)) rs); injection H as <-;
      (eapply Slots_sub; [exact S|reflexivity| | | | |]; cbn [log_fire set_wait tbuf donew mailbox wakeups]).
    + intros x. specialize (Sp x _ _ _ N). rewrite !held_cnt. cbn [log_fire set_wait pending runningw donew tbuf map].
      rewrite bufkeys_app, cnt_app. unfold bufkeys at 2. cbn [flat_map tick_key app]. change (kd (s, w, e, rs)) with ((s, w) : key) in Sp. rewrite ?cnt_nil. lia.
    + apply Forall_app. split; [exact T|constructor; [exact Rk|constructor]].
    + constructor.
    + exact M.
    + exact W.
    + intros x. specialize (Sp x _ _ _ N). rewrite !held_cnt. cbn [log_fire set_wait pending runningw donew tbuf map].
      rewrite bufkeys_app, !map_app, !cnt_app. unfold bufkeys at 2. cbn [flat_map tick_key app].
      rewrite map_app, cnt_app in Sp. change (kd (s, w, e, rs)) with ((s, w) : key) in Sp. rewrite ?cnt_nil. lia.
    + apply Forall_app. split; [exact T|constructor; [exact Rk|constructor]].
    + apply Forall_drop_nth. exact D.
    + exact M.
    + exact W.
  - destruct (donew r) as [|d0 dr] eqn:Ed; [|discriminate H].
    destruct (mailbox r) as [|t mb] eqn:Em.
    + destruct (due (clock r) (wakeups r)) as [d rest] eqn:Du.
      destruct (due_nostep _ _ _ _ W Du) as [Nd Nr].
      destruct d as [|d1 dd].
      * destruct (pending r) eqn:Ep; [discriminate H|]. injection H as <-.
        eapply Slots_sub; [exact S|reflexivity| | | | |]; cbn [log_fire set_wait tbuf donew mailbox wakeups]; try assumption; try constructor.
        intros x. rewrite !held_cnt. cbn [log_fire set_wait pending runningw donew tbuf map]. rewrite Ed, Ep, map_app, !cnt_app. cbn [map]. rewrite ?cnt_nil. lia.
      * injection H as <-.
        eapply Slots_sub; [exact S|reflexivity| | | | |]; cbn [log_fire set_wait tbuf donew mailbox wakeups]; try assumption; try constructor.
        -- intros x. rewrite !held_cnt. cbn [log_fire set_wait pending runningw donew tbuf map].
           rewrite Ed, bufkeys_app, (bufkeys_nostep _ Nd), map_app, !cnt_app. cbn [map]. rewrite ?cnt_nil. lia.
        -- apply Forall_app. split; [exact T|]. eapply Forall_impl; [|exact Nd]. apply nostep_tick_ok.
    + injection H as <-. inversion M; subst.
      eapply Slots_sub; [exact S|reflexivity| | | | |]; cbn [log_fire set_wait tbuf donew mailbox wakeups]; try assumption; try constructor.
      * intros x. rewrite !held_cnt. cbn [log_fire set_wait pending runningw donew tbuf map].
        rewrite Ed, bufkeys_app, (bufkeys_nostep [t]) by (constructor; [assumption|constructor]).
        rewrite map_app, !cnt_app. cbn [map]. rewrite ?cnt_nil. lia.
      * apply Forall_app. split; [exact T|constructor; [apply nostep_tick_ok; assumption|constructor]].
Qed.

Lemma rub_slots P : forall f r, Slots_ok r -> Runner.outcome (run_until_blocked P r f) = ORunning -> Slots_ok (run_until_blocked P r f).
Proof.
  induction f as [|f IH]; intros r S; cbn [run_until_blocked].
  - destruct (Runner.outcome r); intros H; try exact S. discriminate H.
  - destruct (Runner.outcome (drain_ticks P r tick_fuel)) eqn:O1; intros H; try (rewrite O1 in H; discriminate H).
    pose proof (drain_slots P _ _ S O1) as S1.
    destruct (wait_step (drain_ticks P r tick_fuel) 0) as [r2|] eqn:Wt; [|exact S1].
    apply IH; [eapply wait_slots; eassumption|exact H].
Qed.

(* ---------- environment actions ---------- *)
Lemma take_worker_cnt x s w : forall l e l',
  take_worker s w l = Some (e, l') -> (cnt x (map kp l) = cnt x (map kp l') + cnt x [(s, w)])%nat.
Proof.
  induction l as [|[[s1 w1] e1] t IH]; intros e l' H; cbn [take_worker] in H; [discriminate|].
  cbn [map]. rewrite (cnt_cons x _ (map kp t)).
  destruct (Z.eqb s s1 && Nat.eqb w w1) eqn:B.
  - apply andb_true_iff in B. destruct B as [B1 B2]. apply Z.eqb_eq in B1. apply Nat.eqb_eq in B2. subst.
    inversion H; subst. unfold kp at 1. cbn [fst snd]. apply Nat.add_comm.
  - destruct (take_worker s w t) as [[e0 t0]|] eqn:Tk; [|discriminate]. inversion H; subst.
    specialize (IH _ _ eq_refl). cbn [map]. rewrite (cnt_cons x _ (map kp t0)). lia.
Qed.

Lemma is_add_nostep t : is_add t = true -> nostep t.
Proof. destruct t; cbn; try discriminate; reflexivity. Qed.

Definition Good (r : rstate) : Prop := Runner.outcome r = ORunning -> Slots_ok r.

Lemma act_good P r a : action_ok a -> Good r -> Good (act P r a).
Proof.
  intros Ok G. unfold act. destruct (Runner.outcome r) eqn:O; try exact G.
  specialize (G O). intros H. apply rub_slots; [|exact H].
  destruct a as [s w sends rs|t|dt]; cbn [action_ok] in Ok.
  - destruct (take_worker s w (runningw r)) as [[e run']|] eqn:Tk; [|exact G].
    destruct Ok as [Sd Rk].
    eapply Slots_sub; [exact G|reflexivity| | | | |]; cbn [tbuf donew mailbox wakeups].
    + intros x. rewrite !held_cnt. cbn [pending runningw donew tbuf]. rewrite map_app, cnt_app.
      rewrite (take_worker_cnt x _ _ _ _ _ Tk). cbn [map]. unfold kd at 2. unfold kp at 3. cbn [fst snd]. lia.
    + exact (so_tbuf _ G).
    + apply Forall_app. split; [exact (so_done _ G)|constructor; [exact Rk|constructor]].
    + apply Forall_app. split; [exact (so_mail _ G)|]. rewrite forallb_forall in Sd. apply Forall_forall.
      intros t Ht. apply is_add_nostep. apply Sd. exact Ht.
    + exact (so_wake _ G).
  - eapply Slots_sub; [exact G|reflexivity| | | | |]; cbn [tbuf donew mailbox wakeups].
    + intros x. rewrite !held_cnt. cbn [pending runningw donew tbuf]. lia.
    + exact (so_tbuf _ G).
    + exact (so_done _ G).
    + apply Forall_app. split; [exact (so_mail _ G)|constructor; [apply is_add_nostep; exact Ok|constructor]].
    + exact (so_wake _ G).
  - eapply Slots_sub; [exact G|reflexivity| | | | |]; cbn [tbuf donew mailbox wakeups].
    + intros x. rewrite !held_cnt. cbn [pending runningw donew tbuf]. lia.
    + exact (so_tbuf _ G).
    + exact (so_done _ G).
    + exact (so_mail _ G).
    + exact (so_wake _ G).
Qed.

Lemma start_slots s e now : Keys_ok s -> Inv_state s -> Slots_ok (start s e now).
Proof.
  intros K Cp. constructor; cbn [start st tbuf donew mailbox wakeups].
  - exact K.
  - exact Cp.
  - intros x. unfold held. cbn. lia.
  - intros x [].
  - constructor; [exact I|constructor].
  - constructor.
  - constructor.
  - constructor.
Qed.

(* C01, runner level: for EVERY schedule of worker completions, deliveries and clock advances, while the run is live the
   in-flight invocations (to be started, started, finished-not-harvested, result tick buffered) sit on pairwise distinct
   (step, slot) keys, each of them a slot of the step's in_progress list *)
Theorem run_slots_ok P s e now acts :
  Keys_ok s -> Inv_state s -> Forall action_ok acts ->
  Runner.outcome (run_at P s e now acts) = ORunning -> Slots_ok (run_at P s e now acts).
Proof.
  intros K Cp F. unfold run_at.
  assert (Good (run_until_blocked P (start s e now) loop_fuel)) as G0.
  { intros H. apply rub_slots; [apply start_slots; assumption|exact H]. }
  revert G0. generalize (run_until_blocked P (start s e now) loop_fuel).
  induction F as [|a l Ok _ IH]; intros r G; cbn [fold_left]; [exact G|].
  apply IH. apply act_good; assumption.
Qed.

(* hence: per step, at most num_workers invocations are in flight, whatever the schedule *)
Definition inflight (n : Z) (r : rstate) : list key := filter (fun x => Z.eqb (fst x) n) (held r).

Theorem run_inflight_bounded P s e now acts n w :
  Keys_ok s -> Inv_state s -> Forall action_ok acts ->
  Runner.outcome (run_at P s e now acts) = ORunning ->
  zlookup n (workers (st (run_at P s e now acts))) = Some w ->
  NoDup (held (run_at P s e now acts)) /\
  (length (inflight n (run_at P s e now acts)) <= nworkers (w_cfg w))%nat.
Proof.
  intros K Cp F O L. pose proof (run_slots_ok P s e now acts K Cp F O) as S.
  set (r := run_at P s e now acts) in *.
  assert (NoDup (held r)) as N by (apply cnt_nodup; exact (so_nodup _ S)).
  split; [exact N|].
  assert (NoDup (map snd (inflight n r))) as N2.
  { unfold inflight. generalize (held r) N. induction l as [|[a b] t IH]; intros Nl; [constructor|].
    inversion Nl; subst. cbn [filter fst]. destruct (Z.eqb_spec a n) as [->|Hne]; [|apply IH; assumption].
    cbn [map snd]. constructor; [|apply IH; assumption].
    intros Hin. apply in_map_iff in Hin. destruct Hin as [[a' b'] [Eb Hin]]. cbn in Eb. subst b'.
    apply filter_In in Hin. destruct Hin as [Hin Ea]. cbn in Ea. apply Z.eqb_eq in Ea. subst a'. contradiction. }
  assert (incl (map snd (inflight n r)) (wids w)) as Inc.
  { intros k Hk. apply in_map_iff in Hk. destruct Hk as [[a b] [Eb Hin]]. cbn in Eb. subst b.
    apply filter_In in Hin. destruct Hin as [Hin Ea]. cbn in Ea. apply Z.eqb_eq in Ea. subst a.
    destruct (so_occ _ S _ Hin) as [w0 [L0 Hw]]. cbn [fst snd] in *. rewrite L in L0. inversion L0; subst. exact Hw. }
  pose proof (NoDup_incl_length N2 Inc) as Len. rewrite map_length in Len.
  destruct (Inv_ws_zlookup _ _ _ (so_cap _ S) L) as [Cap _]. unfold wids in Len. rewrite map_length in Len. lia.
Qed.
