(* C03: queued work never stalls (reducer invariant) and what an idle announcement implies. *)
From Coq Require Import List ZArith Bool PeanoNat Lia.
Import ListNotations.
From WF Require Import Model.Engine Proofs.EngineCap Proofs.EngineSlots Proofs.EngineRoute.
Open Scope Z_scope.

(* a step with waiting events runs at its full worker limit *)
Definition nostall_w (w : wstate) : Prop :=
  queue w = [] \/ (nworkers (w_cfg w) <= length (inprogress w))%nat.
Definition Nostall_ws (ws : list (Z * wstate)) : Prop := Forall (fun p => nostall_w (snd p)) ws.
Definition Nostall (s : state) : Prop := Nostall_ws (workers s).

Lemma nostall_same w w' :
  queue w' = queue w -> length (inprogress w') = length (inprogress w) -> w_cfg w' = w_cfg w ->
  nostall_w w -> nostall_w w'.
Proof. unfold nostall_w. intros -> -> ->. auto. Qed.

Lemma aoe_nostall step a w now w' cs :
  nostall_w w -> add_or_enqueue step a w now = Ok (w', cs) -> nostall_w w'.
Proof.
  unfold add_or_enqueue, nostall_w. intros Hn.
  destruct (Nat.ltb (length (inprogress w)) (nworkers (w_cfg w))) eqn:E.
  - apply Nat.ltb_lt in E. destruct (first_free _ _ _); [|discriminate].
    intros H; inversion H; subst; clear H. cbn [queue set_w]. left.
    destruct Hn as [Hq|Hc]; [exact Hq|lia].
  - apply Nat.ltb_ge in E. intros H; inversion H; subst; clear H. right. exact E.
Qed.

(* the drain loop with enough fuel always ends in a non-stalled worker, whatever it started from *)
Lemma drain_nostall step fuel : forall w now w' cs,
  (length (queue w) <= fuel)%nat -> drain step w now fuel = Ok (w', cs) -> nostall_w w'.
Proof.
  induction fuel as [|f IH]; intros w now w' cs Hf H; cbn [drain] in H.
  - inversion H; subst. left. destruct (queue w'); [reflexivity|cbn in Hf; lia].
  - destruct (queue w) as [|a q] eqn:Q.
    + inversion H; subst. left. exact Q.
    + destruct (Nat.ltb _ _) eqn:E.
      2:{ inversion H; subst. right. apply Nat.ltb_ge in E. exact E. }
      destruct (add_or_enqueue _ _ _ _) as [[w1 c1]|] eqn:A; [|discriminate].
      destruct (drain step w1 now f) as [[w2 c2]|] eqn:D; [|discriminate].
      inversion H; subst; clear H. eapply IH; [|exact D].
      unfold add_or_enqueue in A. cbn [inprogress w_cfg set_w] in A. rewrite E in A.
      destruct (first_free _ _ _); [|discriminate]. inversion A; subst. cbn [queue set_w].
      cbn [length] in Hf. lia.
Qed.

Lemma waiter_pass_nostall step e : forall todo done w now acc hit w' cs h,
  nostall_w w -> waiter_pass step e done todo w now acc hit = Ok (w', cs, h) -> nostall_w w'.
Proof.
  induction todo as [|wt rest IH]; intros done w now acc hit w' cs h Hn H; cbn [waiter_pass] in H.
  - inversion H; subst; exact Hn.
  - destruct (negb (w_pending wt) && waiter_matches e wt).
    + destruct (add_or_enqueue _ _ _ _) as [[w2 c2]|] eqn:A; [|discriminate].
      eapply IH; [|exact H]. eapply aoe_nostall; [|exact A].
      eapply nostall_same; [| | |exact Hn]; reflexivity.
    + eapply IH; eassumption.
Qed.

Lemma add_waiters_nostall e target : forall ws now ws' cs hits,
  Nostall_ws ws -> add_waiters e target ws now = Ok (ws', cs, hits) -> Nostall_ws ws'.
Proof.
  induction ws as [|[n w] t IH]; intros now ws' cs hits Hn H; cbn [add_waiters] in H.
  - inversion H; subst; constructor.
  - inversion Hn as [|? ? Hw Ht]; subst. cbn [snd] in Hw.
    destruct (if target_ok target n then _ else _) as [[[w1 c1] h1]|] eqn:W; [|discriminate].
    destruct (add_waiters e target t now) as [[[t' c'] hs]|] eqn:R; [|discriminate].
    inversion H; subst. constructor; [|eapply IH; eassumption]. cbn [snd].
    destruct (target_ok target n).
    + eapply waiter_pass_nostall; eassumption.
    + inversion W; subst; exact Hw.
Qed.

Lemma add_routes_nostall a target skip : forall ws now ws' cs h,
  Nostall_ws ws -> add_routes a target skip ws now = Ok (ws', cs, h) -> Nostall_ws ws'.
Proof.
  induction ws as [|[n w] t IH]; intros now ws' cs h Hn H; cbn [add_routes] in H.
  - inversion H; subst; constructor.
  - inversion Hn as [|? ? Hw Ht]; subst. cbn [snd] in Hw.
    set (take := negb (zmem n skip) && zmem (ety (a_ev a)) (accepts (w_cfg w)) && target_ok target n) in *.
    destruct (if take then add_or_enqueue n a w now else Ok (w, [])) as [[w1 c1]|] eqn:W; [|discriminate].
    destruct (add_routes a target skip t now) as [[[t' c'] h']|] eqn:R; [|discriminate].
    inversion H; subst. constructor; [|eapply IH; eassumption]. cbn [snd].
    destruct take.
    + eapply aoe_nostall; eassumption.
    + inversion W; subst; exact Hw.
Qed.

Lemma process_add_nostall a target s now s' cs :
  Nostall s -> process_add a target s now = Ok (s', cs) -> Nostall s'.
Proof.
  unfold process_add, Nostall. intros Hn H.
  destruct (add_waiters _ _ _ _) as [[[ws1 cs1] hits]|] eqn:W; [|discriminate].
  destruct (add_routes _ _ _ _ _) as [[[ws2 cs2] routed]|] eqn:R; [|discriminate].
  inversion H; subst; cbn [workers with_workers].
  eapply add_routes_nostall; [|exact R]. eapply add_waiters_nostall; eassumption.
Qed.

Lemma Nostall_zupdate k w ws : Nostall_ws ws -> nostall_w w -> Nostall_ws (zupdate k w ws).
Proof.
  unfold Nostall_ws. induction ws as [|[k' w'] t IH]; intros Hn Hw; cbn [zupdate].
  - constructor; [exact Hw|constructor].
  - inversion Hn; subst. destruct (Z.eqb k k'); constructor; auto.
Qed.

Lemma Nostall_zlookup k ws w : Nostall_ws ws -> zlookup k ws = Some w -> nostall_w w.
Proof.
  unfold Nostall_ws. induction ws as [|[k' w'] t IH]; cbn [zlookup]; intros Hn H; [discriminate|].
  inversion Hn; subst. destruct (Z.eqb k k'); [inversion H; subst; assumption|auto].
Qed.

Lemma Nostall_clear ws : Nostall_ws ws -> Nostall_ws (map (fun p => (fst p, clear_cw (snd p))) ws).
Proof.
  unfold Nostall_ws. intros H. apply Forall_map. eapply Forall_impl; [|exact H].
  intros [k w] Hw. cbn in *. eapply nostall_same; [| | |exact Hw]; reflexivity.
Qed.

(* the result loop never touches queues or the number of running invocations *)
Definition acc_ns (a : acc) : Prop := Nostall (k_state a) /\ nostall_w (k_w a).

Lemma one_result_ns P step tev dc now a r a' :
  acc_ns a -> one_result P step tev dc now a r = Ok a' -> acc_ns a'.
Proof.
  intros [Hs Hw] H. unfold one_result in H.
  break_match H; try discriminate; inversion H; subst; clear H; split; cbn; try assumption;
    try (eapply nostall_same; [| | |exact Hw]; cbn [queue inprogress w_cfg set_w clear_cw];
         rewrite ?replace_ip_length; reflexivity).
  unfold Nostall; cbn. apply Nostall_clear. apply Nostall_zupdate; assumption.
Qed.

Lemma results_loop_ns P step tev dc now : forall rs a a',
  acc_ns a -> results_loop P step tev dc now a rs = Ok a' -> acc_ns a'.
Proof.
  induction rs as [|r t IH]; intros a a' Hi H; cbn [results_loop] in H.
  - inversion H; subst; exact Hi.
  - destruct (one_result P step tev dc now a r) as [a1|] eqn:O; [|discriminate].
    eapply IH; [|exact H]. eapply one_result_ns; eassumption.
Qed.

Lemma is_exit_app a b : existsb is_exit (a ++ b) = existsb is_exit a || existsb is_exit b.
Proof. apply existsb_app. Qed.

Lemma process_step_nostall P step wid tev rs s now s' cs :
  Nostall s -> process_step P step wid tev rs s now = Ok (s', cs) ->
  existsb is_exit cs = false -> Nostall s'.
Proof.
  unfold process_step. intros Hn H Hex.
  destruct (zlookup step (workers s)) as [w|] eqn:L; [|discriminate].
  destruct (find_ip wid (inprogress w)) as [this|]; [|discriminate].
  destruct (results_loop _ _ _ _ _ _ _) as [a|] eqn:RL; [|discriminate].
  assert (acc_ns a) as [As Aw].
  { eapply results_loop_ns; [|exact RL]. split; cbn; [exact Hn|eapply Nostall_zlookup; eassumption]. }
  destruct (k_keep a).
  - destruct (existsb is_exit (k_cmds a)) eqn:X.
    + inversion H; subst. congruence.
    + destruct (drain _ _ _ _) as [[w3 c3]|] eqn:D; [|discriminate].
      inversion H; subst. unfold Nostall, put_w; cbn [workers with_workers].
      apply Nostall_zupdate; [exact As|]. eapply drain_nostall; [|exact D]. lia.
  - destruct (existsb is_exit (k_cmds a)) eqn:X.
    + inversion H; subst. cbn [existsb is_exit] in Hex. cbn in Hex. congruence.
    + destruct (drain _ _ _ _) as [[w3 c3]|] eqn:D; [|discriminate].
      inversion H; subst. unfold Nostall, put_w; cbn [workers with_workers].
      apply Nostall_zupdate; [exact As|]. eapply drain_nostall; [|exact D]. cbn [queue set_w]. lia.
Qed.

Lemma process_waiter_timeout_nostall step wid s now s' cs :
  Nostall s -> process_waiter_timeout step wid s now = Ok (s', cs) -> Nostall s'.
Proof.
  unfold process_waiter_timeout. intros Hn H.
  destruct (zlookup step (workers s)) as [w|] eqn:L; [|inversion H; subst; exact Hn].
  destruct (find_waiter_idx _ _ _); [|inversion H; subst; exact Hn].
  destruct (nth_error _ _) as [wt|]; [|inversion H; subst; exact Hn].
  destruct (w_resolved wt); [inversion H; subst; exact Hn|].
  destruct (add_or_enqueue _ _ _ _) as [[w2 c2]|] eqn:A; [|discriminate].
  inversion H; subst. unfold Nostall, put_w; cbn [workers with_workers].
  apply Nostall_zupdate; [exact Hn|]. eapply aoe_nostall; [|exact A].
  eapply nostall_same; [| | |eapply Nostall_zlookup; eassumption]; reflexivity.
Qed.

Lemma exit_snoc_idle cs (b : bool) : existsb is_exit (if b then cs ++ [CSchedIdle] else cs) = existsb is_exit cs.
Proof. destruct b; [|reflexivity]. rewrite existsb_app. cbn. rewrite orb_false_r. reflexivity. Qed.

(* every tick that does not end the run keeps "no stalled queue" *)
Theorem reduce_nostall P t s now s' cs :
  Nostall s -> reduce P t s now = Ok (s', cs) -> existsb is_exit cs = false -> Nostall s'.
Proof.
  intros Hn H Hex. unfold reduce in H. destruct t.
  - destruct (process_add _ _ _ _) as [[s1 c1]|] eqn:E; [|discriminate].
    inversion H; subst. eapply process_add_nostall; eassumption.
  - destruct (process_step _ _ _ _ _ _ _) as [[s1 c1]|] eqn:E; [|discriminate].
    inversion H; subst. rewrite exit_snoc_idle in Hex. eapply process_step_nostall; eassumption.
  - inversion H; subst; exact Hn.
  - inversion H; subst; exact Hn.
  - inversion H; subst; exact Hn.
  - destruct (process_waiter_timeout _ _ _ _) as [[s1 c1]|] eqn:E; [|discriminate].
    inversion H; subst. eapply process_waiter_timeout_nostall; eassumption.
  - inversion H; subst; exact Hn.
  - inversion H; subst; exact Hn.
Qed.

(* histories in which no tick ended the run *)
Fixpoint run_live (P : policy) (s : state) (ts : list (tick * Z)) : res state :=
  match ts with
  | [] => Ok s
  | (t, now) :: r =>
    match reduce P t s now with
    | Err c => Err c
    | Ok (s1, c1) => if existsb is_exit c1 then Err 100 else run_live P s1 r
    end
  end.

Theorem run_live_nostall P : forall ts s s', Nostall s -> run_live P s ts = Ok s' -> Nostall s'.
Proof.
  induction ts as [|[t now] r IH]; intros s s' Hn H; cbn [run_live] in H.
  - inversion H; subst; exact Hn.
  - destruct (reduce P t s now) as [[s1 c1]|] eqn:R; [|discriminate].
    destruct (existsb is_exit c1) eqn:X; [discriminate|].
    eapply IH; [|exact H]. eapply reduce_nostall; eassumption.
Qed.

Lemma blank_state_nostall s : Nostall (blank_state s).
Proof.
  unfold Nostall, Nostall_ws, blank_state; cbn [workers]. apply Forall_map. apply Forall_forall.
  intros [k w] _. left. reflexivity.
Qed.

(* resuming re-establishes it from any state with unique step names *)
Definition Ns_on (keys : list Z) (ws : list (Z * wstate)) : Prop :=
  forall k w, In k keys -> zlookup k ws = Some w -> nostall_w w.

Lemma rewind_worker_nostall step w now w' cs : rewind_worker step w now = Ok (w', cs) -> nostall_w w'.
Proof. unfold rewind_worker. intros H. eapply drain_nostall; [|exact H]. cbn [queue set_w]. lia. Qed.

Lemma rewind_all_ns : forall order ws now cs ws' cs' keys,
  Ns_on keys ws -> rewind_all order ws now cs = Ok (ws', cs') ->
  Ns_on (map fst order ++ keys) ws'.
Proof.
  induction order as [|[n w] t IH]; intros ws now cs ws' cs' keys Hk H; cbn [rewind_all] in H.
  - inversion H; subst. exact Hk.
  - destruct (rewind_worker n w now) as [[w1 c1]|] eqn:R; [|discriminate].
    specialize (IH (zupdate n w1 ws) now (cs ++ c1) ws' cs' (n :: keys)).
    assert (Ns_on (n :: keys) (zupdate n w1 ws)) as Hk'.
    { intros k v [<-|Hin] L.
      - rewrite zlookup_zupdate_eq in L. inversion L; subst. eapply rewind_worker_nostall; exact R.
      - destruct (Z.eq_dec k n) as [->|Hne].
        + rewrite zlookup_zupdate_eq in L. inversion L; subst. eapply rewind_worker_nostall; exact R.
        + rewrite zlookup_zupdate_neq in L by exact Hne. eapply Hk; eassumption. }
    specialize (IH Hk' H).
    intros k v Hin L. apply (IH k v); [|exact L].
    cbn [map fst] in Hin. rewrite in_app_iff in *. destruct Hin as [[<-|Hin]|Hin].
    + right; left; reflexivity.
    + left; exact Hin.
    + right; right; exact Hin.
Qed.

Theorem rewind_nostall s now s' cs : Keys_ok s -> rewind s now = Ok (s', cs) -> Nostall s'.
Proof.
  unfold rewind, Keys_ok. intros ND H.
  destruct (rewind_all _ _ _ _) as [[ws c]|] eqn:R; [|discriminate].
  inversion H; subst; clear H. unfold Nostall, Nostall_ws; cbn [workers with_workers].
  assert (map fst ws = map fst (workers s)) as Hkeys.
  { eapply rewind_all_keys; [|exact R]. intros k Hk. apply sort_workers_keys. exact Hk. }
  pose proof (rewind_all_ns _ _ _ _ _ _ [] (fun k w (Hin : In k []) _ => match Hin with end) R) as Hon.
  apply Forall_forall. intros [k w] Hin. cbn [snd].
  assert (NoDup (map fst ws)) as ND' by (rewrite Hkeys; exact ND).
  apply (Hon k w).
  - rewrite app_nil_r. apply sort_workers_keys. rewrite <- Hkeys. apply in_map_iff. exists (k, w). split; [reflexivity|exact Hin].
  - apply zlookup_nodup; assumption.
Qed.

(* ---------- idleness ---------- *)
Lemma check_idle_spec s :
  check_idle s = true <->
  running s = true /\ Forall (fun p => queue (snd p) = [] /\ inprogress (snd p) = []) (workers s).
Proof.
  unfold check_idle. rewrite andb_true_iff, forallb_forall, Forall_forall.
  split; intros [H1 H2]; (split; [exact H1|]); intros p Hin; specialize (H2 p Hin); unfold wquiet in *.
  - destruct (queue (snd p)); [|discriminate]. destruct (inprogress (snd p)); [|discriminate]. auto.
  - destruct H2 as [-> ->]. reflexivity.
Qed.

Definition is_idle_pub (c : command) : bool := match c with CPublish PIdle => true | _ => false end.

(* WorkflowIdleEvent is published by the idle-check tick only, and only in a quiet state *)
Theorem idle_event_only_when_quiet P s now s' cs :
  reduce P TIdleCheck s now = Ok (s', cs) ->
  s' = s /\ (existsb is_idle_pub cs = true -> check_idle s = true).
Proof.
  cbn [reduce]. intros H; inversion H; subst. split; [reflexivity|].
  destruct (check_idle s'); [reflexivity|cbn; discriminate].
Qed.

Lemma aoe_no_idle step a w now w' cs : add_or_enqueue step a w now = Ok (w', cs) -> existsb is_idle_pub cs = false.
Proof.
  unfold add_or_enqueue. destruct (Nat.ltb _ _).
  - destruct (first_free _ _ _); intros H; inversion H; reflexivity.
  - intros H; inversion H; reflexivity.
Qed.

Lemma drain_no_idle step fuel : forall w now w' cs, drain step w now fuel = Ok (w', cs) -> existsb is_idle_pub cs = false.
Proof.
  induction fuel as [|f IH]; intros w now w' cs H; cbn [drain] in H; [inversion H; reflexivity|].
  destruct (queue w); [inversion H; reflexivity|].
  destruct (Nat.ltb _ _); [|inversion H; reflexivity].
  destruct (add_or_enqueue _ _ _ _) as [[w1 c1]|] eqn:A; [|discriminate].
  destruct (drain step w1 now f) as [[w2 c2]|] eqn:D; [|discriminate].
  inversion H; subst. rewrite existsb_app, (aoe_no_idle _ _ _ _ _ _ A), (IH _ _ _ _ D). reflexivity.
Qed.

(* an UnhandledEvent's idle flag is exactly the idle test of the resulting state *)
Theorem unhandled_idle_flag a target s now s' cs ty tg b :
  process_add a target s now = Ok (s', cs) -> In (CPublish (PUnhandled ty tg b)) cs -> b = check_idle s'.
Proof.
  unfold process_add. intros H Hin.
  destruct (add_waiters _ _ _ _) as [[[ws1 cs1] hits]|] eqn:W; [|discriminate].
  destruct (add_routes _ _ _ _ _) as [[[ws2 cs2] routed]|] eqn:R; [|discriminate].
  inversion H; subst; clear H.
  apply in_app_or in Hin. destruct Hin as [Hin|Hin].
  { exfalso. pose proof (Proofs.EngineRoute.add_waiters_no_unhandled _ _ _ _ _ _ _ W) as X.
    unfold Proofs.EngineRoute.n_unhandled in X. apply length_zero_iff_nil in X.
    assert (In (CPublish (PUnhandled ty tg b)) (filter Proofs.EngineRoute.is_unhandled cs1)) as Y
      by (apply filter_In; split; [exact Hin|reflexivity]).
    rewrite X in Y. exact Y. }
  apply in_app_or in Hin. destruct Hin as [Hin|Hin].
  { exfalso. pose proof (Proofs.EngineRoute.add_routes_no_unhandled _ _ _ _ _ _ _ _ R) as X.
    unfold Proofs.EngineRoute.n_unhandled in X. apply length_zero_iff_nil in X.
    assert (In (CPublish (PUnhandled ty tg b)) (filter Proofs.EngineRoute.is_unhandled cs2)) as Y
      by (apply filter_In; split; [exact Hin|reflexivity]).
    rewrite X in Y. exact Y. }
  destruct (_ || _); [destruct Hin|]. destruct (zmem _ _); [destruct Hin|].
  destruct Hin as [Hin|[]]. inversion Hin; subst. reflexivity.
Qed.
