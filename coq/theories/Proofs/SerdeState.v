(* C12: the serialized form of the run state is stable after one round trip; what a resumed run holds;
   what it loses (retry counters of running invocations). *)
From Coq Require Import List ZArith Bool PeanoNat Lia Permutation.
Import ListNotations.
From WF Require Import Model.Engine Proofs.EngineCap Model.ServerPersist Proofs.ServerResumeProofs.
Open Scope Z_scope.

Lemma ser_attempt_idem a : ser_attempt (ser_attempt a) = ser_attempt a.
Proof. unfold ser_attempt. cbn. destruct (a_att a); reflexivity. Qed.
Lemma ser_resumed e : ser_attempt (resumed_attempt e) = resumed_attempt e.
Proof. reflexivity. Qed.
Lemma deser_ser_deser_waiter sw : deser_waiter (ser_waiter (deser_waiter sw)) = deser_waiter sw.
Proof. unfold deser_waiter, ser_waiter. cbn. reflexivity. Qed.

Lemma worker_round_trip_stable bw w :
  deser_worker bw (ser_worker (deser_worker bw (ser_worker w))) = deser_worker bw (ser_worker w).
Proof.
  unfold deser_worker, ser_worker. cbn [sq sip scoll swait queue inprogress collected waiters set_w map app].
  f_equal.
  - rewrite app_nil_r, map_app, !map_map. f_equal.
  - rewrite !map_map. apply map_ext. intro x. apply deser_ser_deser_waiter.
Qed.

Lemma assoc_ext {A} : forall (l1 l2 : list (Z * A)),
  NoDup (map fst l1) -> map fst l1 = map fst l2 -> (forall k, zlookup k l1 = zlookup k l2) -> l1 = l2.
Proof.
  induction l1 as [|[k v] t IH]; intros l2 ND Hk Hl; destruct l2 as [|[k2 v2] t2]; try discriminate; [reflexivity|].
  cbn [map fst] in Hk. inversion Hk; subst. inversion ND as [|? ? Hn ND']; subst.
  pose proof (Hl k2) as H0. cbn [zlookup] in H0. rewrite Z.eqb_refl in H0. inversion H0; subst.
  f_equal. apply IH; [exact ND'|assumption|].
  intros k. specialize (Hl k). cbn [zlookup] in Hl. destruct (Z.eqb_spec k k2) as [Heq|Hne]; [|exact Hl].
  subst k.
  assert (zlookup k2 t = None) as N1.
  { destruct (zlookup k2 t) eqn:E; [|reflexivity]. exfalso. apply Hn. eapply zlookup_in. exact E. }
  assert (zlookup k2 t2 = None) as N2.
  { destruct (zlookup k2 t2) eqn:E; [|reflexivity]. exfalso. apply Hn. rewrite H1. eapply zlookup_in. exact E. }
  rewrite N1, N2. reflexivity.
Qed.

Lemma state_eq (a b : state) : running a = running b -> cfg a = cfg b -> workers a = workers b -> a = b.
Proof. destruct a, b; cbn; intros -> -> ->; reflexivity. Qed.

(* deserialize, re-serialize, deserialize again: the same run state *)
Theorem serde_stable_after_one_round_trip base s :
  Keys_ok base -> keys s = keys base ->
  from_ser base (to_ser (from_ser base (to_ser s))) = from_ser base (to_ser s).
Proof.
  intros ND Hk. set (s1 := from_ser base (to_ser s)).
  assert (keys s1 = keys base) as K1 by apply from_ser_keys.
  assert (keys (from_ser base (to_ser s1)) = keys base) as K2 by apply from_ser_keys.
  assert (workers (from_ser base (to_ser s1)) = workers s1) as W.
  { apply assoc_ext.
    - fold (keys (from_ser base (to_ser s1))). rewrite K2. exact ND.
    - fold (keys (from_ser base (to_ser s1))) (keys s1). congruence.
    - intros k. destruct (zlookup k (workers s1)) as [w1|] eqn:L1.
      + destruct (from_ser_lookup base s1 k w1 K1 L1) as [bw [Hb Hr]]. rewrite Hr.
        (* w1 itself is a deserialized worker of s *)
        assert (In k (keys s)) as Hin by (rewrite Hk, <- K1; eapply zlookup_in; exact L1).
        destruct (in_keys_zlookup _ _ Hin) as [w Lw].
        destruct (from_ser_lookup base s k w Hk Lw) as [bw' [Hb' Hr']]. fold s1 in Hr'.
        rewrite Hb in Hb'. inversion Hb'; subst bw'. rewrite L1 in Hr'. inversion Hr'; subst w1.
        rewrite worker_round_trip_stable. reflexivity.
      + destruct (zlookup k (workers (from_ser base (to_ser s1)))) eqn:L2; [|reflexivity].
        exfalso. apply zlookup_in in L2. fold (keys (from_ser base (to_ser s1))) in L2. rewrite K2, <- K1 in L2.
        destruct (in_keys_zlookup _ _ L2) as [v Hv]. unfold keys in *. congruence. }
  apply state_eq; [reflexivity|reflexivity|exact W].
Qed.

(* queued attempts keep their retry count, first-attempt time, last exception and recovery counts *)
Lemma ser_attempt_keeps a :
  a_ev (ser_attempt a) = a_ev a /\ a_att (ser_attempt a) = Some (match a_att a with Some n => n | None => 0 end) /\
  a_first (ser_attempt a) = a_first a /\ a_exn (ser_attempt a) = a_exn a /\ a_rc (ser_attempt a) = a_rc a.
Proof. unfold ser_attempt; cbn. repeat split. Qed.

Theorem resumed_queue_is bw w :
  queue (deser_worker bw (ser_worker w)) = map ser_attempt (queue w) ++ map resumed_attempt (map i_ev (inprogress w)).
Proof. reflexivity. Qed.

(* ... but an invocation that was RUNNING at the snapshot comes back as a first attempt with no recovery counts *)
Lemma resumed_attempt_forgets e :
  a_att (resumed_attempt e) = Some 0 /\ a_rc (resumed_attempt e) = [] /\ a_exn (resumed_attempt e) = None /\
  a_first (resumed_attempt e) = None.
Proof. repeat split. Qed.
