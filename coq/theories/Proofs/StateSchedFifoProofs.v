(* The FIFO-lock semantics (Model/StateSchedFifo.v) is simulated by the guard semantics
   (Model/StateSched.v): every FIFO step is the same guard step or a stutter.  Hence every FIFO run
   ends in a state that a guard run (of a sub-schedule) also reaches, and the serialisability theorem
   proved for all guard schedules holds for asyncio's FIFO discipline too. *)
From Coq Require Import List ZArith Bool Lia Permutation PeanoNat.
Import ListNotations.
From WF Require Import Model.StateStore Model.StateSched Model.StateSchedFifo Proofs.StateSchedProofs.
Local Open Scope nat_scope.

Section Sim.
  Variables St Lo : Type.
  Variable tasks : nat -> task St Lo.
  Variable n : nat.

  Notation fsys := (fsys St Lo).
  Notation sys := (sys St Lo).
  Notation step := (step St Lo tasks n).
  Notation fstep := (fstep St Lo tasks n).

  Definition ph_rel (fp : fphase St Lo) (gp : phase St Lo) : Prop :=
    match fp with
    | FNotStarted | FWaiting => gp = NotStarted
    | FRunning r l => gp = Running r l
    | FFinished => gp = Finished
    end.

  Definition holder_rel (f : fsys) (g : sys) : Prop :=
    match fholder _ _ f with
    | None => holder _ _ g = None /\ fqueue _ _ f = []
    | Some h => t_locked _ _ (tasks h) = true /\
                ((fph _ _ f h = FWaiting /\ holder _ _ g = None) \/
                 ((exists r l, fph _ _ f h = FRunning r l) /\ holder _ _ g = Some h))
    end.

  Definition queue_ok (f : fsys) : Prop :=
    NoDup (fqueue _ _ f) /\
    forall w, In w (fqueue _ _ f) ->
      fph _ _ f w = FWaiting /\ fholder _ _ f <> Some w /\ t_locked _ _ (tasks w) = true.

  (* a locking task that is suspended at an await point is the lock holder *)
  Definition run_ok (f : fsys) : Prop :=
    forall j r l, fph _ _ f j = FRunning r l -> t_locked _ _ (tasks j) = true -> fholder _ _ f = Some j.

  Record R (f : fsys) (g : sys) : Prop := {
    r_sh : fsh _ _ f = sh _ _ g;
    r_order : forder _ _ f = order _ _ g;
    r_ph : forall j, ph_rel (fph _ _ f j) (ph _ _ g j);
    r_holder : holder_rel f g;
    r_queue : queue_ok f;
    r_run : run_ok f
  }.

  Lemma set_fph_same : forall f i p, set_fph St Lo f i p i = p.
  Proof. intros. unfold set_fph. rewrite Nat.eqb_refl. reflexivity. Qed.

  Lemma set_fph_other : forall f i p j, j <> i -> set_fph St Lo f i p j = f j.
  Proof. intros f i p j H. unfold set_fph. apply Nat.eqb_neq in H. rewrite H. reflexivity. Qed.

  (* the common part: task i, which is entitled to run (it holds the lock in both systems, or it is
     not a locking task), executes its next segment in both systems *)
  Lemma advance_sim : forall f g i segs l,
    fsh _ _ f = sh _ _ g -> forder _ _ f = order _ _ g ->
    (forall j, j <> i -> ph_rel (fph _ _ f j) (ph _ _ g j)) ->
    queue_ok f -> ~ In i (fqueue _ _ f) ->
    (forall j r l, j <> i -> fph _ _ f j = FRunning r l -> t_locked _ _ (tasks j) = true -> fholder _ _ f = Some j) ->
    ((t_locked _ _ (tasks i) = true /\ fholder _ _ f = Some i /\ holder _ _ g = Some i) \/
     (t_locked _ _ (tasks i) = false /\ holder_rel f g /\ fholder _ _ f <> Some i)) ->
    R (fadvance St Lo tasks i segs l f) (advance St Lo tasks i segs l g).
  Proof.
    intros f g i segs l Hsh Hord Hph [QN QW] Hni Hrun HS.
    (* finishing *)
    assert (FIN : forall s, R (ffinish St Lo tasks i s f) (finish St Lo tasks i s g)).
    { intro s. unfold ffinish, finish. constructor; cbn [fsh fholder fqueue fph forder sh holder ph order].
      - reflexivity.
      - rewrite Hord. reflexivity.
      - intro j. destruct (Nat.eq_dec j i) as [->|N].
        + rewrite set_fph_same, set_ph_same. reflexivity.
        + rewrite set_fph_other, set_ph_other by exact N. apply Hph. exact N.
      - unfold holder_rel. cbn [fsh fholder fqueue fph forder sh holder ph order].
        destruct HS as [[LK [HF HG]]|[LK [HR HN]]]; rewrite LK.
        + destruct (fqueue _ _ f) as [|w q] eqn:EQ; cbn.
          * auto.
          * destruct (QW w (or_introl eq_refl)) as [W1 [W2 W3]].
            split; [exact W3|]. left. split; [|reflexivity].
            assert (w <> i) by (intro; subst; apply Hni; left; reflexivity).
            rewrite set_fph_other by assumption. exact W1.
        + unfold holder_rel in HR. destruct (fholder _ _ f) as [h|] eqn:EH; [|exact HR].
          assert (h <> i) by congruence.
          rewrite set_fph_other by assumption. exact HR.
      - unfold queue_ok. cbn [fsh fholder fqueue fph forder].
        destruct HS as [[LK [HF HG]]|[LK [HR HN]]]; rewrite LK.
        + destruct (fqueue _ _ f) as [|w q] eqn:EQ; cbn.
          * split; [constructor|intros w []].
          * inversion QN; subst. split; [assumption|].
            intros x Hx. destruct (QW x (or_intror Hx)) as [W1 [W2 W3]].
            assert (x <> i) by (intro; subst; apply Hni; right; exact Hx).
            rewrite set_fph_other by assumption. repeat split; auto.
            intro E. inversion E; subst. contradiction.
        + split; [exact QN|]. intros x Hx. destruct (QW x Hx) as [W1 [W2 W3]].
          assert (x <> i) by (intro; subst; contradiction).
          rewrite set_fph_other by assumption. auto.
      - unfold run_ok. cbn [fsh fholder fqueue fph forder]. intros j r l0 Hj Lj.
        destruct (Nat.eq_dec j i) as [->|N]; [rewrite set_fph_same in Hj; discriminate|].
        rewrite set_fph_other in Hj by exact N. pose proof (Hrun j r l0 N Hj Lj) as HJ.
        destruct HS as [[LK [HF HG]]|[LK [HR HN]]]; rewrite LK; [congruence|exact HJ]. }
    unfold fadvance, advance. destruct segs as [|a rest]; [rewrite Hsh; apply FIN|].
    rewrite Hsh. destruct (a (sh _ _ g) l) as [s' l'].
    destruct rest as [|b rest']; [apply FIN|].
    constructor; cbn [fsh fholder fqueue fph forder sh holder ph order].
    - reflexivity.
    - exact Hord.
    - intro j. destruct (Nat.eq_dec j i) as [->|N].
      + rewrite set_fph_same, set_ph_same. reflexivity.
      + rewrite set_fph_other, set_ph_other by exact N. apply Hph. exact N.
    - unfold holder_rel. cbn [fsh fholder fqueue fph forder sh holder ph order].
      destruct HS as [[LK [HF HG]]|[LK [HR HN]]].
      + rewrite HF. split; [first [exact LK | reflexivity]|]. right. rewrite set_fph_same. split; [eauto|exact HG].
      + unfold holder_rel in HR. destruct (fholder _ _ f) as [h|] eqn:EH; [|exact HR].
        assert (h <> i) by congruence. rewrite set_fph_other by assumption. exact HR.
    - unfold queue_ok. cbn [fsh fholder fqueue fph forder]. split; [exact QN|].
      intros x Hx. destruct (QW x Hx) as [W1 [W2 W3]].
      assert (x <> i) by (intro; subst; contradiction).
      rewrite set_fph_other by assumption. auto.
    - unfold run_ok. cbn [fsh fholder fqueue fph forder]. intros j r l0 Hj Lj.
      destruct (Nat.eq_dec j i) as [->|N].
      + destruct HS as [[LK [HF HG]]|[LK [HR HN]]]; [exact HF|congruence].
      + rewrite set_fph_other in Hj by exact N. exact (Hrun j r l0 N Hj Lj).
  Qed.

  Lemma step_sim : forall f g i, R f g -> R (fstep f i) (step g i) \/ R (fstep f i) g.
  Proof.
    intros f g i HR. pose proof HR as [Hsh Hord Hph Hh [QN QW] Hrun].
    assert (Hrun' : forall j r l, j <> i -> fph _ _ f j = FRunning r l -> t_locked _ _ (tasks j) = true ->
                                  fholder _ _ f = Some j) by (intros; eapply Hrun; eauto).
    unfold StateSchedFifo.fstep, StateSched.step.
    destruct (Nat.ltb i n) eqn:Hlt; [|left; exact HR].
    pose proof (Hph i) as Pi. unfold ph_rel in Pi.
    destruct (fph _ _ f i) as [| |rest l|] eqn:Ef.
    - (* not started *)
      rewrite Pi.
      assert (Hni : ~ In i (fqueue _ _ f)).
      { intro H. destruct (QW i H) as [W _]. rewrite Ef in W. discriminate. }
      destruct (t_locked _ _ (tasks i)) eqn:LK.
      + unfold holder_rel in Hh. destruct (fholder _ _ f) as [h|] eqn:EH.
        * (* lock busy: the task queues up; the guard system does not move *)
          right. constructor; cbn [fsh fholder fqueue fph forder]; auto.
          -- intro j. destruct (Nat.eq_dec j i) as [->|N].
             ++ rewrite set_fph_same. exact Pi.
             ++ rewrite set_fph_other by exact N. apply Hph.
          -- unfold holder_rel. cbn [fsh fholder fqueue fph forder]. rewrite ?EH.
             destruct Hh as [LH HD].
             assert (h <> i).
             { intro; subst. destruct HD as [[W _]|[[r [l W]] _]]; rewrite Ef in W; discriminate. }
             rewrite set_fph_other by assumption. split; assumption.
          -- unfold queue_ok. cbn [fsh fholder fqueue fph forder]. split.
             ++ apply NoDup_snoc; assumption.
             ++ intros w Hw. apply in_app_or in Hw. destruct Hw as [Hw|[Hw|[]]].
                ** destruct (QW w Hw) as [W1 [W2 W3]].
                   assert (w <> i) by (intro; subst; contradiction).
                   rewrite set_fph_other by assumption. rewrite ?EH in W2. auto.
                ** subst w. rewrite set_fph_same. repeat split; auto.
                   intro E. inversion E; subst.
                   destruct Hh as [_ [[W _]|[[r [l W]] _]]]; rewrite Ef in W; discriminate.
          -- unfold run_ok. cbn [fsh fholder fqueue fph forder]. intros j r l0 Hj Lj.
             destruct (Nat.eq_dec j i) as [->|N]; [rewrite set_fph_same in Hj; discriminate|].
             rewrite set_fph_other in Hj by exact N. rewrite ?EH. eapply Hrun'; eauto.
        * (* lock free in both *)
          destruct Hh as [HG HQ]. rewrite HG. left.
          apply advance_sim; cbn [fsh fholder fqueue fph forder sh holder ph order]; auto.
          all: try (unfold queue_ok; cbn [fsh fholder fqueue fph forder]; rewrite HQ;
                    split; [constructor|intros w []]).
          all: try (rewrite HQ; intros []).
          all: try (intros j r l0 N Hj Lj; specialize (Hrun' j r l0 N Hj Lj); discriminate).
      + left. apply advance_sim; auto.
        * split; assumption.
        * right. split; [first [exact LK | reflexivity]|]. split; [exact Hh|].
          intro E. unfold holder_rel in Hh. rewrite E in Hh. destruct Hh as [C _]. congruence.
    - (* waiting *)
      rewrite Pi.
      destruct (fholder _ _ f) as [h|] eqn:EH; [|right; exact HR].
      destruct (Nat.eqb h i) eqn:Ehi; [|right; exact HR].
      apply Nat.eqb_eq in Ehi. subst h.
      unfold holder_rel in Hh. rewrite EH in Hh. destruct Hh as [LK HD].
      assert (HG : holder _ _ g = None).
      { destruct HD as [[_ G]|[[r [l W]] _]]; [exact G|rewrite Ef in W; discriminate]. }
      rewrite LK, HG. left.
      assert (Hni : ~ In i (fqueue _ _ f)).
      { intro H. destruct (QW i H) as [_ [W _]]. congruence. }
      replace f with {| fsh := fsh _ _ f; fholder := Some i; fqueue := fqueue _ _ f; fph := fph _ _ f;
                        forder := forder _ _ f |} at 1 by (destruct f; cbn in *; congruence).
      apply advance_sim; cbn [fsh fholder fqueue fph forder sh holder ph order]; auto.
      unfold queue_ok. cbn [fsh fholder fqueue fph forder]. split; [exact QN|].
      intros w Hw. destruct (QW w Hw) as [W1 [W2 W3]]. rewrite ?EH in W2. auto.
    - (* suspended at an await point *)
      rewrite Pi. left.
      assert (Hni : ~ In i (fqueue _ _ f)).
      { intro H. destruct (QW i H) as [W _]. rewrite Ef in W. discriminate. }
      apply advance_sim; auto.
      + split; assumption.
      + destruct (t_locked _ _ (tasks i)) eqn:LK.
        * left. split; [first [exact LK | reflexivity]|].
          (* a suspended locking task is the holder in both systems *)
          pose proof (Hrun i rest l Ef LK) as HF. split; [exact HF|].
          unfold holder_rel in Hh. rewrite HF in Hh. destruct Hh as [_ [[W _]|[_ G]]]; [|exact G].
          rewrite Ef in W. discriminate.
        * right. split; [first [exact LK | reflexivity]|]. split; [exact Hh|].
          intro E. unfold holder_rel in Hh. rewrite E in Hh. destruct Hh as [C _]. congruence.
    - rewrite Pi. left. exact HR.
  Qed.

  Lemma init_R : forall s0, R (finit St Lo s0) (init St Lo s0).
  Proof.
    intro s0. constructor; cbn; auto.
    all: try (intro j; reflexivity).
    all: try (unfold holder_rel; cbn; auto; fail).
    all: try (unfold queue_ok; cbn; split; [constructor|intros w []]).
    all: try (unfold run_ok; cbn; intros j r l H; discriminate).
  Qed.

  (* every FIFO run is matched by a guard run of a sub-schedule *)
  Lemma run_sim : forall sch f g, R f g ->
    exists sch', R (fold_left fstep sch f) (fold_left step sch' g).
  Proof.
    induction sch as [|i sch IH]; intros f g HR; cbn.
    - exists []. exact HR.
    - destruct (step_sim f g i HR) as [H|H].
      + destruct (IH _ _ H) as [sch' H']. exists (i :: sch'). exact H'.
      + destruct (IH _ _ H) as [sch' H']. exists sch'. exact H'.
  Qed.

  Lemma all_finished_sim : forall f g k, R f g -> fall_finished St Lo f k = true -> all_finished St Lo g k = true.
  Proof.
    intros f g k HR. induction k as [|k IH]; intro H; cbn in *; [reflexivity|].
    pose proof (r_ph f g HR k) as P. unfold ph_rel in P.
    destruct (fph _ _ f k); try discriminate. rewrite P. apply IH. exact H.
  Qed.

  Theorem fifo_serialisable : forall s0,
    (forall i, i < n -> ok_task St Lo (tasks i)) ->
    forall sch,
    let y := frun_sched St Lo tasks n s0 sch in
    fall_finished St Lo y n = true ->
    exists ord, Permutation ord (seq 0 n) /\ fsh _ _ y = serial St Lo tasks ord s0.
  Proof.
    intros s0 D sch y AF.
    destruct (run_sim sch _ _ (init_R s0)) as [sch' HR]. fold (frun_sched St Lo tasks n s0 sch) in HR. fold y in HR.
    pose proof (all_finished_sim _ _ n HR AF) as AG.
    destruct (serialisable St Lo tasks n s0 D sch' AG) as [ord [P E]].
    exists ord. split; [exact P|]. rewrite (r_sh _ _ HR). exact E.
  Qed.
End Sim.

(* ---------- the stores under the FIFO lock ---------- *)
Theorem store_fifo_serialisable : forall (mk : list bool -> cop -> T) locks,
  (forall c, ok_task _ _ (mk locks c)) ->
  (forall c s, fst (run_segs _ _ (t_segs _ _ (mk locks c)) (s, t_init _ _ (mk locks c))) = cop_serial c s) ->
  forall ops s0 sch,
  let y := frun_sched _ _ (task_table (mk locks) ops) (length ops) s0 sch in
  fall_finished _ _ y (length ops) = true ->
  exists ord, Permutation ord (seq 0 (length ops)) /\ fsh _ _ y = serial_ops ops ord s0.
Proof.
  intros mk locks OK SER ops s0 sch y AF.
  destruct (fifo_serialisable _ _ (task_table (mk locks) ops) (length ops) s0) with (sch := sch) as [ord [P E]].
  - intros i Hi. unfold task_table. rewrite (nth_indep _ _ (mk locks dflt_cop)) by (rewrite map_length; exact Hi).
    rewrite map_nth. apply OK.
  - exact AF.
  - exists ord. split; [exact P|]. fold y in E. rewrite E. apply serial_is_serial_ops; [apply SER|].
    apply Forall_forall. intros x Hx. apply (Permutation_in _ P) in Hx. apply in_seq in Hx. lia.
Qed.

Theorem memory_fifo_serialisable : forall locks, writes_locked locks = true ->
  forall ops s0 sch,
  let y := frun_sched _ _ (task_table (mem_task locks) ops) (length ops) s0 sch in
  fall_finished _ _ y (length ops) = true ->
  exists ord, Permutation ord (seq 0 (length ops)) /\ fsh _ _ y = serial_ops ops ord s0.
Proof.
  intros locks W. apply (store_fifo_serialisable mem_task locks).
  - apply task_ok; auto. intros []; reflexivity.
  - apply mem_task_serial.
Qed.

Theorem sqlite_fifo_serialisable : forall locks, writes_locked locks = true ->
  forall ops s0 sch,
  let y := frun_sched _ _ (task_table (sql_task locks) ops) (length ops) s0 sch in
  fall_finished _ _ y (length ops) = true ->
  exists ord, Permutation ord (seq 0 (length ops)) /\ fsh _ _ y = serial_ops ops ord s0.
Proof.
  intros locks W. apply (store_fifo_serialisable sql_task locks).
  - apply task_ok; auto. intros []; reflexivity.
  - apply sql_task_serial.
Qed.
