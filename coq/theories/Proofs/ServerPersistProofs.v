(* Lemmas about Model/ServerPersist.v (C15): retry/back-off, shape of the reducer's command lists,
   status machine. *)
From Coq Require Import List ZArith Bool PeanoNat Lia.
Import ListNotations.
From WF Require Import Model.Engine Model.ServerPersist.
Open Scope Z_scope.

(* ------------------------------------------------------------------------------------------ *)
(* A. one attempt / _retry_store_write                                                          *)
(* ------------------------------------------------------------------------------------------ *)
Lemma attempt_status_spec w c st st' ok :
  attempt_status w c st = (st', ok) ->
  f_event (s_fl st') = f_event (s_fl st) /\ f_idle (s_fl st') = f_idle (s_fl st) /\
  f_status (s_fl st') = snd (pop (f_status (s_fl st))) /\
  ok = negb (fst (pop (f_status (s_fl st)))) /\
  s_rec st' = (if ok then w (s_rec st) else s_rec st) /\
  s_trace st' = s_trace st ++ [c ok].
Proof.
  unfold attempt_status. destruct (pop (f_status (s_fl st))) as [bad l] eqn:E.
  destruct bad; intro H; inversion H; subst; cbn; repeat split; reflexivity.
Qed.

Lemma retry_rec n w c : forall st st' ok,
  retry_status n w c st = (st', ok) ->
  s_rec st' = (if ok then w (s_rec st) else s_rec st) /\
  f_event (s_fl st') = f_event (s_fl st) /\ f_idle (s_fl st') = f_idle (s_fl st).
Proof.
  induction n as [|n IH]; intros st st' ok H; cbn in H;
    destruct (attempt_status w c st) as [st1 ok1] eqn:E;
    apply attempt_status_spec in E; destruct E as (E1 & E2 & E3 & E4 & E5 & E6).
  - destruct ok1; inversion H; subst; repeat split; auto.
  - destruct ok1.
    + inversion H; subst; repeat split; auto.
    + apply IH in H. destruct H as (H1 & H2 & H3). rewrite E5 in H1.
      repeat split; try congruence.
Qed.

(* the write is applied exactly once when the retry loop succeeds, not at all when it gives up *)
Lemma retry_ok_applies n w c st st' : retry_status n w c st = (st', true) -> s_rec st' = w (s_rec st).
Proof. intro H. apply retry_rec in H. tauto. Qed.
Lemma retry_fail_keeps n w c st st' : retry_status n w c st = (st', false) -> s_rec st' = s_rec st.
Proof. intro H. apply retry_rec in H. tauto. Qed.

(* at most |backoff| + 1 attempts *)
Lemma retry_attempts_bound n w c : forall st st' ok,
  retry_status n w c st = (st', ok) -> (length (s_trace st') <= length (s_trace st) + S n)%nat.
Proof.
  induction n as [|n IH]; intros st st' ok H; cbn in H;
    destruct (attempt_status w c st) as [st1 ok1] eqn:E;
    apply attempt_status_spec in E; destruct E as (_ & _ & _ & _ & _ & E6).
  - destruct ok1; inversion H; subst; rewrite E6, app_length; cbn; lia.
  - destruct ok1.
    + inversion H; subst. rewrite E6, app_length; cbn; lia.
    + apply IH in H. rewrite E6, app_length in H. cbn in H. lia.
Qed.

Lemma tolerable_tail bo k b l : tolerable bo k (b :: l) = true -> tolerable bo (if b then S k else 0) l = true.
Proof. destruct b; cbn; intro H; [apply andb_prop in H; tauto | exact H]. Qed.

Lemma tolerable_pop bo k l :
  tolerable bo k l = true ->
  tolerable bo (if fst (pop l) then S k else 0) (snd (pop l)) = true /\ (fst (pop l) = true -> (k < bo)%nat).
Proof.
  destruct l as [|b t]; cbn; [intros _; split; [reflexivity | discriminate] |].
  destruct b; cbn; intro H.
  - apply andb_prop in H. destruct H as [H1 H2]. apply Nat.ltb_lt in H1. tauto.
  - split; [exact H | discriminate].
Qed.

(* with at most |backoff| failures in a row the retry loop always succeeds, and the rest of the stream is
   again tolerable *)
Lemma retry_tolerable bo w c : forall n k st,
  (n + k = bo)%nat -> tolerable bo k (f_status (s_fl st)) = true ->
  exists st', retry_status n w c st = (st', true) /\ tolerable bo 0 (f_status (s_fl st')) = true.
Proof.
  induction n as [|n IH]; intros k st Hnk Ht; cbn;
    destruct (attempt_status w c st) as [st1 ok1] eqn:E;
    apply attempt_status_spec in E; destruct E as (_ & _ & E3 & E4 & _ & _);
    apply tolerable_pop in Ht; destruct Ht as [Ht Hlt]; rewrite <- E3 in Ht.
  - destruct (fst (pop (f_status (s_fl st)))) eqn:Eb; cbn in E4; subst ok1.
    + specialize (Hlt eq_refl). lia.
    + eexists; split; [reflexivity | exact Ht].
  - destruct (fst (pop (f_status (s_fl st)))) eqn:Eb; cbn in E4; subst ok1.
    + apply (IH (S k)); [lia | exact Ht].
    + eexists; split; [reflexivity | exact Ht].
Qed.

(* |backoff| + 1 failures in a row make it give up *)
Lemma retry_exhausted w c : forall n st l,
  f_status (s_fl st) = repeat true (S n) ++ l -> exists st', retry_status n w c st = (st', false).
Proof.
  induction n as [|n IH]; intros st l Hf; cbn;
    destruct (attempt_status w c st) as [st1 ok1] eqn:E;
    apply attempt_status_spec in E; destruct E as (_ & _ & E3 & E4 & _ & _);
    rewrite Hf in E3, E4; cbn in E3, E4; subst ok1.
  - eexists; reflexivity.
  - apply (IH st1 l). exact E3.
Qed.

(* ------------------------------------------------------------------------------------------ *)
(* B. every command list produced by the reducer is well formed                                 *)
(* ------------------------------------------------------------------------------------------ *)
Section Wf.
Variable stops : list Z.

Lemma cmds_wf_app : forall a pend b,
  cmds_wf stops pend a -> cmds_wf stops None b -> cmds_wf stops pend (a ++ b).
Proof.
  induction a as [|c a IH]; intros pend b Ha Hb; cbn in *.
  - subst pend. exact Hb.
  - destruct pend as [k|].
    + destruct Ha as [H1 H2]. split; [exact H1 | apply IH; assumption].
    + destruct c; try (destruct Ha as [H1 H2]; split; [exact H1 | apply IH; assumption]).
      apply IH; assumption.
Qed.

Definition plain_cmd (c : command) : Prop :=
  ends_run c = false /\ match c with CPublish p => terminal_of stops p = None | _ => True end.
Definition plain (cs : list command) : Prop := Forall plain_cmd cs.

Lemma plain_wf cs : plain cs -> cmds_wf stops None cs.
Proof.
  induction 1 as [|c cs [H1 H2] _ IH]; cbn; [reflexivity |].
  destruct c; try (split; [exact H1 | exact IH]). rewrite H2. exact IH.
Qed.
Lemma plain_app a b : plain a -> plain b -> plain (a ++ b).
Proof. intros Ha Hb. apply Forall_app. split; assumption. Qed.
Lemma plain_nil : plain []. Proof. constructor. Qed.

Lemma aoe_plain step a w now w' cs : add_or_enqueue step a w now = Ok (w', cs) -> plain cs.
Proof.
  unfold add_or_enqueue. destruct (Nat.ltb _ _).
  - destruct (first_free _ _ _); intro H; inversion H; subst.
    repeat constructor.
  - intro H; inversion H; subst. repeat constructor.
Qed.

Lemma drain_plain step fuel : forall w now w' cs, drain step w now fuel = Ok (w', cs) -> plain cs.
Proof.
  induction fuel as [|f IH]; intros w now w' cs H; cbn [drain] in H.
  - inversion H; apply plain_nil.
  - destruct (queue w) as [|a q]; [inversion H; apply plain_nil |].
    destruct (Nat.ltb _ _); [| inversion H; apply plain_nil].
    destruct (add_or_enqueue _ _ _ _) as [[w1 c1]|] eqn:E1; [| discriminate].
    destruct (drain step w1 now f) as [[w2 c2]|] eqn:E2; [| discriminate].
    inversion H; subst. apply plain_app; [eapply aoe_plain; eauto | eapply IH; eauto].
Qed.

Lemma waiter_pass_plain step e : forall todo done w now acc hit w' cs h,
  waiter_pass step e done todo w now acc hit = Ok (w', cs, h) -> plain acc -> plain cs.
Proof.
  induction todo as [|wt rest IH]; intros done w now acc hit w' cs h H Hacc; cbn [waiter_pass] in H.
  - inversion H; subst; exact Hacc.
  - destruct (negb (w_pending wt) && waiter_matches e wt).
    + destruct (add_or_enqueue _ _ _ _) as [[w2 c2]|] eqn:E; [| discriminate].
      eapply IH; [exact H |]. apply plain_app; [exact Hacc | eapply aoe_plain; eauto].
    + eapply IH; eauto.
Qed.

Lemma add_waiters_plain e target : forall ws now ws' cs hits,
  add_waiters e target ws now = Ok (ws', cs, hits) -> plain cs.
Proof.
  induction ws as [|[n w] t IH]; intros now ws' cs hits H; cbn [add_waiters] in H.
  - inversion H; apply plain_nil.
  - destruct (if target_ok target n then waiter_pass n e [] (waiters w) w now [] false else Ok (w, [], false))
      as [[[w1 c1] h1]|] eqn:E1; [| discriminate].
    destruct (add_waiters e target t now) as [[[t' c'] hs]|] eqn:E2; [| discriminate].
    inversion H; subst. apply plain_app; [| eapply IH; eauto].
    destruct (target_ok target n).
    + eapply waiter_pass_plain; [exact E1 | apply plain_nil].
    + inversion E1; apply plain_nil.
Qed.

Lemma add_routes_plain a target skip : forall ws now ws' cs h,
  add_routes a target skip ws now = Ok (ws', cs, h) -> plain cs.
Proof.
  induction ws as [|[n w] t IH]; intros now ws' cs h H; cbn [add_routes] in H.
  - inversion H; apply plain_nil.
  - match type of H with context[if ?b then add_or_enqueue _ _ _ _ else _] => destruct b end.
    + destruct (add_or_enqueue n a w now) as [[w1 c1]|] eqn:E1; [| discriminate].
      destruct (add_routes a target skip t now) as [[[t' c'] h']|] eqn:E2; [| discriminate].
      inversion H; subst. apply plain_app; [eapply aoe_plain; eauto | eapply IH; eauto].
    + destruct (add_routes a target skip t now) as [[[t' c'] h']|] eqn:E2; [| discriminate].
      inversion H; subst. cbn. eapply IH; eauto.
Qed.

Lemma process_add_plain a target s now s' cs : process_add a target s now = Ok (s', cs) -> plain cs.
Proof.
  unfold process_add.
  destruct (add_waiters _ _ _ _) as [[[ws1 cs1] hits]|] eqn:E1; [| discriminate].
  destruct (add_routes _ _ _ _ _) as [[[ws2 cs2] routed]|] eqn:E2; [| discriminate].
  intro H; inversion H; subst.
  apply plain_app; [eapply add_waiters_plain; eauto |].
  apply plain_app; [eapply add_routes_plain; eauto |].
  destruct (negb _ || routed); [apply plain_nil |].
  destruct (zmem (ety (a_ev a)) (c_inputreq (cfg s))); [apply plain_nil |]. repeat constructor.
Qed.

Lemma process_waiter_timeout_plain step wid s now s' cs :
  process_waiter_timeout step wid s now = Ok (s', cs) -> plain cs.
Proof.
  unfold process_waiter_timeout.
  destruct (zlookup step (workers s)) as [w|]; [| intro H; inversion H; apply plain_nil].
  destruct (find_waiter_idx _ _ _) as [k|]; [| intro H; inversion H; apply plain_nil].
  destruct (nth_error _ _) as [wt|]; [| intro H; inversion H; apply plain_nil].
  destruct (w_resolved wt); [intro H; inversion H; apply plain_nil |].
  destruct (add_or_enqueue _ _ _ _) as [[w2 c2]|] eqn:E; [| discriminate].
  intro H; inversion H; subst. eapply aoe_plain; eauto.
Qed.

End Wf.

(* the result loop of _process_step_result_tick *)
Lemma one_result_wf stops P step tev dc now a r a' :
  one_result P step tev dc now a r = Ok a' ->
  result_clean stops r = true -> c_stop (cfg (k_state a)) = stops ->
  cmds_wf stops None (k_cmds a) ->
  cmds_wf stops None (k_cmds a') /\ cfg (k_state a') = cfg (k_state a).
Proof.
  intros H Hc Hs Hw. unfold one_result in H.
  destruct r as [o | x fa | buf e | buf | wid wev reqs tmo ty | wid].
  - destruct o as [e | |].
    + destruct (zmem (ety e) (c_stop (cfg (k_state a)))) eqn:Ez.
      * inversion H; subst; cbn. split; [| reflexivity].
        apply cmds_wf_app; [exact Hw |]. cbn. rewrite Ez. split; [constructor | split; reflexivity].
      * inversion H; subst; cbn. split; [| reflexivity].
        apply cmds_wf_app; [exact Hw |]. apply plain_wf.
        destruct (zmem (ety e) (c_inputreq _)); cbn; repeat constructor; cbn; rewrite Ez; reflexivity.
    + inversion H; subst; cbn; auto.
    + inversion H; subst; cbn; auto.
  - destruct (match pol (w_cfg (k_w a)) with Some p => P p _ _ x | None => PStop end) as [d | |] eqn:Ed.
    + inversion H; subst; cbn. split; [| reflexivity].
      apply cmds_wf_app; [exact Hw | apply plain_wf; repeat constructor].
    + destruct (match zlookup step (c_handler_for (cfg (k_state a))) with
                | Some n => zlookup n (c_handlers (cfg (k_state a))) | None => None end) as [hd|] eqn:Eh.
      * destruct (Z.leb _ _).
        -- inversion H; subst; cbn. split; [| reflexivity].
           apply cmds_wf_app; [exact Hw | apply plain_wf; repeat constructor].
        -- inversion H; subst; cbn. split; [| reflexivity].
           apply cmds_wf_app; [exact Hw |]. cbn. split; [constructor | split; reflexivity].
      * inversion H; subst; cbn. split; [| reflexivity].
        apply cmds_wf_app; [exact Hw |]. cbn. split; [constructor | split; reflexivity].
    + destruct (match zlookup step (c_handler_for (cfg (k_state a))) with
                | Some n => zlookup n (c_handlers (cfg (k_state a))) | None => None end) as [hd|] eqn:Eh.
      * destruct (Z.leb _ _).
        -- inversion H; subst; cbn. split; [| reflexivity].
           apply cmds_wf_app; [exact Hw | apply plain_wf; repeat constructor].
        -- inversion H; subst; cbn. split; [| reflexivity].
           apply cmds_wf_app; [exact Hw |]. cbn. split; [constructor | split; reflexivity].
      * inversion H; subst; cbn. split; [| reflexivity].
        apply cmds_wf_app; [exact Hw |]. cbn. split; [constructor | split; reflexivity].
  - destruct (Nat.ltb _ _); inversion H; subst; cbn; split; try reflexivity; try exact Hw.
    apply cmds_wf_app; [exact Hw | apply plain_wf; repeat constructor].
  - destruct dc; inversion H; subst; cbn; auto.
  - destruct (find_waiter_idx _ _ _).
    + inversion H; subst; cbn; auto.
    + inversion H; subst; cbn. split; [| reflexivity].
      apply cmds_wf_app; [exact Hw |]. apply plain_wf. apply plain_app.
      * destruct wev as [e|]; [| apply plain_nil]. cbn in Hc. repeat constructor. cbn.
        apply negb_true_iff in Hc. rewrite Hc. reflexivity.
      * destruct tmo; repeat constructor.
  - destruct dc; inversion H; subst; cbn; auto.
Qed.

Lemma results_loop_wf stops P step tev dc now : forall rs a a',
  results_loop P step tev dc now a rs = Ok a' ->
  forallb (result_clean stops) rs = true -> c_stop (cfg (k_state a)) = stops ->
  cmds_wf stops None (k_cmds a) -> cmds_wf stops None (k_cmds a').
Proof.
  induction rs as [|r rs IH]; intros a a' H Hc Hs Hw; cbn [results_loop] in H.
  - inversion H; subst; exact Hw.
  - destruct (one_result P step tev dc now a r) as [a1|] eqn:E; [| discriminate].
    cbn in Hc. apply andb_prop in Hc. destruct Hc as [Hc1 Hc2].
    destruct (one_result_wf _ _ _ _ _ _ _ _ _ E Hc1 Hs Hw) as [Hw1 Hcfg].
    eapply IH; eauto. congruence.
Qed.

Lemma process_step_wf stops P step wid tev rs s now s' cs :
  process_step P step wid tev rs s now = Ok (s', cs) ->
  forallb (result_clean stops) rs = true -> c_stop (cfg s) = stops -> cmds_wf stops None cs.
Proof.
  unfold process_step. intros H Hc Hs.
  destruct (zlookup step (workers s)) as [w|]; [| discriminate].
  destruct (find_ip wid (inprogress w)) as [this|]; [| discriminate].
  destruct (results_loop _ _ _ _ _ _ _) as [a|] eqn:E; [| discriminate].
  assert (Hk : cmds_wf stops None (k_cmds a)).
  { eapply results_loop_wf; [exact E | exact Hc | exact Hs | cbn; reflexivity]. }
  assert (Hk' : forall c, plain_cmd stops c -> cmds_wf stops None (c :: k_cmds a)).
  { intros c [Hc1 Hc2]. cbn. destruct c; try (split; [exact Hc1 | exact Hk]). rewrite Hc2. exact Hk. }
  destruct (k_keep a).
  - destruct (existsb is_exit (k_cmds a)).
    + inversion H; subst; exact Hk.
    + destruct (drain _ _ _ _) as [[w3 c3]|] eqn:Ed; [| discriminate].
      inversion H; subst. apply cmds_wf_app; [exact Hk | apply plain_wf; eapply drain_plain; eauto].
  - destruct (existsb is_exit (k_cmds a)).
    + inversion H; subst. apply Hk'. split; reflexivity.
    + destruct (drain _ _ _ _) as [[w3 c3]|] eqn:Ed; [| discriminate].
      inversion H; subst.
      rewrite app_comm_cons.
      apply cmds_wf_app; [apply Hk'; split; reflexivity | apply plain_wf; eapply drain_plain; eauto].
Qed.

Lemma wf_snoc_idle stops cs (b : bool) :
  cmds_wf stops None cs -> cmds_wf stops None (if b then cs ++ [CSchedIdle] else cs).
Proof.
  intro H. destruct b; [| exact H]. apply cmds_wf_app; [exact H | apply plain_wf; repeat constructor].
Qed.

(* the reducer emits a terminal stream event exactly when, and immediately before, it ends the run *)
Theorem reduce_cmds_wf stops P t s now s' cs :
  reduce P t s now = Ok (s', cs) -> tick_clean stops t = true -> c_stop (cfg s) = stops ->
  cmds_wf stops None cs.
Proof.
  intros H Hc Hs. unfold reduce in H.
  destruct t as [a target | step wid e rs | | e | tm | step wid | |].
  - destruct (process_add a target s now) as [[s1 c1]|] eqn:E; [| discriminate].
    inversion H; subst. apply wf_snoc_idle. apply plain_wf. eapply process_add_plain; eauto.
  - destruct (process_step P step wid e rs s now) as [[s1 c1]|] eqn:E; [| discriminate].
    inversion H; subst. apply wf_snoc_idle. eapply process_step_wf; eauto.
  - inversion H; subst. destruct (check_idle s'); cbn; repeat split; try reflexivity; constructor.
  - inversion H; subst. cbn in Hc. apply negb_true_iff in Hc.
    destruct (check_idle s'); cbn; rewrite Hc; cbn; repeat split; reflexivity.
  - inversion H; subst. destruct (check_idle _); cbn; repeat split; try reflexivity; constructor.
  - destruct (process_waiter_timeout step wid s now) as [[s1 c1]|] eqn:E; [| discriminate].
    inversion H; subst. apply wf_snoc_idle. apply plain_wf. eapply process_waiter_timeout_plain; eauto.
  - inversion H; subst. destruct (check_idle s'); cbn; reflexivity.
  - inversion H; subst. cbn. split; reflexivity.
Qed.

(* ------------------------------------------------------------------------------------------ *)
(* C. the status machine                                                                        *)
(* ------------------------------------------------------------------------------------------ *)
Definition tol (bo : nat) (st : sstore) : Prop := tolerable bo 0 (f_status (s_fl st)) = true.
Definition quiet_ei (st : sstore) : Prop := f_event (s_fl st) = [] /\ f_idle (s_fl st) = [].

(* the stored record agrees with the way the run ended *)
Definition agrees (h : hrec) (o : outcome) : Prop :=
  match o with
  | OCompleted e => h_status h = SCompleted /\ h_result h = Some e
  | OFailedStep x => h_status h = SFailed /\ h_error h = Some (EExn x)
  | OTimedOut t _ => h_status h = SFailed /\ h_error h = Some (ETimeoutEvent t)
  | OCancelled => h_status h = SCancelled
  | OIdleReleased => h_status h = SRunning
  | OEngineExc c => h_status h = SFailed /\ h_error h = Some (EEngine c)
  | OStoreExc => is_terminal (h_status h) = true
  end.

Lemma append_event_spec kind st st' ok :
  append_event kind st = (st', ok) ->
  s_rec st' = s_rec st /\ f_status (s_fl st') = f_status (s_fl st) /\
  (f_event (s_fl st) = [] -> ok = true /\ f_event (s_fl st') = []) /\ f_idle (s_fl st') = f_idle (s_fl st).
Proof.
  unfold append_event. destruct (pop (f_event (s_fl st))) as [bad l] eqn:E.
  intro H; inversion H; subst; cbn.
  split; [reflexivity | split; [reflexivity | split; [| reflexivity]]].
  intro H0; rewrite H0 in E; inversion E; subst; split; reflexivity.
Qed.

Lemma idle_write_spec set st st' ok :
  idle_write set st = (st', ok) ->
  f_status (s_fl st') = f_status (s_fl st) /\ f_event (s_fl st') = f_event (s_fl st) /\
  (f_idle (s_fl st) = [] -> ok = true /\ f_idle (s_fl st') = []) /\
  s_rec st' = (if ok then option_map (if set then upd_status (Some SRunning) None None (Some true)
                                      else upd_status None None None (Some false)) (s_rec st)
               else s_rec st).
Proof.
  unfold idle_write. destruct (pop (f_idle (s_fl st))) as [bad l] eqn:E.
  intro H; inversion H; subst; cbn.
  split; [reflexivity | split; [reflexivity | split]].
  - intro H0; rewrite H0 in E; inversion E; subst; split; reflexivity.
  - destruct bad; reflexivity.
Qed.

(* a non-terminal publish never changes status, result or error of a running handler *)
Lemma publish_plain bo stops p st st' ok h :
  publish bo stops p st = (st', ok) -> terminal_of stops p = None ->
  s_rec st = Some h -> h_status h = SRunning ->
  f_status (s_fl st') = f_status (s_fl st) /\
  exists h', s_rec st' = Some h' /\ h_status h' = SRunning /\ h_result h' = h_result h /\ h_error h' = h_error h.
Proof.
  unfold publish. intros H Ht Hr Hs. rewrite Ht in H.
  destruct (append_event (pub_kind p) st) as [st2 ok2] eqn:Ea.
  apply append_event_spec in Ea. destruct Ea as (Ea1 & Ea2 & _ & _).
  destruct ok2.
  - destruct p; try (inversion H; subst; split; [exact Ea2 | exists h; rewrite Ea1; auto]).
    apply idle_write_spec in H. destruct H as (H1 & _ & _ & H4). split; [congruence |].
    rewrite Ea1, Hr in H4. destruct ok; cbn in H4.
    + eexists; split; [exact H4 | cbn; auto].
    + exists h; auto.
  - inversion H; subst. split; [exact Ea2 | exists h; rewrite Ea1; auto].
Qed.

(* a terminal publish: either the status write was applied (and only then can the call return normally),
   or nothing was written *)
Lemma publish_terminal bo stops p st st' ok k :
  publish bo stops p st = (st', ok) -> terminal_of stops p = Some k ->
  (ok = true -> s_rec st' = option_map (k_write k) (s_rec st)) /\
  (s_rec st' = option_map (k_write k) (s_rec st) \/ s_rec st' = s_rec st).
Proof.
  unfold publish. intros H Ht. rewrite Ht in H.
  destruct (retry_status bo _ _ st) as [st1 ok1] eqn:Er.
  apply retry_rec in Er. destruct Er as (Er & _ & _).
  destruct ok1.
  - destruct (append_event (pub_kind p) st1) as [st2 ok2] eqn:Ea.
    apply append_event_spec in Ea. destruct Ea as (Ea1 & _).
    assert (Hidle : p <> PIdle) by (intro; subst p; discriminate).
    destruct ok2.
    + destruct p; try congruence; inversion H; subst; (split; [intros _ |left]; congruence).
    + inversion H; subst. split; [discriminate | left; congruence].
  - inversion H; subst. split; [discriminate | right; exact Er].
Qed.

Definition exit_outcome (c : command) : option outcome :=
  match c with
  | CComplete e => Some (OCompleted e)
  | CFail _ x => Some (OFailedStep x)
  | CHalt HCancelled => Some OCancelled
  | CHalt (HTimeout t a) => Some (OTimedOut t a)
  | _ => None
  end.

Lemma exit_agrees k c h : exit_of k c ->
  exists o, exit_outcome c = Some o /\ agrees (k_write k h) o /\
            forall bo stops rest st, process_cmds bo stops (c :: rest) st = (st, Some o).
Proof.
  intro H; inversion H; subst; eexists; (split; [reflexivity |]); cbn; auto.
Qed.

Lemma k_write_terminal k h : is_terminal (h_status (k_write k h)) = true.
Proof. destruct k; reflexivity. Qed.

(* processing a well-formed command list for a running handler, under ANY fault pattern *)
Lemma process_cmds_spec bo stops : forall cs st st' o h,
  cmds_wf stops None cs -> s_rec st = Some h -> h_status h = SRunning ->
  process_cmds bo stops cs st = (st', o) ->
  exists h', s_rec st' = Some h' /\
    match o with
    | None => h_status h' = SRunning /\ h_result h' = h_result h /\ h_error h' = h_error h
    | Some OStoreExc => True
    | Some (OEngineExc _) => False
    | Some oc => agrees h' oc
    end.
Proof.
  induction cs as [|c cs IH]; intros st st' o h Hw Hr Hs H.
  - cbn in H. inversion H; subst. exists h; auto.
  - cbn [cmds_wf] in Hw.
    destruct c as [st0 e wid | a tg d | k | e | | st0 x | p | | st0 w t];
      try (destruct Hw as [Hw1 Hw2]; try discriminate Hw1; cbn [process_cmds] in H;
           try (eapply IH; eassumption)).
    + (* CCompleteIdleRelease *) inversion H; subst. exists h; cbn; auto.
    + (* CPublish *)
      cbn [process_cmds] in H. destruct (publish bo stops p st) as [st1 ok] eqn:Ep.
      destruct (terminal_of stops p) as [k|] eqn:Et.
      * destruct cs as [|c2 cs2]; [cbn in Hw; discriminate |]. cbn [cmds_wf] in Hw. destruct Hw as [Hx _].
        destruct (publish_terminal _ _ _ _ _ _ _ Ep Et) as [Hok Hany]. rewrite Hr in Hok, Hany. cbn in Hok, Hany.
        destruct ok.
        -- specialize (Hok eq_refl). inversion Hx; subst; cbn [process_cmds] in H; inversion H; subst;
             (eexists; split; [exact Hok | cbn; auto]).
        -- inversion H; subst. destruct Hany as [Hy | Hy]; eexists; (split; [exact Hy | exact I]).
      * destruct (publish_plain _ _ _ _ _ _ _ Ep Et Hr Hs) as (_ & h1 & Hr1 & Hs1 & Hres & Herr).
        destruct ok.
        -- destruct (IH _ _ _ _ Hw Hr1 Hs1 H) as (h' & Hr' & Hpost). exists h'. split; [exact Hr' |].
           destruct o as [[]|]; auto. destruct Hpost as (A & B & C). repeat split; congruence.
        -- inversion H; subst. exists h1; auto.
Qed.

(* the idle-mark clearing of on_tick never touches status, result or error *)
Lemma on_tick_clear_spec marked ic r st st1 m1 :
  on_tick_clear marked ic r st = (st1, m1) ->
  f_status (s_fl st1) = f_status (s_fl st) /\ f_event (s_fl st1) = f_event (s_fl st) /\
  (f_idle (s_fl st) = [] -> f_idle (s_fl st1) = []) /\
  (s_rec st1 = s_rec st \/ s_rec st1 = option_map (upd_status None None None (Some false)) (s_rec st)).
Proof.
  unfold on_tick_clear. destruct r as [cs | c]; [| intro H; inversion H; subst; auto].
  destruct (marked && negb ic); [| intro H; inversion H; subst; auto].
  destruct (idle_write false st) as [st2 ok] eqn:E. apply idle_write_spec in E.
  destruct E as (E1 & E2 & E3 & E4). cbn. intro H; inversion H; subst.
  split; [exact E1 | split; [exact E2 | split]].
  - intro Hq. apply E3 in Hq. tauto.
  - destruct ok; [right | left]; exact E4.
Qed.

Lemma on_tick_clear_running marked ic r st st1 m1 h :
  on_tick_clear marked ic r st = (st1, m1) -> s_rec st = Some h -> h_status h = SRunning ->
  exists h1, s_rec st1 = Some h1 /\ h_status h1 = SRunning /\ h_result h1 = h_result h /\ h_error h1 = h_error h.
Proof.
  intros H Hr Hs. apply on_tick_clear_spec in H. destruct H as (_ & _ & _ & [H | H]); rewrite Hr in H.
  - exists h; auto.
  - cbn in H. eexists; split; [exact H | cbn; auto].
Qed.

(* one tick, as the server sees it *)
Lemma run_tick_m_spec bo stops m tk st st' m' o h :
  tick_wf stops tk -> s_rec st = Some h -> h_status h = SRunning ->
  run_tick_m bo stops m tk st = (st', m', o) ->
  exists h', s_rec st' = Some h' /\
    match o with
    | None => h_status h' = SRunning /\ h_result h' = h_result h /\ h_error h' = h_error h
    | Some OStoreExc => True
    | Some (OEngineExc _) => h_status h' = SRunning /\ h_result h' = h_result h /\ h_error h' = h_error h
    | Some oc => agrees h' oc
    end.
Proof.
  unfold run_tick_m, tick_wf. destruct tk as [ic r]. cbn [fst snd]. intros Hw Hr Hs H.
  destruct (on_tick_clear m ic r st) as [st1 m1] eqn:Ec.
  destruct (on_tick_clear_running _ _ _ _ _ _ _ Ec Hr Hs) as (h1 & Hr1 & Hs1 & Hres1 & Herr1).
  destruct (run_tick bo stops r st1) as [st2 o2] eqn:Et. inversion H; subst.
  destruct r as [cs | code]; cbn [run_tick] in Et.
  - destruct (process_cmds_spec _ _ _ _ _ _ _ Hw Hr1 Hs1 Et) as (h' & Hr' & Hpost).
    exists h'. split; [exact Hr' |]. destruct o as [oc|].
    + destruct oc; auto. contradiction.
    + destruct Hpost as (A & B & C). repeat split; congruence.
  - inversion Et; subst. exists h1. split; [exact Hr1 |]. repeat split; congruence.
Qed.

(* ticks *)
Lemma run_ticks_spec bo stops : forall rs m st st' o h,
  Forall (tick_wf stops) rs -> s_rec st = Some h -> h_status h = SRunning ->
  run_ticks bo stops m rs st = (st', o) ->
  exists h', s_rec st' = Some h' /\
    match o with
    | None => h_status h' = SRunning /\ h_result h' = h_result h /\ h_error h' = h_error h
    | Some OStoreExc => True
    | Some (OEngineExc _) => h_status h' = SRunning /\ h_result h' = h_result h /\ h_error h' = h_error h
    | Some oc => agrees h' oc
    end.
Proof.
  induction rs as [|tk rs IH]; intros m st st' o h Hw Hr Hs H.
  - cbn in H. inversion H; subst. exists h; auto.
  - inversion Hw as [|? ? Hw1 Hw2]; subst. cbn [run_ticks] in H.
    destruct (run_tick_m bo stops m tk st) as [[st1 m1] o1] eqn:Et.
    destruct (run_tick_m_spec _ _ _ _ _ _ _ _ _ Hw1 Hr Hs Et) as (h1 & Hr1 & Hpost).
    destruct o1 as [oc|].
    + inversion H; subst. exists h1. split; [exact Hr1 | exact Hpost].
    + destruct Hpost as (A & B & C).
      destruct (IH _ _ _ _ _ Hw2 Hr1 A H) as (h' & Hr' & Hpost'). exists h'. split; [exact Hr' |].
      destruct o as [[]|]; auto; destruct Hpost' as (A' & B' & C'); repeat split; congruence.
Qed.

(* the watcher *)
Lemma watcher_spec bo o st h :
  s_rec st = Some h ->
  exists h', s_rec (watcher bo o st) = Some h' /\
    (is_terminal (h_status h) = true -> h' = h) /\
    (raised o = None -> h' = h) /\
    (h_status h = SRunning -> forall err, raised o = Some err -> tol bo st ->
       h' = upd_status (Some SFailed) None (Some err) None h) /\
    (tol bo st -> tol bo (watcher bo o st)).
Proof.
  intro Hr. unfold watcher. destruct (raised o) as [err|] eqn:Eo.
  - unfold rec_status. rewrite Hr. cbn. destruct (h_status h) eqn:Es.
    + destruct (retry_status bo _ _ st) as [st1 ok1] eqn:Er. cbn.
      pose proof (retry_rec _ _ _ _ _ _ Er) as (R1 & _ & _). rewrite Hr in R1.
      destruct ok1.
      * eexists; split; [exact R1 |]. repeat split; try discriminate.
        -- intros _ err' He _. inversion He; reflexivity.
        -- intro Ht. destruct (retry_tolerable bo (option_map (upd_status (Some SFailed) None (Some err) None)) (CallStatus SFailed) bo 0%nat st (Nat.add_0_r bo) Ht) as (st2 & E2 & T2).
           rewrite Er in E2. inversion E2; subst. exact T2.
      * exists h. split; [exact R1 |]. repeat split; try discriminate; auto.
        -- intros _ err' He Ht. exfalso.
           destruct (retry_tolerable bo (option_map (upd_status (Some SFailed) None (Some err) None)) (CallStatus SFailed) bo 0%nat st (Nat.add_0_r bo) Ht) as (st2 & E2 & _).
           rewrite Er in E2. inversion E2.
        -- intro Ht. exfalso.
           destruct (retry_tolerable bo (option_map (upd_status (Some SFailed) None (Some err) None)) (CallStatus SFailed) bo 0%nat st (Nat.add_0_r bo) Ht) as (st2 & E2 & _).
           rewrite Er in E2. inversion E2.
    + exists h; repeat split; auto; discriminate.
    + exists h; repeat split; auto; discriminate.
    + exists h; repeat split; auto; discriminate.
  - exists h; repeat split; auto; discriminate.
Qed.

(* tolerable status-fault streams stay tolerable through everything the control loop does *)
Lemma publish_tol bo stops p st st' ok : publish bo stops p st = (st', ok) -> tol bo st -> tol bo st'.
Proof.
  unfold publish, tol. intros H Ht.
  destruct (terminal_of stops p) as [k|].
  - destruct (retry_tolerable bo (option_map (k_write k)) (CallStatus (k_status k)) bo 0%nat st (Nat.add_0_r bo) Ht)
      as (st1 & E1 & T1). rewrite E1 in H.
    destruct (append_event (pub_kind p) st1) as [st2 ok2] eqn:Ea. apply append_event_spec in Ea.
    destruct Ea as (_ & Ea2 & _). destruct ok2.
    + destruct p; try (inversion H; subst; congruence). apply idle_write_spec in H. destruct H as (H1 & _). congruence.
    + inversion H; subst; congruence.
  - destruct (append_event (pub_kind p) st) as [st2 ok2] eqn:Ea. apply append_event_spec in Ea.
    destruct Ea as (_ & Ea2 & _). destruct ok2.
    + destruct p; try (inversion H; subst; congruence). apply idle_write_spec in H. destruct H as (H1 & _). congruence.
    + inversion H; subst; congruence.
Qed.

Lemma process_cmds_tol bo stops : forall cs st st' o, process_cmds bo stops cs st = (st', o) -> tol bo st -> tol bo st'.
Proof.
  induction cs as [|c cs IH]; intros st st' o H Ht; cbn [process_cmds] in H.
  - inversion H; subst; exact Ht.
  - destruct c as [st0 e wid | a tg d | k | e | | st0 x | p | | st0 w t]; try (eapply IH; eassumption);
      try (inversion H; subst; exact Ht).
    + destruct k; inversion H; subst; exact Ht.
    + destruct (publish bo stops p st) as [st1 ok] eqn:Ep. pose proof (publish_tol _ _ _ _ _ _ Ep Ht) as T1.
      destruct ok; [eapply IH; eassumption | inversion H; subst; exact T1].
Qed.

Lemma run_tick_m_tol bo stops m tk st st' m' o : run_tick_m bo stops m tk st = (st', m', o) -> tol bo st -> tol bo st'.
Proof.
  unfold run_tick_m. destruct tk as [ic r]. cbn [fst snd]. intros H Ht.
  destruct (on_tick_clear m ic r st) as [st1 m1] eqn:Ec. apply on_tick_clear_spec in Ec. destruct Ec as (E1 & _).
  assert (T1 : tol bo st1) by (unfold tol in *; congruence).
  destruct (run_tick bo stops r st1) as [st2 o2] eqn:Et. inversion H; subst.
  destruct r as [cs | code]; cbn [run_tick] in Et.
  - eapply process_cmds_tol; eassumption.
  - inversion Et; subst; exact T1.
Qed.

Lemma run_ticks_tol bo stops : forall rs m st st' o, run_ticks bo stops m rs st = (st', o) -> tol bo st -> tol bo st'.
Proof.
  induction rs as [|tk rs IH]; intros m st st' o H Ht; cbn [run_ticks] in H.
  - inversion H; subst; exact Ht.
  - destruct (run_tick_m bo stops m tk st) as [[st1 m1] o1] eqn:Et.
    pose proof (run_tick_m_tol _ _ _ _ _ _ _ _ Et Ht) as T1.
    destruct o1; [inversion H; subst; exact T1 | eapply IH; eassumption].
Qed.

(* ---------- the whole run ---------- *)
Definition fresh (fl : faults) : sstore := {| s_rec := None ; s_fl := fl ; s_trace := [] |}.

(* status_matches for every exit that goes through an exit command: NO assumption about faults *)
Theorem status_matches_exit bo stops rs fl st' o :
  Forall (tick_wf stops) rs -> server_run bo stops rs (fresh fl) = (st', Some o) ->
  o <> OStoreExc -> (forall c, o <> OEngineExc c) ->
  exists h, s_rec st' = Some h /\ agrees h o.
Proof.
  unfold server_run, start_handler. intros Hw H Hne1 Hne2.
  destruct (retry_status bo _ CallInit (fresh fl)) as [st0 ok] eqn:Es.
  destruct ok; [| discriminate].
  apply retry_ok_applies in Es.
  destruct (run_ticks bo stops false rs st0) as [st1 o1] eqn:Er.
  destruct (run_ticks_spec _ _ _ _ _ _ _ new_handler Hw Es eq_refl Er) as (h1 & Hr1 & Hpost).
  destruct o1 as [oc|]; cbn [finish_run] in H; [| discriminate]. inversion H; subst.
  destruct (watcher_spec bo o st1 h1 Hr1) as (h' & Hw' & Hterm & Hnone & _).
  exists h'. split; [exact Hw' |].
  destruct o; try (exfalso; apply Hne1; reflexivity); try (exfalso; eapply Hne2; reflexivity);
    cbn in Hpost.
  - rewrite (Hnone eq_refl). exact Hpost.
  - rewrite Hterm; [exact Hpost | destruct Hpost as [E _]; rewrite E; reflexivity].
  - rewrite Hterm; [exact Hpost | destruct Hpost as [E _]; rewrite E; reflexivity].
  - rewrite Hterm; [exact Hpost | rewrite Hpost; reflexivity].
  - rewrite (Hnone eq_refl). exact Hpost.
Qed.

(* every way a run can end, when no more than |backoff| status writes in a row fail *)
Theorem status_matches_all bo stops rs fl st' o :
  Forall (tick_wf stops) rs -> tolerable bo 0 (f_status fl) = true ->
  server_run bo stops rs (fresh fl) = (st', Some o) ->
  exists h, s_rec st' = Some h /\ agrees h o.
Proof.
  unfold server_run, start_handler. intros Hw Ht H.
  destruct (retry_status bo _ CallInit (fresh fl)) as [st0 ok] eqn:Es.
  destruct ok; [| discriminate].
  assert (T0 : tol bo st0).
  { destruct (retry_tolerable bo (fun _ => Some new_handler) CallInit bo 0%nat (fresh fl) (Nat.add_0_r bo) Ht) as (s2 & E2 & T2).
    rewrite Es in E2. inversion E2; subst. exact T2. }
  apply retry_ok_applies in Es.
  destruct (run_ticks bo stops false rs st0) as [st1 o1] eqn:Er.
  pose proof (run_ticks_tol _ _ _ _ _ _ _ Er T0) as T1.
  destruct (run_ticks_spec _ _ _ _ _ _ _ new_handler Hw Es eq_refl Er) as (h1 & Hr1 & Hpost).
  destruct o1 as [oc|]; cbn [finish_run] in H; [| discriminate]. inversion H; subst.
  destruct (watcher_spec bo o st1 h1 Hr1) as (h' & Hw' & Hterm & Hnone & Hrun & _).
  exists h'. split; [exact Hw' |].
  destruct o; cbn in Hpost.
  - rewrite (Hnone eq_refl). exact Hpost.
  - rewrite Hterm; [exact Hpost | destruct Hpost as [E _]; rewrite E; reflexivity].
  - rewrite Hterm; [exact Hpost | destruct Hpost as [E _]; rewrite E; reflexivity].
  - rewrite Hterm; [exact Hpost | rewrite Hpost; reflexivity].
  - rewrite (Hnone eq_refl). exact Hpost.
  - (* store exception: either a terminal status was already stored, or the watcher marks the handler failed *)
    cbn. destruct (h_status h1) eqn:E1.
    + rewrite (Hrun eq_refl EStore eq_refl T1). reflexivity.
    + rewrite (Hterm eq_refl), E1; reflexivity.
    + rewrite (Hterm eq_refl), E1; reflexivity.
    + rewrite (Hterm eq_refl), E1; reflexivity.
  - destruct Hpost as (A & _). rewrite (Hrun A (EEngine code) eq_refl T1). cbn. auto.
Qed.

(* A handler never stays running after its run has ended *)
Theorem never_stays_running bo stops rs fl st' o :
  Forall (tick_wf stops) rs -> tolerable bo 0 (f_status fl) = true ->
  server_run bo stops rs (fresh fl) = (st', Some o) -> o <> OIdleReleased ->
  exists h, s_rec st' = Some h /\ is_terminal (h_status h) = true.
Proof.
  intros Hw Ht H Hne. destruct (status_matches_all _ _ _ _ _ _ Hw Ht H) as (h & Hr & Ha).
  exists h. split; [exact Hr |].
  destruct o; cbn in Ha; try (destruct Ha as [E _]; rewrite E; reflexivity); try (rewrite Ha; reflexivity);
    try exact Ha.
  exfalso; apply Hne; reflexivity.
Qed.

(* the unrepaired service (nobody awaits the run): an engine-side failure leaves the handler running *)
Definition server_run_unrepaired (bo : nat) (stops : list Z) (rs : list stick) (st : sstore)
  : sstore * option outcome :=
  let '(st0, ok) := start_handler bo st in
  if ok then run_ticks bo stops false rs st0 else (st0, None).

Theorem unrepaired_refuted :
  exists rs st' o, Forall (tick_wf [9]) rs /\
    server_run_unrepaired 2 [9] rs (fresh no_faults) = (st', Some o) /\ o <> OIdleReleased /\
    rec_status st' = Some SRunning.
Proof.
  exists [(false, Ok [CPublish (PStep 1 Running (Some 0%nat) 0 NoOut)]) ; (false, Err 3)]. eexists. eexists.
  split; [repeat constructor | split; [reflexivity | split; [discriminate | reflexivity]]].
Qed.

(* a store that keeps failing defeats any bookkeeping: |backoff|+1 failures for the terminal write and again for
   the watcher leave the record as it was *)
Theorem outage_leaves_running :
  exists rs fl st' o, Forall (tick_wf [9]) rs /\
    server_run 2 [9] rs (fresh fl) = (st', Some o) /\ o <> OIdleReleased /\ rec_status st' = Some SRunning.
Proof.
  exists [(false, Ok [CPublish PCancelled ; CHalt HCancelled])].
  exists {| f_status := [false; true; true; true; true; true; true] ; f_event := [] ; f_idle := [] |}.
  eexists. eexists.
  split; [repeat constructor | split; [reflexivity | split; [discriminate | reflexivity]]].
Qed.

(* ---------- transient faults are invisible ---------- *)
Definition same_view (bo : nat) (a b : sstore) : Prop :=
  s_rec a = s_rec b /\ tol bo a /\ tol bo b /\ quiet_ei a /\ quiet_ei b.

Lemma retry_sim bo w c c' a b :
  same_view bo a b ->
  exists a' b', retry_status bo w c a = (a', true) /\ retry_status bo w c' b = (b', true) /\ same_view bo a' b'.
Proof.
  intros (Hr & Ta & Tb & [Qa1 Qa2] & [Qb1 Qb2]).
  destruct (retry_tolerable bo w c bo 0%nat a (Nat.add_0_r bo) Ta) as (a' & Ea & Ta').
  destruct (retry_tolerable bo w c' bo 0%nat b (Nat.add_0_r bo) Tb) as (b' & Eb & Tb').
  exists a', b'. split; [exact Ea | split; [exact Eb |]].
  pose proof (retry_rec _ _ _ _ _ _ Ea) as (A1 & A2 & A3). pose proof (retry_rec _ _ _ _ _ _ Eb) as (B1 & B2 & B3).
  repeat split; try congruence.
Qed.

Lemma publish_sim bo stops p a b :
  same_view bo a b ->
  exists a' b', publish bo stops p a = (a', true) /\ publish bo stops p b = (b', true) /\ same_view bo a' b'.
Proof.
  intro Hv. unfold publish.
  assert (Hstep : exists a1 b1,
    (match terminal_of stops p with
     | Some k => retry_status bo (option_map (k_write k)) (CallStatus (k_status k)) a | None => (a, true) end) = (a1, true) /\
    (match terminal_of stops p with
     | Some k => retry_status bo (option_map (k_write k)) (CallStatus (k_status k)) b | None => (b, true) end) = (b1, true) /\
    same_view bo a1 b1).
  { destruct (terminal_of stops p) as [k|]; [apply retry_sim; exact Hv | exists a, b; auto]. }
  destruct Hstep as (a1 & b1 & Ea & Eb & (Hr & Ta & Tb & [Qa1 Qa2] & [Qb1 Qb2])). rewrite Ea, Eb.
  destruct (append_event (pub_kind p) a1) as [a2 oka] eqn:Aa. destruct (append_event (pub_kind p) b1) as [b2 okb] eqn:Ab.
  apply append_event_spec in Aa. apply append_event_spec in Ab.
  destruct Aa as (A1 & A2 & A3 & A4). destruct Ab as (B1 & B2 & B3 & B4).
  destruct (A3 Qa1) as [-> A5]. destruct (B3 Qb1) as [-> B5].
  assert (V2 : same_view bo a2 b2) by (unfold same_view, tol, quiet_ei in *; repeat split; congruence).
  destruct p; try (exists a2, b2; split; [reflexivity | split; [reflexivity | exact V2]]).
  destruct (idle_write true a2) as [a3 ok3] eqn:Ia. destruct (idle_write true b2) as [b3 ok4] eqn:Ib.
  apply idle_write_spec in Ia. apply idle_write_spec in Ib.
  destruct Ia as (I1 & I2 & I3 & I4). destruct Ib as (J1 & J2 & J3 & J4).
  destruct V2 as (Hr2 & Ta2 & Tb2 & [Qa3 Qa4] & [Qb3 Qb4]).
  destruct (I3 Qa4) as [-> I5]. destruct (J3 Qb4) as [-> J5].
  exists a3, b3. split; [reflexivity | split; [reflexivity |]].
  unfold same_view, tol, quiet_ei in *. rewrite I4, J4, Hr2. repeat split; congruence.
Qed.

Lemma process_cmds_sim bo stops : forall cs a b,
  same_view bo a b ->
  exists a' b' o, process_cmds bo stops cs a = (a', o) /\ process_cmds bo stops cs b = (b', o) /\ same_view bo a' b'.
Proof.
  induction cs as [|c cs IH]; intros a b Hv; cbn [process_cmds].
  - exists a, b, None; auto.
  - destruct c as [st0 e wid | a0 tg d | k | e | | st0 x | p | | st0 w t]; try (apply IH; exact Hv);
      try (eexists a, b, _; split; [reflexivity | split; [reflexivity | exact Hv]]).
    + destruct k; eexists a, b, _; split; try reflexivity; split; try reflexivity; exact Hv.
    + destruct (publish_sim bo stops p a b Hv) as (a1 & b1 & Ea & Eb & V1). rewrite Ea, Eb. apply IH; exact V1.
Qed.

Lemma on_tick_clear_sim bo m ic r a b :
  same_view bo a b ->
  same_view bo (fst (on_tick_clear m ic r a)) (fst (on_tick_clear m ic r b)) /\
  snd (on_tick_clear m ic r a) = snd (on_tick_clear m ic r b).
Proof.
  intros (Hr & Ta & Tb & [Qa1 Qa2] & [Qb1 Qb2]). unfold on_tick_clear.
  destruct r as [cs | c]; [| split; [repeat split; auto | reflexivity]].
  destruct (m && negb ic); [| split; [repeat split; auto | reflexivity]].
  destruct (idle_write false a) as [a1 oka] eqn:Ia. destruct (idle_write false b) as [b1 okb] eqn:Ib.
  apply idle_write_spec in Ia. apply idle_write_spec in Ib.
  destruct Ia as (I1 & I2 & I3 & I4). destruct Ib as (J1 & J2 & J3 & J4).
  destruct (I3 Qa2) as [-> I5]. destruct (J3 Qb2) as [-> J5]. cbn.
  split; [| reflexivity]. unfold same_view, tol, quiet_ei in *. rewrite I4, J4, Hr. repeat split; congruence.
Qed.

Lemma run_ticks_sim bo stops : forall rs m a b,
  same_view bo a b ->
  exists a' b' o, run_ticks bo stops m rs a = (a', o) /\ run_ticks bo stops m rs b = (b', o) /\ same_view bo a' b'.
Proof.
  induction rs as [|tk rs IH]; intros m a b Hv; cbn [run_ticks].
  - exists a, b, None; auto.
  - unfold run_tick_m. destruct tk as [ic r]. cbn [fst snd].
    destruct (on_tick_clear_sim bo m ic r a b Hv) as [V1 M1].
    destruct (on_tick_clear m ic r a) as [a1 ma]. destruct (on_tick_clear m ic r b) as [b1 mb].
    cbn [fst snd] in V1, M1. subst mb.
    destruct r as [cs | code]; cbn [run_tick].
    + destruct (process_cmds_sim bo stops cs a1 b1 V1) as (a2 & b2 & o1 & Ea & Eb & V2). rewrite Ea, Eb.
      destruct o1; [exists a2, b2, (Some o); auto | apply IH; exact V2].
    + exists a1, b1, (Some (OEngineExc code)); auto.
Qed.

Lemma watcher_sim bo o a b : same_view bo a b -> s_rec (watcher bo o a) = s_rec (watcher bo o b).
Proof.
  intros Hv. pose proof Hv as (Hr & _). unfold watcher, rec_status. rewrite <- Hr.
  destruct (raised o) as [err|]; [| exact Hr].
  destruct (option_map h_status (s_rec a)) as [[]|]; try exact Hr.
  destruct (retry_sim bo (option_map (upd_status (Some SFailed) None (Some err) None)) (CallStatus SFailed) (CallStatus SFailed) a b Hv)
    as (a' & b' & E1 & E2 & (V & _)).
  rewrite E1, E2. exact V.
Qed.

(* transient_faults_tolerated: a status-fault pattern with at most |backoff| failures in a row (and no fault in
   the writes that are not retried) leaves exactly the record and outcome of the fault-free run *)
Theorem transient_faults_tolerated bo stops rs fs :
  tolerable bo 0 fs = true ->
  let faulty := server_run bo stops rs (fresh {| f_status := fs ; f_event := [] ; f_idle := [] |}) in
  let clean := server_run bo stops rs (fresh no_faults) in
  s_rec (fst faulty) = s_rec (fst clean) /\ snd faulty = snd clean.
Proof.
  intros Ht. cbv zeta. unfold server_run, start_handler.
  assert (V0 : same_view bo (fresh {| f_status := fs ; f_event := [] ; f_idle := [] |}) (fresh no_faults)).
  { repeat split; auto. }
  destruct (retry_sim bo (fun _ => Some new_handler) CallInit CallInit _ _ V0) as (a0 & b0 & Ea & Eb & V1).
  rewrite Ea, Eb.
  destruct (run_ticks_sim bo stops rs false a0 b0 V1) as (a1 & b1 & o & Ra & Rb & V2). rewrite Ra, Rb.
  destruct o as [oc|]; cbn [finish_run fst snd].
  - split; [apply watcher_sim; exact V2 | reflexivity].
  - split; [apply V2 | reflexivity].
Qed.

(* ------------------------------------------------------------------------------------------ *)
(* D. the handler's whole life: a stored terminal status never changes again                     *)
(* ------------------------------------------------------------------------------------------ *)
(* a live control loop implies a stored, running handler *)
Definition live_inv (y : sys) : Prop :=
  y_phase y = PhActive -> exists h, s_rec (y_store y) = Some h /\ h_status h = SRunning.

Lemma idle_write_status set st h :
  s_rec st = Some h -> h_status h = SRunning ->
  exists h', s_rec (fst (idle_write set st)) = Some h' /\ h_status h' = SRunning.
Proof.
  intros Hr Hs. destruct (idle_write set st) as [st' ok] eqn:E. apply idle_write_spec in E.
  destruct E as (_ & _ & _ & E). cbn. rewrite Hr in E. destruct ok; cbn in E.
  - eexists; split; [exact E |]. destruct set; cbn; auto.
  - exists h; auto.
Qed.

Lemma step_op_live bo stops o y : op_wf stops o -> live_inv y -> live_inv (step_op bo stops o y).
Proof.
  intros Hw Hi. destruct o as [| tk | | | r]; cbn [step_op].
  - destruct (s_rec (y_store y)) eqn:Er; [exact Hi |]. destruct (y_phase y) eqn:Ep; try exact Hi.
    unfold start_handler. destruct (retry_status bo _ CallInit (y_store y)) as [st' ok] eqn:Es.
    unfold live_inv. destruct ok; cbn; [| discriminate]. intros _. apply retry_ok_applies in Es.
    eexists; split; [exact Es | reflexivity].
  - destruct (y_phase y) eqn:Ep; try exact Hi. destruct (Hi Ep) as (h & Hr & Hs).
    destruct (run_tick_m bo stops (y_marked y) tk (y_store y)) as [[st' m'] o'] eqn:Et.
    unfold live_inv. destruct o' as [oc|].
    + destruct oc; cbn; discriminate.
    + cbn. intros _.
      destruct (run_tick_m_spec _ _ _ _ _ _ _ _ _ Hw Hr Hs Et) as (h' & Hr' & A & _). eauto.
  - unfold rec_status. destruct (s_rec (y_store y)) as [h|] eqn:Er; cbn; [| exact Hi].
    destruct (h_status h) eqn:Es; try exact Hi.
    unfold live_inv. destruct (y_phase y); cbn; intros _; eapply idle_write_status; eauto.
  - unfold live_inv. destruct (y_phase y); cbn; try exact Hi; discriminate.
  - destruct (y_phase y) eqn:Ep; try exact Hi.
    + destruct (s_rec (y_store y)) as [h|] eqn:Er; [| exact Hi].
      destruct (is_terminal (h_status h) || h_idle h) eqn:Eg; [exact Hi |].
      apply orb_false_iff in Eg. destruct Eg as [Eg _].
      unfold live_inv. destruct r as [| c | [c|]]; cbn; try discriminate.
      * destruct (finalize_of c) as [[[s res] e]|]; cbn; [discriminate |].
        intros _. exists h. split; [exact Er |]. destruct (h_status h); [reflexivity | discriminate..].
      * intros _. exists h. split; [exact Er |]. destruct (h_status h); [reflexivity | discriminate..].
    + destruct (s_rec (y_store y)) as [h|] eqn:Er; [| exact Hi].
      destruct (is_terminal (h_status h) || h_idle h) eqn:Eg; [exact Hi |].
      apply orb_false_iff in Eg. destruct Eg as [Eg _].
      unfold live_inv. destruct r as [| c | [c|]]; cbn; try discriminate.
      * destruct (finalize_of c) as [[[s res] e]|]; cbn; [discriminate |].
        intros _. exists h. split; [exact Er |]. destruct (h_status h); [reflexivity | discriminate..].
      * intros _. exists h. split; [exact Er |]. destruct (h_status h); [reflexivity | discriminate..].
Qed.

Lemma step_op_terminal_fixed bo stops o y h :
  live_inv y -> s_rec (y_store y) = Some h -> is_terminal (h_status h) = true ->
  step_op bo stops o y = y.
Proof.
  intros Hi Hr Ht.
  assert (Hph : y_phase y <> PhActive).
  { intro E. destruct (Hi E) as (h0 & E0 & Hs0). rewrite Hr in E0. inversion E0; subst. rewrite Hs0 in Ht. discriminate. }
  destruct o as [| tk | | | r]; cbn [step_op].
  - rewrite Hr. reflexivity.
  - destruct (y_phase y); try reflexivity. exfalso; apply Hph; reflexivity.
  - unfold rec_status. rewrite Hr. cbn. destruct (h_status h); [discriminate | reflexivity..].
  - destruct (y_phase y); try reflexivity. exfalso; apply Hph; reflexivity.
  - rewrite Hr. destruct (y_phase y); try reflexivity; rewrite Ht; reflexivity.
Qed.

(* terminal_sticky: whatever happens afterwards (ticks, sends, releases, restarts, faults), a stored terminal
   record is never touched again - in particular its status never goes back to running *)
Theorem terminal_sticky bo stops : forall ops y h,
  Forall (op_wf stops) ops -> live_inv y ->
  s_rec (y_store y) = Some h -> is_terminal (h_status h) = true ->
  s_rec (y_store (run_sops bo stops ops y)) = Some h.
Proof.
  unfold run_sops. induction ops as [|o ops IH]; intros y h Hw Hi Hr Ht; cbn [fold_left]; [exact Hr |].
  inversion Hw as [|? ? Hw1 Hw2]; subst.
  rewrite (step_op_terminal_fixed bo stops o y h Hi Hr Ht). apply IH; assumption.
Qed.

Lemma run_sops_live bo stops : forall ops y, Forall (op_wf stops) ops -> live_inv y -> live_inv (run_sops bo stops ops y).
Proof.
  unfold run_sops. induction ops as [|o ops IH]; intros y Hw Hi; cbn [fold_left]; [exact Hi |].
  inversion Hw as [|? ? Hw1 Hw2]; subst. apply IH; [exact Hw2 | apply step_op_live; assumption].
Qed.

Lemma run_sops_app bo stops a b y : run_sops bo stops (a ++ b) y = run_sops bo stops b (run_sops bo stops a y).
Proof. unfold run_sops. apply fold_left_app. Qed.

(* from the empty store: once a prefix of the history has stored a terminal status, every extension shows the
   same record *)
Theorem terminal_sticky_from_start bo stops fl ops1 ops2 h :
  Forall (op_wf stops) (ops1 ++ ops2) ->
  s_rec (y_store (run_sops bo stops ops1 (sys0 fl))) = Some h -> is_terminal (h_status h) = true ->
  s_rec (y_store (run_sops bo stops (ops1 ++ ops2) (sys0 fl))) = Some h.
Proof.
  intros Hw Hr Ht. apply Forall_app in Hw. destruct Hw as [Hw1 Hw2].
  rewrite run_sops_app. apply terminal_sticky; try assumption.
  apply run_sops_live; [exact Hw1 | intro E; discriminate E].
Qed.

(* without well-formed command lists (a step that puts a StopEvent on the stream by hand and then lets the run
   go idle) the status does go back to running: the hypothesis is needed *)
Theorem hand_published_stop_reverts :
  exists ops h1 h2,
    s_rec (y_store (run_sops 2 [9] (firstn 2 ops) (sys0 no_faults))) = Some h1 /\ h_status h1 = SCompleted /\
    s_rec (y_store (run_sops 2 [9] ops (sys0 no_faults))) = Some h2 /\ h_status h2 = SRunning.
Proof.
  exists [OpStart ; OpTick (false, Ok [CPublish (PEvent {| ety := 9 ; eid := 1 ; eattrs := [] |})]) ; OpTick (true, Ok [CPublish PIdle])].
  eexists. eexists. cbn. repeat split; reflexivity.
Qed.
