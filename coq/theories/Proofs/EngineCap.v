(* Capacity invariant of the reducer (C01): per step, |in_progress| <= num_workers, worker ids are
   distinct and lie in [0, num_workers).  Preserved by every tick; established by rewind. *)
From Coq Require Import List ZArith Bool Lia PeanoNat.
Import ListNotations.
From WF Require Import Model.Engine.
Open Scope Z_scope.

Definition Inv_cap (w : wstate) : Prop :=
  (length (inprogress w) <= nworkers (w_cfg w))%nat /\ NoDup (map i_wid (inprogress w)) /\
  Forall (fun i => (i_wid i < nworkers (w_cfg w))%nat) (inprogress w).

Definition Inv_ws (ws : list (Z * wstate)) : Prop := Forall (fun p => Inv_cap (snd p)) ws.
Definition Inv_state (s : state) : Prop := Inv_ws (workers s).

(* ---------- first_free ---------- *)
Lemma first_free_spec used k fuel id :
  first_free used k fuel = Some id -> (k <= id < k + fuel)%nat /\ ~ In id used.
Proof.
  revert k; induction fuel as [|f IH]; intros k H; cbn in H; [discriminate|].
  destruct (existsb (Nat.eqb k) used) eqn:E.
  - apply IH in H. destruct H as [H1 H2]. split; [lia|exact H2].
  - inversion H; subst. split; [lia|].
    intro Hin. assert (existsb (Nat.eqb id) used = true) as X.
    { apply existsb_exists. exists id. split; [exact Hin|apply Nat.eqb_refl]. }
    congruence.
Qed.

Lemma first_free_none used k fuel :
  first_free used k fuel = None -> forall i, (k <= i < k + fuel)%nat -> In i used.
Proof.
  revert k; induction fuel as [|f IH]; intros k H i Hi; [lia|].
  cbn in H. destruct (existsb (Nat.eqb k) used) eqn:E; [|discriminate].
  destruct (Nat.eq_dec i k) as [->|Hne].
  - apply existsb_exists in E. destruct E as [x [Hin Hx]].
    apply Nat.eqb_eq in Hx. subst x. exact Hin.
  - apply (IH (S k) H). lia.
Qed.

(* pigeonhole: Python's `id_candidates[0]` never raises IndexError below capacity *)
Lemma first_free_exists used n :
  (length used < n)%nat -> exists id, first_free used 0 n = Some id.
Proof.
  intros Hlen. destruct (first_free used 0 n) as [id|] eqn:F; [eauto|].
  exfalso.
  assert (incl (seq 0 n) used) as Hincl.
  { intros i Hi. apply in_seq in Hi. apply (first_free_none _ _ _ F). lia. }
  pose proof (NoDup_incl_length (seq_NoDup n 0) Hincl) as Hl.
  rewrite seq_length in Hl. lia.
Qed.

Lemma NoDup_app_singleton {A} (l : list A) x : NoDup l -> ~ In x l -> NoDup (l ++ [x]).
Proof.
  intros ND Hni. induction l as [|y ys IH]; cbn; [constructor; [intros []|constructor]|].
  inversion ND as [|? ? Hy ND']; subst. constructor.
  - rewrite in_app_iff. intros [H|[H|[]]]; [exact (Hy H)|subst; apply Hni; left; reflexivity].
  - apply IH; [exact ND'|intro H; apply Hni; right; exact H].
Qed.

(* ---------- changes that do not touch in_progress / config ---------- *)
Lemma cap_same w w' :
  inprogress w' = inprogress w -> w_cfg w' = w_cfg w -> Inv_cap w -> Inv_cap w'.
Proof. unfold Inv_cap. intros -> ->. auto. Qed.

(* ---------- add_or_enqueue ---------- *)
Lemma add_or_enqueue_cfg step a w now w' cs :
  add_or_enqueue step a w now = Ok (w', cs) -> w_cfg w' = w_cfg w.
Proof.
  unfold add_or_enqueue. destruct (Nat.ltb _ _).
  - destruct (first_free _ _ _); intros H; inversion H; reflexivity.
  - intros H; inversion H; reflexivity.
Qed.

Lemma add_or_enqueue_cap step a w now w' cs :
  Inv_cap w -> add_or_enqueue step a w now = Ok (w', cs) -> Inv_cap w'.
Proof.
  intros [Hlen [Hnd Hall]]. unfold add_or_enqueue.
  destruct (Nat.ltb (length (inprogress w)) (nworkers (w_cfg w))) eqn:E.
  - apply Nat.ltb_lt in E.
    destruct (first_free (map i_wid (inprogress w)) 0 (nworkers (w_cfg w))) as [id|] eqn:F; [|discriminate].
    intros H; inversion H; subst; clear H.
    apply first_free_spec in F. destruct F as [Hr Hni].
    unfold Inv_cap; cbn [inprogress w_cfg set_w].
    repeat split.
    + rewrite app_length. cbn [length]. lia.
    + rewrite map_app. cbn [map i_wid]. apply NoDup_app_singleton; assumption.
    + apply Forall_app. split; [exact Hall|]. constructor; [cbn [i_wid]; lia|constructor].
  - intros H; inversion H; subst. unfold Inv_cap; cbn. repeat split; assumption.
Qed.

(* add_or_enqueue never fails under the invariant (the IndexError branch is dead code) *)
Lemma add_or_enqueue_ok step a w now :
  Inv_cap w -> exists w' cs, add_or_enqueue step a w now = Ok (w', cs).
Proof.
  intros [Hlen [Hnd Hall]]. unfold add_or_enqueue.
  destruct (Nat.ltb (length (inprogress w)) (nworkers (w_cfg w))) eqn:E; [|eauto].
  apply Nat.ltb_lt in E.
  destruct (first_free_exists (map i_wid (inprogress w)) (nworkers (w_cfg w))) as [id F].
  { rewrite map_length. exact E. }
  rewrite F. eauto.
Qed.

(* ---------- drain ---------- *)
Lemma drain_cfg step fuel : forall w now w' cs, drain step w now fuel = Ok (w', cs) -> w_cfg w' = w_cfg w.
Proof.
  induction fuel as [|f IH]; intros w now w' cs H; cbn [drain] in H; [inversion H; reflexivity|].
  destruct (queue w) as [|a q]; [inversion H; reflexivity|].
  destruct (Nat.ltb _ _); [|inversion H; reflexivity].
  destruct (add_or_enqueue _ _ _ _) as [[w1 c1]|] eqn:A; [|discriminate].
  destruct (drain step w1 now f) as [[w2 c2]|] eqn:D; [|discriminate].
  inversion H; subst. apply IH in D. apply add_or_enqueue_cfg in A. cbn in A. congruence.
Qed.

Lemma drain_cap step fuel : forall w now w' cs,
  Inv_cap w -> drain step w now fuel = Ok (w', cs) -> Inv_cap w'.
Proof.
  induction fuel as [|f IH]; intros w now w' cs Hi H; cbn [drain] in H; [inversion H; subst; exact Hi|].
  destruct (queue w) as [|a q] eqn:Q; [inversion H; subst; exact Hi|].
  destruct (Nat.ltb _ _) eqn:E; [|inversion H; subst; exact Hi].
  destruct (add_or_enqueue _ _ _ _) as [[w1 c1]|] eqn:A; [|discriminate].
  destruct (drain step w1 now f) as [[w2 c2]|] eqn:D; [|discriminate].
  inversion H; subst.
  eapply IH; [|exact D]. eapply add_or_enqueue_cap; [|exact A].
  eapply cap_same; [| |exact Hi]; reflexivity.
Qed.

Lemma drain_ok step fuel : forall w now, Inv_cap w -> exists w' cs, drain step w now fuel = Ok (w', cs).
Proof.
  induction fuel as [|f IH]; intros w now Hi; cbn [drain]; [eauto|].
  destruct (queue w) as [|a q] eqn:Q; [eauto|].
  destruct (Nat.ltb _ _) eqn:E; [|eauto].
  set (w0 := set_w w q (inprogress w) (collected w) (waiters w)).
  assert (Inv_cap w0) as H0 by (eapply cap_same; [| |exact Hi]; reflexivity).
  destruct (add_or_enqueue_ok step a w0 now H0) as [w1 [c1 A]]. rewrite A.
  destruct (IH w1 now (add_or_enqueue_cap _ _ _ _ _ _ H0 A)) as [w2 [c2 D]]. rewrite D. eauto.
Qed.

(* ---------- association-list helpers ---------- *)
Lemma Inv_ws_zupdate k w ws : Inv_ws ws -> Inv_cap w -> Inv_ws (zupdate k w ws).
Proof.
  unfold Inv_ws. induction ws as [|[k' v] t IH]; cbn; intros H Hw.
  - constructor; [exact Hw|constructor].
  - inversion H; subst. destruct (Z.eqb k k'); constructor; cbn; auto.
Qed.

Lemma Inv_ws_zlookup k ws w : Inv_ws ws -> zlookup k ws = Some w -> Inv_cap w.
Proof.
  unfold Inv_ws. induction ws as [|[k' v] t IH]; cbn; intros H E; [discriminate|].
  inversion H; subst. destruct (Z.eqb k k'); [inversion E; subst; assumption|auto].
Qed.

(* ---------- waiter pass / routing (TAdd) ---------- *)
Lemma waiter_pass_cap step e : forall todo done w now acc hit w' cs h,
  Inv_cap w -> waiter_pass step e done todo w now acc hit = Ok (w', cs, h) -> Inv_cap w'.
Proof.
  induction todo as [|wt rest IH]; intros done w now acc hit w' cs h Hi H; cbn [waiter_pass] in H.
  - inversion H; subst; exact Hi.
  - destruct (negb (w_pending wt) && waiter_matches e wt).
    + destruct (add_or_enqueue _ _ _ _) as [[w2 c2]|] eqn:A; [|discriminate].
      eapply IH; [|exact H]. eapply add_or_enqueue_cap; [|exact A].
      eapply cap_same; [| |exact Hi]; reflexivity.
    + eapply IH; [exact Hi|exact H].
Qed.

Lemma add_waiters_cap e target : forall ws now ws' cs hits,
  Inv_ws ws -> add_waiters e target ws now = Ok (ws', cs, hits) -> Inv_ws ws'.
Proof.
  induction ws as [|[n w] t IH]; intros now ws' cs hits Hi H; cbn [add_waiters] in H.
  - inversion H; subst; constructor.
  - inversion Hi as [|? ? Hw Ht]; subst. cbn in Hw.
    destruct (if target_ok target n then waiter_pass n e [] (waiters w) w now [] false else Ok (w, [], false))
      as [[[w1 c1] h1]|] eqn:W; [|discriminate].
    destruct (add_waiters e target t now) as [[[t1 c2] h2]|] eqn:R; [|discriminate].
    inversion H; subst.
    constructor; [cbn|eapply IH; [|exact R]; assumption].
    destruct (target_ok target n); [eapply waiter_pass_cap; [|exact W]; assumption|inversion W; subst; assumption].
Qed.

Lemma add_routes_cap a target skip : forall ws now ws' cs h,
  Inv_ws ws -> add_routes a target skip ws now = Ok (ws', cs, h) -> Inv_ws ws'.
Proof.
  induction ws as [|[n w] t IH]; intros now ws' cs h Hi H; cbn [add_routes] in H.
  - inversion H; subst; constructor.
  - inversion Hi as [|? ? Hw Ht]; subst. cbn in Hw.
    destruct (negb (zmem n skip) && zmem (ety (a_ev a)) (accepts (w_cfg w)) && target_ok target n).
    + destruct (add_or_enqueue n a w now) as [[w1 c1]|] eqn:A; [|discriminate].
      destruct (add_routes a target skip t now) as [[[t1 c2] h2]|] eqn:R; [|discriminate].
      inversion H; subst. constructor; [cbn; eapply add_or_enqueue_cap; eassumption|eapply IH; eassumption].
    + destruct (add_routes a target skip t now) as [[[t1 c2] h2]|] eqn:R; [|discriminate].
      inversion H; subst. constructor; [exact Hw|eapply IH; eassumption].
Qed.

Lemma process_add_cap a target s now s' cs :
  Inv_state s -> process_add a target s now = Ok (s', cs) -> Inv_state s'.
Proof.
  unfold process_add, Inv_state. intros Hi H.
  destruct (add_waiters _ _ _) as [[[ws1 c1] hits]|] eqn:W; [|discriminate].
  destruct (add_routes _ _ _ _ _) as [[[ws2 c2] routed]|] eqn:R; [|discriminate].
  inversion H; subst. cbn. eapply add_routes_cap; [|exact R]. eapply add_waiters_cap; eassumption.
Qed.

(* ---------- step results ---------- *)
Lemma replace_ip_wids i' l : map i_wid (replace_ip i' l) = map i_wid l.
Proof.
  induction l as [|i t IH]; cbn; [reflexivity|].
  destruct (Nat.eqb (i_wid i) (i_wid i')) eqn:E; cbn; [apply Nat.eqb_eq in E; congruence|rewrite IH; reflexivity].
Qed.

Lemma replace_ip_length i' l : length (replace_ip i' l) = length l.
Proof. rewrite <- (map_length i_wid), replace_ip_wids, map_length. reflexivity. Qed.

Lemma Forall_wid_map (Pn : nat -> Prop) l :
  Forall (fun i => Pn (i_wid i)) l <-> Forall Pn (map i_wid l).
Proof. rewrite Forall_map. reflexivity. Qed.

Lemma cap_replace w i' :
  Inv_cap w -> Inv_cap (set_w w (queue w) (replace_ip i' (inprogress w)) (collected w) (waiters w)).
Proof.
  intros [H1 [H2 H3]]. unfold Inv_cap; cbn [inprogress w_cfg set_w].
  rewrite replace_ip_length, replace_ip_wids. repeat split; auto.
  apply (Forall_wid_map (fun n => (n < nworkers (w_cfg w))%nat)). rewrite replace_ip_wids.
  apply (Forall_wid_map (fun n => (n < nworkers (w_cfg w))%nat)). exact H3.
Qed.

Lemma remove_ip_incl wid l : incl (remove_ip wid l) l.
Proof.
  induction l as [|i t IH]; cbn; [intros x []|].
  destruct (Nat.eqb (i_wid i) wid); [intros x Hx; right; exact Hx|].
  intros x [<-|Hx]; [left; reflexivity|right; apply IH; exact Hx].
Qed.

Lemma remove_ip_length wid l : (length (remove_ip wid l) <= length l)%nat.
Proof. induction l as [|i t IH]; cbn; [lia|]. destruct (Nat.eqb _ _); cbn; lia. Qed.

Lemma remove_ip_nodup wid l : NoDup (map i_wid l) -> NoDup (map i_wid (remove_ip wid l)).
Proof.
  induction l as [|i t IH]; cbn; intros H; [constructor|].
  inversion H as [|? ? Hn Ht]; subst.
  destruct (Nat.eqb (i_wid i) wid); [exact Ht|]. cbn. constructor; [|apply IH; exact Ht].
  intro Hin. apply Hn. apply in_map_iff in Hin. destruct Hin as [x [Hx Hin]].
  apply in_map_iff. exists x. split; [exact Hx|apply (remove_ip_incl wid t); exact Hin].
Qed.

Lemma cap_remove w wid :
  Inv_cap w -> Inv_cap (set_w w (queue w) (remove_ip wid (inprogress w)) (collected w) (waiters w)).
Proof.
  intros [H1 [H2 H3]]. unfold Inv_cap; cbn [inprogress w_cfg set_w]. repeat split.
  - pose proof (remove_ip_length wid (inprogress w)). lia.
  - apply remove_ip_nodup. exact H2.
  - rewrite Forall_forall in *. intros x Hx. apply H3. apply (remove_ip_incl wid). exact Hx.
Qed.

Definition acc_inv (a : acc) : Prop := Inv_state (k_state a) /\ Inv_cap (k_w a).

Lemma Inv_ws_clear ws : Inv_ws ws -> Inv_ws (map (fun p => (fst p, clear_cw (snd p))) ws).
Proof.
  unfold Inv_ws. intros H. apply Forall_map. eapply Forall_impl; [|exact H].
  intros [k w] Hw. cbn in *. eapply cap_same; [| |exact Hw]; reflexivity.
Qed.

Ltac break_match H :=
  repeat match type of H with
  | context [match ?x with _ => _ end] => destruct x eqn:?
  end.

Lemma one_result_inv P step tev dc now a r a' :
  acc_inv a -> one_result P step tev dc now a r = Ok a' -> acc_inv a'.
Proof.
  intros [Hs Hw] H. unfold one_result in H.
  break_match H; try discriminate; inversion H; subst; clear H; split; cbn; try assumption;
    try (eapply cap_same; [| |exact Hw]; reflexivity);
    try (apply cap_replace; exact Hw).
  unfold Inv_state; cbn. apply Inv_ws_clear. apply Inv_ws_zupdate; assumption.
Qed.

Lemma results_loop_inv P step tev dc now : forall rs a a',
  acc_inv a -> results_loop P step tev dc now a rs = Ok a' -> acc_inv a'.
Proof.
  induction rs as [|r t IH]; intros a a' Hi H; cbn [results_loop] in H.
  - inversion H; subst; exact Hi.
  - destruct (one_result P step tev dc now a r) as [a1|] eqn:O; [|discriminate].
    eapply IH; [|exact H]. eapply one_result_inv; eassumption.
Qed.

Lemma put_w_inv step w s : Inv_state s -> Inv_cap w -> Inv_state (put_w step w s).
Proof. unfold Inv_state, put_w. cbn. intros. apply Inv_ws_zupdate; assumption. Qed.

Lemma process_step_cap P step wid tev rs s now s' cs :
  Inv_state s -> process_step P step wid tev rs s now = Ok (s', cs) -> Inv_state s'.
Proof.
  unfold process_step. intros Hi H.
  destruct (zlookup step (workers s)) as [w|] eqn:L; [|discriminate].
  destruct (find_ip wid (inprogress w)) as [this|]; [|discriminate].
  destruct (results_loop _ _ _ _ _ _ _) as [a|] eqn:RL; [|discriminate].
  assert (acc_inv a) as [As Aw].
  { eapply results_loop_inv; [|exact RL]. split; cbn; [exact Hi|eapply Inv_ws_zlookup; eassumption]. }
  destruct (k_keep a).
  - destruct (existsb is_exit (k_cmds a)).
    + inversion H; subst. apply put_w_inv; assumption.
    + destruct (drain _ _ _ _) as [[w3 c3]|] eqn:D; [|discriminate].
      inversion H; subst. apply put_w_inv; [assumption|eapply drain_cap; eassumption].
  - pose proof (cap_remove (k_w a) wid Aw) as Hr.
    destruct (existsb is_exit (k_cmds a)).
    + inversion H; subst. apply put_w_inv; assumption.
    + destruct (drain _ _ _ _) as [[w3 c3]|] eqn:D; [|discriminate].
      inversion H; subst. apply put_w_inv; [assumption|eapply drain_cap; eassumption].
Qed.

Lemma process_waiter_timeout_cap step wid s now s' cs :
  Inv_state s -> process_waiter_timeout step wid s now = Ok (s', cs) -> Inv_state s'.
Proof.
  unfold process_waiter_timeout. intros Hi H.
  destruct (zlookup step (workers s)) as [w|] eqn:L; [|inversion H; subst; exact Hi].
  destruct (find_waiter_idx _ _ _); [|inversion H; subst; exact Hi].
  destruct (nth_error _ _) as [wt|]; [|inversion H; subst; exact Hi].
  destruct (w_resolved wt); [inversion H; subst; exact Hi|].
  destruct (add_or_enqueue _ _ _ _) as [[w2 c2]|] eqn:A; [|discriminate].
  inversion H; subst. apply put_w_inv; [exact Hi|].
  eapply add_or_enqueue_cap; [|exact A].
  eapply cap_same; [| |eapply Inv_ws_zlookup; eassumption]; reflexivity.
Qed.

Theorem reduce_cap P t s now s' cs :
  Inv_state s -> reduce P t s now = Ok (s', cs) -> Inv_state s'.
Proof.
  intros Hi H. unfold reduce in H. destruct t.
  - destruct (process_add _ _ _ _) as [[s1 c1]|] eqn:E; [|discriminate].
    inversion H; subst. eapply process_add_cap; eassumption.
  - destruct (process_step _ _ _ _ _ _ _) as [[s1 c1]|] eqn:E; [|discriminate].
    inversion H; subst. eapply process_step_cap; eassumption.
  - inversion H; subst; exact Hi.
  - inversion H; subst; exact Hi.
  - inversion H; subst; exact Hi.
  - destruct (process_waiter_timeout _ _ _ _) as [[s1 c1]|] eqn:E; [|discriminate].
    inversion H; subst. eapply process_waiter_timeout_cap; eassumption.
  - inversion H; subst; exact Hi.
  - inversion H; subst; exact Hi.
Qed.

(* ---------- whole histories ---------- *)
Theorem fold_ticks_cap P : forall ts s now s',
  Inv_state s -> fold_ticks P s ts now = Ok s' -> Inv_state s'.
Proof.
  induction ts as [|t r IH]; intros s now s' Hi H; cbn [fold_ticks] in H.
  - inversion H; subst; exact Hi.
  - destruct (reduce P t s now) as [[s1 c1]|] eqn:E; [|discriminate].
    eapply IH; [|exact H]. eapply reduce_cap; eassumption.
Qed.

(* histories with an individual timestamp per tick (what the runner does) *)
Fixpoint run_ticks (P : policy) (s : state) (ts : list (tick * Z)) : res state :=
  match ts with
  | [] => Ok s
  | (t, now) :: r => match reduce P t s now with Err c => Err c | Ok (s', _) => run_ticks P s' r end
  end.

Theorem run_ticks_cap P : forall ts s s', Inv_state s -> run_ticks P s ts = Ok s' -> Inv_state s'.
Proof.
  induction ts as [|[t now] r IH]; intros s s' Hi H; cbn [run_ticks] in H.
  - inversion H; subst; exact Hi.
  - destruct (reduce P t s now) as [[s1 c1]|] eqn:E; [|discriminate].
    eapply IH; [|exact H]. eapply reduce_cap; eassumption.
Qed.

(* ---------- initial / resumed states ---------- *)
Lemma cap_empty w : inprogress w = [] -> Inv_cap w.
Proof. intros E. unfold Inv_cap. rewrite E. cbn. repeat split; [lia|constructor|constructor]. Qed.

Lemma blank_state_cap s : Inv_state (blank_state s).
Proof.
  unfold Inv_state, blank_state, Inv_ws; cbn. apply Forall_map. apply Forall_forall.
  intros [k w] _. cbn. apply cap_empty. reflexivity.
Qed.

Lemma from_ser_cap base c : Inv_state (from_ser base c).
Proof.
  unfold Inv_state, from_ser, Inv_ws; cbn. rewrite map_map. apply Forall_map. apply Forall_forall.
  intros [k w] _. cbn. destruct (zlookup k (sc_workers c)); cbn; apply cap_empty; reflexivity.
Qed.

(* rewind establishes the invariant from ANY state (it empties in_progress and re-admits) *)
Lemma rewind_worker_cap step w now w' cs : rewind_worker step w now = Ok (w', cs) -> Inv_cap w'.
Proof.
  unfold rewind_worker. intros H. eapply drain_cap; [|exact H]. apply cap_empty. reflexivity.
Qed.

Definition Inv_on (keys : list Z) (ws : list (Z * wstate)) : Prop :=
  forall k w, In k keys -> zlookup k ws = Some w -> Inv_cap w.

Lemma zlookup_zupdate_eq {A} k (v : A) l : zlookup k (zupdate k v l) = Some v.
Proof. induction l as [|[k' v'] t IH]; cbn; [rewrite Z.eqb_refl; reflexivity|].
  destruct (Z.eqb k k') eqn:E; cbn; rewrite ?Z.eqb_refl, ?E; auto. Qed.

Lemma zlookup_zupdate_neq {A} k k2 (v : A) l : k2 <> k -> zlookup k2 (zupdate k v l) = zlookup k2 l.
Proof.
  intros Hne. induction l as [|[k' v'] t IH]; cbn.
  - destruct (Z.eqb k2 k) eqn:E; [apply Z.eqb_eq in E; contradiction|reflexivity].
  - destruct (Z.eqb k k') eqn:E; cbn.
    + apply Z.eqb_eq in E. subst k'. destruct (Z.eqb k2 k) eqn:E2; [apply Z.eqb_eq in E2; contradiction|reflexivity].
    + destruct (Z.eqb k2 k'); [reflexivity|exact IH].
Qed.

Lemma rewind_all_on : forall order ws now cs ws' cs' keys,
  Inv_on keys ws -> rewind_all order ws now cs = Ok (ws', cs') ->
  Inv_on (map fst order ++ keys) ws'.
Proof.
  induction order as [|[n w] t IH]; intros ws now cs ws' cs' keys Hk H; cbn [rewind_all] in H.
  - inversion H; subst. exact Hk.
  - destruct (rewind_worker n w now) as [[w1 c1]|] eqn:R; [|discriminate].
    specialize (IH (zupdate n w1 ws) now (cs ++ c1) ws' cs' (n :: keys)).
    assert (Inv_on (n :: keys) (zupdate n w1 ws)) as Hk'.
    { intros k v [<-|Hin] L.
      - rewrite zlookup_zupdate_eq in L. inversion L; subst. eapply rewind_worker_cap; exact R.
      - destruct (Z.eq_dec k n) as [->|Hne].
        + rewrite zlookup_zupdate_eq in L. inversion L; subst. eapply rewind_worker_cap; exact R.
        + rewrite zlookup_zupdate_neq in L by exact Hne. eapply Hk; eassumption. }
    specialize (IH Hk' H). intros k v Hin L. apply (IH k v); [|exact L].
    cbn [map fst] in Hin. rewrite in_app_iff in *. destruct Hin as [[<-|Hin]|Hin].
    + right. left. reflexivity.
    + left. exact Hin.
    + right. right. exact Hin.
Qed.

Lemma insert_sorted_keys p l x : In x (map fst (insert_sorted p l)) <-> x = fst p \/ In x (map fst l).
Proof.
  induction l as [|h t IH]; cbn; [intuition congruence|].
  destruct (Z.leb (fst p) (fst h)); cbn; [intuition congruence|]. rewrite IH. intuition congruence.
Qed.

Lemma sort_workers_keys l x : In x (map fst (sort_workers l)) <-> In x (map fst l).
Proof.
  induction l as [|h t IH]; cbn; [tauto|]. rewrite insert_sorted_keys, IH. intuition congruence.
Qed.

Lemma zlookup_in {A} k (l : list (Z * A)) v : zlookup k l = Some v -> In k (map fst l).
Proof.
  induction l as [|[k' v'] t IH]; cbn; [discriminate|].
  destruct (Z.eqb k k') eqn:E; [apply Z.eqb_eq in E; auto|auto].
Qed.

Lemma zupdate_keys_in {A} n (v : A) l : In n (map fst l) -> map fst (zupdate n v l) = map fst l.
Proof.
  induction l as [|[k' v'] t IH]; cbn; [intros []|].
  destruct (Z.eqb n k') eqn:E; cbn.
  - apply Z.eqb_eq in E. subst. reflexivity.
  - intros [H|H]; [apply Z.eqb_neq in E; congruence|rewrite IH by exact H; reflexivity].
Qed.

Lemma rewind_all_keys : forall order ws now cs ws' cs',
  (forall k, In k (map fst order) -> In k (map fst ws)) ->
  rewind_all order ws now cs = Ok (ws', cs') -> map fst ws' = map fst ws.
Proof.
  induction order as [|[n w] t IH]; intros ws now cs ws' cs' Hsub H; cbn [rewind_all] in H.
  - inversion H; subst. reflexivity.
  - destruct (rewind_worker n w now) as [[w1 c1]|]; [|discriminate].
    assert (In n (map fst ws)) as Hn by (apply Hsub; left; reflexivity).
    rewrite (IH _ _ _ _ _ (fun k Hk => eq_ind_r (fun l => In k l) (Hsub k (or_intror Hk)) (zupdate_keys_in n w1 ws Hn)) H).
    apply zupdate_keys_in. exact Hn.
Qed.

Lemma zlookup_nodup {A} k (v : A) l : NoDup (map fst l) -> In (k, v) l -> zlookup k l = Some v.
Proof.
  induction l as [|[k' v'] t IH]; cbn; intros ND Hin; [destruct Hin|].
  inversion ND as [|? ? Hn Ht]; subst.
  destruct Hin as [E|Hin].
  - inversion E; subst. rewrite Z.eqb_refl. reflexivity.
  - destruct (Z.eqb k k') eqn:E.
    + apply Z.eqb_eq in E. subst. exfalso. apply Hn. apply in_map_iff. exists (k', v). auto.
    + apply IH; assumption.
Qed.

(* dict keys are unique *)
Definition Keys_ok (s : state) : Prop := NoDup (map fst (workers s)).

Theorem rewind_cap s now s' cs : Keys_ok s -> rewind s now = Ok (s', cs) -> Inv_state s'.
Proof.
  unfold rewind, Keys_ok. intros ND. destruct (rewind_all _ _ _ _) as [[ws cs0]|] eqn:R; [|discriminate].
  intros H; inversion H; subst; clear H. unfold Inv_state, Inv_ws; cbn.
  pose proof (rewind_all_on _ _ _ _ _ _ [] (fun k w (F : In k []) _ => match F with end) R) as Hon.
  assert (map fst ws = map fst (workers s)) as Hkeys.
  { eapply rewind_all_keys; [|exact R]. intros k Hk. apply sort_workers_keys. exact Hk. }
  apply Forall_forall. intros [k w] Hin. cbn.
  apply (Hon k w).
  - rewrite app_nil_r. apply sort_workers_keys. rewrite <- Hkeys. apply in_map_iff. exists (k, w). auto.
  - apply zlookup_nodup; [rewrite Hkeys; exact ND|exact Hin].
Qed.

Theorem rewind_keys s now s' cs : rewind s now = Ok (s', cs) -> map fst (workers s') = map fst (workers s).
Proof.
  unfold rewind. destruct (rewind_all _ _ _ _) as [[ws cs0]|] eqn:R; [|discriminate].
  intros H; inversion H; subst; cbn. eapply rewind_all_keys; [|exact R].
  intros k Hk. apply sort_workers_keys. exact Hk.
Qed.
