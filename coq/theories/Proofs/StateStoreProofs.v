(* Proofs about M-StateStore (C19): laws of the path operations, refinement of the nested-dict
   specification by the in-memory model (object identity explicit) and by the SQLite model
   (load/save around every operation), snapshot isolation. *)
From Coq Require Import List ZArith Bool Lia.
Import ListNotations.
From WF Require Import Model.StateStore.
Open Scope Z_scope.

(* ---------- strings / association lists ---------- *)
Lemma str_eqb_refl : forall a, str_eqb a a = true.
Proof. induction a as [|x a IH]; cbn; [reflexivity|]. rewrite Z.eqb_refl, IH. reflexivity. Qed.

Lemma str_eqb_eq : forall a b, str_eqb a b = true <-> a = b.
Proof.
  induction a as [|x a IH]; intros [|y b]; cbn; split; intro H; try reflexivity; try discriminate.
  - apply andb_true_iff in H. destruct H as [H1 H2]. apply Z.eqb_eq in H1. apply IH in H2. congruence.
  - inversion H; subst. rewrite Z.eqb_refl, str_eqb_refl. reflexivity.
Qed.

Lemma str_eqb_neq : forall a b, str_eqb a b = false <-> a <> b.
Proof.
  intros a b. split; intro H.
  - intro E. apply str_eqb_eq in E. congruence.
  - destruct (str_eqb a b) eqn:E; [apply str_eqb_eq in E; contradiction|reflexivity].
Qed.

Lemma lookup_upsert_same : forall A k (v : A) d, lookup k (upsert k v d) = Some v.
Proof.
  intros A k v d. induction d as [|[k' v'] d IH]; cbn.
  - rewrite str_eqb_refl. reflexivity.
  - destruct (str_eqb k k') eqn:E; cbn; rewrite E; [reflexivity|exact IH].
Qed.

Lemma lookup_upsert_other : forall A k k' (v : A) d, k' <> k -> lookup k' (upsert k v d) = lookup k' d.
Proof.
  intros A k k' v d N. induction d as [|[k2 v2] d IH]; cbn.
  - apply str_eqb_neq in N. rewrite N. reflexivity.
  - destruct (str_eqb k k2) eqn:E; cbn.
    + apply str_eqb_eq in E. subst k2. apply str_eqb_neq in N. rewrite N. reflexivity.
    + destruct (str_eqb k' k2); [reflexivity|exact IH].
Qed.

Lemma length_set_nth : forall A n (x : A) l, length (set_nth n x l) = length l.
Proof. intros A n x l. revert n. induction l as [|y l IH]; intros [|n]; cbn; auto. Qed.

Lemma nth_error_set_nth_same : forall A n (x : A) l, (n < length l)%nat -> nth_error (set_nth n x l) n = Some x.
Proof.
  intros A n x l. revert n. induction l as [|y l IH]; intros [|n] H; cbn in *; try lia; [reflexivity|].
  apply IH. lia.
Qed.

Lemma nth_error_set_nth_other : forall A n m (x : A) l, n <> m -> nth_error (set_nth n x l) m = nth_error l m.
Proof.
  intros A n m x l. revert n m. induction l as [|y l IH]; intros [|n] [|m] H; cbn; try reflexivity; try congruence.
  apply IH. congruence.
Qed.

Lemma norm_index_lt : forall i n k, norm_index i n = Some k -> (k < n)%nat.
Proof.
  intros i n k. unfold norm_index.
  destruct ((0 <=? i) && (i <? Z.of_nat n)) eqn:E1.
  - intro H. inversion H; subst. apply andb_true_iff in E1. destruct E1 as [A B].
    apply Z.leb_le in A. apply Z.ltb_lt in B. lia.
  - destruct ((i <? 0) && (0 <=? i + Z.of_nat n)) eqn:E2; [|discriminate].
    intro H. inversion H; subst. apply andb_true_iff in E2. destruct E2 as [A B].
    apply Z.ltb_lt in A. apply Z.leb_le in B. lia.
Qed.

Lemma seg_index_lt : forall s n k, seg_index s n = Some k -> (k < n)%nat.
Proof. intros s n k. unfold seg_index. destruct (parse_int s); [apply norm_index_lt|discriminate]. Qed.

(* ---------- laws of the path operations (what "nested dict" means) ---------- *)
Lemma vtraverse_vassign_same : forall v s x v', vassign v s x = Some v' -> vtraverse v' s = Some x.
Proof.
  intros v s x v' H. destruct v; cbn in H; try discriminate.
  - destruct (seg_index s (length l)) eqn:E; [|discriminate]. inversion H; subst. cbn.
    rewrite length_set_nth, E. apply nth_error_set_nth_same. eapply seg_index_lt; eauto.
  - inversion H; subst. cbn. apply lookup_upsert_same.
Qed.

Lemma vget_nest : forall segs x, vget segs (nest segs x) = Some x.
Proof.
  induction segs as [|s r IH]; intro x; cbn; [reflexivity|]. rewrite str_eqb_refl. apply IH.
Qed.

(* reading the path just written returns the written value *)
Lemma vget_vset_same : forall segs x v v', vset segs x v = Some v' -> vget segs v' = Some x.
Proof.
  induction segs as [|s r IH]; intros x v v' H; cbn in *.
  - inversion H; subst. reflexivity.
  - destruct (vtraverse v s) as [child|] eqn:T.
    + destruct (vset r x child) as [child'|] eqn:S; [|discriminate].
      rewrite (vtraverse_vassign_same _ _ _ _ H). eapply IH; eauto.
    + rewrite (vtraverse_vassign_same _ _ _ _ H). apply vget_nest.
Qed.

(* a dict keeps every other key when one key is written through (frame) *)
Lemma vset_dict_frame : forall s r x d v' k,
  vset (s :: r) x (VDict d) = Some v' -> k <> s -> vtraverse v' k = lookup k d.
Proof.
  intros s r x d v' k H N. cbn in H.
  destruct (lookup s d) as [child|].
  - destruct (vset r x child); [|discriminate]. inversion H; subst. cbn. apply lookup_upsert_other; exact N.
  - inversion H; subst. cbn. apply lookup_upsert_other; exact N.
Qed.

(* a list keeps its length and every other position *)
Lemma vset_list_frame : forall s r x l v',
  vset (s :: r) x (VList l) = Some v' ->
  exists k l', seg_index s (length l) = Some k /\ v' = VList l' /\ length l' = length l /\
               forall m, m <> k -> nth_error l' m = nth_error l m.
Proof.
  intros s r x l v' H. cbn in H.
  destruct (seg_index s (length l)) as [k|] eqn:E.
  - assert (exists c, v' = VList (set_nth k c l)) as [c Hc].
    { destruct (nth_error l k) as [child|].
      - destruct (vset r x child) as [c'|]; [|discriminate]. cbn in H. rewrite ?E in H. inversion H. eauto.
      - cbn in H. rewrite ?E in H. inversion H. eauto. }
    subst v'. exists k, (set_nth k c l). repeat split; auto using length_set_nth.
    intros m Hm. apply nth_error_set_nth_other. congruence.
  - cbn in H. rewrite ?E in H. discriminate.
Qed.

(* strings and scalars cannot be written into: set_by_path ends in AttributeError *)
Lemma vset_scalar_fails : forall s r x v,
  match v with VDict _ | VList _ => False | _ => True end -> vset (s :: r) x v = None.
Proof.
  intros s r x v H. destruct v; try contradiction; cbn; try reflexivity.
  destruct (seg_index s (length s0)); [|reflexivity].
  destruct (nth_error s0 n); [|reflexivity]. destruct (vset r x (VStr [z])); reflexivity.
Qed.

(* a missing dict key is created as a chain of fresh dicts *)
Lemma vset_creates : forall s r x d, lookup s d = None ->
  vset (s :: r) x (VDict d) = Some (VDict (d ++ [(s, nest r x)])).
Proof.
  intros s r x d H. cbn. rewrite H. cbn. f_equal. f_equal.
  induction d as [|[k v] d IH]; cbn in *; [reflexivity|].
  destruct (str_eqb s k); [discriminate|]. f_equal. apply IH. exact H.
Qed.

(* store level: get(path) after a successful set(path, v) returns v *)
Lemma root_get_set_same : forall segs x o o', root_set segs x o = Ok o' -> root_get segs o' = Some (inr x).
Proof.
  intros [|s r] x o o' H; cbn in H; [discriminate|].
  assert (forall c, root_assign o s c = Ok o' -> lookup s (o_items o') = Some c) as RA.
  { intros c Hc. unfold root_assign in Hc.
    destruct (is_dictlike (o_cls o)); [|destruct (has_key s (o_items o)); [|discriminate]];
      inversion Hc; subst; cbn; apply lookup_upsert_same. }
  cbn. destruct (lookup s (o_items o)) as [child|].
  - destruct (vset r x child) as [c'|] eqn:S; [|discriminate].
    rewrite (RA _ H). rewrite (vget_vset_same _ _ _ _ S). reflexivity.
  - rewrite (RA _ H). rewrite vget_nest. reflexivity.
Qed.

Lemma get_after_set : forall o p x o', set_by_path o p x = Ok o' -> get_by_path o' p = Ok (inr x).
Proof.
  intros o p x o' H. unfold set_by_path in H. unfold get_by_path.
  destruct p as [|c p]; [discriminate|].
  destruct (Nat.ltb MAX_DEPTH (length (segments (c :: p)))); [discriminate|].
  rewrite (root_get_set_same _ _ _ _ H). reflexivity.
Qed.

(* a failing set leaves nothing behind: immediate in the functional model; on the real stores it is
   observed by the correspondence suite (state dumps after failing sets) *)

(* ---------- classes ---------- *)
Lemma is_prefix_refl : forall a, is_prefix a a = true.
Proof. induction a as [|x a IH]; cbn; [reflexivity|]. rewrite Z.eqb_refl. exact IH. Qed.

Lemma is_prefix_trans : forall a b c, is_prefix a b = true -> is_prefix b c = true -> is_prefix a c = true.
Proof.
  induction a as [|x a IH]; intros [|y b] [|z c] H1 H2; cbn in *; try reflexivity; try discriminate.
  apply andb_true_iff in H1. apply andb_true_iff in H2. destruct H1 as [A1 B1]. destruct H2 as [A2 B2].
  apply Z.eqb_eq in A1. apply Z.eqb_eq in A2. subst. rewrite Z.eqb_refl. cbn. eapply IH; eauto.
Qed.

Lemma merge_same_class_replaces : forall cur inc, o_cls inc = o_cls cur -> merge_state cur inc = Ok inc.
Proof. intros cur inc H. unfold merge_state, subclass. rewrite H, is_prefix_refl. reflexivity. Qed.

Lemma merge_unrelated_rejected : forall cur inc,
  subclass (o_cls inc) (o_cls cur) = false -> subclass (o_cls cur) (o_cls inc) = false ->
  merge_state cur inc = Err EValue.
Proof. intros cur inc H1 H2. unfold merge_state. rewrite H1, H2. reflexivity. Qed.

Lemma lookup_map_merge : forall k (f : str -> value -> value) d,
  lookup k (map (fun kv => (fst kv, f (fst kv) (snd kv))) d) =
  match lookup k d with Some v => Some (f k v) | None => None end.
Proof.
  intros k f d. induction d as [|[k' v'] d IH]; cbn; [reflexivity|].
  destruct (str_eqb k k') eqn:E; [|exact IH]. apply str_eqb_eq in E. subst. reflexivity.
Qed.

(* parent-type merge: class and field set of the current state are kept; a field takes the incoming
   value when the parent has it and keeps its own value otherwise *)
Lemma merge_parent : forall cur inc m,
  subclass (o_cls inc) (o_cls cur) = false -> merge_state cur inc = Ok m ->
  o_cls m = o_cls cur /\ map fst (o_items m) = map fst (o_items cur) /\
  forall k v, lookup k (o_items cur) = Some v ->
    lookup k (o_items m) = Some (match lookup k (o_items inc) with Some v' => v' | None => v end).
Proof.
  intros cur inc m H1 H. unfold merge_state in H. rewrite H1 in H.
  destruct (subclass (o_cls cur) (o_cls inc)); [|discriminate]. inversion H; subst; cbn.
  repeat split.
  - rewrite map_map. cbn. reflexivity.
  - intros k v L.
    rewrite (lookup_map_merge k (fun k v => match lookup k (o_items inc) with Some v' => v' | None => v end)).
    rewrite L. reflexivity.
Qed.

(* the class of the stored state never leaves the subclasses of the declared state type *)
Definition under (ty : list Z) (s : spec) : Prop := subclass (o_cls (sp_state s)) ty = true.

Lemma merge_class_under : forall ty cur inc m,
  subclass (o_cls cur) ty = true -> merge_state cur inc = Ok m -> subclass (o_cls m) ty = true.
Proof.
  intros ty cur inc m U H. unfold merge_state in H.
  destruct (subclass (o_cls inc) (o_cls cur)) eqn:E.
  - inversion H; subst. unfold subclass in *. eapply is_prefix_trans; eauto.
  - destruct (subclass (o_cls cur) (o_cls inc)); [|discriminate]. inversion H; subst. exact U.
Qed.

Lemma root_assign_cls : forall o s x o', root_assign o s x = Ok o' -> o_cls o' = o_cls o.
Proof.
  intros o s x o' H. unfold root_assign in H.
  destruct (is_dictlike (o_cls o)); [|destruct (has_key s (o_items o)); [|discriminate]]; inversion H; reflexivity.
Qed.

Lemma set_by_path_cls : forall o p x o', set_by_path o p x = Ok o' -> o_cls o' = o_cls o.
Proof.
  intros o p x o' H. unfold set_by_path in H. destruct p; [discriminate|].
  destruct (Nat.ltb _ _); [discriminate|]. unfold root_set in H.
  destruct (segments (z :: p)) as [|s r]; [discriminate|].
  destruct (lookup s (o_items o)); [destruct (vset r x v); [|discriminate]|]; eapply root_assign_cls; eauto.
Qed.

Lemma apply_edit_cls : forall o e, o_cls (apply_edit o e) = o_cls o.
Proof.
  intros o e. destruct e; cbn.
  - destruct (is_dictlike (o_cls o) || has_key k (o_items o)); reflexivity.
  - destruct (lookup k (o_items o)) as [[]|]; destruct (is_dictlike (o_cls o) || has_key k (o_items o)); reflexivity.
Qed.

Lemma apply_edits_cls : forall es o, o_cls (apply_edits o es) = o_cls o.
Proof.
  unfold apply_edits. induction es as [|e es IH]; intro o; cbn; [reflexivity|]. rewrite IH. apply apply_edit_cls.
Qed.

Lemma spec_step_under : forall ct ty s o,
  under ty s -> (forall sn, sp_snap s = Some sn -> subclass (o_cls sn) ty = true) ->
  under ty (fst (spec_step ct s o)) /\
  (forall sn, sp_snap (fst (spec_step ct s o)) = Some sn -> subclass (o_cls sn) ty = true).
Proof.
  intros ct ty s o U US. unfold under in *. destruct o; cbn.
  - auto.
  - destruct (set_by_path (sp_state s) p v) eqn:E; cbn; auto.
    rewrite (set_by_path_cls _ _ _ _ E). auto.
  - unfold spec_set_state. destruct (merge_state (sp_state s) inc) eqn:E; cbn; auto.
    split; auto. eapply merge_class_under; eauto.
  - auto.
  - rewrite apply_edits_cls. auto.
  - split; auto. intros sn H. inversion H; subst. exact U.
  - destruct (sp_snap s) as [s0|] eqn:E; cbn.
    + split; auto. intros sn H. inversion H; subst. rewrite apply_edits_cls. apply US. reflexivity.
    + split; auto. intros sn H. rewrite E in H. discriminate.
  - destruct (sp_snap s) as [s0|] eqn:E; cbn.
    + unfold spec_set_state.
      destruct (merge_state (sp_state s) s0) eqn:M; cbn; split; auto; try discriminate.
      eapply merge_class_under; eauto.
    + split; auto. intros sn H. rewrite E in H. discriminate.
Qed.

Lemma class_invariant : forall ct ty ops,
  under ty (exec (spec_step ct) (spec_init ct ty) ops).
Proof.
  intros ct ty ops.
  assert (forall s, under ty s -> (forall sn, sp_snap s = Some sn -> subclass (o_cls sn) ty = true) ->
                    under ty (exec (spec_step ct) s ops)) as G.
  { induction ops as [|o ops IH]; intros s U US; cbn; [exact U|].
    destruct (spec_step_under ct ty s o U US) as [U' US']. apply IH; assumption. }
  apply G.
  - unfold under, spec_init, subclass. cbn. apply is_prefix_refl.
  - cbn. discriminate.
Qed.

(* ---------- generic facts about run / exec ---------- *)
Lemma run_app : forall S (step : S -> op -> S * out) a b s,
  run step s (a ++ b) = run step s a ++ run step (exec step s a) b.
Proof.
  intros S step a. induction a as [|o a IH]; intros b s; cbn; [reflexivity|].
  destruct (step s o) as [s' x] eqn:E. cbn. rewrite IH. reflexivity.
Qed.

Lemma exec_app : forall S (step : S -> op -> S * out) a b s,
  exec step s (a ++ b) = exec step (exec step s a) b.
Proof. intros S step a. induction a as [|o a IH]; intros b s; cbn; [reflexivity|]. apply IH. Qed.

Lemma run_length : forall S (step : S -> op -> S * out) ops s, length (run step s ops) = length ops.
Proof.
  intros S step ops. induction ops as [|o ops IH]; intro s; cbn; [reflexivity|].
  destruct (step s o). cbn. rewrite IH. reflexivity.
Qed.

(* a simulation that preserves outputs gives equal output lists *)
Lemma simulation_run : forall S1 S2 (step1 : S1 -> op -> S1 * out) (step2 : S2 -> op -> S2 * out)
    (R : S1 -> S2 -> Prop),
  (forall s1 s2 o, R s1 s2 -> snd (step1 s1 o) = snd (step2 s2 o) /\ R (fst (step1 s1 o)) (fst (step2 s2 o))) ->
  forall ops s1 s2, R s1 s2 -> run step1 s1 ops = run step2 s2 ops /\ R (exec step1 s1 ops) (exec step2 s2 ops).
Proof.
  intros S1 S2 step1 step2 R H ops. induction ops as [|o ops IH]; intros s1 s2 HR; cbn; [auto|].
  destruct (H s1 s2 o HR) as [E HR'].
  destruct (step1 s1 o) as [s1' x1]. destruct (step2 s2 o) as [s2' x2]. cbn in *. subst.
  destruct (IH _ _ HR') as [E2 HR2]. rewrite E2. auto.
Qed.

(* ---------- SQLite model refines the specification ---------- *)
Definition Rsql (ct : ctable) (ty : list Z) (q : sql) (s : spec) : Prop :=
  q_snap q = sp_snap s /\
  (q_row q = Some (sp_state s) \/ (q_row q = None /\ sp_state s = default_state ct ty)).

Lemma sql_load_R : forall ct ty q s, Rsql ct ty q s ->
  fst (sql_load ct ty q) = sp_state s /\ q_row (snd (sql_load ct ty q)) = Some (sp_state s) /\
  q_snap (snd (sql_load ct ty q)) = sp_snap s.
Proof.
  intros ct ty q s [HS [HR|[HR HD]]]; unfold sql_load; rewrite HR; cbn; rewrite ?HD; auto.
Qed.

Lemma sql_set_state_R : forall ct ty q s inc snap, Rsql ct ty q s ->
  snd (sql_set_state ct ty q inc snap) = snd (spec_set_state s inc snap) /\
  Rsql ct ty (fst (sql_set_state ct ty q inc snap)) (fst (spec_set_state s inc snap)).
Proof.
  intros ct ty q s inc snap [HS HR]. unfold sql_set_state, spec_set_state.
  assert (match q_row q with Some o => o | None => default_state ct ty end = sp_state s) as E.
  { destruct HR as [HR|[HR HD]]; rewrite HR; auto. }
  rewrite E. destruct (merge_state (sp_state s) inc); cbn; split; auto; split; cbn; auto.
Qed.

Lemma sql_step_sim : forall ct ty q s o, Rsql ct ty q s ->
  snd (sql_step ct ty q o) = snd (spec_step ct s o) /\
  Rsql ct ty (fst (sql_step ct ty q o)) (fst (spec_step ct s o)).
Proof.
  intros ct ty q s o HR.
  destruct (sql_load_R ct ty q s HR) as [L1 [L2 L3]].
  destruct o; cbn.
  - destruct (sql_load ct ty q) as [st q1]. cbn in *. subst st. split; [reflexivity|].
    split; cbn; auto.
  - destruct (sql_load ct ty q) as [st q1]. cbn in *. subst st.
    destruct (set_by_path (sp_state s) p v); cbn; split; auto; split; cbn; auto.
  - assert (q_snap q = sp_snap s) as HS by apply HR. rewrite HS. apply sql_set_state_R. exact HR.
  - destruct (sql_load ct ty q) as [st q1] eqn:EL. cbn in *. subst st.
    assert (Rsql ct ty q1 s) as HR1 by (split; auto).
    destruct (sql_set_state_R ct ty q1 s (default_state ct (o_cls (sp_state s))) (q_snap q1) HR1) as [A B].
    unfold spec_set_state in A, B.
    rewrite (merge_same_class_replaces (sp_state s) (default_state ct (o_cls (sp_state s))) eq_refl) in A, B.
    cbn in A, B. rewrite L3 in *. split; [exact A|exact B].
  - destruct (sql_load ct ty q) as [st q1]. cbn in *. subst st. split; auto. split; cbn; auto.
  - destruct (sql_load ct ty q) as [st q1]. cbn in *. subst st. split; auto. split; cbn; auto.
  - destruct HR as [HS HRow]. unfold Rsql. rewrite HS.
    destruct (sp_snap s) eqn:E; cbn; rewrite ?E, ?HS; repeat split; auto.
  - pose proof HR as [HS HRow]. rewrite HS. destruct (sp_snap s) eqn:E; cbn.
    + apply sql_set_state_R. exact HR.
    + split; auto.
Qed.

Theorem sql_refines_spec : forall ct ty ops,
  run (sql_step ct ty) sql_init ops = run (spec_step ct) (spec_init ct ty) ops.
Proof.
  intros ct ty ops.
  apply (simulation_run _ _ (sql_step ct ty) (spec_step ct) (Rsql ct ty) (sql_step_sim ct ty)).
  split; cbn; auto.
Qed.

(* ---------- memory model refines the specification (given that copies copy _data) ---------- *)
Record Rmem (m : mem) (s : spec) : Prop := {
  rm_cur : view (m_heap m) (m_cur m) = sp_state s;
  rm_snap : option_map (view (m_heap m)) (m_snap m) = sp_snap s;
  rm_cur_in : (mo_ref (m_cur m) < length (m_heap m))%nat;
  rm_snap_in : forall sn, m_snap m = Some sn -> (mo_ref sn < length (m_heap m))%nat /\ mo_ref sn <> mo_ref (m_cur m)
}.

Lemma cell_store_same : forall h r it, (r < length h)%nat -> cell (store_cell h r it) r = it.
Proof.
  intros h r it H. unfold cell, store_cell.
  apply nth_error_nth. apply nth_error_set_nth_same. exact H.
Qed.

Lemma cell_store_other : forall h r r' it, r <> r' -> cell (store_cell h r it) r' = cell h r'.
Proof.
  intros h r r' it H. unfold cell, store_cell.
  destruct (nth_error h r') eqn:E.
  - rewrite (nth_error_nth h r' [] E). apply nth_error_nth. rewrite nth_error_set_nth_other by exact H. exact E.
  - rewrite (nth_overflow h); [|apply nth_error_None; exact E].
    apply nth_overflow. rewrite length_set_nth. apply nth_error_None. exact E.
Qed.

Lemma cell_alloc_old : forall h it r, (r < length h)%nat -> cell (h ++ [it]) r = cell h r.
Proof. intros h it r H. unfold cell. apply app_nth1. exact H. Qed.

Lemma cell_alloc_new : forall h it, cell (h ++ [it]) (length h) = it.
Proof. intros h it. unfold cell. rewrite app_nth2; [|lia]. rewrite Nat.sub_diag. reflexivity. Qed.

Lemma view_alloc_old : forall h it o, (mo_ref o < length h)%nat -> view (h ++ [it]) o = view h o.
Proof. intros h it o H. unfold view. rewrite cell_alloc_old; auto. Qed.

Lemma sobj_eta : forall o, {| o_cls := o_cls o; o_items := o_items o |} = o.
Proof. intros []. reflexivity. Qed.

Lemma set_by_path_view : forall o p x o', set_by_path o p x = Ok o' ->
  o' = {| o_cls := o_cls o; o_items := o_items o' |}.
Proof. intros o p x o' H. rewrite <- (set_by_path_cls _ _ _ _ H). symmetry. apply sobj_eta. Qed.

Lemma apply_edits_view : forall o es,
  apply_edits o es = {| o_cls := o_cls o; o_items := o_items (apply_edits o es) |}.
Proof. intros o es. rewrite <- (apply_edits_cls es o). symmetry. apply sobj_eta. Qed.

(* the state of [wb_clean_from] mirrors the model's taint flag *)
Lemma mem_step_sim : forall ct m s o t,
  Rmem m s -> m_taint m = t -> wb_clean_from t [o] = true ->
  snd (mem_step true ct m o) = snd (spec_step ct s o) /\
  Rmem (fst (mem_step true ct m o)) (fst (spec_step ct s o)) /\
  forall r, wb_clean_from t (o :: r) = wb_clean_from (m_taint (fst (mem_step true ct m o))) r.
Proof.
  intros ct m s o t HR HT HC. destruct HR as [Hc Hs Hin Hsn].
  assert (forall inc, snd (mem_set_state_fresh m inc) = snd (spec_set_state s inc (sp_snap s)) /\
                      Rmem (fst (mem_set_state_fresh m inc)) (fst (spec_set_state s inc (sp_snap s))) /\
                      m_taint (fst (mem_set_state_fresh m inc)) = m_taint m) as FRESH.
  { intro inc. unfold mem_set_state_fresh, spec_set_state. rewrite Hc.
    destruct (merge_state (sp_state s) inc) as [o2|e]; cbn.
    - split; [reflexivity|]. split; [|reflexivity]. constructor; cbn.
      + unfold view. cbn. rewrite cell_alloc_new. apply sobj_eta.
      + rewrite <- Hs. destruct (m_snap m) as [sn|] eqn:E; cbn; [|reflexivity].
        rewrite view_alloc_old; [reflexivity|]. apply (Hsn sn eq_refl).
      + rewrite app_length. cbn. lia.
      + intros sn E. destruct (Hsn sn E) as [A B]. rewrite app_length. cbn. split; lia.
    - split; [reflexivity|]. split; [|reflexivity]. constructor; auto. }
  destruct o; cbn [mem_step spec_step].
  - (* OGet *) rewrite Hc. cbn. split; [reflexivity|]. split; [constructor; auto|]. intros r. subst t. reflexivity.
  - (* OSet *) rewrite Hc.
    destruct (set_by_path (sp_state s) p v) as [st|e] eqn:E; cbn.
    + split; [reflexivity|]. split.
      * constructor; cbn.
        -- unfold view. rewrite cell_store_same by exact Hin.
           rewrite (set_by_path_view _ _ _ _ E). cbn. rewrite <- Hc. reflexivity.
        -- rewrite <- Hs. destruct (m_snap m) as [sn|] eqn:ES; cbn; [|reflexivity].
           unfold view. rewrite cell_store_other; [reflexivity|]. destruct (Hsn sn eq_refl). congruence.
        -- unfold store_cell. rewrite length_set_nth. exact Hin.
        -- intros sn ES. unfold store_cell. rewrite length_set_nth. apply Hsn. exact ES.
      * intros r. subst t. reflexivity.
    + split; [reflexivity|]. split; [constructor; auto|]. intros r. subst t. reflexivity.
  - (* OSetState *) destruct (FRESH inc) as [A [B C]]. split; [exact A|]. split; [exact B|].
    intros r. rewrite C. subst t. reflexivity.
  - (* OClear *)
    destruct (FRESH (default_state ct (mo_cls (m_cur m)))) as [A [B C]].
    assert (mo_cls (m_cur m) = o_cls (sp_state s)) as EC by (rewrite <- Hc; reflexivity).
    rewrite EC in A, B, C. unfold spec_set_state in A, B.
    rewrite (merge_same_class_replaces (sp_state s) (default_state ct (o_cls (sp_state s))) eq_refl) in A, B.
    cbn in A, B. rewrite EC. split; [exact A|]. split; [exact B|]. intros r. rewrite C. subst t. reflexivity.
  - (* OEdit *) cbn. split; [reflexivity|]. split.
    + constructor; cbn.
      * unfold view at 1. rewrite cell_store_same by exact Hin. rewrite Hc.
        rewrite (apply_edits_view (sp_state s) es) at 2. rewrite <- Hc. reflexivity.
      * rewrite <- Hs. destruct (m_snap m) as [sn|] eqn:ES; cbn; [|reflexivity].
        unfold view. rewrite cell_store_other; [reflexivity|]. destruct (Hsn sn eq_refl). congruence.
      * unfold store_cell. rewrite length_set_nth. exact Hin.
      * intros sn ES. unfold store_cell. rewrite length_set_nth. apply Hsn. exact ES.
    + intros r. subst t. reflexivity.
  - (* OGetState *) unfold model_copy. rewrite andb_false_r. cbn.
    assert (view (m_heap m ++ [cell (m_heap m) (mo_ref (m_cur m))])
                 {| mo_cls := mo_cls (m_cur m); mo_ref := length (m_heap m) |} = sp_state s) as EV.
    { unfold view. cbn. rewrite cell_alloc_new. rewrite <- Hc. reflexivity. }
    split; [rewrite EV; reflexivity|]. split.
    + constructor; cbn.
      * rewrite view_alloc_old by exact Hin. exact Hc.
      * rewrite EV. reflexivity.
      * rewrite app_length. cbn. lia.
      * intros sn E. inversion E; subst; cbn. rewrite app_length. cbn. split; lia.
    + intros r. reflexivity.
  - (* OSnapEdit *) destruct (m_snap m) as [sn|] eqn:ES; cbn in Hs; rewrite <- Hs; cbn.
    + destruct (Hsn sn eq_refl) as [A B]. split; [reflexivity|]. split.
      * constructor; cbn.
        -- unfold view. rewrite cell_store_other by exact B. exact Hc.
        -- rewrite ?ES. cbn. unfold view at 1. rewrite cell_store_same by exact A.
           f_equal. rewrite (apply_edits_view (view (m_heap m) sn) es) at 2. reflexivity.
        -- unfold store_cell. rewrite length_set_nth. exact Hin.
        -- intros sn' E'. rewrite ?ES in E'. inversion E'; subst. unfold store_cell. rewrite length_set_nth. auto.
      * intros r. subst t. reflexivity.
    + split; [reflexivity|]. split; [constructor; auto; rewrite ?ES; auto|]. intros r. subst t. reflexivity.
  - (* OSnapWrite *) destruct (m_snap m) as [sn|] eqn:ES; cbn in Hs; rewrite <- Hs; cbn.
    + destruct (Hsn sn eq_refl) as [A B].
      cbn in HC. rewrite <- HT in HC. destruct (m_taint m) eqn:ET; [discriminate|].
      unfold spec_set_state. rewrite <- Hc.
      assert (mo_cls sn = o_cls (view (m_heap m) sn)) as C1 by reflexivity.
      assert (mo_cls (m_cur m) = o_cls (view (m_heap m) (m_cur m))) as C2 by reflexivity.
      destruct (subclass (mo_cls sn) (mo_cls (m_cur m))) eqn:SC.
      * unfold merge_state. rewrite <- C1, <- C2, SC. cbn. split; [reflexivity|]. split.
        -- constructor; cbn; auto. discriminate.
        -- intros r. subst t. reflexivity.
      * destruct (merge_state (view (m_heap m) (m_cur m)) (view (m_heap m) sn)) as [o2|e] eqn:M; cbn.
        -- split; [reflexivity|]. split.
           ++ constructor; cbn.
              ** unfold view. cbn. rewrite cell_alloc_new. apply sobj_eta.
              ** reflexivity.
              ** rewrite app_length. cbn. lia.
              ** discriminate.
           ++ intros r. subst t. reflexivity.
        -- split; [reflexivity|]. split.
           ++ constructor; cbn; auto. discriminate.
           ++ intros r. subst t. reflexivity.
    + split; [reflexivity|]. split; [constructor; auto; rewrite ?ES; auto|].
      intros r. subst t. cbn. cbn in HC. destruct (m_taint m); [discriminate|]. reflexivity.
Qed.

Lemma wb_clean_from_head : forall t o r, wb_clean_from t (o :: r) = true -> wb_clean_from t [o] = true.
Proof.
  intros t o r H. destruct o; cbn in *; try reflexivity.
  apply andb_true_iff in H. destruct H as [H _]. rewrite H. reflexivity.
Qed.

Lemma mem_refines_from : forall ct ops m s,
  Rmem m s -> wb_clean_from (m_taint m) ops = true ->
  run (mem_step true ct) m ops = run (spec_step ct) s ops.
Proof.
  intros ct ops. induction ops as [|o ops IH]; intros m s HR HC; cbn; [reflexivity|].
  destruct (mem_step_sim ct m s o (m_taint m) HR eq_refl (wb_clean_from_head _ _ _ HC)) as [A [B C]].
  rewrite C in HC.
  destruct (mem_step true ct m o) as [m' x1]. destruct (spec_step ct s o) as [s' x2]. cbn in *. subst.
  f_equal. apply IH; assumption.
Qed.

Lemma Rmem_init : forall ct ty, Rmem (mem_init ct ty) (spec_init ct ty).
Proof. intros ct ty. constructor; cbn; auto. discriminate. Qed.

Theorem mem_refines_spec : forall ct ty ops, wb_clean ops = true ->
  run (mem_step true ct) (mem_init ct ty) ops = run (spec_step ct) (spec_init ct ty) ops.
Proof. intros ct ty ops H. apply mem_refines_from; [apply Rmem_init|exact H]. Qed.

Theorem stores_agree : forall ct ty ops, wb_clean ops = true ->
  run (mem_step true ct) (mem_init ct ty) ops = run (sql_step ct ty) sql_init ops.
Proof. intros ct ty ops H. rewrite mem_refines_spec by exact H. symmetry. apply sql_refines_spec. Qed.

(* ---------- snapshot isolation ---------- *)
(* Two specification states that hold the same stored state and either both or neither hold a snapshot
   answer every operation other than a write-back identically: what is *in* the snapshot is
   invisible to the store. *)
Definition same_store (a b : spec) : Prop :=
  sp_state a = sp_state b /\ (sp_snap a = None <-> sp_snap b = None).

Fixpoint no_writeback (ops : list op) : bool :=
  match ops with
  | [] => true
  | OSnapWrite :: _ => false
  | _ :: r => no_writeback r
  end.

Lemma spec_step_same_store : forall ct a b o, same_store a b -> no_writeback [o] = true ->
  snd (spec_step ct a o) = snd (spec_step ct b o) /\ same_store (fst (spec_step ct a o)) (fst (spec_step ct b o)).
Proof.
  intros ct a b o [E1 E2] NW. unfold same_store.
  destruct o; cbn in *; try discriminate; rewrite <- ?E1.
  - repeat split; cbn; auto; tauto.
  - destruct (set_by_path (sp_state a) p v); repeat split; cbn; auto; tauto.
  - unfold spec_set_state. rewrite <- E1.
    destruct (merge_state (sp_state a) inc); repeat split; cbn; auto; tauto.
  - repeat split; cbn; auto; tauto.
  - repeat split; cbn; auto; tauto.
  - repeat split; cbn; auto; discriminate.
  - destruct (sp_snap a) eqn:A; destruct (sp_snap b) eqn:B; cbn.
    + repeat split; cbn; auto; discriminate.
    + exfalso. destruct E2 as [_ E2]. specialize (E2 eq_refl). discriminate.
    + exfalso. destruct E2 as [E2 _]. specialize (E2 eq_refl). discriminate.
    + rewrite A, B. repeat split; cbn; auto.
Qed.

Lemma no_writeback_head : forall o r, no_writeback (o :: r) = true -> no_writeback [o] = true /\ no_writeback r = true.
Proof. intros o r H. destruct o; cbn in *; auto; discriminate. Qed.

Lemma spec_same_store_run : forall ct ops a b, same_store a b -> no_writeback ops = true ->
  run (spec_step ct) a ops = run (spec_step ct) b ops.
Proof.
  intros ct ops. induction ops as [|o ops IH]; intros a b SS NW; cbn; [reflexivity|].
  destruct (no_writeback_head _ _ NW) as [N1 N2].
  destruct (spec_step_same_store ct a b o SS N1) as [E SS'].
  destruct (spec_step ct a o) as [a' x]. destruct (spec_step ct b o) as [b' y]. cbn in *. subst.
  f_equal. apply IH; assumption.
Qed.

Lemma spec_snapedit_same_store : forall ct s es, same_store (fst (spec_step ct s (OSnapEdit es))) s.
Proof.
  intros ct s es. cbn. destruct (sp_snap s) eqn:E; cbn; split; auto; cbn; try tauto.
  rewrite E. split; discriminate.
Qed.

(* specification level: dropping a snapshot edit changes no later answer, as long as the snapshot is not
   written back *)
Theorem spec_snapshot_isolated : forall ct s es post, no_writeback post = true ->
  run (spec_step ct) (fst (spec_step ct s (OSnapEdit es))) post = run (spec_step ct) s post.
Proof. intros. apply spec_same_store_run; [apply spec_snapedit_same_store|assumption]. Qed.

Lemma wb_clean_from_app : forall a t b, wb_clean_from t (a ++ b) = true -> wb_clean_from t a = true.
Proof.
  induction a as [|o a IH]; intros t b H; [reflexivity|].
  destruct o; cbn in *; eauto.
  apply andb_true_iff in H. destruct H as [H1 H2]. rewrite H1. cbn. eauto.
Qed.

Lemma wb_clean_drop_snapedit : forall pre t es post,
  wb_clean_from t (pre ++ OSnapEdit es :: post) = wb_clean_from t (pre ++ post).
Proof.
  induction pre as [|o pre IH]; intros t es post; [reflexivity|].
  destruct o; cbn; rewrite ?IH; reflexivity.
Qed.

(* store level: the answers after an edited snapshot equal the answers of the run in which the
   snapshot was never edited — for the SQLite model unconditionally, for the memory model when copies
   copy _data and no tainted snapshot is written back *)
Theorem snapshot_isolated_spec_run : forall ct ty pre es post, no_writeback post = true ->
  skipn (S (length pre)) (run (spec_step ct) (spec_init ct ty) (pre ++ OSnapEdit es :: post)) =
  skipn (length pre) (run (spec_step ct) (spec_init ct ty) (pre ++ post)).
Proof.
  intros ct ty pre es post NW.
  rewrite !run_app.
  assert (forall A (l1 l2 : list A) n, length l1 = n -> skipn n (l1 ++ l2) = l2) as SK.
  { intros A l1 l2 n <-. induction l1; cbn; auto. }
  rewrite (SK _ _ _ (length pre)) by apply run_length.
  set (s := exec (spec_step ct) (spec_init ct ty) pre).
  cbn [run]. destruct (spec_step ct s (OSnapEdit es)) as [s' x] eqn:E.
  replace (S (length pre)) with (length (run (spec_step ct) (spec_init ct ty) pre ++ [x])).
  2:{ rewrite app_length, run_length. cbn. lia. }
  change (x :: run (spec_step ct) s' post) with ([x] ++ run (spec_step ct) s' post).
  rewrite app_assoc. rewrite (SK _ _ _ _ eq_refl).
  replace s' with (fst (spec_step ct s (OSnapEdit es))) by (rewrite E; reflexivity).
  apply spec_snapshot_isolated. exact NW.
Qed.

Theorem snapshot_isolated_sql : forall ct ty pre es post, no_writeback post = true ->
  skipn (S (length pre)) (run (sql_step ct ty) sql_init (pre ++ OSnapEdit es :: post)) =
  skipn (length pre) (run (sql_step ct ty) sql_init (pre ++ post)).
Proof. intros. rewrite !sql_refines_spec. apply snapshot_isolated_spec_run. assumption. Qed.

Theorem snapshot_isolated_mem : forall ct ty pre es post,
  no_writeback post = true -> wb_clean (pre ++ post) = true ->
  skipn (S (length pre)) (run (mem_step true ct) (mem_init ct ty) (pre ++ OSnapEdit es :: post)) =
  skipn (length pre) (run (mem_step true ct) (mem_init ct ty) (pre ++ post)).
Proof.
  intros ct ty pre es post NW WC.
  rewrite !mem_refines_spec; [apply snapshot_isolated_spec_run; assumption|exact WC|].
  unfold wb_clean. rewrite wb_clean_drop_snapedit. exact WC.
Qed.

(* without the copy of _data the memory model does not refine the specification: a snapshot edit
   shows through (this is what the code did before the repair) *)
Theorem mem_shared_data_refuted :
  exists ops, wb_clean ops = true /\
    run (mem_step false []) (mem_init [] dict_cls) ops <> run (spec_step []) (spec_init [] dict_cls) ops.
Proof.
  exists [OGetState; OSnapEdit [EPut [97] (VInt 1)]; OGet [97] None].
  split; [reflexivity|]. vm_compute. intro H. discriminate H.
Qed.

(* typed models never share: their fields live in __dict__, which pydantic copies *)
Lemma model_copy_typed_allocates : forall cd h o, is_dictlike (mo_cls o) = false ->
  model_copy cd h o = (h ++ [cell h (mo_ref o)], {| mo_cls := mo_cls o; mo_ref := length h |}).
Proof. intros cd h o H. unfold model_copy. rewrite H. reflexivity. Qed.
