(* Proofs/ResourceProofs.v — C22: invariants of Model/Resource.v. *)
From Coq Require Import List ZArith Bool Lia.
Import ListNotations.
From WF Require Import Base.SchedRes Model.Resource.
Open Scope Z_scope.

(* ---------------------------------------------------------------------------------------- *)
(* lists                                                                                     *)

Lemma mem_true_iff : forall x l, mem x l = true <-> In x l.
Proof.
  intros x l. unfold mem. rewrite existsb_exists. split.
  - intros (y & Hin & E). apply Z.eqb_eq in E. subst. exact Hin.
  - intros H. exists x. split; [exact H|apply Z.eqb_refl].
Qed.

Lemma mem_false_iff : forall x l, mem x l = false <-> ~ In x l.
Proof.
  intros x l. rewrite <- mem_true_iff. destruct (mem x l); split; intros H; try reflexivity; try discriminate.
  exfalso. apply H. reflexivity.
Qed.

Lemma remove_first_other : forall x y l, y <> x -> In y l -> In y (remove_first x l).
Proof.
  induction l as [|a t IH]; cbn; [tauto|]. intros Hne [->|H].
  - destruct (y =? x) eqn:E; [apply Z.eqb_eq in E; contradiction|left; reflexivity].
  - destruct (a =? x); [exact H|right; apply IH; assumption].
Qed.

Lemma remove_first_incl : forall x y l, In y (remove_first x l) -> In y l.
Proof.
  induction l as [|a t IH]; cbn; [tauto|]. destruct (a =? x); [tauto|].
  intros [H|H]; [left; exact H|right; apply IH; exact H].
Qed.

Lemma remove_first_nodup : forall x l, NoDup l -> NoDup (remove_first x l) /\ ~ In x (remove_first x l).
Proof.
  induction l as [|a t IH]; cbn; intros H; [split; [constructor|tauto]|].
  inversion H as [|? ? Hni Hnd]; subst. destruct (a =? x) eqn:E.
  - apply Z.eqb_eq in E. subst a. split; assumption.
  - apply Z.eqb_neq in E. destruct (IH Hnd) as (A & B). split.
    + constructor; [|exact A]. intros Hin. apply Hni. eapply remove_first_incl. exact Hin.
    + intros [Hin|Hin]; [contradiction|]. apply B. exact Hin.
Qed.

Lemma unwind_keeps : forall st rs y, (forall f, In f st -> f_name f <> y) -> In y rs -> In y (unwind st rs).
Proof.
  induction st as [|f t IH]; cbn; intros rs y Hne Hin; [exact Hin|].
  apply IH; [intros f' Hf'; apply Hne; right; exact Hf'|].
  apply remove_first_other; [|exact Hin]. intros E. apply (Hne f (or_introl eq_refl)). symmetry. exact E.
Qed.

Lemma unwind_incl : forall st rs y, In y (unwind st rs) -> In y rs.
Proof.
  induction st as [|f t IH]; cbn; intros rs y H; [exact H|].
  eapply remove_first_incl. apply IH. exact H.
Qed.

(* objects a factory of name x has returned so far *)
Definition objs_of (x : Z) (cr : list (Z * (Z * (Z * list Z)))) : list Z :=
  map (fun e => fst (snd e)) (filter (fun e => fst e =? x) cr).

Lemma objs_of_app : forall x a b, objs_of x (a ++ b) = objs_of x a ++ objs_of x b.
Proof. intros. unfold objs_of. rewrite filter_app, map_app. reflexivity. Qed.

Lemma objs_of_one_same : forall x o r, objs_of x [(x, (o, r))] = [o].
Proof. intros. unfold objs_of. cbn. rewrite Z.eqb_refl. reflexivity. Qed.

Lemma objs_of_one_other : forall x y o r, y <> x -> objs_of x [(y, (o, r))] = [].
Proof. intros x y o r H. unfold objs_of. cbn. apply Z.eqb_neq in H. rewrite H. reflexivity. Qed.

(* ---------------------------------------------------------------------------------------- *)
(* invariant 1 (every schedule): cached resources                                             *)

Section Cached.
  Variable g : graph.

  Definition cached (x : Z) : bool := n_cache (node_of g x).

  Definition task_at (s : st) (tid : Z) (t : task) : Prop := alookup tid (s_tasks s) = Some t.

  Record Inv (s : st) : Prop := mkInv {
    (* a `_get` frame's name is in _resolving ... *)
    i_res : forall tid t f, task_at s tid t -> In f (t_stack t) -> In (f_name f) (m_resolving (s_mgr s));
    (* ... frames of one task have distinct names, frames with one name belong to one task *)
    i_nodup : forall tid t, task_at s tid t -> NoDup (map f_name (t_stack t));
    i_owner : forall tid1 tid2 t1 t2 f1 f2, task_at s tid1 t1 -> task_at s tid2 t2 ->
               In f1 (t_stack t1) -> In f2 (t_stack t2) -> f_name f1 = f_name f2 -> tid1 = tid2;
    (* a cached resource that is being resolved is not in `resources` yet *)
    i_fresh : forall tid t f, task_at s tid t -> In f (t_stack t) -> cached (f_name f) = true ->
               alookup (f_name f) (m_resources (s_mgr s)) = None;
    (* `resources` holds exactly the object of the only factory return *)
    i_once : forall x, cached x = true ->
               match alookup x (m_resources (s_mgr s)) with
               | None => objs_of x (m_created (s_mgr s)) = []
               | Some o => objs_of x (m_created (s_mgr s)) = [o]
               end;
    i_rcache : forall x o, cached x = true -> alookup x (m_rcache (s_mgr s)) = Some o ->
               alookup x (m_resources (s_mgr s)) = Some o;
    i_got : forall tid t x v, task_at s tid t -> In (x, v) (t_got t) -> cached x = true ->
               alookup x (m_resources (s_mgr s)) = Some v
  }.

  Lemma Inv_init : Inv init.
  Proof.
    constructor; cbn; unfold task_at; cbn; try discriminate; try reflexivity.
  Qed.

  (* state after the acting task tid moved from t to t' and the manager from (s_mgr s) to m' *)
  Definition upd (s : st) (tid : Z) (m' : mgr) (t' : task) : st := mkSt m' (aupd tid t' (s_tasks s)).

  Lemma task_at_upd : forall s tid m' t' t0 tid1 t1, task_at s tid t0 ->
    task_at (upd s tid m' t') tid1 t1 -> (tid1 = tid /\ t1 = t') \/ (tid1 <> tid /\ task_at s tid1 t1).
  Proof.
    intros s tid m' t' t0 tid1 t1 H0 H. unfold task_at, upd in *. cbn [s_tasks] in H.
    destruct (Z.eq_dec tid1 tid) as [->|Hne].
    - rewrite alookup_aupd_same, H0 in H. inversion H. left. auto.
    - rewrite alookup_aupd_other in H by exact Hne. right. auto.
  Qed.

  (* generic preservation: the acting task's new stack is a sub-stack of the old one plus possibly one
     new frame whose name is not in _resolving; resolving/resources/rcache/created change accordingly *)
  Lemma Inv_same_frames : forall s tid t t' m',
    Inv s -> task_at s tid t ->
    map f_name (t_stack t') = map f_name (t_stack t) ->
    m_resolving m' = m_resolving (s_mgr s) -> m_resources m' = m_resources (s_mgr s) ->
    m_created m' = m_created (s_mgr s) ->
    (forall x o, cached x = true -> alookup x (m_rcache m') = Some o -> alookup x (m_rcache (s_mgr s)) = Some o) ->
    (forall x v, In (x, v) (t_got t') -> In (x, v) (t_got t) \/
                 (cached x = true -> alookup x (m_resources (s_mgr s)) = Some v)) ->
    Inv (upd s tid m' t').
  Proof.
    intros s tid t t' m' [A B C D E F G] H0 Hst Hrs Hres Hcr Hrc Hgot.
    assert (Hname : forall f', In f' (t_stack t') -> exists f, In f (t_stack t) /\ f_name f = f_name f').
    { intros f' Hf'. assert (Hin : In (f_name f') (map f_name (t_stack t'))) by (apply in_map; exact Hf').
      rewrite Hst in Hin. apply in_map_iff in Hin. destruct Hin as (f & E1 & E2). exists f. auto. }
    constructor; cbn [upd s_mgr]; rewrite ?Hrs, ?Hres, ?Hcr.
    - intros tid1 t1 f H1 Hf. destruct (task_at_upd _ _ _ _ _ _ _ H0 H1) as [(-> & ->)|(Hne & H1')].
      + destruct (Hname f Hf) as (f0 & Hf0 & <-). eapply A; eassumption.
      + eapply A; eassumption.
    - intros tid1 t1 H1. destruct (task_at_upd _ _ _ _ _ _ _ H0 H1) as [(-> & ->)|(Hne & H1')].
      + rewrite Hst. eapply B. exact H0.
      + eapply B. exact H1'.
    - intros tid1 tid2 t1 t2 f1 f2 H1 H2 Hf1 Hf2 Hn.
      destruct (task_at_upd _ _ _ _ _ _ _ H0 H1) as [(-> & ->)|(Hne1 & H1')];
      destruct (task_at_upd _ _ _ _ _ _ _ H0 H2) as [(-> & ->)|(Hne2 & H2')]; try reflexivity.
      + destruct (Hname f1 Hf1) as (f0 & Hf0 & E0). eapply (C tid tid2 t t2 f0 f2); try eassumption. congruence.
      + destruct (Hname f2 Hf2) as (f0 & Hf0 & E0). eapply (C tid1 tid t1 t f1 f0); try eassumption. congruence.
      + eapply C; eassumption.
    - intros tid1 t1 f H1 Hf Hc. destruct (task_at_upd _ _ _ _ _ _ _ H0 H1) as [(-> & ->)|(Hne & H1')].
      + destruct (Hname f Hf) as (f0 & Hf0 & E0). rewrite <- E0 in *. eapply D; eassumption.
      + eapply D; eassumption.
    - exact E.
    - intros x o Hc Hx. apply F; [exact Hc|]. apply Hrc; assumption.
    - intros tid1 t1 x v H1 Hin Hc. destruct (task_at_upd _ _ _ _ _ _ _ H0 H1) as [(-> & ->)|(Hne & H1')].
      + destruct (Hgot x v Hin) as [Hold|Hnew]; [eapply G; eassumption|apply Hnew; exact Hc].
      + eapply G; eassumption.
  Qed.

  Lemma aupd_aupd : forall (k : Z) (v1 v2 : task) l, aupd k v2 (aupd k v1 l) = aupd k v2 l.
  Proof.
    induction l as [|[k' v'] t IH]; cbn; [reflexivity|].
    destruct (k' =? k) eqn:E; cbn; rewrite E, IH; reflexivity.
  Qed.

  Lemma upd_upd : forall s tid m1 t1 m2 t2, upd (upd s tid m1 t1) tid m2 t2 = upd s tid m2 t2.
  Proof. intros. unfold upd. cbn [s_tasks]. rewrite aupd_aupd. reflexivity. Qed.

  Lemma task_at_upd_same : forall s tid m' t' t0, task_at s tid t0 -> task_at (upd s tid m' t') tid t'.
  Proof. intros s tid m' t' t0 H. unfold task_at, upd in *. cbn [s_tasks]. rewrite alookup_aupd_same, H. reflexivity. Qed.

  Lemma task_at_upd_other : forall s tid m' t' tid1 t1, tid1 <> tid -> task_at s tid1 t1 ->
    task_at (upd s tid m' t') tid1 t1.
  Proof.
    intros s tid m' t' tid1 t1 Hne H. unfold task_at, upd in *. cbn [s_tasks].
    rewrite alookup_aupd_other by exact Hne. exact H.
  Qed.

  Lemma Inv_refl : forall s tid t, Inv s -> task_at s tid t -> Inv (upd s tid (s_mgr s) t).
  Proof. intros s tid t Hi H0. apply Inv_same_frames with (t := t); auto. Qed.

  Lemma Inv_deliver : forall s tid t x v, Inv s -> task_at s tid t ->
    (cached x = true -> alookup x (m_resources (s_mgr s)) = Some v) ->
    Inv (upd s tid (s_mgr s) (deliver x v t)).
  Proof.
    intros s tid t x v Hi H0 Hv. apply Inv_same_frames with (t := t); auto.
    - unfold deliver. destruct (t_stack t) as [|f rest]; reflexivity.
    - intros y w Hin. unfold deliver in Hin. destruct (t_stack t) as [|f rest]; cbn [t_got] in Hin.
      + destruct Hin as [Hin|Hin]; [inversion Hin; subst; right; exact Hv|left; exact Hin].
      + left. exact Hin.
  Qed.

  Lemma scope_exit_rcache : forall m x o, alookup x (m_rcache (scope_exit m)) = Some o -> alookup x (m_rcache m) = Some o.
  Proof.
    intros m x o. unfold scope_exit. cbn [m_rcache]. destruct (m_depth m - 1 =? 0); [discriminate|auto].
  Qed.

  Lemma Inv_fail : forall s tid t k x, Inv s -> task_at s tid t ->
    Inv (upd s tid (fst (fail_task k x (s_mgr s) t)) (snd (fail_task k x (s_mgr s) t))).
  Proof.
    intros s tid t k x [A B C D E F G] H0. unfold fail_task. cbn [fst snd].
    constructor; cbn [upd s_mgr scope_exit m_resolving m_resources m_created m_rcache].
    - intros tid1 t1 f H1 Hf. destruct (task_at_upd _ _ _ _ _ _ _ H0 H1) as [(-> & ->)|(Hne & H1')]; [destruct Hf|].
      apply unwind_keeps; [|eapply A; eassumption].
      intros f0 Hf0 En. apply Hne. symmetry. eapply (C tid tid1 t t1 f0 f); eassumption.
    - intros tid1 t1 H1. destruct (task_at_upd _ _ _ _ _ _ _ H0 H1) as [(-> & ->)|(Hne & H1')]; [constructor|].
      eapply B. exact H1'.
    - intros tid1 tid2 t1 t2 f1 f2 H1 H2 Hf1 Hf2 Hn.
      destruct (task_at_upd _ _ _ _ _ _ _ H0 H1) as [(-> & ->)|(Hne1 & H1')]; [destruct Hf1|].
      destruct (task_at_upd _ _ _ _ _ _ _ H0 H2) as [(-> & ->)|(Hne2 & H2')]; [destruct Hf2|].
      eapply C; eassumption.
    - intros tid1 t1 f H1 Hf Hc. destruct (task_at_upd _ _ _ _ _ _ _ H0 H1) as [(-> & ->)|(Hne & H1')]; [destruct Hf|].
      eapply D; eassumption.
    - exact E.
    - intros y o Hc Hy. apply F; [exact Hc|]. cbn [m_depth] in Hy.
      destruct (m_depth (s_mgr s) - 1 =? 0); [discriminate|exact Hy].
    - intros tid1 t1 y v H1 Hin Hc. destruct (task_at_upd _ _ _ _ _ _ _ H0 H1) as [(-> & ->)|(Hne & H1')].
      + eapply G; eassumption.
      + eapply G; eassumption.
  Qed.

  Lemma Inv_push : forall s tid t x todo su, Inv s -> task_at s tid t ->
    ~ In x (m_resolving (s_mgr s)) ->
    (cached x = true -> alookup x (m_resources (s_mgr s)) = None) ->
    Inv (upd s tid
           (mkMgr (m_resources (s_mgr s)) (m_resolving (s_mgr s) ++ [x]) (m_rcache (s_mgr s)) (m_depth (s_mgr s))
                  (m_next (s_mgr s)) (m_created (s_mgr s)))
           (mkTask (t_params t) (mkFrame x todo [] su :: t_stack t) (t_got t) (t_status t))).
  Proof.
    intros s tid t x todo su [A B C D E F G] H0 Hnr Hfr.
    assert (Hnof : forall tid1 t1 f, task_at s tid1 t1 -> In f (t_stack t1) -> f_name f <> x).
    { intros tid1 t1 f H1 Hf En. apply Hnr. rewrite <- En. eapply A; eassumption. }
    constructor; cbn [upd s_mgr m_resolving m_resources m_created m_rcache].
    - intros tid1 t1 f H1 Hf. apply in_or_app.
      destruct (task_at_upd _ _ _ _ _ _ _ H0 H1) as [(-> & ->)|(Hne & H1')].
      + cbn [t_stack] in Hf. destruct Hf as [<-|Hf]; [right; left; reflexivity|left; eapply A; eassumption].
      + left. eapply A; eassumption.
    - intros tid1 t1 H1. destruct (task_at_upd _ _ _ _ _ _ _ H0 H1) as [(-> & ->)|(Hne & H1')]; [|eapply B; exact H1'].
      cbn [t_stack map f_name]. constructor; [|eapply B; exact H0].
      intros Hin. apply in_map_iff in Hin. destruct Hin as (f & En & Hf). exact (Hnof tid t f H0 Hf En).
    - intros tid1 tid2 t1 t2 f1 f2 H1 H2 Hf1 Hf2 Hn.
      destruct (task_at_upd _ _ _ _ _ _ _ H0 H1) as [(-> & ->)|(Hne1 & H1')];
      destruct (task_at_upd _ _ _ _ _ _ _ H0 H2) as [(-> & ->)|(Hne2 & H2')]; try reflexivity.
      + cbn [t_stack] in Hf1. destruct Hf1 as [<-|Hf1].
        * exfalso. cbn [f_name] in Hn. exact (Hnof tid2 t2 f2 H2' Hf2 (eq_sym Hn)).
        * eapply (C tid tid2 t t2 f1 f2); eassumption.
      + cbn [t_stack] in Hf2. destruct Hf2 as [<-|Hf2].
        * exfalso. cbn [f_name] in Hn. exact (Hnof tid1 t1 f1 H1' Hf1 Hn).
        * eapply (C tid1 tid t1 t f1 f2); eassumption.
      + eapply C; eassumption.
    - intros tid1 t1 f H1 Hf Hc. destruct (task_at_upd _ _ _ _ _ _ _ H0 H1) as [(-> & ->)|(Hne & H1')].
      + cbn [t_stack] in Hf. destruct Hf as [<-|Hf]; [apply Hfr; exact Hc|eapply D; eassumption].
      + eapply D; eassumption.
    - exact E.
    - exact F.
    - intros tid1 t1 y v H1 Hin Hc. destruct (task_at_upd _ _ _ _ _ _ _ H0 H1) as [(-> & ->)|(Hne & H1')];
        eapply G; eassumption.
  Qed.

  Lemma Inv_finish : forall s tid tk t f rest, Inv s -> task_at s tid t -> t_stack t = f :: rest ->
    let x := f_name f in
    let o := m_next (s_mgr s) in
    Inv (upd s tid
           (mkMgr (if cached x then aset x o (m_resources (s_mgr s)) else m_resources (s_mgr s))
                  (remove_first x (m_resolving (s_mgr s)))
                  (aset x o (m_rcache (s_mgr s))) (m_depth (s_mgr s)) (o + 1)
                  (m_created (s_mgr s) ++ [(x, (o, (tk, f_args f)))]))
           (mkTask (t_params t) rest (t_got t) (t_status t))).
  Proof.
    intros s tid tk t f rest [A B C D E F G] H0 Hst x o.
    assert (Hf : In f (t_stack t)) by (rewrite Hst; left; reflexivity).
    assert (Hrest : forall f', In f' rest -> f_name f' <> x).
    { intros f' Hf' En. pose proof (B tid t H0) as Hnd. rewrite Hst in Hnd. cbn in Hnd.
      inversion Hnd as [|? ? Hni _]; subst. apply Hni. fold x. rewrite <- En. apply in_map. exact Hf'. }
    assert (Hoth : forall tid1 t1 f', tid1 <> tid -> task_at s tid1 t1 -> In f' (t_stack t1) -> f_name f' <> x).
    { intros tid1 t1 f' Hne H1 Hf' En. apply Hne. eapply (C tid1 tid t1 t f' f); eassumption. }
    assert (Hres' : forall y, y <> x ->
              alookup y (if cached x then aset x o (m_resources (s_mgr s)) else m_resources (s_mgr s))
              = alookup y (m_resources (s_mgr s))).
    { intros y Hne. destruct (cached x); [apply alookup_aset_other; exact Hne|reflexivity]. }
    constructor; cbn [upd s_mgr m_resolving m_resources m_created m_rcache].
    - intros tid1 t1 f' H1 Hf'. destruct (task_at_upd _ _ _ _ _ _ _ H0 H1) as [(-> & ->)|(Hne & H1')].
      + cbn [t_stack] in Hf'. apply remove_first_other; [apply Hrest; exact Hf'|].
        eapply A; [exact H0|]. rewrite Hst. right. exact Hf'.
      + apply remove_first_other; [eapply Hoth; eassumption|]. eapply A; eassumption.
    - intros tid1 t1 H1. destruct (task_at_upd _ _ _ _ _ _ _ H0 H1) as [(-> & ->)|(Hne & H1')]; [|eapply B; exact H1'].
      cbn [t_stack]. pose proof (B tid t H0) as Hnd. rewrite Hst in Hnd. cbn in Hnd. inversion Hnd; assumption.
    - intros tid1 tid2 t1 t2 f1 f2 H1 H2 Hf1 Hf2 Hn.
      destruct (task_at_upd _ _ _ _ _ _ _ H0 H1) as [(-> & ->)|(Hne1 & H1')];
      destruct (task_at_upd _ _ _ _ _ _ _ H0 H2) as [(-> & ->)|(Hne2 & H2')]; try reflexivity.
      + eapply (C tid tid2 t t2 f1 f2); try eassumption. rewrite Hst. right. exact Hf1.
      + eapply (C tid1 tid t1 t f1 f2); try eassumption. rewrite Hst. right. exact Hf2.
      + eapply C; eassumption.
    - intros tid1 t1 f' H1 Hf' Hc. destruct (task_at_upd _ _ _ _ _ _ _ H0 H1) as [(-> & ->)|(Hne & H1')].
      + cbn [t_stack] in Hf'. rewrite Hres' by (apply Hrest; exact Hf').
        eapply D; [exact H0| |exact Hc]. rewrite Hst. right. exact Hf'.
      + rewrite Hres' by (eapply Hoth; eassumption). eapply D; eassumption.
    - intros y Hc. destruct (Z.eq_dec y x) as [->|Hne].
      + rewrite Hc, alookup_aset_same, objs_of_app, objs_of_one_same.
        pose proof (E x Hc) as Ex. pose proof (D tid t f H0 Hf Hc) as Dx. fold x in Dx. rewrite Dx in Ex.
        rewrite Ex. reflexivity.
      + rewrite Hres' by exact Hne. rewrite objs_of_app, objs_of_one_other by (intros X; apply Hne; symmetry; exact X).
        rewrite app_nil_r. apply E. exact Hc.
    - intros y o' Hc Hy. destruct (Z.eq_dec y x) as [->|Hne].
      + rewrite alookup_aset_same in Hy. inversion Hy; subst o'. rewrite Hc. apply alookup_aset_same.
      + rewrite alookup_aset_other in Hy by exact Hne. rewrite Hres' by exact Hne. apply F; assumption.
    - intros tid1 t1 y v H1 Hin Hc.
      assert (Hold : alookup y (m_resources (s_mgr s)) = Some v).
      { destruct (task_at_upd _ _ _ _ _ _ _ H0 H1) as [(-> & ->)|(Hne & H1')]; eapply G; eassumption. }
      destruct (Z.eq_dec y x) as [->|Hne].
      + pose proof (D tid t f H0 Hf Hc) as Dx. fold x in Dx. rewrite Dx in Hold. discriminate.
      + rewrite Hres' by exact Hne. exact Hold.
  Qed.

  (* one sequential action of one task preserves the invariant *)
  Lemma micro_inv : forall s tid t m' t' y, Inv s -> task_at s tid t ->
    micro g tid (s_mgr s) t = (m', t', y) -> Inv (upd s tid m' t').
  Proof.
    intros s tid t m' t' y Hi H0 Hm. unfold micro in Hm.
    assert (Hcall : forall x mc tc, call g x (s_mgr s) t = (mc, tc) -> Inv (upd s tid mc tc)).
    { intros x mc tc Hc. unfold call in Hc. destruct (mem x (m_resolving (s_mgr s))) eqn:Em.
      - pose proof (Inv_fail s tid t 1 x Hi H0) as Hf. rewrite Hc in Hf. exact Hf.
      - apply mem_false_iff in Em. fold (cached x) in Hc.
        destruct (cached x) eqn:Ec.
        + destruct (alookup x (m_resources (s_mgr s))) as [v|] eqn:Er.
          * inversion Hc; subst. apply Inv_deliver; auto.
          * destruct (alookup x (m_rcache (s_mgr s))) as [v|] eqn:Erc.
            -- inversion Hc; subst. apply Inv_deliver; auto.
               intros _. destruct Hi as [A B C D E F G]. apply F; assumption.
            -- inversion Hc; subst. apply Inv_push; auto.
        + destruct (alookup x (m_rcache (s_mgr s))) as [v|] eqn:Erc.
          * inversion Hc; subst. apply Inv_deliver; auto. intros X; congruence.
          * inversion Hc; subst. apply Inv_push; auto. intros X; congruence. }
    destruct (t_status t) eqn:Est.
    - inversion Hm; subst. apply Inv_same_frames with (t := t); auto.
    - destruct (t_stack t) as [|f rest] eqn:Estk.
      + destruct (t_params t) as [|p ps] eqn:Ep.
        * inversion Hm; subst. apply Inv_same_frames with (t := t); auto.
          -- rewrite Estk. reflexivity.
          -- intros x o _. apply scope_exit_rcache.
        * destruct (call g p (s_mgr s) t) as [mc tc] eqn:Ec. inversion Hm; subst. eapply Hcall. exact Ec.
      + destruct (f_todo f) as [|d ds] eqn:Etd.
        * destruct (f_susp f) as [|k] eqn:Es.
          -- unfold finish_frame in Hm. fold (cached (f_name f)) in Hm.
             destruct (n_fails (node_of g (f_name f))).
             ++ pose proof (Inv_fail s tid t 2 (f_name f) Hi H0) as Hf.
                destruct (fail_task 2 (f_name f) (s_mgr s) t) as [mf tf]. inversion Hm; subst. exact Hf.
             ++ inversion Hm; subst.
                pose proof (Inv_finish s tid tid t f rest Hi H0 Estk) as H1. cbn zeta in H1.
                set (m1 := mkMgr _ _ _ _ _ _) in *. set (t1 := mkTask _ rest _ _) in *.
                rewrite <- (upd_upd s tid m1 t1 m1 (deliver (f_name f) (m_next (s_mgr s)) t1)).
                replace m1 with (s_mgr (upd s tid m1 t1)) at 2 by reflexivity.
                apply Inv_deliver; [exact H1|eapply task_at_upd_same; exact H0|].
                intros Hc. cbn [upd s_mgr]. subst m1. cbn [m_resources]. rewrite Hc. apply alookup_aset_same.
          -- inversion Hm; subst. apply Inv_same_frames with (t := t); auto. rewrite Estk. reflexivity.
        * destruct (call g d (s_mgr s) t) as [mc tc] eqn:Ec. inversion Hm; subst. eapply Hcall. exact Ec.
    - inversion Hm; subst. apply Inv_refl; assumption.
    - inversion Hm; subst. apply Inv_refl; assumption.
  Qed.

  Lemma advance_inv : forall fuel s tid t, Inv s -> task_at s tid t ->
    Inv (upd s tid (fst (advance fuel g tid (s_mgr s) t)) (snd (advance fuel g tid (s_mgr s) t))).
  Proof.
    induction fuel as [|k IH]; intros s tid t Hi H0; cbn [advance].
    - apply Inv_refl; assumption.
    - destruct (terminal t); [apply Inv_refl; assumption|].
      destruct (micro g tid (s_mgr s) t) as [[m' t'] y] eqn:Em.
      pose proof (micro_inv s tid t m' t' y Hi H0 Em) as H1.
      destruct y; [exact H1|].
      pose proof (IH (upd s tid m' t') tid t' H1 (task_at_upd_same _ _ _ _ _ H0)) as H2.
      cbn [upd s_mgr] in H2. rewrite upd_upd in H2. exact H2.
  Qed.

  Variable fuel : nat.

  Theorem step_inv : forall s a, Inv s -> Inv (step g fuel s a).
  Proof.
    intros s a Hi. destruct a as [tid params|tid]; cbn [step].
    - destruct (alookup tid (s_tasks s)) eqn:E; [exact Hi|].
      destruct Hi as [A B C D E' F G].
      assert (Hat : forall tid1 t1, task_at (mkSt (s_mgr s) (s_tasks s ++ [(tid, new_task params)])) tid1 t1 ->
                task_at s tid1 t1 \/ t1 = new_task params).
      { intros tid1 t1 H. unfold task_at in *. cbn [s_tasks] in H. rewrite alookup_app in H.
        destruct (alookup tid1 (s_tasks s)); [left; exact H|]. cbn in H.
        destruct (tid =? tid1); [inversion H; right; reflexivity|discriminate]. }
      constructor; cbn [s_mgr]; auto.
      + intros tid1 t1 f H1 Hf. destruct (Hat _ _ H1) as [H| ->]; [eapply A; eassumption|destruct Hf].
      + intros tid1 t1 H1. destruct (Hat _ _ H1) as [H| ->]; [eapply B; eassumption|constructor].
      + intros tid1 tid2 t1 t2 f1 f2 H1 H2 Hf1 Hf2 Hn.
        destruct (Hat _ _ H1) as [H1'| ->]; [|destruct Hf1]. destruct (Hat _ _ H2) as [H2'| ->]; [|destruct Hf2].
        eapply C; eassumption.
      + intros tid1 t1 f H1 Hf Hc. destruct (Hat _ _ H1) as [H| ->]; [eapply D; eassumption|destruct Hf].
      + intros tid1 t1 x v H1 Hin Hc. destruct (Hat _ _ H1) as [H| ->]; [eapply G; eassumption|destruct Hin].
    - destruct (alookup tid (s_tasks s)) as [t|] eqn:E; [|exact Hi].
      pose proof (advance_inv fuel s tid t Hi E) as H.
      destruct (advance fuel g tid (s_mgr s) t) as [m' t']. exact H.
  Qed.

  Theorem reachable_inv : forall sched, Inv (exec g fuel init sched).
  Proof. intros. unfold exec. apply inv_all_schedules; [apply step_inv|apply Inv_init]. Qed.

  (* a cached resource is created at most once per manager, under every schedule ... *)
  Theorem cached_created_once : forall sched x, cached x = true ->
    (length (objs_of x (m_created (s_mgr (exec g fuel init sched)))) <= 1)%nat.
  Proof.
    intros sched x Hc. pose proof (i_once _ (reachable_inv sched) x Hc) as H.
    destruct (alookup x (m_resources (s_mgr (exec g fuel init sched)))); rewrite H; cbn; lia.
  Qed.

  (* ... and every step invocation that is given it is given that one object *)
  Theorem cached_same_object : forall sched x tid1 t1 v1 tid2 t2 v2, cached x = true ->
    let s := exec g fuel init sched in
    task_at s tid1 t1 -> In (x, v1) (t_got t1) -> task_at s tid2 t2 -> In (x, v2) (t_got t2) ->
    v1 = v2 /\ objs_of x (m_created (s_mgr s)) = [v1].
  Proof.
    intros sched x tid1 t1 v1 tid2 t2 v2 Hc s H1 Hi1 H2 Hi2.
    pose proof (reachable_inv sched) as Hinv. fold s in Hinv.
    pose proof (i_got _ Hinv tid1 t1 x v1 H1 Hi1 Hc) as A.
    pose proof (i_got _ Hinv tid2 t2 x v2 H2 Hi2 Hc) as B.
    pose proof (i_once _ Hinv x Hc) as C. rewrite A in *. inversion B; subst. auto.
  Qed.
End Cached.

(* ---------------------------------------------------------------------------------------- *)
(* invariant 2: the stack of `_get` frames is a dependency path; _resolving has no garbage    *)

Section Paths.
  Variable g : graph.

  Definition edge (x y : Z) : Prop := In y (n_deps (node_of g x)).

  Inductive path : Z -> Z -> Prop :=
  | path1 : forall x y, edge x y -> path x y
  | pathS : forall x y z, edge x y -> path y z -> path x z.

  Lemma path_snoc : forall x y z, path x y -> edge y z -> path x z.
  Proof.
    intros x y z H. induction H as [x y H|x y w H _ IH]; intros E.
    - eapply pathS; [exact H|apply path1; exact E].
    - eapply pathS; [exact H|apply IH; exact E].
  Qed.

  Fixpoint chain (stk : list frame) : Prop :=
    match stk with
    | fi :: ((fo :: _) as rest) => hd_error (f_todo fo) = Some (f_name fi) /\ chain rest
    | _ => True
    end.

  Definition todo_ok (f : frame) : Prop := incl (f_todo f) (n_deps (node_of g (f_name f))).

  Lemma hd_error_in : forall (l : list Z) x, hd_error l = Some x -> In x l.
  Proof. intros [|a t] x H; inversion H. left. reflexivity. Qed.

  Lemma stack_reach : forall stk top rest, stk = top :: rest -> chain stk -> (forall f, In f stk -> todo_ok f) ->
    forall f, In f rest -> path (f_name f) (f_name top).
  Proof.
    induction stk as [|f0 stk' IH]; intros top rest E Hc Ht f Hf; [discriminate|].
    inversion E; subst f0 stk'. destruct rest as [|f1 rest']; [destruct Hf|].
    cbn [chain] in Hc. destruct Hc as (Hhd & Hc').
    assert (He : edge (f_name f1) (f_name top)).
    { unfold edge. apply (Ht f1 (or_intror (or_introl eq_refl))). apply hd_error_in. exact Hhd. }
    destruct Hf as [<-|Hf]; [apply path1; exact He|].
    eapply path_snoc; [|exact He].
    apply (IH f1 rest' eq_refl Hc'); [|exact Hf]. intros f' Hf'. apply Ht. right. exact Hf'.
  Qed.

  Lemma unwind_nodup : forall stk rs, NoDup rs -> NoDup (unwind stk rs).
  Proof.
    induction stk as [|f t IH]; cbn; intros rs H; [exact H|].
    apply IH. apply remove_first_nodup. exact H.
  Qed.

  Lemma unwind_removes : forall stk rs f, NoDup rs -> In f stk -> ~ In (f_name f) (unwind stk rs).
  Proof.
    induction stk as [|f0 t IH]; cbn; intros rs f Hnd Hf; [destruct Hf|].
    destruct (remove_first_nodup (f_name f0) rs Hnd) as (A & B). destruct Hf as [->|Hf].
    - intros Hin. apply B. eapply unwind_incl. exact Hin.
    - apply IH; assumption.
  Qed.

  Record Inv2 (s : st) : Prop := mkInv2 {
    j_inv : Inv g s;
    j_rs_nodup : NoDup (m_resolving (s_mgr s));
    j_rs_frame : forall y, In y (m_resolving (s_mgr s)) ->
                 exists tid t f, task_at s tid t /\ In f (t_stack t) /\ f_name f = y;
    j_chain : forall tid t, task_at s tid t -> chain (t_stack t);
    j_todo : forall tid t f, task_at s tid t -> In f (t_stack t) -> todo_ok f;
    j_idle : forall tid t, task_at s tid t -> t_status t <> TRunning -> t_stack t = []
  }.

  Lemma Inv2_init : Inv2 init.
  Proof.
    constructor; cbn; unfold task_at; cbn; try discriminate; try tauto.
    - apply Inv_init.
    - constructor.
  Qed.

  Lemma NoDup_snoc : forall (l : list Z) x, NoDup l -> ~ In x l -> NoDup (l ++ [x]).
  Proof.
    induction l as [|a t IH]; cbn; intros x Hnd Hni.
    - constructor; [tauto|constructor].
    - inversion Hnd as [|? ? Ha Ht]; subst. constructor.
      + intros Hin. apply in_app_or in Hin. destruct Hin as [Hin|[Hin|[]]]; [contradiction|].
        subst. apply Hni. left. reflexivity.
      + apply IH; [exact Ht|]. intros Hin. apply Hni. right. exact Hin.
  Qed.

  Lemma chain_top : forall f f' rest, chain (f :: rest) -> f_name f' = f_name f -> chain (f' :: rest).
  Proof. intros f f' [|fo rest] H E; cbn in *; [exact I|]. rewrite E. exact H. Qed.

  Lemma chain_tail : forall f rest, chain (f :: rest) -> chain rest.
  Proof. intros f [|fo rest] H; [exact I|]. cbn in H. destruct H as [_ H]. exact H. Qed.

  (* the acting task keeps its frames' names (top frame possibly modified), _resolving is unchanged *)
  Lemma Inv2_modtop : forall s tid t t' m', Inv2 s -> task_at s tid t -> Inv g (upd s tid m' t') ->
    m_resolving m' = m_resolving (s_mgr s) ->
    map f_name (t_stack t') = map f_name (t_stack t) ->
    chain (t_stack t') -> (forall f, In f (t_stack t') -> todo_ok f) ->
    (t_status t' <> TRunning -> t_stack t' = []) ->
    Inv2 (upd s tid m' t').
  Proof.
    intros s tid t t' m' [A B C D E F] H0 Hi Hrs Hnm Hch Htd Hid.
    constructor; cbn [upd s_mgr]; rewrite ?Hrs; auto.
    - intros y Hy. destruct (C y Hy) as (tid1 & t1 & f & H1 & Hf & En).
      destruct (Z.eq_dec tid1 tid) as [->|Hne].
      + unfold task_at in H1, H0. rewrite H0 in H1. inversion H1; subst t1.
        assert (Hin : In y (map f_name (t_stack t'))) by (rewrite Hnm, <- En; apply in_map; exact Hf).
        apply in_map_iff in Hin. destruct Hin as (f' & En' & Hf').
        exists tid, t', f'. split; [eapply task_at_upd_same; exact H0|auto].
      + exists tid1, t1, f. split; [apply task_at_upd_other; assumption|auto].
    - intros tid1 t1 H1. destruct (task_at_upd _ _ _ _ _ _ _ H0 H1) as [(-> & ->)|(Hne & H1')]; [exact Hch|eapply D; eassumption].
    - intros tid1 t1 f H1 Hf. destruct (task_at_upd _ _ _ _ _ _ _ H0 H1) as [(-> & ->)|(Hne & H1')]; [apply Htd; exact Hf|eapply E; eassumption].
    - intros tid1 t1 H1 Hst. destruct (task_at_upd _ _ _ _ _ _ _ H0 H1) as [(-> & ->)|(Hne & H1')]; [apply Hid; exact Hst|eapply F; eassumption].
  Qed.

  Lemma Inv2_fail : forall s tid t k x, Inv2 s -> task_at s tid t ->
    Inv2 (upd s tid (fst (fail_task k x (s_mgr s) t)) (snd (fail_task k x (s_mgr s) t))).
  Proof.
    intros s tid t k x Hi2 H0. pose proof Hi2 as [A B C D E F].
    constructor; [apply Inv_fail; assumption| | | | |]; unfold fail_task; cbn [fst snd upd s_mgr scope_exit m_resolving].
    - apply unwind_nodup. exact B.
    - intros y Hy. destruct (C y (unwind_incl _ _ _ Hy)) as (tid1 & t1 & f & H1 & Hf & En).
      destruct (Z.eq_dec tid1 tid) as [->|Hne].
      + unfold task_at in H1, H0. rewrite H0 in H1. inversion H1; subst t1. exfalso.
        rewrite <- En in Hy. exact (unwind_removes _ _ f B Hf Hy).
      + exists tid1, t1, f. split; [apply task_at_upd_other; assumption|auto].
    - intros tid1 t1 H1. destruct (task_at_upd _ _ _ _ _ _ _ H0 H1) as [(-> & ->)|(Hne & H1')]; [exact I|eapply D; eassumption].
    - intros tid1 t1 f H1 Hf. destruct (task_at_upd _ _ _ _ _ _ _ H0 H1) as [(-> & ->)|(Hne & H1')]; [destruct Hf|eapply E; eassumption].
    - intros tid1 t1 H1 Hst. destruct (task_at_upd _ _ _ _ _ _ _ H0 H1) as [(-> & ->)|(Hne & H1')]; [reflexivity|eapply F; eassumption].
  Qed.

  Lemma Inv2_push : forall s tid t x, Inv2 s -> task_at s tid t -> t_status t = TRunning ->
    ~ In x (m_resolving (s_mgr s)) ->
    (cached g x = true -> alookup x (m_resources (s_mgr s)) = None) ->
    match t_stack t with fo :: _ => hd_error (f_todo fo) = Some x | [] => True end ->
    Inv2 (upd s tid
           (mkMgr (m_resources (s_mgr s)) (m_resolving (s_mgr s) ++ [x]) (m_rcache (s_mgr s)) (m_depth (s_mgr s))
                  (m_next (s_mgr s)) (m_created (s_mgr s)))
           (mkTask (t_params t) (mkFrame x (n_deps (node_of g x)) [] (n_susp (node_of g x)) :: t_stack t)
                   (t_got t) (t_status t))).
  Proof.
    intros s tid t x Hi2 H0 Hrun Hnr Hfr Hhd. pose proof Hi2 as [A B C D E F].
    constructor; [apply Inv_push; assumption| | | | |]; cbn [upd s_mgr m_resolving].
    - apply NoDup_snoc; assumption.
    - intros y Hy. apply in_app_or in Hy. destruct Hy as [Hy|[<-|[]]].
      + destruct (C y Hy) as (tid1 & t1 & f & H1 & Hf & En).
        destruct (Z.eq_dec tid1 tid) as [->|Hne].
        * unfold task_at in H1, H0. rewrite H0 in H1. inversion H1; subst t1.
          eexists tid, _, f. split; [eapply task_at_upd_same; exact H0|]. cbn [t_stack]. split; [right; exact Hf|exact En].
        * exists tid1, t1, f. split; [apply task_at_upd_other; assumption|auto].
      + eexists tid, _, _. split; [eapply task_at_upd_same; exact H0|]. cbn [t_stack]. split; [left; reflexivity|reflexivity].
    - intros tid1 t1 H1. destruct (task_at_upd _ _ _ _ _ _ _ H0 H1) as [(-> & ->)|(Hne & H1')]; [|eapply D; eassumption].
      cbn [t_stack]. pose proof (D tid t H0) as Hc. destruct (t_stack t) as [|fo rest]; [exact I|].
      cbn [chain]. split; [exact Hhd|exact Hc].
    - intros tid1 t1 f H1 Hf. destruct (task_at_upd _ _ _ _ _ _ _ H0 H1) as [(-> & ->)|(Hne & H1')]; [|eapply E; eassumption].
      cbn [t_stack] in Hf. destruct Hf as [<-|Hf]; [unfold todo_ok; cbn; apply incl_refl|eapply E; eassumption].
    - intros tid1 t1 H1 Hst. destruct (task_at_upd _ _ _ _ _ _ _ H0 H1) as [(-> & ->)|(Hne & H1')]; [|eapply F; eassumption].
      cbn [t_status] in Hst. contradiction.
  Qed.

  Lemma Inv2_pop : forall s tid tk t f rest, Inv2 s -> task_at s tid t -> t_stack t = f :: rest ->
    t_status t = TRunning ->
    let x := f_name f in
    let o := m_next (s_mgr s) in
    Inv2 (upd s tid
           (mkMgr (if cached g x then aset x o (m_resources (s_mgr s)) else m_resources (s_mgr s))
                  (remove_first x (m_resolving (s_mgr s)))
                  (aset x o (m_rcache (s_mgr s))) (m_depth (s_mgr s)) (o + 1)
                  (m_created (s_mgr s) ++ [(x, (o, (tk, f_args f)))]))
           (mkTask (t_params t) rest (t_got t) (t_status t))).
  Proof.
    intros s tid tk t f rest Hi2 H0 Hst Hrun x o. pose proof Hi2 as [A B C D E F].
    destruct (remove_first_nodup x _ B) as (N1 & N2).
    constructor; [apply Inv_finish; assumption| | | | |]; cbn [upd s_mgr m_resolving].
    - exact N1.
    - intros y Hy. assert (Hyx : y <> x) by (intros ->; contradiction).
      destruct (C y (remove_first_incl _ _ _ Hy)) as (tid1 & t1 & f1 & H1 & Hf & En).
      destruct (Z.eq_dec tid1 tid) as [->|Hne].
      + unfold task_at in H1, H0. rewrite H0 in H1. inversion H1; subst t1. rewrite Hst in Hf.
        destruct Hf as [<-|Hf]; [exfalso; apply Hyx; rewrite <- En; reflexivity|].
        eexists tid, _, f1. split; [eapply task_at_upd_same; exact H0|]. cbn [t_stack]. auto.
      + exists tid1, t1, f1. split; [apply task_at_upd_other; assumption|auto].
    - intros tid1 t1 H1. destruct (task_at_upd _ _ _ _ _ _ _ H0 H1) as [(-> & ->)|(Hne & H1')]; [|eapply D; eassumption].
      cbn [t_stack]. pose proof (D tid t H0) as Hc. rewrite Hst in Hc. eapply chain_tail. exact Hc.
    - intros tid1 t1 f1 H1 Hf. destruct (task_at_upd _ _ _ _ _ _ _ H0 H1) as [(-> & ->)|(Hne & H1')]; [|eapply E; eassumption].
      cbn [t_stack] in Hf. eapply E; [exact H0|]. rewrite Hst. right. exact Hf.
    - intros tid1 t1 H1 Hs. destruct (task_at_upd _ _ _ _ _ _ _ H0 H1) as [(-> & ->)|(Hne & H1')]; [|eapply F; eassumption].
      cbn [t_status] in Hs. contradiction.
  Qed.

  Lemma deliver_shape : forall x v t,
    map f_name (t_stack (deliver x v t)) = map f_name (t_stack t) /\
    t_status (deliver x v t) = t_status t /\
    (chain (t_stack t) -> chain (t_stack (deliver x v t))) /\
    ((forall f, In f (t_stack t) -> todo_ok f) -> forall f, In f (t_stack (deliver x v t)) -> todo_ok f).
  Proof.
    intros x v t. unfold deliver. destruct (t_stack t) as [|f rest] eqn:E; cbn [t_stack t_status map].
    - split; [reflexivity|]. split; [reflexivity|]. split; auto.
    - split; [reflexivity|]. split; [reflexivity|]. split.
      + intros H. eapply chain_top; [exact H|reflexivity].
      + intros H f' [<-|Hf'].
        * unfold todo_ok. cbn [f_todo f_name]. intros d Hd. apply (H f (or_introl eq_refl)).
          destruct (f_todo f); [destruct Hd|right; exact Hd].
        * apply H. right. exact Hf'.
  Qed.

  Lemma Inv2_deliver : forall s tid t x v, Inv2 s -> task_at s tid t ->
    (cached g x = true -> alookup x (m_resources (s_mgr s)) = Some v) ->
    Inv2 (upd s tid (s_mgr s) (deliver x v t)).
  Proof.
    intros s tid t x v Hi2 H0 Hv. pose proof Hi2 as [A B C D E F].
    destruct (deliver_shape x v t) as (S1 & S2 & S3 & S4).
    apply Inv2_modtop with (t := t); auto.
    - apply Inv_deliver; assumption.
    - apply S3. eapply D. exact H0.
    - apply S4. intros f Hf. eapply E; eassumption.
    - rewrite S2. intros Hs. pose proof (F tid t H0 Hs) as Hnil.
      assert (Hm : map f_name (t_stack (deliver x v t)) = []) by (rewrite S1, Hnil; reflexivity).
      destruct (t_stack (deliver x v t)); [reflexivity|discriminate].
  Qed.

  Lemma micro_inv2 : forall s tid t m' t' y, Inv2 s -> task_at s tid t ->
    micro g tid (s_mgr s) t = (m', t', y) -> Inv2 (upd s tid m' t').
  Proof.
    intros s tid t m' t' y Hi2 H0 Hm. pose proof Hi2 as [A B C D E F].
    pose proof (micro_inv g s tid t m' t' y A H0 Hm) as Hinv.
    unfold micro in Hm.
    assert (Hcall : forall x mc tc, t_status t = TRunning ->
              match t_stack t with fo :: _ => hd_error (f_todo fo) = Some x | [] => True end ->
              call g x (s_mgr s) t = (mc, tc) -> Inv2 (upd s tid mc tc)).
    { intros x mc tc Hrun Hhd Hc. unfold call in Hc. destruct (mem x (m_resolving (s_mgr s))) eqn:Em.
      - pose proof (Inv2_fail s tid t 1 x Hi2 H0) as Hf. rewrite Hc in Hf. exact Hf.
      - apply mem_false_iff in Em. fold (cached g x) in Hc.
        destruct (cached g x) eqn:Ec.
        + destruct (alookup x (m_resources (s_mgr s))) as [v|] eqn:Er.
          * inversion Hc; subst. apply Inv2_deliver; auto.
          * destruct (alookup x (m_rcache (s_mgr s))) as [v|] eqn:Erc.
            -- inversion Hc; subst. apply Inv2_deliver; auto.
               intros _. apply (i_rcache g s A); assumption.
            -- inversion Hc; subst. apply Inv2_push; auto.
        + destruct (alookup x (m_rcache (s_mgr s))) as [v|] eqn:Erc.
          * inversion Hc; subst. apply Inv2_deliver; auto. intros X; congruence.
          * inversion Hc; subst. apply Inv2_push; auto. intros X; congruence. }
    destruct (t_status t) eqn:Est.
    - inversion Hm; subst. pose proof (F tid t H0) as Hnil. rewrite Est in Hnil.
      apply Inv2_modtop with (t := t); auto; cbn [t_stack t_status]; rewrite ?Hnil by discriminate; cbn; auto.
      intros f [].
    - destruct (t_stack t) as [|f rest] eqn:Estk.
      + destruct (t_params t) as [|p ps] eqn:Ep.
        * inversion Hm; subst. apply Inv2_modtop with (t := t); auto; cbn [t_stack]; rewrite ?Estk; cbn; auto.
          intros f [].
        * destruct (call g p (s_mgr s) t) as [mc tc] eqn:Ec. inversion Hm; subst.
          eapply (Hcall p); [reflexivity|exact I|exact Ec].
      + destruct (f_todo f) as [|d ds] eqn:Etd.
        * destruct (f_susp f) as [|k] eqn:Es.
          -- unfold finish_frame in Hm. fold (cached g (f_name f)) in Hm.
             destruct (n_fails (node_of g (f_name f))).
             ++ pose proof (Inv2_fail s tid t 2 (f_name f) Hi2 H0) as Hf.
                destruct (fail_task 2 (f_name f) (s_mgr s) t) as [mf tf]. inversion Hm; subst. exact Hf.
             ++ inversion Hm; subst.
                pose proof (Inv2_pop s tid tid t f rest Hi2 H0 Estk Est) as H1. cbn zeta in H1.
                set (m1 := mkMgr _ _ _ _ _ _) in *. set (t1 := mkTask _ rest _ _) in *.
                rewrite <- (upd_upd s tid m1 t1 m1 (deliver (f_name f) (m_next (s_mgr s)) t1)).
                replace m1 with (s_mgr (upd s tid m1 t1)) at 2 by reflexivity.
                apply Inv2_deliver; [exact H1|eapply task_at_upd_same; exact H0|].
                intros Hc. cbn [upd s_mgr]. subst m1. cbn [m_resources]. rewrite Hc. apply alookup_aset_same.
          -- inversion Hm; subst. apply Inv2_modtop with (t := t); auto; cbn [t_stack t_status]; rewrite ?Estk; cbn [map f_name]; auto.
             ++ eapply chain_top; [rewrite <- Estk; eapply D; exact H0|reflexivity].
             ++ intros f' [<-|Hf'].
                ** unfold todo_ok. cbn. intros d [].
                ** eapply E; [exact H0|]. rewrite Estk. right. exact Hf'.
             ++ intros X. contradiction.
        * destruct (call g d (s_mgr s) t) as [mc tc] eqn:Ec. inversion Hm; subst.
          eapply (Hcall d); [reflexivity|reflexivity|exact Ec].
    - inversion Hm; subst. apply Inv2_modtop with (t := t'); auto.
      + eapply D; exact H0.
      + intros f Hf; eapply E; eassumption.
      + intros Hs; eapply F; eassumption.
    - inversion Hm; subst. apply Inv2_modtop with (t := t'); auto.
      + eapply D; exact H0.
      + intros f Hf; eapply E; eassumption.
      + intros Hs; eapply F; eassumption.
  Qed.

  Lemma Inv2_refl : forall s tid t, Inv2 s -> task_at s tid t -> Inv2 (upd s tid (s_mgr s) t).
  Proof.
    intros s tid t Hi2 H0. pose proof Hi2 as [A B C D E F]. apply Inv2_modtop with (t := t); auto.
    - apply Inv_refl; assumption.
    - eapply D; exact H0.
    - intros f Hf; eapply E; eassumption.
    - intros Hs; eapply F; eassumption.
  Qed.

  Lemma advance_inv2 : forall fuel s tid t, Inv2 s -> task_at s tid t ->
    Inv2 (upd s tid (fst (advance fuel g tid (s_mgr s) t)) (snd (advance fuel g tid (s_mgr s) t))).
  Proof.
    induction fuel as [|k IH]; intros s tid t Hi H0; cbn [advance].
    - apply Inv2_refl; assumption.
    - destruct (terminal t); [apply Inv2_refl; assumption|].
      destruct (micro g tid (s_mgr s) t) as [[m' t'] y] eqn:Em.
      pose proof (micro_inv2 s tid t m' t' y Hi H0 Em) as H1.
      destruct y; [exact H1|].
      pose proof (IH (upd s tid m' t') tid t' H1 (task_at_upd_same _ _ _ _ _ H0)) as H2.
      cbn [upd s_mgr] in H2. rewrite upd_upd in H2. exact H2.
  Qed.

  Variable fuel : nat.

  Lemma task_at_start : forall s tid params tid1 t1,
    task_at (mkSt (s_mgr s) (s_tasks s ++ [(tid, new_task params)])) tid1 t1 ->
    task_at s tid1 t1 \/ t1 = new_task params.
  Proof.
    intros s tid params tid1 t1 H. unfold task_at in *. cbn [s_tasks] in H. rewrite alookup_app in H.
    destruct (alookup tid1 (s_tasks s)); [left; exact H|]. cbn in H.
    destruct (tid =? tid1); [inversion H; right; reflexivity|discriminate].
  Qed.

  Lemma task_at_start_old : forall s tid params tid1 t1, task_at s tid1 t1 ->
    task_at (mkSt (s_mgr s) (s_tasks s ++ [(tid, new_task params)])) tid1 t1.
  Proof. intros s tid params tid1 t1 H. unfold task_at in *. cbn [s_tasks]. rewrite alookup_app, H. reflexivity. Qed.

  Theorem step_inv2 : forall s a, Inv2 s -> Inv2 (step g fuel s a).
  Proof.
    intros s a Hi2. pose proof Hi2 as [A B C D E F]. destruct a as [tid params|tid].
    - pose proof (step_inv g fuel s (TStart tid params) A) as HA. cbn [step] in *.
      destruct (alookup tid (s_tasks s)) eqn:El; [exact Hi2|].
      constructor; cbn [s_mgr]; auto.
      + intros y Hy. destruct (C y Hy) as (tid1 & t1 & f & H1 & Hf & En).
        exists tid1, t1, f. split; [apply task_at_start_old; exact H1|auto].
      + intros tid1 t1 H1. destruct (task_at_start _ _ _ _ _ H1) as [H| ->]; [eapply D; eassumption|exact I].
      + intros tid1 t1 f H1 Hf. destruct (task_at_start _ _ _ _ _ H1) as [H| ->]; [eapply E; eassumption|destruct Hf].
      + intros tid1 t1 H1 Hs. destruct (task_at_start _ _ _ _ _ H1) as [H| ->]; [eapply F; eassumption|reflexivity].
    - cbn [step]. destruct (alookup tid (s_tasks s)) as [t|] eqn:El; [|exact Hi2].
      pose proof (advance_inv2 fuel s tid t Hi2 El) as H.
      destruct (advance fuel g tid (s_mgr s) t) as [m' t']. exact H.
  Qed.

  Theorem reachable_inv2 : forall sched, Inv2 (exec g fuel init sched).
  Proof. intros. unfold exec. apply inv_all_schedules; [apply step_inv2|apply Inv2_init]. Qed.

  (* -- what a "Circular resource dependency" error means ----------------------------------- *)

  (* a new cycle error on x: either x is one of the task's own enclosing `_get` frames — then x really
     depends on itself — or x is being resolved by another step invocation *)
  Lemma micro_err : forall s tid t m' t' y x, Inv2 s -> task_at s tid t -> terminal t = false ->
    micro g tid (s_mgr s) t = (m', t', y) -> t_status t' = TFailed 1 x ->
    path x x \/
    (exists tid2 t2 f2, tid2 <> tid /\ task_at s tid2 t2 /\ In f2 (t_stack t2) /\ f_name f2 = x).
  Proof.
    intros s tid t m' t' y x Hi2 H0 Hterm Hm Hst. pose proof Hi2 as [A B C D E F].
    assert (Hcall : forall d mc tc,
              match t_stack t with fo :: _ => hd_error (f_todo fo) = Some d | [] => True end ->
              call g d (s_mgr s) t = (mc, tc) -> t_status tc = TFailed 1 x -> t_status t = TRunning ->
              path x x \/ (exists tid2 t2 f2, tid2 <> tid /\ task_at s tid2 t2 /\ In f2 (t_stack t2) /\ f_name f2 = x)).
    { intros d mc tc Hhd Hc Hs Hrun. unfold call in Hc. destruct (mem d (m_resolving (s_mgr s))) eqn:Em.
      - unfold fail_task in Hc. inversion Hc; subst tc. cbn [t_status] in Hs. inversion Hs; subst d.
        apply mem_true_iff in Em. destruct (C x Em) as (tid1 & t1 & f1 & Hat1 & Hf1 & En).
        destruct (Z.eq_dec tid1 tid) as [->|Hne]; [|right; exists tid1, t1, f1; auto].
        left. unfold task_at in Hat1, H0. rewrite H0 in Hat1. inversion Hat1; subst t1.
        destruct (t_stack t) as [|top rest] eqn:Estk; [destruct Hf1|].
        assert (Hedge : edge (f_name top) x).
        { unfold edge. apply (E tid t top); [exact H0|rewrite Estk; left; reflexivity|]. apply hd_error_in. exact Hhd. }
        destruct Hf1 as [->|Hf1].
        + rewrite En in Hedge. apply path1. exact Hedge.
        + rewrite <- En. eapply path_snoc; [|rewrite En; exact Hedge].
          apply (stack_reach (top :: rest) top rest eq_refl); [rewrite <- Estk; eapply D; exact H0| |exact Hf1].
          intros f' Hf'. eapply E; [exact H0|rewrite Estk; exact Hf'].
      - destruct (if n_cache (node_of g d) then alookup d (m_resources (s_mgr s)) else None).
        + inversion Hc; subst tc. destruct (deliver_shape d z t) as (_ & S2 & _). rewrite S2, Hrun in Hs. discriminate.
        + destruct (alookup d (m_rcache (s_mgr s))).
          * inversion Hc; subst tc. destruct (deliver_shape d z t) as (_ & S2 & _). rewrite S2, Hrun in Hs. discriminate.
          * inversion Hc; subst tc. cbn [t_status] in Hs. rewrite Hrun in Hs. discriminate. }
    unfold micro in Hm. destruct (t_status t) eqn:Est.
    - inversion Hm; subst. cbn in Hst. discriminate.
    - destruct (t_stack t) as [|f rest] eqn:Estk.
      + destruct (t_params t) as [|p ps].
        * inversion Hm; subst. cbn in Hst. discriminate.
        * destruct (call g p (s_mgr s) t) as [mc tc] eqn:Ec. inversion Hm; subst. eapply (Hcall p); eauto.
      + destruct (f_todo f) as [|d ds] eqn:Etd.
        * destruct (f_susp f).
          -- unfold finish_frame in Hm. destruct (n_fails (node_of g (f_name f))).
             ++ unfold fail_task in Hm. inversion Hm; subst. cbn in Hst. discriminate.
             ++ inversion Hm; subst. destruct (deliver_shape (f_name f) (m_next (s_mgr s))
                   (mkTask (t_params t) rest (t_got t) (t_status t))) as (_ & S2 & _).
                rewrite S2 in Hst. cbn [t_status] in Hst. rewrite Est in Hst. discriminate.
          -- inversion Hm; subst. cbn in Hst. discriminate.
        * destruct (call g d (s_mgr s) t) as [mc tc] eqn:Ec. inversion Hm; subst.
          eapply (Hcall d); eauto.
    - unfold terminal in Hterm. rewrite Est in Hterm. discriminate.
    - unfold terminal in Hterm. rewrite Est in Hterm. discriminate.
  Qed.

  (* -- sequential executions: no two step invocations overlap ------------------------------- *)

  Definition err_ok (s : st) : Prop :=
    forall tid t x, task_at s tid t -> t_status t = TFailed 1 x -> path x x.

  Definition others_idle (s : st) (tid : Z) : Prop :=
    forall tid' t', tid' <> tid -> task_at s tid' t' -> t_stack t' = [].

  Lemma others_idle_upd : forall s tid m' t', others_idle s tid -> others_idle (upd s tid m' t') tid.
  Proof.
    intros s tid m' t' H tid' t'' Hne H1. unfold task_at, upd in H1. cbn [s_tasks] in H1.
    rewrite alookup_aupd_other in H1 by exact Hne. eapply H; eassumption.
  Qed.

  Lemma err_ok_upd : forall s tid t m' t', err_ok s -> task_at s tid t ->
    (forall x, t_status t' = TFailed 1 x -> path x x) -> err_ok (upd s tid m' t').
  Proof.
    intros s tid t m' t' He H0 Hn tid1 t1 x H1 Hs.
    destruct (task_at_upd _ _ _ _ _ _ _ H0 H1) as [(-> & ->)|(Hne & H1')]; [apply Hn; exact Hs|eapply He; eassumption].
  Qed.

  Lemma advance_seq : forall fl s tid t, Inv2 s -> err_ok s -> others_idle s tid -> task_at s tid t ->
    err_ok (upd s tid (fst (advance fl g tid (s_mgr s) t)) (snd (advance fl g tid (s_mgr s) t))).
  Proof.
    induction fl as [|k IH]; intros s tid t Hi He Ho H0; cbn [advance].
    - eapply err_ok_upd; eauto.
    - destruct (terminal t) eqn:Eterm; [eapply err_ok_upd; eauto|].
      destruct (micro g tid (s_mgr s) t) as [[m' t'] y] eqn:Em.
      assert (He' : err_ok (upd s tid m' t')).
      { eapply err_ok_upd; eauto. intros x Hs.
        destruct (micro_err s tid t m' t' y x Hi H0 Eterm Em Hs) as [Hp|(tid2 & t2 & f2 & Hne & H2 & Hf2 & _)]; [exact Hp|].
        rewrite (Ho tid2 t2 Hne H2) in Hf2. destruct Hf2. }
      destruct y; [exact He'|].
      pose proof (micro_inv2 s tid t m' t' false Hi H0 Em) as Hi'.
      pose proof (IH (upd s tid m' t') tid t' Hi' He' (others_idle_upd _ _ _ _ Ho) (task_at_upd_same _ _ _ _ _ H0)) as H2.
      cbn [upd s_mgr] in H2. rewrite upd_upd in H2. exact H2.
  Qed.

  (* a scheduler choice respects the sequential discipline when no *other* step invocation is in the
     middle of its resolution *)
  Definition seq_ok (s : st) (a : act) : Prop :=
    match a with
    | TStart _ _ => True
    | TRun tid => forall tid' t', tid' <> tid -> task_at s tid' t' -> t_status t' <> TRunning
    end.

  Fixpoint seq_valid (s : st) (sched : list act) : Prop :=
    match sched with
    | [] => True
    | a :: rest => seq_ok s a /\ seq_valid (step g fuel s a) rest
    end.

  Theorem no_false_cycle_sequential : forall sched s, Inv2 s -> err_ok s -> seq_valid s sched ->
    err_ok (exec g fuel s sched).
  Proof.
    induction sched as [|a rest IH]; intros s Hi He Hv; [exact He|].
    destruct Hv as [Hok Hv]. unfold exec. rewrite run_sched_cons. fold (exec g fuel (step g fuel s a) rest).
    apply IH; [apply step_inv2; exact Hi| |exact Hv].
    destruct a as [tid params|tid]; cbn [step].
    - destruct (alookup tid (s_tasks s)) eqn:El; [exact He|].
      intros tid1 t1 x H1 Hs. destruct (task_at_start _ _ _ _ _ H1) as [H| ->]; [eapply He; eassumption|discriminate].
    - destruct (alookup tid (s_tasks s)) as [t|] eqn:El; [|exact He].
      assert (Ho : others_idle s tid).
      { intros tid' t' Hne H1. eapply (j_idle s Hi); [exact H1|]. apply (Hok tid' t' Hne H1). }
      pose proof (advance_seq fuel s tid t Hi He Ho El) as H.
      destruct (advance fuel g tid (s_mgr s) t) as [m' t']. exact H.
  Qed.
End Paths.

(* ---------------------------------------------------------------------------------------- *)
(* invariant 3 (every schedule): only resources whose dependency graph is well-founded ever get a
   value — a genuine cycle can never be satisfied                                             *)

Section Acyclic.
  Variable g : graph.

  Inductive acyc : Z -> Prop :=
  | acyc_intro : forall x, (forall d, In d (n_deps (node_of g x)) -> acyc d) -> acyc x.

  Lemma acyc_path_closed : forall x y, path g x y -> acyc x -> acyc y.
  Proof.
    intros x y H. induction H as [x y E|x y z E _ IH]; intros Ha.
    - inversion Ha as [? Hd]; subst. apply Hd. exact E.
    - apply IH. inversion Ha as [? Hd]; subst. apply Hd. exact E.
  Qed.

  Lemma acyc_no_cycle : forall x, acyc x -> ~ path g x x.
  Proof.
    intros x Ha. induction Ha as [x Hd IH]. intros Hp.
    inversion Hp as [? ? E|? d ? E Hp']; subst.
    - apply (IH x E). exact Hp.
    - apply (IH d E). eapply path_snoc; [exact Hp'|exact E].
  Qed.

  Definition frame_ok (f : frame) : Prop :=
    forall d, In d (n_deps (node_of g (f_name f))) -> ~ In d (f_todo f) -> acyc d.

  Record Inv3 (s : st) : Prop := mkInv3 {
    a_inv2 : Inv2 g s;
    a_res : forall y o, alookup y (m_resources (s_mgr s)) = Some o -> acyc y;
    a_rc : forall y o, alookup y (m_rcache (s_mgr s)) = Some o -> acyc y;
    a_got : forall tid t y v, task_at s tid t -> In (y, v) (t_got t) -> acyc y;
    a_frames : forall tid t f, task_at s tid t -> In f (t_stack t) -> frame_ok f;
    a_created : forall e, In e (m_created (s_mgr s)) -> acyc (fst e)
  }.

  Lemma Inv3_init : Inv3 init.
  Proof.
    constructor; cbn; unfold task_at; cbn; try discriminate; try tauto. apply Inv2_init.
  Qed.

  Lemma Inv3_upd : forall s tid t m' t', Inv3 s -> task_at s tid t -> Inv2 g (upd s tid m' t') ->
    (forall y o, alookup y (m_resources m') = Some o -> (exists o', alookup y (m_resources (s_mgr s)) = Some o') \/ acyc y) ->
    (forall y o, alookup y (m_rcache m') = Some o -> (exists o', alookup y (m_rcache (s_mgr s)) = Some o') \/ acyc y) ->
    (forall y v, In (y, v) (t_got t') -> In (y, v) (t_got t) \/ acyc y) ->
    (forall f, In f (t_stack t') -> frame_ok f) ->
    (forall e, In e (m_created m') -> In e (m_created (s_mgr s)) \/ acyc (fst e)) ->
    Inv3 (upd s tid m' t').
  Proof.
    intros s tid t m' t' [A B C D E F] H0 Hi2 HR HC HG HF HK.
    constructor; cbn [upd s_mgr]; auto.
    - intros y o Hy. destruct (HR y o Hy) as [(o' & Ho')|Ha]; [eapply B; exact Ho'|exact Ha].
    - intros y o Hy. destruct (HC y o Hy) as [(o' & Ho')|Ha]; [eapply C; exact Ho'|exact Ha].
    - intros tid1 t1 y v H1 Hin. destruct (task_at_upd _ _ _ _ _ _ _ H0 H1) as [(-> & ->)|(Hne & H1')].
      + destruct (HG y v Hin) as [Ho|Ha]; [eapply D; eassumption|exact Ha].
      + eapply D; eassumption.
    - intros tid1 t1 f H1 Hf. destruct (task_at_upd _ _ _ _ _ _ _ H0 H1) as [(-> & ->)|(Hne & H1')].
      + apply HF. exact Hf.
      + eapply E; eassumption.
    - intros e He. destruct (HK e He) as [Ho|Ha]; [apply F; exact Ho|exact Ha].
  Qed.

  Lemma deliver_frames : forall x v t, acyc x ->
    match t_stack t with fo :: _ => hd_error (f_todo fo) = Some x | [] => True end ->
    (forall f, In f (t_stack t) -> frame_ok f) ->
    forall f, In f (t_stack (deliver x v t)) -> frame_ok f.
  Proof.
    intros x v t Ha Hhd HF f Hf. unfold deliver in Hf. destruct (t_stack t) as [|fo rest] eqn:E; cbn [t_stack] in Hf.
    - destruct Hf.
    - destruct Hf as [<-|Hf]; [|apply HF; right; exact Hf].
      intros d Hd Hnt. cbn [f_name f_todo] in *.
      destruct (in_dec Z.eq_dec d (f_todo fo)) as [Hin|Hnin].
      + destruct (f_todo fo) as [|d0 ds]; [destruct Hin|]. cbn in Hhd, Hnt. inversion Hhd; subst d0.
        destruct Hin as [<-|Hin]; [exact Ha|contradiction].
      + apply (HF fo (or_introl eq_refl) d Hd Hnin).
  Qed.

  Lemma deliver_got : forall x v t y w, In (y, w) (t_got (deliver x v t)) -> In (y, w) (t_got t) \/ y = x.
  Proof.
    intros x v t y w H. unfold deliver in H. destruct (t_stack t); cbn [t_got] in H; [|left; exact H].
    destruct H as [H|H]; [inversion H; right; reflexivity|left; exact H].
  Qed.

  Lemma micro_inv3 : forall s tid t m' t' y, Inv3 s -> task_at s tid t ->
    micro g tid (s_mgr s) t = (m', t', y) -> Inv3 (upd s tid m' t').
  Proof.
    intros s tid t m' t' y Hi3 H0 Hm. pose proof Hi3 as [A B C D E F].
    pose proof (micro_inv2 g s tid t m' t' y A H0 Hm) as Hi2'.
    assert (HFt : forall f, In f (t_stack t) -> frame_ok f) by (intros f Hf; eapply E; eassumption).
    assert (Hsame : forall mm, m_resources mm = m_resources (s_mgr s) ->
              forall y0 o, alookup y0 (m_resources mm) = Some o ->
              (exists o', alookup y0 (m_resources (s_mgr s)) = Some o') \/ acyc y0).
    { intros mm Hr y0 o Hy. rewrite Hr in Hy. left. exists o. exact Hy. }
    assert (Hexit : forall mm y0 o, alookup y0 (m_rcache (scope_exit mm)) = Some o -> m_rcache mm = m_rcache (s_mgr s) ->
              (exists o', alookup y0 (m_rcache (s_mgr s)) = Some o') \/ acyc y0).
    { intros mm y0 o Hy Hr. apply scope_exit_rcache in Hy. rewrite Hr in Hy. left. exists o. exact Hy. }
    assert (Hfail : forall k x, Inv2 g (upd s tid (fst (fail_task k x (s_mgr s) t)) (snd (fail_task k x (s_mgr s) t))) ->
              Inv3 (upd s tid (fst (fail_task k x (s_mgr s) t)) (snd (fail_task k x (s_mgr s) t)))).
    { intros k x Hi. apply Inv3_upd with (t := t); auto; unfold fail_task; cbn [fst snd t_got t_stack];
        try (intros y0 o Hy; first [left; exists o; exact Hy | eapply Hexit; [exact Hy|reflexivity]]);
        try (intros f0 []). }
    assert (Hdel : forall x v, acyc x -> match t_stack t with fo :: _ => hd_error (f_todo fo) = Some x | [] => True end ->
              Inv2 g (upd s tid (s_mgr s) (deliver x v t)) -> Inv3 (upd s tid (s_mgr s) (deliver x v t))).
    { intros x v Ha Hhd Hi. apply Inv3_upd with (t := t); auto;
        try (intros y0 o Hy; left; exists o; exact Hy).
      - intros y0 w Hin. destruct (deliver_got _ _ _ _ _ Hin) as [Ho| ->]; [left; exact Ho|right; exact Ha].
      - apply deliver_frames; assumption. }
    assert (Hcall : forall x mc tc,
              match t_stack t with fo :: _ => hd_error (f_todo fo) = Some x | [] => True end ->
              call g x (s_mgr s) t = (mc, tc) -> Inv2 g (upd s tid mc tc) -> Inv3 (upd s tid mc tc)).
    { intros x mc tc Hhd Hc Hi. unfold call in Hc. destruct (mem x (m_resolving (s_mgr s))).
      - pose proof (Hfail 1 x) as Hf. rewrite Hc in Hf. apply Hf. exact Hi.
      - destruct (if n_cache (node_of g x) then alookup x (m_resources (s_mgr s)) else None) as [v|] eqn:Er.
        + inversion Hc; subst. apply Hdel; auto. destruct (n_cache (node_of g x)); [eapply B; exact Er|discriminate].
        + destruct (alookup x (m_rcache (s_mgr s))) as [v|] eqn:Erc.
          * inversion Hc; subst. apply Hdel; auto. eapply C; exact Erc.
          * inversion Hc; subst. apply Inv3_upd with (t := t); auto; cbn [m_resources m_rcache m_created t_got t_stack];
              try (intros y0 o Hy; left; exists o; exact Hy).
            intros f [<-|Hf]; [|apply HFt; exact Hf]. intros d Hd Hn. cbn in *. contradiction. }
    unfold micro in Hm. destruct (t_status t) eqn:Est.
    - inversion Hm; subst. apply Inv3_upd with (t := t); auto; cbn [m_resources m_rcache m_created t_got t_stack];
        try (intros y0 o Hy; left; exists o; exact Hy).
    - destruct (t_stack t) as [|f rest] eqn:Estk.
      + destruct (t_params t) as [|p ps] eqn:Ep.
        * inversion Hm; subst. apply Inv3_upd with (t := t); auto; cbn [t_got t_stack];
            try (intros y0 o Hy; first [left; exists o; exact Hy | eapply Hexit; [exact Hy|reflexivity]]);
            try (intros f0 []).
        * destruct (call g p (s_mgr s) t) as [mc tc] eqn:Ec. inversion Hm; subst. eapply (Hcall p); eauto.
      + destruct (f_todo f) as [|d ds] eqn:Etd.
        * destruct (f_susp f) as [|k] eqn:Es.
          -- unfold finish_frame in Hm. destruct (n_fails (node_of g (f_name f))).
             ++ pose proof (Hfail 2 (f_name f)) as Hf.
                destruct (fail_task 2 (f_name f) (s_mgr s) t) as [mf tf]. inversion Hm; subst. apply Hf. exact Hi2'.
             ++ inversion Hm; subst.
                assert (Hax : acyc (f_name f)).
                { constructor. intros d Hd. apply (HFt f (or_introl eq_refl) d Hd). rewrite Etd. intros []. }
                apply Inv3_upd with (t := t); auto; cbn [m_resources m_rcache m_created].
                ** intros y0 o Hy. destruct (Z.eq_dec y0 (f_name f)) as [->|Hne]; [right; exact Hax|].
                   left. exists o. destruct (n_cache (node_of g (f_name f))); [rewrite alookup_aset_other in Hy by exact Hne|]; exact Hy.
                ** intros y0 o Hy. destruct (Z.eq_dec y0 (f_name f)) as [->|Hne]; [right; exact Hax|].
                   left. exists o. rewrite alookup_aset_other in Hy by exact Hne. exact Hy.
                ** intros y0 w Hin. destruct (deliver_got _ _ _ _ _ Hin) as [Ho| ->]; [left; exact Ho|right; exact Hax].
                ** apply deliver_frames; cbn [t_stack]; [exact Hax| |intros f' Hf'; apply HFt; right; exact Hf'].
                   pose proof (j_chain g s A tid t H0) as Hch. rewrite Estk in Hch.
                   destruct rest as [|fo rest']; [exact I|]. cbn in Hch. destruct Hch as [Hhd _]. exact Hhd.
                ** intros e He. apply in_app_or in He. destruct He as [He|[<-|[]]]; [left; exact He|right; exact Hax].
          -- inversion Hm; subst. apply Inv3_upd with (t := t); auto; cbn [t_got t_stack];
               try (intros y0 o Hy; left; exists o; exact Hy).
             ++ intros f' [<-|Hf']; [|apply HFt; right; exact Hf'].
                intros d Hd Hn. cbn [f_name f_todo] in *. apply (HFt f (or_introl eq_refl) d Hd). rewrite Etd. exact Hn.
        * destruct (call g d (s_mgr s) t) as [mc tc] eqn:Ec. inversion Hm; subst. eapply (Hcall d); eauto.
    - inversion Hm; subst. apply Inv3_upd with (t := t'); auto;
        try (intros y0 o Hy; left; exists o; exact Hy).
    - inversion Hm; subst. apply Inv3_upd with (t := t'); auto;
        try (intros y0 o Hy; left; exists o; exact Hy).
  Qed.

  Lemma Inv3_refl : forall s tid t, Inv3 s -> task_at s tid t -> Inv3 (upd s tid (s_mgr s) t).
  Proof.
    intros s tid t Hi3 H0. pose proof Hi3 as [A B C D E F]. apply Inv3_upd with (t := t); auto;
      try (intros y0 o Hy; left; exists o; exact Hy).
    - apply Inv2_refl; assumption.
    - intros f Hf. eapply E; eassumption.
  Qed.

  Lemma advance_inv3 : forall fuel s tid t, Inv3 s -> task_at s tid t ->
    Inv3 (upd s tid (fst (advance fuel g tid (s_mgr s) t)) (snd (advance fuel g tid (s_mgr s) t))).
  Proof.
    induction fuel as [|k IH]; intros s tid t Hi H0; cbn [advance].
    - apply Inv3_refl; assumption.
    - destruct (terminal t); [apply Inv3_refl; assumption|].
      destruct (micro g tid (s_mgr s) t) as [[m' t'] y] eqn:Em.
      pose proof (micro_inv3 s tid t m' t' y Hi H0 Em) as H1.
      destruct y; [exact H1|].
      pose proof (IH (upd s tid m' t') tid t' H1 (task_at_upd_same _ _ _ _ _ H0)) as H2.
      cbn [upd s_mgr] in H2. rewrite upd_upd in H2. exact H2.
  Qed.

  Variable fuel : nat.

  Theorem step_inv3 : forall s a, Inv3 s -> Inv3 (step g fuel s a).
  Proof.
    intros s a Hi3. pose proof Hi3 as [A B C D E F]. destruct a as [tid params|tid].
    - pose proof (step_inv2 g fuel s (TStart tid params) A) as HA. cbn [step] in *.
      destruct (alookup tid (s_tasks s)) eqn:El; [exact Hi3|].
      constructor; cbn [s_mgr]; auto.
      + intros tid1 t1 y v H1 Hin. destruct (task_at_start _ _ _ _ _ H1) as [H| ->]; [eapply D; eassumption|destruct Hin].
      + intros tid1 t1 f H1 Hf. destruct (task_at_start _ _ _ _ _ H1) as [H| ->]; [eapply E; eassumption|destruct Hf].
    - cbn [step]. destruct (alookup tid (s_tasks s)) as [t|] eqn:El; [|exact Hi3].
      pose proof (advance_inv3 fuel s tid t Hi3 El) as H.
      destruct (advance fuel g tid (s_mgr s) t) as [m' t']. exact H.
  Qed.

  Theorem reachable_inv3 : forall sched, Inv3 (exec g fuel init sched).
  Proof. intros. unfold exec. apply inv_all_schedules; [apply step_inv3|apply Inv3_init]. Qed.

  (* a resource on a dependency cycle, or one from which a cycle can be reached, is never created and
     never injected, under any schedule: the step that needs it cannot be given its arguments *)
  Theorem cyclic_never_satisfied : forall sched x,
    let s := exec g fuel init sched in
    ((exists tid t v, task_at s tid t /\ In (x, v) (t_got t)) \/ (exists r, In (x, r) (m_created (s_mgr s)))) ->
    ~ path g x x /\ (forall y, path g x y -> ~ path g y y).
  Proof.
    intros sched x s H. pose proof (reachable_inv3 sched) as Hi. fold s in Hi.
    assert (Ha : acyc x).
    { destruct H as [(tid & t & v & H1 & Hin)|(r & Hin)].
      - eapply (a_got s Hi); eassumption.
      - apply (a_created s Hi (x, r) Hin). }
    split; [apply acyc_no_cycle; exact Ha|]. intros y Hp. apply acyc_no_cycle. eapply acyc_path_closed; eassumption.
  Qed.
End Acyclic.

(* ---------------------------------------------------------------------------------------- *)
(* invariant 4 (every schedule): _resolution_depth counts the step invocations that are inside their
   scope, and the scope cache is empty whenever there is none                                   *)

Section Depth.
  Variable g : graph.

  Definition is_running (t : task) : bool := match t_status t with TRunning => true | _ => false end.

  Record DInv (s : st) : Prop := mkDInv {
    d_keys : NoDup (akeys (s_tasks s));
    d_depth : m_depth (s_mgr s) = Z.of_nat (acount is_running (s_tasks s));
    d_clear : m_depth (s_mgr s) = 0 -> m_rcache (s_mgr s) = []
  }.

  Lemma DInv_init : DInv init.
  Proof. constructor; cbn; [constructor|reflexivity|reflexivity]. Qed.

  Lemma DInv_upd : forall s tid t m' t', DInv s -> task_at s tid t ->
    m_depth m' + (if is_running t then 1 else 0) = m_depth (s_mgr s) + (if is_running t' then 1 else 0) ->
    (m_depth m' = 0 -> m_rcache m' = []) ->
    DInv (upd s tid m' t').
  Proof.
    intros s tid t m' t' [A B C] H0 Hd Hc. constructor; cbn [upd s_mgr s_tasks].
    - rewrite akeys_aupd. exact A.
    - pose proof (acount_aupd is_running tid t' t (s_tasks s) A H0) as H.
      destruct (is_running t), (is_running t'); lia.
    - exact Hc.
  Qed.

  Lemma scope_exit_depth : forall m, m_depth (scope_exit m) = m_depth m - 1 /\
    (m_depth (scope_exit m) = 0 -> m_rcache (scope_exit m) = []).
  Proof.
    intros m. unfold scope_exit. cbn [m_depth m_rcache]. split; [reflexivity|].
    intros H. rewrite H. reflexivity.
  Qed.

  Lemma micro_dinv : forall s tid t m' t' y, DInv s -> task_at s tid t ->
    micro g tid (s_mgr s) t = (m', t', y) -> DInv (upd s tid m' t').
  Proof.
    intros s tid t m' t' y Hd H0 Hm. pose proof Hd as [A B C].
    assert (Hpos : is_running t = true -> 1 <= m_depth (s_mgr s)).
    { intros Hr. rewrite B. pose proof (acount_aupd is_running tid t t (s_tasks s) A H0) as H.
      assert (Hc : (1 <= acount is_running (s_tasks s))%nat).
      { clear H. unfold task_at in H0. revert H0. generalize (s_tasks s). induction l as [|[k v] l IH]; cbn [alookup]; [discriminate|].
        rewrite acount_cons. destruct (k =? tid); [intros E; inversion E; subst; rewrite Hr; lia|intros E; specialize (IH E); lia]. }
      lia. }
    assert (Hfail : forall k x, is_running t = true ->
              DInv (upd s tid (fst (fail_task k x (s_mgr s) t)) (snd (fail_task k x (s_mgr s) t)))).
    { intros k x Hr. unfold fail_task. cbn [fst snd]. apply DInv_upd with (t := t); auto.
      - rewrite Hr. unfold is_running. cbn [t_status]. destruct (scope_exit_depth
          (mkMgr (m_resources (s_mgr s)) (unwind (t_stack t) (m_resolving (s_mgr s))) (m_rcache (s_mgr s))
                 (m_depth (s_mgr s)) (m_next (s_mgr s)) (m_created (s_mgr s)))) as (E1 & _).
        rewrite E1. cbn [m_depth]. lia.
      - apply scope_exit_depth. }
    assert (Hsame : forall mm tt, m_depth mm = m_depth (s_mgr s) -> is_running tt = is_running t -> is_running t = true ->
              DInv (upd s tid mm tt)).
    { intros mm tt Hdm Hrr Hr. apply DInv_upd with (t := t); auto.
      - rewrite Hdm, Hrr. reflexivity.
      - intros Hz. rewrite Hdm in Hz. specialize (Hpos Hr). lia. }
    assert (Hdel : forall x v tt, is_running (deliver x v tt) = is_running tt).
    { intros x v tt. unfold is_running. destruct (deliver_shape g x v tt) as (_ & S2 & _). rewrite S2. reflexivity. }
    assert (Hcall : forall x mc tc, is_running t = true -> call g x (s_mgr s) t = (mc, tc) -> DInv (upd s tid mc tc)).
    { intros x mc tc Hr Hc. unfold call in Hc. destruct (mem x (m_resolving (s_mgr s))).
      - pose proof (Hfail 1 x Hr) as Hf. rewrite Hc in Hf. exact Hf.
      - destruct (if n_cache (node_of g x) then alookup x (m_resources (s_mgr s)) else None).
        + inversion Hc; subst. apply Hsame; auto.
        + destruct (alookup x (m_rcache (s_mgr s))).
          * inversion Hc; subst. apply Hsame; auto.
          * inversion Hc; subst. apply Hsame; auto. }
    unfold micro in Hm. destruct (t_status t) eqn:Est.
    - inversion Hm; subst. apply DInv_upd with (t := t); auto; cbn [m_depth m_rcache].
      + unfold is_running. rewrite Est. cbn [t_status]. lia.
      + intros Hz. rewrite B in Hz. lia.
    - assert (Hr : is_running t = true) by (unfold is_running; rewrite Est; reflexivity).
      destruct (t_stack t) as [|f rest] eqn:Estk.
      + destruct (t_params t) as [|p ps].
        * inversion Hm; subst. apply DInv_upd with (t := t); auto.
          -- rewrite Hr. unfold is_running. cbn [t_status]. destruct (scope_exit_depth (s_mgr s)) as (E1 & _). rewrite E1. lia.
          -- apply scope_exit_depth.
        * destruct (call g p (s_mgr s) t) as [mc tc] eqn:Ec. inversion Hm; subst. eapply Hcall; eauto.
      + destruct (f_todo f) as [|d ds].
        * destruct (f_susp f).
          -- unfold finish_frame in Hm. destruct (n_fails (node_of g (f_name f))).
             ++ pose proof (Hfail 2 (f_name f) Hr) as Hf. destruct (fail_task 2 (f_name f) (s_mgr s) t) as [mf tf].
                inversion Hm; subst. exact Hf.
             ++ inversion Hm; subst. apply Hsame; auto. rewrite Hdel. unfold is_running. cbn [t_status]. rewrite Est. reflexivity.
          -- inversion Hm; subst. apply Hsame; auto.
        * destruct (call g d (s_mgr s) t) as [mc tc] eqn:Ec. inversion Hm; subst. eapply Hcall; eauto.
    - inversion Hm; subst. apply DInv_upd with (t := t'); auto.
    - inversion Hm; subst. apply DInv_upd with (t := t'); auto.
  Qed.

  Lemma DInv_refl : forall s tid t, DInv s -> task_at s tid t -> DInv (upd s tid (s_mgr s) t).
  Proof. intros s tid t Hd H0. pose proof Hd as [A B C]. apply DInv_upd with (t := t); auto. Qed.

  Lemma advance_dinv : forall fuel s tid t, DInv s -> task_at s tid t ->
    DInv (upd s tid (fst (advance fuel g tid (s_mgr s) t)) (snd (advance fuel g tid (s_mgr s) t))).
  Proof.
    induction fuel as [|k IH]; intros s tid t Hi H0; cbn [advance].
    - apply DInv_refl; assumption.
    - destruct (terminal t); [apply DInv_refl; assumption|].
      destruct (micro g tid (s_mgr s) t) as [[m' t'] y] eqn:Em.
      pose proof (micro_dinv s tid t m' t' y Hi H0 Em) as H1.
      destruct y; [exact H1|].
      pose proof (IH (upd s tid m' t') tid t' H1 (task_at_upd_same _ _ _ _ _ H0)) as H2.
      cbn [upd s_mgr] in H2. rewrite upd_upd in H2. exact H2.
  Qed.

  Variable fuel : nat.

  Theorem step_dinv : forall s a, DInv s -> DInv (step g fuel s a).
  Proof.
    intros s a Hd. pose proof Hd as [A B C]. destruct a as [tid params|tid]; cbn [step].
    - destruct (alookup tid (s_tasks s)) eqn:El; [exact Hd|]. constructor; cbn [s_mgr s_tasks]; auto.
      + rewrite akeys_app. cbn. apply NoDup_snoc; [exact A|]. apply alookup_None_notin. exact El.
      + rewrite acount_app. unfold acount at 2. cbn. lia.
    - destruct (alookup tid (s_tasks s)) as [t|] eqn:El; [|exact Hd].
      pose proof (advance_dinv fuel s tid t Hd El) as H.
      destruct (advance fuel g tid (s_mgr s) t) as [m' t']. exact H.
  Qed.

  Theorem reachable_dinv : forall sched, DInv (exec g fuel init sched).
  Proof. intros. unfold exec. apply inv_all_schedules; [apply step_dinv|apply DInv_init]. Qed.

  (* between step invocations the manager is clean: nothing is marked as resolving, the depth is 0 and
     the scope cache is empty — so an invocation that does not overlap another one starts from scratch *)
  Theorem idle_manager_is_clean : forall sched,
    let s := exec g fuel init sched in
    (forall tid t, task_at s tid t -> t_status t <> TRunning) ->
    m_resolving (s_mgr s) = [] /\ m_depth (s_mgr s) = 0 /\ m_rcache (s_mgr s) = [].
  Proof.
    intros sched s Hall. pose proof (reachable_dinv sched) as Hd. pose proof (reachable_inv2 g fuel sched) as Hi2.
    fold s in Hd, Hi2. destruct Hd as [A B C].
    assert (Hz : acount is_running (s_tasks s) = 0%nat).
    { apply acount_zero_iff. intros k v Hin. unfold is_running.
      assert (Hat : task_at s k v).
      { unfold task_at. clear - A Hin. revert A Hin. generalize (s_tasks s). induction l as [|[k' v'] l IH]; intros A Hin; [destruct Hin|].
        cbn [akeys map fst] in A. inversion A as [|? ? Hni Hnd]; subst. cbn [alookup]. destruct Hin as [E|Hin].
        - inversion E; subst. rewrite Z.eqb_refl. reflexivity.
        - destruct (k' =? k) eqn:Ek; [|apply IH; assumption].
          apply Z.eqb_eq in Ek. subst k'. exfalso. apply Hni. change k with (fst (k, v)). apply in_map. exact Hin. }
      specialize (Hall k v Hat). destruct (t_status v); try reflexivity. contradiction. }
    assert (Hdz : m_depth (s_mgr s) = 0) by (rewrite B, Hz; reflexivity).
    split; [|split; [exact Hdz|apply C; exact Hdz]].
    destruct (m_resolving (s_mgr s)) as [|x rs] eqn:Ers; [reflexivity|]. exfalso.
    destruct (j_rs_frame g s Hi2 x) as (tid & t & f & Hat & Hf & _); [rewrite Ers; left; reflexivity|].
    rewrite (j_idle g s Hi2 tid t Hat (Hall tid t Hat)) in Hf. destruct Hf.
  Qed.
End Depth.

(* ---------------------------------------------------------------------------------------- *)
(* witnesses and examples used by Properties/C22.v                                            *)

Lemma micro_err_reachable : forall g fuel sched tid t m' t' y x,
  let s := exec g fuel init sched in
  task_at s tid t -> terminal t = false ->
  micro g tid (s_mgr s) t = (m', t', y) -> t_status t' = TFailed 1 x ->
  path g x x \/
  (exists tid2 t2 f2, tid2 <> tid /\ task_at s tid2 t2 /\ In f2 (t_stack t2) /\ f_name f2 = x).
Proof.
  intros g fuel sched tid t m' t' y x s. exact (micro_err g s tid t m' t' y x (reachable_inv2 g fuel sched)).
Qed.

Definition g_one_async : graph := [(1, mkNode true 1 false [])].
Definition sched_overlap : list act := [TStart 1 [1]; TStart 2 [1]; TRun 1; TRun 2].

Lemma g_one_async_no_edge : forall y z, ~ edge g_one_async y z.
Proof.
  intros y z E. unfold edge, node_of, g_one_async in E. cbn [alookup] in E.
  destruct (1 =? y); cbn in E; exact E.
Qed.

Lemma false_cycle_witness :
  exists g fuel sched tid t x,
    (forall y, ~ path g y y) /\
    task_at (exec g fuel init sched) tid t /\ t_status t = TFailed 1 x.
Proof.
  exists g_one_async, 50%nat, sched_overlap, 2, (mkTask [1] [] [] (TFailed 1 1)), 1.
  split; [|split; reflexivity].
  intros y Hp. inversion Hp as [? ? E|? ? ? E _]; subst; exact (g_one_async_no_edge _ _ E).
Qed.

Definition g_noncached : graph := [(1, mkNode false 0 false []); (2, mkNode false 1 false [])].
Definition sched_share : list act := [TStart 1 [1; 2]; TStart 2 [1]; TRun 1; TRun 2].

Lemma noncached_shared_witness :
  exists g fuel sched x o args t2,
    let s := exec g fuel init sched in
    cached g x = false /\ task_at s 2 t2 /\ t_status t2 = TDone /\ In (x, o) (t_got t2) /\
    In (x, (o, (1, args))) (m_created (s_mgr s)).
Proof.
  exists g_noncached, 50%nat, sched_share, 1, 1, [], (mkTask [] [] [(1, 1)] TDone).
  cbn zeta. split; [reflexivity|]. split; [reflexivity|]. split; [reflexivity|].
  split; [left; reflexivity|]. vm_compute. left. reflexivity.
Qed.

(* 1 (cached, async) <- 2 (non-cached) <- 3 (cached);  4 -> 5 -> 4 is a genuine cycle *)
Definition g_ex : graph :=
  [(1, mkNode true 1 false []); (2, mkNode false 0 false [1]); (3, mkNode true 0 false [2; 1]);
   (4, mkNode false 0 false [5]); (5, mkNode true 1 false [4])].

Definition sched_seq : list act :=
  [TStart 1 [3; 2]; TRun 1; TRun 1; TStart 2 [2; 3]; TRun 2; TStart 3 [1; 4]; TRun 3].

Lemma example_sequential :
  let s := exec g_ex 60 init sched_seq in
  alookup 1 (s_tasks s) = Some (mkTask [] [] [(2, 2); (3, 3)] TDone) /\
  alookup 2 (s_tasks s) = Some (mkTask [] [] [(3, 3); (2, 4)] TDone) /\
  alookup 3 (s_tasks s) = Some (mkTask [4] [] [(1, 1)] (TFailed 1 4)) /\
  objs_of 1 (m_created (s_mgr s)) = [1] /\ objs_of 2 (m_created (s_mgr s)) = [2; 4] /\
  m_resolving (s_mgr s) = [] /\ m_depth (s_mgr s) = 0 /\ m_rcache (s_mgr s) = [].
Proof. vm_compute. repeat split; reflexivity. Qed.

(* boolean form of the sequential discipline (for closed examples) *)
Definition seq_okb (s : st) (a : act) : bool :=
  match a with
  | TStart _ _ => true
  | TRun tid => forallb (fun kv => (fst kv =? tid) ||
                                   match t_status (snd kv) with TRunning => false | _ => true end) (s_tasks s)
  end.

Lemma seq_okb_sound : forall s a, seq_okb s a = true -> seq_ok s a.
Proof.
  intros s [tid params|tid] H; [exact I|]. cbn [seq_okb seq_ok] in *. intros tid' t' Hne Hat.
  rewrite forallb_forall in H. specialize (H (tid', t') (alookup_Some_in _ _ _ Hat)). cbn in H.
  destruct (tid' =? tid) eqn:E; [apply Z.eqb_eq in E; contradiction|]. cbn in H.
  destruct (t_status t'); try discriminate; intros X; discriminate.
Qed.

Fixpoint seq_validb (g : graph) (fuel : nat) (s : st) (sched : list act) : bool :=
  match sched with
  | [] => true
  | a :: rest => seq_okb s a && seq_validb g fuel (step g fuel s a) rest
  end.

Lemma seq_validb_sound : forall g fuel sched s, seq_validb g fuel s sched = true -> seq_valid g fuel s sched.
Proof.
  induction sched as [|a rest IH]; intros s H; [exact I|]. cbn [seq_validb seq_valid] in *.
  apply andb_true_iff in H. destruct H as [H1 H2]. split; [apply seq_okb_sound; exact H1|apply IH; exact H2].
Qed.

Lemma example_sequential_is_valid : seq_valid g_ex 60 init sched_seq /\ path g_ex 4 4.
Proof.
  split; [apply seq_validb_sound; vm_compute; reflexivity|].
  apply pathS with (y := 5); [|apply path1]; unfold edge; cbn; left; reflexivity.
Qed.
