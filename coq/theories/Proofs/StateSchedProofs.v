(* Proofs about M-StateSched (C20): under the locking discipline every schedule is serialisable. *)
From Coq Require Import List ZArith Bool Lia Permutation PeanoNat.
Import ListNotations.
From WF Require Import Model.StateStore Model.StateSched Proofs.StateStoreProofs.
Local Open Scope nat_scope.

Lemma NoDup_snoc : forall (l : list nat) i, NoDup l -> ~ In i l -> NoDup (l ++ [i]).
Proof.
  induction l as [|x l IH]; intros i ND NI; cbn.
  - constructor; [intros []|constructor].
  - inversion ND; subst. constructor.
    + intro H. apply in_app_or in H. destruct H as [H|[H|[]]]; [contradiction|].
      subst. apply NI. left. reflexivity.
    + apply IH; [assumption|]. intro H. apply NI. right. exact H.
Qed.

Section Generic.
  Variables St Lo : Type.
  Variable tasks : nat -> task St Lo.
  Variable n : nat.
  Variable s0 : St.

  Notation sys := (sys St Lo).
  Notation step := (step St Lo tasks n).
  Notation serial := (serial St Lo tasks).
  Notation serial_run := (serial_run St Lo tasks).
  Notation run_segs := (run_segs St Lo).

  (* the discipline: a task either holds the lock around all of its segments, or it is a single
     atomic segment that does not write the shared state (a read) *)
  Definition ok_task (t : task St Lo) : Prop :=
    t_locked _ _ t = true \/
    (t_segs _ _ t = [] \/ exists a, t_segs _ _ t = [a] /\ forall s l, fst (a s l) = s).

  Hypothesis discipline : forall i, i < n -> ok_task (tasks i).

  Definition not_running (y : sys) (j : nat) : Prop := forall r l, ph _ _ y j <> Running r l.

  Record Inv (y : sys) : Prop := {
    inv_nodup : NoDup (order _ _ y);
    inv_fin : forall i, In i (order _ _ y) <-> ph _ _ y i = Finished;
    inv_lt : forall i, In i (order _ _ y) -> i < n;
    inv_out : forall j, n <= j -> ph _ _ y j = NotStarted;
    inv_lock :
      match holder _ _ y with
      | None => (forall j, not_running y j) /\ sh _ _ y = serial (order _ _ y) s0
      | Some h =>
          t_locked _ _ (tasks h) = true /\
          (exists done rest l,
              ph _ _ y h = Running rest l /\ done ++ rest = t_segs _ _ (tasks h) /\ rest <> [] /\
              run_segs done (serial (order _ _ y) s0, t_init _ _ (tasks h)) = (sh _ _ y, l)) /\
          (forall j, j <> h -> not_running y j)
      end
  }.

  Lemma serial_app : forall a b s, serial (a ++ b) s = serial b (serial a s).
  Proof. intros. unfold StateSched.serial. apply fold_left_app. Qed.

  Lemma serial_snoc : forall a i s, serial (a ++ [i]) s = serial_run i (serial a s).
  Proof. intros. rewrite serial_app. reflexivity. Qed.

  Lemma run_segs_app : forall a b sl, run_segs (a ++ b) sl = run_segs b (run_segs a sl).
  Proof. intros. unfold StateSched.run_segs. apply fold_left_app. Qed.

  Lemma set_ph_same : forall f i p, set_ph St Lo f i p i = p.
  Proof. intros. unfold set_ph. rewrite Nat.eqb_refl. reflexivity. Qed.

  Lemma set_ph_other : forall f i p j, j <> i -> set_ph St Lo f i p j = f j.
  Proof. intros f i p j H. unfold set_ph. apply Nat.eqb_neq in H. rewrite H. reflexivity. Qed.

  (* bookkeeping shared by every way of finishing task i *)
  Lemma finish_book : forall y i s,
    Inv y -> i < n -> ph _ _ y i <> Finished ->
    NoDup (order _ _ y ++ [i]) /\
    (forall k, In k (order _ _ y ++ [i]) <-> set_ph St Lo (ph _ _ y) i Finished k = Finished) /\
    (forall k, In k (order _ _ y ++ [i]) -> k < n) /\
    (forall j, n <= j -> set_ph St Lo (ph _ _ y) i Finished j = NotStarted) /\
    sh _ _ (finish St Lo tasks i s y) = s.
  Proof.
    intros y i s I Hi Hnf. destruct I as [ND FIN LT OUT _].
    assert (~ In i (order _ _ y)) as Hni by (intro H; apply FIN in H; contradiction).
    repeat split.
    - apply NoDup_snoc; assumption.
    - intro H. apply in_app_or in H. destruct H as [H|[H|[]]].
      + destruct (Nat.eq_dec k i) as [->|N]; [apply set_ph_same|].
        rewrite set_ph_other by exact N. apply FIN. exact H.
      + subst. apply set_ph_same.
    - intro H. destruct (Nat.eq_dec k i) as [->|N]; [apply in_or_app; right; left; reflexivity|].
      rewrite set_ph_other in H by exact N. apply in_or_app. left. apply FIN. exact H.
    - intros k H. apply in_app_or in H. destruct H as [H|[H|[]]]; [apply LT; exact H|subst; exact Hi].
    - intros j Hj. rewrite set_ph_other by lia. apply OUT. exact Hj.
  Qed.

  Lemma step_inv : forall y i, Inv y -> Inv (step y i).
  Proof.
    intros y i I. unfold StateSched.step.
    destruct (Nat.ltb i n) eqn:Hlt; [|exact I]. apply Nat.ltb_lt in Hlt.
    pose proof I as [ND FIN LT OUT LOCK].
    destruct (ph _ _ y i) as [|rest l|] eqn:Hph; [| |exact I].
    - (* the task starts *)
      assert (ph _ _ y i <> Finished) as Hnf by (rewrite Hph; discriminate).
      destruct (t_locked _ _ (tasks i)) eqn:Hlk.
      + (* locking *)
        destruct (holder _ _ y) as [h|] eqn:Hh; [exact I|].
        destruct LOCK as [NR SH].
        set (y1 := {| sh := sh _ _ y; holder := Some i; ph := ph _ _ y; order := order _ _ y |}).
        assert (Inv0 : forall s, s = serial_run i (serial (order _ _ y) s0) ->
                                 Inv (finish St Lo tasks i s y1)).
        { intros s Hs.
          destruct (finish_book y i s I Hlt Hnf) as [B1 [B2 [B3 [B4 _]]]].
          unfold finish, y1. constructor; cbn [sh holder ph order]; auto.
          rewrite Hlk. split.
          - intros j r l' H. cbn [sh holder ph order] in H. destruct (Nat.eq_dec j i) as [->|N].
            + rewrite set_ph_same in H. discriminate.
            + rewrite set_ph_other in H by exact N. eapply NR; eauto.
          - rewrite serial_snoc. exact Hs. }
        unfold advance. subst y1.
        destruct (t_segs _ _ (tasks i)) as [|a rest] eqn:Hsegs.
        * apply Inv0. unfold StateSched.serial_run. rewrite Hsegs. cbn. exact SH.
        * cbn [sh]. destruct (a (sh _ _ y) (t_init _ _ (tasks i))) as [s' l'] eqn:Ha.
          destruct rest as [|b rest'].
          -- apply Inv0. unfold StateSched.serial_run. rewrite Hsegs. cbn. rewrite <- SH, Ha. reflexivity.
          -- constructor; cbn [sh holder ph order]; auto.
             ++ intro k. rewrite FIN. destruct (Nat.eq_dec k i) as [->|N].
                ** rewrite set_ph_same, Hph. split; discriminate.
                ** rewrite set_ph_other by exact N. tauto.
             ++ intros j Hj. rewrite set_ph_other by lia. apply OUT. exact Hj.
             ++ split; [exact Hlk|]. split.
                ** exists [a], (b :: rest'), l'. rewrite set_ph_same. repeat split; try discriminate.
                   --- rewrite Hsegs. reflexivity.
                   --- cbn. rewrite <- SH, Ha. reflexivity.
                ** intros j N r l0 H. cbn [sh holder ph order] in H. rewrite set_ph_other in H by exact N. eapply NR; eauto.
      + (* not locking: a read *)
        destruct (discipline i Hlt) as [C|RO]; [congruence|].
        assert (RS : forall s, serial_run i s = s).
        { intro s. unfold StateSched.serial_run.
          destruct RO as [E|[a [E RO]]]; rewrite E; cbn; auto. }
        assert (Inv1 : Inv (finish St Lo tasks i (sh _ _ y) y)).
        { destruct (finish_book y i (sh _ _ y) I Hlt Hnf) as [B1 [B2 [B3 [B4 _]]]].
          unfold finish. constructor; cbn [sh holder ph order]; auto. rewrite Hlk.
          destruct (holder _ _ y) as [h|] eqn:Hh.
          - destruct LOCK as [LK [[done [rest [l [P1 [P2 [P3 P4]]]]]] NR]].
            assert (h <> i) as Nhi by (intro; subst; rewrite Hph in P1; discriminate).
            split; [exact LK|]. split.
            + exists done, rest, l. rewrite set_ph_other by exact Nhi.
              rewrite serial_snoc, RS. auto.
            + intros j N r l0 H. cbn [sh holder ph order] in H. destruct (Nat.eq_dec j i) as [->|N2].
              * rewrite set_ph_same in H. discriminate.
              * rewrite set_ph_other in H by exact N2. eapply NR; eauto.
          - destruct LOCK as [NR SH]. split.
            + intros j r l0 H. cbn [sh holder ph order] in H. destruct (Nat.eq_dec j i) as [->|N2].
              * rewrite set_ph_same in H. discriminate.
              * rewrite set_ph_other in H by exact N2. eapply NR; eauto.
            + rewrite serial_snoc, RS. exact SH. }
        unfold advance.
        destruct RO as [E|[a [E RO]]]; rewrite E; [exact Inv1|].
        destruct (a (sh _ _ y) (t_init _ _ (tasks i))) as [s' l'] eqn:Ha.
        assert (s' = sh _ _ y) as -> by (rewrite <- (RO (sh _ _ y) (t_init _ _ (tasks i))), Ha; reflexivity).
        exact Inv1.
    - (* a suspended task resumes: it is the lock holder *)
      assert (ph _ _ y i <> Finished) as Hnf by (rewrite Hph; discriminate).
      destruct (holder _ _ y) as [h|] eqn:Hh.
      2:{ destruct LOCK as [NR _]. exfalso. eapply NR; eauto. }
      destruct LOCK as [LK [[done [rest0 [l0 [P1 [P2 [P3 P4]]]]]] NR]].
      destruct (Nat.eq_dec i h) as [->|N]; [|exfalso; eapply (NR i N); eauto].
      rewrite Hph in P1. inversion P1; subst rest0 l0. clear P1.
      unfold advance. destruct rest as [|a rest']; [congruence|].
      destruct (a (sh _ _ y) l) as [s' l'] eqn:Ha.
      assert (RS : run_segs (done ++ [a]) (serial (order _ _ y) s0, t_init _ _ (tasks h)) = (s', l')).
      { rewrite run_segs_app, P4. cbn. exact Ha. }
      destruct rest' as [|b rest''].
      + (* last segment: release *)
        destruct (finish_book y h s' I Hlt Hnf) as [B1 [B2 [B3 [B4 _]]]].
        unfold finish. constructor; cbn [sh holder ph order]; auto. rewrite LK. split.
        * intros j r l1 H. cbn [sh holder ph order] in H. destruct (Nat.eq_dec j h) as [->|N2].
          -- rewrite set_ph_same in H. discriminate.
          -- rewrite set_ph_other in H by exact N2. eapply NR; eauto.
        * rewrite serial_snoc. unfold StateSched.serial_run. rewrite <- P2.
          change (run_segs (done ++ [a])) with (run_segs (done ++ [a])). rewrite RS. reflexivity.
      + constructor; cbn [sh holder ph order]; auto.
        * intro k. rewrite FIN. destruct (Nat.eq_dec k h) as [->|N2].
          -- rewrite set_ph_same, Hph. split; discriminate.
          -- rewrite set_ph_other by exact N2. tauto.
        * intros j Hj. rewrite set_ph_other by lia. apply OUT. exact Hj.
        * rewrite Hh. split; [exact LK|]. split.
          -- exists (done ++ [a]), (b :: rest''), l'. rewrite set_ph_same. repeat split; try discriminate.
             ++ rewrite <- app_assoc. exact P2.
             ++ exact RS.
          -- intros j N2 r l1 H. cbn [sh holder ph order] in H. rewrite set_ph_other in H by exact N2. eapply NR; eauto.
  Qed.

  Lemma init_inv : Inv (init St Lo s0).
  Proof.
    constructor; cbn.
    - constructor.
    - intro i. split; [contradiction|discriminate].
    - contradiction.
    - reflexivity.
    - split; [intros j r l H; discriminate|reflexivity].
  Qed.

  Lemma run_inv : forall sch, Inv (run_sched St Lo tasks n s0 sch).
  Proof.
    intro sch. unfold run_sched.
    assert (forall y, Inv y -> Inv (fold_left step sch y)) as G.
    { induction sch as [|i sch IH]; intros y I; cbn; [exact I|]. apply IH. apply step_inv. exact I. }
    apply G. apply init_inv.
  Qed.

  Lemma all_finished_spec : forall y k, all_finished St Lo y k = true -> forall i, i < k -> ph _ _ y i = Finished.
  Proof.
    intros y k. induction k as [|k IH]; intros H i Hi; [lia|]. cbn in H.
    destruct (ph _ _ y k) eqn:E; try discriminate.
    destruct (Nat.eq_dec i k) as [->|N]; [exact E|]. apply IH; [exact H|lia].
  Qed.

  (* whenever the lock is free, the shared state is the serial result of the finished tasks *)
  Theorem quiescent_serial : forall sch,
    let y := run_sched St Lo tasks n s0 sch in
    holder _ _ y = None -> sh _ _ y = serial (order _ _ y) s0.
  Proof.
    intros sch y H. destruct (run_inv sch) as [_ _ _ _ LOCK]. fold y in LOCK. rewrite H in LOCK. apply LOCK.
  Qed.

  (* every complete schedule ends in the result of SOME serial execution of all the tasks *)
  Theorem serialisable : forall sch,
    let y := run_sched St Lo tasks n s0 sch in
    all_finished St Lo y n = true ->
    exists ord, Permutation ord (seq 0 n) /\ sh _ _ y = serial ord s0.
  Proof.
    intros sch y AF. pose proof (run_inv sch) as I. fold y in I.
    pose proof (all_finished_spec y n AF) as FINALL.
    destruct I as [ND FIN LT OUT LOCK].
    exists (order _ _ y). split.
    - apply NoDup_Permutation; [exact ND|apply seq_NoDup|].
      intro x. rewrite in_seq. split.
      + intro H. apply LT in H. lia.
      + intros [_ H]. apply FIN. apply FINALL. cbn in H. exact H.
    - destruct (holder _ _ y) as [h|] eqn:Hh; [|apply LOCK].
      exfalso. destruct LOCK as [_ [[done [rest [l [P1 _]]]] _]].
      destruct (Nat.lt_ge_cases h n) as [Hl|Hg].
      + rewrite (FINALL h Hl) in P1. discriminate.
      + rewrite (OUT h Hg) in P1. discriminate.
  Qed.
End Generic.

(* ---------- the stores ---------- *)
Definition dflt_cop : cop := CGet [].

Lemma mem_edit_serial : forall parts s l,
  fst (run_segs sobj (option sobj)
         (map (fun es => fun (s : sobj) (l : option sobj) => (apply_edits s es, l)) parts) (s, l)) =
  fold_left apply_edits parts s.
Proof.
  induction parts as [|es parts IH]; intros s l; cbn; [reflexivity|]. apply IH.
Qed.

Lemma sql_edit_serial : forall parts s l, parts <> [] ->
  fst (run_segs sobj (option sobj) (sql_edit_segs parts) (s, l)) = fold_left apply_edits parts (local s l).
Proof.
  induction parts as [|es parts IH]; intros s l H; [congruence|].
  destruct parts as [|e2 r].
  - cbn. reflexivity.
  - change (sql_edit_segs (es :: e2 :: r))
      with ((fun (s : sobj) (l : option sobj) => (s, Some (apply_edits (local s l) es))) :: sql_edit_segs (e2 :: r)).
    cbn [run_segs fold_left fst snd]. unfold run_segs in IH. rewrite IH by discriminate. reflexivity.
Qed.

Lemma mem_task_serial : forall locks c s,
  fst (run_segs _ _ (t_segs _ _ (mem_task locks c)) (s, t_init _ _ (mem_task locks c))) = cop_serial c s.
Proof.
  intros locks c s. destruct c; try reflexivity.
  cbn [mem_task t_segs t_init cop_serial]. apply mem_edit_serial.
Qed.

Lemma sql_task_serial : forall locks c s,
  fst (run_segs _ _ (t_segs _ _ (sql_task locks c)) (s, t_init _ _ (sql_task locks c))) = cop_serial c s.
Proof.
  intros locks c s. destruct c; try reflexivity.
  cbn [sql_task t_segs t_init cop_serial].
  destruct parts as [|es r]; [reflexivity|]. rewrite sql_edit_serial by discriminate. reflexivity.
Qed.

Definition writes_locked (locks : list bool) : bool := lk locks 1 && lk locks 2 && lk locks 3.

Lemma task_ok : forall (mk : list bool -> cop -> T) locks,
  (forall c, t_locked _ _ (mk locks c) = match c with CGet _ => lk locks 0 | CSet _ _ => lk locks 1
                                                    | CSetState _ => lk locks 2 | CEdit _ => lk locks 3 end) ->
  (forall p, t_segs _ _ (mk locks (CGet p)) = [fun s l => (s, l)]) ->
  writes_locked locks = true -> forall c, ok_task _ _ (mk locks c).
Proof.
  intros mk locks HL HG W c. unfold writes_locked in W.
  apply andb_true_iff in W. destruct W as [W W3]. apply andb_true_iff in W. destruct W as [W1 W2].
  unfold ok_task. rewrite HL. destruct c; auto.
  right. right. eexists. split; [apply HG|]. reflexivity.
Qed.

Definition serial_ops (ops : list cop) (ord : list nat) (s : sobj) : sobj :=
  fold_left (fun s i => cop_serial (nth i ops dflt_cop) s) ord s.

Lemma serial_is_serial_ops : forall (mk : cop -> T) ops,
  (forall c s, fst (run_segs _ _ (t_segs _ _ (mk c)) (s, t_init _ _ (mk c))) = cop_serial c s) ->
  forall ord s, Forall (fun i => i < length ops) ord ->
  serial _ _ (task_table mk ops) ord s = serial_ops ops ord s.
Proof.
  intros mk ops H ord. induction ord as [|i ord IH]; intros s F; [reflexivity|].
  inversion F; subst.
  assert (E : serial_run _ _ (task_table mk ops) i s = cop_serial (nth i ops dflt_cop) s).
  { unfold serial_run, task_table.
    rewrite (nth_indep _ _ (mk dflt_cop)) by (rewrite map_length; assumption).
    rewrite map_nth. apply H. }
  change (serial _ _ (task_table mk ops) (i :: ord) s)
    with (serial _ _ (task_table mk ops) ord (serial_run _ _ (task_table mk ops) i s)).
  rewrite E.
  change (serial_ops ops (i :: ord) s) with (serial_ops ops ord (cop_serial (nth i ops dflt_cop) s)).
  apply IH. assumption.
Qed.

Theorem store_serialisable : forall (mk : list bool -> cop -> T) locks,
  (forall c, ok_task _ _ (mk locks c)) ->
  (forall c s, fst (run_segs _ _ (t_segs _ _ (mk locks c)) (s, t_init _ _ (mk locks c))) = cop_serial c s) ->
  forall ops s0 sch,
  let y := run_sched _ _ (task_table (mk locks) ops) (length ops) s0 sch in
  all_finished _ _ y (length ops) = true ->
  exists ord, Permutation ord (seq 0 (length ops)) /\ sh _ _ y = serial_ops ops ord s0.
Proof.
  intros mk locks OK SER ops s0 sch y AF.
  destruct (serialisable _ _ (task_table (mk locks) ops) (length ops) s0) with (sch := sch) as [ord [P E]].
  - intros i Hi. unfold task_table. rewrite (nth_indep _ _ (mk locks dflt_cop)) by (rewrite map_length; exact Hi).
    rewrite map_nth. apply OK.
  - exact AF.
  - exists ord. split; [exact P|]. fold y in E. rewrite E. apply serial_is_serial_ops; [apply SER|].
    apply Forall_forall. intros x Hx. apply (Permutation_in _ P) in Hx. apply in_seq in Hx. lia.
Qed.

Theorem memory_serialisable : forall locks, writes_locked locks = true ->
  forall ops s0 sch,
  let y := run_sched _ _ (task_table (mem_task locks) ops) (length ops) s0 sch in
  all_finished _ _ y (length ops) = true ->
  exists ord, Permutation ord (seq 0 (length ops)) /\ sh _ _ y = serial_ops ops ord s0.
Proof.
  intros locks W. apply (store_serialisable mem_task locks).
  - apply task_ok; auto. intros []; reflexivity.
  - apply mem_task_serial.
Qed.

Theorem sqlite_serialisable : forall locks, writes_locked locks = true ->
  forall ops s0 sch,
  let y := run_sched _ _ (task_table (sql_task locks) ops) (length ops) s0 sch in
  all_finished _ _ y (length ops) = true ->
  exists ord, Permutation ord (seq 0 (length ops)) /\ sh _ _ y = serial_ops ops ord s0.
Proof.
  intros locks W. apply (store_serialisable sql_task locks).
  - apply task_ok; auto. intros []; reflexivity.
  - apply sql_task_serial.
Qed.

(* ---------- what the SQLite store did before set_state took the lock ---------- *)
Definition lost_ops : list cop :=
  [CEdit [[EPut [97%Z] (VInt 1%Z)]; [EPut [98%Z] (VInt 2%Z)]];
   CSetState {| o_cls := dict_cls; o_items := [([99%Z], VInt 3%Z)] |}].
Definition lost_s0 : sobj := {| o_cls := dict_cls; o_items := [] |}.

Theorem sqlite_unlocked_set_state_refuted :
  let y := run_sched _ _ (task_table (sql_task [false; true; false; true]) lost_ops) 2 lost_s0 [0; 1; 0]%nat in
  all_finished _ _ y 2 = true /\
  forall ord, Permutation ord (seq 0 2) -> sh _ _ y <> serial_ops lost_ops ord lost_s0.
Proof.
  split; [reflexivity|].
  intros ord P.
  assert (ord = [0; 1]%nat \/ ord = [1; 0]%nat) as [-> | ->].
  { apply Permutation_sym in P. apply Permutation_length_2_inv in P. cbn in P. tauto. }
  - vm_compute. intro H. discriminate H.
  - vm_compute. intro H. discriminate H.
Qed.
