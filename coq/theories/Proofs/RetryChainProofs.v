(* C05 / C06: the retry chain (Model/RetryChain.v) — attempt counts, retry numbers, reported
   attempts/elapsed, and when each retry starts. *)
From Coq Require Import List ZArith QArith Qminmax Bool Lia.
Import ListNotations.
From WF Require Import Model.Retry Model.RetryChain.
Open Scope Z_scope.

Section Chain.
Variable upred : Z -> exn -> bool.
Variable rng : option Z -> Q.
Variable seedof : Z -> option Z.

Notation chain_ p first := (chain upred rng seedof p first).

Fixpoint zseq (a : Z) (n : nat) : list Z := match n with O => [] | S k => a :: zseq (a + 1) k end.

Lemma chain_head p first xs att prev start l e :
  chain_ p first att prev start xs = (l, e) ->
  exists l', l = {| e_retry_no := att; e_prev := prev; e_start := start |} :: l'.
Proof.
  destruct xs as [|x rest]; cbn [chain]; intros H.
  - inversion H; subst. eexists; reflexivity.
  - destruct (next _ _ _ _ _ _ _) as [d|].
    + destruct (chain_ p first (att + 1) (Some x) (start + Qmax 0 d)%Q rest) as [l' e'].
      inversion H; subst. eexists; reflexivity.
    + inversion H; subst. eexists; reflexivity.
Qed.

(* retry numbers are att, att+1, att+2, ... *)
Lemma chain_retry_numbers p first : forall xs att prev start l e,
  chain_ p first att prev start xs = (l, e) -> map e_retry_no l = zseq att (length l).
Proof.
  induction xs as [|x rest IH]; intros att prev start l e H; cbn [chain] in H.
  - inversion H; subst. reflexivity.
  - destruct (next _ _ _ _ _ _ _) as [d|].
    + destruct (chain_ p first (att + 1) (Some x) (start + Qmax 0 d)%Q rest) as [l' e'] eqn:C.
      inversion H; subst. cbn [map length zseq e_retry_no]. f_equal. eapply IH. exact C.
    + inversion H; subst. reflexivity.
Qed.

(* each execution sees the exception of the execution before it *)
Lemma chain_prev_exceptions p first : forall xs att prev start l e,
  chain_ p first att prev start xs = (l, e) ->
  map e_prev l = prev :: map Some (firstn (length l - 1) xs).
Proof.
  induction xs as [|x rest IH]; intros att prev start l e H; cbn [chain] in H.
  - inversion H; subst. reflexivity.
  - destruct (next _ _ _ _ _ _ _) as [d|].
    + destruct (chain_ p first (att + 1) (Some x) (start + Qmax 0 d)%Q rest) as [l' e'] eqn:C.
      inversion H; subst. cbn [map length e_prev]. f_equal.
      specialize (IH _ _ _ _ _ C). rewrite IH.
      assert (length l' <> 0)%nat as NZ.
      { destruct (chain_head _ _ _ _ _ _ _ _ C) as [l2 ->]. discriminate. }
      replace (S (length l') - 1)%nat with (S (length l' - 1)) by lia. reflexivity.
    + inversion H; subst. reflexivity.
Qed.

(* what an exhausted chain reports: attempts = number of executions, elapsed = failure time of the
   last execution minus first_attempt_at, exception = the last one raised *)
Lemma chain_report p first : forall xs att prev start l a el x,
  chain_ p first att prev start xs = (l, CStopped a el x) ->
  a = att + Z.of_nat (length l) /\
  exists pre last, l = pre ++ [last] /\ el = (e_start last - first)%Q /\
                   nth_error xs (length l - 1) = Some x.
Proof.
  induction xs as [|x0 rest IH]; intros att prev start l a el x H; cbn [chain] in H.
  - inversion H.
  - destruct (next _ _ _ _ _ _ _) as [d|].
    + destruct (chain_ p first (att + 1) (Some x0) (start + Qmax 0 d)%Q rest) as [l' e'] eqn:C.
      inversion H; subst. destruct (IH _ _ _ _ _ _ _ C) as [A [pre [last [L [E N]]]]].
      split; [cbn [length]; lia|].
      exists ({| e_retry_no := att; e_prev := prev; e_start := start |} :: pre), last.
      split; [rewrite L; reflexivity|]. split; [exact E|].
      assert (length l' <> 0)%nat as NZ by (rewrite L, app_length; cbn; lia).
      cbn [length]. replace (S (length l') - 1)%nat with (S (length l' - 1)) by lia. exact N.
    + inversion H; subst. split; [cbn; lia|].
      exists [], {| e_retry_no := att; e_prev := prev; e_start := start |}. repeat split.
Qed.

(* consecutive executions: the next one starts exactly max(0, delay) after the failure, where delay is
   what policy.next returned for (elapsed, failures) of the failed one *)
Inductive spaced (p : policy) (first : Q) : list exn -> list exec -> Prop :=
| sp_one xs e : spaced p first xs [e]
| sp_cons x xs e1 e2 l d :
    next upred rng p (e_start e1 - first)%Q (e_retry_no e1 + 1) x (seedof (e_retry_no e1 + 1)) = Some d ->
    e_start e2 = (e_start e1 + Qmax 0 d)%Q ->
    spaced p first xs (e2 :: l) -> spaced p first (x :: xs) (e1 :: e2 :: l).

Lemma chain_spaced p first : forall xs att prev start l e,
  chain_ p first att prev start xs = (l, e) -> spaced p first xs l.
Proof.
  induction xs as [|x rest IH]; intros att prev start l e H; cbn [chain] in H.
  - inversion H; subst. constructor.
  - destruct (next _ _ _ _ _ _ _) as [d|] eqn:N.
    + destruct (chain_ p first (att + 1) (Some x) (start + Qmax 0 d)%Q rest) as [l' e'] eqn:C.
      inversion H; subst. pose proof (IH _ _ _ _ _ C) as S.
      destruct (chain_head _ _ _ _ _ _ _ _ C) as [l2 ->].
      eapply sp_cons with (d := d); [exact N|reflexivity|exact S].
    + inversion H; subst. constructor.
Qed.

(* ---------- stop_after_attempt(n): exactly max(n,1) executions ---------- *)
Definition retries_always (p : policy) : Prop :=
  forall x, match p_retry p with None => true | Some c => rcond_eval upred c x end = true.

Lemma next_after_attempt p n elapsed failures x s :
  retries_always p -> p_stop p = SAfterAttempt n ->
  next upred rng p elapsed failures x s =
  if Z.leb n failures then None else Some (wait_eval rng s (p_wait p) failures).
Proof.
  intros RA St. unfold next. specialize (RA x). rewrite RA. cbn [negb]. rewrite St. cbn [stop_eval].
  reflexivity.
Qed.

Theorem stop_after_attempt_exact p first n : retries_always p -> p_stop p = SAfterAttempt n ->
  forall xs att prev start,
  (Z.to_nat (Z.max n (att + 1) - att) <= length xs)%nat ->
  exists l el x, chain_ p first att prev start xs = (l, CStopped (Z.max n (att + 1)) el x) /\
                 length l = Z.to_nat (Z.max n (att + 1) - att).
Proof.
  intros RA St. induction xs as [|x rest IH]; intros att prev start Hlen.
  - cbn [length] in Hlen. lia.
  - cbn [chain]. rewrite (next_after_attempt _ _ _ _ _ _ RA St).
    destruct (Z.leb n (att + 1)) eqn:E.
    + apply Z.leb_le in E. replace (Z.max n (att + 1)) with (att + 1) by lia.
      eexists. eexists. eexists. split; [reflexivity|]. cbn [length]. lia.
    + apply Z.leb_gt in E.
      destruct (IH (att + 1) (Some x) (start + Qmax 0 (wait_eval rng (seedof (att + 1)) (p_wait p) (att + 1)))%Q)
        as [l [el [x' [C L]]]].
      { cbn [length] in Hlen. lia. }
      rewrite C. replace (Z.max n (att + 1 + 1)) with (Z.max n (att + 1)) by lia.
      eexists. eexists. eexists. split; [reflexivity|]. cbn [length]. rewrite L. lia.
Qed.

(* a non-retryable error: exactly one execution, reported as one attempt *)
Theorem non_retryable_once p first x rest att prev start c :
  p_retry p = Some c -> rcond_eval upred c x = false ->
  chain_ p first att prev start (x :: rest) =
    ([{| e_retry_no := att; e_prev := prev; e_start := start |}], CStopped (att + 1) (start - first)%Q x).
Proof.
  intros R F. cbn [chain]. unfold next. rewrite R, F. reflexivity.
Qed.

(* stop_after_delay(d): a failure is retried iff less than d seconds have elapsed since the first attempt *)
Theorem stop_after_delay_iff p d elapsed failures x s :
  retries_always p -> p_stop p = SAfterDelay d ->
  (next upred rng p elapsed failures x s = None <-> (d <= elapsed)%Q).
Proof.
  intros RA St. unfold next. specialize (RA x). rewrite RA. cbn [negb]. rewrite St. cbn [stop_eval].
  destruct (Qle_bool d elapsed) eqn:E.
  - split; [intros _; apply Qle_bool_iff; exact E|reflexivity].
  - split; [discriminate|]. intros H. apply Qle_bool_iff in H. congruence.
Qed.

(* the delay of every retry is the wait strategy evaluated at the FAILURE COUNT (1 for the first retry) *)
Theorem retry_delay_is_wait_of_failures p elapsed failures x s d :
  next upred rng p elapsed failures x s = Some d -> d = wait_eval rng s (p_wait p) failures.
Proof.
  unfold next. destruct (negb _); [discriminate|]. destruct (stop_eval _ _ _ _); [discriminate|].
  intros H; inversion H; reflexivity.
Qed.
End Chain.
