(* C03 at the runner level (Model/Runner.v): whenever WorkflowIdleEvent is published, no retry is
   waiting out its delay — for every schedule of worker completions, deliveries and time steps.
   The ghost field `idlelog` records, at each publication, (retry scheduled?, #delivered-but-unpulled ticks). *)
From Coq Require Import List ZArith Bool PeanoNat Lia.
Import ListNotations.
From WF Require Import Model.Engine Model.Runner Proofs.EngineCap Proofs.EngineStall.
Open Scope Z_scope.

Lemma pi_app a b : publishes_idle (a ++ b) = publishes_idle a || publishes_idle b.
Proof. unfold publishes_idle. apply existsb_app. Qed.

Lemma aoe_no_pi step a w now w' cs : add_or_enqueue step a w now = Ok (w', cs) -> publishes_idle cs = false.
Proof. exact (aoe_no_idle step a w now w' cs). Qed.
Lemma drain_no_pi step fuel w now w' cs : drain step w now fuel = Ok (w', cs) -> publishes_idle cs = false.
Proof. exact (drain_no_idle step fuel w now w' cs). Qed.

Lemma waiter_pass_no_idle step e : forall todo done w now acc hit w' cs h,
  waiter_pass step e done todo w now acc hit = Ok (w', cs, h) -> publishes_idle cs = publishes_idle acc.
Proof.
  induction todo as [|wt rest IH]; intros done w now acc hit w' cs h H; cbn [waiter_pass] in H.
  - inversion H; reflexivity.
  - destruct (negb (w_pending wt) && waiter_matches e wt).
    + destruct (add_or_enqueue _ _ _ _) as [[w2 c2]|] eqn:A; [|discriminate].
      apply IH in H. rewrite H, pi_app, (aoe_no_pi _ _ _ _ _ _ A), orb_false_r. reflexivity.
    + apply IH in H. exact H.
Qed.

Lemma add_waiters_no_idle e target : forall ws now ws' cs hits,
  add_waiters e target ws now = Ok (ws', cs, hits) -> publishes_idle cs = false.
Proof.
  induction ws as [|[n w] t IH]; intros now ws' cs hits H; cbn [add_waiters] in H.
  - inversion H; reflexivity.
  - destruct (if target_ok target n then _ else _) as [[[w1 c1] h1]|] eqn:W; [|discriminate].
    destruct (add_waiters e target t now) as [[[t' c'] hs]|] eqn:R; [|discriminate].
    inversion H; subst. rewrite pi_app, (IH _ _ _ _ R), orb_false_r.
    destruct (target_ok target n).
    + rewrite (waiter_pass_no_idle _ _ _ _ _ _ _ _ _ _ _ W). reflexivity.
    + inversion W; reflexivity.
Qed.

Lemma add_routes_no_idle a target skip : forall ws now ws' cs h,
  add_routes a target skip ws now = Ok (ws', cs, h) -> publishes_idle cs = false.
Proof.
  induction ws as [|[n w] t IH]; intros now ws' cs h H; cbn [add_routes] in H.
  - inversion H; reflexivity.
  - set (take := negb (zmem n skip) && zmem (ety (a_ev a)) (accepts (w_cfg w)) && target_ok target n) in *.
    destruct (if take then add_or_enqueue n a w now else Ok (w, [])) as [[w1 c1]|] eqn:W; [|discriminate].
    destruct (add_routes a target skip t now) as [[[t' c'] h']|] eqn:R; [|discriminate].
    inversion H; subst. rewrite pi_app, (IH _ _ _ _ R), orb_false_r.
    destruct take.
    + apply (aoe_no_pi _ _ _ _ _ _ W).
    + inversion W; reflexivity.
Qed.

Lemma process_add_no_idle a target s now s' cs :
  process_add a target s now = Ok (s', cs) -> publishes_idle cs = false.
Proof.
  unfold process_add. intros H.
  destruct (add_waiters _ _ _ _) as [[[ws1 cs1] hits]|] eqn:W; [|discriminate].
  destruct (add_routes _ _ _ _ _) as [[[ws2 cs2] routed]|] eqn:R; [|discriminate].
  inversion H; subst; clear H.
  rewrite !pi_app, (add_waiters_no_idle _ _ _ _ _ _ _ W), (add_routes_no_idle _ _ _ _ _ _ _ _ R).
  repeat match goal with |- context [if ?b then _ else _] => destruct b end; reflexivity.
Qed.

Lemma one_result_no_idle P step tev dc now a r a' :
  one_result P step tev dc now a r = Ok a' -> publishes_idle (k_cmds a') = publishes_idle (k_cmds a).
Proof.
  intros H. unfold one_result in H.
  break_match H; try discriminate; inversion H; subst; clear H; cbn [k_cmds]; try reflexivity;
    rewrite ?pi_app; cbn; rewrite ?orb_false_r; reflexivity.
Qed.

Lemma results_loop_no_idle P step tev dc now : forall rs a a',
  results_loop P step tev dc now a rs = Ok a' -> publishes_idle (k_cmds a') = publishes_idle (k_cmds a).
Proof.
  induction rs as [|r t IH]; intros a a' H; cbn [results_loop] in H.
  - inversion H; reflexivity.
  - destruct (one_result P step tev dc now a r) as [a1|] eqn:O; [|discriminate].
    rewrite (IH _ _ H). eapply one_result_no_idle; exact O.
Qed.

Lemma process_step_no_idle P step wid tev rs s now s' cs :
  process_step P step wid tev rs s now = Ok (s', cs) -> publishes_idle cs = false.
Proof.
  unfold process_step. intros H.
  destruct (zlookup step (workers s)) as [w|]; [|discriminate].
  destruct (find_ip wid (inprogress w)) as [this|]; [|discriminate].
  destruct (results_loop _ _ _ _ _ _ _) as [a|] eqn:RL; [|discriminate].
  apply results_loop_no_idle in RL. cbn [k_cmds] in RL.
  destruct (k_keep a); destruct (existsb is_exit (k_cmds a)).
  - inversion H; subst. exact RL.
  - destruct (drain _ _ _ _) as [[w3 c3]|] eqn:D; [|discriminate]. inversion H; subst.
    rewrite pi_app, RL, (drain_no_pi _ _ _ _ _ _ D). reflexivity.
  - inversion H; subst. change (publishes_idle (k_cmds a) = false). exact RL.
  - destruct (drain _ _ _ _) as [[w3 c3]|] eqn:D; [|discriminate]. inversion H; subst.
    change (publishes_idle (k_cmds a ++ c3) = false).
    rewrite pi_app, RL, (drain_no_pi _ _ _ _ _ _ D). reflexivity.
Qed.

Lemma process_waiter_timeout_no_idle step wid s now s' cs :
  process_waiter_timeout step wid s now = Ok (s', cs) -> publishes_idle cs = false.
Proof.
  unfold process_waiter_timeout. intros H.
  destruct (zlookup step (workers s)) as [w|]; [|inversion H; reflexivity].
  destruct (find_waiter_idx _ _ _); [|inversion H; reflexivity].
  destruct (nth_error _ _) as [wt|]; [|inversion H; reflexivity].
  destruct (w_resolved wt); [inversion H; reflexivity|].
  destruct (add_or_enqueue _ _ _ _) as [[w2 c2]|] eqn:A; [|discriminate].
  inversion H; subst. apply (aoe_no_pi _ _ _ _ _ _ A).
Qed.

Lemma pi_snoc_idle cs (b : bool) : publishes_idle (if b then cs ++ [CSchedIdle] else cs) = publishes_idle cs.
Proof. destruct b; [|reflexivity]. rewrite pi_app. cbn. apply orb_false_r. Qed.

(* WorkflowIdleEvent is published by no tick other than the idle check *)
Theorem only_idle_check_publishes_idle P t s now s' cs :
  t <> TIdleCheck -> reduce P t s now = Ok (s', cs) -> publishes_idle cs = false.
Proof.
  intros Hne H. unfold reduce in H. destruct t; try congruence.
  - destruct (process_add _ _ _ _) as [[s1 c1]|] eqn:E; [|discriminate].
    inversion H; subst. rewrite pi_snoc_idle. eapply process_add_no_idle; exact E.
  - destruct (process_step _ _ _ _ _ _ _) as [[s1 c1]|] eqn:E; [|discriminate].
    inversion H; subst. rewrite pi_snoc_idle. eapply process_step_no_idle; exact E.
  - inversion H; subst. destruct (check_idle s'); reflexivity.
  - inversion H; subst. destruct (check_idle s'); reflexivity.
  - inversion H; subst. cbn. destruct (check_idle _); reflexivity.
  - destruct (process_waiter_timeout _ _ _ _) as [[s1 c1]|] eqn:E; [|discriminate].
    inversion H; subst. rewrite pi_snoc_idle. eapply process_waiter_timeout_no_idle; exact E.
  - inversion H; subst. reflexivity.
Qed.

(* ---------- the runner invariant ---------- *)
Definition Idle_ok (r : rstate) : Prop := Forall (fun e => fst e = false) (idlelog r).

Lemma do_command_idlelog r c : idlelog (do_command r c) = idlelog r.
Proof.
  unfold do_command. destruct (outcome r); try reflexivity.
  destruct c; cbn; try reflexivity.
  - destruct delay as [d|]; [destruct (Z.ltb 0 d)|]; reflexivity.
  - destruct k; reflexivity.
  - destruct (idle_pending r); reflexivity.
Qed.

Lemma do_commands_idlelog cs : forall r, idlelog (fold_left do_command cs r) = idlelog r.
Proof.
  induction cs as [|c t IH]; intro r; cbn [fold_left]; [reflexivity|].
  rewrite IH. apply do_command_idlelog.
Qed.

Lemma drain_ticks_idle_ok P fuel : forall r, Idle_ok r -> Idle_ok (drain_ticks P r fuel).
Proof.
  induction fuel as [|f IH]; intros r Hi; cbn [drain_ticks].
  - destruct (outcome r); try exact Hi. destruct (tbuf r); exact Hi.
  - destruct (outcome r) eqn:O; try exact Hi.
    destruct (tbuf r) as [|t rest] eqn:TB; [exact Hi|].
    set (r0 := upd r (st r) rest (wakeups r) (wseq r) _ (pending r) (published r) ORunning).
    assert (Idle_ok r0) as H0 by exact Hi.
    destruct ((match t with TIdleCheck => true | _ => false end) && has_retry_wakeup (wakeups r)) eqn:SK.
    + apply IH. exact H0.
    + destruct (reduce P t (st r0) (clock r0)) as [[s' cs]|] eqn:R; [|exact H0].
      apply IH. unfold Idle_ok. rewrite do_commands_idlelog.
      unfold log_idle. destruct (publishes_idle cs) eqn:PI; [|exact H0].
      cbn [idlelog log_tick upd wakeups]. apply Forall_app. split; [exact H0|].
      constructor; [|constructor]. cbn [fst].
      destruct t; try (assert (publishes_idle cs = false) as X
                         by (eapply only_idle_check_publishes_idle; [|exact R]; discriminate); congruence).
      cbn in SK. exact SK.
Qed.

Lemma set_wait_idle_ok r a b c d e : Idle_ok r -> Idle_ok (set_wait r a b c d e).
Proof. intros H; exact H. Qed.

Lemma wait_step_idle_ok r k r' : Idle_ok r -> wait_step r k = Some r' -> Idle_ok r'.
Proof.
  unfold wait_step. intros Hi H.
  destruct (nth_error (donew r) k) as [[[[s w] e] rs]|].
  - destruct (has_stop _ _); inversion H; subst; exact Hi.
  - destruct (donew r); [|discriminate].
    destruct (mailbox r); [|inversion H; subst; exact Hi].
    destruct (due (clock r) (wakeups r)) as [d rest].
    destruct d.
    + destruct (pending r); [discriminate|inversion H; subst; exact Hi].
    + inversion H; subst; exact Hi.
Qed.

Lemma run_until_blocked_idle_ok P fuel : forall r, Idle_ok r -> Idle_ok (run_until_blocked P r fuel).
Proof.
  induction fuel as [|f IH]; intros r Hi; cbn [run_until_blocked].
  - destruct (outcome r); exact Hi.
  - pose proof (drain_ticks_idle_ok P tick_fuel r Hi) as H1.
    destruct (outcome (drain_ticks P r tick_fuel)); try exact H1.
    destruct (wait_step _ 0) as [r2|] eqn:W; [|exact H1].
    apply IH. eapply wait_step_idle_ok; eassumption.
Qed.

Lemma act_idle_ok P r a : Idle_ok r -> Idle_ok (act P r a).
Proof.
  intros Hi. unfold act. destruct (outcome r); try exact Hi.
  apply run_until_blocked_idle_ok.
  destruct a; [destruct (take_worker _ _ _) as [[e run']|]|..]; exact Hi.
Qed.

(* for every start state, start event, policy and every schedule of environment actions *)
Theorem idle_never_with_pending_retry P s e acts : Idle_ok (run P s e acts).
Proof.
  unfold run.
  assert (forall r, Idle_ok r -> Idle_ok (fold_left (act P) acts r)) as F.
  { induction acts as [|a t IH]; intros r Hi; cbn [fold_left]; [exact Hi|]. apply IH. apply act_idle_ok. exact Hi. }
  apply F. apply run_until_blocked_idle_ok. constructor.
Qed.
