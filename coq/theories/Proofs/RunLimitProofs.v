(* Proofs/RunLimitProofs.v — C30: invariants of Model/RunLimit.v over all schedules. *)
From Coq Require Import List ZArith Bool Lia.
Import ListNotations.
From WF Require Import Base.SchedRes Model.RunLimit.
Open Scope Z_scope.

(* ---------------------------------------------------------------------------------------- *)
(* waiter deque                                                                              *)

Lemma n_woken_cons : forall r f t, n_woken ((r, f) :: t) = ((if fut_is_woken f then 1 else 0) + n_woken t)%nat.
Proof. intros. apply acount_cons. Qed.

Lemma n_pending_cons : forall r f t, n_pending ((r, f) :: t) = ((if fut_is_pending f then 1 else 0) + n_pending t)%nat.
Proof. intros. apply acount_cons. Qed.

Lemma wake_first_spec : forall ws ws', wake_first ws = Some ws' ->
  n_woken ws' = S (n_woken ws) /\ n_pending ws = S (n_pending ws') /\ akeys ws' = akeys ws.
Proof.
  induction ws as [|[r f] t IH]; intros ws' H; cbn in H; [discriminate|].
  destruct f.
  - inversion H; subst. rewrite !n_woken_cons, !n_pending_cons. cbn. auto.
  - destruct (wake_first t) as [t'|] eqn:E; [|discriminate]. inversion H; subst.
    destruct (IH t' eq_refl) as (A & B & C).
    rewrite !n_woken_cons, !n_pending_cons. cbn [fut_is_woken fut_is_pending akeys map fst].
    unfold akeys in C. rewrite C. repeat split; lia.
  - destruct (wake_first t) as [t'|] eqn:E; [|discriminate]. inversion H; subst.
    destruct (IH t' eq_refl) as (A & B & C).
    rewrite !n_woken_cons, !n_pending_cons. cbn [fut_is_woken fut_is_pending akeys map fst].
    unfold akeys in C. rewrite C. repeat split; lia.
Qed.

Lemma wake_first_none : forall ws, wake_first ws = None -> n_pending ws = 0%nat.
Proof.
  induction ws as [|[r f] t IH]; intros H; [reflexivity|]. cbn in H.
  destruct f; [discriminate| |]; destruct (wake_first t); try discriminate;
    rewrite n_pending_cons; cbn; apply IH; reflexivity.
Qed.

Lemma w_remove_notin : forall r ws, ~ In r (akeys ws) -> w_remove r ws = ws.
Proof.
  induction ws as [|[r' f] t IH]; cbn; intros H; [reflexivity|].
  destruct (r' =? r) eqn:E; [apply Z.eqb_eq in E; exfalso; apply H; left; exact E|].
  f_equal. apply IH. tauto.
Qed.

Lemma w_remove_counts : forall r f ws, alookup r ws = Some f ->
  (n_woken (w_remove r ws) + (if fut_is_woken f then 1 else 0) = n_woken ws)%nat /\
  (n_pending (w_remove r ws) + (if fut_is_pending f then 1 else 0) = n_pending ws)%nat.
Proof.
  induction ws as [|[r' f'] t IH]; cbn [alookup w_remove]; intros H; [discriminate|].
  destruct (r' =? r) eqn:E.
  - inversion H; subst. rewrite n_woken_cons, n_pending_cons. lia.
  - destruct (IH H) as (A & B). rewrite !n_woken_cons, !n_pending_cons. lia.
Qed.

Lemma w_remove_keys_incl : forall r x ws, In x (akeys (w_remove r ws)) -> In x (akeys ws).
Proof.
  induction ws as [|[r' f] t IH]; cbn; [tauto|].
  destruct (r' =? r); cbn; [tauto|]. intros [H|H]; [left; exact H|right; apply IH; exact H].
Qed.

Lemma w_remove_keys_other : forall r x ws, x <> r -> In x (akeys ws) -> In x (akeys (w_remove r ws)).
Proof.
  induction ws as [|[r' f] t IH]; cbn; [tauto|]. intros Hne [H|H].
  - subst r'. destruct (x =? r) eqn:E; [apply Z.eqb_eq in E; contradiction|]. left. reflexivity.
  - destruct (r' =? r); [exact H|]. right. apply IH; assumption.
Qed.

Lemma w_remove_nodup : forall r ws, NoDup (akeys ws) -> NoDup (akeys (w_remove r ws)) /\ ~ In r (akeys (w_remove r ws)).
Proof.
  induction ws as [|[r' f] t IH]; cbn; intros H.
  - split; [constructor|tauto].
  - inversion H as [|? ? Hni Hnd]; subst. destruct (r' =? r) eqn:E.
    + apply Z.eqb_eq in E. subst r'. split; assumption.
    + apply Z.eqb_neq in E. destruct (IH Hnd) as (A & B). cbn. split.
      * constructor; [|exact A]. intros Hin. apply Hni. eapply w_remove_keys_incl. exact Hin.
      * intros [Hin|Hin]; [contradiction|]. apply B. exact Hin.
Qed.

Lemma w_cancel_spec : forall r ws, alookup r ws = Some FPending ->
  n_woken (w_cancel r ws) = n_woken ws /\ n_pending ws = S (n_pending (w_cancel r ws)) /\
  akeys (w_cancel r ws) = akeys ws.
Proof.
  induction ws as [|[r' f] t IH]; cbn [alookup w_cancel]; intros H; [discriminate|].
  destruct (r' =? r) eqn:E.
  - inversion H; subst. rewrite !n_woken_cons, !n_pending_cons. cbn. auto.
  - destruct (IH H) as (A & B & C). rewrite !n_woken_cons, !n_pending_cons.
    cbn [akeys map fst]. unfold akeys in C. rewrite C. repeat split; lia.
Qed.

Lemma n_woken_snoc : forall ws r, n_woken (ws ++ [(r, FPending)]) = n_woken ws.
Proof. intros. unfold n_woken. rewrite acount_app. unfold acount at 2. cbn. lia. Qed.

Lemma n_pending_snoc : forall ws r, n_pending (ws ++ [(r, FPending)]) = S (n_pending ws).
Proof. intros. unfold n_pending. rewrite acount_app. unfold acount at 2. cbn. lia. Qed.

Lemma noncancelled_exists : forall ws,
  existsb (fun w => negb (fut_is_cancelled (snd w))) ws = true -> (0 < n_pending ws \/ 0 < n_woken ws)%nat.
Proof.
  induction ws as [|[r f] t IH]; cbn [existsb snd]; [discriminate|].
  rewrite n_pending_cons, n_woken_cons. destruct f; cbn [fut_is_cancelled fut_is_pending fut_is_woken negb orb]; try lia.
  intros H. destruct (IH H); lia.
Qed.

Lemma all_cancelled_counts : forall ws,
  existsb (fun w => negb (fut_is_cancelled (snd w))) ws = false -> n_pending ws = 0%nat /\ n_woken ws = 0%nat.
Proof.
  induction ws as [|[r f] t IH]; cbn [existsb snd]; [auto|].
  rewrite n_pending_cons, n_woken_cons.
  destruct f; cbn [fut_is_cancelled fut_is_pending fut_is_woken negb orb]; try discriminate. exact IH.
Qed.

Lemma alookup_in_keys : forall (r : Z) (f : futst) ws, alookup r ws = Some f -> In r (akeys ws).
Proof.
  intros r f ws H. destruct (in_dec Z.eq_dec r (akeys ws)) as [i|n]; [exact i|].
  apply alookup_None_notin in n. congruence.
Qed.

(* ---------------------------------------------------------------------------------------- *)
(* run table                                                                                 *)

Definition is_holder (w : Z) (ru : run) : bool := (r_wf ru =? w) && pc_holding (r_pc ru).
Definition is_exec (w : Z) (ru : run) : bool := (r_wf ru =? w) && pc_executing (r_pc ru).

Lemma holders_unfold : forall w s, holders w s = acount (is_holder w) (runs s).
Proof. reflexivity. Qed.

Lemma executing_le_holders : forall w s, (executing w s <= holders w s)%nat.
Proof.
  intros w s. unfold executing, holders. induction (runs s) as [|[k ru] t IH]; [unfold acount; cbn; lia|].
  rewrite !acount_cons. destruct (r_wf ru =? w); cbn; [|exact IH].
  destruct (r_pc ru) as [| |[|a]|]; cbn; lia.
Qed.

Lemma refs_false_count : forall w rs, refs w rs = false <-> acount (run_refs w) rs = 0%nat.
Proof.
  intros w rs. unfold refs. induction rs as [|[k ru] t IH]; cbn; [tauto|].
  rewrite acount_cons. destruct (run_refs w ru); cbn; [split; [discriminate|lia]|exact IH].
Qed.

Lemma holder_refs : forall w ru, is_holder w ru = true -> run_refs w ru = true.
Proof.
  intros w ru. unfold is_holder, run_refs. destruct (r_wf ru =? w); cbn; [|discriminate].
  intros ->. apply orb_true_r.
Qed.

Lemma count_le_refs : forall w rs, (acount (is_holder w) rs <= acount (run_refs w) rs)%nat.
Proof.
  induction rs as [|[k ru] t IH]; [unfold acount; cbn; lia|]. rewrite !acount_cons.
  destruct (is_holder w ru) eqn:E; [rewrite (holder_refs _ _ E); lia|destruct (run_refs w ru); lia].
Qed.

Section Inv.
  Variable limit : Z -> option Z.

  Definition semv (n : Z) (s : st) (w : Z) : sem :=
    match alookup w (sems s) with Some x => x | None => fresh_sem n end.

  Definition waiting_run (w r : Z) (s : st) : Prop :=
    exists ru, alookup r (runs s) = Some ru /\ r_wf ru = w /\ r_pc ru = PWaiting.

  Record winv (n w : Z) (s : st) : Prop := mkWinv {
    wi_nonneg : 0 <= s_value (semv n s w);
    wi_sum : s_value (semv n s w) + Z.of_nat (holders w s)
             + Z.of_nat (n_woken (s_waiters (semv n s w))) = n;
    wi_absent : alookup w (sems s) = None -> acount (run_refs w) (runs s) = 0%nat;
    wi_wake : (0 < n_pending (s_waiters (semv n s w)))%nat ->
              s_value (semv n s w) = 0 \/ (0 < n_woken (s_waiters (semv n s w)))%nat;
    wi_waiters : forall r, In r (akeys (s_waiters (semv n s w))) -> waiting_run w r s;
    wi_queued : forall r, waiting_run w r s -> In r (akeys (s_waiters (semv n s w)));
    wi_nodup : NoDup (akeys (s_waiters (semv n s w)))
  }.

  Definition Inv (s : st) : Prop :=
    NoDup (akeys (runs s)) /\ forall w n, limit w = Some n -> 0 <= n -> winv n w s.

  Lemma Inv_init : Inv init.
  Proof.
    split; [constructor|]. intros w n _ Hn. constructor; cbn; try lia; try tauto.
    - unfold holders, n_woken, acount. cbn. lia.
    - intros r (ru & H & _). discriminate.
    - constructor.
  Qed.

  (* -- frame: an action on a run of another instance ----------------------------------- *)

  Lemma waiting_run_upd_other : forall w r0 ru0 ru' r sm s,
    alookup r0 (runs s) = Some ru0 -> r_wf ru0 <> w -> r_wf ru' <> w ->
    (waiting_run w r (mkSt sm (aupd r0 ru' (runs s))) <-> waiting_run w r s).
  Proof.
    intros w r0 ru0 ru' r sm s H0 Hw0 Hw'. unfold waiting_run. cbn [runs].
    destruct (Z.eq_dec r r0) as [->|Hne].
    - rewrite alookup_aupd_same, H0. split; intros (ru & A & B & C).
      + inversion A; subst. contradiction.
      + inversion A; subst. contradiction.
    - rewrite alookup_aupd_other by exact Hne. tauto.
  Qed.

  Lemma count_upd_other : forall (P : run -> bool) r0 ru0 ru' rs,
    NoDup (akeys rs) -> alookup r0 rs = Some ru0 -> P ru0 = false -> P ru' = false ->
    acount P (aupd r0 ru' rs) = acount P rs.
  Proof.
    intros P r0 ru0 ru' rs Hnd H0 A B.
    pose proof (acount_aupd P r0 ru' ru0 rs Hnd H0) as H. rewrite A, B in H. lia.
  Qed.

  Lemma winv_frame_upd : forall n w r0 ru0 ru' sm s,
    NoDup (akeys (runs s)) ->
    alookup r0 (runs s) = Some ru0 -> r_wf ru0 <> w -> r_wf ru' <> w ->
    alookup w sm = alookup w (sems s) ->
    winv n w s -> winv n w (mkSt sm (aupd r0 ru' (runs s))).
  Proof.
    intros n w r0 ru0 ru' sm s Hnd H0 Hw0 Hw' Hsm [A B C D E F G].
    assert (Hsv : semv n (mkSt sm (aupd r0 ru' (runs s))) w = semv n s w).
    { unfold semv. cbn [sems]. rewrite Hsm. reflexivity. }
    assert (Hh : holders w (mkSt sm (aupd r0 ru' (runs s))) = holders w s).
    { unfold holders. cbn [runs]. apply count_upd_other with (ru0 := ru0); try assumption.
      - apply Z.eqb_neq in Hw0. rewrite Hw0. reflexivity.
      - apply Z.eqb_neq in Hw'. rewrite Hw'. reflexivity. }
    constructor; rewrite ?Hsv, ?Hh; try assumption.
    - cbn [sems runs]. rewrite Hsm. intros Hn. rewrite <- (C Hn).
      apply count_upd_other with (ru0 := ru0); try assumption; unfold run_refs.
      + apply Z.eqb_neq in Hw0. rewrite Hw0. reflexivity.
      + apply Z.eqb_neq in Hw'. rewrite Hw'. reflexivity.
    - intros r Hr. apply (waiting_run_upd_other w r0 ru0 ru' r sm s H0 Hw0 Hw'). apply E. exact Hr.
    - intros r Hr. apply F. apply (waiting_run_upd_other w r0 ru0 ru' r sm s H0 Hw0 Hw'). exact Hr.
  Qed.

  (* same, when only the semaphore table changes at another key and the runs stay *)
  Lemma winv_frame_sems : forall n w sm s,
    alookup w sm = alookup w (sems s) -> winv n w s -> winv n w (mkSt sm (runs s)).
  Proof.
    intros n w sm s Hsm [A B C D E F G].
    assert (Hsv : semv n (mkSt sm (runs s)) w = semv n s w).
    { unfold semv. cbn [sems]. rewrite Hsm. reflexivity. }
    constructor; rewrite ?Hsv; try assumption.
    cbn [sems runs]. rewrite Hsm. exact C.
  Qed.

  (* -- the acting instance: write back run r (of w) and a new semaphore state ------------- *)

  Definition b2n (b : bool) : nat := if b then 1%nat else 0%nat.

  Lemma winv_commit : forall n w r ru ru' tab' sm' s,
    NoDup (akeys (runs s)) ->
    alookup r (runs s) = Some ru -> r_wf ru = w -> r_wf ru' = w ->
    winv n w s ->
    match alookup w tab' with Some x => x | None => fresh_sem n end = sm' ->
    (alookup w tab' = None -> alookup w (sems s) = None /\ run_refs w ru' = false) ->
    0 <= s_value sm' ->
    s_value sm' + Z.of_nat (b2n (pc_holding (r_pc ru'))) + Z.of_nat (n_woken (s_waiters sm'))
      = s_value (semv n s w) + Z.of_nat (b2n (pc_holding (r_pc ru))) + Z.of_nat (n_woken (s_waiters (semv n s w))) ->
    ((0 < n_pending (s_waiters sm'))%nat -> s_value sm' = 0 \/ (0 < n_woken (s_waiters sm'))%nat) ->
    (forall x, In x (akeys (s_waiters sm')) ->
       (x <> r /\ In x (akeys (s_waiters (semv n s w)))) \/ (x = r /\ r_pc ru' = PWaiting)) ->
    (forall x, x <> r -> In x (akeys (s_waiters (semv n s w))) -> In x (akeys (s_waiters sm'))) ->
    (r_pc ru' = PWaiting -> In r (akeys (s_waiters sm'))) ->
    NoDup (akeys (s_waiters sm')) ->
    winv n w (mkSt tab' (aupd r ru' (runs s))).
  Proof.
    intros n w r ru ru' tab' sm' s Hnd H0 Hw Hw' [A B C D E F G] Hsv Habs Hnn Hsum Hwake Hkeys Hq1 Hq2 Hnd'.
    set (s' := mkSt tab' (aupd r ru' (runs s))).
    assert (Hsv' : semv n s' w = sm') by (unfold semv; cbn [sems s']; exact Hsv).
    assert (Hh : (holders w s' + b2n (pc_holding (r_pc ru)) = holders w s + b2n (pc_holding (r_pc ru')))%nat).
    { unfold holders. cbn [runs s'].
      pose proof (acount_aupd (fun ru => (r_wf ru =? w) && pc_holding (r_pc ru)) r ru' ru (runs s) Hnd H0) as H.
      cbn beta in H. rewrite Hw, Hw', Z.eqb_refl in H. cbn [andb] in H. unfold b2n. exact H. }
    assert (Hlk : forall x, x <> r -> alookup x (runs s') = alookup x (runs s)).
    { intros x Hx. cbn [runs s']. apply alookup_aupd_other. exact Hx. }
    assert (Hlr : alookup r (runs s') = Some ru').
    { cbn [runs s']. rewrite alookup_aupd_same, H0. reflexivity. }
    constructor; rewrite ?Hsv'.
    - exact Hnn.
    - lia.
    - cbn [sems runs s']. intros Hn. destruct (Habs Hn) as (Hn0 & Hr').
      pose proof (acount_aupd (run_refs w) r ru' ru (runs s) Hnd H0) as H.
      rewrite (C Hn0), Hr' in H. lia.
    - exact Hwake.
    - intros x Hx. destruct (Hkeys x Hx) as [(Hne & Hin)|(-> & Hpc)].
      + destruct (E x Hin) as (rx & P & Q & R). exists rx. rewrite (Hlk x Hne). auto.
      + exists ru'. auto.
    - intros x (rx & P & Q & R). destruct (Z.eq_dec x r) as [->|Hne].
      + rewrite Hlr in P. inversion P; subst rx. apply Hq2. exact R.
      + apply Hq1; [exact Hne|]. apply F. exists rx. rewrite <- (Hlk x Hne). auto.
    - exact Hnd'.
  Qed.
End Inv.
