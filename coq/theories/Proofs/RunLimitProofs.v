(* Proofs/RunLimitProofs.v — C30: invariants of Model/RunLimit.v over all schedules. *)
From Coq Require Import List ZArith Bool Lia.
Import ListNotations.
From WF Require Import Base.SchedRes Model.RunLimit.
Open Scope Z_scope.

(* ---------------------------------------------------------------------------------------- *)
(* waiter deque                                                                              *)

Lemma n_woken_cons : forall r f t, n_woken ((r, f) :: t) = ((if fut_is_woken f then 1 else 0) + n_woken t)%nat.
Proof. intros. apply acount_cons. Qed.

Lemma n_pending_cons : forall r f t, n_pending ((r, f) :: t) = ((if fut_is_pending f then 1 else 0) + n_pending t)%nat.
Proof. intros. apply acount_cons. Qed.

Lemma wake_first_spec : forall ws ws', wake_first ws = Some ws' ->
  n_woken ws' = S (n_woken ws) /\ n_pending ws = S (n_pending ws') /\ akeys ws' = akeys ws.
Proof.
  induction ws as [|[r f] t IH]; intros ws' H; cbn in H; [discriminate|].
  destruct f.
  - inversion H; subst. rewrite !n_woken_cons, !n_pending_cons. cbn. auto.
  - destruct (wake_first t) as [t'|] eqn:E; [|discriminate]. inversion H; subst.
    destruct (IH t' eq_refl) as (A & B & C).
    rewrite !n_woken_cons, !n_pending_cons. cbn [fut_is_woken fut_is_pending akeys map fst].
    unfold akeys in C. rewrite C. repeat split; lia.
  - destruct (wake_first t) as [t'|] eqn:E; [|discriminate]. inversion H; subst.
    destruct (IH t' eq_refl) as (A & B & C).
    rewrite !n_woken_cons, !n_pending_cons. cbn [fut_is_woken fut_is_pending akeys map fst].
    unfold akeys in C. rewrite C. repeat split; lia.
Qed.

Lemma wake_first_none : forall ws, wake_first ws = None -> n_pending ws = 0%nat.
Proof.
  induction ws as [|[r f] t IH]; intros H; [reflexivity|]. cbn in H.
  destruct f; [discriminate| |]; destruct (wake_first t); try discriminate;
    rewrite n_pending_cons; cbn; apply IH; reflexivity.
Qed.

Lemma w_remove_notin : forall r ws, ~ In r (akeys ws) -> w_remove r ws = ws.
Proof.
  induction ws as [|[r' f] t IH]; cbn; intros H; [reflexivity|].
  destruct (r' =? r) eqn:E; [apply Z.eqb_eq in E; exfalso; apply H; left; exact E|].
  f_equal. apply IH. tauto.
Qed.

Lemma w_remove_counts : forall r f ws, alookup r ws = Some f ->
  (n_woken (w_remove r ws) + (if fut_is_woken f then 1 else 0) = n_woken ws)%nat /\
  (n_pending (w_remove r ws) + (if fut_is_pending f then 1 else 0) = n_pending ws)%nat.
Proof.
  induction ws as [|[r' f'] t IH]; cbn [alookup w_remove]; intros H; [discriminate|].
  destruct (r' =? r) eqn:E.
  - inversion H; subst. rewrite n_woken_cons, n_pending_cons. lia.
  - destruct (IH H) as (A & B). rewrite !n_woken_cons, !n_pending_cons. lia.
Qed.

Lemma w_remove_keys_incl : forall r x ws, In x (akeys (w_remove r ws)) -> In x (akeys ws).
Proof.
  induction ws as [|[r' f] t IH]; cbn; [tauto|].
  destruct (r' =? r); cbn; [tauto|]. intros [H|H]; [left; exact H|right; apply IH; exact H].
Qed.

Lemma w_remove_keys_other : forall r x ws, x <> r -> In x (akeys ws) -> In x (akeys (w_remove r ws)).
Proof.
  induction ws as [|[r' f] t IH]; cbn; [tauto|]. intros Hne [H|H].
  - subst r'. destruct (x =? r) eqn:E; [apply Z.eqb_eq in E; contradiction|]. left. reflexivity.
  - destruct (r' =? r); [exact H|]. right. apply IH; assumption.
Qed.

Lemma w_remove_nodup : forall r ws, NoDup (akeys ws) -> NoDup (akeys (w_remove r ws)) /\ ~ In r (akeys (w_remove r ws)).
Proof.
  induction ws as [|[r' f] t IH]; cbn; intros H.
  - split; [constructor|tauto].
  - inversion H as [|? ? Hni Hnd]; subst. destruct (r' =? r) eqn:E.
    + apply Z.eqb_eq in E. subst r'. split; assumption.
    + apply Z.eqb_neq in E. destruct (IH Hnd) as (A & B). cbn. split.
      * constructor; [|exact A]. intros Hin. apply Hni. eapply w_remove_keys_incl. exact Hin.
      * intros [Hin|Hin]; [contradiction|]. apply B. exact Hin.
Qed.

Lemma w_cancel_spec : forall r ws, alookup r ws = Some FPending ->
  n_woken (w_cancel r ws) = n_woken ws /\ n_pending ws = S (n_pending (w_cancel r ws)) /\
  akeys (w_cancel r ws) = akeys ws.
Proof.
  induction ws as [|[r' f] t IH]; cbn [alookup w_cancel]; intros H; [discriminate|].
  destruct (r' =? r) eqn:E.
  - inversion H; subst. rewrite !n_woken_cons, !n_pending_cons. cbn. auto.
  - destruct (IH H) as (A & B & C). rewrite !n_woken_cons, !n_pending_cons.
    cbn [akeys map fst]. unfold akeys in C. rewrite C. repeat split; lia.
Qed.

Lemma n_woken_snoc : forall ws r, n_woken (ws ++ [(r, FPending)]) = n_woken ws.
Proof. intros. unfold n_woken. rewrite acount_app. unfold acount at 2. cbn. lia. Qed.

Lemma n_pending_snoc : forall ws r, n_pending (ws ++ [(r, FPending)]) = S (n_pending ws).
Proof. intros. unfold n_pending. rewrite acount_app. unfold acount at 2. cbn. lia. Qed.

Lemma noncancelled_exists : forall ws,
  existsb (fun w => negb (fut_is_cancelled (snd w))) ws = true -> (0 < n_pending ws \/ 0 < n_woken ws)%nat.
Proof.
  induction ws as [|[r f] t IH]; cbn [existsb snd]; [discriminate|].
  rewrite n_pending_cons, n_woken_cons. destruct f; cbn [fut_is_cancelled fut_is_pending fut_is_woken negb orb]; try lia.
  intros H. destruct (IH H); lia.
Qed.

Lemma all_cancelled_counts : forall ws,
  existsb (fun w => negb (fut_is_cancelled (snd w))) ws = false -> n_pending ws = 0%nat /\ n_woken ws = 0%nat.
Proof.
  induction ws as [|[r f] t IH]; cbn [existsb snd]; [auto|].
  rewrite n_pending_cons, n_woken_cons.
  destruct f; cbn [fut_is_cancelled fut_is_pending fut_is_woken negb orb]; try discriminate. exact IH.
Qed.

Lemma alookup_in_keys : forall (r : Z) (f : futst) ws, alookup r ws = Some f -> In r (akeys ws).
Proof.
  intros r f ws H. destruct (in_dec Z.eq_dec r (akeys ws)) as [i|n]; [exact i|].
  apply alookup_None_notin in n. congruence.
Qed.

(* ---------------------------------------------------------------------------------------- *)
(* run table                                                                                 *)

Definition is_holder (w : Z) (ru : run) : bool := (r_wf ru =? w) && pc_holding (r_pc ru).
Definition is_exec (w : Z) (ru : run) : bool := (r_wf ru =? w) && pc_executing (r_pc ru).

Lemma holders_unfold : forall w s, holders w s = acount (is_holder w) (runs s).
Proof. reflexivity. Qed.

Lemma executing_le_holders : forall w s, (executing w s <= holders w s)%nat.
Proof.
  intros w s. unfold executing, holders. induction (runs s) as [|[k ru] t IH]; [unfold acount; cbn; lia|].
  rewrite !acount_cons. destruct (r_wf ru =? w); cbn; [|exact IH].
  destruct (r_pc ru) as [| |[|a]|]; cbn; lia.
Qed.

Lemma refs_false_count : forall w rs, refs w rs = false <-> acount (run_refs w) rs = 0%nat.
Proof.
  intros w rs. unfold refs. induction rs as [|[k ru] t IH]; cbn; [tauto|].
  rewrite acount_cons. destruct (run_refs w ru); cbn; [split; [discriminate|lia]|exact IH].
Qed.

Lemma holder_refs : forall w ru, is_holder w ru = true -> run_refs w ru = true.
Proof.
  intros w ru. unfold is_holder, run_refs. destruct (r_wf ru =? w); cbn; [|discriminate].
  intros ->. apply orb_true_r.
Qed.

Lemma count_le_refs : forall w rs, (acount (is_holder w) rs <= acount (run_refs w) rs)%nat.
Proof.
  induction rs as [|[k ru] t IH]; [unfold acount; cbn; lia|]. rewrite !acount_cons.
  destruct (is_holder w ru) eqn:E; [rewrite (holder_refs _ _ E); lia|destruct (run_refs w ru); lia].
Qed.

Section Inv.
  Variable limit : Z -> option Z.

  Definition semv (n : Z) (s : st) (w : Z) : sem :=
    match alookup w (sems s) with Some x => x | None => fresh_sem n end.

  Definition waiting_run (w r : Z) (s : st) : Prop :=
    exists ru, alookup r (runs s) = Some ru /\ r_wf ru = w /\ r_pc ru = PWaiting.

  Record winv (n w : Z) (s : st) : Prop := mkWinv {
    wi_nonneg : 0 <= s_value (semv n s w);
    wi_sum : s_value (semv n s w) + Z.of_nat (holders w s)
             + Z.of_nat (n_woken (s_waiters (semv n s w))) = n;
    wi_absent : alookup w (sems s) = None -> acount (run_refs w) (runs s) = 0%nat;
    wi_wake : (0 < n_pending (s_waiters (semv n s w)))%nat ->
              s_value (semv n s w) = 0 \/ (0 < n_woken (s_waiters (semv n s w)))%nat;
    wi_waiters : forall r, In r (akeys (s_waiters (semv n s w))) -> waiting_run w r s;
    wi_queued : forall r, waiting_run w r s -> In r (akeys (s_waiters (semv n s w)));
    wi_nodup : NoDup (akeys (s_waiters (semv n s w)))
  }.

  Definition Inv (s : st) : Prop :=
    NoDup (akeys (runs s)) /\ forall w n, limit w = Some n -> 0 <= n -> winv n w s.

  Lemma Inv_init : Inv init.
  Proof.
    split; [constructor|]. intros w n _ Hn. constructor; cbn; try lia; try tauto.
    - unfold holders, n_woken, acount. cbn. lia.
    - intros r (ru & H & _). discriminate.
    - constructor.
  Qed.

  (* -- frame: an action on a run of another instance ----------------------------------- *)

  Lemma waiting_run_upd_other : forall w r0 ru0 ru' r sm s,
    alookup r0 (runs s) = Some ru0 -> r_wf ru0 <> w -> r_wf ru' <> w ->
    (waiting_run w r (mkSt sm (aupd r0 ru' (runs s))) <-> waiting_run w r s).
  Proof.
    intros w r0 ru0 ru' r sm s H0 Hw0 Hw'. unfold waiting_run. cbn [runs].
    destruct (Z.eq_dec r r0) as [->|Hne].
    - rewrite alookup_aupd_same, H0. split; intros (ru & A & B & C).
      + inversion A; subst. contradiction.
      + inversion A; subst. contradiction.
    - rewrite alookup_aupd_other by exact Hne. tauto.
  Qed.

  Lemma count_upd_other : forall (P : run -> bool) r0 ru0 ru' rs,
    NoDup (akeys rs) -> alookup r0 rs = Some ru0 -> P ru0 = false -> P ru' = false ->
    acount P (aupd r0 ru' rs) = acount P rs.
  Proof.
    intros P r0 ru0 ru' rs Hnd H0 A B.
    pose proof (acount_aupd P r0 ru' ru0 rs Hnd H0) as H. rewrite A, B in H. lia.
  Qed.

  Lemma winv_frame_upd : forall n w r0 ru0 ru' sm s,
    NoDup (akeys (runs s)) ->
    alookup r0 (runs s) = Some ru0 -> r_wf ru0 <> w -> r_wf ru' <> w ->
    alookup w sm = alookup w (sems s) ->
    winv n w s -> winv n w (mkSt sm (aupd r0 ru' (runs s))).
  Proof.
    intros n w r0 ru0 ru' sm s Hnd H0 Hw0 Hw' Hsm [A B C D E F G].
    assert (Hsv : semv n (mkSt sm (aupd r0 ru' (runs s))) w = semv n s w).
    { unfold semv. cbn [sems]. rewrite Hsm. reflexivity. }
    assert (Hh : holders w (mkSt sm (aupd r0 ru' (runs s))) = holders w s).
    { unfold holders. cbn [runs]. apply count_upd_other with (ru0 := ru0); try assumption.
      - apply Z.eqb_neq in Hw0. rewrite Hw0. reflexivity.
      - apply Z.eqb_neq in Hw'. rewrite Hw'. reflexivity. }
    constructor; rewrite ?Hsv, ?Hh; try assumption.
    - cbn [sems runs]. rewrite Hsm. intros Hn. rewrite <- (C Hn).
      apply count_upd_other with (ru0 := ru0); try assumption; unfold run_refs.
      + apply Z.eqb_neq in Hw0. rewrite Hw0. reflexivity.
      + apply Z.eqb_neq in Hw'. rewrite Hw'. reflexivity.
    - intros r Hr. apply (waiting_run_upd_other w r0 ru0 ru' r sm s H0 Hw0 Hw'). apply E. exact Hr.
    - intros r Hr. apply F. apply (waiting_run_upd_other w r0 ru0 ru' r sm s H0 Hw0 Hw'). exact Hr.
  Qed.

  (* same, when only the semaphore table changes at another key and the runs stay *)
  Lemma winv_frame_sems : forall n w sm s,
    alookup w sm = alookup w (sems s) -> winv n w s -> winv n w (mkSt sm (runs s)).
  Proof.
    intros n w sm s Hsm [A B C D E F G].
    assert (Hsv : semv n (mkSt sm (runs s)) w = semv n s w).
    { unfold semv. cbn [sems]. rewrite Hsm. reflexivity. }
    constructor; rewrite ?Hsv; try assumption.
    cbn [sems runs]. rewrite Hsm. exact C.
  Qed.

  (* -- the acting instance: write back run r (of w) and a new semaphore state ------------- *)

  Definition b2n (b : bool) : nat := if b then 1%nat else 0%nat.

  Lemma winv_commit : forall n w r ru ru' tab' sm' s,
    NoDup (akeys (runs s)) ->
    alookup r (runs s) = Some ru -> r_wf ru = w -> r_wf ru' = w ->
    winv n w s ->
    match alookup w tab' with Some x => x | None => fresh_sem n end = sm' ->
    (alookup w tab' = None -> alookup w (sems s) = None /\ run_refs w ru' = false) ->
    0 <= s_value sm' ->
    s_value sm' + Z.of_nat (b2n (pc_holding (r_pc ru'))) + Z.of_nat (n_woken (s_waiters sm'))
      = s_value (semv n s w) + Z.of_nat (b2n (pc_holding (r_pc ru))) + Z.of_nat (n_woken (s_waiters (semv n s w))) ->
    ((0 < n_pending (s_waiters sm'))%nat -> s_value sm' = 0 \/ (0 < n_woken (s_waiters sm'))%nat) ->
    (forall x, In x (akeys (s_waiters sm')) ->
       (x <> r /\ In x (akeys (s_waiters (semv n s w)))) \/ (x = r /\ r_pc ru' = PWaiting)) ->
    (forall x, x <> r -> In x (akeys (s_waiters (semv n s w))) -> In x (akeys (s_waiters sm'))) ->
    (r_pc ru' = PWaiting -> In r (akeys (s_waiters sm'))) ->
    NoDup (akeys (s_waiters sm')) ->
    winv n w (mkSt tab' (aupd r ru' (runs s))).
  Proof.
    intros n w r ru ru' tab' sm' s Hnd H0 Hw Hw' [A B C D E F G] Hsv Habs Hnn Hsum Hwake Hkeys Hq1 Hq2 Hnd'.
    set (s' := mkSt tab' (aupd r ru' (runs s))).
    assert (Hsv' : semv n s' w = sm') by (unfold semv; cbn [sems s']; exact Hsv).
    assert (Hh : (holders w s' + b2n (pc_holding (r_pc ru)) = holders w s + b2n (pc_holding (r_pc ru')))%nat).
    { unfold holders. cbn [runs s'].
      pose proof (acount_aupd (fun ru => (r_wf ru =? w) && pc_holding (r_pc ru)) r ru' ru (runs s) Hnd H0) as H.
      cbn beta in H. rewrite Hw, Hw', Z.eqb_refl in H. cbn [andb] in H. unfold b2n. exact H. }
    assert (Hlk : forall x, x <> r -> alookup x (runs s') = alookup x (runs s)).
    { intros x Hx. cbn [runs s']. apply alookup_aupd_other. exact Hx. }
    assert (Hlr : alookup r (runs s') = Some ru').
    { cbn [runs s']. rewrite alookup_aupd_same, H0. reflexivity. }
    constructor; rewrite ?Hsv'.
    - exact Hnn.
    - lia.
    - cbn [sems runs s']. intros Hn. destruct (Habs Hn) as (Hn0 & Hr').
      pose proof (acount_aupd (run_refs w) r ru' ru (runs s) Hnd H0) as H.
      rewrite (C Hn0), Hr' in H. lia.
    - exact Hwake.
    - intros x Hx. destruct (Hkeys x Hx) as [(Hne & Hin)|(-> & Hpc)].
      + destruct (E x Hin) as (rx & P & Q & R). exists rx. rewrite (Hlk x Hne). auto.
      + exists ru'. auto.
    - intros x (rx & P & Q & R). destruct (Z.eq_dec x r) as [->|Hne].
      + rewrite Hlr in P. inversion P; subst rx. apply Hq2. exact R.
      + apply Hq1; [exact Hne|]. apply F. exists rx. rewrite <- (Hlk x Hne). auto.
    - exact Hnd'.
  Qed.

  Lemma NoDup_snoc : forall (l : list Z) x, NoDup l -> ~ In x l -> NoDup (l ++ [x]).
  Proof.
    induction l as [|a t IH]; cbn; intros x Hnd Hni.
    - constructor; [tauto|constructor].
    - inversion Hnd as [|? ? Ha Ht]; subst. constructor.
      + intros Hin. apply in_app_or in Hin. destruct Hin as [Hin|[Hin|[]]]; [contradiction|].
        subst. apply Hni. left. reflexivity.
      + apply IH; [exact Ht|]. intros Hin. apply Hni. right. exact Hin.
  Qed.

  Lemma refs_present : forall n w r ru s,
    winv n w s -> alookup r (runs s) = Some ru -> run_refs w ru = true -> alookup w (sems s) <> None.
  Proof.
    intros n w r ru s Hi H0 Hr Hn. pose proof (wi_absent _ _ _ Hi Hn) as C.
    rewrite acount_zero_iff in C. rewrite (C r ru (alookup_Some_in _ _ _ H0)) in Hr. discriminate.
  Qed.

  Lemma not_waiting_not_queued : forall n w r ru s,
    winv n w s -> alookup r (runs s) = Some ru -> r_pc ru <> PWaiting ->
    ~ In r (akeys (s_waiters (semv n s w))).
  Proof.
    intros n w r ru s Hi H0 Hpc Hin. destruct (wi_waiters _ _ _ Hi r Hin) as (ru1 & P & Q & R).
    rewrite H0 in P. inversion P; subst. contradiction.
  Qed.

  (* T7: the run changes, the semaphore does not, and the run's classification is unchanged *)
  Lemma winv_setrun : forall n w r ru ru' s,
    NoDup (akeys (runs s)) -> alookup r (runs s) = Some ru -> r_wf ru = w -> r_wf ru' = w ->
    pc_holding (r_pc ru') = pc_holding (r_pc ru) ->
    (r_pc ru' = PWaiting <-> r_pc ru = PWaiting) ->
    (run_refs w ru' = true -> run_refs w ru = true) ->
    winv n w s -> winv n w (set_run r ru' s).
  Proof.
    intros n w r ru ru' s Hnd H0 Hw Hw' Hh Hpw Hrf Hi. unfold set_run.
    apply winv_commit with (ru := ru) (sm' := semv n s w); try assumption; try reflexivity.
    - intros Hn. split; [exact Hn|]. destruct (run_refs w ru') eqn:E; [|reflexivity].
      exfalso. exact (refs_present n w r ru s Hi H0 (Hrf eq_refl) Hn).
    - apply (wi_nonneg _ _ _ Hi).
    - rewrite Hh. reflexivity.
    - apply (wi_wake _ _ _ Hi).
    - intros x Hx. destruct (Z.eq_dec x r) as [->|Hne]; [right|left; auto].
      split; [reflexivity|]. apply Hpw. destruct (wi_waiters _ _ _ Hi r Hx) as (ru1 & P & Q & R).
      rewrite H0 in P. inversion P; subst. exact R.
    - auto.
    - intros Hp. apply (wi_queued _ _ _ Hi). exists ru. split; [exact H0|]. split; [exact Hw|]. apply Hpw. exact Hp.
    - apply (wi_nodup _ _ _ Hi).
  Qed.

  (* T1: first segment of the run task — acquire (fast path or enqueue) *)
  Lemma winv_acquire : forall n w r ru s,
    NoDup (akeys (runs s)) -> alookup r (runs s) = Some ru -> r_wf ru = w -> r_pc ru = PCreated ->
    winv n w s ->
    winv n w (let '(sm', got) := sem_acquire r (semv n s w) in
              commit w sm' r (mkRun w (if got then PHolding 0 else PWaiting) false) s).
  Proof.
    intros n w r ru s Hnd H0 Hw Hpc Hi.
    assert (Hnq : ~ In r (akeys (s_waiters (semv n s w)))).
    { apply (not_waiting_not_queued n w r ru s Hi H0). rewrite Hpc. discriminate. }
    unfold sem_acquire. destruct (sem_locked (semv n s w)) eqn:L; unfold commit.
    - apply winv_commit with (ru := ru) (sm' := mkSem (s_value (semv n s w)) (s_waiters (semv n s w) ++ [(r, FPending)]));
        try assumption; try reflexivity; cbn [s_value s_waiters r_pc r_wf pc_holding].
      + rewrite alookup_aset_same. reflexivity.
      + rewrite alookup_aset_same. discriminate.
      + apply (wi_nonneg _ _ _ Hi).
      + rewrite n_woken_snoc, Hpc. reflexivity.
      + intros _. unfold sem_locked in L. apply orb_true_iff in L. destruct L as [L|L].
        * left. apply Z.eqb_eq. exact L.
        * rewrite n_woken_snoc. destruct (noncancelled_exists _ L) as [P|P]; [|right; exact P].
          apply (wi_wake _ _ _ Hi). exact P.
      + intros x Hx. rewrite akeys_app in Hx. apply in_app_or in Hx. destruct Hx as [Hx|[<-|[]]].
        * left. split; [|exact Hx]. intros ->. contradiction.
        * right. auto.
      + intros x _ Hx. rewrite akeys_app. apply in_or_app. left. exact Hx.
      + intros _. rewrite akeys_app. apply in_or_app. right. left. reflexivity.
      + rewrite akeys_app. apply NoDup_snoc; [apply (wi_nodup _ _ _ Hi)|exact Hnq].
    - unfold sem_locked in L. apply orb_false_iff in L. destruct L as [L1 L2].
      apply Z.eqb_neq in L1. destruct (all_cancelled_counts _ L2) as [P1 P2].
      apply winv_commit with (ru := ru) (sm' := mkSem (s_value (semv n s w) - 1) (s_waiters (semv n s w)));
        try assumption; try reflexivity; cbn [s_value s_waiters r_pc r_wf pc_holding].
      + rewrite alookup_aset_same. reflexivity.
      + rewrite alookup_aset_same. discriminate.
      + pose proof (wi_nonneg _ _ _ Hi). lia.
      + rewrite Hpc. cbn. lia.
      + rewrite P1. lia.
      + intros x Hx. left. split; [|exact Hx]. intros ->. contradiction.
      + auto.
      + discriminate.
      + apply (wi_nodup _ _ _ Hi).
  Qed.

  Lemma wake_up_next_spec : forall sm,
    (wake_up_next sm = sm /\ n_pending (s_waiters sm) = 0%nat) \/
    (s_value (wake_up_next sm) = s_value sm - 1 /\
     n_woken (s_waiters (wake_up_next sm)) = S (n_woken (s_waiters sm)) /\
     n_pending (s_waiters sm) = S (n_pending (s_waiters (wake_up_next sm))) /\
     akeys (s_waiters (wake_up_next sm)) = akeys (s_waiters sm)).
  Proof.
    intros sm. unfold wake_up_next. destruct (wake_first (s_waiters sm)) as [ws'|] eqn:E.
    - right. destruct (wake_first_spec _ _ E) as (A & B & C). cbn. auto.
    - left. split; [reflexivity|]. apply wake_first_none. exact E.
  Qed.

  Lemma wake_up_next_keys : forall sm, akeys (s_waiters (wake_up_next sm)) = akeys (s_waiters sm).
  Proof. intros sm. destruct (wake_up_next_spec sm) as [(-> & _)|(_ & _ & _ & H)]; [reflexivity|exact H]. Qed.

  (* the shape shared by the three resumptions and release: remove r (or nobody), adjust the
     counter, maybe wake the next waiter *)
  Lemma winv_after_wake : forall n w r ru ru' sm1 s,
    NoDup (akeys (runs s)) -> alookup r (runs s) = Some ru -> r_wf ru = w -> r_wf ru' = w ->
    winv n w s -> r_pc ru' <> PWaiting ->
    0 < s_value sm1 ->
    s_value sm1 + Z.of_nat (b2n (pc_holding (r_pc ru'))) + Z.of_nat (n_woken (s_waiters sm1))
      = s_value (semv n s w) + Z.of_nat (b2n (pc_holding (r_pc ru))) + Z.of_nat (n_woken (s_waiters (semv n s w))) ->
    (forall x, In x (akeys (s_waiters sm1)) -> x <> r /\ In x (akeys (s_waiters (semv n s w)))) ->
    (forall x, x <> r -> In x (akeys (s_waiters (semv n s w))) -> In x (akeys (s_waiters sm1))) ->
    NoDup (akeys (s_waiters sm1)) ->
    winv n w (commit w (wake_up_next sm1) r ru' s).
  Proof.
    intros n w r ru ru' sm1 s Hnd H0 Hw Hw' Hi Hpc Hpos Hsum Hk Hq Hnd1. unfold commit.
    apply winv_commit with (ru := ru) (sm' := wake_up_next sm1); try assumption; try reflexivity.
    - rewrite alookup_aset_same. reflexivity.
    - rewrite alookup_aset_same. discriminate.
    - destruct (wake_up_next_spec sm1) as [(-> & _)|(A & _)]; lia.
    - destruct (wake_up_next_spec sm1) as [(-> & _)|(A & B & _)]; lia.
    - intros Hp. destruct (wake_up_next_spec sm1) as [(E & P)|(A & B & _)].
      + rewrite E in Hp. lia.
      + right. lia.
    - intros x Hx. rewrite wake_up_next_keys in Hx. left. apply Hk. exact Hx.
    - intros x Hne Hx. rewrite wake_up_next_keys. apply Hq; assumption.
    - intros Hp. contradiction.
    - rewrite wake_up_next_keys. exact Hnd1.
  Qed.

  (* same without the wake-up (counter may be zero) *)
  Lemma winv_no_wake : forall n w r ru ru' sm1 s,
    NoDup (akeys (runs s)) -> alookup r (runs s) = Some ru -> r_wf ru = w -> r_wf ru' = w ->
    winv n w s -> r_pc ru' <> PWaiting ->
    0 <= s_value sm1 ->
    s_value sm1 + Z.of_nat (b2n (pc_holding (r_pc ru'))) + Z.of_nat (n_woken (s_waiters sm1))
      = s_value (semv n s w) + Z.of_nat (b2n (pc_holding (r_pc ru))) + Z.of_nat (n_woken (s_waiters (semv n s w))) ->
    ((0 < n_pending (s_waiters sm1))%nat -> s_value sm1 = 0 \/ (0 < n_woken (s_waiters sm1))%nat) ->
    (forall x, In x (akeys (s_waiters sm1)) -> x <> r /\ In x (akeys (s_waiters (semv n s w)))) ->
    (forall x, x <> r -> In x (akeys (s_waiters (semv n s w))) -> In x (akeys (s_waiters sm1))) ->
    NoDup (akeys (s_waiters sm1)) ->
    winv n w (commit w sm1 r ru' s).
  Proof.
    intros n w r ru ru' sm1 s Hnd H0 Hw Hw' Hi Hpc Hpos Hsum Hwk Hk Hq Hnd1. unfold commit.
    apply winv_commit with (ru := ru) (sm' := sm1); try assumption; try reflexivity.
    - rewrite alookup_aset_same. reflexivity.
    - rewrite alookup_aset_same. discriminate.
    - intros x Hx. left. apply Hk. exact Hx.
    - intros Hp. contradiction.
  Qed.

  Lemma removed_keys : forall n w r s, winv n w s ->
    (forall x, In x (akeys (w_remove r (s_waiters (semv n s w)))) -> x <> r /\ In x (akeys (s_waiters (semv n s w)))) /\
    (forall x, x <> r -> In x (akeys (s_waiters (semv n s w))) -> In x (akeys (w_remove r (s_waiters (semv n s w))))) /\
    NoDup (akeys (w_remove r (s_waiters (semv n s w)))).
  Proof.
    intros n w r s Hi. destruct (w_remove_nodup r _ (wi_nodup _ _ _ Hi)) as (A & B). repeat split.
    - intros ->. contradiction.
    - eapply w_remove_keys_incl. exact H.
    - intros x Hne Hx. apply w_remove_keys_other; assumption.
    - exact A.
  Qed.

  Lemma aupd_id : forall (r : Z) (ru : run) l, NoDup (akeys l) -> alookup r l = Some ru -> aupd r ru l = l.
  Proof.
    induction l as [|[k v] t IH]; cbn [alookup aupd akeys map fst]; intros Hnd H; [reflexivity|].
    inversion Hnd as [|? ? Hni Hnd']; subst. destruct (k =? r) eqn:E.
    - inversion H; subst. apply Z.eqb_eq in E. subst k. f_equal. apply aupd_notin. exact Hni.
    - f_equal. apply IH; assumption.
  Qed.

  Lemma Inv_upd : forall s r ru ru' tab',
    Inv s -> alookup r (runs s) = Some ru -> r_wf ru' = r_wf ru ->
    (forall w, w <> r_wf ru -> alookup w tab' = alookup w (sems s)) ->
    (forall n, limit (r_wf ru) = Some n -> 0 <= n -> winv n (r_wf ru) (mkSt tab' (aupd r ru' (runs s)))) ->
    Inv (mkSt tab' (aupd r ru' (runs s))).
  Proof.
    intros s r ru ru' tab' [Hnd Hall] H0 Hw Htab Hact. split.
    - cbn [runs]. rewrite akeys_aupd. exact Hnd.
    - intros w n Hl Hn. destruct (Z.eq_dec w (r_wf ru)) as [->|Hne].
      + apply Hact; assumption.
      + apply winv_frame_upd with (ru0 := ru); try assumption.
        * intros E. apply Hne. symmetry. exact E.
        * rewrite Hw. intros E. apply Hne. symmetry. exact E.
        * apply Htab. exact Hne.
        * apply Hall; assumption.
  Qed.

  Lemma Inv_setrun : forall s r ru ru',
    Inv s -> alookup r (runs s) = Some ru -> r_wf ru' = r_wf ru ->
    pc_holding (r_pc ru') = pc_holding (r_pc ru) ->
    (r_pc ru' = PWaiting <-> r_pc ru = PWaiting) ->
    (forall w, run_refs w ru' = true -> run_refs w ru = true) ->
    Inv (set_run r ru' s).
  Proof.
    intros s r ru ru' Hi H0 Hw Hh Hpw Hrf. unfold set_run. apply Inv_upd with (ru := ru); try assumption.
    - reflexivity.
    - intros n Hl Hn. destruct Hi as [Hnd Hall].
      apply (winv_setrun n (r_wf ru) r ru ru' s); auto.
  Qed.

  Lemma semv_some : forall n s w sm, alookup w (sems s) = Some sm -> semv n s w = sm.
  Proof. intros n s w sm H. unfold semv. rewrite H. reflexivity. Qed.

  Theorem step_inv : forall s a, Inv s -> Inv (step limit s a).
  Proof.
    intros s a Hi. pose proof Hi as [Hnd Hall].
    destruct a as [r w1|r|r|r|r|r|w1|]; cbn [step].
    - (* AStart *)
      destruct (alookup r (runs s)) as [ru|] eqn:H0; [exact Hi|]. split.
      + cbn [runs]. rewrite akeys_app. cbn. apply NoDup_snoc; [exact Hnd|].
        apply alookup_None_notin. exact H0.
      + intros w n Hl Hn. destruct (Hall w n Hl Hn) as [A B C D E F G].
        assert (Hsv : semv n (mkSt (sems s) (runs s ++ [(r, mkRun w1 PCreated false)])) w = semv n s w) by reflexivity.
        assert (Hwr : forall x, waiting_run w x (mkSt (sems s) (runs s ++ [(r, mkRun w1 PCreated false)])) <-> waiting_run w x s).
        { intros x. unfold waiting_run. cbn [runs]. rewrite alookup_app. cbn [alookup].
          destruct (alookup x (runs s)) as [rx|] eqn:Ex; [tauto|]. destruct (r =? x).
          - split; intros (ru & P & Q & R); [inversion P; subst; discriminate|discriminate].
          - split; intros (ru & P & _); discriminate. }
        constructor; rewrite ?Hsv; try assumption.
        * unfold holders. cbn [runs]. rewrite acount_app. unfold acount at 2. cbn. rewrite andb_false_r. cbn.
          unfold holders in B. lia.
        * cbn [sems runs]. intros Hn0. rewrite acount_app, (C Hn0). unfold acount. cbn.
          unfold run_refs. cbn. rewrite andb_false_r. reflexivity.
        * intros x Hx. apply Hwr. apply E. exact Hx.
        * intros x Hx. apply F. apply Hwr. exact Hx.
    - (* ARun *)
      destruct (alookup r (runs s)) as [ru|] eqn:H0; [|exact Hi].
      destruct (r_pc ru) eqn:Hpc; try exact Hi.
      + (* PCreated *)
        destruct (r_mc ru) eqn:Hmc.
        * apply Inv_setrun with (ru := ru); auto; cbn; rewrite ?Hpc; try reflexivity.
          -- split; discriminate.
          -- intros w. unfold run_refs. cbn. rewrite andb_false_r. discriminate.
        * destruct (limit (r_wf ru)) as [n|] eqn:Hl.
          -- destruct (sem_acquire r match alookup (r_wf ru) (sems s) with Some x => x | None => fresh_sem n end)
               as [sm' got] eqn:Eacq.
             unfold commit. apply Inv_upd with (ru := ru); try assumption; try reflexivity.
             ++ intros w Hne. apply alookup_aset_other. exact Hne.
             ++ intros n' Hl' Hn'. rewrite Hl in Hl'. inversion Hl'; subst n'.
                pose proof (winv_acquire n (r_wf ru) r ru s Hnd H0 eq_refl Hpc (Hall _ _ Hl Hn')) as W.
                unfold semv in W. rewrite Eacq in W. exact W.
          -- apply Inv_upd with (ru := ru); try assumption; try reflexivity.
             intros n Hl'. rewrite Hl in Hl'. discriminate.
      + (* PWaiting *)
        destruct (alookup (r_wf ru) (sems s)) as [sm|] eqn:Hs; [|exact Hi].
        unfold w_find. destruct (alookup r (s_waiters sm)) as [f|] eqn:Hf; [|exact Hi].
        destruct f; [exact Hi| |].
        * (* woken *)
          destruct (r_mc ru) eqn:Hmc; unfold commit.
          -- (* cancelled although woken *)
             apply Inv_upd with (ru := ru); try assumption; try reflexivity.
             ++ intros w Hne. apply alookup_aset_other. exact Hne.
             ++ intros n Hl Hn. pose proof (Hall _ _ Hl Hn) as W.
                pose proof (semv_some n s _ _ Hs) as Hsv.
                destruct (removed_keys n (r_wf ru) r s W) as (K1 & K2 & K3). rewrite Hsv in K1, K2, K3.
                destruct (w_remove_counts r _ _ Hf) as (C1 & C2). cbn in C1, C2.
                unfold sem_resume_cancel_woken.
                apply (winv_after_wake n (r_wf ru) r ru (mkRun (r_wf ru) PDone true)
                         (mkSem (s_value sm + 1) (w_remove r (s_waiters sm))) s); auto;
                  cbn [r_pc r_wf s_value s_waiters pc_holding b2n]; rewrite ?Hsv, ?Hpc; cbn [pc_holding b2n];
                  try discriminate; try assumption.
                ** pose proof (wi_nonneg _ _ _ W). rewrite Hsv in H. lia.
                ** lia.
          -- apply Inv_upd with (ru := ru); try assumption; try reflexivity.
             ++ intros w Hne. apply alookup_aset_other. exact Hne.
             ++ intros n Hl Hn. pose proof (Hall _ _ Hl Hn) as W.
                pose proof (semv_some n s _ _ Hs) as Hsv.
                destruct (removed_keys n (r_wf ru) r s W) as (K1 & K2 & K3). rewrite Hsv in K1, K2, K3.
                destruct (w_remove_counts r _ _ Hf) as (C1 & C2). cbn in C1, C2.
                pose proof (wi_nonneg _ _ _ W) as Hnn. rewrite Hsv in Hnn.
                unfold sem_resume_ok. cbn [s_value].
                destruct (0 <? s_value sm) eqn:Epos.
                ** apply Z.ltb_lt in Epos.
                   apply (winv_after_wake n (r_wf ru) r ru (mkRun (r_wf ru) (PHolding 0) false)
                            (mkSem (s_value sm) (w_remove r (s_waiters sm))) s); auto;
                     cbn [r_pc r_wf s_value s_waiters pc_holding b2n]; rewrite ?Hsv, ?Hpc; cbn [pc_holding b2n];
                     try discriminate; try assumption.
                   lia.
                ** apply Z.ltb_ge in Epos.
                   apply (winv_no_wake n (r_wf ru) r ru (mkRun (r_wf ru) (PHolding 0) false)
                            (mkSem (s_value sm) (w_remove r (s_waiters sm))) s); auto;
                     cbn [r_pc r_wf s_value s_waiters pc_holding b2n]; rewrite ?Hsv, ?Hpc; cbn [pc_holding b2n];
                     try discriminate; try assumption.
                   --- lia.
                   --- intros _. left. lia.
        * (* future cancelled *)
          unfold commit. apply Inv_upd with (ru := ru); try assumption; try reflexivity.
          -- intros w Hne. apply alookup_aset_other. exact Hne.
          -- intros n Hl Hn. pose proof (Hall _ _ Hl Hn) as W.
             pose proof (semv_some n s _ _ Hs) as Hsv.
             destruct (removed_keys n (r_wf ru) r s W) as (K1 & K2 & K3). rewrite Hsv in K1, K2, K3.
             destruct (w_remove_counts r _ _ Hf) as (C1 & C2). cbn in C1, C2.
             pose proof (wi_nonneg _ _ _ W) as Hnn. rewrite Hsv in Hnn.
             pose proof (wi_wake _ _ _ W) as Hwk. rewrite Hsv in Hwk.
             unfold sem_resume_cancelled.
             apply (winv_no_wake n (r_wf ru) r ru (mkRun (r_wf ru) PDone (r_mc ru))
                      (mkSem (s_value sm) (w_remove r (s_waiters sm))) s); auto;
               cbn [r_pc r_wf s_value s_waiters pc_holding b2n]; rewrite ?Hsv, ?Hpc; cbn [pc_holding b2n];
               try discriminate; try assumption.
             ++ lia.
             ++ intros Hp. destruct Hwk as [Hz|Hz]; [lia|left; exact Hz|right; lia].
    - (* AEnter *)
      destruct (alookup r (runs s)) as [ru|] eqn:H0; [|exact Hi].
      destruct (r_pc ru) eqn:Hpc; try exact Hi.
      apply Inv_setrun with (ru := ru); auto; cbn; rewrite ?Hpc; try reflexivity.
      + split; discriminate.
      + intros w. unfold run_refs. cbn. rewrite Hpc. cbn. auto.
    - (* AExit *)
      destruct (alookup r (runs s)) as [ru|] eqn:H0; [|exact Hi].
      destruct (r_pc ru) as [| |[|a]|] eqn:Hpc; try exact Hi.
      apply Inv_setrun with (ru := ru); auto; cbn; rewrite ?Hpc; try reflexivity.
      + split; discriminate.
      + intros w. unfold run_refs. cbn. rewrite Hpc. cbn. auto.
    - (* AFinish *)
      destruct (alookup r (runs s)) as [ru|] eqn:H0; [|exact Hi].
      destruct (r_pc ru) eqn:Hpc; try exact Hi.
      destruct (limit (r_wf ru)) as [n|] eqn:Hl.
      + destruct (alookup (r_wf ru) (sems s)) as [sm|] eqn:Hs.
        * unfold commit. apply Inv_upd with (ru := ru); try assumption; try reflexivity.
          -- intros w Hne. apply alookup_aset_other. exact Hne.
          -- intros n' Hl' Hn'. pose proof (Hall _ _ Hl' Hn') as W.
             pose proof (semv_some n' s _ _ Hs) as Hsv.
             pose proof (wi_nonneg _ _ _ W) as Hnn. rewrite Hsv in Hnn.
             assert (Hnq : ~ In r (akeys (s_waiters sm))).
             { rewrite <- Hsv. apply (not_waiting_not_queued n' (r_wf ru) r ru s W H0). rewrite Hpc. discriminate. }
             unfold sem_release.
             apply (winv_after_wake n' (r_wf ru) r ru (mkRun (r_wf ru) PDone (r_mc ru))
                      (mkSem (s_value sm + 1) (s_waiters sm)) s); auto;
               cbn [r_pc r_wf s_value s_waiters pc_holding b2n]; rewrite ?Hsv, ?Hpc; cbn [pc_holding b2n];
               try discriminate; try assumption.
             ++ lia.
             ++ lia.
             ++ intros x Hx. split; [|exact Hx]. intros ->. contradiction.
             ++ auto.
             ++ rewrite <- Hsv. apply (wi_nodup _ _ _ W).
        * (* impossible: a holder of a limited instance whose semaphore is gone *)
          unfold set_run. apply Inv_upd with (ru := ru); try assumption; try reflexivity.
          intros n' Hl' Hn'. exfalso.
          apply (refs_present n' (r_wf ru) r ru s (Hall _ _ Hl' Hn') H0); [|exact Hs].
          unfold run_refs. rewrite Z.eqb_refl, Hpc. reflexivity.
      + unfold set_run. apply Inv_upd with (ru := ru); try assumption; try reflexivity.
        intros n Hl'. rewrite Hl in Hl'. discriminate.
    - (* ACancel *)
      destruct (alookup r (runs s)) as [ru|] eqn:H0; [|exact Hi].
      destruct (r_pc ru) eqn:Hpc; try exact Hi.
      + apply Inv_setrun with (ru := ru); auto; cbn; rewrite ?Hpc; try reflexivity.
        intros w. unfold run_refs. cbn. rewrite Hpc. auto.
      + destruct (alookup (r_wf ru) (sems s)) as [sm|] eqn:Hs; [|exact Hi].
        unfold w_find. destruct (alookup r (s_waiters sm)) as [f|] eqn:Hf; [|exact Hi].
        destruct f; [| |exact Hi].
        * (* pending future cancelled *)
          rewrite <- (aupd_id r ru (runs s) Hnd H0) at 1.
          apply Inv_upd with (ru := ru); try assumption; try reflexivity.
          -- intros w Hne. apply alookup_aset_other. exact Hne.
          -- intros n Hl Hn. pose proof (Hall _ _ Hl Hn) as W.
             pose proof (semv_some n s _ _ Hs) as Hsv.
             destruct (w_cancel_spec r _ Hf) as (C1 & C2 & C3).
             pose proof (wi_nonneg _ _ _ W) as Hnn. rewrite Hsv in Hnn.
             pose proof (wi_wake _ _ _ W) as Hwk. rewrite Hsv in Hwk.
             pose proof (wi_nodup _ _ _ W) as Hnd2. rewrite Hsv in Hnd2.
             apply winv_commit with (ru := ru) (sm' := mkSem (s_value sm) (w_cancel r (s_waiters sm)));
               try assumption; try reflexivity; cbn [s_value s_waiters]; rewrite ?Hsv, ?C1, ?C3; try assumption.
             ++ rewrite alookup_aset_same. reflexivity.
             ++ rewrite alookup_aset_same. discriminate.
             ++ reflexivity.
             ++ intros Hp. apply Hwk. lia.
             ++ intros x Hx. destruct (Z.eq_dec x r) as [->|Hne]; [right; auto|left; auto].
             ++ auto.
             ++ intros _. eapply alookup_in_keys. exact Hf.
        * apply Inv_setrun with (ru := ru); auto; cbn; rewrite ?Hpc; try reflexivity.
          intros w. unfold run_refs. cbn. rewrite Hpc. auto.
    - (* AGc *)
      destruct (refs w1 (runs s)) eqn:Hr; [exact Hi|]. apply refs_false_count in Hr. split; [exact Hnd|].
      intros w n Hl Hn. destruct (Z.eq_dec w w1) as [->|Hne].
      + assert (Hsv : semv n (mkSt (adel w1 (sems s)) (runs s)) w1 = fresh_sem n).
        { unfold semv. cbn [sems]. rewrite alookup_adel_same. reflexivity. }
        assert (Hh : holders w1 s = 0%nat).
        { pose proof (count_le_refs w1 (runs s)). unfold holders. unfold is_holder in H. lia. }
        assert (Hnw : forall x, ~ waiting_run w1 x s).
        { intros x (rx & P & Q & R). rewrite acount_zero_iff in Hr.
          pose proof (Hr x rx (alookup_Some_in _ _ _ P)) as Hf. unfold run_refs in Hf.
          rewrite Q, Z.eqb_refl, R in Hf. discriminate. }
        constructor; rewrite ?Hsv; cbn [fresh_sem s_value s_waiters].
        * lia.
        * unfold n_woken, acount; cbn. unfold holders in *. cbn [runs]. lia.
        * intros _. exact Hr.
        * unfold n_pending, acount. cbn. lia.
        * cbn. tauto.
        * intros x Hx. exfalso. exact (Hnw x Hx).
        * constructor.
      + apply winv_frame_sems; [|apply Hall; assumption]. apply alookup_adel_other. exact Hne.
    - exact Hi.
  Qed.

  Theorem reachable_inv : forall sched, Inv (exec limit init sched).
  Proof. intros sched. unfold exec. apply inv_all_schedules; [apply step_inv|apply Inv_init]. Qed.

  Lemma inv_limit : forall s w n, Inv s -> limit w = Some n -> 0 <= n ->
    Z.of_nat (executing w s) <= Z.of_nat (holders w s) /\ Z.of_nat (holders w s) <= n.
  Proof.
    intros s w n [_ Hall] Hl Hn. destruct (Hall w n Hl Hn) as [A B _ _ _ _ _].
    pose proof (executing_le_holders w s). lia.
  Qed.

  (* at most n runs of an instance hold its permit — after every schedule, hence (a prefix of a
     schedule is a schedule) at every moment of every execution *)
  Theorem limit_all_schedules : forall sched w n, limit w = Some n -> 0 <= n ->
    Z.of_nat (executing w (exec limit init sched)) <= n /\ Z.of_nat (holders w (exec limit init sched)) <= n.
  Proof.
    intros sched w n Hl Hn. destruct (inv_limit _ w n (reachable_inv sched) Hl Hn). lia.
  Qed.

  Theorem limit_every_moment : forall sched k w n, limit w = Some n -> 0 <= n ->
    Z.of_nat (executing w (exec limit init (firstn k sched))) <= n.
  Proof. intros. apply limit_all_schedules; assumption. Qed.

  (* the permit accounting itself: free + held + handed-over-but-not-yet-resumed = n *)
  Theorem permits_conserved : forall sched w n, limit w = Some n -> 0 <= n ->
    let s := exec limit init sched in
    0 <= s_value (semv n s w) /\
    s_value (semv n s w) + Z.of_nat (holders w s) + Z.of_nat (n_woken (s_waiters (semv n s w))) = n.
  Proof.
    intros sched w n Hl Hn s. destruct (reachable_inv sched) as [_ Hall].
    destruct (Hall w n Hl Hn) as [A B _ _ _ _ _]. auto.
  Qed.

  (* dropping the semaphore from the weak dictionary is only possible in a state in which a fresh
     Semaphore(n) is indistinguishable from the dropped one *)
  Theorem gc_only_when_fresh : forall sched w n sm, limit w = Some n -> 0 <= n ->
    let s := exec limit init sched in
    alookup w (sems s) = Some sm -> refs w (runs s) = false -> sm = fresh_sem n.
  Proof.
    intros sched w n sm Hl Hn s Hs Hr. destruct (reachable_inv sched) as [_ Hall].
    destruct (Hall w n Hl Hn) as [A B C D E F G]. fold s in A, B, C, D, E, F, G.
    rewrite (semv_some n s w sm Hs) in *. apply refs_false_count in Hr.
    assert (Hh : holders w s = 0%nat).
    { pose proof (count_le_refs w (runs s)). unfold holders. unfold is_holder in H. lia. }
    assert (Hw : s_waiters sm = []).
    { destruct (s_waiters sm) as [|[x f] t] eqn:Ews; [reflexivity|]. exfalso.
      destruct (E x) as (rx & P & Q & R); [left; reflexivity|].
      rewrite acount_zero_iff in Hr. pose proof (Hr x rx (alookup_Some_in _ _ _ P)) as Hf.
      unfold run_refs in Hf. rewrite Q, Z.eqb_refl, R in Hf. discriminate. }
    rewrite Hw, Hh in B. unfold n_woken, acount in B. cbn in B.
    destruct sm as [v ws]. cbn in *. subst ws. unfold fresh_sem. f_equal. lia.
  Qed.

  (* -- no lost wake-up ------------------------------------------------------------------- *)

  Lemma count_pos_exists : forall (P : futst -> bool) ws, (0 < acount P ws)%nat ->
    exists r f, In (r, f) ws /\ P f = true.
  Proof.
    induction ws as [|[r f] t IH]; [unfold acount; cbn; lia|]. rewrite acount_cons.
    destruct (P f) eqn:E.
    - intros _. exists r, f. split; [left; reflexivity|exact E].
    - intros H. destruct IH as (r' & f' & A & B); [lia|]. exists r', f'. split; [right; exact A|exact B].
  Qed.

  Lemma nodup_in_lookup : forall (r : Z) (f : futst) ws, NoDup (akeys ws) -> In (r, f) ws -> alookup r ws = Some f.
  Proof.
    induction ws as [|[k v] t IH]; cbn [alookup akeys map fst]; intros Hnd Hin; [destruct Hin|].
    inversion Hnd as [|? ? Hni Hnd']; subst. destruct Hin as [Hin|Hin].
    - inversion Hin; subst. rewrite Z.eqb_refl. reflexivity.
    - destruct (k =? r) eqn:E.
      + apply Z.eqb_eq in E. subst k. exfalso. apply Hni. change r with (fst (r, f)). apply in_map. exact Hin.
      + apply IH; assumption.
  Qed.

  (* whenever a run of w waits for a wake-up, a permit is either held by a run that can finish or
     already handed to a waiting run that the event loop can resume; with n >= 1 nobody sleeps on a
     free semaphore *)
  Theorem no_lost_wakeup : forall sched w n sm, limit w = Some n -> 1 <= n ->
    let s := exec limit init sched in
    alookup w (sems s) = Some sm -> (0 < n_pending (s_waiters sm))%nat ->
    (0 < holders w s)%nat \/
    (exists r, alookup r (s_waiters sm) = Some FWoken /\ waiting_run w r s).
  Proof.
    intros sched w n sm Hl Hn s Hs Hp. destruct (reachable_inv sched) as [_ Hall].
    assert (Hn0 : 0 <= n) by lia.
    destruct (Hall w n Hl Hn0) as [A B C D E F G]. fold s in A, B, C, D, E, F, G.
    rewrite (semv_some n s w sm Hs) in *.
    assert (Hcase : (0 < holders w s)%nat \/ (0 < n_woken (s_waiters sm))%nat).
    { destruct (D Hp) as [Hz|Hz]; [|right; exact Hz]. lia. }
    destruct Hcase as [Hh|Hw]; [left; exact Hh|right].
    destruct (count_pos_exists _ _ Hw) as (r & f & Hin & Hf). destruct f; try discriminate.
    exists r. split; [apply nodup_in_lookup; assumption|].
    apply E. change r with (fst (r, FWoken)). apply in_map. exact Hin.
  Qed.

  (* every waiting run has its future in the queue (so a release can reach it) *)
  Theorem waiting_run_is_queued : forall sched w n r, limit w = Some n -> 0 <= n ->
    let s := exec limit init sched in
    waiting_run w r s -> exists sm f, alookup w (sems s) = Some sm /\ alookup r (s_waiters sm) = Some f.
  Proof.
    intros sched w n r Hl Hn s Hw. destruct (reachable_inv sched) as [_ Hall].
    pose proof (Hall w n Hl Hn) as W. fold s in W. pose proof (wi_queued _ _ _ W r Hw) as Hq.
    destruct (alookup w (sems s)) as [sm|] eqn:Hs.
    - rewrite (semv_some n s w sm Hs) in Hq. exists sm.
      destruct (alookup r (s_waiters sm)) as [f|] eqn:Hf; [exists f; auto|].
      apply alookup_None_notin in Hf. contradiction.
    - unfold semv in Hq. rewrite Hs in Hq. destruct Hq.
  Qed.

  (* a waiter whose future carries the hand-off is resumed by the next segment of its task *)
  Theorem woken_waiter_resumes : forall s r ru sm,
    alookup r (runs s) = Some ru -> r_pc ru = PWaiting ->
    alookup (r_wf ru) (sems s) = Some sm -> alookup r (s_waiters sm) = Some FWoken ->
    alookup r (runs (step limit s (ARun r)))
      = Some (mkRun (r_wf ru) (if r_mc ru then PDone else PHolding 0) (r_mc ru)).
  Proof.
    intros s r ru sm H0 Hpc Hs Hf. cbn [step]. rewrite H0, Hpc, Hs. unfold w_find. rewrite Hf.
    destruct (r_mc ru); unfold commit; cbn [runs]; rewrite alookup_aupd_same, H0; reflexivity.
  Qed.

  (* a new run is admitted at once when the semaphore is not locked *)
  Theorem fresh_run_admitted : forall s r ru n,
    alookup r (runs s) = Some ru -> r_pc ru = PCreated -> r_mc ru = false -> limit (r_wf ru) = Some n ->
    sem_locked (semv n s (r_wf ru)) = false ->
    alookup r (runs (step limit s (ARun r))) = Some (mkRun (r_wf ru) (PHolding 0) false).
  Proof.
    intros s r ru n H0 Hpc Hmc Hl Hlk. cbn [step]. rewrite H0, Hpc, Hmc, Hl.
    unfold semv in Hlk. unfold sem_acquire. rewrite Hlk. unfold commit. cbn [runs].
    rewrite alookup_aupd_same, H0. reflexivity.
  Qed.
End Inv.

(* ---------------------------------------------------------------------------------------- *)
(* FIFO: position of a pending waiter                                                        *)

Lemma ahead_pending : forall r ws p, ahead r ws = Some p -> alookup r ws = Some FPending.
Proof.
  induction ws as [|[k f] t IH]; cbn [ahead alookup]; intros p H; [discriminate|].
  destruct (k =? r).
  - destruct f; cbn in H; try discriminate. reflexivity.
  - destruct (ahead r t) as [q|]; [|discriminate]. apply (IH q). reflexivity.
Qed.

Lemma ahead_locked : forall r sm p, ahead r (s_waiters sm) = Some p -> sem_locked sm = true.
Proof.
  intros r sm p H. unfold sem_locked. apply orb_true_iff. right.
  apply ahead_pending in H. apply alookup_Some_in in H. apply existsb_exists.
  exists (r, FPending). split; [exact H|reflexivity].
Qed.

Lemma ahead_app : forall r ws l p, ahead r ws = Some p -> ahead r (ws ++ l) = Some p.
Proof.
  induction ws as [|[k f] t IH]; cbn [ahead app]; intros l p H; [discriminate|].
  destruct (k =? r); [exact H|].
  destruct (ahead r t) as [q|] eqn:E; [|discriminate]. rewrite (IH l q eq_refl). exact H.
Qed.

Lemma ahead_remove : forall r r1 ws p, r1 <> r -> alookup r1 ws <> Some FPending ->
  ahead r ws = Some p -> ahead r (w_remove r1 ws) = Some p.
Proof.
  induction ws as [|[k f] t IH]; cbn [ahead alookup w_remove]; intros p Hne Hnp H; [discriminate|].
  destruct (k =? r1) eqn:E1.
  - apply Z.eqb_eq in E1. subst k. destruct (r1 =? r) eqn:E; [apply Z.eqb_eq in E; contradiction|].
    destruct (ahead r t) as [q|]; [|discriminate]. destruct f; cbn in *; congruence.
  - cbn [ahead]. destruct (k =? r); [exact H|].
    destruct (ahead r t) as [q|] eqn:E; [|discriminate]. rewrite (IH q Hne Hnp eq_refl). exact H.
Qed.

Lemma ahead_cancel : forall r r1 ws p, r1 <> r -> ahead r ws = Some p ->
  exists q, ahead r (w_cancel r1 ws) = Some q /\ (q <= p)%nat.
Proof.
  induction ws as [|[k f] t IH]; cbn [ahead w_cancel]; intros p Hne H; [discriminate|].
  destruct (k =? r1) eqn:E1.
  - apply Z.eqb_eq in E1. subst k. cbn [ahead]. destruct (r1 =? r) eqn:E; [apply Z.eqb_eq in E; contradiction|].
    destruct (ahead r t) as [q|]; [|discriminate]. exists q. split; [reflexivity|].
    inversion H. destruct (fut_is_pending f); lia.
  - cbn [ahead]. destruct (k =? r); [exists p; split; [exact H|lia]|].
    destruct (ahead r t) as [q|] eqn:E; [|discriminate].
    destruct (IH q Hne eq_refl) as (q' & A & B). rewrite A. eexists. split; [reflexivity|].
    inversion H. destruct (fut_is_pending f); lia.
Qed.

Lemma ahead_wake : forall r ws p, ahead r ws = Some p ->
  exists ws', wake_first ws = Some ws' /\
    ((p = 0%nat /\ alookup r ws' = Some FWoken) \/ (exists q, p = S q /\ ahead r ws' = Some q)).
Proof.
  induction ws as [|[k f] t IH]; cbn [ahead wake_first]; intros p H; [discriminate|].
  destruct (k =? r) eqn:E.
  - destruct f; cbn in H; try discriminate. inversion H; subst.
    eexists. split; [reflexivity|]. left. split; [reflexivity|]. cbn. rewrite E. reflexivity.
  - destruct (ahead r t) as [q|] eqn:Eq; [|discriminate]. destruct f.
    + eexists. split; [reflexivity|]. right. exists q. cbn in H. inversion H. split; [reflexivity|].
      cbn [ahead]. rewrite E, Eq. reflexivity.
    + destruct (IH q eq_refl) as (t' & A & B). rewrite A. eexists. split; [reflexivity|].
      cbn in H. inversion H; subst. destruct B as [(-> & B)|(q' & -> & B)].
      * left. split; [reflexivity|]. cbn. rewrite E. exact B.
      * right. exists q'. split; [reflexivity|]. cbn [ahead]. rewrite E, B. reflexivity.
    + destruct (IH q eq_refl) as (t' & A & B). rewrite A. eexists. split; [reflexivity|].
      cbn in H. inversion H; subst. destruct B as [(-> & B)|(q' & -> & B)].
      * left. split; [reflexivity|]. cbn. rewrite E. exact B.
      * right. exists q'. split; [reflexivity|]. cbn [ahead]. rewrite E, B. reflexivity.
Qed.

Lemma woken_stays_app : forall (r : Z) ws l, alookup r ws = Some FWoken -> alookup r (ws ++ l) = Some FWoken.
Proof. intros r ws l H. rewrite alookup_app, H. reflexivity. Qed.

Lemma lookup_remove_other : forall r r1 ws, r1 <> r -> alookup r (w_remove r1 ws) = alookup r ws.
Proof.
  induction ws as [|[k f] t IH]; cbn [alookup w_remove]; intros Hne; [reflexivity|].
  destruct (k =? r1) eqn:E1.
  - apply Z.eqb_eq in E1. subst k. destruct (r1 =? r) eqn:E; [apply Z.eqb_eq in E; contradiction|reflexivity].
  - cbn [alookup]. destruct (k =? r); [reflexivity|apply IH; exact Hne].
Qed.

Lemma lookup_cancel_other : forall r r1 ws, r1 <> r -> alookup r (w_cancel r1 ws) = alookup r ws.
Proof.
  induction ws as [|[k f] t IH]; cbn [alookup w_cancel]; intros Hne; [reflexivity|].
  destruct (k =? r1) eqn:E1.
  - apply Z.eqb_eq in E1. subst k. cbn [alookup]. destruct (r1 =? r) eqn:E; [apply Z.eqb_eq in E; contradiction|reflexivity].
  - cbn [alookup]. destruct (k =? r); [reflexivity|apply IH; exact Hne].
Qed.

Lemma woken_stays_wake : forall r ws ws', alookup r ws = Some FWoken -> wake_first ws = Some ws' ->
  alookup r ws' = Some FWoken.
Proof.
  induction ws as [|[k f] t IH]; cbn [alookup wake_first]; intros ws' H W; [discriminate|].
  destruct (k =? r) eqn:E.
  - inversion H; subst f. destruct (wake_first t); inversion W; subst. cbn. rewrite E. reflexivity.
  - destruct f.
    + inversion W; subst. cbn. rewrite E. exact H.
    + destruct (wake_first t) as [t'|] eqn:Et; inversion W; subst. cbn. rewrite E. apply IH; auto.
    + destruct (wake_first t) as [t'|] eqn:Et; inversion W; subst. cbn. rewrite E. apply IH; auto.
Qed.

(* rank of r in the queue: 0 = the permit has been handed to r (future woken), p+1 = pending with
   p pending waiters before it *)
Definition rk (r : Z) (ws : list (Z * futst)) : option nat :=
  match alookup r ws with
  | Some FWoken => Some 0%nat
  | Some FPending => match ahead r ws with Some p => Some (S p) | None => None end
  | _ => None
  end.

Lemma rk_cases : forall r ws k, rk r ws = Some k ->
  (k = 0%nat /\ alookup r ws = Some FWoken) \/ (exists p, k = S p /\ ahead r ws = Some p).
Proof.
  intros r ws k H. unfold rk in H. destruct (alookup r ws) as [[| |]|] eqn:E; try discriminate.
  - destruct (ahead r ws) as [p|] eqn:Ea; [|discriminate]. inversion H. right. exists p. auto.
  - inversion H. left. auto.
Qed.

Lemma rk_of_woken : forall r ws, alookup r ws = Some FWoken -> rk r ws = Some 0%nat.
Proof. intros r ws H. unfold rk. rewrite H. reflexivity. Qed.

Lemma rk_of_ahead : forall r ws p, ahead r ws = Some p -> rk r ws = Some (S p).
Proof. intros r ws p H. unfold rk. rewrite (ahead_pending _ _ _ H), H. reflexivity. Qed.

Lemma rk_locked : forall r sm k, rk r (s_waiters sm) = Some k -> sem_locked sm = true.
Proof.
  intros r sm k H. destruct (rk_cases _ _ _ H) as [(_ & A)|(p & _ & A)].
  - unfold sem_locked. apply orb_true_iff. right. apply existsb_exists.
    exists (r, FWoken). split; [apply alookup_Some_in; exact A|reflexivity].
  - eapply ahead_locked. exact A.
Qed.

Lemma rk_app : forall r ws l k, rk r ws = Some k -> rk r (ws ++ l) = Some k.
Proof.
  intros r ws l k H. destruct (rk_cases _ _ _ H) as [(-> & A)|(p & -> & A)].
  - apply rk_of_woken. apply woken_stays_app. exact A.
  - apply rk_of_ahead. apply ahead_app. exact A.
Qed.

Lemma rk_remove : forall r r1 ws k, r1 <> r -> alookup r1 ws <> Some FPending ->
  rk r ws = Some k -> rk r (w_remove r1 ws) = Some k.
Proof.
  intros r r1 ws k Hne Hnp H. destruct (rk_cases _ _ _ H) as [(-> & A)|(p & -> & A)].
  - apply rk_of_woken. rewrite lookup_remove_other by exact Hne. exact A.
  - apply rk_of_ahead. apply ahead_remove; assumption.
Qed.

Lemma rk_cancel : forall r r1 ws k, r1 <> r -> rk r ws = Some k ->
  exists k', rk r (w_cancel r1 ws) = Some k' /\ (k' <= k)%nat.
Proof.
  intros r r1 ws k Hne H. destruct (rk_cases _ _ _ H) as [(-> & A)|(p & -> & A)].
  - exists 0%nat. split; [|lia]. apply rk_of_woken. rewrite lookup_cancel_other by exact Hne. exact A.
  - destruct (ahead_cancel r r1 ws p Hne A) as (q & B & C). exists (S q). split; [|lia].
    apply rk_of_ahead. exact B.
Qed.

Lemma rk_wake_up_next : forall r sm k, rk r (s_waiters sm) = Some k ->
  rk r (s_waiters (wake_up_next sm)) = Some (pred k).
Proof.
  intros r sm k H. unfold wake_up_next. destruct (rk_cases _ _ _ H) as [(-> & A)|(p & -> & A)].
  - destruct (wake_first (s_waiters sm)) as [ws'|] eqn:E; cbn [s_waiters pred].
    + apply rk_of_woken. eapply woken_stays_wake; eassumption.
    + exact H.
  - destruct (ahead_wake r _ p A) as (ws' & B & C). rewrite B. cbn [s_waiters pred].
    destruct C as [(-> & C)|(q & -> & C)]; [apply rk_of_woken; exact C|apply rk_of_ahead; exact C].
Qed.

Section Progress.
  Variable limit : Z -> option Z.

  (* r is a waiting run of w, not cancel-requested, with rank k in w's queue *)
  Definition W (w r : Z) (k : nat) (s : st) : Prop :=
    exists ru sm, alookup r (runs s) = Some ru /\ r_wf ru = w /\ r_pc ru = PWaiting /\ r_mc ru = false /\
                  alookup w (sems s) = Some sm /\ rk r (s_waiters sm) = Some k.

  (* r holds (or has held and returned) a permit of w *)
  Definition G (w r : Z) (s : st) : Prop :=
    exists ru, alookup r (runs s) = Some ru /\ r_wf ru = w /\ (pc_holding (r_pc ru) = true \/ r_pc ru = PDone).

  Definition is_release (s : st) (a : act) (w : Z) : bool :=
    match a with
    | AFinish r' => match alookup r' (runs s) with
                    | Some ru => (r_wf ru =? w) && pc_holding (r_pc ru)
                    | None => false end
    | _ => false
    end.

  Fixpoint count_releases (s : st) (sched : list act) (w : Z) : nat :=
    match sched with
    | [] => 0
    | a :: t => ((if is_release s a w then 1 else 0) + count_releases (step limit s a) t w)%nat
    end.

  Lemma W_setrun : forall w r k r1 ru1 s, r1 <> r -> W w r k s -> W w r k (set_run r1 ru1 s).
  Proof.
    intros w r k r1 ru1 s Hne (ru & sm & A & B). exists ru, sm. unfold set_run. cbn [runs sems].
    rewrite alookup_aupd_other by (intros E; apply Hne; symmetry; exact E). auto.
  Qed.

  Lemma W_commit_other : forall w r k w1 sm1 r1 ru1 s, r1 <> r -> w1 <> w -> W w r k s -> W w r k (commit w1 sm1 r1 ru1 s).
  Proof.
    intros w r k w1 sm1 r1 ru1 s Hne Hw (ru & sm & A & B & C & D & E & F). exists ru, sm. unfold commit. cbn [runs sems].
    rewrite alookup_aupd_other by (intros X; apply Hne; symmetry; exact X).
    rewrite alookup_aset_other by (intros X; apply Hw; symmetry; exact X). repeat split; assumption.
  Qed.

  Lemma W_commit_same : forall w r k k' sm1 r1 ru1 s, r1 <> r -> W w r k s -> rk r (s_waiters sm1) = Some k' ->
    W w r k' (commit w sm1 r1 ru1 s).
  Proof.
    intros w r k k' sm1 r1 ru1 s Hne (ru & sm & A & B & C & D & E & F) H. exists ru, sm1. unfold commit. cbn [runs sems].
    rewrite alookup_aupd_other by (intros X; apply Hne; symmetry; exact X).
    rewrite alookup_aset_same. repeat split; assumption.
  Qed.

  Lemma G_setrun : forall w r r1 ru1 s, r1 <> r -> G w r s -> G w r (set_run r1 ru1 s).
  Proof.
    intros w r r1 ru1 s Hne (ru & A & B). exists ru. unfold set_run. cbn [runs].
    rewrite alookup_aupd_other by (intros E; apply Hne; symmetry; exact E). auto.
  Qed.

  Lemma G_commit : forall w r w1 sm1 r1 ru1 s, r1 <> r -> G w r s -> G w r (commit w1 sm1 r1 ru1 s).
  Proof.
    intros w r w1 sm1 r1 ru1 s Hne (ru & A & B). exists ru. unfold commit. cbn [runs].
    rewrite alookup_aupd_other by (intros E; apply Hne; symmetry; exact E). auto.
  Qed.

  (* once admitted, always admitted (holding, or done after holding) *)
  Lemma G_stable : forall w r s a, G w r s -> G w r (step limit s a).
  Proof.
    intros w r s a HG. pose proof HG as (ru & A & B & C).
    assert (Hself : forall p m, (pc_holding p = true \/ p = PDone) ->
              G w r (set_run r (mkRun (r_wf ru) p m) s)).
    { intros p m Hp. exists (mkRun (r_wf ru) p m). unfold set_run. cbn [runs]. rewrite alookup_aupd_same, A. auto. }
    assert (Hselfc : forall p m sm1, (pc_holding p = true \/ p = PDone) ->
              G w r (commit (r_wf ru) sm1 r (mkRun (r_wf ru) p m) s)).
    { intros p m sm1 Hp. exists (mkRun (r_wf ru) p m). unfold commit. cbn [runs]. rewrite alookup_aupd_same, A. auto. }
    destruct a as [r1 w1|r1|r1|r1|r1|r1|w1|]; cbn [step]; try exact HG.
    - destruct (alookup r1 (runs s)) eqn:E; [exact HG|]. exists ru. cbn [runs]. rewrite alookup_app, A. auto.
    - destruct (Z.eq_dec r1 r) as [->|Hne].
      + rewrite A. destruct C as [C|C]; [destruct (r_pc ru); try discriminate; exact HG|rewrite C; exact HG].
      + destruct (alookup r1 (runs s)) as [ru1|]; [|exact HG]. destruct (r_pc ru1); try exact HG.
        * destruct (r_mc ru1); [apply G_setrun; assumption|]. destruct (limit (r_wf ru1)); [|apply G_setrun; assumption].
          destruct (sem_acquire _ _). apply G_commit; assumption.
        * destruct (alookup (r_wf ru1) (sems s)); [|exact HG]. destruct (w_find r1 _) as [[| |]|]; try exact HG.
          -- destruct (r_mc ru1); apply G_commit; assumption.
          -- apply G_commit; assumption.
    - destruct (Z.eq_dec r1 r) as [->|Hne].
      + rewrite A. destruct (r_pc ru) eqn:Ep; try exact HG. apply Hself. left. reflexivity.
      + destruct (alookup r1 (runs s)) as [ru1|]; [|exact HG]. destruct (r_pc ru1); try exact HG. apply G_setrun; assumption.
    - destruct (Z.eq_dec r1 r) as [->|Hne].
      + rewrite A. destruct (r_pc ru) as [| |[|a']|] eqn:Ep; try exact HG. apply Hself. left. reflexivity.
      + destruct (alookup r1 (runs s)) as [ru1|]; [|exact HG]. destruct (r_pc ru1) as [| |[|a']|]; try exact HG. apply G_setrun; assumption.
    - destruct (Z.eq_dec r1 r) as [->|Hne].
      + rewrite A. destruct (r_pc ru) eqn:Ep; try exact HG.
        destruct (limit (r_wf ru)); [destruct (alookup (r_wf ru) (sems s))|];
          first [apply Hself; right; reflexivity | apply Hselfc; right; reflexivity].
      + destruct (alookup r1 (runs s)) as [ru1|]; [|exact HG]. destruct (r_pc ru1); try exact HG.
        destruct (limit (r_wf ru1)); [destruct (alookup (r_wf ru1) (sems s))|];
          first [apply G_setrun; assumption | apply G_commit; assumption].
    - destruct (Z.eq_dec r1 r) as [->|Hne].
      + rewrite A. destruct C as [C|C]; [destruct (r_pc ru); try discriminate; exact HG|rewrite C; exact HG].
      + destruct (alookup r1 (runs s)) as [ru1|]; [|exact HG]. destruct (r_pc ru1); try exact HG.
        * apply G_setrun; assumption.
        * destruct (alookup (r_wf ru1) (sems s)); [|exact HG]. destruct (w_find r1 _) as [[| |]|]; try exact HG.
          apply G_setrun; assumption.
    - destruct (refs w1 (runs s)); exact HG.
  Qed.

  Lemma W_refs : forall w r k s, W w r k s -> refs w (runs s) = true.
  Proof.
    intros w r k s (ru & sm & A & B & C & _). unfold refs. apply existsb_exists.
    exists (r, ru). split; [apply alookup_Some_in; exact A|]. unfold run_refs. cbn. rewrite B, Z.eqb_refl, C. reflexivity.
  Qed.

  Lemma W_step : forall w n r k s a, limit w = Some n -> a <> ACancel r -> W w r k s ->
    G w r (step limit s a) \/
    exists k', W w r k' (step limit s a) /\ (k' <= k)%nat /\ (is_release s a w = true -> (k' <= pred k)%nat).
  Proof.
    intros w n r k s a Hl Hna HW. pose proof HW as (ru & sm & A & B & C & D & E & F).
    assert (Hstay : forall a0, is_release s a0 w = false ->
              exists k', W w r k' s /\ (k' <= k)%nat /\ (is_release s a0 w = true -> (k' <= pred k)%nat)).
    { intros a0 H0. exists k. split; [exact HW|]. split; [lia|]. rewrite H0. discriminate. }
    assert (Hkeep : forall s', W w r k s' -> is_release s a w = false ->
              exists k', W w r k' s' /\ (k' <= k)%nat /\ (is_release s a w = true -> (k' <= pred k)%nat)).
    { intros s' H1 H0. exists k. split; [exact H1|]. split; [lia|]. rewrite H0. discriminate. }
    assert (Hle : forall s' k', W w r k' s' -> (k' <= k)%nat -> is_release s a w = false ->
              exists k'', W w r k'' s' /\ (k'' <= k)%nat /\ (is_release s a w = true -> (k'' <= pred k)%nat)).
    { intros s' k' H1 H2 H0. exists k'. split; [exact H1|]. split; [lia|]. rewrite H0. discriminate. }
    destruct a as [r1 w1|r1|r1|r1|r1|r1|w1|]; cbn [step].
    - (* AStart *) right. destruct (alookup r1 (runs s)) eqn:E1; [apply Hstay; reflexivity|].
      apply Hkeep; [|reflexivity]. exists ru, sm. cbn [runs sems]. rewrite alookup_app, A. repeat split; assumption.
    - (* ARun *)
      destruct (Z.eq_dec r1 r) as [->|Hne].
      + rewrite A, C, B, E. unfold w_find. destruct (rk_cases _ _ _ F) as [(-> & Hf)|(p & -> & Hf)].
        * rewrite Hf, D. left. exists (mkRun w (PHolding 0) false). unfold commit. cbn [runs].
          rewrite alookup_aupd_same, A. cbn. auto.
        * rewrite (ahead_pending _ _ _ Hf). right. apply Hstay. reflexivity.
      + right. destruct (alookup r1 (runs s)) as [ru1|] eqn:E1; [|apply Hstay; reflexivity].
        destruct (r_pc ru1) eqn:Ep1; try (apply Hstay; reflexivity).
        * destruct (r_mc ru1); [apply Hkeep; [apply W_setrun; assumption|reflexivity]|].
          destruct (limit (r_wf ru1)) as [n1|]; [|apply Hkeep; [apply W_setrun; assumption|reflexivity]].
          destruct (Z.eq_dec (r_wf ru1) w) as [Ew|Ew].
          -- rewrite Ew, E. unfold sem_acquire. rewrite (rk_locked r sm k F).
             apply Hkeep; [|reflexivity]. apply W_commit_same with (k := k); try assumption. cbn [s_waiters].
             apply rk_app. exact F.
          -- destruct (sem_acquire _ _). apply Hkeep; [|reflexivity]. apply W_commit_other; assumption.
        * destruct (alookup (r_wf ru1) (sems s)) as [sm1|] eqn:Es1; [|apply Hstay; reflexivity].
          unfold w_find. destruct (alookup r1 (s_waiters sm1)) as [[| |]|] eqn:Ef1; try (apply Hstay; reflexivity).
          -- (* woken *)
             destruct (Z.eq_dec (r_wf ru1) w) as [Ew|Ew].
             ++ rewrite Ew in *. rewrite E in Es1. inversion Es1; subst sm1.
                assert (Hrm : rk r (w_remove r1 (s_waiters sm)) = Some k).
                { apply rk_remove; try assumption. rewrite Ef1. discriminate. }
                destruct (r_mc ru1).
                ** apply Hle with (k' := pred k); [|lia|reflexivity].
                   apply W_commit_same with (k := k); try assumption. unfold sem_resume_cancel_woken.
                   apply rk_wake_up_next. cbn [s_waiters]. exact Hrm.
                ** unfold sem_resume_ok. cbn [s_value]. destruct (0 <? s_value sm).
                   --- apply Hle with (k' := pred k); [|lia|reflexivity].
                       apply W_commit_same with (k := k); try assumption.
                       apply rk_wake_up_next. cbn [s_waiters]. exact Hrm.
                   --- apply Hkeep; [|reflexivity]. apply W_commit_same with (k := k); try assumption; try exact Hrm.
             ++ destruct (r_mc ru1); apply Hkeep; try reflexivity; apply W_commit_other; assumption.
          -- (* cancelled future *)
             destruct (Z.eq_dec (r_wf ru1) w) as [Ew|Ew].
             ++ rewrite Ew in *. rewrite E in Es1. inversion Es1; subst sm1.
                apply Hkeep; [|reflexivity]. apply W_commit_same with (k := k); try assumption.
                unfold sem_resume_cancelled. cbn [s_waiters]. apply rk_remove; try assumption. rewrite Ef1. discriminate.
             ++ apply Hkeep; [|reflexivity]. apply W_commit_other; assumption.
    - (* AEnter *) right. destruct (Z.eq_dec r1 r) as [->|Hne].
      + rewrite A, C. apply Hstay. reflexivity.
      + destruct (alookup r1 (runs s)) as [ru1|]; [|apply Hstay; reflexivity].
        destruct (r_pc ru1); try (apply Hstay; reflexivity). apply Hkeep; [apply W_setrun; assumption|reflexivity].
    - (* AExit *) right. destruct (Z.eq_dec r1 r) as [->|Hne].
      + rewrite A, C. apply Hstay. reflexivity.
      + destruct (alookup r1 (runs s)) as [ru1|]; [|apply Hstay; reflexivity].
        destruct (r_pc ru1) as [| |[|a']|]; try (apply Hstay; reflexivity). apply Hkeep; [apply W_setrun; assumption|reflexivity].
    - (* AFinish *) right. destruct (Z.eq_dec r1 r) as [->|Hne].
      + rewrite A, C. apply Hstay. cbn. rewrite A, C. apply andb_false_r.
      + destruct (alookup r1 (runs s)) as [ru1|] eqn:E1; [|apply Hstay; cbn; rewrite E1; reflexivity].
        destruct (r_pc ru1) eqn:Ep1; try (apply Hstay; cbn; rewrite E1, Ep1; apply andb_false_r).
        destruct (Z.eq_dec (r_wf ru1) w) as [Ew|Ew].
        * rewrite Ew, Hl, E. exists (pred k). split; [|split; [lia|intros _; lia]].
          apply W_commit_same with (k := k); try assumption. unfold sem_release.
          apply rk_wake_up_next. cbn [s_waiters]. exact F.
        * assert (Hrel : is_release s (AFinish r1) w = false).
          { cbn [is_release]. rewrite E1, Ep1. apply Z.eqb_neq in Ew. rewrite Ew. reflexivity. }
          destruct (limit (r_wf ru1)); [destruct (alookup (r_wf ru1) (sems s))|].
          -- apply Hkeep; [apply W_commit_other; assumption|exact Hrel].
          -- apply Hkeep; [apply W_setrun; assumption|exact Hrel].
          -- apply Hkeep; [apply W_setrun; assumption|exact Hrel].
    - (* ACancel *) right. destruct (Z.eq_dec r1 r) as [->|Hne]; [contradiction|].
      destruct (alookup r1 (runs s)) as [ru1|] eqn:E1; [|apply Hstay; reflexivity].
      destruct (r_pc ru1) eqn:Ep1; try (apply Hstay; reflexivity).
      + apply Hkeep; [apply W_setrun; assumption|reflexivity].
      + destruct (alookup (r_wf ru1) (sems s)) as [sm1|] eqn:Es1; [|apply Hstay; reflexivity].
        unfold w_find. destruct (alookup r1 (s_waiters sm1)) as [[| |]|] eqn:Ef1; try (apply Hstay; reflexivity).
        * destruct (Z.eq_dec (r_wf ru1) w) as [Ew|Ew].
          -- rewrite Ew in *. rewrite E in Es1. inversion Es1; subst sm1.
             destruct (rk_cancel r r1 (s_waiters sm) k Hne F) as (k' & Hk' & Hle').
             apply Hle with (k' := k'); [|exact Hle'|reflexivity].
             exists ru, (mkSem (s_value sm) (w_cancel r1 (s_waiters sm))). cbn [runs sems s_waiters].
             rewrite alookup_aset_same. repeat split; assumption.
          -- apply Hkeep; [|reflexivity]. exists ru, sm. cbn [runs sems].
             rewrite alookup_aset_other by (intros X; apply Ew; symmetry; exact X). repeat split; assumption.
        * apply Hkeep; [apply W_setrun; assumption|reflexivity].
    - (* AGc *) right. destruct (refs w1 (runs s)) eqn:Er; [apply Hstay; reflexivity|].
      apply Hkeep; [|reflexivity]. destruct (Z.eq_dec w1 w) as [->|Ew].
      + rewrite (W_refs _ _ _ _ HW) in Er. discriminate.
      + exists ru, sm. cbn [runs sems]. rewrite alookup_adel_other by (intros X; apply Ew; symmetry; exact X).
        repeat split; assumption.
    - right. apply Hstay. reflexivity.
  Qed.

  (* FIFO progress: a waiting run with p pending waiters before it owns a permit as soon as p+1
     permits of its instance have been released (rank k = p+1), whatever else is scheduled in
     between — other instances, new arrivals, cancellations of other runs, semaphore drops *)
  Theorem fifo_progress : forall sched w n r k s, limit w = Some n ->
    W w r k s \/ G w r s -> ~ In (ACancel r) sched -> (k <= count_releases s sched w)%nat ->
    W w r 0 (exec limit s sched) \/ G w r (exec limit s sched).
  Proof.
    induction sched as [|a t IH]; intros w n r k s Hl H Hnc Hk.
    - cbn in Hk. assert (k = 0%nat) by lia. subst k. exact H.
    - unfold exec. rewrite run_sched_cons. fold (exec limit (step limit s a) t).
      assert (Hna : a <> ACancel r) by (intros ->; apply Hnc; left; reflexivity).
      assert (Hnc' : ~ In (ACancel r) t) by (intros X; apply Hnc; right; exact X).
      cbn [count_releases] in Hk. destruct H as [HW|HG].
      + destruct (W_step w n r k s a Hl Hna HW) as [HG'|(k' & HW' & Hle & Hrel)].
        * apply (IH w n r 0%nat); auto. lia.
        * apply (IH w n r k'); auto. destruct (is_release s a w); [specialize (Hrel eq_refl)|]; lia.
      + apply (IH w n r 0%nat); auto; [right; apply G_stable; exact HG|lia].
  Qed.

  (* ... and the hand-off turns into execution at the run's next segment *)
  Theorem handed_run_executes : forall w r s, W w r 0 s -> G w r (step limit s (ARun r)).
  Proof.
    intros w r s (ru & sm & A & B & C & D & E & F). cbn [step]. rewrite A, C, B, E. unfold w_find.
    destruct (rk_cases _ _ _ F) as [(_ & Hf)|(p & Hp & _)]; [|discriminate].
    rewrite Hf, D. exists (mkRun w (PHolding 0) false). unfold commit. cbn [runs].
    rewrite alookup_aupd_same, A. cbn. auto.
  Qed.
End Progress.

(* ---------------------------------------------------------------------------------------- *)
(* instances are independent                                                                 *)

Section Indep.
  Variable limit : Z -> option Z.

  (* everything the model knows about instance w: its semaphore entry and its runs *)
  Definition proj (w : Z) (s : st) : option sem * list (Z * run) :=
    (alookup w (sems s), filter (fun kv => r_wf (snd kv) =? w) (runs s)).

  (* the instance an action belongs to, in the state in which it is executed *)
  Definition act_instance (s : st) (a : act) : option Z :=
    match a with
    | AStart _ w => Some w
    | AGc w => Some w
    | ANop => None
    | ARun r | AEnter r | AExit r | AFinish r | ACancel r =>
        match alookup r (runs s) with Some ru => Some (r_wf ru) | None => None end
    end.

  Lemma filter_aupd_other : forall (P : run -> bool) r ru ru' l,
    NoDup (akeys l) -> alookup r l = Some ru -> P ru = false -> P ru' = false ->
    filter (fun kv => P (snd kv)) (aupd r ru' l) = filter (fun kv => P (snd kv)) l.
  Proof.
    induction l as [|[k v] t IH]; cbn [alookup aupd akeys map fst]; intros Hnd H A B; [reflexivity|].
    inversion Hnd as [|? ? Hni Hnd']; subst. destruct (k =? r) eqn:E.
    - inversion H; subst v. apply Z.eqb_eq in E. subst k. cbn [filter snd]. rewrite A, B.
      rewrite aupd_notin by exact Hni. reflexivity.
    - cbn [filter snd]. rewrite (IH Hnd' H A B). reflexivity.
  Qed.

  Lemma proj_upd_other : forall w r ru ru' tab' s,
    NoDup (akeys (runs s)) -> alookup r (runs s) = Some ru -> r_wf ru <> w -> r_wf ru' = r_wf ru ->
    alookup w tab' = alookup w (sems s) ->
    proj w (mkSt tab' (aupd r ru' (runs s))) = proj w s.
  Proof.
    intros w r ru ru' tab' s Hnd H0 Hw Hw' Htab. unfold proj. cbn [sems runs]. rewrite Htab. f_equal.
    apply (filter_aupd_other (fun x => r_wf x =? w) r ru ru'); try assumption.
    - apply Z.eqb_neq. exact Hw.
    - rewrite Hw'. apply Z.eqb_neq. exact Hw.
  Qed.

  (* an action of another instance (start, admission, step, finish, cancel, drop) changes nothing
     that instance w can see *)
  Theorem other_instance_invisible : forall s a w, NoDup (akeys (runs s)) ->
    act_instance s a <> Some w -> proj w (step limit s a) = proj w s.
  Proof.
    intros s a w Hnd Hoth.
    assert (Hset : forall r ru ru', alookup r (runs s) = Some ru -> r_wf ru <> w -> r_wf ru' = r_wf ru ->
              proj w (set_run r ru' s) = proj w s).
    { intros r ru ru' H0 Hw Hw'. unfold set_run. apply proj_upd_other with (ru := ru); auto. }
    assert (Hcom : forall r ru ru' sm', alookup r (runs s) = Some ru -> r_wf ru <> w -> r_wf ru' = r_wf ru ->
              proj w (commit (r_wf ru) sm' r ru' s) = proj w s).
    { intros r ru ru' sm' H0 Hw Hw'. unfold commit. apply proj_upd_other with (ru := ru); auto.
      apply alookup_aset_other. intros X. apply Hw. symmetry. exact X. }
    destruct a as [r w1|r|r|r|r|r|w1|]; cbn [step act_instance] in *; try reflexivity.
    - destruct (alookup r (runs s)); [reflexivity|]. unfold proj. cbn [sems runs]. f_equal.
      rewrite filter_app. cbn. destruct (w1 =? w) eqn:E; [apply Z.eqb_eq in E; congruence|apply app_nil_r].
    - destruct (alookup r (runs s)) as [ru|] eqn:H0; [|reflexivity].
      assert (Hw : r_wf ru <> w) by congruence.
      destruct (r_pc ru); try reflexivity.
      + destruct (r_mc ru); [apply Hset with (ru := ru); auto|].
        destruct (limit (r_wf ru)); [|apply Hset with (ru := ru); auto].
        destruct (sem_acquire _ _). apply Hcom; auto.
      + destruct (alookup (r_wf ru) (sems s)); [|reflexivity]. destruct (w_find r _) as [[| |]|]; try reflexivity.
        * destruct (r_mc ru); apply Hcom; auto.
        * apply Hcom; auto.
    - destruct (alookup r (runs s)) as [ru|] eqn:H0; [|reflexivity].
      assert (Hw : r_wf ru <> w) by congruence.
      destruct (r_pc ru); try reflexivity. apply Hset with (ru := ru); auto.
    - destruct (alookup r (runs s)) as [ru|] eqn:H0; [|reflexivity].
      assert (Hw : r_wf ru <> w) by congruence.
      destruct (r_pc ru) as [| |[|a]|]; try reflexivity. apply Hset with (ru := ru); auto.
    - destruct (alookup r (runs s)) as [ru|] eqn:H0; [|reflexivity].
      assert (Hw : r_wf ru <> w) by congruence.
      destruct (r_pc ru); try reflexivity.
      destruct (limit (r_wf ru)); [destruct (alookup (r_wf ru) (sems s))|];
        first [apply Hcom; auto; fail | apply Hset with (ru := ru); auto].
    - destruct (alookup r (runs s)) as [ru|] eqn:H0; [|reflexivity].
      assert (Hw : r_wf ru <> w) by congruence.
      destruct (r_pc ru); try reflexivity.
      + apply Hset with (ru := ru); auto.
      + destruct (alookup (r_wf ru) (sems s)); [|reflexivity]. destruct (w_find r _) as [[| |]|]; try reflexivity.
        * unfold proj. cbn [sems runs]. rewrite alookup_aset_other by (intros X; apply Hw; symmetry; exact X). reflexivity.
        * apply Hset with (ru := ru); auto.
    - destruct (refs w1 (runs s)); [reflexivity|]. unfold proj. cbn [sems runs].
      rewrite alookup_adel_other; [reflexivity|]. congruence.
  Qed.

  Fixpoint all_other (w : Z) (s : st) (sched : list act) : Prop :=
    match sched with
    | [] => True
    | a :: t => act_instance s a <> Some w /\ all_other w (step limit s a) t
    end.

  (* whatever the other instances do, for however long: w's semaphore and runs are untouched *)
  Theorem others_cannot_interfere : forall sched s w, Inv limit s -> all_other w s sched ->
    proj w (exec limit s sched) = proj w s.
  Proof.
    induction sched as [|a t IH]; intros s w Hi Ho; [reflexivity|].
    destruct Ho as [Ha Ht]. unfold exec. rewrite run_sched_cons. fold (exec limit (step limit s a) t).
    rewrite IH; [|apply step_inv; exact Hi|exact Ht].
    apply other_instance_invisible; [destruct Hi; assumption|exact Ha].
  Qed.
End Indep.

(* ---------------------------------------------------------------------------------------- *)
(* closed examples used by Properties/C30.v                                                  *)

Definition ex_limit (w : Z) : option Z := if w =? 0 then Some 1 else if w =? 1 then Some 2 else None.

(* instance 0 (N=1): run 1 admitted, runs 2 and 3 queue; instance 1 (N=2) admits 4 and 5 meanwhile;
   1 finishes -> permit handed to 2; 2 is cancelled before it resumes -> permit goes on to 3 *)
Definition ex_sched : list act :=
  [AStart 1 0; AStart 2 0; AStart 3 0; ARun 1; ARun 2; ARun 3; AEnter 1;
   AStart 4 1; AStart 5 1; ARun 4; ARun 5; AEnter 4; AEnter 5;
   AExit 1; AFinish 1; ACancel 2; ARun 2; ARun 3; AEnter 3].

Lemma example_run :
  let s := exec ex_limit init ex_sched in
  executing 0 s = 1%nat /\ executing 1 s = 2%nat /\
  alookup 2 (runs s) = Some (mkRun 0 PDone true) /\
  alookup 3 (runs s) = Some (mkRun 0 (PHolding 1) false) /\
  alookup 0 (sems s) = Some (mkSem 0 []).
Proof. vm_compute. repeat split; reflexivity. Qed.

Lemma example_waiting_rank :
  W 0 3 2 (exec ex_limit init (firstn 6 ex_sched)) /\
  count_releases ex_limit (exec ex_limit init (firstn 6 ex_sched))
    [AEnter 1; AExit 1; AFinish 1; ARun 2; AEnter 2; AExit 2; AFinish 2] 0 = 2%nat.
Proof.
  split; [|vm_compute; reflexivity].
  exists (mkRun 0 PWaiting false), (mkSem 0 [(2, FPending); (3, FPending)]).
  vm_compute. repeat split; reflexivity.
Qed.

Lemma example_handoff_in_flight :
  let s := exec ex_limit init (firstn 15 ex_sched) in
  alookup 0 (sems s) = Some (mkSem 0 [(2, FWoken); (3, FPending)]) /\ holders 0 s = 0%nat.
Proof. vm_compute. split; reflexivity. Qed.

