(* C02 at the runner level (Model/Runner.v): add-event ticks are conserved.  Whatever the schedule, while the run is
   live every event that entered the run - the start event, every event queued by a reducer command (returned by a step,
   re-queued as a retry, ...), every event sent by a step body or delivered from outside - is, counted with multiplicity,
   either processed by the reducer exactly once (it is in the tick log), or still waiting in the tick buffer, the
   mailbox or the timer heap; and when the loop blocks, the tick buffer and the mailbox are empty and no timer is due:
   only retries waiting out their delay remain unprocessed. *)
From Coq Require Import List ZArith Bool PeanoNat Lia.
Import ListNotations.
From WF Require Import Model.Engine Model.Runner Proofs.EngineCap Proofs.RunnerReplay.
Open Scope Z_scope.

Definition is_add (t : tick) : bool := match t with TAdd _ _ => true | _ => false end.
Definition adds (l : list tick) : list tick := filter is_add l.
(* counting by an arbitrary observation f (multiset equality as far as any predicate can tell) *)
Definition cntf (f : tick -> bool) (l : list tick) : nat := length (filter f l).

Definition queued_of (cs : list command) : list tick :=
  flat_map (fun c => match c with CQueue a tg _ => [TAdd a tg] | _ => [] end) cs.

(* the commands the reducer returns along a tick log *)
Fixpoint run_cmds (P : policy) (s : state) (tl : list (tick * Z)) : list command :=
  match tl with
  | [] => []
  | (t, now) :: r => match reduce P t s now with Ok (s', cs) => cs ++ run_cmds P s' r | Err _ => [] end
  end.

Definition wticks (l : list (Z * Z * tick)) : list tick := map snd l.

Definition inside (r : rstate) : list tick :=
  adds (ticklog r) ++ adds (tbuf r) ++ adds (mailbox r) ++ adds (wticks (wakeups r)).
Definition entered (P : policy) (s0 : state) (e : event) (r : rstate) : list tick :=
  [TAdd (blank e) None] ++ queued_of (run_cmds P s0 (tlog r)) ++ adds (envlog r).

Record Cons_ok (P : policy) (s0 : state) (e : event) (r : rstate) : Prop := {
  co_replay : Replay_ok P s0 r ;
  co_count : forall f, cntf f (inside r) = cntf f (entered P s0 e r) }.

(* ---------- counting ---------- *)
Lemma cntf_app f a b : cntf f (a ++ b) = (cntf f a + cntf f b)%nat.
Proof. unfold cntf. rewrite filter_app, app_length. reflexivity. Qed.
Lemma adds_app a b : adds (a ++ b) = adds a ++ adds b.
Proof. apply filter_app. Qed.
Lemma queued_of_app a b : queued_of (a ++ b) = queued_of a ++ queued_of b.
Proof. apply flat_map_app. Qed.
Lemma cntf_nil f : cntf f [] = 0%nat.
Proof. reflexivity. Qed.
Lemma cntf_cons f x l : cntf f (x :: l) = (cntf f [x] + cntf f l)%nat.
Proof. change (x :: l) with ([x] ++ l). apply cntf_app. Qed.
Lemma adds_cons x l : adds (x :: l) = adds [x] ++ adds l.
Proof. change (x :: l) with ([x] ++ l). apply adds_app. Qed.

Lemma adds_one_add a tg : adds [TAdd a tg] = [TAdd a tg].
Proof. reflexivity. Qed.
Lemma adds_one_other t : is_add t = false -> adds [t] = [].
Proof. intros H. cbn. rewrite H. reflexivity. Qed.

Lemma run_cmds_app P : forall a b s s1,
  run_ticks P s a = Ok s1 -> run_cmds P s (a ++ b) = run_cmds P s a ++ run_cmds P s1 b.
Proof.
  induction a as [|[t now] r IH]; intros b s s1 H; cbn [run_ticks run_cmds app] in *.
  - inversion H; subst. reflexivity.
  - destruct (reduce P t s now) as [[s' cs]|c]; [|discriminate]. rewrite (IH b s' s1 H), app_assoc. reflexivity.
Qed.

Lemma inside_cnt f r :
  cntf f (inside r) = (cntf f (adds (ticklog r)) + cntf f (adds (tbuf r)) + cntf f (adds (mailbox r)) +
                       cntf f (adds (wticks (wakeups r))))%nat.
Proof. unfold inside. rewrite !cntf_app. lia. Qed.
Lemma entered_cnt f P s0 e r :
  cntf f (entered P s0 e r) = (cntf f [TAdd (blank e) None] + cntf f (queued_of (run_cmds P s0 (tlog r))) +
                               cntf f (adds (envlog r)))%nat.
Proof. unfold entered. rewrite !cntf_app. lia. Qed.

(* ---------- the timer heap ---------- *)
Lemma insert_wakeup_cnt f w : forall l,
  cntf f (adds (wticks (insert_wakeup w l))) = (cntf f (adds [snd w]) + cntf f (adds (wticks l)))%nat.
Proof.
  destruct w as [[tw sw] k]. induction l as [|[[th sh] kh] rest IH]; cbn [insert_wakeup wticks map snd].
  - rewrite cntf_nil. cbn [adds filter]. destruct (is_add k); cbn; lia.
  - destruct (Z.ltb tw th || (Z.eqb tw th && Z.ltb sw sh)).
    + cbn [map snd]. rewrite (adds_cons k), cntf_app. reflexivity.
    + cbn [map snd]. rewrite (adds_cons kh), cntf_app. unfold wticks in IH. rewrite IH.
      rewrite (adds_cons kh (map snd rest)), cntf_app. cbn [snd]. lia.
Qed.

Lemma due_cnt f now : forall l d rest, due now l = (d, rest) ->
  (cntf f (adds d) + cntf f (adds (wticks rest)) = cntf f (adds (wticks l)))%nat.
Proof.
  induction l as [|[[t s] k] l IH]; intros d rest E; cbn [due] in E.
  - inversion E; subst. reflexivity.
  - destruct (Z.leb t now).
    + destruct (due now l) as [d0 r0] eqn:D. inversion E; subst. specialize (IH _ _ eq_refl).
      unfold wticks in *. cbn [map snd]. rewrite (adds_cons k d0), (adds_cons k (map snd l)), !cntf_app. lia.
    + inversion E; subst. cbn [adds filter]. rewrite cntf_nil. lia.
Qed.

(* ---------- executing commands ---------- *)
Lemma do_commands_cons f : forall cs r,
  Runner.outcome (fold_left do_command cs r) = ORunning ->
  let r' := fold_left do_command cs r in
  (cntf f (adds (tbuf r')) + cntf f (adds (wticks (wakeups r'))) =
   cntf f (adds (tbuf r)) + cntf f (adds (wticks (wakeups r))) + cntf f (queued_of cs))%nat /\
  mailbox r' = mailbox r /\ envlog r' = envlog r.
Proof.
  induction cs as [|c t IH]; intros r H; cbn [fold_left] in *.
  { cbn zeta. cbn [queued_of flat_map]. rewrite cntf_nil. repeat split; lia. }
  destruct (IH _ H) as [C [M E]]. cbn zeta in *.
  assert (Runner.outcome (do_command r c) = ORunning) as O1.
  { destruct (Runner.outcome (do_command r c)) eqn:X; [reflexivity|..];
      exfalso; clear -H X; revert H; generalize (do_command r c) X; clear;
      induction t as [|c t IH]; intros r0 X H; cbn [fold_left] in H; try congruence;
      (apply (IH (do_command r0 c)); [unfold do_command; rewrite X; exact X|exact H]). }
  assert (Runner.outcome r = ORunning) as O0.
  { destruct (Runner.outcome r) eqn:X; [reflexivity|..]; unfold do_command in O1; rewrite X in O1; congruence. }
  rewrite C, M, E. change (c :: t) with ([c] ++ t). rewrite queued_of_app, cntf_app.
  unfold do_command in *. rewrite O0 in *.
  destruct c; cbn [queued_of flat_map app]; rewrite ?cntf_nil.
  - (* CRunWorker *) cbn [tbuf wakeups mailbox envlog upd]. repeat split; lia.
  - (* CQueue *) destruct delay as [d|]; [destruct (Z.ltb 0 d)|]; cbn [tbuf wakeups mailbox envlog upd].
    + rewrite insert_wakeup_cnt. cbn [snd]. rewrite adds_one_add. repeat split; lia.
    + rewrite adds_app, cntf_app, adds_one_add. repeat split; lia.
    + rewrite adds_app, cntf_app, adds_one_add. repeat split; lia.
  - destruct k; cbn in O1; discriminate.
  - cbn in O1; discriminate.
  - cbn in O1; discriminate.
  - cbn in O1; discriminate.
  - (* CPublish *) cbn [tbuf wakeups mailbox envlog upd]. repeat split; lia.
  - (* CSchedIdle *) destruct (idle_pending r); cbn [tbuf wakeups mailbox envlog upd].
    + repeat split; lia.
    + rewrite adds_app, cntf_app, (adds_one_other TIdleCheck eq_refl), cntf_nil. repeat split; lia.
  - (* CSchedWaiterTimeout *) cbn [tbuf wakeups mailbox envlog upd]. rewrite insert_wakeup_cnt. cbn [snd].
    rewrite (adds_one_other (TWaiterTimeout step wid) eq_refl), !cntf_nil. repeat split; lia.
Qed.

(* ---------- the drain loop ---------- *)
Lemma drain_outcome P : forall f r, Runner.outcome (drain_ticks P r f) = ORunning -> Runner.outcome r = ORunning.
Proof.
  intros f r H. destruct (Runner.outcome r) eqn:E; [reflexivity|..]; destruct f; cbn [drain_ticks] in H; rewrite E in H; congruence.
Qed.

Lemma Cons_same P s0 e r r2 :
  Cons_ok P s0 e r -> st r2 = st r -> tlog r2 = tlog r -> ticklog r2 = ticklog r -> envlog r2 = envlog r ->
  (forall f, cntf f (adds (tbuf r2)) + cntf f (adds (mailbox r2)) + cntf f (adds (wticks (wakeups r2))) =
             cntf f (adds (tbuf r)) + cntf f (adds (mailbox r)) + cntf f (adds (wticks (wakeups r))))%nat ->
  Cons_ok P s0 e r2.
Proof.
  intros [[R1 R2] C] E1 E2 E3 E4 H. constructor.
  - unfold Replay_ok. rewrite E1, E2, E3. split; assumption.
  - intros f. specialize (C f). specialize (H f). rewrite inside_cnt, entered_cnt in *. rewrite E2, E3, E4. lia.
Qed.

Lemma tick_cons P s0 e r t rest s' cs r1 :
  Cons_ok P s0 e r -> tbuf r = t :: rest -> reduce P t (st r) (clock r) = Ok (s', cs) ->
  st r1 = s' -> tbuf r1 = rest -> mailbox r1 = mailbox r -> wakeups r1 = wakeups r -> envlog r1 = envlog r ->
  ticklog r1 = ticklog r ++ [t] -> tlog r1 = tlog r ++ [(t, clock r)] ->
  Runner.outcome (fold_left do_command cs r1) = ORunning -> Cons_ok P s0 e (fold_left do_command cs r1).
Proof.
  intros [[R1 R2] C] ET H E1 E2 E3 E4 E5 E6 E7 Out.
  destruct (do_commands_replay cs r1) as [S1 [S2 S3]].
  constructor.
  - unfold Replay_ok. rewrite S1, S2, S3, E1, E6, E7. split.
    + rewrite (run_ticks_app P _ [(t, clock r)] _ _ R1). cbn [run_ticks]. rewrite H. reflexivity.
    + rewrite map_app, R2. reflexivity.
  - intros f. destruct (do_commands_cons f cs r1 Out) as [D [M En]]. cbn zeta in D.
    specialize (C f). rewrite inside_cnt, entered_cnt in *.
    rewrite S2, S3, M, En, E3, E5, E6, E7.
    rewrite (run_cmds_app P _ [(t, clock r)] _ _ R1). cbn [run_cmds]. rewrite H, app_nil_r, queued_of_app.
    rewrite E2, E4 in D. rewrite ET in C. rewrite (adds_cons t rest) in C.
    rewrite !adds_app, !cntf_app in *. lia.
Qed.

Lemma drain_cons P s0 e : forall f r, Cons_ok P s0 e r -> Runner.outcome (drain_ticks P r f) = ORunning ->
  Cons_ok P s0 e (drain_ticks P r f).
Proof.
  induction f as [|f IH]; intros r S; cbn [drain_ticks].
  - destruct (Runner.outcome r); intros H; try exact S. destruct (tbuf r); [exact S|discriminate H].
  - destruct (Runner.outcome r) eqn:Or; intros H; try exact S. destruct (tbuf r) as [|t rest] eqn:ET; [exact S|].
    match type of H with context [if ?b then _ else _] => destruct b eqn:Idle end.
    + apply IH; [|exact H]. destruct t; try discriminate Idle.
      eapply Cons_same; [exact S|reflexivity|reflexivity|reflexivity|reflexivity|].
      intros g. cbn [upd tbuf mailbox wakeups]. rewrite ET, (adds_cons TIdleCheck rest), cntf_app.
      rewrite (adds_one_other TIdleCheck eq_refl), cntf_nil. lia.
    + cbn [st clock upd] in *.
      destruct (reduce P t (st r) (clock r)) as [[s' cs]|c] eqn:R; [|discriminate H].
      apply IH; [|exact H]. apply drain_outcome in H.
      eapply (tick_cons P s0 e r t rest s' cs); try eassumption;
        unfold log_idle; destruct (publishes_idle cs); reflexivity.
Qed.

(* ---------- waiting ---------- *)
Lemma wait_cons P s0 e r c r2 : Cons_ok P s0 e r -> wait_step r c = Some r2 -> Cons_ok P s0 e r2.
Proof.
  intros S H. unfold wait_step in H.
  destruct (nth_error (donew r) c) as [[[[s w] ev] rs]|] eqn:N.
  - destruct (has_stop (cfg (st r)) rs); injection H as <-;
      (eapply Cons_same; [exact S|reflexivity|reflexivity|reflexivity|reflexivity|]);
      intros f; cbn [log_fire set_wait tbuf mailbox wakeups]; rewrite adds_app, cntf_app, (adds_one_other (TStep s w ev rs) eq_refl), cntf_nil; lia.
  - destruct (donew r) as [|d0 dr] eqn:Ed; [|discriminate H].
    destruct (mailbox r) as [|t mb] eqn:Em.
    + destruct (due (clock r) (wakeups r)) as [d rest] eqn:Du.
      destruct d as [|d1 dd].
      * destruct (pending r) eqn:Ep; [discriminate H|]. injection H as <-.
        eapply Cons_same; [exact S|reflexivity|reflexivity|reflexivity|reflexivity|].
        intros f. cbn [log_fire set_wait tbuf mailbox wakeups]. rewrite Em. lia.
      * injection H as <-.
        eapply Cons_same; [exact S|reflexivity|reflexivity|reflexivity|reflexivity|].
        intros f. cbn [log_fire set_wait tbuf mailbox wakeups]. rewrite Em, adds_app, cntf_app.
        pose proof (due_cnt f _ _ _ _ Du). lia.
    + injection H as <-.
      eapply Cons_same; [exact S|reflexivity|reflexivity|reflexivity|reflexivity|].
      intros f. cbn [log_fire set_wait tbuf mailbox wakeups]. rewrite Em, adds_app, (adds_cons t mb), !cntf_app. lia.
Qed.

Lemma rub_cons P s0 e : forall f r, Cons_ok P s0 e r -> Runner.outcome (run_until_blocked P r f) = ORunning ->
  Cons_ok P s0 e (run_until_blocked P r f).
Proof.
  induction f as [|f IH]; intros r S; cbn [run_until_blocked].
  - destruct (Runner.outcome r); intros H; try exact S. discriminate H.
  - destruct (Runner.outcome (drain_ticks P r tick_fuel)) eqn:O1; intros H; try (rewrite O1 in H; discriminate H).
    pose proof (drain_cons P s0 e _ _ S O1) as S1.
    destruct (wait_step (drain_ticks P r tick_fuel) 0) as [r2|] eqn:Wt; [|exact S1].
    apply IH; [eapply wait_cons; eassumption|exact H].
Qed.

(* when the loop blocks while the run is live, nothing deliverable is left unprocessed *)
Definition quiescent (r : rstate) : Prop :=
  tbuf r = [] /\ mailbox r = [] /\ donew r = [] /\ pending r = [] /\ fst (due (clock r) (wakeups r)) = [].

Lemma drain_empties P : forall f r, Runner.outcome (drain_ticks P r f) = ORunning -> tbuf (drain_ticks P r f) = [].
Proof.
  induction f as [|f IH]; intros r; cbn [drain_ticks].
  - destruct (Runner.outcome r) eqn:O; intros H; try congruence. destruct (tbuf r) eqn:ET; [exact ET|discriminate H].
  - destruct (Runner.outcome r) eqn:O; intros H; try congruence. destruct (tbuf r) as [|t rest] eqn:ET; [exact ET|].
    match type of H with context [if ?b then _ else _] => destruct b end; [apply IH; exact H|].
    destruct (reduce P t _ _) as [[s' cs]|c]; [apply IH; exact H|discriminate H].
Qed.

Lemma wait_none_quiescent r1 : tbuf r1 = [] -> wait_step r1 0 = None -> quiescent r1.
Proof.
  intros T0 Wt. unfold wait_step in Wt. unfold quiescent.
  destruct (donew r1) as [|d0 dr] eqn:Ed.
  - cbn [nth_error] in Wt. destruct (mailbox r1) as [|t mb]; [|discriminate Wt].
    destruct (due _ _) as [d rest] eqn:Du. destruct d; [|discriminate Wt].
    destruct (pending r1); [|discriminate Wt]. cbn [fst]. repeat split; auto.
  - cbn [nth_error] in Wt. destruct d0 as [[[s w] ev] rs]. destruct (has_stop _ rs); discriminate Wt.
Qed.

Lemma rub_quiescent P : forall f r, Runner.outcome (run_until_blocked P r f) = ORunning -> quiescent (run_until_blocked P r f).
Proof.
  induction f as [|f IH]; intros r; cbn [run_until_blocked].
  - destruct (Runner.outcome r) eqn:O; intros H; cbn in H; congruence.
  - generalize (drain_empties P tick_fuel r). generalize (drain_ticks P r tick_fuel). intros r1 T0.
    destruct (Runner.outcome r1) eqn:O1; intros H; try (rewrite O1 in H; discriminate H).
    destruct (wait_step r1 0) as [r2|] eqn:Wt; [apply IH; exact H|].
    exact (wait_none_quiescent r1 (T0 eq_refl) Wt).
Qed.

(* ---------- environment actions ---------- *)
Definition env_ok (a : action) : Prop :=
  match a with AWorkerDone _ _ sends _ => forallb is_add sends = true | ADeliver t => is_add t = true | AAdvance _ => True end.
Definition Good (P : policy) (s0 : state) (e : event) (r : rstate) : Prop :=
  Runner.outcome r = ORunning -> Cons_ok P s0 e r.

Lemma act_good P s0 e r a : Good P s0 e r -> Good P s0 e (act P r a).
Proof.
  intros G. unfold act. destruct (Runner.outcome r) eqn:O; try exact G.
  specialize (G O). intros H. apply rub_cons; [|exact H].
  destruct G as [[R1 R2] C].
  destruct a as [s w sends rs|t|dt].
  - destruct (take_worker s w (runningw r)) as [[ev run']|] eqn:Tk; [|constructor; [split; assumption|exact C]].
    constructor; [split; assumption|]. intros f. specialize (C f). rewrite inside_cnt, entered_cnt in *.
    cbn [ticklog tbuf mailbox wakeups tlog envlog]. rewrite !adds_app, !cntf_app. lia.
  - constructor; [split; assumption|]. intros f. specialize (C f). rewrite inside_cnt, entered_cnt in *.
    cbn [ticklog tbuf mailbox wakeups tlog envlog]. rewrite !adds_app, !cntf_app. lia.
  - constructor; [split; assumption|]. intros f. specialize (C f). rewrite inside_cnt, entered_cnt in *.
    cbn [ticklog tbuf mailbox wakeups tlog envlog]. lia.
Qed.

Lemma start_cons P s e now : Cons_ok P s e (start s e now).
Proof.
  constructor; [split; reflexivity|]. intros f. rewrite inside_cnt, entered_cnt. cbn [start ticklog tbuf mailbox wakeups tlog envlog].
  cbn [run_cmds queued_of flat_map wticks map]. rewrite adds_one_add. cbn [adds filter]. rewrite !cntf_nil. lia.
Qed.

Lemma run_good P s e now acts : Good P s e (run_at P s e now acts).
Proof.
  unfold run_at.
  assert (Good P s e (run_until_blocked P (start s e now) loop_fuel)) as G0.
  { intros H. apply rub_cons; [apply start_cons|exact H]. }
  revert G0. generalize (run_until_blocked P (start s e now) loop_fuel).
  induction acts as [|a l IH]; intros r G; cbn [fold_left]; [exact G|]. apply IH. apply act_good. exact G.
Qed.

(* C02, runner level *)
Theorem run_conserves_events P s e now acts :
  Runner.outcome (run_at P s e now acts) = ORunning ->
  let r := run_at P s e now acts in
  (forall f, cntf f (adds (ticklog r)) + cntf f (adds (tbuf r)) + cntf f (adds (mailbox r)) + cntf f (adds (wticks (wakeups r))) =
             cntf f [TAdd (blank e) None] + cntf f (queued_of (run_cmds P s (tlog r))) + cntf f (adds (envlog r)))%nat /\
  run_ticks P s (tlog r) = Ok (st r) /\ ticklog r = map fst (tlog r).
Proof.
  intros O. cbn zeta.
  destruct (run_good P s e now acts O) as [[R1 R2] C]. split; [|split; assumption].
  intros f. specialize (C f). rewrite inside_cnt, entered_cnt in C. exact C.
Qed.

Lemma act_quiescent P r a : Runner.outcome (act P r a) = ORunning -> Runner.outcome r = ORunning /\ quiescent (act P r a).
Proof.
  unfold act. destruct (Runner.outcome r) eqn:O; intros H; try (rewrite O in H; discriminate H).
  split; [reflexivity|]. apply rub_quiescent. exact H.
Qed.

Theorem run_blocks_only_when_quiescent P s e now acts :
  Runner.outcome (run_at P s e now acts) = ORunning -> quiescent (run_at P s e now acts).
Proof.
  unfold run_at. destruct acts as [|a l] using rev_ind.
  - cbn [fold_left]. apply rub_quiescent.
  - rewrite fold_left_app. cbn [fold_left]. intros H. apply (act_quiescent P _ a H).
Qed.
