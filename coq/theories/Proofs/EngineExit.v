(* C04 / C31: how a run ends — terminal event paired with the exit command, a raising policy is a normal
   failure, timeout and cancel ticks, and the runner is frozen once an outcome exists. *)
From Coq Require Import List ZArith Bool PeanoNat Lia.
Import ListNotations.
From WF Require Import Model.Engine Model.Runner Proofs.EngineCap Model.ServerPersist Proofs.ServerPersistProofs.
Open Scope Z_scope.

(* a policy that raises behaves exactly like one that says "stop" *)
Definition no_raise (P : policy) : policy :=
  fun p el f x => match P p el f x with PRaise => PStop | d => d end.

Lemma one_result_no_raise P step tev dc now a r :
  one_result P step tev dc now a r = one_result (no_raise P) step tev dc now a r.
Proof.
  unfold one_result, no_raise. destruct r; try reflexivity.
  destruct (pol (w_cfg (k_w a))) as [p|]; [|reflexivity].
  destruct (P p _ _ x); reflexivity.
Qed.

Lemma results_loop_no_raise P step tev dc now : forall rs a,
  results_loop P step tev dc now a rs = results_loop (no_raise P) step tev dc now a rs.
Proof.
  induction rs as [|r t IH]; intro a; cbn [results_loop]; [reflexivity|].
  rewrite <- one_result_no_raise. destruct (one_result P step tev dc now a r); [apply IH|reflexivity].
Qed.

Theorem reduce_no_raise P t s now : reduce P t s now = reduce (no_raise P) t s now.
Proof.
  unfold reduce. destruct t; try reflexivity.
  unfold process_step. destruct (zlookup step (workers s)); [|reflexivity].
  destruct (find_ip wid (inprogress w)); [|reflexivity].
  rewrite <- results_loop_no_raise. reflexivity.
Qed.

(* no tick makes the reducer itself fail because of the policy: error code 3 is dead *)
Lemma one_result_not_err3 P step tev dc now a r : one_result P step tev dc now a r <> Err 3.
Proof.
  unfold one_result. destruct r; try discriminate.
  - destruct o; [destruct (zmem _ _)|..]; discriminate.
  - destruct (match pol _ with Some p => _ | None => _ end);
      repeat match goal with |- context [match ?x with _ => _ end] => destruct x end; discriminate.
  - destruct (Nat.ltb _ _); discriminate.
  - destruct dc; [discriminate|]. intros X; discriminate X.
  - destruct (find_waiter_idx _ _ _); discriminate.
  - destruct dc; [discriminate|]. intros X; discriminate X.
Qed.

(* ---------- timeout and cancel ticks ---------- *)
Theorem timeout_tick P tm s now :
  reduce P (TTimeout tm) s now =
  Ok (with_workers s false (workers s),
      [CPublish (PTimedOut tm (active_steps s)) ; CHalt (HTimeout tm (active_steps s))]).
Proof. cbn [reduce]. unfold check_idle. cbn. reflexivity. Qed.

Lemma active_steps_spec s n :
  In n (active_steps s) <-> exists w, In (n, w) (workers s) /\ inprogress w <> [].
Proof.
  unfold active_steps. rewrite in_map_iff. split.
  - intros [[k w] [E Hin]]. cbn in E. subst. apply filter_In in Hin. destruct Hin as [Hin F]. cbn in F.
    exists w. split; [exact Hin|]. destruct (inprogress w); [discriminate|discriminate].
  - intros [w [Hin Ne]]. exists (n, w). split; [reflexivity|]. apply filter_In. split; [exact Hin|].
    cbn. destruct (inprogress w); [contradiction|reflexivity].
Qed.

Theorem cancel_tick P s now :
  exists cs, reduce P TCancel s now = Ok (s, cs) /\
             (cs = [CPublish PCancelled ; CHalt HCancelled] \/ cs = [CPublish PCancelled ; CHalt HCancelled ; CSchedIdle]).
Proof. cbn [reduce]. destruct (check_idle s); eexists; split; try reflexivity; auto. Qed.

(* ---------- the runner: once an outcome exists nothing happens any more ---------- *)
Theorem exit_freezes_runner P r a : Runner.outcome r <> ORunning -> act P r a = r.
Proof. unfold act. destruct (Runner.outcome r); [contradiction|..]; reflexivity. Qed.

Theorem exit_freezes_runner_all P acts : forall r, Runner.outcome r <> ORunning -> fold_left (act P) acts r = r.
Proof.
  induction acts as [|a t IH]; intros r H; cbn [fold_left]; [reflexivity|].
  rewrite (exit_freezes_runner P r a H). apply IH. exact H.
Qed.

Lemma do_command_after_exit r c : Runner.outcome r <> ORunning -> do_command r c = r.
Proof. unfold do_command. destruct (Runner.outcome r); [contradiction|..]; reflexivity. Qed.

(* commands after the exit command of a tick are not executed: in particular nothing is published *)
Theorem nothing_published_after_exit cs : forall r, Runner.outcome r <> ORunning ->
  published (fold_left do_command cs r) = published r /\ Runner.outcome (fold_left do_command cs r) = Runner.outcome r.
Proof.
  induction cs as [|c t IH]; intros r H; cbn [fold_left]; [split; reflexivity|].
  rewrite (do_command_after_exit r c H). apply IH. exact H.
Qed.
